#!/usr/bin/env python3
"""usage: run_all.py [--tier quick|thorough] [--seeds 0,1,2] [--jobs N] [ids…] — run every check registered in MANIFEST.json
(or the given ids) and print one line each; exit 1 if any check does not end OK"""
import json, os, subprocess, sys, time
from concurrent.futures import ThreadPoolExecutor
V = os.path.abspath(os.path.join(os.path.dirname(os.path.abspath(__file__)), '..'))
args = sys.argv[1:]; tier = 'quick'; seeds = ['0']; jobs = 1
if '--tier' in args: i = args.index('--tier'); tier = args[i + 1]; del args[i:i + 2]
if '--seeds' in args: i = args.index('--seeds'); seeds = args[i + 1].split(','); del args[i:i + 2]
if '--jobs' in args: i = args.index('--jobs'); jobs = int(args[i + 1]); del args[i:i + 2]
man = json.load(open(os.path.join(V, 'MANIFEST.json')))
ids = args or [c['property_id'] for c in man['checks']]
def one(t):
    pid, seed = t; t0 = time.time()
    r = subprocess.run(['./check', pid, '--tier', tier], cwd=V, env=dict(os.environ, VERIF_SEED=seed), text=True,
                       stdout=subprocess.PIPE, stderr=subprocess.STDOUT)
    lines = [l for l in r.stdout.splitlines() if l.startswith(('OK', 'VIOLATION', 'KNOWN-FINDING', 'INFRA'))]
    return pid, seed, r.returncode, time.time() - t0, lines
bad = 0
with ThreadPoolExecutor(jobs) as ex:
    for pid, seed, rc, dt, lines in ex.map(one, [(p, s) for s in seeds for p in ids]):
        print('{} seed={} rc={} {:.0f}s {}'.format(pid, seed, rc, dt, ' | '.join(l[:150] for l in lines)), flush=True)
        bad += rc != 0
sys.exit(1 if bad else 0)
