#!/usr/bin/env python3
"""usage: suite_check.py <worktree-dir> [workers]
runs the qecsim test-suite of the given checkout (with its src/ first on sys.path) and compares with the pinned
baseline: prints the baseline-passing tests that do not pass now. exit 0 = every baseline test still passes."""
import json, subprocess, sys, xml.etree.ElementTree as ET, os, tempfile
d = os.path.abspath(sys.argv[1]); n = sys.argv[2] if len(sys.argv) > 2 else '4'
out = tempfile.mktemp(suffix='.xml', dir='/var/tmp')
env = dict(os.environ, PYTHONPATH=os.path.join(d, 'src'))
subprocess.run('cd {} && /venv/bin/python -m pytest -q -p no:cacheprovider --timeout=900 '
               '--continue-on-collection-errors -n {} --junitxml={} >/dev/null 2>&1'.format(d, n, out), shell=True, env=env)
b = json.load(open('/root/.vp/BASELINE.json'))
sp = set(b['stable_pass'])
passed = set()
for tc in ET.parse(out).getroot().iter('testcase'):
    name = '{}::{}'.format(tc.get('classname'), tc.get('name')).replace(d + '/', '/repo/')
    if not any(ch.tag in ('failure', 'error', 'skipped') for ch in tc):
        passed.add(name)
os.remove(out)
missing = sorted(sp - passed)
print('baseline tests', len(sp), 'passed now', len(passed), 'baseline tests not passing:', len(missing))
for m in missing[:30]:
    print('  ', m)
sys.exit(1 if missing else 0)
