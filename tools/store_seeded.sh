#!/bin/sh
# usage: store_seeded.sh <PID upper> <worktree dir> <prefix letter>   — copies out/m{1,2,3} to seeded/<PID>-<prefix>{1,2,3} and removes the worktree
P=$1; W=$2; L=$3
for k in 1 2 3; do d=/verif/seeded/$P-$L$k; mkdir -p $d; cp $W/out/m$k/patch.diff $W/out/m$k/demo.py $W/out/m$k/notes.md $d/; python3 -c "
import json
json.dump({'property':'$P','source':'fresh sub-agent (later round: told only the property text and a one-line list of already-tried changes) in a scratch worktree','needs':open('$d/notes.md').read()[:1500]}, open('$d/meta.json','w'), indent=1)"; done
git -C /repo worktree remove --force $W
