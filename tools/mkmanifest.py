#!/usr/bin/env python3
"""writes MANIFEST.json from the table below (kept in one place so it is always valid)"""
import json
import os

VERIF = os.path.join(os.path.dirname(os.path.abspath(__file__)), '..')
TB = ('Lean 4.33 kernel + axioms propext/Classical.choice/Quot.sound only (audited per run, no native_decide); '
      'hand-written Lean model tied to /repo/src by the per-run correspondence harness (Python, /venv); '
      'numpy/networkx/scipy/CPython as installed. ')

CHECKS = {
    # id: (category, technique, text, note)
}


def add(pid, category, technique, text, note):
    CHECKS[pid] = (category, technique, text, note)


add('C09', 'proof', 'Lean 4 theorems about an executable model + exhaustive/random correspondence with paulitools',
    'All clauses of the property (string<->bsf bijection, bsp = Pauli-group commutation against an independent 4x4 '
    'table, bilinear/symmetric, matrix forms, weights, ipauli complete/duplicate-free/weight-ordered with its length '
    'formula, pack/unpack round trip for every length) are Lean theorems over unbounded n; the model is tied to '
    'qecsim.paulitools by exact comparison, exhaustive for n<=3 (n<=4 thorough) and random to n=300.',
    TB + 'Modelled rather than verified: qecsim/paulitools.py.')

add('C20', 'proof', 'Lean 4 theorems about an executable model of validate + correspondence on corrupted random codes',
    'validate passes iff the three commutation conditions hold (Lean theorem for any k and any operator sets), the '
    'stacked condition is proved equivalent to the canonical X/Z pairing, the error raised is the first failing check, '
    'logicals = xs then zs, DecodeResult precondition; the model is tied to qecsim.model by exact comparison on random '
    'valid codes (random Clifford images) and every single-operator corruption class.',
    TB + 'Modelled rather than verified: StabilizerCode.validate/logicals, DecodeResult.__init__.')
add('C01', 'proof', 'Lean 4 theorems about an executable model of _run_once + scripted-run correspondence',
    'Syndrome hand-off incl. the periodic t-1 wrap, cancellation of measurement flips in the XOR of rows for every T, '
    'total error, verdict resolution, pass-through for all 16 DecodeResult shapes, error weight and argument '
    'validation are Lean theorems with the decoder answer, step errors and flips universally quantified; tied to '
    'qecsim.app by driving the real run_once/run_once_ftp with a scripted error model, scripted rng and recording '
    'decoder and comparing decoder arguments and the result dict exactly.',
    TB + 'Modelled rather than verified: app._run_once, run_once, run_once_ftp, validators of run/run_ftp. The error '
    'model, rng and decoder are parameters of the model (universally quantified).')

add('C04', 'proof', 'Lean 4 theorems (loop invariant) about an executable model of _run + scripted-history correspondence',
    'Exact stopping index (least index at which a limit is reached, never one more or fewer; non-termination stated), '
    'counts/weights/array totals as folds of the performed runs, never-mis-summed and mismatch-at-first-inconsistent-run, '
    'aggregate statistics incl. population variance, are Lean theorems for every outcome history and every pair of '
    'limits; tied to qecsim.app.run/run_ftp by scripted histories through the real loop, comparing call counts and every '
    'field (floats bit-exactly through the documented float expressions), value types and json.dumps.',
    TB + 'Modelled rather than verified: app._run, _add_rate_statistics. Float rounding of the two rates and of pvariance '
    'is recomputed in the harness (IEEE-754 / statistics.pvariance trusted).')
add('C05', 'proof', 'Lean 4 theorems (canonical-form invariant) about an executable model of merge + record-multiset correspondence',
    'Grouping by exactly the seven key fields, conservation of all scalar and array totals, rates from sums, '
    'permutation / partition / nesting / idempotence / JSON and legacy-representation invariance and the symmetric '
    'mismatch criterion are Lean theorems for every record multiset; tied to qecsim.app.merge by single-call equivalence '
    '(output order included) on generated multisets with closure (merge outputs fed back), plus metamorphic checks on the '
    'real merge and input immutability.',
    TB + 'Modelled rather than verified: app.merge. wall_time is summed in exact rationals in the model; the harness uses '
    'dyadic wall times so the float sums are exact.')

add('C18', 'proof', 'Lean 4 theorems about an executable model of the JSON-lines reader state machine + generated-file call-sequence correspondence',
    'Serving exactly the recorded errors in file order from the start offset (never repeating, inventing or skipping), '
    'header exposure, EOF finality, refusal of a wrong probability / qubit count, rejection of malformed files '
    '(missing / repeated keys, invalid or shadowing attribute names, bad start, non-record or invalid JSON reached by '
    'generate) and irrelevance of comment / blank lines are Lean theorems for every file layout, header grouping and '
    'call sequence; tied to FileErrorModel by generated files driven through random call sequences past EOF with the '
    'outcome sequence compared exactly, plus the repository fixture files.',
    TB + 'Modelled rather than verified: models/generic/_fileerrormodel.py (FileErrorModel, _JSONLines), paulitools.unpack. '
    'json.loads is external (each line carries its token, supplied by the harness from the real json.loads); Unicode '
    'whitespace is outside the generator (ASCII).')

add('C15', 'proof', 'Lean 4 theorems (all sizes, all ordered pairs) about executable lattice models + all-pairs correspondence',
    'For the planar, toric and rotated-toric families, for EVERY lattice size and every ordered pair of same-type plaquettes '
    '(real, boundary-virtual on the planar code, arbitrary integers reduced modulo the lattice on the tori): the path operator '
    'anticommutes with a stabilizer generator iff that generator is exactly one of the two endpoints (nothing when they '
    'coincide), as a single generator and as the full syndrome vector; weight = decoder distance; translation reaches b, is '
    'the shortest residue with the code\'s tie-break, has symmetric length and raises exactly on mixed types; plaquette '
    'support; syndrome-bit round trip; plaquette index list = in-lattice plaquettes once each in the code\'s order — 51 Lean '
    'theorems. Tied to the code by exact comparison of path / translation / distance / virtual plaquette / support / '
    'syndrome-index maps for all sizes up to the bound and all pairs (sampled above a budget in the quick tier), plus the '
    'property evaluated directly on the real code for every pair.',
    TB + 'Modelled rather than verified: planar/_planarcode.py, _planarpauli.py, toric/_toriccode.py, _toricpauli.py, '
    'rotatedtoric/_rotatedtoriccode.py, _rotatedtoricpauli.py and the decoders\' distance functions.')
add('C07', 'proof', 'Lean 4 theorems: ValidCode for ALL accepted sizes of all five lattice families, basic codes by kernel evaluation + all-sizes-up-to-bound matrix correspondence and direct rank/commutation monitors',
    'A generic, dimension-theory-free definition ValidCode n k S Lx Lz (row lengths, pairwise commutation, canonical '
    'pairing, rank n-k as an independent spanning sub-family, logical independence) with independence-from-destabiliser '
    'and independence-from-pairing lemmas; proved for ALL accepted sizes of the planar (R,C>=2), toric (R,C>=2, k=2), '
    'rotated-toric (even R,C>=2, k=2), rotated-planar (R,C>=3) and colour 6.6.6 (odd size>=3) families — flatten bijection '
    'onto [0,n), n and stabilizer-count formulas (incl. the float-safety of the colour n formula), commutation, pairing, '
    'rank via explicit destabilisers (paths / runs to a reference plaquette or boundary) and explicit dependencies (each '
    'site lies in exactly two plaquettes of a type on the tori), constructor domain over a Python value universe, '
    'site/plaquette read-back — and for the five-qubit and Steane codes by kernel evaluation; the planar path-to-nearest-virtual-plaquette family is a destabiliser family for all sizes (Props/C07/PlanarPath.lean): 101 theorems. Tied to the code '
    'for every family by exact equality of stabilizers / logicals / n_k_d / index maps / constructor outcomes with the '
    'executable Lean models for every size up to the bound, and C07 itself (commutation, pairing, GF(2) rank n-k by '
    'elimination, logical independence) evaluated directly on the real matrices.',
    TB + 'Modelled rather than verified: the code and pauli classes of all five lattice families and models/basic.py.')
add('C13', 'proof', 'Lean 4 theorems about the graph wrapper and a verified exact minimum-weight-perfect-matching oracle + real mwpm output checked against the oracle',
    'SimpleGraph.add_edge (no pair in both orientations, last write wins), the networkx wrapper (empty graph, weight negation, '
    'max-cardinality: among perfect matchings maximising the negated weight = minimising the weight; with a perfect matching '
    'present every maximum-cardinality matching is perfect), a matching checker (true iff every node is covered exactly once '
    'by graph edges) and an exact optimum minPM (= the minimum over all perfect matchings, none iff there is none) are Lean '
    'theorems for all finite graphs and rational weights. Edmonds\' algorithm inside networkx is outside /repo and is NOT '
    'modelled: on every run the real gt.mwpm output (planted random graphs, exhaustive 4-node weight classes, graphs '
    'captured from the five MWPM decoders) is checked by the verified checker and its exact weight compared with minPM. '
    'The Blossom V path (gt.mwpm dispatch, mwpm_blossom5, blossom5.mwpm / mwpm_ids, weight_to_int_fn as applied) is exercised in '
    'child processes against a stand-in libpypm.so built by the harness (exact bitmask DP with the same C interface): node-id '
    'mapping, ctypes conversion, mates set and integer scaling are compared with the Lean wrapper model Model/Blossom5.lean (the arrays the C routine '
    'actually received, traced on the C side, its mates array and the Python result = the driver\'s output with clib := the recorded answer), and optimality is judged '
    'within the rounding allowance proved in Props/C13/Blossom.lean (scaled optimum within (n/2)/s of the true optimum, exact '
    'when the documented rule is the identity; scaled weights fit a C int) — 19 theorems.',
    TB + 'networkx max_weight_matching is trusted only through the per-run comparison with the verified optimum; the real Blossom V '
    'C library is absent and unverified (a harness-built stand-in replaces it; nothing is claimed about the real library).')
add('C17', 'proof', 'Lean 4 theorems about an inverse-CDF stream model + bit-exact prediction of every generated error and flip from a twin generator',
    'With the generator abstracted as a stream of uniforms consumed left to right: the error has 2n bits, qubit i depends on '
    'uniform i only, the preimage of each Pauli is the half-open interval between consecutive cumulative probabilities (so '
    'its length is the stated probability and a zero-probability Pauli is never produced), X sets bit i / Z bit n+i / Y '
    'both, measurement flips are set iff u >= 1-q (never at q=0 with no draws, always at q=1), default q, and the order of '
    'consumption across steps and runs — 22 Lean theorems for all n, distributions and streams. Tied to the code by '
    'predicting bit-for-bit every error generated by every IID model (n = 4..400) and every flip pattern received by a '
    'recording FTP decoder from a twin numpy generator; numpy choice = searchsorted on the normalised cumsum is re-checked '
    'on every run. The distributional clauses themselves are theorems too (Props/C17/Measure.lean, Lebesgue measure on '
    '[0,1)^n): IF the consumed uniforms are i.i.d. uniform THEN each qubit suffers I/X/Y/Z with exactly the model\'s '
    'probabilities, qubits are independent (product law, equality of measures), each syndrome bit flips with probability q '
    'independently, and a whole FTP step / run has the product law — also on the actual 2^-53 grid (error < 2^-53 per '
    'letter; for a whole n-qubit error |grid count / N^n - prod d| <= n/N and <= (n+m)/N for an FTP step, l1 <= 4n/N), as an equality of measures for T-step runs, and at STREAM level (Props/C17/MeasureMore.lean): under the infinite product of uniform laws on the stream the push-forward of a run from ANY position is the T-fold product of the step law and consecutive runs are independent — 92 theorems in total. Uniformity/independence of PCG64 is trusted; a chi-square test and an exact binomial '
    'test at extreme q are reported as supporting tests only.',
    TB + 'numpy Generator.choice consumption contract re-validated each run; PCG64 statistical quality trusted.')
add('C12', 'proof', 'Lean 4 theorems: shape/control-flow model of the sweeps (singular values as oracle input) + the algebraic contracts over R with the QR/SVD factorisation as hypothesis; exact shape correspondence and numeric contract monitors',
    'Shape model (all lengths, dimensions, oracle lists): contiguity errors, QR-vs-SVD choice by mask, kept rank <= chi and '
    '<= min(rows, cols), mask reversal in the right canonical form, truncate is the identity exactly when its guard says so, '
    'zero detection gives zeros_like with norm 0 and no later division, consistent output bonds <= chi. Algebraic model over '
    'the reals with each factorisation (M = QR, QtQ = 1; M = U diag(s) W, UtU = 1, WWt = 1) as an explicit hypothesis = the '
    'LAPACK oracle contract: a sweep preserves the represented tensor up to the accumulated norm, all sites but the centre '
    'are isometries, the normalised result has unit norm, and for a truncating sweep the squared distance equals the '
    'accumulated discarded weight (an equality, so the bound of the property holds); the shape model is proved to be the '
    'shadow of the algebraic sweep relation (Props/C12/Link.lean) and conversely every zero-free run of the shape model (QR and SVD steps, lcf / rcf / truncate) is the shadow of a derivation when each oracle list is the singular values of the matrix met; the zero exits return a chain representing 0 * psi; an MPO with E*W = d has the control flow of the merged leg (Props/C12/Link2.lean) — 49 theorems. That LAPACK meets its '
    'contract in floating point is NOT a theorem: isometry, preservation, unit norm, error <= discarded weight and '
    'NaN-freedom are evaluated with tolerances on the real outputs of every generated case (evidence: explored).',
    TB + 'scipy/LAPACK QR and SVD are oracles (recorded by wrapping them from the harness); the link between the shape '
    'model\'s step sequence and the algebraic sweep relation is by construction, not a theorem.')
add('C11', 'proof', 'Lean 4 theorems (interchange law, associativity, sweep = merged grid tensor) over any commutative semiring + exact integer-network correspondence',
    'The pairwise cell and the ladder step are modelled as compositions of 4-leg tensors; the interchange law, associativity '
    'of the cell, ladder-of-pairwise, and hence: left-to-right sweep = right-to-left sweep = every split-and-recombine = '
    'transposed network = the merged grid tensor, are Lean theorems over any commutative semiring for all network shapes and '
    'compatible bond dimensions; the executed array model is bridged to the algebra entry-wise; the literal sum over all '
    'bond-index assignments (exactValue) is proved equal to the merged grid tensor, so contract_lr_exact / rl_exact / '
    'transpose_exact / split hold against exactValue, also for None-padded columns; no-op truncation settings (incl. chi >= '
    'every bond that occurs) are the identity; the error cases raise — 26 theorems. Tied to the '
    'code by exact integer networks (numpy stays in integers) through every start/stop/step, split point and transpose.',
    TB + 'Modelled rather than verified: tensortools/mps2d.py contract/transpose, mps.py contract_pairwise/contract_ladder/'
    'inner_product/truncate guard, tsr.py as_scalar. The truncating SVD path is outside the property.')
add('C16', 'proof', 'Lean 4 theorems over Q (and R for the square-root model) about rational error-model distributions + float-vs-exact correspondence',
    'Non-negativity, sum 1, Pr(I) = 1-p, documented shapes (thirds; high = bias x sum of lows; Y:X = bias with the defining '
    'equations and uniqueness of their non-negative solution, over Q with an explicit root and over R with Real.sqrt), '
    'centre-slice ratio on the segment, negative limit on the triangle boundary, special cases and constructor domains; the X<->Y symmetry '
    'rateX h = rateY (1/h) and the scale invariance of the limit normalisation, which justify the two repaired overflow branches '
    '(Props/C16/Symmetry.lean) — 53 Lean theorems for all p in [0,1] and all accepted parameters. The float evaluation is NOT proved: on every run the real '
    'probability_distribution floats are compared with the exact rational model at the rational value of the float inputs '
    '(1e-12 relative) or substituted into the defining equations by the Lean checker, on wide grids incl. endpoints and '
    'extreme biases and parameter magnitudes over the whole double range, and the property is evaluated directly on the floats (strict non-negativity). Seven genuine defects found '
    'this way were repaired in /repo (fix: commits, see known_findings.json).',
    TB + 'IEEE-754 evaluation of the closed forms is explored on grids, not proved.')
add('C14', 'proof', 'Lean 4 theorems: naive decoder (min weight, corrects total weight <= t) and, for ALL planar / toric sizes, MWPM corrects every error with |X|,|Z| <= t for any minimum-weight perfect matching (T-join lemma); exhaustive sweep through the real decoders',
    'Proved for any code: the naive decoder is the first match in ibsf order, returns a minimum-weight solution, None iff no '
    'Pauli has the syndrome, and corrects every error of TOTAL weight <= t under the distance hypothesis (discharged for the '
    'five-qubit and Steane codes); the per-component form is provably false for it (known finding D5). For the planar and '
    'toric MWPM decoders, for ALL sizes R, C >= 2: every error chain induces a perfect matching of the decoder\'s graph of '
    'total distance <= its weight (generic T-join lemma over any multigraph with a metric, with a boundary variant for the '
    'virtual plaquettes), so with any minimum-weight perfect matching the recovery XOR error is a stabilizer product whenever '
    '|X-support|, |Z-support| <= t = (min(R,C)-1)/2 — C02, C07, C08, C15 facts discharged; the only remaining hypothesis is '
    'that the matching handed back is of minimum weight (networkx, see C13); the exact matcher meets that contract, and the recovery is the same for every iteration order of the returned set of mates (Props/C14/MatesOrder.lean); the Blossom V backend is bridged too: with a contract for the C routine (minimum-weight perfect matching of the integer graph on ids; satisfiable: exhaustive matcher) and R + C < infty/10 the modelled wrapper (node ids, contiguity assert, mates array, weight_to_int = identity on the integer distances of the decoders) hands back a minimum-weight perfect matching, so both backends of gt.mwpm correct (Props/C14/Blossom.lean; the wrapper model is tied to the real wrapper by the stand-in comparison of C13) — 86 theorems. Tied to the code by exact '
    'comparison of the naive decoder and by sweeping every error with |X|,|Z| <= t on planar and toric 2x2..4x5 (exhaustive) '
    'and samples beyond through the real decoders, verdict confirmed by the Lean driver and a span certificate.',
    TB + 'Minimality of the networkx matching is a hypothesis (tested against a verified optimum in C13).')
add('C08', 'proof', 'Lean 4 theorems: IsDistance with d = n_k_d[2] for ALL sizes of all five lattice families and for the basic codes; verified search on the real matrices as the tie',
    'Theorems (37 + span form): for every accepted size of the planar, toric (all four logicals), rotated-planar, '
    'rotated-toric and colour 6.6.6 families, every operator that commutes with all stabilizers and anticommutes with some '
    'logical has weight >= d (square-lattice families: commutation with the generators of one strip forces equal parity on '
    'neighbouring translates of the logical, so the operator meets min(R,C) pairwise disjoint supports; colour code: the '
    'relevant half of the operator is the complement of a plaquette sum by normaliser completeness, and an induction '
    'L-2 -> L with a transfer-matrix potential shows at least L sites are covered evenly), the lighter supplied logical '
    'attains d, hence IsDistance n S L d with d = n_k_d[2] and no hypotheses left; five-qubit and Steane codes and the '
    'smallest lattices also by kernel evaluation; CSS split, soundness/completeness of the executable search and certificate '
    'soundness for any matrices; "non-trivial logical" = "not a product of stabilizers" by normaliser completeness (proved for '
    'every ValidCode). Tied to the code by comparing n_k_d with the model for all sizes up to the bound incl. rectangles and '
    'strips, and by running the verified search through the compiled driver on the REAL stabilizer / logical matrices (with a '
    'stabilizer-derived basis of N(S)/S, so a dropped generator is detected) plus an independent numpy search on larger sizes.',
    TB + 'Modelled rather than verified: n_k_d and the stabilizer/logical matrices of every family (tie shared with C07).')
add('C10', 'proof', 'Lean 4 theorems: coset-probability specification (partition, ML optimality) AND, for ALL five tensor-network decoder networks (planar MPS, planar RMPS incl. its shared-contraction optimisation, rotated-planar MPS, rotated-planar RMPS, colour 6.6.6 MPS incl. its shared ket), modelled network contraction = exact coset probability for all sizes; float-vs-exact comparison of the real decoders',
    'Spec side (any code satisfying CodeSpec, discharged for planar / rotated planar / colour / basic codes from C07 + normaliser '
    'completeness): the syndrome class is the disjoint union of the 4^k cosets, coset probabilities sum to Pr(syndrome), '
    'another sample permutes cosets, returning an arg-max coset is optimal among all functions of the syndrome. Network side: '
    'the tensor networks built by PlanarMPSDecoder, PlanarRMPSDecoder, RotatedPlanarMPSDecoder, RotatedPlanarRMPSDecoder and '
    'Color666MPSDecoder are '
    'modelled tensor by tensor (shapes, None padding, node values, leg order); a generic factor-graph identity (delta '
    'stabilizer tensors + qubit tensors = sum over the stabilizer group; dimension-2 and dimension-4 legs) gives exactValue '
    '= cosetProb, and with C11 the modelled sweeps the decoders use (by column, by row, right-to-left, the colour decoder\'s '
    'bra/ket split, the RMPS shared partial contraction with its column bookkeeping) return exactly the coset probabilities, '
    'for ALL sizes; the planar RMPS decoder\'s diagonal logicals lie in the cosets of the code\'s logicals (all R, C, both diagonals), and '
    'the property\'s agreement clause is a corollary (planar MPS = planar RMPS in modes c / r / a and by column = by row; the two '
    'rotated-planar decoders agree) — 91 theorems. NOT proved: that the float / mpf arithmetic of the real contraction stays close to the exact '
    'value (bounded per run: every coset probability within 1e-11 relative, arg-max class where the gap > 1e-9, incl. strong '
    'noise and the zero / single-defect syndromes). Tie: every tensor '
    'of the real create_tn equals the model tensor exactly; recorded contraction bookkeeping; exact spec value from the real '
    'stabilizer matrices.',
    TB + 'IEEE-754 / mpmath evaluation of the contractions is explored, not proved; truncating (chi / tol) contractions are '
    'outside the model.')
add('C19', 'proof', 'Lean 4 theorems about a model of the CLI decision logic (spec scanner, literal-only arguments, validators, delegation, output protocol) + in-process and subprocess CLI-vs-API differential',
    'Proved about the model for all inputs: the name(args) scanner accepts exactly the regex language and recovers name and '
    'argument text; a non-literal / unparsable argument is a usage error and the constructor is never invoked; validators '
    'accept exactly the documented ranges and a rejection precedes any simulation; accepted commands delegate one API call '
    'per probability with exactly the typed options; the output protocol never loses a serialisable payload (exactly one of '
    'stdout / new file / error log; an existing or uncreatable target is never touched, exit != 0); merge writes iff all '
    'inputs parse — 15 theorems. click, ast.literal_eval, the OS and the filesystem are outside the model (their outcomes are '
    'tokens supplied by the harness). CLI == API is a code-vs-code differential, not a theorem: every registered decoder x '
    'compatible error model is run through CliRunner and compared field-for-field with app.run / run_ftp / merge for the same '
    'seed, plus real subprocesses for the four output situations and malformed arguments.',
    TB + 'click / literal_eval / OS / filesystem behaviour is trusted; CLI==API is explored (differential), not proved.')

add('C06', 'proof', 'Lean 4 theorems about a stream-threaded run model and an LRU memo-table model + twin-generator stream correspondence and fresh-process history differential',
    'Proved: a seeded run is a function of (arguments, consumed stream prefix) only; exactly n_run*T*(n + [q]*m) uniforms are '
    'consumed with the stated layout; runs under two limit settings are prefixes of one another (a longer run extends a '
    'shorter one); the aggregate refines the C04 run model; a memo table with a sufficient key and unmutated values is '
    'transparent under any history and any eviction capacity (with concrete counterexamples when the key is insufficient or a '
    'value is mutated) — 12 theorems. Tied to the code by predicting every step error / flip / outcome of real app.run / '
    'run_ftp from a twin numpy generator and checking the generator state afterwards, and by comparing the memo model with '
    'CPython functools.lru_cache. That the 116 real caches have sufficient keys and unmutated values is NOT a theorem: it is '
    'explored by a history differential — random interleavings of decode / run calls on shared objects across all families, '
    'each call compared with the same call on fresh objects in a fresh interpreter under a different PYTHONHASHSEED, with '
    'caller arrays and code matrices hashed around every call. Components the property excludes (stp masks, the Y decoder\'s '
    'tie coin, the file model\'s cursor) are pinned or excluded.',
    TB + 'History independence of the real caches is explored (metamorphic differential whose oracle is the implementation '
    'in a fresh process), not proved; PCG64 and numpy choice consumption as in C17.')

add('C02', 'proof', 'Lean 4 theorems: recovery reproduces the syndrome for EVERY lattice decoder construction with the matching universally quantified (MWPM, CMWPM, both symmetry-matching decoders, tensor-network sample recoveries, planar Y for R>=C), naive decoder; verified monitor on every registry decoder',
    'Proved for all lattice sizes, all syndromes and ANY perfect matching(s) of the modelled graph(s): the XOR of lattice paths '
    'over a matching has syndrome exactly the defect set (pairing theorem); hence the planar MWPM recovery (graph incl. '
    'nearest virtual plaquettes and the extra node on odd totals; a perfect matching always exists), planar CMWPM '
    '(max_iterations >= 1), toric MWPM, and — with graphs, clustering (_clusters never fails for perfect matchings: "Cluster is '
    'not a closed loop" characterised), cluster paths, corner fusing and the final XOR all inside the model — the rotated-planar '
    'and rotated-toric SMWPM decoders in ideal and FTP mode; the sample recoveries of the planar / rotated-planar / colour '
    '6.6.6 tensor-network decoders and any product with logicals; the planar Y decoder for ALL R, C >= 2 and every Y-only '
    'error (snake fills, destabilisers incl. the co-prime billiard lemma, residual look-up table sound and total, '
    'Y-stabilizers = the 2^(gcd-1) Y-only centraliser elements, decode never raises); for the SMWPM decoders also EXISTENCE of '
    'perfect matchings at finite bias, at infinite bias for Y-only noise and at p = 0 (so decoding never fails given a maximum-cardinality matching), with the line-parity / feasibility conditions proved NECESSARY as well (iff), and the toric _cluster_graph assert (even number of defective clusters) proved never to fire on reachable syndrome arrays (Props/C02/SmwpmEven.lean); the naive decoder (sound, complete, guard); the monitor recoveryOk decides the property for all '
    'errors with that syndrome at once. C15/C07 interface hypotheses are discharged (Props/C02/Instances.lean) — 138 theorems. CMWPM edge weights (Model/StepGrid.lean: set_background with all four box shapes, distance algorithms 1 / 2 / 4; Props/C02/StepGrid.lean, 17 theorems incl. non-negativity of every site and edge weight, the first-iteration weights (empty background, algorithm 1: initial times half the taxi-cab distance = the plain MWPM weight) and the closed form of the default tight-box background: a site weighs initial * factor^(number of matched pairs whose bounding box misses it)): the background does not depend on the iteration order of the frozenset of matched pairs, both-virtual pairs are skipped, only sites carry weight, virtual-virtual distance is 0, algorithm 2 is orientation-independent while algorithm 1 is not (kernel-evaluated witness). '
    'Tie: exact comparison of sample_recovery, recorded gt.mwpm graphs / matchings / clusters / stage recoveries / final '
    'recovery given the recorded matchings, the Y decoder\'s cached operators and residual table; and every registry decoder run '
    'on real syndromes (all syndromes of the smallest codes, every weight on larger ones, all parameterisations and context '
    'models) judged by the verified monitor in Python and in Lean. PlanarCMWPMDecoder(max_iterations=0) is a known finding.',
    TB + 'networkx matching is a parameter (any perfect matching / any maximum-cardinality matching); the edge weights of '
    'CMWPM (StepGrid, exact rationals; the real grid is float64) and of the SMWPM decoders (Model/SmwpmWeight.lean, C03) are '
    'modelled and tied, those of the plain MWPM decoders are the lattice distances of C14 / C15; weights are irrelevant to '
    'C02 beyond "graph construction returns".')
add('C03', 'proof', 'Lean 4 theorems: for every size, T, step errors and measurement flips, the modelled FTP decoders return a recovery with the syndrome of the total error for ANY perfect matchings; reachable-input characterisation; time-parity / result-constructor logic; exhaustive small-domain exploration of the real decoders',
    'Proved: ftp_rotated_planar_returns_to_codespace and ftp_rotated_toric_returns_to_codespace — for all sizes, all T >= 1, all '
    'step-error sequences and all periodic measurement-flip patterns, whatever perfect matchings gt.mwpm returns for the '
    'symmetry graph and the cluster graph, the modelled decode_ftp (graphs, clustering, paths, final XOR inside the model) '
    'returns a recovery r with synd(r) = synd(total error), i.e. r XOR total error commutes with every stabilizer (composition '
    'of the run-level algebra of C01 — XOR of rows = syndrome of the total error, flips cancel on the periodic axis — with the '
    'SMWPM syndrome theorems); the arrays the simulation can hand to a decoder are exactly those whose row-XOR is a syndrome '
    'in the model\'s support (with executable witnesses); tparity, measurement t-parities, the rotated-toric result '
    'constructor (two custom values, non-zero only with success=False, single step / itp never time-like); the rotated-toric '
    'success / custom_values / stage time-parities are inside the model as functions of the two matchings '
    '(Props/C03/TParity.lean: always two bits, non-zero iff success = False; each stage parity = number of time-wrapping fused '
    'pairs mod 2, independent of order and orientation of the mates; a single time step gives the all-zero vector and never '
    'trips the assert; decode_ftp never raises) and tied through the real app.run_once_ftp on every rotated-toric FTP case '
    '— 32 theorems. Edge weights (Props/C03/Weights.lean, 29 theorems about Model/SmwpmWeight.lean): the step counts of '
    '_distance (periodic time distance <= T/2, box rule, both lattice axes periodic in the toric code), which argument '
    'classes make a step weight undefined, _cluster_distance (attained minimum, symmetric, zero between virtual nodes); for '
    'every pair of nodes that passes the _add_edge filters _distance is defined (graph construction never raises for given '
    'p in [0,1), q in [0,1], any bias), each filter is necessary, weights are orientation-independent and non-negative. '
    'Not a theorem: that a perfect matching exists for every reachable array and that networkx returns one (checked per '
    'decode). Tie: recorded graphs / matchings / clusters / recoveries compared exactly with the model; run_once_ftp and direct '
    'decode_ftp on every reachable array of the smallest lattices (T<=3) judged by the verified monitor.',
    TB + 'gt.mwpm is not modelled (any perfect matching suffices for this property); the float VALUES of the three step weights (math.log) are recomputed in the harness, their step counts / domains / pruning are modelled.')
NOT_YET = {}


def main():
    props = [json.loads(l) for l in open(os.path.join(VERIF, 'properties.jsonl'))]
    checks, na = [], []
    for p in props:
        pid = p['id']
        if pid in CHECKS:
            cat, tech, text, note = CHECKS[pid]
            checks.append({
                'property_id': pid,
                'quick_cmd': './check {} --tier quick'.format(pid),
                'thorough_cmd': './check {} --tier thorough'.format(pid),
                'evidence_file': 'evidence/{}.json'.format(pid),
                'replay_cmd_template': './check {} --replay {{path}}'.format(pid),
                'engine': 'lean4-model+correspondence',
                'level_claimed': {'category': cat, 'text': text, 'design_ref': 'DESIGN.md section 7, ' + pid},
                'level_note': note,
                'technique': tech,
            })
        else:
            na.append({'property_id': pid,
                       'reason': NOT_YET.get(pid, 'check not yet built in this round (planned in DESIGN.md section 7); '
                                                  'no claim is made')})
    man = {
        'version': 1,
        'setup_cmd': 'cd lean/QecVerif && lake build qvdriver && (lake build QecVerif || true)',
        'hooks': {
            'guard': 'QECSIM_VERIF',
            'enable': 'no source hooks are used: the harness observes the public API through recording proxies',
            'baseline_off_cmd': 'cd /repo && /venv/bin/python -m pytest -ra -q -p no:cacheprovider --timeout=900 '
                                '--continue-on-collection-errors',
            'source_commits': [],
            'add_only': True,
        },
        'engines': [{
            'name': 'lean4-model+correspondence',
            'path': 'lean/QecVerif',
            'serves_properties': sorted(CHECKS),
            'kind_free_text': 'Lean 4 executable models + kernel-checked property theorems (Props/Cxx.lean); compiled '
                              'line-protocol driver; Python correspondence harness against /repo/src (harness/)',
        }],
        'checks': checks,
        'not_applicable': na,
        'notes': 'See DESIGN.md. exit 0 = held, exit 1 + VIOLATION line = violation, exit 2 = infrastructure error/timeout.',
    }
    with open(os.path.join(VERIF, 'MANIFEST.json'), 'w') as f:
        json.dump(man, f, indent=1)
    print('checks:', len(checks), 'not_applicable:', len(na))


if __name__ == '__main__':
    main()
