#!/usr/bin/env python3
"""writes MANIFEST.json from the table below (kept in one place so it is always valid)"""
import json
import os

VERIF = os.path.join(os.path.dirname(os.path.abspath(__file__)), '..')
TB = ('Lean 4.33 kernel + axioms propext/Classical.choice/Quot.sound only (audited per run, no native_decide); '
      'hand-written Lean model tied to /repo/src by the per-run correspondence harness (Python, /venv); '
      'numpy/networkx/scipy/CPython as installed. ')

CHECKS = {
    # id: (category, technique, text, note)
}


def add(pid, category, technique, text, note):
    CHECKS[pid] = (category, technique, text, note)


add('C09', 'proof', 'Lean 4 theorems about an executable model + exhaustive/random correspondence with paulitools',
    'All clauses of the property (string<->bsf bijection, bsp = Pauli-group commutation against an independent 4x4 '
    'table, bilinear/symmetric, matrix forms, weights, ipauli complete/duplicate-free/weight-ordered with its length '
    'formula, pack/unpack round trip for every length) are Lean theorems over unbounded n; the model is tied to '
    'qecsim.paulitools by exact comparison, exhaustive for n<=3 (n<=4 thorough) and random to n=300.',
    TB + 'Modelled rather than verified: qecsim/paulitools.py.')

add('C20', 'proof', 'Lean 4 theorems about an executable model of validate + correspondence on corrupted random codes',
    'validate passes iff the three commutation conditions hold (Lean theorem for any k and any operator sets), the '
    'stacked condition is proved equivalent to the canonical X/Z pairing, the error raised is the first failing check, '
    'logicals = xs then zs, DecodeResult precondition; the model is tied to qecsim.model by exact comparison on random '
    'valid codes (random Clifford images) and every single-operator corruption class.',
    TB + 'Modelled rather than verified: StabilizerCode.validate/logicals, DecodeResult.__init__.')
add('C01', 'proof', 'Lean 4 theorems about an executable model of _run_once + scripted-run correspondence',
    'Syndrome hand-off incl. the periodic t-1 wrap, cancellation of measurement flips in the XOR of rows for every T, '
    'total error, verdict resolution, pass-through for all 16 DecodeResult shapes, error weight and argument '
    'validation are Lean theorems with the decoder answer, step errors and flips universally quantified; tied to '
    'qecsim.app by driving the real run_once/run_once_ftp with a scripted error model, scripted rng and recording '
    'decoder and comparing decoder arguments and the result dict exactly.',
    TB + 'Modelled rather than verified: app._run_once, run_once, run_once_ftp, validators of run/run_ftp. The error '
    'model, rng and decoder are parameters of the model (universally quantified).')

add('C04', 'proof', 'Lean 4 theorems (loop invariant) about an executable model of _run + scripted-history correspondence',
    'Exact stopping index (least index at which a limit is reached, never one more or fewer; non-termination stated), '
    'counts/weights/array totals as folds of the performed runs, never-mis-summed and mismatch-at-first-inconsistent-run, '
    'aggregate statistics incl. population variance, are Lean theorems for every outcome history and every pair of '
    'limits; tied to qecsim.app.run/run_ftp by scripted histories through the real loop, comparing call counts and every '
    'field (floats bit-exactly through the documented float expressions), value types and json.dumps.',
    TB + 'Modelled rather than verified: app._run, _add_rate_statistics. Float rounding of the two rates and of pvariance '
    'is recomputed in the harness (IEEE-754 / statistics.pvariance trusted).')
add('C05', 'proof', 'Lean 4 theorems (canonical-form invariant) about an executable model of merge + record-multiset correspondence',
    'Grouping by exactly the seven key fields, conservation of all scalar and array totals, rates from sums, '
    'permutation / partition / nesting / idempotence / JSON and legacy-representation invariance and the symmetric '
    'mismatch criterion are Lean theorems for every record multiset; tied to qecsim.app.merge by single-call equivalence '
    '(output order included) on generated multisets with closure (merge outputs fed back), plus metamorphic checks on the '
    'real merge and input immutability.',
    TB + 'Modelled rather than verified: app.merge. wall_time is summed in exact rationals in the model; the harness uses '
    'dyadic wall times so the float sums are exact.')

add('C18', 'proof', 'Lean 4 theorems about an executable model of the JSON-lines reader state machine + generated-file call-sequence correspondence',
    'Serving exactly the recorded errors in file order from the start offset (never repeating, inventing or skipping), '
    'header exposure, EOF finality, refusal of a wrong probability / qubit count, rejection of malformed files '
    '(missing / repeated keys, invalid or shadowing attribute names, bad start, non-record or invalid JSON reached by '
    'generate) and irrelevance of comment / blank lines are Lean theorems for every file layout, header grouping and '
    'call sequence; tied to FileErrorModel by generated files driven through random call sequences past EOF with the '
    'outcome sequence compared exactly, plus the repository fixture files.',
    TB + 'Modelled rather than verified: models/generic/_fileerrormodel.py (FileErrorModel, _JSONLines), paulitools.unpack. '
    'json.loads is external (each line carries its token, supplied by the harness from the real json.loads); Unicode '
    'whitespace is outside the generator (ASCII).')

NOT_YET = {}


def main():
    props = [json.loads(l) for l in open(os.path.join(VERIF, 'properties.jsonl'))]
    checks, na = [], []
    for p in props:
        pid = p['id']
        if pid in CHECKS:
            cat, tech, text, note = CHECKS[pid]
            checks.append({
                'property_id': pid,
                'quick_cmd': './check {} --tier quick'.format(pid),
                'thorough_cmd': './check {} --tier thorough'.format(pid),
                'evidence_file': 'evidence/{}.json'.format(pid),
                'replay_cmd_template': './check {} --replay {{path}}'.format(pid),
                'engine': 'lean4-model+correspondence',
                'level_claimed': {'category': cat, 'text': text, 'design_ref': 'DESIGN.md section 7, ' + pid},
                'level_note': note,
                'technique': tech,
            })
        else:
            na.append({'property_id': pid,
                       'reason': NOT_YET.get(pid, 'check not yet built in this round (planned in DESIGN.md section 7); '
                                                  'no claim is made')})
    man = {
        'version': 1,
        'setup_cmd': 'cd lean/QecVerif && lake build qvdriver && (lake build QecVerif || true)',
        'hooks': {
            'guard': 'QECSIM_VERIF',
            'enable': 'no source hooks are used: the harness observes the public API through recording proxies',
            'baseline_off_cmd': 'cd /repo && /venv/bin/python -m pytest -ra -q -p no:cacheprovider --timeout=900 '
                                '--continue-on-collection-errors',
            'source_commits': [],
            'add_only': True,
        },
        'engines': [{
            'name': 'lean4-model+correspondence',
            'path': 'lean/QecVerif',
            'serves_properties': sorted(CHECKS),
            'kind_free_text': 'Lean 4 executable models + kernel-checked property theorems (Props/Cxx.lean); compiled '
                              'line-protocol driver; Python correspondence harness against /repo/src (harness/)',
        }],
        'checks': checks,
        'not_applicable': na,
        'notes': 'See DESIGN.md. exit 0 = held, exit 1 + VIOLATION line = violation, exit 2 = infrastructure error/timeout.',
    }
    with open(os.path.join(VERIF, 'MANIFEST.json'), 'w') as f:
        json.dump(man, f, indent=1)
    print('checks:', len(checks), 'not_applicable:', len(na))


if __name__ == '__main__':
    main()
