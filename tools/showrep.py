#!/usr/bin/env python3
import json,glob,sys
f=sorted(glob.glob('/verif/replays/%s-*.json'%sys.argv[1]))[-1]
b=json.load(open(f))
for v in b['violations']:
    print('KIND',v['kind'], v.get('mismatches'), v.get('count'))
    if v.get('counterexample'): print('CEX', json.dumps(v['counterexample'])[:800])
    m=v.get('first_mismatch')
    if m:
        print('OP  ', m['op'][:300]); print('IMPL', m['impl'][:400]); print('MODL', m['model'][:400])
        meta=m.get('meta') or {}
        print('META', {k:(v if k not in ('lines','calls') else None) for k,v in meta.items()})
        if m['impl'].startswith('open=ok') and m['model'].startswith('open=ok'):
            a=m['impl'][8:].split('|'); c=m['model'][8:].split('|')
            for i,(x,y) in enumerate(zip(a,c)):
                if x!=y: print(' diff',i,x[:100],y[:100], meta.get('calls',[None]*99)[i])
        if 'lines' in meta:
            for l in meta['lines'][:14]: print('   ',repr(l))
    if v.get('problems'): print(v['problems'])
