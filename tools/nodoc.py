import ast, sys
src = open(sys.argv[1]).read()
t = ast.parse(src)
for node in ast.walk(t):
    if isinstance(node, (ast.FunctionDef, ast.ClassDef, ast.Module, ast.AsyncFunctionDef)):
        if node.body and isinstance(node.body[0], ast.Expr) and isinstance(getattr(node.body[0], 'value', None), ast.Constant) and isinstance(node.body[0].value.value, str):
            node.body = node.body[1:] or [ast.Pass()]
print(ast.unparse(t))
