#!/usr/bin/env python3
"""regenerate section 14 of DESIGN.md (between the markers) from seeded/*/meta.json, notes.md and seeded/RESULTS.json"""
import json, os, re
V = os.path.abspath(os.path.join(os.path.dirname(os.path.abspath(__file__)), '..'))
res = json.load(open(os.path.join(V, 'seeded', 'RESULTS.json')))
rows = []
for sid in sorted(d for d in os.listdir(os.path.join(V, 'seeded')) if os.path.isdir(os.path.join(V, 'seeded', d))):
    meta = json.load(open(os.path.join(V, 'seeded', sid, 'meta.json')))
    diff = open(os.path.join(V, 'seeded', sid, 'patch.diff')).read()
    files = sorted(set(re.findall(r'^\+\+\+ b/(\S+)', diff, flags=re.M)))
    what = meta.get('summary') or ' '.join(meta.get('needs', '').split())[:230]
    r = res.get(sid, {})
    if meta.get('obsolete'):
        verdict = 'obsolete: ' + meta['obsolete']
    elif not r:
        verdict = 'not yet run'
    elif r.get('caught') and r.get('concrete_input'):
        verdict = 'caught ({}), concrete failing input'.format(r.get('tier'))
    elif r.get('caught'):
        verdict = 'caught ({}), correspondence break, no-failing-input-found'.format(r.get('tier'))
    else:
        verdict = 'MISSED ({})'.format(r.get('tier'))
    if meta.get('history'):
        verdict += ' — ' + meta['history']
    rows.append('| {} | {} | {} | {} | {} |'.format(sid, meta['property'], ', '.join(f.replace('src/qecsim/', '') for f in files),
                                                   what.replace('|', '/'), verdict))
body = ('| id | property | file(s) | change and what it needs to manifest | `./check` verdict on the patched tree |\n'
        '|----|----------|---------|--------------------------------------|----------------------------------------|\n' + '\n'.join(rows))
p = os.path.join(V, 'DESIGN.md'); s = open(p).read()
a, b = '<!-- seeded-table-begin -->', '<!-- seeded-table-end -->'
s = s[:s.index(a) + len(a)] + '\n' + body + '\n' + s[s.index(b):]
open(p, 'w').write(s)
print(len(rows), 'rows')
