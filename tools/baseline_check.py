#!/usr/bin/env python3
"""run /repo's suite (xdist) and compare with BASELINE.json stable_pass; prints missing/failed stable tests"""
import json, subprocess, sys, xml.etree.ElementTree as ET, os, tempfile
out = tempfile.mktemp(suffix='.xml', dir='/var/tmp')
subprocess.run('cd /repo && /venv/bin/python -m pytest -q -p no:cacheprovider --timeout=900 '
               '--continue-on-collection-errors -n 12 --junitxml={} >/dev/null 2>&1'.format(out), shell=True)
b = json.load(open('/root/.vp/BASELINE.json'))
sp = set(b['stable_pass'])
passed = set()
for tc in ET.parse(out).getroot().iter('testcase'):
    name = '{}::{}'.format(tc.get('classname'), tc.get('name'))
    if not any(ch.tag in ('failure', 'error', 'skipped') for ch in tc):
        passed.add(name)
os.remove(out)
missing = sorted(sp - passed)
print('stable_pass', len(sp), 'passed now', len(passed), 'stable tests not passing:', len(missing))
for m in missing[:20]:
    print('  ', m)
sys.exit(1 if missing else 0)
