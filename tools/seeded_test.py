#!/usr/bin/env python3
"""usage: seeded_test.py [--tier quick|thorough] [--in-repo] [--suite] [ids…]   (--suite also runs the pinned test-suite on the patched tree)
For every kept seeded change /verif/seeded/<id>/ (patch.diff, demo.py, meta.json: {"property": "Cxx", …}):
  1. make a scratch worktree of /repo HEAD under /var/tmp, check the demo passes there, apply the patch, check the demo fails;
  2. run ./check <property> against the patched tree (QECSIM_REPO / PYTHONPATH override, --no-lean so that no evidence
     is rewritten) and report whether it ends in a VIOLATION line (and whether a concrete failing input was found);
  3. remove the worktree.
With --in-repo the patch is applied to /repo itself (git apply … ; git checkout -- .) exactly as the brief describes;
only do that when nothing else is using /repo.
Prints one line per change and writes /verif/seeded/RESULTS.json."""
import json
import os
import subprocess
import sys
import shutil

VERIF = os.path.abspath(os.path.join(os.path.dirname(os.path.abspath(__file__)), '..'))


def sh(cmd, env=None, cwd=None, timeout=3600):
    r = subprocess.run(cmd, shell=True, stdout=subprocess.PIPE, stderr=subprocess.STDOUT, text=True, env=env, cwd=cwd,
                       timeout=timeout)
    return r.returncode, '\n'.join(l for l in r.stdout.splitlines() if 'conda.cli' not in l)


def main():
    args = sys.argv[1:]
    tier = 'quick'
    in_repo = False
    if '--tier' in args:
        i = args.index('--tier'); tier = args[i + 1]; del args[i:i + 2]
    if '--in-repo' in args:
        in_repo = True; args.remove('--in-repo')
    suite = False
    if '--suite' in args:
        suite = True; args.remove('--suite')
    base = os.path.join(VERIF, 'seeded')
    ids = args or sorted(d for d in os.listdir(base) if os.path.isdir(os.path.join(base, d)))
    results = {}
    resfile = os.path.join(base, 'RESULTS.json')
    if os.path.exists(resfile):
        results = json.load(open(resfile))
    for sid in ids:
        d = os.path.join(base, sid)
        meta = json.load(open(os.path.join(d, 'meta.json')))
        pid = meta['property']
        if meta.get('obsolete'):
            print('{:28s} {} OBSOLETE {}'.format(sid, pid, meta['obsolete'][:120])); continue
        wt = '/var/tmp/seedwt_' + sid
        res = {'property': pid, 'tier': tier}
        try:
            if in_repo:
                wt = '/repo'
            else:
                sh('git -C /repo worktree remove --force ' + wt)
                rc, out = sh('git -C /repo worktree add -q {} HEAD'.format(wt))
                if rc:
                    res['error'] = out[-300:]; results[sid] = res; continue
            env = dict(os.environ, PYTHONPATH=wt + '/src', QECSIM_REPO=wt)
            demo = '/venv/bin/python {}'.format(os.path.join(d, 'demo.py'))
            rc0, _ = sh(demo, env=env, cwd='/var/tmp', timeout=1800)
            rc, out = sh('git -C {} apply {}'.format(wt, os.path.join(d, 'patch.diff')))
            if rc:
                res['error'] = 'patch does not apply: ' + out[-300:]; results[sid] = res
                print('{:28s} {} ERROR {}'.format(sid, pid, res['error'])); continue
            rc1, _ = sh(demo, env=env, cwd='/var/tmp', timeout=1800)
            res['demo_clean_rc'], res['demo_patched_rc'] = rc0, rc1
            if suite and not in_repo:
                rcs, outs = sh('python3 {}/tools/suite_check.py {} 6'.format(VERIF, wt), timeout=3600)
                res['suite_rc'] = rcs
                res['suite'] = [l for l in outs.splitlines() if l.startswith('baseline tests')][-1:]
            elif sid in results and 'suite_rc' in results[sid]:
                res['suite_rc'], res['suite'] = results[sid]['suite_rc'], results[sid].get('suite')
            rc, out = sh('./check {} --tier {} --no-lean'.format(pid, tier), env=env, cwd=VERIF, timeout=7200)
            res['check_rc'] = rc
            vl = [l for l in out.splitlines() if l.startswith('VIOLATION')]
            res['violation_line'] = vl[0] if vl else None
            res['caught'] = bool(vl) and rc == 1
            res['concrete_input'] = bool(vl) and 'no-failing-input-found' not in vl[0]
            if not vl:
                res['tail'] = out[-400:]
        finally:
            if in_repo:
                sh('git -C /repo checkout -- .')
            else:
                sh('git -C /repo worktree remove --force ' + wt)
                shutil.rmtree(wt, ignore_errors=True)
        results[sid] = res
        print('{:28s} {} demo clean/patched rc={}/{} suite_rc={} caught={} concrete={}  {}'.format(
            sid, pid, res.get('demo_clean_rc'), res.get('demo_patched_rc'), res.get('suite_rc'), res.get('caught'),
            res.get('concrete_input'),
            res.get('violation_line') or res.get('error') or ''))
    # merge with what other concurrent invocations wrote meanwhile (only the ids handled here are overwritten)
    latest = json.load(open(resfile)) if os.path.exists(resfile) else {}
    for sid in ids:
        if sid in results:
            latest[sid] = results[sid]
    with open(resfile, 'w') as f:
        json.dump(latest, f, indent=1, sort_keys=True)


if __name__ == '__main__':
    main()
