/-
  qvdriver — line protocol: one operation per line on stdin, one canonical reply per line on
  stdout.  First token selects the property namespace (c09, c01, …).  Unknown or malformed
  lines answer `bad-op` (never a default value).
-/
import QecVerif.Model.DriverC09
import QecVerif.Model.DriverApp
import QecVerif.Model.DriverC19
import QecVerif.Model.DriverSmwpm
import QecVerif.Model.DriverStepGrid
import QecVerif.Model.DriverC10RotatedPlanarRmps
import QecVerif.Model.DriverC10Color666
import QecVerif.Model.DriverC10PlanarRmps
import QecVerif.Model.DriverPlanarY
import QecVerif.Model.DriverC10RotatedPlanar
import QecVerif.Model.DriverC17
import QecVerif.Model.DriverC16
import QecVerif.Model.DriverC14
import QecVerif.Model.DriverC13
import QecVerif.Model.DriverC12
import QecVerif.Model.DriverC11
import QecVerif.Model.DriverC10
import QecVerif.Model.DriverC08
import QecVerif.Model.DriverC06
import QecVerif.Model.DriverC03
import QecVerif.Model.DriverC02
import QecVerif.Model.DriverBasic
import QecVerif.Model.DriverFileEM
import QecVerif.Model.DriverLattice
import QecVerif.Model.DriverLatticeColor666
import QecVerif.Model.DriverLatticeRotatedPlanar
import QecVerif.Model.DriverLatticeRotatedToric
import QecVerif.Model.DriverLatticeToric

open Qec.Drv

def dispatch (line : String) : String :=
  let toks := (line.trimAscii.toString.splitOn " ").filter (· ≠ "")
  match toks with
  | "c09" :: rest => (c09 rest).getD "bad-op"
  | "c20" :: rest => (c20 rest).getD "bad-op"
  | "c01" :: rest => (c01 rest).getD "bad-op"
  | "c04" :: rest => (c04 rest).getD "bad-op"
  | "c05" :: rest => (c05 rest).getD "bad-op"
  | "c18" :: rest => (c18 rest).getD "bad-op"
  | "c19" :: rest => (c19 rest).getD "bad-op"
  | "smwpm" :: rest => (smwpm rest).getD "bad-op"
  | "stepgrid" :: rest => (stepgrid rest).getD "bad-op"
  | "c10rprmps" :: rest => (c10rprmps rest).getD "bad-op"
  | "c10color" :: rest => (c10color rest).getD "bad-op"
  | "c10rmps" :: rest => (c10rmps rest).getD "bad-op"
  | "planary" :: rest => (planary rest).getD "bad-op"
  | "c10rplanar" :: rest => (c10rplanar rest).getD "bad-op"
  | "c17" :: rest => (c17 rest).getD "bad-op"
  | "c16" :: rest => (c16 rest).getD "bad-op"
  | "c14" :: rest => (c14 rest).getD "bad-op"
  | "c13" :: rest => (c13 rest).getD "bad-op"
  | "c12" :: rest => (c12 rest).getD "bad-op"
  | "c11" :: rest => (c11 rest).getD "bad-op"
  | "c10" :: rest => (c10 rest).getD "bad-op"
  | "c08" :: rest => (c08 rest).getD "bad-op"
  | "c06" :: rest => (c06 rest).getD "bad-op"
  | "c03" :: rest => (c03 rest).getD "bad-op"
  | "c02" :: rest => (c02 rest).getD "bad-op"
  | "basic" :: rest => (basic rest).getD "bad-op"
  | "planar" :: rest => (planar rest).getD "bad-op"
  | "color666" :: rest => (color666 rest).getD "bad-op"
  | "rotatedplanar" :: rest => (rotatedplanar rest).getD "bad-op"
  | "rotatedtoric" :: rest => (rotatedtoric rest).getD "bad-op"
  | "toric" :: rest => (toric rest).getD "bad-op"
  | _ => "bad-op"

partial def loop (h : IO.FS.Stream) (out : IO.FS.Stream) : IO Unit := do
  let line ← h.getLine
  if line.isEmpty then return ()
  out.putStrLn (dispatch line)
  loop h out

def main : IO Unit := do
  let out ← IO.getStdout
  loop (← IO.getStdin) out
  out.flush
