/-
  Helper lemmas for Props/C14/Blossom.lean: the Blossom V path of `qecsim.graphtools` (model `Model/Blossom5.lean`).

  * vocabulary of the contract of the C routine: `idW` (weight of an unordered id pair in the edge arrays handed to
    the library), `matesPairs` (the pairs `(i, mates[i])`, `i < mates[i]`), `ClibContract`;
  * a fixed-point-free involution along edges IS a perfect matching (`isPM_matesPairs`), and the set
    `{tuple(sorted((a, b))) for a, b in enumerate(mates_array)}` lists exactly its pairs (`idsList_perm`);
  * relabelling nodes ↔ ids through the listing `nodes` (`idxOf` / `getD`): weights, perfect matchings and total
    weights correspond (`idWR_idEdges`, `isPM_mapPairs`, `weightBy_mapPairs`);
  * the `assert` of `mwpm_ids` never fires on ids `0 … n-1` (`mwpmIds_eq`);
  * `weight_to_int_fn` is exact on integer weights below `infty/10` (`weightToInt_exact`);
  * `mwpmBlossom5_min_weight_perfect`: the wrapper theorem — the analogue of `C13.mwpmNetworkx_min_weight_perfect`.
-/
import QecVerif.Model.Blossom5
import QecVerif.Lemmas.Matching
import QecVerif.Lemmas.Decoders
namespace Qec.Blossom5
open Qec Qec.Matching Qec.Dec

/-! ### vocabulary of the contract -/

/-- the weight stored for the ORDERED id pair `(a, b)` in the edge arrays (first entry) -/
def idLookup (es : List IEdge) (a b : Nat) : Option Int :=
  (es.find? fun e => e.1 == a && e.2.1 == b).map (·.2.2)

/-- weight of the undirected edge {a,b} of the graph handed to the library: the entry `(a, b, w)`, else `(b, a, w)` -/
def idW (es : List IEdge) (a b : Nat) : Option Int :=
  match idLookup es a b with
  | some w => some w
  | none => idLookup es b a

/-- the same as a C13 weight function -/
def idWR (es : List IEdge) : Node → Node → Option Rat := fun a b => (idW es a b).map fun z => (z : Rat)

/-- two entries of the edge arrays join the same unordered pair of ids -/
def SamePair (e f : IEdge) : Prop := (e.1 = f.1 ∧ e.2.1 = f.2.1) ∨ (e.1 = f.2.1 ∧ e.2.1 = f.1)

/-- the matching a mates array encodes: `mates[i] = j` means node i is matched to node j -/
def matesPairs (n : Nat) (mate : Nat → Nat) : List Edge :=
  (List.range n).filterMap fun i => if i < mate i then some (i, mate i) else none

/-- **documented contract of the Blossom V C routine** `mwpm(n_nodes, mates, n_edges, nodes_a, nodes_b, weights)` on a
    SIMPLE integer-weighted graph on the node ids `0 … n-1` (every id an endpoint of some edge, no unordered pair
    listed twice) that has a perfect matching: the array it fills is a perfect matching — `mates[i]` is a node id
    other than `i`, joined to `i` by an edge, and `mates[mates[i]] = i` — of minimum total weight among all perfect
    matchings.  EXTERNAL (Blossom V is not part of /repo) — tested against a stand-in, not proved. -/
def ClibContract (clib : Clib) : Prop :=
  ∀ (n : Nat) (es : List IEdge),
    (∀ e ∈ es, e.1 < n ∧ e.2.1 < n) →
    (∀ i < n, ∃ e ∈ es, i = e.1 ∨ i = e.2.1) →
    es.Pairwise (fun e f => ¬ SamePair e f) →
    (∃ P, IsPM (List.range n) (idWR es) P) →
    (∀ i < n, mateOf clib n es i < n ∧ mateOf clib n es i ≠ i ∧
      mateOf clib n es (mateOf clib n es i) = i ∧ (idWR es i (mateOf clib n es i)).isSome = true) ∧
    ∀ P, IsPM (List.range n) (idWR es) P →
      weightBy (idWR es) (matesPairs n (mateOf clib n es)) ≤ weightBy (idWR es) P

/-! ### a fixed-point-free involution along edges is a perfect matching -/

theorem mem_endpoints (M : List (Nat × Nat)) (v : Nat) : v ∈ endpoints M ↔ ∃ p ∈ M, v = p.1 ∨ v = p.2 := by
  unfold endpoints
  simp only [List.mem_flatMap, List.mem_cons, List.not_mem_nil, or_false]

theorem endpoints_nodup_of (L : List (Nat × Nat)) (hL : L.Nodup) (h1 : ∀ p ∈ L, p.1 ≠ p.2)
    (h2 : ∀ p ∈ L, ∀ q ∈ L, (p.1 = q.1 ∨ p.1 = q.2 ∨ p.2 = q.1 ∨ p.2 = q.2) → p = q) : (endpoints L).Nodup := by
  induction L with
  | nil => simp [endpoints]
  | cons p L ih =>
    have hnd := List.nodup_cons.mp hL
    rw [endpoints_cons]
    have ih' := ih hnd.2 (fun q hq => h1 q (List.mem_cons_of_mem _ hq))
      (fun q hq r hr => h2 q (List.mem_cons_of_mem _ hq) r (List.mem_cons_of_mem _ hr))
    have key : ∀ v, (p.1 = v ∨ p.2 = v) → v ∉ endpoints L := by
      intro v hv hmem
      obtain ⟨q, hq, hvq⟩ := (mem_endpoints L v).mp hmem
      have : p = q := h2 p List.mem_cons_self q (List.mem_cons_of_mem _ hq) (by
        rcases hv with h | h <;> rcases hvq with h' | h'
        · exact .inl (h.trans h')
        · exact .inr (.inl (h.trans h'))
        · exact .inr (.inr (.inl (h.trans h')))
        · exact .inr (.inr (.inr (h.trans h'))))
      exact hnd.1 (this ▸ hq)
    simp only [List.nodup_cons, List.mem_cons, not_or]
    exact ⟨⟨h1 p List.mem_cons_self, key _ (.inl rfl)⟩, key _ (.inr rfl), ih'⟩

theorem mem_matesPairs (n : Nat) (mate : Nat → Nat) (p : Nat × Nat) :
    p ∈ matesPairs n mate ↔ p.1 < n ∧ p.1 < p.2 ∧ p.2 = mate p.1 := by
  unfold matesPairs
  rw [List.mem_filterMap]
  constructor
  · rintro ⟨i, hi, h⟩
    by_cases hlt : i < mate i
    · rw [if_pos hlt] at h
      cases h
      exact ⟨List.mem_range.mp hi, hlt, rfl⟩
    · rw [if_neg hlt] at h; cases h
  · rintro ⟨h1, h2, h3⟩
    refine ⟨p.1, List.mem_range.mpr h1, ?_⟩
    rw [← h3, if_pos h2]

theorem nodup_matesPairs (n : Nat) (mate : Nat → Nat) : (matesPairs n mate).Nodup := by
  unfold matesPairs
  apply List.Nodup.filterMap _ List.nodup_range
  intro a a' b hb hb'
  simp only [Option.mem_def] at hb hb'
  by_cases h : a < mate a
  · by_cases h' : a' < mate a'
    · rw [if_pos h] at hb; rw [if_pos h'] at hb'
      rw [← hb'] at hb
      simp only [Option.some.injEq, Prod.mk.injEq] at hb
      exact hb.1
    · rw [if_neg h'] at hb'; cases hb'
  · rw [if_neg h] at hb; cases hb

/-- `mates[i] = j` with `j ≠ i`, `mates[j] = i` and {i,j} an edge, for every node: the encoded pairs are a perfect
    matching of the nodes `0 … n-1` -/
theorem isPM_matesPairs (n : Nat) (mate : Nat → Nat) (w : Node → Node → Option Rat)
    (hm : ∀ i < n, mate i < n ∧ mate i ≠ i ∧ mate (mate i) = i ∧ (w i (mate i)).isSome = true) :
    IsPM (List.range n) w (matesPairs n mate) := by
  constructor
  · intro p hp
    obtain ⟨h1, _, h3⟩ := (mem_matesPairs n mate p).mp hp
    rw [h3]; exact (hm p.1 h1).2.2.2
  · apply (List.perm_ext_iff_of_nodup ?_ List.nodup_range).mpr
    · intro v
      rw [mem_endpoints, List.mem_range]
      constructor
      · rintro ⟨p, hp, hv⟩
        obtain ⟨h1, _, h3⟩ := (mem_matesPairs n mate p).mp hp
        rcases hv with rfl | rfl
        · exact h1
        · rw [h3]; exact (hm p.1 h1).1
      · intro hv
        obtain ⟨a1, a2, a3, _⟩ := hm v hv
        by_cases hlt : v < mate v
        · exact ⟨(v, mate v), (mem_matesPairs n mate _).mpr ⟨hv, hlt, rfl⟩, .inl rfl⟩
        · refine ⟨(mate v, v), (mem_matesPairs n mate _).mpr ⟨a1, ?_, a3.symm⟩, .inr rfl⟩
          show mate v < v
          omega
    · apply endpoints_nodup_of _ (nodup_matesPairs n mate)
      · intro p hp
        exact Nat.ne_of_lt ((mem_matesPairs n mate p).mp hp).2.1
      · intro p hp q hq h
        obtain ⟨p1, p2, p3⟩ := (mem_matesPairs n mate p).mp hp
        obtain ⟨q1, q2, q3⟩ := (mem_matesPairs n mate q).mp hq
        have mp := (hm p.1 p1).2.2.1
        have mq := (hm q.1 q1).2.2.1
        rw [← p3] at mp
        rw [← q3] at mq
        have e1 : p.1 = q.1 := by
          rcases h with h | h | h | h
          · exact h
          · exfalso
            rw [h, mq] at p3
            omega
          · exfalso
            rw [h, ← q3] at mp
            omega
          · rw [h, mq] at mp
            exact mp.symm
        exact Prod.ext e1 (by rw [p3, q3, e1])

/-- the list the wrapper builds from the array: `{tuple(sorted((a, b))) for a, b in enumerate(mates_array)}` -/
def idsList (n : Nat) (mate : Nat → Nat) : List Edge :=
  dedup ((List.range n).map fun i => sortPair (i, mate i))

theorem idsList_perm (n : Nat) (mate : Nat → Nat)
    (hm : ∀ i < n, mate i < n ∧ mate i ≠ i ∧ mate (mate i) = i) :
    (idsList n mate).Perm (matesPairs n mate) := by
  apply (List.perm_ext_iff_of_nodup (nodup_dedup _) (nodup_matesPairs n mate)).mpr
  intro p
  rw [mem_dedup, List.mem_map, mem_matesPairs]
  constructor
  · rintro ⟨i, hi, rfl⟩
    have hi' := List.mem_range.mp hi
    obtain ⟨a1, a2, a3⟩ := hm i hi'
    unfold sortPair
    dsimp only
    by_cases hle : i ≤ mate i
    · rw [if_pos hle]
      exact ⟨hi', by show i < mate i; omega, rfl⟩
    · rw [if_neg hle]
      exact ⟨a1, by show mate i < i; omega, a3.symm⟩
  · rintro ⟨h1, h2, h3⟩
    refine ⟨p.1, List.mem_range.mpr h1, ?_⟩
    rw [← h3]
    unfold sortPair
    dsimp only
    rw [if_pos (Nat.le_of_lt h2)]

/-! ### relabelling through a duplicate-free listing of the nodes -/

def mapPairs (f : Nat → Nat) (M : List Edge) : List Edge := M.map fun p => (f p.1, f p.2)

theorem endpoints_mapPairs (f : Nat → Nat) (M : List Edge) : endpoints (mapPairs f M) = (endpoints M).map f := by
  induction M with
  | nil => rfl
  | cons p M ih =>
    have e1 : mapPairs f (p :: M) = (f p.1, f p.2) :: mapPairs f M := rfl
    rw [e1, endpoints_cons, endpoints_cons, ih]
    rfl

theorem weightBy_mapPairs (w w' : Node → Node → Option Rat) (f : Nat → Nat) (M : List Edge)
    (h : ∀ p ∈ M, w' (f p.1) (f p.2) = w p.1 p.2) : weightBy w' (mapPairs f M) = weightBy w M := by
  induction M with
  | nil => rfl
  | cons p M ih =>
    have e1 : mapPairs f (p :: M) = (f p.1, f p.2) :: mapPairs f M := rfl
    rw [e1]
    simp only [weightBy]
    rw [ih (fun q hq => h q (List.mem_cons_of_mem _ hq))]
    congr 1
    unfold pairW
    simp only
    rw [h p List.mem_cons_self]

theorem isPM_mapPairs {ns ns' : List Node} {w w' : Node → Node → Option Rat} {M : List Edge} (f : Nat → Nat)
    (hM : IsPM ns w M) (hns : (ns.map f).Perm ns') (h : ∀ p ∈ M, w' (f p.1) (f p.2) = w p.1 p.2) :
    IsPM ns' w' (mapPairs f M) := by
  constructor
  · intro q hq
    obtain ⟨p, hp, rfl⟩ := List.mem_map.mp hq
    simp only
    rw [h p hp]; exact hM.1 p hp
  · rw [endpoints_mapPairs]; exact (hM.2.map f).trans hns

theorem getD_idxOf {nodes : List Node} {v : Node} (hv : v ∈ nodes) : nodes.getD (nodes.idxOf v) 0 = v := by
  have hlt : nodes.idxOf v < nodes.length := List.idxOf_lt_length_of_mem hv
  rw [List.getD_eq_getElem?_getD, List.getElem?_eq_getElem hlt]
  exact List.getElem_idxOf hlt

theorem idxOf_getD {nodes : List Node} (hnd : nodes.Nodup) {i : Nat} (hi : i < nodes.length) :
    nodes.idxOf (nodes.getD i 0) = i ∧ nodes.getD i 0 ∈ nodes := by
  rw [List.getD_eq_getElem?_getD, List.getElem?_eq_getElem hi]
  simp only [Option.getD_some]
  exact ⟨hnd.idxOf_getElem i hi, List.getElem_mem hi⟩

theorem map_idxOf_eq_range {nodes : List Node} (hnd : nodes.Nodup) :
    nodes.map (fun v => nodes.idxOf v) = List.range nodes.length := by
  apply List.ext_getElem (by simp)
  intro i h1 h2
  simp only [List.getElem_map, List.getElem_range]
  exact hnd.idxOf_getElem i (by simpa using h1)

theorem map_getD_range (nodes : List Node) :
    (List.range nodes.length).map (fun i => nodes.getD i 0) = nodes := by
  apply List.ext_getElem (by simp)
  intro i h1 h2
  simp only [List.getElem_map, List.getElem_range]
  rw [List.getD_eq_getElem?_getD, List.getElem?_eq_getElem h2]
  rfl

/-- `edge_ids` for the graph `g` whose weights are converted by `z` -/
def idEdges (nodes : List Node) (z : Rat → Int) (g : Graph) : List IEdge :=
  g.map fun e => (nodes.idxOf e.1.1, nodes.idxOf e.1.2, z e.2)

theorem find?_congr' {α : Type} {p q : α → Bool} : ∀ {l : List α}, (∀ x ∈ l, p x = q x) → l.find? p = l.find? q
  | [], _ => rfl
  | x :: l, h => by
    simp only [List.find?_cons, h x List.mem_cons_self]
    rw [find?_congr' (fun y hy => h y (List.mem_cons_of_mem _ hy))]

theorem idLookup_idEdges (nodes : List Node) (z : Rat → Int) (g : Graph)
    (hg : ∀ e ∈ g, e.1.1 ∈ nodes ∧ e.1.2 ∈ nodes) (a b : Node) :
    idLookup (idEdges nodes z g) (nodes.idxOf a) (nodes.idxOf b) = (lookup g (a, b)).map z := by
  have hcongr : g.find? ((fun e : IEdge => e.1 == nodes.idxOf a && e.2.1 == nodes.idxOf b) ∘
      fun e : Edge × Rat => (nodes.idxOf e.1.1, nodes.idxOf e.1.2, z e.2)) = g.find? (fun e => e.1 == (a, b)) := by
    apply find?_congr'
    intro e he
    obtain ⟨h1, h2⟩ := hg e he
    simp only [Function.comp]
    rw [Bool.eq_iff_iff]
    simp only [Bool.and_eq_true, beq_iff_eq]
    constructor
    · intro hc; exact Prod.ext ((List.idxOf_inj h1).mp hc.1) ((List.idxOf_inj h2).mp hc.2)
    · intro hc; rw [hc]; exact ⟨rfl, rfl⟩
  unfold idLookup idEdges lookup
  rw [List.find?_map, hcongr]
  cases g.find? (fun e => e.1 == (a, b)) <;> rfl

theorem idW_idEdges (nodes : List Node) (z : Rat → Int) (g : Graph)
    (hg : ∀ e ∈ g, e.1.1 ∈ nodes ∧ e.1.2 ∈ nodes) (a b : Node) :
    idW (idEdges nodes z g) (nodes.idxOf a) (nodes.idxOf b) = (edgeW g a b).map z := by
  unfold idW edgeW
  rw [idLookup_idEdges nodes z g hg a b, idLookup_idEdges nodes z g hg b a]
  cases lookup g (a, b) <;> rfl

theorem edgeW_mem {g : Graph} {a b : Node} {w : Rat} (h : edgeW g a b = some w) : ∃ k, (k, w) ∈ g := by
  unfold edgeW at h
  cases h1 : lookup g (a, b) with
  | some w' =>
    rw [h1] at h
    simp only [Option.some.injEq] at h
    subst h
    exact ⟨_, mem_of_lookup h1⟩
  | none =>
    rw [h1] at h
    exact ⟨_, mem_of_lookup h⟩

/-- when the conversion is exact on the weights of `g`, the id graph carries the weights of `g` -/
theorem idWR_idEdges (nodes : List Node) (z : Rat → Int) (g : Graph)
    (hg : ∀ e ∈ g, e.1.1 ∈ nodes ∧ e.1.2 ∈ nodes) (hz : ∀ e ∈ g, ((z e.2 : Int) : Rat) = e.2) (a b : Node) :
    idWR (idEdges nodes z g) (nodes.idxOf a) (nodes.idxOf b) = edgeW g a b := by
  unfold idWR
  rw [idW_idEdges nodes z g hg a b]
  cases h : edgeW g a b with
  | none => rfl
  | some w =>
    obtain ⟨k, hk⟩ := edgeW_mem h
    simp only [Option.map_some]
    exact congrArg some (hz _ hk)

/-! ### the `assert` of `mwpm_ids` -/

theorem foldl_max_ge (es : List IEdge) : ∀ init : Nat,
    init ≤ es.foldl (fun m e => max m (max e.1 e.2.1)) init ∧
    ∀ e ∈ es, e.1 ≤ es.foldl (fun m e => max m (max e.1 e.2.1)) init ∧
      e.2.1 ≤ es.foldl (fun m e => max m (max e.1 e.2.1)) init := by
  induction es with
  | nil => intro init; exact ⟨Nat.le_refl _, by simp⟩
  | cons x es ih =>
    intro init
    rw [List.foldl_cons]
    obtain ⟨h1, h2⟩ := ih (max init (max x.1 x.2.1))
    refine ⟨by omega, ?_⟩
    intro e he
    rcases List.mem_cons.mp he with rfl | he
    · omega
    · exact h2 e he

theorem foldl_max_lt (es : List IEdge) (n : Nat) (h : ∀ e ∈ es, e.1 < n ∧ e.2.1 < n) : ∀ init : Nat, init < n →
    es.foldl (fun m e => max m (max e.1 e.2.1)) init < n := by
  induction es with
  | nil => intro init hi; exact hi
  | cons x es ih =>
    intro init hi
    rw [List.foldl_cons]
    have := h x List.mem_cons_self
    exact ih (fun e he => h e (List.mem_cons_of_mem _ he)) _ (by omega)

theorem nodeIds_eq_range (es : List IEdge) (n : Nat) (hn : 0 < n) (hlt : ∀ e ∈ es, e.1 < n ∧ e.2.1 < n)
    (hall : ∀ i < n, ∃ e ∈ es, i = e.1 ∨ i = e.2.1) : nodeIds es = List.range n := by
  have h1 : maxId es < n := foldl_max_lt es n hlt 0 hn
  have h2 : n - 1 ≤ maxId es := by
    obtain ⟨e, he, hi⟩ := hall (n - 1) (by omega)
    have := (foldl_max_ge es 0).2 e he
    unfold maxId
    omega
  have h3 : maxId es + 1 = n := by omega
  unfold nodeIds
  rw [h3, List.filter_eq_self]
  intro i hi
  obtain ⟨e, he, hie⟩ := hall i (List.mem_range.mp hi)
  rw [List.any_eq_true]
  refine ⟨e, he, ?_⟩
  rcases hie with rfl | rfl <;> simp

/-- on ids `0 … n-1` (n ≥ 1), all used, the assert passes and the result is the sorted-pair set of the array -/
theorem mwpmIds_eq (clib : Clib) (es : List IEdge) (n : Nat) (hn : 0 < n) (hlt : ∀ e ∈ es, e.1 < n ∧ e.2.1 < n)
    (hall : ∀ i < n, ∃ e ∈ es, i = e.1 ∨ i = e.2.1) :
    mwpmIds clib es = some (idsList n (mateOf clib n es)) := by
  unfold mwpmIds
  simp only [nodeIds_eq_range es n hn hlt hall, List.length_range]
  rw [if_pos]
  · rfl
  · simp only [List.head?_range, List.getLast?_range]
    have : n ≠ 0 := by omega
    simp [this]

/-! ### no unordered pair is handed over twice -/

theorem pairwise_idEdges (nodes : List Node) (z : Rat → Int) (g : Graph)
    (hg : ∀ e ∈ g, e.1.1 ∈ nodes ∧ e.1.2 ∈ nodes) (hk : (keys g).Nodup)
    (hrev : ∀ a b, a ≠ b → (a, b) ∈ keys g → (b, a) ∉ keys g) :
    (idEdges nodes z g).Pairwise (fun e f => ¬ SamePair e f) := by
  unfold idEdges
  rw [List.pairwise_map]
  have hk' : g.Pairwise (fun e f => e.1 ≠ f.1) := by
    unfold keys at hk
    exact List.pairwise_map.mp hk
  apply hk'.imp_of_mem
  intro e f he hf hne hsame
  obtain ⟨e1, e2⟩ := hg e he
  have ek : e.1 ∈ keys g := List.mem_map.mpr ⟨e, he, rfl⟩
  have fk : f.1 ∈ keys g := List.mem_map.mpr ⟨f, hf, rfl⟩
  rcases hsame with ⟨h1, h2⟩ | ⟨h1, h2⟩
  · simp only at h1 h2
    exact hne (Prod.ext ((List.idxOf_inj e1).mp h1) ((List.idxOf_inj e2).mp h2))
  · simp only at h1 h2
    have a1 : e.1.1 = f.1.2 := (List.idxOf_inj e1).mp h1
    have a2 : e.1.2 = f.1.1 := (List.idxOf_inj e2).mp h2
    by_cases hd : e.1.1 = e.1.2
    · exact hne (Prod.ext (by rw [hd, a2]) (by rw [← hd, a1]))
    · apply hrev e.1.1 e.1.2 hd ek
      have : f.1 = (e.1.2, e.1.1) := Prod.ext a2.symm a1.symm
      rw [← this]; exact fk

/-! ### `weight_to_int_fn` is exact on integer weights below `infty / 10` -/

theorem foldl_absmax_lt (b : Rat) (xs : List Rat) : ∀ x, x < b → (∀ y ∈ xs, y < b) →
    xs.foldl (fun a c => if a ≤ c then c else a) x < b := by
  induction xs with
  | nil => intro x hx _; exact hx
  | cons y ys ih =>
    intro x hx h
    rw [List.foldl_cons]
    apply ih
    · split
      · exact h y List.mem_cons_self
      · exact hx
    · exact fun y' hy' => h y' (List.mem_cons_of_mem _ hy')

/-- all weights Python ints (`allInt = true`, every weight an integer) and every |weight| < infty/10: the function
    `weight_to_int_fn` returns (the zero function when all weights are 0, else the identity) maps every weight of the
    list to itself -/
theorem weightToInt_exact (infty prod : Rat) (ws : List Rat) (hint : ∀ w ∈ ws, w.den = 1)
    (hb : ∀ w ∈ ws, w < infty / 10 ∧ -w < infty / 10) (w : Rat) (hw : w ∈ ws) :
    ∃ z : Int, weightToInt infty true ws w prod = some z ∧ (z : Rat) = w := by
  unfold weightToInt
  cases hkind : weightToIntKind infty true ws with
  | scaled =>
    exfalso
    unfold weightToIntKind at hkind
    simp only at hkind
    split at hkind
    · cases hkind
    · rename_i x xs heq
      have hall : ∀ y ∈ x :: xs, y < infty / 10 := by
        intro y hy
        rw [← heq] at hy
        obtain ⟨w', hw', rfl⟩ := List.mem_map.mp hy
        have hw'' := (List.mem_filter.mp hw').1
        split
        · exact (hb w' hw'').1
        · exact (hb w' hw'').2
      have := foldl_absmax_lt (infty / 10) xs x (hall x List.mem_cons_self)
        (fun y hy => hall y (List.mem_cons_of_mem _ hy))
      simp [this] at hkind
  | ident =>
    simp only
    rw [if_pos (hint w hw)]
    exact ⟨w.num, rfl, (Rat.den_eq_one_iff w).mp (hint w hw)⟩
  | zero =>
    simp only
    refine ⟨0, rfl, ?_⟩
    unfold weightToIntKind at hkind
    simp only at hkind
    split at hkind
    · rename_i heq
      have hnil : ws.filter (· != 0) = [] := List.map_eq_nil_iff.mp heq
      have : w ∉ ws.filter (· != 0) := by rw [hnil]; simp
      rw [List.mem_filter] at this
      have hw0 : ¬ ((w != 0) = true) := fun h => this ⟨hw, h⟩
      simp only [bne_iff_ne, ne_eq, not_not] at hw0
      rw [hw0]; rfl
    · split at hkind <;> cases hkind

theorem allSome_map {α β : Type} (f : α → Option β) (f' : α → β) :
    ∀ (l : List α), (∀ x ∈ l, f x = some (f' x)) → allSome (l.map f) = some (l.map f')
  | [], _ => rfl
  | x :: l, h => by
    simp only [List.map_cons, h x List.mem_cons_self, allSome,
      allSome_map f f' l (fun y hy => h y (List.mem_cons_of_mem _ hy)), Option.map_some]

theorem isPM_of_perm {ns : List Node} {w : Node → Node → Option Rat} {M M' : List Edge} (h : M.Perm M')
    (hM : IsPM ns w M) : IsPM ns w M' :=
  ⟨fun p hp => hM.1 p (h.mem_iff.mpr hp), (endpoints_perm h.symm).trans hM.2⟩

/-! ### the wrapper theorem -/

/-- **wrapper theorem for the Blossom V path** (the analogue of `C13.mwpmNetworkx_min_weight_perfect`): if the C
    routine meets its contract, then for every `SimpleGraph` content `g` (no key twice, no pair in both orientations)
    that has a perfect matching, every listing `nodes` of its node set (the hash order of the Python set), and
    weights on which `weight_to_int_fn` is exact, `mwpm_blossom5` raises nothing and returns a perfect matching of
    `g` whose total weight is the minimum over all perfect matchings -/
theorem mwpmBlossom5_min_weight_perfect (clib : Clib) (hc : ClibContract clib) (infty : Rat) (allInt : Bool)
    (prod : Rat → Rat) (nodes : List Node) (g : Graph)
    (hk : (keys g).Nodup) (hrev : ∀ a b, a ≠ b → (a, b) ∈ keys g → (b, a) ∉ keys g)
    (hnodes : nodes.Perm (nodesOf g))
    (hexact : ∀ e ∈ g, ∃ z : Int, weightToInt infty allInt (g.map (·.2)) e.2 (prod e.2) = some z ∧ (z : Rat) = e.2)
    (hpm : ∃ P, IsPM (nodesOf g) (edgeW g) P) :
    ∃ M, mwpmBlossom5 infty allInt prod nodes clib g = some M ∧ IsPM (nodesOf g) (edgeW g) M ∧
      ∀ P, IsPM (nodesOf g) (edgeW g) P → matchingWeight g M ≤ matchingWeight g P := by
  by_cases hg0 : g.isEmpty = true
  · have : g = [] := List.isEmpty_iff.mp hg0
    subst this
    refine ⟨[], by simp [mwpmBlossom5], ⟨by simp, by simp [endpoints, nodesOf]⟩, ?_⟩
    intro P hP
    have : P = [] := endpoints_eq_nil (List.Perm.eq_nil (by simpa [nodesOf] using hP.2))
    subst this
    exact le_refl _
  · -- the conversion function
    obtain ⟨z, hzdef⟩ : ∃ z : Rat → Int, ∀ w, z w = (weightToInt infty allInt (g.map (·.2)) w (prod w)).getD 0 :=
      ⟨_, fun _ => rfl⟩
    have hz : ∀ e ∈ g, weightToInt infty allInt (g.map (·.2)) e.2 (prod e.2) = some (z e.2) ∧
        ((z e.2 : Int) : Rat) = e.2 := by
      intro e he
      obtain ⟨z0, h1, h2⟩ := hexact e he
      have : z e.2 = z0 := by rw [hzdef, h1]; rfl
      rw [this]; exact ⟨h1, h2⟩
    have hnd : nodes.Nodup := hnodes.nodup_iff.mpr (nodup_nodesOf g)
    have hg : ∀ e ∈ g, e.1.1 ∈ nodes ∧ e.1.2 ∈ nodes := by
      intro e he
      exact ⟨hnodes.mem_iff.mpr ((mem_nodesOf g _).mpr ⟨e, he, .inl rfl⟩),
        hnodes.mem_iff.mpr ((mem_nodesOf g _).mpr ⟨e, he, .inr rfl⟩)⟩
    obtain ⟨e0, he0⟩ : ∃ e, e ∈ g := by
      cases g with
      | nil => simp at hg0
      | cons e _ => exact ⟨e, List.mem_cons_self⟩
    have hn : 0 < nodes.length := List.length_pos_of_mem (hg e0 he0).1
    generalize hes : idEdges nodes z g = es
    have hlt : ∀ e ∈ es, e.1 < nodes.length ∧ e.2.1 < nodes.length := by
      intro e he
      rw [← hes] at he
      obtain ⟨e', he', rfl⟩ := List.mem_map.mp he
      exact ⟨List.idxOf_lt_length_of_mem (hg e' he').1, List.idxOf_lt_length_of_mem (hg e' he').2⟩
    have hall : ∀ i < nodes.length, ∃ e ∈ es, i = e.1 ∨ i = e.2.1 := by
      intro i hi
      obtain ⟨h1, h2⟩ := idxOf_getD hnd hi
      obtain ⟨e', he', hv⟩ := (mem_nodesOf g _).mp (hnodes.mem_iff.mp h2)
      refine ⟨_, by rw [← hes]; exact List.mem_map.mpr ⟨e', he', rfl⟩, ?_⟩
      rcases hv with hv | hv
      · left; rw [← hv, h1]
      · right; rw [← hv, h1]
    have hpw : es.Pairwise (fun e f => ¬ SamePair e f) := by
      rw [← hes]; exact pairwise_idEdges nodes z g hg hk hrev
    have hW : ∀ a b, idWR es (nodes.idxOf a) (nodes.idxOf b) = edgeW g a b := by
      intro a b; rw [← hes]; exact idWR_idEdges nodes z g hg (fun e he => (hz e he).2) a b
    -- perfect matchings of `g` relabel to perfect matchings of the id graph, with the same weight
    have hfwd : ∀ P, IsPM (nodesOf g) (edgeW g) P →
        IsPM (List.range nodes.length) (idWR es) (mapPairs (fun v => nodes.idxOf v) P) ∧
        weightBy (idWR es) (mapPairs (fun v => nodes.idxOf v) P) = weightBy (edgeW g) P := by
      intro P hP
      refine ⟨isPM_mapPairs _ hP ?_ (fun p _ => hW p.1 p.2), weightBy_mapPairs _ _ _ _ (fun p _ => hW p.1 p.2)⟩
      rw [← map_idxOf_eq_range hnd]
      exact hnodes.symm.map _
    obtain ⟨P0, hP0⟩ := hpm
    obtain ⟨hinv, hmin⟩ := hc nodes.length es hlt hall hpw ⟨_, (hfwd P0 hP0).1⟩
    generalize hmate : mateOf clib nodes.length es = mate at hinv hmin
    have hQ : IsPM (List.range nodes.length) (idWR es) (matesPairs nodes.length mate) :=
      isPM_matesPairs _ _ _ hinv
    have hLperm := idsList_perm nodes.length mate (fun i hi => ⟨(hinv i hi).1, (hinv i hi).2.1, (hinv i hi).2.2.1⟩)
    have hL : IsPM (List.range nodes.length) (idWR es) (idsList nodes.length mate) := isPM_of_perm hLperm.symm hQ
    have hLlt : ∀ p ∈ idsList nodes.length mate, p.1 < nodes.length ∧ p.2 < nodes.length := by
      intro p hp
      obtain ⟨h1, _, h3⟩ := (mem_matesPairs _ _ p).mp (hLperm.mem_iff.mp hp)
      exact ⟨h1, by rw [h3]; exact (hinv p.1 h1).1⟩
    have hWb : ∀ p ∈ idsList nodes.length mate,
        edgeW g (nodes.getD p.1 0) (nodes.getD p.2 0) = idWR es p.1 p.2 := by
      intro p hp
      obtain ⟨h1, h2⟩ := hLlt p hp
      rw [← hW, (idxOf_getD hnd h1).1, (idxOf_getD hnd h2).1]
    -- the decoded pairs
    have hM0 : IsPM (nodesOf g) (edgeW g) (mapPairs (fun i => nodes.getD i 0) (idsList nodes.length mate)) := by
      refine isPM_mapPairs _ hL ?_ hWb
      rw [map_getD_range]; exact hnodes
    have hM0w : weightBy (edgeW g) (mapPairs (fun i => nodes.getD i 0) (idsList nodes.length mate)) =
        weightBy (idWR es) (matesPairs nodes.length mate) := by
      rw [weightBy_mapPairs _ _ _ _ hWb]; exact weightBy_perm _ hLperm
    have hM0nd : (mapPairs (fun i => nodes.getD i 0) (idsList nodes.length mate)).Nodup := by
      unfold mapPairs
      apply List.Nodup.map_on _ (nodup_dedup _)
      intro p hp q hq hpq
      obtain ⟨p1, p2⟩ := hLlt p hp
      obtain ⟨q1, q2⟩ := hLlt q hq
      simp only [Prod.mk.injEq] at hpq
      apply Prod.ext
      · rw [← (idxOf_getD hnd p1).1, ← (idxOf_getD hnd q1).1, hpq.1]
      · rw [← (idxOf_getD hnd p2).1, ← (idxOf_getD hnd q2).1, hpq.2]
    have hdd : (dedup (mapPairs (fun i => nodes.getD i 0) (idsList nodes.length mate))).Perm
        (mapPairs (fun i => nodes.getD i 0) (idsList nodes.length mate)) :=
      (List.perm_ext_iff_of_nodup (nodup_dedup _) hM0nd).mpr (fun p => mem_dedup _ p)
    have hcomp : mwpmBlossom5 infty allInt prod nodes clib g =
        some (dedup (mapPairs (fun i => nodes.getD i 0) (idsList nodes.length mate))) := by
      unfold mwpmBlossom5
      rw [if_neg hg0]
      simp only
      rw [allSome_map _ (fun e => (e.1.1, e.1.2, z e.2)) g (fun e he => by rw [(hz e he).1]; rfl)]
      simp only
      unfold mwpmObjs
      simp only [List.map_map]
      have : (List.map ((fun e : IEdge => (nodes.idxOf e.1, nodes.idxOf e.2.1, e.2.2)) ∘
          fun e : Edge × Rat => (e.1.1, e.1.2, z e.2)) g) = es := by rw [← hes]; rfl
      rw [this, mwpmIds_eq clib es nodes.length hn hlt hall, hmate]
      rfl
    refine ⟨_, hcomp, isPM_of_perm hdd.symm hM0, ?_⟩
    intro P hP
    unfold matchingWeight
    rw [weightBy_perm _ hdd, hM0w, ← (hfwd P hP).2]
    exact hmin _ (hfwd P hP).1

end Qec.Blossom5
