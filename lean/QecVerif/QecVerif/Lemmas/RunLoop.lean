import QecVerif.Model.RunLoop
import Mathlib.Tactic.Ring
import Mathlib.Tactic.FieldSimp
import Mathlib.Algebra.Field.Rat
namespace Qec

/-! ### the guard as a function of the two counters -/

def guardN (mr mf : Option Nat) (nRun nFail : Nat) : Bool :=
  (match mr with | none => true | some r => decide (nRun < r)) &&
  (match mf with | none => true | some f => decide (nFail < f))

theorem guard_eq_guardN (mr mf : Option Nat) (s : LoopState) :
    guard mr mf s = guardN mr mf s.nRun s.nFail := rfl

theorem guardN_eq_false_iff (mr mf : Option Nat) (j k : Nat) :
    guardN mr mf j k = false ↔ (∃ r, mr = some r ∧ r ≤ j) ∨ (∃ f, mf = some f ∧ f ≤ k) := by
  cases mr <;> cases mf <;> simp [guardN]
  omega

theorem guardN_eq_true_iff (mr mf : Option Nat) (j k : Nat) :
    guardN mr mf j k = true ↔ ¬ ((∃ r, mr = some r ∧ r ≤ j) ∨ (∃ f, mf = some f ∧ f ≤ k)) := by
  rw [← guardN_eq_false_iff]; simp

/-! ### `addVec` -/

theorem length_addVec (a b : List Int) (h : a.length = b.length) : (addVec a b).length = b.length := by
  simp [addVec, h]

theorem getElem?_addVec (a b : List Int) (i : Nat) (h : a.length = b.length) (hi : i < b.length) :
    (addVec a b)[i]? = some (a.getD i 0 + b.getD i 0) := by
  have ha : i < a.length := h ▸ hi
  simp [addVec, List.getElem?_zipWith, List.getD, List.getElem?_eq_getElem hi,
    List.getElem?_eq_getElem ha]

/-! ### one array key -/

/-- invariant of one summed array key after the runs `pre` -/
def ArrInv (get : RunOut → Option (List Int)) (pre : List RunOut) (sum : Option (List Int)) : Prop :=
  (pre = [] → sum = none) ∧
  (∀ o ∈ pre, (get o).map List.length = sum.map List.length) ∧
  (∀ v, sum = some v → ∀ i, i < v.length →
    v[i]? = some ((pre.map fun o => ((get o).getD []).getD i 0).sum))

theorem ArrInv_nil (get : RunOut → Option (List Int)) : ArrInv get [] none :=
  ⟨fun _ => rfl, by simp, by simp⟩

theorem stepArray_ok {get : RunOut → Option (List Int)} {pre : List RunOut}
    {sum sum' : Option (List Int)} {o : RunOut} (hinv : ArrInv get pre sum)
    (h : stepArray (pre.length + 1 == 1) sum (get o) = some sum') :
    ArrInv get (pre ++ [o]) sum' := by
  obtain ⟨h0, hshape, hval⟩ := hinv
  cases pre with
  | nil =>
    have := h0 rfl
    subst this
    cases hv : get o with
    | none =>
      simp [stepArray, hv] at h
      subst h
      exact ⟨by simp, by simp [hv], by simp⟩
    | some v =>
      simp [stepArray, hv] at h
      subst h
      refine ⟨by simp, by simp [hv, length_addVec], ?_⟩
      intro w hw i hi
      simp at hw
      subst hw
      rw [length_addVec _ _ (by simp)] at hi
      rw [getElem?_addVec _ _ _ (by simp) hi]
      simp [hv, List.getD, hi]
  | cons p ps =>
    have hf : ((p :: ps).length + 1 == 1) = false := by simp
    rw [hf] at h
    cases hv : get o with
    | none =>
      cases sum with
      | some s => simp [stepArray, hv] at h
      | none =>
        simp [stepArray, hv] at h
        subst h
        refine ⟨by simp, ?_, by simp⟩
        intro o' ho'
        rw [List.mem_append] at ho'
        rcases ho' with ho' | ho'
        · exact hshape o' ho'
        · simp at ho'; subst ho'; simp [hv]
    | some v =>
      cases sum with
      | none => simp [stepArray, hv] at h
      | some s =>
        simp only [stepArray, hv, Bool.false_eq_true, if_false] at h
        by_cases hl : s.length = v.length
        · simp [hl] at h
          subst h
          refine ⟨by simp, ?_, ?_⟩
          · intro o' ho'
            rw [List.mem_append] at ho'
            rcases ho' with ho' | ho'
            · have := hshape o' ho'
              simpa [length_addVec _ _ hl, hl] using this
            · simp at ho'; subst ho'; simp [hv, length_addVec _ _ hl]
          · intro w hw i hi
            simp at hw
            subst hw
            rw [length_addVec _ _ hl] at hi
            rw [getElem?_addVec _ _ _ hl hi]
            have hs := hval s rfl i (hl ▸ hi)
            have hs' : s.getD i 0 = ((p :: ps).map fun o => ((get o).getD []).getD i 0).sum := by
              simp [List.getD, hs]
            rw [hs']
            simp [hv, List.sum_append, Int.add_assoc]
        · simp [hl] at h

theorem stepArray_none {get : RunOut → Option (List Int)} {pre : List RunOut}
    {sum : Option (List Int)} {o : RunOut} (hinv : ArrInv get pre sum)
    (h : stepArray (pre.length + 1 == 1) sum (get o) = none) :
    pre ≠ [] ∧ (get o).map List.length ≠ sum.map List.length := by
  obtain ⟨h0, _, _⟩ := hinv
  cases pre with
  | nil =>
    have := h0 rfl
    subst this
    cases hv : get o <;> simp [stepArray, hv] at h
  | cons p ps =>
    have hf : ((p :: ps).length + 1 == 1) = false := by simp
    rw [hf] at h
    refine ⟨by simp, ?_⟩
    cases hv : get o <;> cases sum <;> simp [stepArray, hv] at h ⊢
    exact fun h' => h h'.symm

/-! ### the loop invariant -/

/-- state `s` is what the loop holds after performing exactly the runs `pre` (guard true before
    each of them) -/
structure Inv (mr mf : Option Nat) (pre : List RunOut) (s : LoopState) : Prop where
  nRun : s.nRun = pre.length
  nSuccess : s.nSuccess = pre.countP (fun o => o.success)
  nFail : s.nFail = pre.countP (fun o => !o.success)
  weights : s.weights = pre.map (·.errorWeight)
  lc : ArrInv (·.lc) pre s.lcSum
  cv : ArrInv (·.cv) pre s.cvSum
  hist : ∀ j, j < pre.length → guardN mr mf j ((pre.take j).countP (fun o => !o.success)) = true

theorem Inv_init (mr mf : Option Nat) : Inv mr mf [] {} :=
  ⟨rfl, rfl, rfl, rfl, ArrInv_nil _, ArrInv_nil _, by simp⟩

theorem body_ok_inv {s s' : LoopState} {o : RunOut} (h : body s o = .ok s') :
    ∃ lc cv, stepArray (s.nRun + 1 == 1) s.lcSum o.lc = some lc ∧
      stepArray (s.nRun + 1 == 1) s.cvSum o.cv = some cv ∧
      s' = { nRun := s.nRun + 1
             nSuccess := if o.success then s.nSuccess + 1 else s.nSuccess
             nFail := if o.success then s.nFail else s.nFail + 1
             lcSum := lc, cvSum := cv
             weights := s.weights ++ [o.errorWeight] } := by
  cases hlc : stepArray (s.nRun + 1 == 1) s.lcSum o.lc with
  | none => simp only [body, hlc] at h; cases h
  | some lc =>
    cases hcv : stepArray (s.nRun + 1 == 1) s.cvSum o.cv with
    | none => simp only [body, hlc, hcv] at h; cases h
    | some cv =>
      simp only [body, hlc, hcv, Except.ok.injEq] at h
      exact ⟨lc, cv, rfl, rfl, h.symm⟩

theorem body_error_inv {s : LoopState} {o : RunOut} {e : LoopErr} (h : body s o = .error e) :
    (e = .mismatchLc (s.nRun + 1) ∧ stepArray (s.nRun + 1 == 1) s.lcSum o.lc = none) ∨
    (e = .mismatchCv (s.nRun + 1) ∧ stepArray (s.nRun + 1 == 1) s.cvSum o.cv = none) := by
  cases hlc : stepArray (s.nRun + 1 == 1) s.lcSum o.lc with
  | none => simp only [body, hlc, Except.error.injEq] at h; exact Or.inl ⟨h.symm, rfl⟩
  | some lc =>
    cases hcv : stepArray (s.nRun + 1 == 1) s.cvSum o.cv with
    | none => simp only [body, hlc, hcv, Except.error.injEq] at h; exact Or.inr ⟨h.symm, rfl⟩
    | some cv => simp only [body, hlc, hcv] at h; cases h

theorem body_ok {mr mf : Option Nat} {pre : List RunOut} {s s' : LoopState} {o : RunOut}
    (hinv : Inv mr mf pre s) (hg : guard mr mf s = true) (h : body s o = .ok s') :
    Inv mr mf (pre ++ [o]) s' := by
  obtain ⟨lc, cv, hlc, hcv, rfl⟩ := body_ok_inv h
  rw [hinv.nRun] at hlc hcv
  refine ⟨by simp [hinv.nRun], ?_, ?_, by simp [hinv.weights], stepArray_ok hinv.lc hlc,
    stepArray_ok hinv.cv hcv, ?_⟩
  · cases hs : o.success <;> simp [hs, hinv.nSuccess, List.countP_append]
  · cases hs : o.success <;> simp [hs, hinv.nFail, List.countP_append]
  · intro j hj
    simp at hj
    by_cases hj' : j < pre.length
    · rw [List.take_append_of_le_length (Nat.le_of_lt hj')]
      exact hinv.hist j hj'
    · have : j = pre.length := by omega
      subst this
      rw [List.take_left' rfl, ← hinv.nFail, ← hinv.nRun, ← guard_eq_guardN]
      exact hg

theorem loopFrom_of_guard_false {mr mf : Option Nat} {s : LoopState} (hg : guard mr mf s = false)
    (l : List RunOut) : loopFrom mr mf s l = .ok s := by
  cases l <;> simp [loopFrom, hg]

theorem loopFrom_ok {mr mf : Option Nat} {rest : List RunOut} :
    ∀ {pre : List RunOut} {s s' : LoopState}, Inv mr mf pre s → loopFrom mr mf s rest = .ok s' →
      ∃ k, k ≤ rest.length ∧ Inv mr mf (pre ++ rest.take k) s' ∧ guard mr mf s' = false := by
  induction rest with
  | nil =>
    intro pre s s' hinv h
    cases hg : guard mr mf s
    · simp [loopFrom, hg] at h
      subst h
      exact ⟨0, Nat.le_refl _, by simpa using hinv, hg⟩
    · simp [loopFrom, hg] at h
  | cons o rest ih =>
    intro pre s s' hinv h
    cases hg : guard mr mf s
    · simp [loopFrom, hg] at h
      subst h
      exact ⟨0, Nat.zero_le _, by simpa using hinv, hg⟩
    · simp only [loopFrom, hg, if_true] at h
      cases hb : body s o with
      | error e => simp [hb] at h
      | ok s1 =>
        simp only [hb] at h
        obtain ⟨k, hk, hinv', hg'⟩ := ih (body_ok hinv hg hb) h
        exact ⟨k + 1, by simpa using hk, by simpa [List.append_assoc] using hinv', hg'⟩

theorem loopFrom_needMore {mr mf : Option Nat} {rest : List RunOut} :
    ∀ {pre : List RunOut} {s : LoopState}, Inv mr mf pre s →
      loopFrom mr mf s rest = .error .needMore →
      ∃ s1, Inv mr mf (pre ++ rest) s1 ∧ guard mr mf s1 = true := by
  induction rest with
  | nil =>
    intro pre s hinv h
    cases hg : guard mr mf s
    · simp [loopFrom, hg] at h
    · exact ⟨s, by simpa using hinv, hg⟩
  | cons o rest ih =>
    intro pre s hinv h
    cases hg : guard mr mf s
    · simp [loopFrom, hg] at h
    · simp only [loopFrom, hg, if_true] at h
      cases hb : body s o with
      | error e =>
        simp only [hb] at h
        rcases body_error_inv hb with ⟨he, _⟩ | ⟨he, _⟩ <;> (subst he; simp at h)
      | ok s1 =>
        simp only [hb] at h
        obtain ⟨s2, hinv', hg'⟩ := ih (body_ok hinv hg hb) h
        exact ⟨s2, by simpa [List.append_assoc] using hinv', hg'⟩

theorem loopFrom_mismatch {mr mf : Option Nat} {rest : List RunOut} {e : LoopErr}
    (hne : e ≠ .needMore) :
    ∀ {pre : List RunOut} {s : LoopState}, Inv mr mf pre s →
      loopFrom mr mf s rest = .error e →
      ∃ k s1 o, rest[k]? = some o ∧ Inv mr mf (pre ++ rest.take k) s1 ∧ guard mr mf s1 = true ∧
        body s1 o = .error e := by
  induction rest with
  | nil =>
    intro pre s hinv h
    cases hg : guard mr mf s
    · simp [loopFrom, hg] at h
    · simp [loopFrom, hg] at h
      exact absurd h.symm hne
  | cons o rest ih =>
    intro pre s hinv h
    cases hg : guard mr mf s
    · simp [loopFrom, hg] at h
    · simp only [loopFrom, hg, if_true] at h
      cases hb : body s o with
      | error e' =>
        simp only [hb] at h
        have : e' = e := by simpa using h
        subst this
        exact ⟨0, s, o, by simp, by simpa using hinv, hg, hb⟩
      | ok s1 =>
        simp only [hb] at h
        obtain ⟨k, s2, o2, hk, hinv', hg', hb'⟩ := ih (body_ok hinv hg hb) h
        exact ⟨k + 1, s2, o2, by simpa using hk, by simpa [List.append_assoc] using hinv', hg', hb'⟩

theorem loopFrom_prefix {mr mf : Option Nat} {rest : List RunOut} :
    ∀ {s s' : LoopState}, loopFrom mr mf s rest = .ok s' →
      ∃ k, k ≤ rest.length ∧ s'.nRun = s.nRun + k ∧
        ∀ other, loopFrom mr mf s (rest.take k ++ other) = .ok s' := by
  induction rest with
  | nil =>
    intro s s' h
    cases hg : guard mr mf s
    · rw [loopFrom_of_guard_false hg] at h
      have : s = s' := by simpa using h
      subst this
      exact ⟨0, Nat.le_refl _, rfl, fun other => loopFrom_of_guard_false hg _⟩
    · simp [loopFrom, hg] at h
  | cons o rest ih =>
    intro s s' h
    cases hg : guard mr mf s
    · rw [loopFrom_of_guard_false hg] at h
      have : s = s' := by simpa using h
      subst this
      exact ⟨0, Nat.zero_le _, rfl, fun other => loopFrom_of_guard_false hg _⟩
    · simp only [loopFrom, hg, if_true] at h
      cases hb : body s o with
      | error e => simp [hb] at h
      | ok s1 =>
        simp only [hb] at h
        obtain ⟨k, hk, hn, hall⟩ := ih h
        obtain ⟨lc, cv, _, _, hs1⟩ := body_ok_inv hb
        refine ⟨k + 1, by simpa using hk, ?_, ?_⟩
        · rw [hn, hs1]; simp; omega
        · intro other
          simp only [List.take_succ_cons, List.cons_append, loopFrom, hg, if_true, hb]
          exact hall other

/-! ### consequences for `runLoop` -/

theorem take_take_of_le {α : Type} (l : List α) {j k : Nat} (h : j ≤ k) :
    (l.take k).take j = l.take j := by
  rw [List.take_take, Nat.min_eq_left h]

theorem runLoop_ok {mr mf : Option Nat} {outs : List RunOut} {s : LoopState}
    (h : runLoop mr mf outs = .ok s) :
    s.nRun ≤ outs.length ∧ Inv (effectiveMaxRuns mr mf) mf (outs.take s.nRun) s ∧
    guardN (effectiveMaxRuns mr mf) mf s.nRun s.nFail = false ∧
    (∀ j, j < s.nRun →
      guardN (effectiveMaxRuns mr mf) mf j ((outs.take j).countP (fun o => !o.success)) = true) := by
  obtain ⟨k, hk, hinv, hg⟩ := loopFrom_ok (Inv_init _ _) h
  simp only [List.nil_append] at hinv
  have hn : s.nRun = k := by rw [hinv.nRun, List.length_take, Nat.min_eq_left hk]
  subst hn
  refine ⟨hk, hinv, hg, ?_⟩
  intro j hj
  have := hinv.hist j (by rw [List.length_take, Nat.min_eq_left hk]; exact hj)
  rwa [take_take_of_le _ (Nat.le_of_lt hj)] at this

theorem runLoop_needMore {mr mf : Option Nat} {outs : List RunOut}
    (h : runLoop mr mf outs = .error .needMore) :
    ∀ j, j ≤ outs.length →
      guardN (effectiveMaxRuns mr mf) mf j ((outs.take j).countP (fun o => !o.success)) = true := by
  obtain ⟨s1, hinv, hg⟩ := loopFrom_needMore (Inv_init _ _) h
  simp only [List.nil_append] at hinv
  intro j hj
  by_cases hj' : j < outs.length
  · exact hinv.hist j hj'
  · have : j = outs.length := by omega
    subst this
    rw [List.take_length, ← hinv.nFail, ← hinv.nRun, ← guard_eq_guardN]
    exact hg

theorem runLoop_mismatch {mr mf : Option Nat} {outs : List RunOut} {e : LoopErr}
    (hne : e ≠ .needMore) (h : runLoop mr mf outs = .error e) :
    ∃ k s1 o, outs[k]? = some o ∧ k < outs.length ∧ s1.nRun = k ∧
      Inv (effectiveMaxRuns mr mf) mf (outs.take k) s1 ∧
      (∀ j, j ≤ k →
        guardN (effectiveMaxRuns mr mf) mf j ((outs.take j).countP (fun o => !o.success)) = true) ∧
      body s1 o = .error e := by
  obtain ⟨k, s1, o, hk, hinv, hg, hb⟩ := loopFrom_mismatch hne (Inv_init _ _) h
  simp only [List.nil_append] at hinv
  have hk' : k < outs.length := by
    rcases List.getElem?_eq_some_iff.mp hk with ⟨hlt, _⟩
    exact hlt
  have hn : s1.nRun = k := by rw [hinv.nRun, List.length_take, Nat.min_eq_left (Nat.le_of_lt hk')]
  refine ⟨k, s1, o, hk, hk', hn, hinv, ?_, hb⟩
  intro j hj
  by_cases hj' : j < k
  · have := hinv.hist j (by rw [List.length_take, Nat.min_eq_left (Nat.le_of_lt hk')]; exact hj')
    rwa [take_take_of_le _ (Nat.le_of_lt hj')] at this
  · have : j = k := by omega
    subst this
    rw [guard_eq_guardN, hinv.nFail, hn] at hg
    exact hg

/-! ### list helpers and read-off forms of the invariant -/

theorem mem_take_of_getElem? {α : Type} {l : List α} {i n : Nat} {a : α} (h : l[i]? = some a)
    (hi : i < n) : a ∈ l.take n := by
  apply List.mem_of_getElem? (i := i)
  rw [List.getElem?_take]
  simp [hi, h]

theorem countP_take_succ_le {α : Type} (p : α → Bool) (l : List α) (j : Nat) :
    (l.take (j + 1)).countP p ≤ (l.take j).countP p + 1 := by
  rw [List.take_add_one, List.countP_append]
  cases l[j]? with
  | none => simp
  | some a => cases hp : p a <;> simp [hp]

theorem countP_success_add (l : List RunOut) :
    l.countP (fun o => o.success) + l.countP (fun o => !o.success) = l.length := by
  induction l with
  | nil => rfl
  | cons o os ih => cases h : o.success <;> simp [h] <;> omega

theorem ArrInv.spec {get : RunOut → Option (List Int)} {pre : List RunOut}
    {sum : Option (List Int)} (h : ArrInv get pre sum) :
    (sum = none → ∀ o ∈ pre, get o = none) ∧
    (∀ v, sum = some v →
      (∀ o ∈ pre, ∃ w, get o = some w ∧ w.length = v.length) ∧
      ∀ i, i < v.length → v[i]? = some ((pre.map fun o => ((get o).getD []).getD i 0).sum)) := by
  obtain ⟨_, hshape, hval⟩ := h
  refine ⟨?_, ?_⟩
  · intro hs o ho
    have := hshape o ho
    rw [hs] at this
    simpa using this
  · intro v hs
    refine ⟨?_, hval v hs⟩
    intro o ho
    have := hshape o ho
    rw [hs] at this
    simpa using this

/-- a mismatch error at run `r = k+1`: runs `1..k` agree in shape with run 1, run `k+1` does not,
    and the guard held before each of the runs `1..k+1` -/
theorem runLoop_mismatch_spec {mr mf : Option Nat} {outs : List RunOut} {r : Nat} {e : LoopErr}
    (he : e = LoopErr.mismatchLc r ∨ e = LoopErr.mismatchCv r)
    (h : runLoop mr mf outs = .error e) :
    ∃ k o o0, r = k + 1 ∧ 1 ≤ k ∧ k < outs.length ∧ outs[k]? = some o ∧ outs[0]? = some o0 ∧
      (∀ o' ∈ outs.take k, o'.lc.map List.length = o0.lc.map List.length ∧
        o'.cv.map List.length = o0.cv.map List.length) ∧
      (o.lc.map List.length ≠ o0.lc.map List.length ∨
        o.cv.map List.length ≠ o0.cv.map List.length) ∧
      (∀ j, j ≤ k → guardN (effectiveMaxRuns mr mf) mf j
        ((outs.take j).countP (fun o => !o.success)) = true) := by
  have hne : e ≠ .needMore := by rcases he with rfl | rfl <;> simp
  obtain ⟨k, s1, o, hk, hklt, hn, hinv, hhist, hb⟩ := runLoop_mismatch hne h
  have hstep : r = k + 1 ∧
      ((outs.take k ≠ [] ∧ o.lc.map List.length ≠ s1.lcSum.map List.length) ∨
       (outs.take k ≠ [] ∧ o.cv.map List.length ≠ s1.cvSum.map List.length)) := by
    rcases body_error_inv hb with ⟨he', hs⟩ | ⟨he', hs⟩
    · rw [hinv.nRun] at hs
      refine ⟨?_, Or.inl (stepArray_none hinv.lc hs)⟩
      rcases he with rfl | rfl
      · simp at he'; omega
      · simp at he'
    · rw [hinv.nRun] at hs
      refine ⟨?_, Or.inr (stepArray_none hinv.cv hs)⟩
      rcases he with rfl | rfl
      · simp at he'
      · simp at he'; omega
  obtain ⟨hr, hmis⟩ := hstep
  have hk1 : 1 ≤ k := by
    rcases hmis with ⟨hne', _⟩ | ⟨hne', _⟩ <;>
    · rcases Nat.eq_zero_or_pos k with h0 | h0
      · subst h0; simp at hne'
      · exact h0
  have h0lt : 0 < outs.length := by omega
  have ho0 : outs[0]? = some outs[0] := List.getElem?_eq_getElem h0lt
  have hmem0 : outs[0] ∈ outs.take k := mem_take_of_getElem? ho0 hk1
  have hlc0 := hinv.lc.2.1 _ hmem0
  have hcv0 := hinv.cv.2.1 _ hmem0
  refine ⟨k, o, outs[0], hr, hk1, hklt, hk, ho0, ?_, ?_, hhist⟩
  · intro o' ho'
    exact ⟨(hinv.lc.2.1 o' ho').trans hlc0.symm, (hinv.cv.2.1 o' ho').trans hcv0.symm⟩
  · rcases hmis with ⟨_, hm⟩ | ⟨_, hm⟩
    · exact Or.inl (fun hh => hm (hh.trans hlc0))
    · exact Or.inr (fun hh => hm (hh.trans hcv0))

/-! ### statistics -/

theorem foldl_add_eq_sum (l : List Nat) (a : Nat) : l.foldl (· + ·) a = a + l.sum := by
  induction l generalizing a with
  | nil => simp
  | cons x xs ih => simp [List.foldl_cons, ih, Nat.add_assoc]

theorem sumNat_eq_sum (l : List Nat) : sumNat l = l.sum := by
  simp [sumNat, foldl_add_eq_sum]

theorem foldl_sqdev_eq (mu : Rat) (l : List Nat) (a : Rat) :
    l.foldl (fun (acc : Rat) (x : Nat) => acc + ((x : Rat) - mu) * ((x : Rat) - mu)) a =
      a + (l.map fun (x : Nat) => ((x : Rat) - mu) * ((x : Rat) - mu)).sum := by
  induction l generalizing a with
  | nil => simp
  | cons x xs ih => simp only [List.foldl_cons, ih, List.map_cons, List.sum_cons]; ring

theorem sum_sqdev (c : Rat) (l : List Nat) :
    (l.map fun (x : Nat) => ((x : Rat) - c) * ((x : Rat) - c)).sum =
      (l.map fun (x : Nat) => (x : Rat) * (x : Rat)).sum - 2 * c * ((l.sum : Nat) : Rat)
        + (l.length : Rat) * c * c := by
  induction l with
  | nil => simp
  | cons x xs ih =>
    simp only [List.map_cons, List.sum_cons, ih, List.length_cons]
    push_cast
    ring

theorem pvariance_eq (xs : List Nat) (h : xs ≠ []) :
    pvariance xs = ((xs.map fun (x : Nat) => ((x : Rat) * (x : Rat))).sum) / (xs.length : Rat)
      - (((xs.sum : Nat) : Rat) / (xs.length : Rat)) * (((xs.sum : Nat) : Rat) / (xs.length : Rat)) := by
  have hn : (xs.length : Rat) ≠ 0 := by
    have : xs.length ≠ 0 := by simpa using h
    exact_mod_cast this
  simp only [pvariance, foldl_sqdev_eq, sum_sqdev, sumNat_eq_sum]
  field_simp
  ring

end Qec
