/-
  Helper lemmas for the planar Y decoder, part 7: the all-Y stabilizers.  The SE snake from `(0, 2j)`, 0 < j < gcd(R, C),
  never meets a corner (it would need gcd | j) and closes after lcm(4R, 4C) ≤ 4RC steps, so every generator commutes
  with every plaquette; products of generators; the number of products.
-/
import QecVerif.Lemmas.PlanarYRestCoprime
import QecVerif.Lemmas.PlanarYRestLogical
namespace Qec.PlanarYL
open Qec Qec.Planar Qec.Symp Qec.PlanarCode Qec.PlanarY

/-! ### walls and loops of one coordinate of the SE snake -/

theorem V_wall_dvd (s M : Int) (hs : 0 ≤ s) (hM : s ≤ M) (m : Nat) (h : V s M m = -1 ∨ V s M m = M + 1) :
    (M + 2).toNat ∣ m + (s + 1).toNat := by
  have sp := V_spec s M hs hM m
  have e : (2 * M + 4).toNat = 2 * (M + 2).toNat := by omega
  rw [e] at sp
  have hdm := Nat.div_add_mod m (2 * (M + 2).toNat)
  have hlt := Nat.mod_lt m (by omega : 0 < 2 * (M + 2).toNat)
  generalize m % (2 * (M + 2).toNat) = i at sp hdm hlt
  have hi' : i + (s + 1).toNat = (M + 2).toNat ∨ i + (s + 1).toNat = 2 * (M + 2).toNat := by
    unfold CycValU at sp; omega
  rw [← hdm, Nat.add_assoc]
  apply Nat.dvd_add
  · exact Nat.dvd_trans (Nat.dvd_mul_left _ 2) (Nat.dvd_mul_right _ _)
  · rcases hi' with h | h
    · exact h ▸ Nat.dvd_refl _
    · rw [h]; exact Nat.dvd_mul_left _ 2

theorem pred_mod (L K : Nat) (hL : 1 < L) (hK : 1 ≤ K) (hd : L ∣ K) : (K - 1) % L = L - 1 := by
  obtain ⟨t, rfl⟩ := hd
  cases t with
  | zero => simp at hK
  | succ t =>
    have : L * (t + 1) - 1 = L - 1 + L * t := by rw [Nat.mul_succ]; omega
    rw [this, Nat.add_mul_mod_self_left, Nat.mod_eq_of_lt (by omega)]

theorem V_period (s M : Int) (hs : 0 ≤ s) (hM : s ≤ M) (K : Nat) (hK : 1 ≤ K) (hd : (2 * M + 4).toNat ∣ K) :
    V s M K = s ∧ V s M (K - 1) = s - 1 := by
  have a := V_spec s M hs hM K
  have b := V_spec s M hs hM (K - 1)
  rw [Nat.mod_eq_zero_of_dvd hd] at a
  rw [pred_mod _ K (by omega) hK hd] at b
  unfold CycValU at a b
  constructor <;> omega

/-! ### the SE snake from `(0, 2j)` -/

/-- **no corner, closed loop**: for 0 < j < gcd(R, C) the SE snake from `(0, 2j)` loops (within the infinite-loop
    guard) at a step `k + 1`: it is back at the start, coming from the NW -/
theorem snakeDir_se_loop_run (R C : Int) (hR : 2 ≤ R) (hC : 2 ≤ C) (j : Nat) (hj1 : 1 ≤ j)
    (hj2 : j < Nat.gcd R.toNat C.toNat) :
    ∃ k, snakeDir R C (0, 2 * (j : Int)) true false =
        .ok ((List.range (k + 1)).map (fun (i : Nat) => (V 0 (maxRow R) i, V (2 * (j : Int)) (maxCol C) i)), true) ∧
      V 0 (maxRow R) (k + 1) = 0 ∧ V (2 * (j : Int)) (maxCol C) (k + 1) = 2 * (j : Int) ∧
      V 0 (maxRow R) k = 0 - 1 ∧ V (2 * (j : Int)) (maxCol C) k = 2 * (j : Int) - 1 ∧
      ∀ i, i < k + 1 →
        stopAt (0, 2 * (j : Int)) true (cycUp 0 (maxRow R)) (cycUp (2 * (j : Int)) (maxCol C)) i = false := by
  have hgR : Nat.gcd R.toNat C.toNat ∣ R.toNat := Nat.gcd_dvd_left _ _
  have hgC : Nat.gcd R.toNat C.toNat ∣ C.toNat := Nat.gcd_dvd_right _ _
  have hgle : Nat.gcd R.toNat C.toNat ≤ C.toNat := Nat.le_of_dvd (by omega) hgC
  have Mr0 : 0 ≤ maxRow R := by unfold maxRow; omega
  have h0 : (0 : Int) ≤ 2 * (j : Int) := by omega
  have h1 : 2 * (j : Int) ≤ maxCol C := by unfold maxCol; omega
  have hMr : maxRow R = 2 * R - 2 := rfl
  have hMc : maxCol C = 2 * C - 2 := rfl
  -- no corner, ever
  have hnc : ∀ k, cornerAt (cycUp 0 (maxRow R)) (cycUp (2 * (j : Int)) (maxCol C)) k = false := by
    intro k
    cases hk : cornerAt (cycUp 0 (maxRow R)) (cycUp (2 * (j : Int)) (maxCol C)) k with
    | false => rfl
    | true =>
      exfalso
      unfold cornerAt prevAt at hk
      by_cases hk2 : k < 2
      · rw [if_pos hk2] at hk; simp at hk
      · rw [if_neg hk2] at hk
        simp only [beq_iff_eq, Option.some.injEq] at hk
        obtain ⟨k', rfl⟩ : ∃ k', k = k' + 2 := ⟨k - 2, by omega⟩
        rw [show k' + 2 - 2 = k' by omega] at hk
        have cr : V 0 (maxRow R) k' = V 0 (maxRow R) (k' + 2) := congrArg Prod.fst hk
        have cc : V (2 * (j : Int)) (maxCol C) k' = V (2 * (j : Int)) (maxCol C) (k' + 2) := congrArg Prod.snd hk
        have wr := triple_wall _ _ _ _ (V_triple 0 (maxRow R) (Int.le_refl _) Mr0 k') cr
        have wc := triple_wall _ _ _ _ (V_triple (2 * (j : Int)) (maxCol C) h0 h1 k') cc
        have d1 := V_wall_dvd 0 (maxRow R) (Int.le_refl _) Mr0 (k' + 1) wr
        have d2 := V_wall_dvd (2 * (j : Int)) (maxCol C) h0 h1 (k' + 1) wc
        rw [show (maxRow R + 2).toNat = 2 * R.toNat by omega] at d1
        rw [show (maxCol C + 2).toNat = 2 * C.toNat by omega] at d2
        rw [show k' + 1 + ((0 : Int) + 1).toNat = k' + 2 by omega] at d1
        rw [show k' + 1 + (2 * (j : Int) + 1).toNat = k' + 2 + 2 * j by omega] at d2
        have g1 : 2 * Nat.gcd R.toNat C.toNat ∣ k' + 2 := Nat.dvd_trans (Nat.mul_dvd_mul_left 2 hgR) d1
        have g2 : 2 * Nat.gcd R.toNat C.toNat ∣ k' + 2 + 2 * j := Nat.dvd_trans (Nat.mul_dvd_mul_left 2 hgC) d2
        have g3 : 2 * Nat.gcd R.toNat C.toNat ∣ 2 * j := (Nat.dvd_add_right g1).mp g2
        have g4 : Nat.gcd R.toNat C.toNat ∣ j := Nat.dvd_of_mul_dvd_mul_left (by omega) g3
        have := Nat.le_of_dvd (by omega) g4
        omega
  -- a loop after 4RC steps
  have hK0 : 1 ≤ 4 * (R.toNat * C.toNat) := by
    have : 1 ≤ R.toNat * C.toNat := Nat.mul_pos (by omega) (by omega)
    omega
  have pr := V_period 0 (maxRow R) (Int.le_refl _) Mr0 (4 * (R.toNat * C.toNat)) hK0 (by
    rw [show (2 * maxRow R + 4).toNat = 4 * R.toNat by omega, ← Nat.mul_assoc]
    exact Nat.dvd_mul_right _ _)
  have pc := V_period (2 * (j : Int)) (maxCol C) h0 h1 (4 * (R.toNat * C.toNat)) hK0 (by
    rw [show (2 * maxCol C + 4).toNat = 4 * C.toNat by omega, Nat.mul_comm R.toNat, ← Nat.mul_assoc]
    exact Nat.dvd_mul_right _ _)
  have hstop : stopAt (0, 2 * (j : Int)) true (cycUp 0 (maxRow R)) (cycUp (2 * (j : Int)) (maxCol C))
      (4 * (R.toNat * C.toNat)) = true := by
    unfold stopAt loopAt curAt
    rw [if_neg (by omega)]
    have e1 : posAt (cycUp 0 (maxRow R)) (cycUp (2 * (j : Int)) (maxCol C)) (4 * (R.toNat * C.toNat)) =
        (0, 2 * (j : Int)) := Prod.ext pr.1 pc.1
    have e2 : posAt (cycUp 0 (maxRow R)) (cycUp (2 * (j : Int)) (maxCol C)) (4 * (R.toNat * C.toNat) - 1) =
        backOf true (0, 2 * (j : Int)) := Prod.ext pr.2 pc.2
    rw [e1, e2, beq_some_self]
    simp
  have hbound : 4 * (R.toNat * C.toNat) ≤ (nQubits R C).toNat * 100 := by
    have := nq_ge R C hR hC; omega
  rcases snakeDir_ok R C (0, 2 * (j : Int)) true (4 * (R.toNat * C.toNat)) hbound hstop with ⟨K, hKn, hK, hmin, hdir⟩
  simp only [if_true] at hK hmin hdir
  have hloop : loopAt (0, 2 * (j : Int)) true (cycUp 0 (maxRow R)) (cycUp (2 * (j : Int)) (maxCol C)) K = true := by
    unfold stopAt at hK
    rw [hnc K, Bool.or_false] at hK
    exact hK
  rw [hloop] at hdir
  unfold loopAt curAt at hloop
  by_cases hK0' : K = 0
  · subst hK0'; simp at hloop
  · rw [if_neg hK0'] at hloop
    simp only [Bool.and_eq_true, beq_iff_eq, Option.some.injEq] at hloop
    obtain ⟨e1, e2⟩ := hloop
    rw [e1] at e2
    obtain ⟨k, rfl⟩ : ∃ k, K = k + 1 := ⟨K - 1, by omega⟩
    rw [show k + 1 - 1 = k by omega] at e2
    exact ⟨k, hdir, congrArg Prod.fst e1, congrArg Prod.snd e1, congrArg Prod.fst e2, congrArg Prod.snd e2, hmin⟩

/-- the visited indices are sites; every in-lattice plaquette is adjacent to an even number of them; an even number
    of them lie in the last column and in the last row -/
theorem snakeDir_se_loop (R C : Int) (hR : 2 ≤ R) (hC : 2 ≤ C) (j : Nat) (hj1 : 1 ≤ j)
    (hj2 : j < Nat.gcd R.toNat C.toNat) :
    ∃ l, snakeDir R C (0, 2 * (j : Int)) true false = .ok (l, true) ∧ AllSites l ∧
      (∀ q, RealP R C q → xorSum l (adjG (maxRow R) (maxCol C) q) = false) ∧
      xorSum l (fun s => inBounds R C s.1 s.2 && occ (colRun R.toNat (2 * C - 2)) s) = false ∧
      xorSum l (fun s => inBounds R C s.1 s.2 && occ (rowRun C.toNat (2 * R - 2)) s) = false := by
  have hgle : Nat.gcd R.toNat C.toNat ≤ C.toNat := Nat.le_of_dvd (by omega) (Nat.gcd_dvd_right _ _)
  have Mr0 : 0 ≤ maxRow R := by unfold maxRow; omega
  have Mc0 : 0 ≤ maxCol C := by unfold maxCol; omega
  have h0 : (0 : Int) ≤ 2 * (j : Int) := by omega
  have h1 : 2 * (j : Int) ≤ maxCol C := by unfold maxCol; omega
  have hMr : maxRow R = 2 * R - 2 := rfl
  have hMc : maxCol C = 2 * C - 2 := rfl
  rcases snakeDir_se_loop_run R C hR hC j hj1 hj2 with ⟨k, hdir, e1r, e1c, e2r, e2c, _⟩
  have hpar : ∀ i : Nat, (V 0 (maxRow R) i + V (2 * (j : Int)) (maxCol C) i) % 2 = 0 := by
    intro i
    have a := V_parity 0 (maxRow R) (Int.le_refl _) Mr0 i
    have b := V_parity (2 * (j : Int)) (maxCol C) h0 h1 i
    omega
  refine ⟨_, hdir, ?_, ?_, ?_, ?_⟩
  · intro rc hrc
    rcases List.mem_map.mp hrc with ⟨i, _, rfl⟩
    exact hpar i
  · intro q hq
    unfold RealP at hq
    have tel := snake_telescope (maxRow R) (maxCol C) (Uv 0 (maxRow R)) (Uv (2 * (j : Int)) (maxCol C))
      (Uv_triple _ _ (Int.le_refl _) Mr0) (Uv_triple _ _ h0 h1) q (by omega) (by omega) (by omega)
      (by omega) (k + 1)
    refine Eq.trans tel ?_
    have g0 : gT (Uv 0 (maxRow R)) (Uv (2 * (j : Int)) (maxCol C)) q 0 =
        gT (Uv 0 (maxRow R)) (Uv (2 * (j : Int)) (maxCol C)) q (k + 1) := by
      unfold gT
      rw [show Uv 0 (maxRow R) 0 = 0 - 1 from rfl, show Uv (2 * (j : Int)) (maxCol C) 0 = 2 * (j : Int) - 1 from rfl,
        show Uv 0 (maxRow R) (0 + 1) = V 0 (maxRow R) 0 from rfl,
        show Uv (2 * (j : Int)) (maxCol C) (0 + 1) = V (2 * (j : Int)) (maxCol C) 0 from rfl,
        show Uv 0 (maxRow R) (k + 1) = V 0 (maxRow R) k from rfl,
        show Uv (2 * (j : Int)) (maxCol C) (k + 1) = V (2 * (j : Int)) (maxCol C) k from rfl,
        show Uv 0 (maxRow R) (k + 1 + 1) = V 0 (maxRow R) (k + 1) from rfl,
        show Uv (2 * (j : Int)) (maxCol C) (k + 1 + 1) = V (2 * (j : Int)) (maxCol C) (k + 1) from rfl,
        V_zero _ _ (Int.le_refl _) Mr0, V_zero _ _ h0 h1, e1r, e1c, e2r, e2c]
    rw [g0, Bool.xor_self]
  · -- last column
    rw [xorSum_map]
    have ht : ∀ i ∈ List.range (k + 1),
        (inBounds R C (V 0 (maxRow R) i) (V (2 * (j : Int)) (maxCol C) i) &&
          occ (colRun R.toNat (2 * C - 2)) (V 0 (maxRow R) i, V (2 * (j : Int)) (maxCol C) i)) =
        decide (Uv (2 * (j : Int)) (maxCol C) (i + 1) = maxCol C) := by
      intro i _
      rw [occ_colRun, inBounds_eq_decide, ← Bool.decide_and]
      apply decide_eq_decide.mpr
      have a := V_range 0 (maxRow R) (Int.le_refl _) Mr0 i
      have b := hpar i
      show _ ↔ V (2 * (j : Int)) (maxCol C) i = maxCol C
      omega
    rw [xorSum_congr _ _ _ ht, last_line_parity (maxCol C) Mc0 _ (Uv_triple _ _ h0 h1) (k + 1),
      show Uv (2 * (j : Int)) (maxCol C) 0 = 2 * (j : Int) - 1 from rfl,
      show Uv (2 * (j : Int)) (maxCol C) 1 = V (2 * (j : Int)) (maxCol C) 0 from rfl,
      show Uv (2 * (j : Int)) (maxCol C) (k + 1) = V (2 * (j : Int)) (maxCol C) k from rfl,
      show Uv (2 * (j : Int)) (maxCol C) (k + 1 + 1) = V (2 * (j : Int)) (maxCol C) (k + 1) from rfl,
      V_zero _ _ h0 h1, e1c, e2c, Bool.xor_self]
  · -- last row
    rw [xorSum_map]
    have ht : ∀ i ∈ List.range (k + 1),
        (inBounds R C (V 0 (maxRow R) i) (V (2 * (j : Int)) (maxCol C) i) &&
          occ (rowRun C.toNat (2 * R - 2)) (V 0 (maxRow R) i, V (2 * (j : Int)) (maxCol C) i)) =
        decide (Uv 0 (maxRow R) (i + 1) = maxRow R) := by
      intro i _
      rw [occ_rowRun, inBounds_eq_decide, ← Bool.decide_and]
      apply decide_eq_decide.mpr
      have a := V_range (2 * (j : Int)) (maxCol C) h0 h1 i
      have b := hpar i
      show _ ↔ V 0 (maxRow R) i = maxRow R
      omega
    rw [xorSum_congr _ _ _ ht, last_line_parity (maxRow R) Mr0 _ (Uv_triple _ _ (Int.le_refl _) Mr0) (k + 1),
      show Uv 0 (maxRow R) 0 = 0 - 1 from rfl,
      show Uv 0 (maxRow R) 1 = V 0 (maxRow R) 0 from rfl,
      show Uv 0 (maxRow R) (k + 1) = V 0 (maxRow R) k from rfl,
      show Uv 0 (maxRow R) (k + 1 + 1) = V 0 (maxRow R) (k + 1) from rfl,
      V_zero _ _ (Int.le_refl _) Mr0, e1r, e2r, Bool.xor_self]

/-- an all-Y stabilizer candidate: Y-only, commuting with every plaquette generator and with both logical operators -/
def YGood (R C : Int) (v : BVec) : Prop :=
  YSym (nq R C) v ∧ (∀ q, RealP R C q → bsp (stabOp R C q) v = false) ∧
    bsp (logicalX R C) v = false ∧ bsp (logicalZ R C) v = false

/-- **a generator of the all-Y stabilizers**: `_snake(code, (0, 2j))` for 0 < j < gcd is returned, Y-only and commutes
    with every plaquette and with both logical operators -/
theorem snake_se_spec (R C : Int) (hR : 2 ≤ R) (hC : 2 ≤ C) (j : Nat) (hj1 : 1 ≤ j)
    (hj2 : j < Nat.gcd R.toNat C.toNat) :
    ∃ v, snake R C (0, 2 * (j : Int)) true true false = .ok v ∧ YGood R C v := by
  rcases snakeDir_se_loop R C hR hC j hj1 hj2 with ⟨l, hdir, hl, hsyn, hX, hZ⟩
  have hgle : Nat.gcd R.toNat C.toNat ≤ C.toNat := Nat.le_of_dvd (by omega) (Nat.gcd_dvd_right _ _)
  refine ⟨yop R C l, ?_, ysym_yop R C hR hC l hl, ?_, ?_, ?_⟩
  · have hb : inBounds R C 0 (2 * (j : Int)) = true := by rw [inBounds_iff]; omega
    unfold snake
    simp only [hb, Bool.not_true, Bool.false_eq_true, if_false, hdir, Bool.and_false]
    rfl
  · intro q hq
    rw [bsp_stab_yop R C hR hC q hq l hl, xorSum_congr _ _ _ (fun s _ => adj_eq_adjG R C q s)]
    exact hsyn q hq
  · rw [bsp_logicalX_yop R C hR hC l hl]; exact hX
  · rw [bsp_logicalZ_yop R C hR hC l hl]; exact hZ

/-! ### the number of non-empty combinations -/

/-- Σ_{k<m} |combinations xs (k+1)| -/
def cT {α : Type} (xs : List α) : Nat → Nat
  | 0 => 0
  | m + 1 => cT xs m + (Qec.combinations xs (m + 1)).length

/-- Σ_{k<m} |combinations xs k| -/
def cP {α : Type} (xs : List α) : Nat → Nat
  | 0 => 0
  | m + 1 => cP xs m + (Qec.combinations xs m).length

theorem combinations_zero_length {α : Type} (xs : List α) : (Qec.combinations xs 0).length = 1 := by
  cases xs <;> simp [Qec.combinations]

theorem cP_succ {α : Type} (xs : List α) (m : Nat) : cP xs (m + 1) = 1 + cT xs m := by
  induction m with
  | zero => simp [cP, cT, combinations_zero_length]
  | succ m ih => rw [cP, ih, cT]; omega

theorem cT_cons {α : Type} (x : α) (xs : List α) (m : Nat) : cT (x :: xs) m = cP xs m + cT xs m := by
  induction m with
  | zero => rfl
  | succ m ih =>
    rw [cT, ih, cP, cT]
    simp only [Qec.combinations, List.length_append, List.length_map]
    omega

theorem cT_nil {α : Type} (m : Nat) : cT ([] : List α) m = 0 := by
  induction m with
  | zero => rfl
  | succ m ih => rw [cT, ih]; simp [Qec.combinations]

theorem cT_pow {α : Type} (xs : List α) : ∀ m, xs.length ≤ m → cT xs m + 1 = 2 ^ xs.length := by
  induction xs with
  | nil => intro m _; rw [cT_nil]; rfl
  | cons x xs ih =>
    intro m hm
    simp only [List.length_cons] at hm
    obtain ⟨m', rfl⟩ : ∃ m', m = m' + 1 := ⟨m - 1, by omega⟩
    rw [cT_cons, cP_succ, List.length_cons, Nat.pow_succ]
    have a := ih m' (by omega)
    have b := ih (m' + 1) (by omega)
    omega

theorem allCombinations_length {α : Type} (xs : List α) : (allCombinations xs).length + 1 = 2 ^ xs.length := by
  have key : ∀ m, ((List.range m).flatMap fun n => Qec.combinations xs (n + 1)).length = cT xs m := by
    intro m
    induction m with
    | zero => rfl
    | succ m ih => rw [List.range_succ, List.flatMap_append, List.length_append, ih, cT]; simp
  unfold allCombinations
  rw [key]
  exact cT_pow xs _ (Nat.le_refl _)

/-! ### `_y_stabilizers` -/

theorem mapM_ok {ι : Type} (G : ι → BVec) (f : ι → Except String BVec) (l : List ι) (h : ∀ i ∈ l, f i = .ok (G i)) :
    l.mapM f = .ok (l.map G) := by
  induction l with
  | nil => rfl
  | cons i l ih =>
    rw [List.mapM_cons, h i List.mem_cons_self, ih (fun i' hi' => h i' (List.mem_cons_of_mem _ hi'))]
    rfl

/-- the value of generator `i` (identity if it raises) -/
def genOr (R C : Int) (i : Nat) : BVec :=
  match snake R C (0, 2 * ((i : Int) + 1)) true true false with
  | .ok v => v
  | .error _ => identity R C

theorem genOr_eq (R C : Int) (i : Nat) (v : BVec) (h : snake R C (0, 2 * ((i : Int) + 1)) true true false = .ok v) :
    genOr R C i = v := by
  unfold genOr; rw [h]

theorem ygood_zeros (R C : Int) : YGood R C (zeros (2 * nq R C)) :=
  ⟨ysym_zeros _, fun _ _ => bsp_zeros_right _ _, bsp_zeros_right _ _, bsp_zeros_right _ _⟩

theorem ygood_xorV (R C : Int) (a b : BVec) (ha : YGood R C a) (hb : YGood R C b) : YGood R C (xorV a b) := by
  have hl : a.length = b.length := by rw [ha.1.1, hb.1.1]
  refine ⟨ysym_xorV _ _ _ ha.1 hb.1, ?_, ?_, ?_⟩
  · intro q hq
    rw [bsp_xorV_right _ _ _ hl, ha.2.1 q hq, hb.2.1 q hq]; rfl
  · rw [bsp_xorV_right _ _ _ hl, ha.2.2.1, hb.2.2.1]; rfl
  · rw [bsp_xorV_right _ _ _ hl, ha.2.2.2, hb.2.2.2]; rfl

theorem xorSet_good (R C : Int) (set : List BVec) (h : ∀ g ∈ set, YGood R C g) :
    YGood R C (xorSet (2 * nq R C) set) := by
  induction set with
  | nil => exact ygood_zeros R C
  | cons g set ih =>
    have hlen : AllLen (2 * nq R C) set := fun r hr => (h r (List.mem_cons_of_mem _ hr)).1.1
    have hg := h g List.mem_cons_self
    rw [xorSet_cons _ g set hg.1.1 hlen]
    exact ygood_xorV R C _ _ hg (ih (fun r hr => h r (List.mem_cons_of_mem _ hr)))

/-- **`_y_stabilizers(code)`**, all sizes: returned; 2^(gcd−1) operators (the non-empty products of the gcd−1 generators,
    then the identity); each Y-only and commuting with every plaquette generator and both logical operators -/
theorem yStabilizers_spec (R C : Int) (hR : 2 ≤ R) (hC : 2 ≤ C) :
    ∃ ys, yStabilizers R C = .ok ys ∧ ys.length = 2 ^ (Nat.gcd R.toNat C.toNat - 1) ∧ ∀ y ∈ ys, YGood R C y := by
  have hgen : ∀ i ∈ List.range (Nat.gcd R.toNat C.toNat - 1),
      snake R C (0, 2 * ((i : Int) + 1)) true true false = .ok (genOr R C i) ∧ YGood R C (genOr R C i) := by
    intro i hi
    have hi' := List.mem_range.mp hi
    rcases snake_se_spec R C hR hC (i + 1) (by omega) (by omega) with ⟨v, hv, hy⟩
    rw [show (2 : Int) * ((i + 1 : Nat) : Int) = 2 * ((i : Int) + 1) by push_cast; rfl] at hv
    rw [genOr_eq R C i v hv]
    exact ⟨hv, hy⟩
  have hY : yGenerators R C = .ok ((List.range (Nat.gcd R.toNat C.toNat - 1)).map (genOr R C)) := by
    unfold yGenerators
    exact mapM_ok (genOr R C) _ _ (fun i hi => (hgen i hi).1)
  refine ⟨_, by unfold yStabilizers; rw [hY], ?_, ?_⟩
  · rw [List.length_append, List.length_map, List.length_singleton, allCombinations_length, List.length_map,
      List.length_range]
  · intro y hy
    rcases List.mem_append.mp hy with hy | hy
    · rcases List.mem_map.mp hy with ⟨sub, hsub, rfl⟩
      apply xorSet_good
      intro g hg
      have := (sublist_of_mem_allCombinations _ _ hsub).subset hg
      rcases List.mem_map.mp this with ⟨i, hi, rfl⟩
      exact (hgen i hi).2
    · simp only [List.mem_singleton] at hy
      subst hy
      rw [identity_eq]
      exact ygood_zeros R C

end Qec.PlanarYL
