/-
  C10 — the planar ROTATED MPS network contracts to the coset probability (all sizes): helper lemmas for
  Props/C10/PlanarRmpsNetwork.lean.

  Route.  C11: `exactValue` = state sum `sumV` over the bond variables (dimension 4 or 1).  Every dimension-4 bond is
  split into two bits (`sumV_split`): in the rotated network a bond is an EDGE of the cell grid and carries the bits of
  the two plaquettes at its end points (the VERTICES of the cell grid; vertex `(i, j)` ↔ plaquette
  `(i - j + R - 1, i + j - R)`).  A qubit tensor is (all copies of each of its four corner bits agree) × (bare
  `h_node_value` / `v_node_value` of the four corner bits) (`hEntry`, `vEntry`: the einsum with `tsr.delta`, evaluated);
  the agreement constraints of all cells are the delta stars of the plaquettes (a ring of four bonds around a bulk
  vertex, two bonds at a boundary plaquette), so `FactorGraph.sumV_stars` / `sumB_eq_span` apply, and the product of
  the bare values at "one bit per plaquette" is the weight of `f · Π Sᵢ^βᵢ` (`PlanarTnLemmas.comb_bits`).
-/
import QecVerif.Lemmas.PlanarRmpsTn
import QecVerif.Lemmas.PlanarTn
import Mathlib.Algebra.BigOperators.GroupWithZero.Finset
import Mathlib.Algebra.BigOperators.Ring.List
namespace Qec.PlanarRmpsFactor
open Finset Qec Qec.Tensor Qec.TensorAlg Qec.TensorBridge Qec.TensorExact Qec.TensorExact.Bond Qec.TensorPad Qec.Coset
open Qec.FactorGraph Qec.PlanarRmpsTn Qec.PlanarRmpsLemmas
open Qec.PlanarTn (RowDir ColDir rowDir colDir nodeShape hNodeValue vNodeValue)

/-! ### generic: splitting dimension-4 variables into two bits -/

section Generic
variable {α : Type*} [CommSemiring α] {ι : Type*} [DecidableEq ι]

/-- the index of a variable from its two halves (`true` = most significant) -/
def join (t : ι × Bool → ℕ) : ι → ℕ := fun b => 2 * t (b, true) + t (b, false)

def dim2 (dim : ι → ℕ) : ι × Bool → ℕ := fun p => if dim p.1 = 4 then 2 else 1

def slots2 (l : List ι) : List (ι × Bool) := l.flatMap fun b => [(b, true), (b, false)]

theorem join_update (t : ι × Bool → ℕ) (b : ι) (x y : ℕ) :
    join (Function.update (Function.update t (b, true) x) (b, false) y) = Function.update (join t) b (2 * x + y) := by
  funext c
  unfold join
  by_cases h : c = b
  · subst h
    rw [Function.update_self, Function.update_self, Function.update_of_ne (by simp), Function.update_self]
  · rw [Function.update_of_ne h, Function.update_of_ne (by simp [h]), Function.update_of_ne (by simp [h]),
      Function.update_of_ne (by simp [h]), Function.update_of_ne (by simp [h])]

theorem sumV_split (dim : ι → ℕ) (l : List ι) (hl : ∀ b ∈ l, dim b = 4 ∨ dim b = 1) (F : (ι → ℕ) → α)
    (τ : ι × Bool → ℕ) :
    sumV dim l F (join τ) = sumV (dim2 dim) (slots2 l) (fun t => F (join t)) τ := by
  induction l generalizing τ with
  | nil => rfl
  | cons b l ih =>
    have ihl := ih (fun c hc => hl c (List.mem_cons_of_mem _ hc))
    show ∑ x ∈ range (dim b), sumV dim l F (Function.update (join τ) b x)
      = ∑ x ∈ range (dim2 dim (b, true)), ∑ y ∈ range (dim2 dim (b, false)),
          sumV (dim2 dim) (slots2 l) (fun t => F (join t))
            (Function.update (Function.update τ (b, true) x) (b, false) y)
    have step : ∀ x y, sumV (dim2 dim) (slots2 l) (fun t => F (join t))
        (Function.update (Function.update τ (b, true) x) (b, false) y)
        = sumV dim l F (Function.update (join τ) b (2 * x + y)) := by
      intro x y; rw [← ihl, join_update]
    simp only [step]
    rcases hl b (List.mem_cons_self ..) with h4 | h1
    · simp only [dim2, h4, if_true]
      simp [Finset.sum_range_succ, add_assoc]
    · simp only [dim2, h1, show ¬ ((1 : ℕ) = 4) by decide, if_false]
      simp

theorem slots2_nodup (l : List ι) (hn : l.Nodup) : (slots2 l).Nodup := by
  induction l with
  | nil => exact List.nodup_nil
  | cons b l ih =>
    have hb : b ∉ l := (List.nodup_cons.mp hn).1
    show ((b, true) :: (b, false) :: slots2 l).Nodup
    have hmem : ∀ hf, (b, hf) ∉ slots2 l := by
      intro hf hh
      unfold slots2 at hh
      obtain ⟨c, hc, hcc⟩ := List.mem_flatMap.mp hh
      simp only [List.mem_cons, Prod.mk.injEq, List.not_mem_nil, or_false] at hcc
      rcases hcc with ⟨rfl, _⟩ | ⟨rfl, _⟩ <;> exact hb hc
    refine List.nodup_cons.mpr ⟨?_, List.nodup_cons.mpr ⟨hmem false, ih (List.nodup_cons.mp hn).2⟩⟩
    simp only [List.mem_cons, Prod.mk.injEq, Bool.true_eq_false, and_false, false_or]
    exact hmem true

theorem mem_slots2 (l : List ι) (x : ι × Bool) : x ∈ slots2 l ↔ x.1 ∈ l := by
  unfold slots2
  simp only [List.mem_flatMap, List.mem_cons, List.not_mem_nil, or_false]
  constructor
  · rintro ⟨b, hb, rfl | rfl⟩ <;> exact hb
  · intro h
    refine ⟨x.1, h, ?_⟩
    rcases x with ⟨b, hf⟩
    cases hf <;> simp

/-- the variables grouped by an owner: a permutation of the variables whose owner is listed -/
theorem owner_perm {σ : Type*} [DecidableEq σ] (S : List ι) (hS : S.Nodup) (P : List σ) (hP : P.Nodup)
    (owner : ι → σ) (hown : ∀ x ∈ S, owner x ∈ P) :
    ((P.map fun p => S.filter fun x => owner x = p).flatten).Perm S ∧
    ((P.map fun p => S.filter fun x => owner x = p).flatten).Nodup := by
  have hnd : ((P.map fun p => S.filter fun x => owner x = p).flatten).Nodup := by
    rw [List.nodup_flatten]
    refine ⟨fun l hl => ?_, ?_⟩
    · obtain ⟨p, _, rfl⟩ := List.mem_map.mp hl
      exact hS.filter _
    · rw [List.pairwise_map]
      refine List.Pairwise.imp_of_mem ?_ hP
      intro p q _ _ hne x hx1 hx2
      simp only [List.mem_filter, decide_eq_true_eq] at hx1 hx2
      exact hne (hx1.2.symm.trans hx2.2)
  refine ⟨(List.perm_ext_iff_of_nodup hnd hS).mpr fun x => ?_, hnd⟩
  simp only [List.mem_flatten, List.mem_map, exists_exists_and_eq_and, List.mem_filter, decide_eq_true_eq]
  constructor
  · rintro ⟨p, _, hx, _⟩; exact hx
  · intro hx; exact ⟨owner x, hown x hx, hx, rfl⟩

/-- a star is the indicator of "all its variables carry the same value" -/
theorem star_eq_ite (l : List ι) (t : ι → ℕ) :
    (FactorGraph.star l t : α) = if ∀ x ∈ l, ∀ y ∈ l, t x = t y then 1 else 0 := by
  cases l with
  | nil => simp [FactorGraph.star]
  | cons b0 l =>
    simp only [FactorGraph.star]
    apply if_congr _ rfl rfl
    constructor
    · intro h x hx y hy; rw [h x hx, h y hy]
    · intro h b hb; exact h b hb b0 (List.mem_cons_self ..)

theorem list_prod_boole {β : Type*} (l : List β) (P : β → Prop) [DecidablePred P] :
    (l.map fun x => if P x then (1 : α) else 0).prod = if ∀ x ∈ l, P x then 1 else 0 := by
  induction l with
  | nil => simp
  | cons a l ih =>
    rw [List.map_cons, List.prod_cons, ih]
    by_cases h1 : P a <;> by_cases h2 : ∀ x ∈ l, P x <;> simp [h1, h2]

end Generic

/-! ### the node entries, evaluated -/

/-- value of half `hi` of a leg index -/
def sv (x : ℕ) (hi : Bool) : ℕ := if hi then x / 2 % 2 else x % 2

/-- entry of a qubit node from the halves of its four leg indices: `H` = h-node, `pN … pW` = which legs exist;
    the four constraints say that the two copies of the corner bits n, e, s, w agree -/
def slotEntry (H pN pE pS pW : Bool) (bare : ℕ → ℕ → ℕ → ℕ → ℤ) (N E S W : Bool → ℕ) : ℤ :=
  if ((pN && pE) → E H = N (!H)) ∧ ((pE && pS) → S H = E (!H)) ∧
     ((pS && pW) → W H = S (!H)) ∧ ((pN && pW) → W (!H) = N H) then
    bare (if pN then N (!H) else if pE then E H else 0)
         (if pE then E (!H) else if pS then S H else 0)
         (if pS then S (!H) else if pW then W H else 0)
         (if pW then W (!H) else if pN then N H else 0)
  else 0

theorem letter_beq (a b : Letter) : (a == b) = decide (a = b) := rfl

theorem hEntry (rd : RowDir) (cd : ColDir) (bare : ℕ → ℕ → ℕ → ℕ → ℤ) (i j k l : ℕ) :
    nodeEntry (nodeShape rd cd) (hLayout rd cd) bare i j k l
      = slotEntry true (decide (rd ≠ .n ∧ cd ≠ .w)) (decide (rd ≠ .n ∧ cd ≠ .e)) (decide (rd ≠ .s ∧ cd ≠ .e))
          (decide (rd ≠ .s ∧ cd ≠ .w)) bare (sv i) (sv j) (sv k) (sv l) := by
  cases rd <;> cases cd <;>
    simp [nodeEntry, slotEntry, sv, legBits, legDim, ldim, nodeShape, hLayout, valOf, consistent, List.find?,
      Nat.mod_one, letter_beq] <;>
    (split_ifs <;> first | rfl | (exfalso; omega) | (congr 1 <;> omega))

theorem vEntry (bare : ℕ → ℕ → ℕ → ℕ → ℤ) (i j k l : ℕ) :
    nodeEntry (2, 2, 2, 2) vLayout bare i j k l
      = slotEntry false true true true true bare (sv i) (sv j) (sv k) (sv l) := by
  simp [nodeEntry, slotEntry, sv, legBits, legDim, ldim, vLayout, valOf, consistent, List.find?, letter_beq]
  split_ifs <;> first | rfl | (exfalso; omega) | (congr 1 <;> omega)

/-! ### cell weights of the rotated network -/

/-- the cell `(a, b)` holds an h-node (even lattice row) -/
def hcb (R : Int) (a b : ℕ) : Bool := decide (lr R a b % 2 = 0)

def fN (R C : Int) (a b : ℕ) : Bool := decide (DN R C a b = 4)
def fE (R C : Int) (a b : ℕ) : Bool := decide (DE R C a b = 4)
def fS (R C : Int) (a b : ℕ) : Bool := decide (DS R C a b = 4)
def fW (R C : Int) (a b : ℕ) : Bool := decide (DW R C a b = 4)

/-- the bare value function of the qubit at cell `(a, b)` -/
def bareOf (R C : Int) (d : Dist Int) (f : BVec) (a b : ℕ) : ℕ → ℕ → ℕ → ℕ → ℤ :=
  if hcb R a b then hNodeValue d (Planar.operatorAt R C f (lr R a b) (lc R a b))
  else vNodeValue d (Planar.operatorAt R C f (lr R a b) (lc R a b))

theorem decide_of_ite (c : Prop) [Decidable c] (n : ℕ) (h : (if c then 4 else 1) = n) : decide c = decide (n = 4) := by
  by_cases hc : c
  · simp [hc] at h; simp [hc, ← h]
  · simp [hc] at h; simp [hc, ← h]

theorem toF_ofFn_f (n e s w : ℕ) (F : ℕ → ℕ → ℕ → ℕ → ℤ) (i j k l : ℕ) (hi : i < n) (hj : j < e) (hk : k < s)
    (hl : l < w) : (toF (T4.ofFn n e s w F)).f i j k l = F i j k l := get_ofFn _ _ _ _ _ _ _ _ _ hi hj hk hl

theorem cw_present (R C : Int) (d : Dist Int) (f : BVec) (hR : 2 ≤ R) (hC : 2 ≤ C) (t : Bond → ℕ) (a b : ℕ)
    (ha : a ≤ K R C) (hb : b ≤ K R C) (hp : Pres R C a b) (h1 : t (v a b) < DN R C a b)
    (h2 : t (h a (b + 1)) < DE R C a b) (h3 : t (v (a + 1) b) < DS R C a b) (h4 : t (h a b) < DW R C a b) :
    cw (netF (rmpsTn R C d f)) t a b
      = slotEntry (hcb R a b) (fN R C a b) (fE R C a b) (fS R C a b) (fW R C a b) (bareOf R C d f a b)
          (sv (t (v a b))) (sv (t (h a (b + 1)))) (sv (t (v (a + 1) b))) (sv (t (h a b))) := by
  obtain ⟨d1, d2, d3, d4⟩ := siteT_dims R C d f hR hC a b
  unfold cw netF
  rw [site_rmpsTn R C d f hR hC a b ha hb]
  have hin := (inBounds_unrotate R C a b).mpr hp
  have hlr : 0 ≤ lr R a b := hp.1
  have er : ((unrotate R a b).1.toNat : Int) = lr R a b := by
    show (((a : Int) - (b : Int) + (R - 1)).toNat : Int) = lr R a b; unfold lr at *; omega
  unfold siteAt at d1 d2 d3 d4 ⊢
  simp only [hin, if_true] at d1 d2 d3 d4 ⊢
  by_cases hpar : (unrotate R a b).1.toNat % 2 = 0
  · have hH : hcb R a b = true := by unfold hcb; simp only [decide_eq_true_eq]; omega
    simp only [hpar, if_true, siteT, Option.getD_some] at d1 d2 d3 d4 ⊢
    obtain ⟨e1, e2, e3, e4⟩ := hNode_dims d (Planar.operatorAt R C f (unrotate R a b).1 (unrotate R a b).2)
      (rowDir (2 * R - 1).toNat (unrotate R a b).1.toNat) (colDir (2 * C - 1).toNat (unrotate R a b).2.toNat)
    show (toF (T4.ofFn _ _ _ _ _)).f _ _ _ _ = _
    have := get_ofFn _ _ _ _ (nodeEntry (nodeShape (rowDir (2 * R - 1).toNat (unrotate R a b).1.toNat)
        (colDir (2 * C - 1).toNat (unrotate R a b).2.toNat))
      (hLayout (rowDir (2 * R - 1).toNat (unrotate R a b).1.toNat)
        (colDir (2 * C - 1).toNat (unrotate R a b).2.toNat))
      (hNodeValue d (Planar.operatorAt R C f (unrotate R a b).1 (unrotate R a b).2)))
      (t (v a b)) (t (h a (b + 1))) (t (v (a + 1) b)) (t (h a b))
      (by rw [← d1] at h1; exact h1) (by rw [← d2] at h2; exact h2) (by rw [← d3] at h3; exact h3)
      (by rw [← d4] at h4; exact h4)
    refine this.trans ?_
    rw [hEntry, hH]
    unfold fN fE fS fW bareOf
    rw [decide_of_ite _ _ (e1.symm.trans d1), decide_of_ite _ _ (e2.symm.trans d2),
      decide_of_ite _ _ (e3.symm.trans d3), decide_of_ite _ _ (e4.symm.trans d4), hH]
    rfl
  · have hH : hcb R a b = false := by unfold hcb; simp only [decide_eq_false_iff_not]; omega
    simp only [hpar, if_false, siteT, Option.getD_some] at d1 d2 d3 d4 ⊢
    have hv : ∀ op, vNode d op = T4.ofFn 4 4 4 4 (nodeEntry (2, 2, 2, 2) vLayout (vNodeValue d op)) :=
      fun _ => rfl
    rw [hv] at d1 d2 d3 d4 ⊢
    have e1 : (4 : ℕ) = DN R C a b := d1
    have e2 : (4 : ℕ) = DE R C a b := d2
    have e3 : (4 : ℕ) = DS R C a b := d3
    have e4 : (4 : ℕ) = DW R C a b := d4
    rw [toF_ofFn_f 4 4 4 4 _ _ _ _ _ (by omega) (by omega) (by omega) (by omega)]
    rw [vEntry, hH]
    unfold fN fE fS fW bareOf
    rw [← e1, ← e2, ← e3, ← e4, hH]
    rfl

theorem cw_absent (R C : Int) (d : Dist Int) (f : BVec) (hR : 2 ≤ R) (hC : 2 ≤ C) (t : Bond → ℕ) (a b : ℕ)
    (ha : a ≤ K R C) (hb : b ≤ K R C) (hp : ¬ Pres R C a b) (h1 : t (v a b) = 0)
    (h2 : t (h a (b + 1)) = 0) (h3 : t (v (a + 1) b) = 0) (h4 : t (h a b) = 0) :
    cw (netF (rmpsTn R C d f)) t a b = 1 := by
  unfold cw netF
  rw [site_rmpsTn R C d f hR hC a b ha hb, siteAt_none R C d f a b hp, h1, h2, h3, h4]
  exact oneF_val

/-! ### bond dimensions, slots, owners -/

/-- dimension of a bond of the rotated network -/
def sdim (R C : Int) : Bond → ℕ
  | v a b => DN R C a b
  | h a b => DW R C a b

theorem sdim_cases (R C : Int) (β : Bond) : sdim R C β = 4 ∨ sdim R C β = 1 := by
  cases β <;> simp only [sdim, DN, DW] <;> split_ifs <;> simp

theorem DS_eq (R C : Int) (a b : ℕ) : DS R C a b = DN R C (a + 1) b := by
  unfold DS DN Pres lr lc; apply if_congr _ rfl rfl; push_cast; omega

theorem DE_eq (R C : Int) (a b : ℕ) : DE R C a b = DW R C a (b + 1) := by
  unfold DE DW Pres lr lc; apply if_congr _ rfl rfl; push_cast; omega

theorem pres_le (R C : Int) (a b : ℕ) (hp : Pres R C a b) : a ≤ K R C ∧ b ≤ K R C := by
  unfold Pres lr lc at hp; unfold K; omega

theorem bdim_eq_sdim (R C : Int) (d : Dist Int) (f : BVec) (hR : 2 ≤ R) (hC : 2 ≤ C) (β : Bond)
    (hβ : β ∈ gvars (K R C) (K R C)) : TensorExact.bdim (netF (rmpsTn R C d f)) β = sdim R C β := by
  rcases (mem_gvars _ _ β).mp hβ with ⟨r, c, h1, h2, h3, rfl⟩ | ⟨r, c, h1, h2, h3, rfl⟩
  · obtain ⟨c', rfl⟩ : ∃ c', c = c' + 1 := ⟨c - 1, by omega⟩
    show (netF (rmpsTn R C d f) r c').e = DW R C r (c' + 1)
    rw [(netF_dims R C d f hR hC r c' h1 (by omega)).2.1, DE_eq]
  · obtain ⟨r', rfl⟩ : ∃ r', r = r' + 1 := ⟨r - 1, by omega⟩
    show (netF (rmpsTn R C d f) r' c).s = DN R C (r' + 1) c
    rw [(netF_dims R C d f hR hC r' c (by omega) h3).2.2.1, DS_eq]

theorem mem_gvars_of_sdim (R C : Int) (β : Bond) (h4 : sdim R C β = 4) : β ∈ gvars (K R C) (K R C) := by
  rw [mem_gvars]
  cases β with
  | h a b =>
    simp only [sdim, DW] at h4
    by_cases hh : Pres R C a b ∧ lr R a b < 2 * R - 2 ∧ 0 < lc R a b
    swap
    · rw [if_neg hh] at h4; omega
    obtain ⟨hp, h1, h2⟩ := hh
    have := pres_le R C a b hp
    unfold lr at h1; unfold lc at h2; unfold Pres lr lc at hp
    exact Or.inl ⟨a, b, this.1, by omega, this.2, rfl⟩
  | v a b =>
    simp only [sdim, DN] at h4
    by_cases hh : Pres R C a b ∧ 0 < lr R a b ∧ 0 < lc R a b
    swap
    · rw [if_neg hh] at h4; omega
    obtain ⟨hp, h1, h2⟩ := hh
    have := pres_le R C a b hp
    unfold lr at h1; unfold lc at h2; unfold Pres lr lc at hp
    exact Or.inr ⟨a, b, by omega, this.1, this.2, rfl⟩

/-- the two-valued variables: both halves of every dimension-4 bond -/
def slotsS (R C : Int) : List (Bond × Bool) :=
  (slots2 (gvars (K R C) (K R C))).filter fun x => sdim R C x.1 = 4

theorem mem_slotsS (R C : Int) (x : Bond × Bool) : x ∈ slotsS R C ↔ sdim R C x.1 = 4 := by
  unfold slotsS
  simp only [List.mem_filter, mem_slots2, decide_eq_true_eq]
  exact ⟨fun h => h.2, fun h => ⟨mem_gvars_of_sdim R C x.1 h, h⟩⟩

theorem slotsS_nodup (R C : Int) : (slotsS R C).Nodup := (slots2_nodup _ (gvars_nodup _ _)).filter _

/-- the vertex of the cell grid whose bit the slot carries -/
def owner (R : Int) : Bond × Bool → ℕ × ℕ
  | (v a b, hf) => if hf = hcb R a b then (a, b) else (a, b + 1)
  | (h a b, hf) => if hf = hcb R a b then (a + 1, b) else (a, b)

theorem hcb_succ_row (R : Int) (a b : ℕ) : hcb R (a + 1) b = !hcb R a b := by
  unfold hcb lr
  rw [Bool.eq_iff_iff]
  simp only [decide_eq_true_eq, Bool.not_eq_true', decide_eq_false_iff_not]
  push_cast; omega

theorem hcb_succ_col (R : Int) (a b : ℕ) : hcb R a (b + 1) = !hcb R a b := by
  unfold hcb lr
  rw [Bool.eq_iff_iff]
  simp only [decide_eq_true_eq, Bool.not_eq_true', decide_eq_false_iff_not]
  push_cast; omega

/-! ### assignments of the bits and the cell weights -/

/-- the assignments visited by the state sum over the slots -/
def Vis (R C : Int) (t : Bond × Bool → ℕ) : Prop :=
  (∀ x ∈ slotsS R C, t x < 2) ∧ ∀ x, x ∉ slotsS R C → t x = 0

theorem sv_join (R C : Int) (t : Bond × Bool → ℕ) (ht : Vis R C t) (β : Bond) (hf : Bool) :
    sv (join t β) hf = t (β, hf) ∧ join t β < sdim R C β := by
  unfold join sv
  rcases sdim_cases R C β with h4 | h1
  · have a1 := ht.1 (β, true) ((mem_slotsS R C _).mpr h4)
    have a2 := ht.1 (β, false) ((mem_slotsS R C _).mpr h4)
    cases hf <;> simp only [Bool.false_eq_true, if_false, if_true] <;> omega
  · have a1 := ht.2 (β, true) (fun hh => by have := (mem_slotsS R C _).mp hh; simp only at this; omega)
    have a2 := ht.2 (β, false) (fun hh => by have := (mem_slotsS R C _).mp hh; simp only at this; omega)
    cases hf <;> simp only [Bool.false_eq_true, if_false, if_true] <;> omega

/-- weight of a present cell in terms of the slot values -/
theorem cw_join (R C : Int) (d : Dist Int) (f : BVec) (hR : 2 ≤ R) (hC : 2 ≤ C) (t : Bond × Bool → ℕ)
    (ht : Vis R C t) (a b : ℕ) (hp : Pres R C a b) :
    cw (netF (rmpsTn R C d f)) (join t) a b
      = slotEntry (hcb R a b) (fN R C a b) (fE R C a b) (fS R C a b) (fW R C a b) (bareOf R C d f a b)
          (fun hf => t (v a b, hf)) (fun hf => t (h a (b + 1), hf)) (fun hf => t (v (a + 1) b, hf))
          (fun hf => t (h a b, hf)) := by
  obtain ⟨ha, hb⟩ := pres_le R C a b hp
  have j1 := fun hf => sv_join R C t ht (v a b) hf
  have j2 := fun hf => sv_join R C t ht (h a (b + 1)) hf
  have j3 := fun hf => sv_join R C t ht (v (a + 1) b) hf
  have j4 := fun hf => sv_join R C t ht (h a b) hf
  rw [cw_present R C d f hR hC (join t) a b ha hb hp (j1 true).2 (by rw [DE_eq]; exact (j2 true).2)
    (by rw [DS_eq]; exact (j3 true).2) (j4 true).2]
  congr 1 <;> funext hf
  · exact (j1 hf).1
  · exact (j2 hf).1
  · exact (j3 hf).1
  · exact (j4 hf).1

theorem cw_join_absent (R C : Int) (d : Dist Int) (f : BVec) (hR : 2 ≤ R) (hC : 2 ≤ C) (t : Bond × Bool → ℕ)
    (ht : Vis R C t) (a b : ℕ) (ha : a ≤ K R C) (hb : b ≤ K R C) (hp : ¬ Pres R C a b) :
    cw (netF (rmpsTn R C d f)) (join t) a b = 1 := by
  have z : ∀ β, sdim R C β = 1 → join t β = 0 := by
    intro β h1
    have := (sv_join R C t ht β true).2
    omega
  apply cw_absent R C d f hR hC (join t) a b ha hb hp
  · apply z; simp only [sdim, DN, hp, false_and, if_false]
  · apply z; show DW R C a (b + 1) = 1; rw [← DE_eq]; simp only [DE, hp, false_and, if_false]
  · apply z; show DN R C (a + 1) b = 1; rw [← DS_eq]; simp only [DS, hp, false_and, if_false]
  · apply z; simp only [sdim, DW, hp, false_and, if_false]

/-! ### constraints × values -/

def condOf (H pN pE pS pW : Bool) (N E S W : Bool → ℕ) : Prop :=
  ((pN && pE) → E H = N (!H)) ∧ ((pE && pS) → S H = E (!H)) ∧
  ((pS && pW) → W H = S (!H)) ∧ ((pN && pW) → W (!H) = N H)

instance (H pN pE pS pW : Bool) (N E S W : Bool → ℕ) : Decidable (condOf H pN pE pS pW N E S W) := by
  unfold condOf; infer_instance

def valOf4 (H pN pE pS pW : Bool) (bare : ℕ → ℕ → ℕ → ℕ → ℤ) (N E S W : Bool → ℕ) : ℤ :=
  bare (if pN then N (!H) else if pE then E H else 0)
       (if pE then E (!H) else if pS then S H else 0)
       (if pS then S (!H) else if pW then W H else 0)
       (if pW then W (!H) else if pN then N H else 0)

theorem slotEntry_eq (H pN pE pS pW : Bool) (bare : ℕ → ℕ → ℕ → ℕ → ℤ) (N E S W : Bool → ℕ) :
    slotEntry H pN pE pS pW bare N E S W
      = (if condOf H pN pE pS pW N E S W then 1 else 0) * valOf4 H pN pE pS pW bare N E S W := by
  show (if condOf H pN pE pS pW N E S W then valOf4 H pN pE pS pW bare N E S W else 0) = _
  by_cases hc : condOf H pN pE pS pW N E S W
  · rw [if_pos hc, if_pos hc, one_mul]
  · rw [if_neg hc, if_neg hc, zero_mul]

/-- the agreement constraints of the cell `(a, b)` under the slot assignment `t` -/
def CellOK (R C : Int) (t : Bond × Bool → ℕ) (a b : ℕ) : Prop :=
  condOf (hcb R a b) (fN R C a b) (fE R C a b) (fS R C a b) (fW R C a b)
    (fun hf => t (v a b, hf)) (fun hf => t (h a (b + 1), hf)) (fun hf => t (v (a + 1) b, hf))
    (fun hf => t (h a b, hf))

instance (R C : Int) (t : Bond × Bool → ℕ) (a b : ℕ) : Decidable (CellOK R C t a b) := by
  unfold CellOK; infer_instance

/-- the bare value of the cell `(a, b)` under the slot assignment `t` -/
def cellVal (R C : Int) (d : Dist Int) (f : BVec) (t : Bond × Bool → ℕ) (a b : ℕ) : ℤ :=
  valOf4 (hcb R a b) (fN R C a b) (fE R C a b) (fS R C a b) (fW R C a b) (bareOf R C d f a b)
    (fun hf => t (v a b, hf)) (fun hf => t (h a (b + 1), hf)) (fun hf => t (v (a + 1) b, hf))
    (fun hf => t (h a b, hf))

/-- product of the bare values of all qubit cells -/
def Gval (R C : Int) (d : Dist Int) (f : BVec) (t : Bond × Bool → ℕ) : ℤ :=
  ∏ c ∈ range (K R C + 1), ∏ r ∈ range (K R C + 1), if Pres R C r c then cellVal R C d f t r c else 1

theorem cw_split (R C : Int) (d : Dist Int) (f : BVec) (hR : 2 ≤ R) (hC : 2 ≤ C) (t : Bond × Bool → ℕ)
    (ht : Vis R C t) (r c : ℕ) (hr : r ≤ K R C) (hc : c ≤ K R C) :
    cw (netF (rmpsTn R C d f)) (join t) r c
      = if Pres R C r c then (if CellOK R C t r c then 1 else 0) * cellVal R C d f t r c else 1 := by
  by_cases hp : Pres R C r c
  · rw [cw_join R C d f hR hC t ht r c hp, slotEntry_eq, if_pos hp]
    rfl
  · rw [cw_join_absent R C d f hR hC t ht r c hr hc hp, if_neg hp]

theorem prod_cells_ok (R C : Int) (d : Dist Int) (f : BVec) (hR : 2 ≤ R) (hC : 2 ≤ C) (t : Bond × Bool → ℕ)
    (ht : Vis R C t) (hall : ∀ r c, Pres R C r c → CellOK R C t r c) :
    ∏ c ∈ range (K R C + 1), ∏ r ∈ range (K R C + 1), cw (netF (rmpsTn R C d f)) (join t) r c
      = Gval R C d f t := by
  unfold Gval
  apply prod_congr rfl; intro c hc
  apply prod_congr rfl; intro r hr
  have hc := Nat.lt_succ_iff.mp (mem_range.mp hc)
  have hr := Nat.lt_succ_iff.mp (mem_range.mp hr)
  rw [cw_split R C d f hR hC t ht r c hr hc]
  by_cases hp : Pres R C r c
  · rw [if_pos hp, if_pos hp, if_pos (hall r c hp), one_mul]
  · rw [if_neg hp, if_neg hp]

theorem prod_cells_bad (R C : Int) (d : Dist Int) (f : BVec) (hR : 2 ≤ R) (hC : 2 ≤ C) (t : Bond × Bool → ℕ)
    (ht : Vis R C t) (r c : ℕ) (hp : Pres R C r c) (hbad : ¬ CellOK R C t r c) :
    ∏ c ∈ range (K R C + 1), ∏ r ∈ range (K R C + 1), cw (netF (rmpsTn R C d f)) (join t) r c = 0 := by
  obtain ⟨hr, hc⟩ := pres_le R C r c hp
  apply prod_eq_zero (mem_range.mpr (Nat.lt_succ_iff.mpr hc))
  apply prod_eq_zero (mem_range.mpr (Nat.lt_succ_iff.mpr hr))
  rw [cw_split R C d f hR hC t ht r c hr hc, if_pos hp, if_neg hbad, zero_mul]

/-! ### cell constraints ⟺ every plaquette's slots agree -/

theorem bool_ne_self_not (x : Bool) : (x = !x) = False := by cases x <;> simp
theorem bool_not_ne_self (x : Bool) : ((!x) = x) = False := by cases x <;> simp

/-- the slots of a vertex agree ⇒ the constraints of every cell hold -/
theorem cellOK_of_agree (R C : Int) (t : Bond × Bool → ℕ)
    (hag : ∀ x ∈ slotsS R C, ∀ y ∈ slotsS R C, owner R x = owner R y → t x = t y) (a b : ℕ) :
    CellOK R C t a b := by
  unfold CellOK condOf fN fE fS fW
  simp only [Bool.and_eq_true, decide_eq_true_eq]
  refine ⟨fun hh => ?_, fun hh => ?_, fun hh => ?_, fun hh => ?_⟩
  · apply hag _ ((mem_slotsS R C _).mpr (by show DW R C a (b + 1) = 4; rw [← DE_eq]; exact hh.2)) _
      ((mem_slotsS R C _).mpr (by show DN R C a b = 4; exact hh.1))
    simp only [owner, hcb_succ_col, bool_ne_self_not, bool_not_ne_self, if_false]
  · apply hag _ ((mem_slotsS R C _).mpr (by show DN R C (a + 1) b = 4; rw [← DS_eq]; exact hh.2)) _
      ((mem_slotsS R C _).mpr (by show DW R C a (b + 1) = 4; rw [← DE_eq]; exact hh.1))
    simp only [owner, hcb_succ_col, hcb_succ_row, bool_ne_self_not, if_false, if_true]
  · apply hag _ ((mem_slotsS R C _).mpr (by show DW R C a b = 4; exact hh.2)) _
      ((mem_slotsS R C _).mpr (by show DN R C (a + 1) b = 4; rw [← DS_eq]; exact hh.1))
    simp only [owner, hcb_succ_row, if_true]
  · apply hag _ ((mem_slotsS R C _).mpr (by show DW R C a b = 4; exact hh.2)) _
      ((mem_slotsS R C _).mpr (by show DN R C a b = 4; exact hh.1))
    simp only [owner, bool_not_ne_self, if_false, if_true]

theorem owner_cases (R : Int) (β : Bond) (hf : Bool) (i j : ℕ) (ho : owner R (β, hf) = (i, j)) :
    (β = v i j ∧ hf = hcb R i j) ∨ (∃ j', j = j' + 1 ∧ β = v i j' ∧ hf = !hcb R i j') ∨
    (∃ i', i = i' + 1 ∧ β = h i' j ∧ hf = hcb R i' j) ∨ (β = h i j ∧ hf = !hcb R i j) := by
  have bne : ∀ x y : Bool, ¬ x = y → x = !y := by intro x y; cases x <;> cases y <;> simp
  cases β with
  | v a b =>
    simp only [owner] at ho
    split_ifs at ho with hh
    · simp only [Prod.mk.injEq] at ho
      obtain ⟨rfl, rfl⟩ := ho
      exact Or.inl ⟨rfl, hh⟩
    · simp only [Prod.mk.injEq] at ho
      obtain ⟨rfl, rfl⟩ := ho
      exact Or.inr (Or.inl ⟨b, rfl, rfl, bne _ _ hh⟩)
  | h a b =>
    simp only [owner] at ho
    split_ifs at ho with hh
    · simp only [Prod.mk.injEq] at ho
      obtain ⟨rfl, rfl⟩ := ho
      exact Or.inr (Or.inr (Or.inl ⟨a, rfl, rfl, hh⟩))
    · simp only [Prod.mk.injEq] at ho
      obtain ⟨rfl, rfl⟩ := ho
      exact Or.inr (Or.inr (Or.inr ⟨rfl, bne _ _ hh⟩))

section Ring
variable (R C : Int) (t : Bond × Bool → ℕ) (hall : ∀ r c, Pres R C r c → CellOK R C t r c)
include hall

omit hall in
theorem pres_of_DN (a b : ℕ) (h : DN R C a b = 4) : Pres R C a b := by
  unfold DN at h; by_contra hp; rw [if_neg (fun hh => hp hh.1)] at h; omega
omit hall in
theorem pres_of_DW (a b : ℕ) (h : DW R C a b = 4) : Pres R C a b := by
  unfold DW at h; by_contra hp; rw [if_neg (fun hh => hp hh.1)] at h; omega

theorem eAD (i j : ℕ) (h1 : DN R C i j = 4) (h2 : DW R C i j = 4) :
    t (v i j, hcb R i j) = t (h i j, !hcb R i j) := by
  have := hall i j (pres_of_DW R C i j h2)
  unfold CellOK condOf fN fE fS fW at this
  simp only [Bool.and_eq_true, decide_eq_true_eq] at this
  exact (this.2.2.2 ⟨h1, h2⟩).symm

theorem eAC (i' j : ℕ) (h1 : DN R C (i' + 1) j = 4) (h2 : DW R C i' j = 4) :
    t (v (i' + 1) j, hcb R (i' + 1) j) = t (h i' j, hcb R i' j) := by
  have := hall i' j (pres_of_DW R C i' j h2)
  unfold CellOK condOf fN fE fS fW at this
  simp only [Bool.and_eq_true, decide_eq_true_eq] at this
  rw [hcb_succ_row]
  exact (this.2.2.1 ⟨by rw [DS_eq]; exact h1, h2⟩).symm

theorem eBD (i j' : ℕ) (h1 : DN R C i j' = 4) (h2 : DW R C i (j' + 1) = 4) :
    t (v i j', !hcb R i j') = t (h i (j' + 1), !hcb R i (j' + 1)) := by
  have hp : Pres R C i j' := by
    unfold DN at h1; by_contra hp; rw [if_neg (fun hh => hp hh.1)] at h1; omega
  have := hall i j' hp
  unfold CellOK condOf fN fE fS fW at this
  simp only [Bool.and_eq_true, decide_eq_true_eq] at this
  rw [hcb_succ_col, Bool.not_not]
  exact (this.1 ⟨h1, by rw [DE_eq]; exact h2⟩).symm

theorem eCB (i' j' : ℕ) (h1 : DW R C i' (j' + 1) = 4) (h2 : DN R C (i' + 1) j' = 4) :
    t (h i' (j' + 1), hcb R i' (j' + 1)) = t (v (i' + 1) j', !hcb R (i' + 1) j') := by
  have hp : Pres R C i' j' := by
    rw [← DE_eq] at h1
    unfold DE at h1; by_contra hp; rw [if_neg (fun hh => hp hh.1)] at h1; omega
  have := hall i' j' hp
  unfold CellOK condOf fN fE fS fW at this
  simp only [Bool.and_eq_true, decide_eq_true_eq] at this
  rw [hcb_succ_col, hcb_succ_row, Bool.not_not]
  exact (this.2.1 ⟨by rw [DE_eq]; exact h1, by rw [DS_eq]; exact h2⟩).symm

omit hall in
theorem pAB (i j' : ℕ) (h1 : DN R C i (j' + 1) = 4) (h2 : DN R C i j' = 4) : DW R C i (j' + 1) = 4 := by
  unfold DN at h1 h2
  unfold DW
  split_ifs at h1 h2 with a1 a2
  · rw [if_pos]
    unfold Pres lr lc at *
    push_cast at *
    omega
  all_goals omega

omit hall in
theorem pCD (i' j : ℕ) (h1 : DW R C i' j = 4) (h2 : DW R C (i' + 1) j = 4) : DN R C (i' + 1) j = 4 := by
  unfold DW at h1 h2
  unfold DN
  split_ifs at h1 h2 with a1 a2
  · rw [if_pos]
    unfold Pres lr lc at *
    push_cast at *
    omega
  all_goals omega

/-- the constraints of every cell hold ⇒ the slots of every vertex agree -/
theorem agree_of_cellOK (x : Bond × Bool) (hx : x ∈ slotsS R C) (y : Bond × Bool) (hy : y ∈ slotsS R C)
    (ho : owner R x = owner R y) : t x = t y := by
  obtain ⟨β1, f1⟩ := x
  obtain ⟨β2, f2⟩ := y
  have dx : sdim R C β1 = 4 := (mem_slotsS R C _).mp hx
  have dy : sdim R C β2 = 4 := (mem_slotsS R C _).mp hy
  obtain ⟨i, j, hV⟩ : ∃ i j, owner R (β2, f2) = (i, j) := ⟨_, _, rfl⟩
  rw [hV] at ho
  have AD := eAD R C t hall
  have AC := eAC R C t hall
  have BD := eBD R C t hall
  have CB := eCB R C t hall
  rcases owner_cases R β1 f1 i j ho with ⟨rfl, rfl⟩ | ⟨j1, rfl, rfl, rfl⟩ | ⟨i1, rfl, rfl, rfl⟩ | ⟨rfl, rfl⟩ <;>
    rcases owner_cases R β2 f2 _ _ hV with ⟨rfl, rfl⟩ | ⟨j2, hj2, rfl, rfl⟩ | ⟨i2, hi2, rfl, rfl⟩ | ⟨rfl, rfl⟩
  · rfl
  · subst hj2
    exact (AD i (j2 + 1) dx (pAB R C i j2 dx dy)).trans (BD i j2 dy (pAB R C i j2 dx dy)).symm
  · subst hi2; exact AC i2 j dx dy
  · exact AD i j dx dy
  · exact ((AD i (j1 + 1) dy (pAB R C i j1 dy dx)).trans (BD i j1 dx (pAB R C i j1 dy dx)).symm).symm
  · obtain rfl : j2 = j1 := by omega
    rfl
  · subst hi2; exact (CB i2 j1 dy dx).symm
  · exact BD i j1 dx dy
  · exact (AC i1 j dy dx).symm
  · subst hj2; exact CB i1 j2 dx dy
  · obtain rfl : i2 = i1 := by omega
    rfl
  · exact (AC i1 j (pCD R C i1 j dx dy) dx).symm.trans (AD (i1 + 1) j (pCD R C i1 j dx dy) dy)
  · exact (AD i j dy dx).symm
  · subst hj2; exact (BD i j2 dy dx).symm
  · subst hi2
    exact ((AC i2 j (pCD R C i2 j dy dx) dy).symm.trans (AD (i2 + 1) j (pCD R C i2 j dy dx) dx)).symm
  · rfl

end Ring

/-! ### vertices ↔ plaquettes, the stars -/

/-- vertex of the cell grid at which the plaquette `p` sits -/
def vtx (R : Int) (p : Int × Int) : ℕ × ℕ :=
  (((p.1 + p.2 + 1) / 2).toNat, ((p.2 - p.1 + 1) / 2 + R - 1).toNat)

/-- the plaquette index at the vertex `V` -/
def plaqOf (R : Int) (V : ℕ × ℕ) : Int × Int := ((V.1 : Int) - (V.2 : Int) + R - 1, (V.1 : Int) + (V.2 : Int) - R)

theorem vtx_plaqOf (R : Int) (V : ℕ × ℕ) : vtx R (plaqOf R V) = V := by
  unfold vtx plaqOf
  apply Prod.ext <;> simp only <;> omega

theorem vtx_inj (R C : Int) (p q : Int × Int) (hp : PlanarCode.RealP R C p) (hq : PlanarCode.RealP R C q)
    (h : vtx R p = vtx R q) : p = q := by
  unfold vtx at h
  unfold PlanarCode.RealP at hp hq
  simp only [Prod.mk.injEq] at h
  apply Prod.ext <;> omega

theorem owner_real (R C : Int) (hR : 2 ≤ R) (hC : 2 ≤ C) (x : Bond × Bool) (hx : x ∈ slotsS R C) :
    PlanarCode.RealP R C (plaqOf R (owner R x)) := by
  have dx := (mem_slotsS R C _).mp hx
  obtain ⟨β, hf⟩ := x
  cases β with
  | v a b =>
    simp only [sdim, DN] at dx
    by_cases hh : Pres R C a b ∧ 0 < lr R a b ∧ 0 < lc R a b
    swap
    · rw [if_neg hh] at dx; omega
    obtain ⟨hp, h1, h2⟩ := hh
    unfold lr at h1; unfold lc at h2; unfold Pres lr lc at hp
    unfold PlanarCode.RealP plaqOf
    simp only [owner]
    split_ifs <;> simp only <;> push_cast <;> omega
  | h a b =>
    simp only [sdim, DW] at dx
    by_cases hh : Pres R C a b ∧ lr R a b < 2 * R - 2 ∧ 0 < lc R a b
    swap
    · rw [if_neg hh] at dx; omega
    obtain ⟨hp, h1, h2⟩ := hh
    unfold lr at h1; unfold lc at h2; unfold Pres lr lc at hp
    unfold PlanarCode.RealP plaqOf
    simp only [owner]
    split_ifs <;> simp only <;> push_cast <;> omega

/-- the slots of every plaquette, in the order of the generators -/
def stars (R C : Int) : List (List (Bond × Bool)) :=
  (Planar.plaquetteIndices R C).map fun p => (slotsS R C).filter fun x => owner R x = vtx R p

theorem stars_eq (R C : Int) :
    stars R C = ((Planar.plaquetteIndices R C).map (vtx R)).map fun V => (slotsS R C).filter fun x => owner R x = V := by
  unfold stars; rw [List.map_map]; rfl

theorem vtx_nodup (R C : Int) : ((Planar.plaquetteIndices R C).map (vtx R)).Nodup := by
  refine List.Nodup.map_on ?_ (PlanarCode.plaquetteIndices_nodup R C)
  intro p hp q hq hpq
  exact vtx_inj R C p q ((PlanarCode.mem_plaquetteIndices R C p).mp hp) ((PlanarCode.mem_plaquetteIndices R C q).mp hq) hpq

theorem owner_mem (R C : Int) (hR : 2 ≤ R) (hC : 2 ≤ C) (x : Bond × Bool) (hx : x ∈ slotsS R C) :
    owner R x ∈ (Planar.plaquetteIndices R C).map (vtx R) :=
  List.mem_map.mpr ⟨plaqOf R (owner R x), (PlanarCode.mem_plaquetteIndices R C _).mpr (owner_real R C hR hC x hx),
    vtx_plaqOf R _⟩

theorem stars_perm (R C : Int) (hR : 2 ≤ R) (hC : 2 ≤ C) :
    (stars R C).flatten.Perm (slotsS R C) ∧ (stars R C).flatten.Nodup := by
  rw [stars_eq]
  exact owner_perm (slotsS R C) (slotsS_nodup R C) _ (vtx_nodup R C) (owner R) (owner_mem R C hR hC)

theorem mem_stars_flatten (R C : Int) (hR : 2 ≤ R) (hC : 2 ≤ C) (x : Bond × Bool) :
    x ∈ (stars R C).flatten ↔ x ∈ slotsS R C := (stars_perm R C hR hC).1.mem_iff

theorem stars_ne_nil (R C : Int) (hR : 2 ≤ R) (hC : 2 ≤ C) : ∀ l ∈ stars R C, l ≠ [] := by
  intro l hl
  obtain ⟨p, hp, rfl⟩ := List.mem_map.mp hl
  have hp' := (PlanarCode.mem_plaquetteIndices R C p).mp hp
  unfold PlanarCode.RealP at hp'
  obtain ⟨pr, pc⟩ := p
  simp only at hp'
  -- a slot of the plaquette: one of the four bonds around its vertex
  have key : ∃ x ∈ slotsS R C, owner R x = vtx R (pr, pc) := by
    have hv : vtx R (pr, pc) = (((pr + pc + 1) / 2).toNat, ((pc - pr + 1) / 2 + R - 1).toNat) := rfl
    set i := ((pr + pc + 1) / 2).toNat with hi
    set j := ((pc - pr + 1) / 2 + R - 1).toNat with hj
    have ei : (i : Int) = (pr + pc + 1) / 2 := by omega
    have ej : (j : Int) = (pc - pr + 1) / 2 + R - 1 := by omega
    by_cases h1 : pc + 1 ≤ 2 * C - 2
    · by_cases h2 : 0 < pr
      · refine ⟨(v i j, hcb R i j), (mem_slotsS R C _).mpr ?_, by rw [hv]; simp [owner]⟩
        show DN R C i j = 4
        unfold DN; rw [if_pos]; unfold Pres lr lc; omega
      · refine ⟨(h i j, !hcb R i j), (mem_slotsS R C _).mpr ?_, by rw [hv]; simp [owner, bool_not_ne_self]⟩
        show DW R C i j = 4
        unfold DW; rw [if_pos]; unfold Pres lr lc; omega
    · obtain ⟨j', hj'⟩ : ∃ j', j = j' + 1 := ⟨j - 1, by omega⟩
      by_cases h2 : pr + 1 ≤ 2 * R - 2
      · refine ⟨(v i j', !hcb R i j'), (mem_slotsS R C _).mpr ?_, by rw [hv, hj']; simp [owner, bool_not_ne_self]⟩
        show DN R C i j' = 4
        unfold DN; rw [if_pos]; unfold Pres lr lc; omega
      · obtain ⟨i', hi'⟩ : ∃ i', i = i' + 1 := ⟨i - 1, by omega⟩
        refine ⟨(h i' j, hcb R i' j), (mem_slotsS R C _).mpr ?_, by rw [hv, hi']; simp [owner]⟩
        show DW R C i' j = 4
        unfold DW; rw [if_pos]; unfold Pres lr lc; omega
  obtain ⟨x, hx, hox⟩ := key
  exact List.ne_nil_of_mem (List.mem_filter.mpr ⟨hx, by simpa using hox⟩)

/-! ### the summand: deltas × bare values -/

theorem summand_eq (R C : Int) (d : Dist Int) (f : BVec) (hR : 2 ≤ R) (hC : 2 ≤ C) (t : Bond × Bool → ℕ)
    (ht : Vis R C t) :
    ∏ c ∈ range (K R C + 1), ∏ r ∈ range (K R C + 1), cw (netF (rmpsTn R C d f)) (join t) r c
      = ((stars R C).map fun l => (FactorGraph.star l t : ℤ)).prod * Gval R C d f t := by
  by_cases hall : ∀ r c, Pres R C r c → CellOK R C t r c
  · rw [prod_cells_ok R C d f hR hC t ht hall]
    have : ((stars R C).map fun l => (FactorGraph.star l t : ℤ)).prod = 1 := by
      apply List.prod_eq_one
      intro z hz
      obtain ⟨l, hl, rfl⟩ := List.mem_map.mp hz
      obtain ⟨p, _, rfl⟩ := List.mem_map.mp hl
      rw [star_eq_ite, if_pos]
      intro x hx y hy
      simp only [List.mem_filter, decide_eq_true_eq] at hx hy
      exact agree_of_cellOK R C t hall x hx.1 y hy.1 (hx.2.trans hy.2.symm)
    rw [this, one_mul]
  · have hbad : ¬ ∀ x ∈ slotsS R C, ∀ y ∈ slotsS R C, owner R x = owner R y → t x = t y :=
      fun hag => hall (fun r c _ => cellOK_of_agree R C t hag r c)
    push_neg at hall hbad
    obtain ⟨r, c, hp, hnot⟩ := hall
    obtain ⟨x, hx, y, hy, hxy, hne⟩ := hbad
    rw [prod_cells_bad R C d f hR hC t ht r c hp hnot]
    have : ((stars R C).map fun l => (FactorGraph.star l t : ℤ)).prod = 0 := by
      apply List.prod_eq_zero
      obtain ⟨p, hp, hvp⟩ := List.mem_map.mp (owner_mem R C hR hC x hx)
      refine List.mem_map.mpr ⟨(slotsS R C).filter fun z => owner R z = vtx R p,
        List.mem_map.mpr ⟨p, hp, rfl⟩, ?_⟩
      rw [star_eq_ite, if_neg]
      intro hh
      exact hne (hh x (List.mem_filter.mpr ⟨hx, by simpa using hvp.symm⟩)
        y (List.mem_filter.mpr ⟨hy, by simpa using (hxy.symm.trans hvp.symm)⟩))
    rw [this, zero_mul]

/-! ### the exact value as a sum over one bit per plaquette -/

theorem sumV_congr_dim {α : Type*} [CommSemiring α] {ι : Type*} [DecidableEq ι] (dim dim' : ι → ℕ) (l : List ι)
    (hd : ∀ b ∈ l, dim b = dim' b) (F : (ι → ℕ) → α) (τ : ι → ℕ) : sumV dim l F τ = sumV dim' l F τ := by
  induction l generalizing τ with
  | nil => rfl
  | cons b l ih =>
    simp only [sumV, hd b (List.mem_cons_self ..)]
    apply sum_congr rfl
    intro x _
    exact ih (fun c hc => hd c (List.mem_cons_of_mem _ hc)) _

theorem vis_of_visited (R C : Int) (hR : 2 ≤ R) (hC : 2 ≤ C) (t : Bond × Bool → ℕ)
    (h1 : ∀ b ∈ (stars R C).flatten, t b < dim2 (sdim R C) b) (h2 : ∀ b, b ∉ (stars R C).flatten → t b = 0) :
    Vis R C t := by
  refine ⟨fun x hx => ?_, fun x hx => h2 x (fun hh => hx ((mem_stars_flatten R C hR hC x).mp hh))⟩
  have := h1 x ((mem_stars_flatten R C hR hC x).mpr hx)
  unfold dim2 at this
  rw [if_pos ((mem_slotsS R C x).mp hx)] at this
  exact this

theorem exactValue_rmpsTn (R C : Int) (d : Dist Int) (f : BVec) (hR : 2 ≤ R) (hC : 2 ≤ C) :
    exactValue (rmpsTn R C d f) = some (sumB (stars R C) (Gval R C d f) (fun _ => 0)) := by
  have hc := compat_rmpsTn R C d f hR hC
  rw [PlanarTnLemmas.exactValue_eq_sumV _ _ _ hc (compatible_of_compat _ _ _ hc)]
  congr 1
  have hj : (fun _ : Bond => 0) = join (fun _ : Bond × Bool => 0) := by funext b; simp [join]
  have hperm : (slots2 (gvars (K R C) (K R C))).Perm
      ((slots2 (gvars (K R C) (K R C))).filter (fun x => !decide (sdim R C x.1 = 4)) ++ slotsS R C) :=
    (List.filter_append_perm (fun x => decide (sdim R C x.1 = 4)) _).symm.trans List.perm_append_comm
  rw [sumV_congr_dim _ (sdim R C) _ (fun b hb => bdim_eq_sdim R C d f hR hC b hb), hj,
    sumV_split (sdim R C) _ (fun b _ => sdim_cases R C b),
    sumV_perm _ hperm (slots2_nodup _ (gvars_nodup _ _)),
    sumV_drop_unit _ _ _ _ _
      (fun b hb => by
        have := (List.mem_filter.mp hb).2
        simp only [Bool.not_eq_true', decide_eq_false_iff_not] at this
        unfold dim2; rw [if_neg this])
      (fun _ _ => rfl),
    sumV_perm _ (stars_perm R C hR hC).1.symm (slotsS_nodup R C),
    sumV_congr_mem _ _ _
      (fun t => ((stars R C).map fun l => (FactorGraph.star l t : ℤ)).prod * Gval R C d f t) _
      (fun t h1 h2 => summand_eq R C d f hR hC t (vis_of_visited R C hR hC t h1 h2))]
  exact sumV_stars _ (stars R C) (stars_perm R C hR hC).2 (stars_ne_nil R C hR hC)
    (fun b hb => by
      unfold dim2; rw [if_pos ((mem_slotsS R C b).mp ((mem_stars_flatten R C hR hC b).mp hb))]) _ _

/-! ### the bare values at "one bit per plaquette", and the final identity -/

open Qec.PlanarCode in
theorem prod_sites_rot (R C : Int) (hR : 2 ≤ R) (hC : 2 ≤ C) (φ : ℕ → ℤ) :
    ∏ c ∈ range (K R C + 1), ∏ r ∈ range (K R C + 1),
        (if Pres R C r c then φ (fl R C (lr R r c, lc R r c)) else 1)
      = ∏ q ∈ range (nq R C), φ q := by
  have hK : (K R C : ℤ) = R + C - 2 := by unfold K; omega
  calc ∏ c ∈ range (K R C + 1), ∏ r ∈ range (K R C + 1),
        (if Pres R C r c then φ (fl R C (lr R r c, lc R r c)) else 1)
      = ∏ r ∈ range (K R C + 1), ∏ c ∈ range (K R C + 1),
          (if Pres R C r c then φ (fl R C (lr R r c, lc R r c)) else 1) := prod_comm
    _ = ∏ x ∈ range (K R C + 1) ×ˢ range (K R C + 1),
          (if Pres R C x.1 x.2 then φ (fl R C (lr R x.1 x.2, lc R x.1 x.2)) else 1) :=
        (prod_product' _ _ (fun (r c : ℕ) => if Pres R C r c then φ (fl R C (lr R r c, lc R r c)) else 1)).symm
    _ = ∏ x ∈ (range (K R C + 1) ×ˢ range (K R C + 1)).filter (fun x => Pres R C x.1 x.2),
          φ (fl R C (lr R x.1 x.2, lc R x.1 x.2)) := (prod_filter _ _).symm
    _ = ∏ q ∈ range (nq R C), φ q := by
        apply prod_nbij (fun x : ℕ × ℕ => fl R C (lr R x.1 x.2, lc R x.1 x.2))
        · intro x hx
          simp only [mem_filter, mem_product, mem_range] at hx
          obtain ⟨_, hp⟩ := hx
          rw [mem_range]
          refine fl_lt R C hR hC _ ?_ ?_
          · show (lr R x.1 x.2 + lc R x.1 x.2) % 2 = 0; unfold lr lc; omega
          · rw [inBounds_iff]; exact hp
        · intro x hx y hy hxy
          simp only [coe_filter, mem_product, mem_range, Set.mem_setOf_eq] at hx hy
          have := fl_inj R C (lr R y.1 y.2, lc R y.1 y.2) (lr R x.1 x.2, lc R x.1 x.2)
            (by show (lr R y.1 y.2 + lc R y.1 y.2) % 2 = 0; unfold lr lc; omega)
            (by rw [inBounds_iff]; exact hy.2)
            (by show (lr R x.1 x.2 + lc R x.1 x.2) % 2 = 0; unfold lr lc; omega)
            (by rw [inBounds_iff]; exact hx.2) hxy hR hC
          simp only [Prod.mk.injEq] at this
          unfold lr lc at this
          exact Prod.ext (by omega) (by omega)
        · intro q hq
          simp only [coe_range, Set.mem_Iio] at hq
          obtain ⟨r, c, hs, he⟩ := flatten_surj R C hR hC (q : ℤ) (by omega) (by unfold nq at hq; omega)
          unfold SiteIn at hs
          refine ⟨(((r + c) / 2).toNat, ((c - r) / 2 + R - 1).toNat), ?_, ?_⟩
          · simp only [coe_filter, mem_product, mem_range, Set.mem_setOf_eq]
            unfold Pres lr lc
            omega
          · have e1 : lr R ((r + c) / 2).toNat ((c - r) / 2 + R - 1).toNat = r := by unfold lr; omega
            have e2 : lc R ((r + c) / 2).toNat ((c - r) / 2 + R - 1).toNat = c := by unfold lc; omega
            show fl R C (lr R _ _, lc R _ _) = q
            rw [e1, e2]
            unfold fl
            simp only
            rw [he]
            simp
        · intro x _; rfl

/-- the bit of plaquette `q` under the bit function `Bf`; `false` outside the lattice -/
def BqF (R C : Int) (Bf : Int × Int → Bool) (q : Int × Int) : Bool :=
  decide (q ∈ Planar.plaquetteIndices R C) && Bf q

/-- the assignment of the bits `Bf` (one per plaquette) to the slots -/
def tA (R C : Int) (Bf : Int × Int → Bool) : Bond × Bool → ℕ :=
  assign (stars R C) ((Planar.plaquetteIndices R C).map Bf) (fun _ => 0)

theorem tA_in (R C : Int) (hR : 2 ≤ R) (hC : 2 ≤ C) (Bf : Int × Int → Bool) (x : Bond × Bool) (hx : x ∈ slotsS R C) :
    tA R C Bf x = (BqF R C Bf (plaqOf R (owner R x))).toNat := by
  have hreal := owner_real R C hR hC x hx
  have hmem := (PlanarCode.mem_plaquetteIndices R C _).mpr hreal
  unfold tA stars BqF
  rw [assign_map_mem (Planar.plaquetteIndices R C) _ Bf _ x (plaqOf R (owner R x)) hmem
    (List.mem_filter.mpr ⟨hx, by simpa using (vtx_plaqOf R _).symm⟩)
    (fun p hp hxp => by
      have := (List.mem_filter.mp hxp).2
      simp only [decide_eq_true_eq] at this
      exact vtx_inj R C p _ ((PlanarCode.mem_plaquetteIndices R C p).mp hp) hreal
        (this.symm.trans (vtx_plaqOf R _).symm))]
  simp [hmem]

theorem tA_vis (R C : Int) (hR : 2 ≤ R) (hC : 2 ≤ C) (Bf : Int × Int → Bool) : Vis R C (tA R C Bf) := by
  refine ⟨fun x hx => ?_, fun x hx => ?_⟩
  · rw [tA_in R C hR hC Bf x hx]; cases BqF R C Bf (plaqOf R (owner R x)) <;> simp
  · exact assign_not_mem _ _ _ _ (fun hh => hx ((mem_stars_flatten R C hR hC x).mp hh))

/-- value of one corner bit of a cell: from whichever of its two copies exists -/
theorem arg_val (R C : Int) (hR : 2 ≤ R) (hC : 2 ≤ C) (Bf : Int × Int → Bool) (p1 p2 : Bool) (x1 x2 : Bond × Bool)
    (q : Int × Int) (h1 : p1 = true → x1 ∈ slotsS R C ∧ plaqOf R (owner R x1) = q)
    (h2 : p2 = true → x2 ∈ slotsS R C ∧ plaqOf R (owner R x2) = q)
    (h0 : p1 = false → p2 = false → ¬ PlanarCode.RealP R C q) :
    (if p1 then tA R C Bf x1 else if p2 then tA R C Bf x2 else 0) = (BqF R C Bf q).toNat := by
  cases hp1 : p1
  · cases hp2 : p2
    · simp only [Bool.false_eq_true, if_false]
      have : q ∉ Planar.plaquetteIndices R C := fun hh =>
        h0 hp1 hp2 ((PlanarCode.mem_plaquetteIndices R C q).mp hh)
      simp [BqF, this]
    · simp only [Bool.false_eq_true, if_false, if_true]
      obtain ⟨a1, a2⟩ := h2 hp2
      rw [tA_in R C hR hC Bf x2 a1, a2]
  · simp only [if_true]
    obtain ⟨a1, a2⟩ := h1 hp1
    rw [tA_in R C hR hC Bf x1 a1, a2]

theorem ne_four_of_false {n : ℕ} (h : decide (n = 4) = false) : ¬ n = 4 := by simpa using h

/-- the bare value of a present cell at the assignment of one bit per plaquette -/
theorem cellVal_tA (R C : Int) (d : Dist Int) (f : BVec) (hR : 2 ≤ R) (hC : 2 ≤ C) (Bf : Int × Int → Bool) (a b : ℕ)
    (hp : Pres R C a b) :
    cellVal R C d f (tA R C Bf) a b
      = bareOf R C d f a b (BqF R C Bf (lr R a b - 1, lc R a b)).toNat (BqF R C Bf (lr R a b, lc R a b + 1)).toNat
          (BqF R C Bf (lr R a b + 1, lc R a b)).toNat (BqF R C Bf (lr R a b, lc R a b - 1)).toNat := by
  have hp' := hp
  unfold Pres at hp'
  have mN : fN R C a b = true → (v a b, !hcb R a b) ∈ slotsS R C := fun hh =>
    (mem_slotsS R C _).mpr (by show DN R C a b = 4; simpa [fN] using hh)
  have mN' : fN R C a b = true → (v a b, hcb R a b) ∈ slotsS R C := fun hh =>
    (mem_slotsS R C _).mpr (by show DN R C a b = 4; simpa [fN] using hh)
  have mE : ∀ hf, fE R C a b = true → (h a (b + 1), hf) ∈ slotsS R C := fun hf hh =>
    (mem_slotsS R C _).mpr (by show DW R C a (b + 1) = 4; rw [← DE_eq]; simpa [fE] using hh)
  have mS : ∀ hf, fS R C a b = true → (v (a + 1) b, hf) ∈ slotsS R C := fun hf hh =>
    (mem_slotsS R C _).mpr (by show DN R C (a + 1) b = 4; rw [← DS_eq]; simpa [fS] using hh)
  have mW : ∀ hf, fW R C a b = true → (h a b, hf) ∈ slotsS R C := fun hf hh =>
    (mem_slotsS R C _).mpr (by show DW R C a b = 4; simpa [fW] using hh)
  have dN : fN R C a b = false → ¬ (0 < lr R a b ∧ 0 < lc R a b) := fun hh hc => by
    have := ne_four_of_false hh; unfold DN at this; rw [if_pos ⟨hp, hc⟩] at this; exact this rfl
  have dE : fE R C a b = false → ¬ (0 < lr R a b ∧ lc R a b < 2 * C - 2) := fun hh hc => by
    have := ne_four_of_false hh; unfold DE at this; rw [if_pos ⟨hp, hc⟩] at this; exact this rfl
  have dS : fS R C a b = false → ¬ (lr R a b < 2 * R - 2 ∧ lc R a b < 2 * C - 2) := fun hh hc => by
    have := ne_four_of_false hh; unfold DS at this; rw [if_pos ⟨hp, hc⟩] at this; exact this rfl
  have dW : fW R C a b = false → ¬ (lr R a b < 2 * R - 2 ∧ 0 < lc R a b) := fun hh hc => by
    have := ne_four_of_false hh; unfold DW at this; rw [if_pos ⟨hp, hc⟩] at this; exact this rfl
  have pq : ∀ (x : Bond × Bool) (V : ℕ × ℕ) (q : Int × Int), owner R x = V → plaqOf R V = q →
      plaqOf R (owner R x) = q := fun x V q h1 h2 => by rw [h1, h2]
  unfold cellVal valOf4
  congr 1
  · exact arg_val R C hR hC Bf _ _ _ _ _
      (fun hh => ⟨mN hh, pq _ (a, b + 1) _ (by simp only [owner, bool_not_ne_self, if_false])
        (by unfold plaqOf lr lc; simp only [Prod.mk.injEq]; push_cast; omega)⟩)
      (fun hh => ⟨mE _ hh, pq _ (a, b + 1) _ (by simp only [owner, hcb_succ_col, bool_ne_self_not, if_false])
        (by unfold plaqOf lr lc; simp only [Prod.mk.injEq]; push_cast; omega)⟩)
      (fun h1 h2 hr => by
        have := dN h1; have := dE h2; unfold PlanarCode.RealP at hr; simp only at hr; omega)
  · exact arg_val R C hR hC Bf _ _ _ _ _
      (fun hh => ⟨mE _ hh, pq _ (a + 1, b + 1) _ (by simp only [owner, hcb_succ_col, if_true])
        (by unfold plaqOf lr lc; simp only [Prod.mk.injEq]; push_cast; omega)⟩)
      (fun hh => ⟨mS _ hh, pq _ (a + 1, b + 1) _ (by simp only [owner, hcb_succ_row, bool_ne_self_not, if_false])
        (by unfold plaqOf lr lc; simp only [Prod.mk.injEq]; push_cast; omega)⟩)
      (fun h1 h2 hr => by
        have := dE h1; have := dS h2; unfold PlanarCode.RealP at hr; simp only at hr; omega)
  · exact arg_val R C hR hC Bf _ _ _ _ _
      (fun hh => ⟨mS _ hh, pq _ (a + 1, b) _ (by simp only [owner, hcb_succ_row, if_true])
        (by unfold plaqOf lr lc; simp only [Prod.mk.injEq]; push_cast; omega)⟩)
      (fun hh => ⟨mW _ hh, pq _ (a + 1, b) _ (by simp only [owner, if_true])
        (by unfold plaqOf lr lc; simp only [Prod.mk.injEq]; push_cast; omega)⟩)
      (fun h1 h2 hr => by
        have := dS h1; have := dW h2; unfold PlanarCode.RealP at hr; simp only at hr; omega)
  · exact arg_val R C hR hC Bf _ _ _ _ _
      (fun hh => ⟨mW _ hh, pq _ (a, b) _ (by simp only [owner, bool_not_ne_self, if_false])
        (by unfold plaqOf lr lc; simp only [Prod.mk.injEq]; push_cast; omega)⟩)
      (fun hh => ⟨mN' hh, pq _ (a, b) _ (by simp only [owner, if_true])
        (by unfold plaqOf lr lc; simp only [Prod.mk.injEq]; push_cast; omega)⟩)
      (fun h1 h2 hr => by
        have := dW h1; have := dN h2; unfold PlanarCode.RealP at hr; simp only at hr; omega)

open Qec.PlanarTnLemmas in
theorem BqF_eq (R C : Int) (Bf : Int × Int → Bool) (q : Int × Int) :
    BqF R C Bf q = Bq R C (fun rc => Bf ((rc.1 : ℤ), (rc.2 : ℤ))) q := by
  unfold BqF Bq
  by_cases hq : q ∈ Planar.plaquetteIndices R C
  · have := (PlanarCode.mem_plaquetteIndices R C q).mp hq
    unfold PlanarCode.RealP at this
    simp only [hq, decide_true, Bool.true_and, toN]
    congr 1
    apply Prod.ext <;> simp only <;> omega
  · simp [hq]

open Qec.PlanarCode Qec.PlanarTnLemmas in
/-- **the product of the bare qubit values at the assignment of the bits `β` is the probability of `f · Π Sᵢ^βᵢ`** -/
theorem Gval_assign (R C : Int) (d : Dist Int) (f : BVec) (hR : 2 ≤ R) (hC : 2 ≤ C)
    (hf : f.length = 2 * nq R C) (β : List Bool) (hβ : β.length = (Planar.stabilizers R C).length) :
    Gval R C d f (assign (stars R C) β (fun _ => 0))
      = weight d (xorV f (Coset.xorComb f.length β (Planar.stabilizers R C))) := by
  have hlenP : β.length = (Planar.plaquetteIndices R C).length := by
    rw [hβ, stabilizers_eq_map]; simp
  obtain ⟨Bf, hB⟩ := exists_map_eq (Planar.plaquetteIndices R C) (plaquetteIndices_nodup R C) β hlenP
  subst hB
  set B' : ℕ × ℕ → Bool := fun rc => Bf ((rc.1 : ℤ), (rc.2 : ℤ)) with hB'
  have hmapB : (Planar.plaquetteIndices R C).map Bf = (Planar.plaquetteIndices R C).map fun p => B' (toN p) := by
    apply List.map_congr_left
    intro p hp
    have := (mem_plaquetteIndices R C p).mp hp
    unfold RealP at this
    simp only [hB', toN]
    congr 1
    apply Prod.ext <;> simp only <;> omega
  have hlenS : Symp.AllLen (2 * nq R C) ((Planar.plaquetteIndices R C).map (stabOp R C)) := by
    intro g hg
    obtain ⟨p, _, rfl⟩ := List.mem_map.mp hg
    exact stabOp_length R C p
  have hcomb : Coset.xorComb f.length ((Planar.plaquetteIndices R C).map Bf) (Planar.stabilizers R C)
      = Symp.xorComb (2 * nq R C) ((Planar.plaquetteIndices R C).map fun p => B' (toN p))
          ((Planar.plaquetteIndices R C).map (stabOp R C)) := by
    rw [xorComb_eq, hf, stabilizers_eq_map, hmapB]
  rw [hcomb]
  have hcl := Symp.xorComb_length (2 * nq R C) ((Planar.plaquetteIndices R C).map fun p => B' (toN p)) _ hlenS
  rw [weight_eq_prod d (nq R C) _ (xorV_len hf hcl), ← prod_sites_rot R C hR hC]
  show ∏ c ∈ range (K R C + 1), ∏ r ∈ range (K R C + 1),
      (if Pres R C r c then cellVal R C d f (tA R C Bf) r c else 1) = _
  apply prod_congr rfl; intro b _
  apply prod_congr rfl; intro a _
  by_cases hp : Pres R C a b
  swap
  · rw [if_neg hp, if_neg hp]
  rw [if_pos hp, if_pos hp, cellVal_tA R C d f hR hC Bf a b hp]
  simp only [BqF_eq]
  have hp' := hp
  unfold Pres at hp'
  obtain ⟨r, er⟩ : ∃ r : ℕ, lr R a b = (r : ℤ) := ⟨(lr R a b).toNat, by omega⟩
  obtain ⟨c, ec⟩ : ∃ c : ℕ, lc R a b = (c : ℤ) := ⟨(lc R a b).toNat, by omega⟩
  have hr : r ≤ M R := by unfold M; omega
  have hc : c ≤ M C := by unfold M; omega
  have hpar : (r + c) % 2 = 0 := by
    have : (lr R a b + lc R a b) % 2 = 0 := by unfold lr lc; omega
    omega
  have hop := operatorAt_eq R C f ((r : ℤ), (c : ℤ))
  simp only at hop
  obtain ⟨cb1, cb2⟩ := comb_bits R C hR hC B' r c hr hc hpar
  unfold bareOf hcb
  rw [er, ec, hop, Symp.getD_xorV _ _ (hf.trans hcl.symm), Symp.getD_xorV _ _ (hf.trans hcl.symm),
    Symp.getD_xorComb_map _ _ _ _ (fun p _ => stabOp_length R C p),
    Symp.getD_xorComb_map _ _ _ _ (fun p _ => stabOp_length R C p), cb1, cb2]
  by_cases h2 : r % 2 = 0
  · rw [if_pos (by simp only [decide_eq_true_eq]; omega), if_pos h2, if_pos h2, hNodeValue_bits, xBit_ofBits,
      zBit_ofBits]
  · rw [if_neg (by simp only [decide_eq_true_eq]; omega), if_neg h2, if_neg h2]
    unfold vNodeValue
    rw [hNodeValue_bits, xBit_ofBits, zBit_ofBits]

open Qec.PlanarCode in
/-- **the rotated planar network contracts to the coset probability** (as `exactValue`, the literal index sum) -/
theorem exactValue_rmpsTn_eq_cosetProb (R C : Int) (d : Dist Int) (f : BVec) (hR : 2 ≤ R) (hC : 2 ≤ C)
    (hf : f.length = 2 * (Planar.nQubits R C).toNat) :
    exactValue (rmpsTn R C d f) = some (cosetProb d (Planar.stabilizers R C) f) := by
  rw [exactValue_rmpsTn R C d f hR hC]
  congr 1
  apply sumB_eq_span f.length (stars R C) (Planar.stabilizers R C) _ (Gval R C d f)
    (fun g => weight d (xorV f g)) (fun _ => 0)
  · intro β hβ
    exact Gval_assign R C d f hR hC hf β hβ
  · rw [stabilizers_eq_map]; unfold stars; simp

end Qec.PlanarRmpsFactor
