/-
  Helper lemmas for C08 (`Model/Distance.lean`): the spec `IsDistance`, the CSS split, correctness of the
  executable searches, certificate soundness against the span of the stabilizers.
-/
import QecVerif.Model.Distance
import QecVerif.Lemmas.GF2
import QecVerif.Lemmas.IPauli
import QecVerif.Props.C09
import Mathlib.Data.List.Perm.Subperm
import Mathlib.Data.List.Induction
import QecVerif.Lemmas.Lattice.Planar
namespace Qec.Distance
open Qec

/-! ### the specification -/

/-- `e` is a non-trivial logical operator of the code `(S, L)`: it commutes with every stabilizer generator
    and anticommutes with at least one of the supplied logical operators.  For a valid code
    (stabilizers of rank n−k, 2k logicals with the canonical commutation relations, C07/C20) this is
    equivalent to "`e` is in the normaliser of `S` but not in the span of `S`": the direction
    "anticommutes with a normaliser element ⇒ not in the span" is `cert_not_in_span` below; the converse
    (normaliser completeness) needs the dimension count `dim S^⊥ = 2n − rank S`. -/
def IsLogical (S L : List BVec) (e : BVec) : Prop :=
  commAll S e = true ∧ ∃ l ∈ L, bsp e l = true

/-- `d` is the minimum distance of the `n`-qubit code `(S, L)`: some non-trivial logical has weight `d`
    and none is lighter.  All operators are binary symplectic vectors of length `2 n`.

    For CSS codes (every generator and every logical X-type or Z-type) the minimum over all Paulis is
    attained on an X-only or a Z-only operator (`css_split`: the X-part or the Z-part of a non-trivial
    logical is itself a non-trivial logical of no larger weight), so a search over X-only and Z-only
    operators decides the lower bound (`no_light_logical_of_search`). -/
def IsDistance (n : Nat) (S L : List BVec) (d : Nat) : Prop :=
  (∃ e, e.length = 2 * n ∧ wt e = d ∧ IsLogical S L e) ∧
  ∀ e, e.length = 2 * n → IsLogical S L e → d ≤ wt e

theorem commAll_iff (S : List BVec) (e : BVec) : commAll S e = true ↔ ∀ s ∈ S, bsp e s = false := by
  simp [commAll]

theorem antiSome_iff (L : List BVec) (e : BVec) : antiSome L e = true ↔ ∃ l ∈ L, bsp e l = true := by
  simp [antiSome]

theorem isLogicalCert_iff (S L : List BVec) (e : BVec) : isLogicalCert S L e = true ↔ IsLogical S L e := by
  simp [isLogicalCert, IsLogical, antiSome_iff]

/-! ### zero vectors, one-type operators -/

theorem isZero_iff' (a : BVec) : isZero a = true ↔ ∀ b ∈ a, b = false := by
  simp [isZero]

theorem dot_isZero_right (a z : BVec) (h : isZero z = true) : dot a z = false := by
  induction a generalizing z with
  | nil => simp
  | cons x xs ih => cases z with
    | nil => simp
    | cons y ys =>
      have hy : y = false := (isZero_iff' _).mp h y (by simp)
      have hys : isZero ys = true := (isZero_iff' _).mpr fun b hb => (isZero_iff' _).mp h b (by simp [hb])
      simp [hy, ih ys hys]

theorem dot_isZero_left (z a : BVec) (h : isZero z = true) : dot z a = false := by
  rw [dot_comm]; exact dot_isZero_right a z h

@[simp] theorem isZero_zeros (n : Nat) : isZero (zeros n) = true := by
  simp [isZero, zeros]

@[simp] theorem zeros_length (n : Nat) : (zeros n).length = n := by simp [zeros]

theorem xOp_length (n : Nat) (a : BVec) (ha : a.length = n) : (xOp n a).length = 2 * n := by
  simp [xOp, ha]; omega
theorem zOp_length (n : Nat) (a : BVec) (ha : a.length = n) : (zOp n a).length = 2 * n := by
  simp [zOp, ha]; omega

theorem xHalf_xOp (n : Nat) (a : BVec) (ha : a.length = n) : xHalf (xOp n a) = a :=
  xHalf_append a (zeros n) (by simp [ha])
theorem zHalf_xOp (n : Nat) (a : BVec) (ha : a.length = n) : zHalf (xOp n a) = zeros n :=
  zHalf_append a (zeros n) (by simp [ha])
theorem xHalf_zOp (n : Nat) (a : BVec) (ha : a.length = n) : xHalf (zOp n a) = zeros n :=
  xHalf_append (zeros n) a (by simp [ha])
theorem zHalf_zOp (n : Nat) (a : BVec) (ha : a.length = n) : zHalf (zOp n a) = a :=
  zHalf_append (zeros n) a (by simp [ha])

theorem bsp_xOp (n : Nat) (a s : BVec) (ha : a.length = n) (hs : s.length = 2 * n) :
    bsp (xOp n a) s = dot a (zHalf s) := by
  rw [bsp_halves _ _ (by rw [xOp_length n a ha, hs]) (by rw [xOp_length n a ha]; omega),
    xHalf_xOp n a ha, zHalf_xOp n a ha, dot_isZero_left _ _ (isZero_zeros n)]
  simp

theorem bsp_zOp (n : Nat) (a s : BVec) (ha : a.length = n) (hs : s.length = 2 * n) :
    bsp (zOp n a) s = dot a (xHalf s) := by
  rw [bsp_halves _ _ (by rw [zOp_length n a ha, hs]) (by rw [zOp_length n a ha]; omega),
    xHalf_zOp n a ha, zHalf_zOp n a ha, dot_isZero_left _ _ (isZero_zeros n)]
  simp

/-! ### weights -/

theorem countP_zipWith_or_zeros (a : BVec) (n : Nat) (h : a.length = n) :
    (List.zipWith or a (zeros n)).countP id = a.countP id := by
  induction a generalizing n with
  | nil => simp
  | cons x xs ih =>
    cases n with
    | zero => simp at h
    | succ n =>
      have := ih n (by simpa using h)
      simp only [zeros] at this
      simp [zeros, List.replicate_succ, List.countP_cons, this]

theorem countP_zipWith_zeros_or (a : BVec) (n : Nat) (h : a.length = n) :
    (List.zipWith or (zeros n) a).countP id = a.countP id := by
  induction a generalizing n with
  | nil => simp
  | cons x xs ih =>
    cases n with
    | zero => simp at h
    | succ n =>
      have := ih n (by simpa using h)
      simp only [zeros] at this
      simp [zeros, List.replicate_succ, List.countP_cons, this]

theorem wt_xOp (n : Nat) (a : BVec) (ha : a.length = n) : wt (xOp n a) = count1 a := by
  unfold wt bsfWt
  rw [xHalf_xOp n a ha, zHalf_xOp n a ha]
  exact countP_zipWith_or_zeros a n ha

theorem wt_zOp (n : Nat) (a : BVec) (ha : a.length = n) : wt (zOp n a) = count1 a := by
  unfold wt bsfWt
  rw [xHalf_zOp n a ha, zHalf_zOp n a ha]
  exact countP_zipWith_zeros_or a n ha

theorem countP_le_zipWith_or_left (x z : BVec) (h : x.length = z.length) :
    x.countP id ≤ (List.zipWith or x z).countP id := by
  induction x generalizing z with
  | nil => simp
  | cons a xs ih =>
    cases z with
    | nil => simp at h
    | cons b zs =>
      have := ih zs (by simpa using h)
      cases a <;> cases b <;> simp <;> omega

theorem countP_le_zipWith_or_right (x z : BVec) (h : x.length = z.length) :
    z.countP id ≤ (List.zipWith or x z).countP id := by
  induction x generalizing z with
  | nil => cases z with
    | nil => simp
    | cons _ _ => simp at h
  | cons a xs ih =>
    cases z with
    | nil => simp
    | cons b zs =>
      have := ih zs (by simpa using h)
      cases a <;> cases b <;> simp <;> omega

/-! ### the CSS split -/

/-- the X-part of `e` as an operator on `n` qubits -/
def xPart (n : Nat) (e : BVec) : BVec := xOp n (xHalf e)
/-- the Z-part of `e` -/
def zPart (n : Nat) (e : BVec) : BVec := zOp n (zHalf e)

theorem xHalf_len (n : Nat) (e : BVec) (he : e.length = 2 * n) : (xHalf e).length = n := by
  rw [xHalf_length, he]; omega
theorem zHalf_len (n : Nat) (e : BVec) (he : e.length = 2 * n) : (zHalf e).length = n := by
  rw [zHalf_length, he]; omega

theorem wt_xPart_le (n : Nat) (e : BVec) (he : e.length = 2 * n) : wt (xPart n e) ≤ wt e := by
  rw [xPart, wt_xOp n _ (xHalf_len n e he)]
  exact countP_le_zipWith_or_left _ _ (by rw [xHalf_len n e he, zHalf_len n e he])

theorem wt_zPart_le (n : Nat) (e : BVec) (he : e.length = 2 * n) : wt (zPart n e) ≤ wt e := by
  rw [zPart, wt_zOp n _ (zHalf_len n e he)]
  exact countP_le_zipWith_or_right _ _ (by rw [xHalf_len n e he, zHalf_len n e he])

theorem bsp_split (n : Nat) (e s : BVec) (he : e.length = 2 * n) (hs : s.length = 2 * n) :
    bsp e s = xor (bsp (zPart n e) s) (bsp (xPart n e) s) := by
  rw [xPart, zPart, bsp_xOp n _ s (xHalf_len n e he) hs, bsp_zOp n _ s (zHalf_len n e he) hs,
    bsp_halves e s (by rw [he, hs]) (by rw [he]; omega)]

/-- against an X-type row only the Z-part matters -/
theorem bsp_xtype (n : Nat) (e s : BVec) (he : e.length = 2 * n) (hs : s.length = 2 * n)
    (hx : isXOnly s = true) : bsp (xPart n e) s = false ∧ bsp (zPart n e) s = bsp e s := by
  have h1 : bsp (xPart n e) s = false := by
    rw [xPart, bsp_xOp n _ s (xHalf_len n e he) hs]; exact dot_isZero_right _ _ hx
  refine ⟨h1, ?_⟩
  rw [bsp_split n e s he hs, h1]; simp

/-- against a Z-type row only the X-part matters -/
theorem bsp_ztype (n : Nat) (e s : BVec) (he : e.length = 2 * n) (hs : s.length = 2 * n)
    (hz : isZOnly s = true) : bsp (zPart n e) s = false ∧ bsp (xPart n e) s = bsp e s := by
  have h1 : bsp (zPart n e) s = false := by
    rw [zPart, bsp_zOp n _ s (zHalf_len n e he) hs]; exact dot_isZero_right _ _ hz
  refine ⟨h1, ?_⟩
  rw [bsp_split n e s he hs, h1]; simp

theorem isCSS_iff (n : Nat) (M : List BVec) :
    isCSS n M = true ↔ ∀ s ∈ M, s.length = 2 * n ∧ (isXOnly s = true ∨ isZOnly s = true) := by
  simp [isCSS]

theorem isXOnly_xPart (n : Nat) (e : BVec) (he : e.length = 2 * n) : isXOnly (xPart n e) = true := by
  rw [isXOnly, xPart, zHalf_xOp n _ (xHalf_len n e he)]; simp
theorem isZOnly_zPart (n : Nat) (e : BVec) (he : e.length = 2 * n) : isZOnly (zPart n e) = true := by
  rw [isZOnly, zPart, xHalf_zOp n _ (zHalf_len n e he)]; simp

/-- **CSS split**: if every stabilizer generator and every logical is X-type or Z-type, then for any
    non-trivial logical `e` its X-part or its Z-part alone is a non-trivial logical, of weight ≤ `wt e`. -/
theorem css_split_lemma (n : Nat) (S L : List BVec) (e : BVec) (hS : isCSS n S = true) (hL : isCSS n L = true)
    (he : e.length = 2 * n) (h : IsLogical S L e) :
    (IsLogical S L (xPart n e) ∧ wt (xPart n e) ≤ wt e) ∨ (IsLogical S L (zPart n e) ∧ wt (zPart n e) ≤ wt e) := by
  obtain ⟨hc, l, hl, hal⟩ := h
  rw [commAll_iff] at hc
  have hcx : commAll S (xPart n e) = true := by
    rw [commAll_iff]; intro s hs
    obtain ⟨hlen, ht⟩ := (isCSS_iff n S).mp hS s hs
    rcases ht with hx | hz
    · exact (bsp_xtype n e s he hlen hx).1
    · rw [(bsp_ztype n e s he hlen hz).2]; exact hc s hs
  have hcz : commAll S (zPart n e) = true := by
    rw [commAll_iff]; intro s hs
    obtain ⟨hlen, ht⟩ := (isCSS_iff n S).mp hS s hs
    rcases ht with hx | hz
    · rw [(bsp_xtype n e s he hlen hx).2]; exact hc s hs
    · exact (bsp_ztype n e s he hlen hz).1
  obtain ⟨hlen, ht⟩ := (isCSS_iff n L).mp hL l hl
  rcases ht with hx | hz
  · right
    exact ⟨⟨hcz, l, hl, by rw [(bsp_xtype n e l he hlen hx).2]; exact hal⟩, wt_zPart_le n e he⟩
  · left
    exact ⟨⟨hcx, l, hl, by rw [(bsp_ztype n e l he hlen hz).2]; exact hal⟩, wt_xPart_le n e he⟩

/-! ### combinations -/

theorem findComb_eq {α β} (p : List α → Option β) (xs : List α) (k : Nat) :
    findComb p xs k = (combinations xs k).findSome? p := by
  induction xs generalizing k p with
  | nil => cases k <;> simp [findComb, combinations]
  | cons x xs ih =>
    cases k with
    | zero => simp [findComb, combinations]
    | succ k =>
      simp only [findComb, combinations, List.findSome?_append, List.findSome?_map]
      rw [ih, ih]
      cases h : List.findSome? (fun c => p (x :: c)) (combinations xs k) <;> simp [Function.comp_def, h]

theorem mem_combinations_of_sublist {α} {l xs : List α} (h : l.Sublist xs) :
    l ∈ combinations xs l.length := by
  induction h with
  | slnil => simp [combinations]
  | @cons l xs x _ ih =>
    cases l with
    | nil => simp [combinations]
    | cons a l => simp only [List.length_cons, combinations, List.mem_append]; right; simpa using ih
  | @cons_cons l xs x _ ih =>
    simp only [List.length_cons, combinations, List.mem_append, List.mem_map]
    left; exact ⟨l, ih, rfl⟩

theorem sublist_of_mem_combinations {α} {c xs : List α} {k : Nat} (h : c ∈ combinations xs k) :
    c.Sublist xs ∧ c.length = k := by
  induction xs generalizing k c with
  | nil => cases k with
    | zero => simp [combinations] at h; subst h; simp
    | succ k => simp [combinations] at h
  | cons x xs ih =>
    cases k with
    | zero => simp [combinations] at h; subst h; simp
    | succ k =>
      simp only [combinations, List.mem_append, List.mem_map] at h
      rcases h with ⟨c', hc', rfl⟩ | h
      · obtain ⟨h1, h2⟩ := ih hc'
        exact ⟨h1.cons_cons x, by simp [h2]⟩
      · obtain ⟨h1, h2⟩ := ih h
        exact ⟨h1.cons x, h2⟩

/-! ### indicator vectors -/

theorem ind_length (n : Nat) (qs : List Nat) : (ind n qs).length = n := by simp [ind]

/-- the support of a vector of length `n` -/
def supp (a : BVec) : List Nat := (List.range a.length).filter fun i => a.getD i false

theorem ind_supp (a : BVec) : ind a.length (supp a) = a := by
  apply List.ext_getElem
  · simp [ind]
  · intro i h1 h2
    simp only [ind, supp, List.getElem_map, List.getElem_range, List.contains_eq_mem, List.mem_filter,
      List.mem_range]
    have hi : i < a.length := h2
    simp [hi, List.getD_eq_getElem?_getD]

theorem supp_length (a : BVec) : (supp a).length = count1 a := by
  unfold supp count1
  rw [← List.countP_eq_length_filter]
  induction a using List.reverseRecOn with
  | nil => simp
  | append_singleton xs x ih =>
    rw [List.length_append, List.length_singleton, List.range_succ, List.countP_append, List.countP_append]
    have h1 : List.countP (fun i => (xs ++ [x]).getD i false) (List.range xs.length) =
        List.countP (fun i => xs.getD i false) (List.range xs.length) := by
      apply List.countP_congr
      intro i hi
      have hi' : i < xs.length := List.mem_range.mp hi
      simp [List.getD_eq_getElem?_getD, List.getElem?_append_left hi']
    rw [h1, ih]
    simp [List.getD_eq_getElem?_getD]

theorem supp_sublist (a : BVec) : (supp a).Sublist (List.range a.length) := List.filter_sublist

theorem count1_ind_le (n : Nat) (qs : List Nat) : count1 (ind n qs) ≤ qs.length := by
  unfold count1 ind
  rw [List.countP_map]
  have : List.countP (id ∘ fun i => qs.contains i) (List.range n) =
      ((List.range n).filter fun i => qs.contains i).length := by
    rw [List.countP_eq_length_filter]; rfl
  rw [this]
  apply List.Subperm.length_le
  apply List.subperm_of_subset
  · exact (List.nodup_range).filter _
  · intro i hi
    simp only [List.mem_filter, List.contains_eq_mem, decide_eq_true_eq] at hi
    exact hi.2

/-! ### the fast half-certificates -/

theorem all_congr_mem {α} (l : List α) (f g : α → Bool) (h : ∀ x ∈ l, f x = g x) : l.all f = l.all g := by
  induction l with
  | nil => rfl
  | cons x xs ih =>
    simp only [List.all_cons]
    rw [h x (by simp), ih fun y hy => h y (by simp [hy])]

theorem any_congr_mem {α} (l : List α) (f g : α → Bool) (h : ∀ x ∈ l, f x = g x) : l.any f = l.any g := by
  induction l with
  | nil => rfl
  | cons x xs ih =>
    simp only [List.any_cons]
    rw [h x (by simp), ih fun y hy => h y (by simp [hy])]

theorem all_nzHalves (h : BVec → BVec) (S : List BVec) (a : BVec) :
    ((nzHalves h S).all fun s => !dot a s) = S.all fun s => !dot a (h s) := by
  unfold nzHalves
  rw [List.all_filter, List.all_map]
  apply all_congr_mem
  intro s _
  simp only [Function.comp]
  cases hz : isZero (h s)
  · simp
  · simp [dot_isZero_right a _ hz]

theorem halfCert_x (n : Nat) (S L : List BVec) (a : BVec) (ha : a.length = n)
    (hS : ∀ s ∈ S, s.length = 2 * n) (hL : ∀ l ∈ L, l.length = 2 * n) :
    halfCert (nzHalves zHalf S) (L.map zHalf) a = isLogicalCert S L (xOp n a) := by
  unfold halfCert isLogicalCert commAll antiSome
  rw [all_nzHalves, List.any_map]
  congr 1
  · apply all_congr_mem; intro s hs; rw [bsp_xOp n a s ha (hS s hs)]
  · apply any_congr_mem; intro l hl; simp [bsp_xOp n a l ha (hL l hl)]

theorem halfCert_z (n : Nat) (S L : List BVec) (a : BVec) (ha : a.length = n)
    (hS : ∀ s ∈ S, s.length = 2 * n) (hL : ∀ l ∈ L, l.length = 2 * n) :
    halfCert (nzHalves xHalf S) (L.map xHalf) a = isLogicalCert S L (zOp n a) := by
  unfold halfCert isLogicalCert commAll antiSome
  rw [all_nzHalves, List.any_map]
  congr 1
  · apply all_congr_mem; intro s hs; rw [bsp_zOp n a s ha (hS s hs)]
  · apply any_congr_mem; intro l hl; simp [bsp_zOp n a l ha (hL l hl)]

/-! ### correctness of the CSS-split search -/

section search
variable (n : Nat) (S L : List BVec)

theorem testSubset_some (qs : List Nat) (e : BVec)
    (hS : ∀ s ∈ S, s.length = 2 * n) (hL : ∀ l ∈ L, l.length = 2 * n)
    (h : testSubset n (nzHalves zHalf S) (L.map zHalf) (nzHalves xHalf S) (L.map xHalf) qs = some e) :
    (e = xOp n (ind n qs) ∨ e = zOp n (ind n qs)) ∧ isLogicalCert S L e = true := by
  unfold testSubset at h
  simp only at h
  rw [halfCert_x n S L _ (ind_length n qs) hS hL, halfCert_z n S L _ (ind_length n qs) hS hL] at h
  split at h
  · rename_i h1
    cases h; exact ⟨Or.inl rfl, h1⟩
  · split at h
    · rename_i h2
      cases h; exact ⟨Or.inr rfl, h2⟩
    · cases h

theorem testSubset_none (qs : List Nat)
    (hS : ∀ s ∈ S, s.length = 2 * n) (hL : ∀ l ∈ L, l.length = 2 * n)
    (h : testSubset n (nzHalves zHalf S) (L.map zHalf) (nzHalves xHalf S) (L.map xHalf) qs = none) :
    isLogicalCert S L (xOp n (ind n qs)) = false ∧ isLogicalCert S L (zOp n (ind n qs)) = false := by
  unfold testSubset at h
  simp only at h
  rw [halfCert_x n S L _ (ind_length n qs) hS hL, halfCert_z n S L _ (ind_length n qs) hS hL] at h
  split at h
  · cases h
  · split at h
    · cases h
    · rename_i h1 h2
      exact ⟨by simpa using h1, by simpa using h2⟩

theorem isXOnly_xOp (a : BVec) (ha : a.length = n) : isXOnly (xOp n a) = true := by
  rw [isXOnly, zHalf_xOp n a ha]; simp
theorem isZOnly_zOp (a : BVec) (ha : a.length = n) : isZOnly (zOp n a) = true := by
  rw [isZOnly, xHalf_zOp n a ha]; simp

theorem findAtWeight_some (w : Nat) (e : BVec)
    (hS : ∀ s ∈ S, s.length = 2 * n) (hL : ∀ l ∈ L, l.length = 2 * n)
    (h : findAtWeight n S L w = some e) :
    e.length = 2 * n ∧ wt e ≤ w ∧ isLogicalCert S L e = true ∧ (isXOnly e = true ∨ isZOnly e = true) := by
  unfold findAtWeight at h
  rw [findComb_eq] at h
  obtain ⟨qs, hqs, ht⟩ := List.exists_of_findSome?_eq_some h
  obtain ⟨_, hlen⟩ := sublist_of_mem_combinations hqs
  obtain ⟨hform, hcert⟩ := testSubset_some n S L qs e hS hL ht
  have hc := count1_ind_le n qs
  rcases hform with rfl | rfl
  · exact ⟨xOp_length n _ (ind_length n qs), by rw [wt_xOp n _ (ind_length n qs)]; omega, hcert,
      Or.inl (isXOnly_xOp n _ (ind_length n qs))⟩
  · exact ⟨zOp_length n _ (ind_length n qs), by rw [wt_zOp n _ (ind_length n qs)]; omega, hcert,
      Or.inr (isZOnly_zOp n _ (ind_length n qs))⟩

theorem findAtWeight_none (w : Nat)
    (hS : ∀ s ∈ S, s.length = 2 * n) (hL : ∀ l ∈ L, l.length = 2 * n)
    (h : findAtWeight n S L w = none) (a : BVec) (ha : a.length = n) (hw : count1 a = w) :
    isLogicalCert S L (xOp n a) = false ∧ isLogicalCert S L (zOp n a) = false := by
  unfold findAtWeight at h
  rw [findComb_eq, List.findSome?_eq_none_iff] at h
  have hmem : supp a ∈ combinations (List.range n) w := by
    have := mem_combinations_of_sublist (supp_sublist a)
    rwa [supp_length, hw, ha] at this
  have := testSubset_none n S L (supp a) hS hL (h _ hmem)
  rwa [← ha, ind_supp, ha] at this

theorem eq_zeros_of_isZero (z : BVec) (h : isZero z = true) : z = zeros z.length := by
  induction z with
  | nil => rfl
  | cons x xs ih =>
    have hx : x = false := (isZero_iff' _).mp h x (by simp)
    have hxs : isZero xs = true := (isZero_iff' _).mpr fun b hb => (isZero_iff' _).mp h b (by simp [hb])
    have := ih hxs
    simp only [zeros] at this ⊢
    rw [List.length_cons, List.replicate_succ, ← this, hx]

theorem eq_xOp_of_isXOnly (e : BVec) (he : e.length = 2 * n) (h : isXOnly e = true) : e = xOp n (xHalf e) := by
  have hz := eq_zeros_of_isZero _ h
  rw [zHalf_len n e he] at hz
  conv => lhs; rw [← half_append e, hz]
  rfl

theorem eq_zOp_of_isZOnly (e : BVec) (he : e.length = 2 * n) (h : isZOnly e = true) : e = zOp n (zHalf e) := by
  have hz := eq_zeros_of_isZero _ h
  rw [xHalf_len n e he] at hz
  conv => lhs; rw [← half_append e, hz]
  rfl

theorem lightLogical_some (d : Nat) (e : BVec)
    (hS : ∀ s ∈ S, s.length = 2 * n) (hL : ∀ l ∈ L, l.length = 2 * n)
    (h : lightLogical? n S L d = some e) :
    e.length = 2 * n ∧ wt e < d ∧ IsLogical S L e ∧ (isXOnly e = true ∨ isZOnly e = true) := by
  unfold lightLogical? at h
  obtain ⟨w, hw, hf⟩ := List.exists_of_findSome?_eq_some h
  obtain ⟨h1, h2, h3, h4⟩ := findAtWeight_some n S L w e hS hL hf
  have := List.mem_range.mp hw
  exact ⟨h1, by omega, (isLogicalCert_iff S L e).mp h3, h4⟩

theorem lightLogical_none (d : Nat)
    (hS : ∀ s ∈ S, s.length = 2 * n) (hL : ∀ l ∈ L, l.length = 2 * n)
    (h : lightLogical? n S L d = none) (e : BVec) (he : e.length = 2 * n)
    (ht : isXOnly e = true ∨ isZOnly e = true) (hw : wt e < d) : ¬ IsLogical S L e := by
  unfold lightLogical? at h
  rw [List.findSome?_eq_none_iff] at h
  rw [← isLogicalCert_iff]
  rcases ht with hx | hz
  · have hform := eq_xOp_of_isXOnly n e he hx
    have hwt : wt e = count1 (xHalf e) := by
      conv => lhs; rw [hform]
      exact wt_xOp n _ (xHalf_len n e he)
    have := (findAtWeight_none n S L (wt e) hS hL (h _ (List.mem_range.mpr hw)) (xHalf e) (xHalf_len n e he)
      hwt.symm).1
    rw [← hform] at this
    simp [this]
  · have hform := eq_zOp_of_isZOnly n e he hz
    have hwt : wt e = count1 (zHalf e) := by
      conv => lhs; rw [hform]
      exact wt_zOp n _ (zHalf_len n e he)
    have := (findAtWeight_none n S L (wt e) hS hL (h _ (List.mem_range.mpr hw)) (zHalf e) (zHalf_len n e he)
      hwt.symm).2
    rw [← hform] at this
    simp [this]

theorem isCSS_len (M : List BVec) (h : isCSS n M = true) : ∀ s ∈ M, s.length = 2 * n :=
  fun s hs => ((isCSS_iff n M).mp h s hs).1

theorem no_light_logical_of_search_lemma (d : Nat) (hS : isCSS n S = true) (hL : isCSS n L = true)
    (h : lightLogical? n S L d = none) (e : BVec) (he : e.length = 2 * n) (hl : IsLogical S L e) :
    d ≤ wt e := by
  by_contra hlt
  have hlt : wt e < d := by omega
  have hSl := isCSS_len n S hS
  have hLl := isCSS_len n L hL
  rcases css_split_lemma n S L e hS hL he hl with ⟨hx, hwx⟩ | ⟨hz, hwz⟩
  · exact lightLogical_none n S L d hSl hLl h (xPart n e) (xOp_length n _ (xHalf_len n e he))
      (Or.inl (isXOnly_xPart n e he)) (by omega) hx
  · exact lightLogical_none n S L d hSl hLl h (zPart n e) (zOp_length n _ (zHalf_len n e he))
      (Or.inr (isZOnly_zPart n e he)) (by omega) hz

theorem find?_range_some (p : Nat → Bool) (m d : Nat) (h : (List.range m).find? p = some d) :
    p d = true ∧ d < m ∧ ∀ w, w < d → p w = false := by
  induction m with
  | zero => simp at h
  | succ m ih =>
    rw [List.range_succ, List.find?_append] at h
    cases hf : (List.range m).find? p with
    | some x =>
      rw [hf] at h
      simp only [Option.some_or] at h
      cases h
      obtain ⟨h1, h2, h3⟩ := ih hf
      exact ⟨h1, by omega, h3⟩
    | none =>
      rw [hf] at h
      simp only [Option.none_or, List.find?_singleton] at h
      split at h
      · rename_i hp
        cases h
        refine ⟨hp, by omega, fun w hw => ?_⟩
        have := List.find?_eq_none.mp hf w (List.mem_range.mpr hw)
        simpa using this
      · cases h

/-- the verified least-weight computation yields the distance of a CSS code -/
theorem distUpTo_isDistance_lemma (m d : Nat) (hS : isCSS n S = true) (hL : isCSS n L = true)
    (h : distUpTo n S L m = some d) : IsDistance n S L d := by
  unfold distUpTo at h
  obtain ⟨hd, _, hbelow⟩ := find?_range_some _ _ _ h
  have hSl := isCSS_len n S hS
  have hLl := isCSS_len n L hL
  have hnone : lightLogical? n S L d = none := by
    unfold lightLogical?
    rw [List.findSome?_eq_none_iff]
    intro w hw
    have := hbelow w (List.mem_range.mp hw)
    simpa using this
  have hlow := no_light_logical_of_search_lemma n S L d hS hL hnone
  obtain ⟨e, he⟩ := Option.isSome_iff_exists.mp hd
  obtain ⟨h1, h2, h3, _⟩ := findAtWeight_some n S L d e hSl hLl he
  have hlog := (isLogicalCert_iff S L e).mp h3
  have := hlow e h1 hlog
  exact ⟨⟨e, h1, by omega, hlog⟩, hlow⟩

/-- executable check: CSS hypotheses hold and the verified least logical weight is exactly `d` -/
def checkDist (d : Nat) : Bool :=
  isCSS n S && isCSS n L && (distUpTo n S L d == some d)

theorem checkDist_sound (d : Nat) (h : checkDist n S L d = true) : IsDistance n S L d := by
  simp only [checkDist, Bool.and_eq_true, beq_iff_eq] at h
  exact distUpTo_isDistance_lemma n S L d d h.1.1 h.1.2 h.2

end search

/-! ### correctness of the all-Pauli search -/

section anysearch
variable (n : Nat) (S L : List BVec)

theorem bvec_as_pauli (e : BVec) (he : e.length = 2 * n) :
    toBsf (ofBsf e) = e ∧ (ofBsf e).length = n ∧ pauliWt (ofBsf e) = wt e := by
  have h1 : toBsf (ofBsf e) = e := C09.toBsf_ofBsf e (by omega)
  have h2 := C09.toBsf_length (ofBsf e)
  rw [h1, he] at h2
  refine ⟨h1, by omega, ?_⟩
  rw [← C09.bsfWt_toBsf, h1]; rfl

theorem anyAtWeight_none (w : Nat)
    (h : ((paulisOfWeight n w).map toBsf).find? (isLogicalCert S L) = none)
    (e : BVec) (he : e.length = 2 * n) (hw : wt e = w) : isLogicalCert S L e = false := by
  obtain ⟨h1, h2, h3⟩ := bvec_as_pauli n e he
  have hmem : e ∈ (paulisOfWeight n w).map toBsf := by
    rw [List.mem_map]
    exact ⟨ofBsf e, (mem_paulisOfWeight n w _).mpr ⟨h2, by omega⟩, h1⟩
  have := List.find?_eq_none.mp h e hmem
  simpa using this

theorem anyAtWeight_mem (w : Nat) (e : BVec) (h : e ∈ (paulisOfWeight n w).map toBsf) :
    e.length = 2 * n ∧ wt e = w := by
  rw [List.mem_map] at h
  obtain ⟨p, hp, rfl⟩ := h
  obtain ⟨h1, h2⟩ := (mem_paulisOfWeight n w p).mp hp
  exact ⟨by rw [C09.toBsf_length, h1], by unfold wt; rw [C09.bsfWt_toBsf, h2]⟩

theorem lightLogicalAny_some (d : Nat) (e : BVec) (h : lightLogicalAny? n S L d = some e) :
    e.length = 2 * n ∧ wt e < d ∧ IsLogical S L e := by
  unfold lightLogicalAny? at h
  obtain ⟨w, hw, hf⟩ := List.exists_of_findSome?_eq_some h
  have hmem := List.mem_of_find?_eq_some hf
  have hp := List.find?_some hf
  obtain ⟨h1, h2⟩ := anyAtWeight_mem n w e hmem
  have := List.mem_range.mp hw
  exact ⟨h1, by omega, (isLogicalCert_iff S L e).mp hp⟩

theorem lightLogicalAny_none (d : Nat) (h : lightLogicalAny? n S L d = none)
    (e : BVec) (he : e.length = 2 * n) (hl : IsLogical S L e) : d ≤ wt e := by
  by_contra hlt
  have hlt : wt e < d := by omega
  unfold lightLogicalAny? at h
  rw [List.findSome?_eq_none_iff] at h
  have := anyAtWeight_none n S L (wt e) (h _ (List.mem_range.mpr hlt)) e he rfl
  rw [(isLogicalCert_iff S L e).mpr hl] at this
  cases this

theorem distUpToAny_isDistance_lemma (m d : Nat) (h : distUpToAny n S L m = some d) : IsDistance n S L d := by
  unfold distUpToAny at h
  obtain ⟨hd, _, hbelow⟩ := find?_range_some _ _ _ h
  have hnone : lightLogicalAny? n S L d = none := by
    unfold lightLogicalAny?
    rw [List.findSome?_eq_none_iff]
    intro w hw
    have := hbelow w (List.mem_range.mp hw)
    rw [List.find?_eq_none]
    intro x hx
    rw [List.any_eq_false] at this
    exact this x hx
  have hlow := lightLogicalAny_none n S L d hnone
  rw [List.any_eq_true] at hd
  obtain ⟨e, hmem, hcert⟩ := hd
  obtain ⟨h1, h2⟩ := anyAtWeight_mem n d e hmem
  exact ⟨⟨e, h1, h2, (isLogicalCert_iff S L e).mp hcert⟩, hlow⟩

end anysearch

/-! ### the certificate against the TRUE notion "not a product of stabilizers" -/

/-- `v` is a product of stabilizer generators (an element of the GF(2) span of the rows of `S`) -/
inductive InSpan (n : Nat) (S : List BVec) : BVec → Prop
  | zero : InSpan n S (zeros (2 * n))
  | add (s v : BVec) : s ∈ S → InSpan n S v → InSpan n S (xorV s v)

theorem bsp_zeros_left (n : Nat) (l : BVec) (hl : l.length = 2 * n) : bsp (zeros (2 * n)) l = false := by
  rw [bsp_halves _ _ (by simp [hl]) (by simp)]
  have h1 : isZero (zHalf (zeros (2 * n))) = true := by simp [isZero, zHalf, zeros]
  have h2 : isZero (xHalf (zeros (2 * n))) = true := by
    simp only [isZero, xHalf, zeros, List.all_eq_true]
    intro b hb
    have := List.mem_of_mem_take hb
    simp at this
    simp [this.2]
  rw [dot_isZero_left _ _ h1, dot_isZero_left _ _ h2]; rfl

/-- an operator that anticommutes with an element `l` of the normaliser of `S` is not a product of
    stabilizers (the sound half of normaliser completeness; core Lean, no dimension theory) -/
theorem cert_not_in_span_lemma (n : Nat) (S : List BVec) (e l : BVec) (hS : ∀ s ∈ S, s.length = 2 * n)
    (hl : l.length = 2 * n) (hcl : commAll S l = true) (h : bsp e l = true) : ¬ InSpan n S e := by
  intro hs
  have key : ∀ v, InSpan n S v → v.length = 2 * n ∧ bsp v l = false := by
    intro v hv
    induction hv with
    | zero => exact ⟨by simp, bsp_zeros_left n l hl⟩
    | add s v hs _ ih =>
      obtain ⟨ihl, ihb⟩ := ih
      have hsl := hS s hs
      refine ⟨by rw [xorV_length s v (by rw [hsl, ihl]), hsl], ?_⟩
      rw [C09.bsp_add_left s v l (by rw [hsl, ihl]) (by rw [hsl, hl]) (by rw [hsl]; omega), ihb,
        C09.bsp_symm s l (by rw [hsl, hl]) (by rw [hsl]; omega), (commAll_iff S l).mp hcl s hs]
      rfl
  have := (key e hs).2
  rw [h] at this
  cases this

/-- the distance in the property's own words: minimum weight of an operator that commutes with all of `S`
    and is not a product of stabilizers -/
def IsDistanceSpan (n : Nat) (S : List BVec) (d : Nat) : Prop :=
  (∃ e, e.length = 2 * n ∧ wt e = d ∧ commAll S e = true ∧ ¬ InSpan n S e) ∧
  ∀ e, e.length = 2 * n → commAll S e = true → ¬ InSpan n S e → d ≤ wt e

/-- normaliser completeness (F6(b)): whatever commutes with all stabilizers and all logicals is a product of
    stabilizers.  For a code with `rank S = n − k` and `2k` canonically paired logicals this follows from
    `dim S^⊥ = 2n − rank S`; it is used as a HYPOTHESIS here (C07 supplies rank and pairing). -/
def NormaliserComplete (n : Nat) (S L : List BVec) : Prop :=
  ∀ e, e.length = 2 * n → commAll S e = true → (∀ l ∈ L, bsp e l = false) → InSpan n S e

/-! ### a weight lower bound from pairwise disjoint supports (used by the all-sizes distance lower bounds) -/

/-- qubit `f` of the `n`-qubit operator `e` carries a non-identity Pauli -/
def actsOn (n : Nat) (e : BVec) (f : Nat) : Bool := e.getD f false || e.getD (n + f) false

/-- `wt e` is the number of qubits on which `e` acts -/
theorem wt_eq_countP (n : Nat) (e : BVec) (he : e.length = 2 * n) :
    wt e = (List.range n).countP (actsOn n e) :=
  Qec.Planar.bsfWt_eq_countP e n he

/-- a duplicate-free list of qubits on each of which `e` acts is no longer than `wt e` -/
theorem length_le_wt (n : Nat) (e : BVec) (he : e.length = 2 * n) (l : List Nat) (hnd : l.Nodup)
    (hl : ∀ f ∈ l, f < n ∧ actsOn n e f = true) : l.length ≤ wt e := by
  rw [wt_eq_countP n e he, List.countP_eq_length_filter]
  apply List.Subperm.length_le
  apply List.subperm_of_subset hnd
  intro f hf
  obtain ⟨h1, h2⟩ := hl f hf
  exact List.mem_filter.mpr ⟨List.mem_range.mpr h1, h2⟩

/-- **disjoint supports bound**: if `P 0, …, P (m-1)` are pairwise disjoint sets of qubits (`P j f`: qubit `f`
    belongs to set `j`) and `e` acts on some qubit of each of them (its X or its Z bit is set there), then
    `m ≤ wt e` -/
theorem wt_ge_of_disjoint (n : Nat) (e : BVec) (he : e.length = 2 * n) (m : Nat) (P : Nat → Nat → Prop)
    (hdisj : ∀ j j' f, P j f → P j' f → j = j')
    (hex : ∀ j, j < m → ∃ f, f < n ∧ P j f ∧ actsOn n e f = true) : m ≤ wt e := by
  have key : ∀ k, k ≤ m → ∃ l : List Nat, l.Nodup ∧ l.length = k ∧
      ∀ f ∈ l, (f < n ∧ actsOn n e f = true) ∧ ∃ j, j < k ∧ P j f := by
    intro k
    induction k with
    | zero => intro _; exact ⟨[], List.nodup_nil, rfl, by simp⟩
    | succ k ih =>
      intro hk
      obtain ⟨l, hnd, hlen, hl⟩ := ih (by omega)
      obtain ⟨f, hf, hP, hb⟩ := hex k (by omega)
      refine ⟨f :: l, List.nodup_cons.mpr ⟨?_, hnd⟩, by simp [hlen], ?_⟩
      · intro hmem
        obtain ⟨_, j, hj, hPj⟩ := hl f hmem
        have := hdisj j k f hPj hP
        omega
      · intro g hg
        rcases List.mem_cons.mp hg with rfl | hg
        · exact ⟨⟨hf, hb⟩, k, by omega, hP⟩
        · obtain ⟨h1, j, hj, hPj⟩ := hl g hg
          exact ⟨h1, j, by omega, hPj⟩
  obtain ⟨l, hnd, hlen, hl⟩ := key m (Nat.le_refl m)
  rw [← hlen]
  exact length_le_wt n e he l hnd fun f hf => (hl f hf).1

end Qec.Distance
