/-
  C08, all-sizes lower bounds — the generic part of the "disjoint translates" argument.

  For a lattice code, let `β j i` be the bit of `e` (its Z bit for an X-type logical, its X bit for a Z-type
  logical) on item `i` of translate `j` of a logical operator.  Commutation of `e` with the stabilizer generators
  between two neighbouring translates makes the parities of `β j ·` and `β (j+1) ·` equal (`strip_parity`:
  the generators of one strip telescope), so if `e` anticommutes with one translate it has a set bit on every
  one of the `m` translates (`wt_ge_of_grid`); the translates being pairwise disjoint, `m ≤ wt e`.
-/
import QecVerif.Lemmas.Distance
import QecVerif.Lemmas.Symplectic
namespace Qec.DistLower
open Qec Qec.Symp Qec.Distance

theorem xorSum_xor {α : Type} (l : List α) (f g : α → Bool) :
    xorSum l (fun x => f x ^^ g x) = (xorSum l f ^^ xorSum l g) := by
  induction l with
  | nil => rfl
  | cons x l ih =>
    simp only [xorSum_cons, ih]
    cases f x <;> cases g x <;> cases xorSum l f <;> cases xorSum l g <;> rfl

theorem xorSum_range_telescope (h : Nat → Bool) (k : Nat) :
    xorSum (List.range k) (fun i => h i ^^ h (i + 1)) = (h 0 ^^ h k) := by
  induction k with
  | zero => simp
  | succ k ih =>
    rw [List.range_succ, xorSum_append, ih]
    simp only [xorSum_cons, xorSum_nil, Bool.xor_false]
    cases h 0 <;> cases h k <;> cases h (k + 1) <;> rfl

theorem exists_of_xorSum_true {α : Type} (l : List α) (f : α → Bool) (h : xorSum l f = true) :
    ∃ x ∈ l, f x = true := by
  induction l with
  | nil => simp at h
  | cons x l ih =>
    rw [xorSum_cons] at h
    by_cases hx : f x = true
    · exact ⟨x, List.mem_cons_self, hx⟩
    · have hx' : f x = false := by simpa using hx
      rw [hx', Bool.false_xor] at h
      obtain ⟨y, hy, hfy⟩ := ih h
      exact ⟨y, List.mem_cons_of_mem _ hy, hfy⟩

/-- **one strip of generators telescopes**: if for every `i < k` the two "rail" bits `a i`, `a' i` and the two
    "rung" bits `h i`, `h (i+1)` of generator `i` have even parity and the two end rungs agree (both outside
    the lattice, or identified by periodicity), the two rails have the same parity -/
theorem strip_parity (k : Nat) (a a' h : Nat → Bool)
    (hc : ∀ i, i < k → (a i ^^ a' i) = (h i ^^ h (i + 1))) (hends : h 0 = h k) :
    xorSum (List.range k) a = xorSum (List.range k) a' := by
  have h1 : xorSum (List.range k) (fun i => a i ^^ a' i) = false := by
    rw [xorSum_congr _ _ (fun i => h i ^^ h (i + 1)) (fun i hi => hc i (List.mem_range.mp hi)),
      xorSum_range_telescope, hends]
    simp
  rw [xorSum_xor] at h1
  revert h1
  cases xorSum (List.range k) a <;> cases xorSum (List.range k) a' <;> simp

theorem const_of_step (m : Nat) (g : Nat → Bool) (h : ∀ j, j + 1 < m → g j = g (j + 1)) :
    ∀ j j', j < m → j' < m → g j = g j' := by
  have h0 : ∀ j, j < m → g j = g 0 := by
    intro j
    induction j with
    | zero => intro _; rfl
    | succ j ih => intro hj; rw [← h j hj]; exact ih (by omega)
  intro j j' hj hj'
  rw [h0 j hj, h0 j' hj']

/-- **grid bound**: `m` translates with `k` items each; item `i` of translate `j` is qubit `F j i`, `β j i` is
    a bit of `e` there (`hbit`); distinct translates are disjoint (`hinj`); neighbouring translates have equal
    parity (`hstep`, from `strip_parity`); one translate has odd parity (`hodd`: `e` anticommutes with the
    logical operator).  Then `m ≤ wt e`. -/
theorem wt_ge_of_grid (n : Nat) (e : BVec) (he : e.length = 2 * n) (m k : Nat) (F : Nat → Nat → Nat)
    (β : Nat → Nat → Bool)
    (hbit : ∀ j i, j < m → i < k → β j i = true → F j i < n ∧ actsOn n e (F j i) = true)
    (hinj : ∀ j i j' i', j < m → i < k → j' < m → i' < k → F j i = F j' i' → j = j')
    (hstep : ∀ j, j + 1 < m → xorSum (List.range k) (β j) = xorSum (List.range k) (β (j + 1)))
    (hodd : ∃ j, j < m ∧ xorSum (List.range k) (β j) = true) : m ≤ wt e := by
  obtain ⟨j0, hj0, hj0odd⟩ := hodd
  have hall : ∀ j, j < m → xorSum (List.range k) (β j) = true := fun j hj => by
    rw [const_of_step m (fun j => xorSum (List.range k) (β j)) hstep j j0 hj hj0]; exact hj0odd
  apply wt_ge_of_disjoint n e he m (fun j f => j < m ∧ ∃ i, i < k ∧ f = F j i)
  · rintro j j' f ⟨hj, i, hi, rfl⟩ ⟨hj', i', hi', h⟩
    exact hinj j i j' i' hj hi hj' hi' h
  · intro j hj
    obtain ⟨i, hi, hb⟩ := exists_of_xorSum_true _ _ (hall j hj)
    have hi' := List.mem_range.mp hi
    obtain ⟨h1, h2⟩ := hbit j i hj hi' hb
    exact ⟨F j i, h1, ⟨hj, i, hi', rfl⟩, h2⟩

/-- four-term parity of a generator, regrouped into rails and rungs (order N, S, W, E: rungs first) -/
theorem regroup_rungs_first (n s w e : Bool) (h : (n ^^ (s ^^ (w ^^ e))) = false) : (w ^^ e) = (n ^^ s) := by
  revert h; cases n <;> cases s <;> cases w <;> cases e <;> simp

/-- four-term parity of a generator, regrouped (rails first) -/
theorem regroup_rails_first (n s w e : Bool) (h : (n ^^ (s ^^ (w ^^ e))) = false) : (n ^^ s) = (w ^^ e) := by
  revert h; cases n <;> cases s <;> cases w <;> cases e <;> simp

/-- a rail read one step further along a period has the same parity -/
theorem xorSum_shift (k : Nat) (g : Nat → Bool) (h : g k = g 0) :
    xorSum (List.range k) (fun i => g (i + 1)) = xorSum (List.range k) g := by
  have h1 : xorSum (List.range k) (fun i => g i ^^ g (i + 1)) = false := by
    rw [xorSum_range_telescope, h]; simp
  rw [xorSum_xor] at h1
  revert h1
  cases xorSum (List.range k) g <;> cases xorSum (List.range k) (fun i => g (i + 1)) <;> simp

/-! ### checkerboard strips (rotated codes): the generators of one type in a strip pair up the sites of the two
    neighbouring translates -/

theorem xorSum_pairs (h : Nat) (f : Nat → Bool) :
    xorSum (List.range (2 * h)) f = xorSum (List.range h) (fun k => f (2 * k) ^^ f (2 * k + 1)) := by
  induction h with
  | zero => rfl
  | succ h ih =>
    rw [show 2 * (h + 1) = 2 * h + 1 + 1 by omega, List.range_succ, List.range_succ, xorSum_append, xorSum_append,
      ih, List.range_succ, xorSum_append]
    simp only [xorSum_cons, xorSum_nil, Bool.xor_false, Bool.xor_assoc]

theorem xorSum_range_succ_left (n : Nat) (f : Nat → Bool) :
    xorSum (List.range (n + 1)) f = (f 0 ^^ xorSum (List.range n) (fun i => f (i + 1))) := by
  rw [List.range_succ_eq_map, xorSum_cons, xorSum_map]

theorem xorSum_pad (n N : Nat) (f : Nat → Bool) (hz : ∀ i, n ≤ i → f i = false) (hN : n ≤ N) :
    xorSum (List.range N) f = xorSum (List.range n) f := by
  induction N with
  | zero => rw [show n = 0 by omega]
  | succ N ih =>
    by_cases h : n = N + 1
    · rw [h]
    · rw [List.range_succ, xorSum_append, ih (by omega)]
      simp [hz N (by omega)]

/-- zero-padded pairing: `f 0 = false`, `f i = false` beyond `n`; the pairs `(2k+a, 2k+a+1)` tile `1 … n` -/
theorem pairs_pad (n a : Nat) (ha : a ≤ 1) (f : Nat → Bool) (h0 : f 0 = false) (hz : ∀ i, n < i → f i = false) :
    xorSum (List.range n) (fun x => f (x + 1)) =
      xorSum (List.range (n + 1)) (fun k => f (2 * k + a) ^^ f (2 * k + a + 1)) := by
  have hpad : xorSum (List.range (2 * n + 1)) (fun x => f (x + 1)) = xorSum (List.range n) (fun x => f (x + 1)) :=
    xorSum_pad n (2 * n + 1) _ (fun i hi => hz (i + 1) (by omega)) (by omega)
  rcases (by omega : a = 0 ∨ a = 1) with rfl | rfl
  · have := xorSum_pairs (n + 1) f
    rw [show 2 * (n + 1) = 2 * n + 1 + 1 by omega, xorSum_range_succ_left, h0, Bool.false_xor, hpad] at this
    exact this
  · have := xorSum_pairs (n + 1) (fun x => f (x + 1))
    rw [show 2 * (n + 1) = 2 * n + 1 + 1 by omega, List.range_succ, xorSum_append, hpad] at this
    simp only [xorSum_cons, xorSum_nil, Bool.xor_false] at this
    rw [hz (2 * n + 1 + 1) (by omega), Bool.xor_false] at this
    exact this

/-- **one strip of a checkerboard, open boundary**: two zero-padded rails whose pairs `(2k+a, 2k+a+1)` have
    equal parity (one generator of the strip each) have the same parity -/
theorem strip_pairs_pad (n a : Nat) (ha : a ≤ 1) (f f' : Nat → Bool) (h0 : f 0 = false) (h0' : f' 0 = false)
    (hz : ∀ i, n < i → f i = false) (hz' : ∀ i, n < i → f' i = false)
    (hc : ∀ k, (f (2 * k + a) ^^ f (2 * k + a + 1)) = (f' (2 * k + a) ^^ f' (2 * k + a + 1))) :
    xorSum (List.range n) (fun x => f (x + 1)) = xorSum (List.range n) (fun x => f' (x + 1)) := by
  rw [pairs_pad n a ha f h0 hz, pairs_pad n a ha f' h0' hz']
  exact xorSum_congr _ _ _ fun k _ => hc k

/-- periodic pairing: `f (2h) = f 0`; the pairs `(2k+a, 2k+a+1)`, `k < h`, tile one period -/
theorem pairs_periodic (h a : Nat) (ha : a ≤ 1) (f : Nat → Bool) (hp : f (2 * h) = f 0) :
    xorSum (List.range (2 * h)) f = xorSum (List.range h) (fun k => f (2 * k + a) ^^ f (2 * k + a + 1)) := by
  rcases (by omega : a = 0 ∨ a = 1) with rfl | rfl
  · exact xorSum_pairs h f
  · rw [← xorSum_shift (2 * h) f hp]
    exact xorSum_pairs h (fun x => f (x + 1))

/-- **one strip of a checkerboard, periodic boundary** -/
theorem strip_pairs_periodic (h a : Nat) (ha : a ≤ 1) (f f' : Nat → Bool) (hp : f (2 * h) = f 0)
    (hp' : f' (2 * h) = f' 0)
    (hc : ∀ k, k < h → (f (2 * k + a) ^^ f (2 * k + a + 1)) = (f' (2 * k + a) ^^ f' (2 * k + a + 1))) :
    xorSum (List.range (2 * h)) f = xorSum (List.range (2 * h)) f' := by
  rw [pairs_periodic h a ha f hp, pairs_periodic h a ha f' hp']
  exact xorSum_congr _ _ _ fun k hk => hc k (List.mem_range.mp hk)

/-- four-term parity of a checkerboard generator (order SW, NW, NE, SE), grouped by column -/
theorem regroup_columns (sw nw ne se : Bool) (h : (sw ^^ (nw ^^ (ne ^^ se))) = false) : (sw ^^ nw) = (se ^^ ne) := by
  revert h; cases sw <;> cases nw <;> cases ne <;> cases se <;> simp

/-- four-term parity of a checkerboard generator (order SW, NW, NE, SE), grouped by row -/
theorem regroup_rows (sw nw ne se : Bool) (h : (sw ^^ (nw ^^ (ne ^^ se))) = false) : (sw ^^ se) = (nw ^^ ne) := by
  revert h; cases sw <;> cases nw <;> cases ne <;> cases se <;> simp

/-- C07's `CommAll S [l]` (rows of `S` against `l`) in the form `commAll S l` used by `IsLogical` -/
theorem commAll_of_rows (n : Nat) (S : List BVec) (l : BVec) (hS : ∀ s ∈ S, s.length = 2 * n)
    (hl : l.length = 2 * n) (h : ∀ s ∈ S, bsp s l = false) : commAll S l = true := by
  rw [commAll_iff]
  intro s hs
  rw [bsp_comm l s (by rw [hl, hS s hs]) (by rw [hl]; omega)]
  exact h s hs

end Qec.DistLower
