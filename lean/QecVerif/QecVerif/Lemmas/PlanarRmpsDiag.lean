/-
  C10 — the DIAGONAL logical operators of `PlanarRMPSDecoder._coset_probabilities` (`_logical_x(pauli, major)`,
  `_logical_z(pauli, major)`; Model/PlanarRmpsTn.lean `logicalXSites`, `logicalZSites`, `applyLogicalX`, `applyLogicalZ`)
  are equivalent, modulo the stabilizer group, to the code's `logical_x` / `logical_z`, for ALL R, C ≥ 2 (square, tall,
  wide) and both diagonals (major: by column, minor: by row).

  Route: closed forms for the site occupancy of the diagonal site lists (`occ_logicalXSites`, `occ_logicalZSites`: the
  diagonal `(i, i)`, then every other site down the last column (X, R > C) / along the last row (Z, C > R); the minor
  variants are the mirror images `r ↦ 2R-2-r`); every plaquette of the opposite type meets such a list in an even number
  of in-lattice sites (`ov_xdiag`, `ov_zdiag`; the mirror image by `xorSum_plaq_flip`); the list meets the support of the
  code's conjugate logical in exactly one site (`ov_xdiag_rowRun`, `ov_zdiag_colRun`).  Hence `D · L̄` commutes with all
  stabilizers and both logicals, so it is a product of stabilizer generators (`Symp.normaliser_complete_stab` for the code
  C07 proves valid), and the coset probability does not change (`Coset.cosetProbM_shift`).
-/
import QecVerif.Lemmas.Lattice.PlanarCode
import QecVerif.Lemmas.PlanarRmpsTn
import QecVerif.Lemmas.NormaliserBridge
namespace Qec.PlanarRmpsDiag
open Qec Qec.Symp Qec.PlanarCode
open Qec.Planar (maxRow maxCol inBounds plaquetteSites sites identity logicalX logicalZ stabilizers nQubits plaquetteIndices)
open Qec.Tensor (pyRange)

/-! ### A. occupancy of runs -/

/-- `(0,0), (1,1), …, (k-1,k-1)` -/
def diagRun (k : Nat) : List (Int × Int) := (List.range k).map fun (i : Nat) => ((i : Int), (i : Int))
/-- `(a, M), (a+2, M), …` (`k` entries) -/
def colTail (a : Int) (k : Nat) (M : Int) : List (Int × Int) := (List.range k).map fun (i : Nat) => (a + (i : Int) * 2, M)
/-- `(M, a), (M, a+2), …` (`k` entries) -/
def rowTail (a : Int) (k : Nat) (M : Int) : List (Int × Int) := (List.range k).map fun (i : Nat) => (M, a + (i : Int) * 2)

theorem occ_diagRun (k : Nat) (r c : Int) : occ (diagRun k) (r, c) = decide (r = c ∧ 0 ≤ r ∧ r < (k : Int)) := by
  induction k with
  | zero =>
    simp only [diagRun, List.range_zero, List.map_nil, occ, xorSum_nil]
    symm; apply decide_eq_false; omega
  | succ k ih =>
    unfold occ diagRun at ih ⊢
    rw [List.range_succ, List.map_append, xorSum_append, ih]
    simp only [List.map_cons, List.map_nil, xorSum_cons, xorSum_nil, Bool.xor_false, Prod.mk.injEq]
    rw [xor_decide]
    apply decide_eq_decide.mpr; omega

theorem occ_colTail (a : Int) (k : Nat) (M r c : Int) :
    occ (colTail a k M) (r, c) = decide (c = M ∧ a ≤ r ∧ (r - a) % 2 = 0 ∧ r < a + 2 * (k : Int)) := by
  induction k with
  | zero =>
    simp only [colTail, List.range_zero, List.map_nil, occ, xorSum_nil]
    symm; apply decide_eq_false; omega
  | succ k ih =>
    unfold occ colTail at ih ⊢
    rw [List.range_succ, List.map_append, xorSum_append, ih]
    simp only [List.map_cons, List.map_nil, xorSum_cons, xorSum_nil, Bool.xor_false, Prod.mk.injEq]
    rw [xor_decide]
    apply decide_eq_decide.mpr; omega

theorem occ_rowTail (a : Int) (k : Nat) (M r c : Int) :
    occ (rowTail a k M) (r, c) = decide (r = M ∧ a ≤ c ∧ (c - a) % 2 = 0 ∧ c < a + 2 * (k : Int)) := by
  induction k with
  | zero =>
    simp only [rowTail, List.range_zero, List.map_nil, occ, xorSum_nil]
    symm; apply decide_eq_false; omega
  | succ k ih =>
    unfold occ rowTail at ih ⊢
    rw [List.range_succ, List.map_append, xorSum_append, ih]
    simp only [List.map_cons, List.map_nil, xorSum_cons, xorSum_nil, Bool.xor_false, Prod.mk.injEq]
    rw [xor_decide]
    apply decide_eq_decide.mpr; omega

theorem occ_append (l1 l2 : List (Int × Int)) (rc : Int × Int) : occ (l1 ++ l2) rc = (occ l1 rc ^^ occ l2 rc) :=
  xorSum_append l1 l2 _

/-- mirror image `r ↦ M - r` of a site list -/
def flipRows (M : Int) (l : List (Int × Int)) : List (Int × Int) := l.map fun rc => (M - rc.1, rc.2)

theorem occ_flipRows (M : Int) (l : List (Int × Int)) (r c : Int) : occ (flipRows M l) (r, c) = occ l (M - r, c) := by
  unfold occ flipRows
  rw [xorSum_map]
  apply xorSum_congr
  intro rc _
  obtain ⟨a, b⟩ := rc
  simp only [Prod.mk.injEq]
  apply decide_eq_decide.mpr; omega

/-- count of `range(a, b, 2)` -/
def cnt2 (a b : Int) : Nat := (if a < b then (b - a + 2 - 1) / 2 else 0).toNat

theorem pyRange_two (a b : Int) : pyRange a b 2 = (List.range (cnt2 a b)).map fun (i : Nat) => a + (i : Int) * 2 := by
  unfold pyRange cnt2
  simp only [show (2 : Int) > 0 by decide, if_true]

theorem cnt2_spec (a b : Int) : (a < b → 2 * (cnt2 a b : Int) = b - a ∨ 2 * (cnt2 a b : Int) = b - a + 1) ∧
    (¬ a < b → cnt2 a b = 0) := by
  unfold cnt2
  constructor
  · intro h; rw [if_pos h]; omega
  · intro h; rw [if_neg h]; rfl

/-! ### B. closed forms for the diagonal site lists -/

/-- the sites of `_logical_x(pauli, major=True)` -/
def XD (R C r c : Int) : Prop :=
  (r = c ∧ 0 ≤ r ∧ r ≤ 2 * R - 2 ∧ r ≤ 2 * C - 2) ∨ (c = 2 * C - 2 ∧ 2 * C ≤ r ∧ r % 2 = 0 ∧ r ≤ 2 * R - 2)
/-- the sites of `_logical_z(pauli, major=True)` -/
def ZD (R C r c : Int) : Prop :=
  (r = c ∧ 0 ≤ r ∧ r ≤ 2 * R - 2 ∧ r ≤ 2 * C - 2) ∨ (r = 2 * R - 2 ∧ 2 * R ≤ c ∧ c % 2 = 0 ∧ c ≤ 2 * C - 2)

instance (R C r c : Int) : Decidable (XD R C r c) := by unfold XD; infer_instance
instance (R C r c : Int) : Decidable (ZD R C r c) := by unfold ZD; infer_instance

/-- the un-flipped lists -/
def xBase (R C : Int) : List (Int × Int) :=
  diagRun (min (maxRow R) (maxCol C) + 1).toNat ++ colTail (maxCol C + 2) (cnt2 (maxCol C + 2) (maxRow R + 1)) (maxCol C)
def zBase (R C : Int) : List (Int × Int) :=
  diagRun (min (maxRow R) (maxCol C) + 1).toNat ++ rowTail (maxRow R + 2) (cnt2 (maxRow R + 2) (maxCol C + 1)) (maxRow R)

theorem logicalXSites_eq (R C : Int) (major : Bool) :
    PlanarRmpsTn.logicalXSites R C major = if major then xBase R C else flipRows (maxRow R) (xBase R C) := by
  unfold PlanarRmpsTn.logicalXSites PlanarRmpsTn.flipMinor PlanarRmpsTn.diagSites xBase flipRows diagRun colTail
  rw [pyRange_two, List.map_map]
  rfl

theorem logicalZSites_eq (R C : Int) (major : Bool) :
    PlanarRmpsTn.logicalZSites R C major = if major then zBase R C else flipRows (maxRow R) (zBase R C) := by
  unfold PlanarRmpsTn.logicalZSites PlanarRmpsTn.flipMinor PlanarRmpsTn.diagSites zBase flipRows diagRun rowTail
  rw [pyRange_two, List.map_map]
  rfl

theorem occ_xBase (R C : Int) (hR : 2 ≤ R) (hC : 2 ≤ C) (r c : Int) : occ (xBase R C) (r, c) = decide (XD R C r c) := by
  unfold xBase
  rw [occ_append, occ_diagRun, occ_colTail, xor_decide]
  have h := cnt2_spec (maxCol C + 2) (maxRow R + 1)
  apply decide_eq_decide.mpr
  unfold XD
  unfold maxRow maxCol at *
  by_cases hlt : 2 * C - 2 + 2 < 2 * R - 2 + 1
  · have h1 := h.1 hlt
    omega
  · have h2 := h.2 hlt
    rw [h2]
    omega

theorem occ_zBase (R C : Int) (hR : 2 ≤ R) (hC : 2 ≤ C) (r c : Int) : occ (zBase R C) (r, c) = decide (ZD R C r c) := by
  unfold zBase
  rw [occ_append, occ_diagRun, occ_rowTail, xor_decide]
  have h := cnt2_spec (maxRow R + 2) (maxCol C + 1)
  apply decide_eq_decide.mpr
  unfold ZD
  unfold maxRow maxCol at *
  by_cases hlt : 2 * R - 2 + 2 < 2 * C - 2 + 1
  · have h1 := h.1 hlt
    omega
  · have h2 := h.2 hlt
    rw [h2]
    omega

/-- the row in which the closed form is read: the row itself (major) or its mirror image (minor) -/
def rowOf (R : Int) (major : Bool) (r : Int) : Int := if major then r else 2 * R - 2 - r

theorem occ_logicalXSites (R C : Int) (hR : 2 ≤ R) (hC : 2 ≤ C) (major : Bool) (r c : Int) :
    occ (PlanarRmpsTn.logicalXSites R C major) (r, c) = decide (XD R C (rowOf R major r) c) := by
  rw [logicalXSites_eq]
  cases major
  · simp only [Bool.false_eq_true, if_false, rowOf]
    rw [occ_flipRows, occ_xBase R C hR hC]; rfl
  · simp only [if_true, rowOf]
    exact occ_xBase R C hR hC r c

theorem occ_logicalZSites (R C : Int) (hR : 2 ≤ R) (hC : 2 ≤ C) (major : Bool) (r c : Int) :
    occ (PlanarRmpsTn.logicalZSites R C major) (r, c) = decide (ZD R C (rowOf R major r) c) := by
  rw [logicalZSites_eq]
  cases major
  · simp only [Bool.false_eq_true, if_false, rowOf]
    rw [occ_flipRows, occ_zBase R C hR hC]; rfl
  · simp only [if_true, rowOf]
    exact occ_zBase R C hR hC r c

/-! ### C. overlaps with plaquettes -/

theorem inB_iff (R C r c : Int) :
    inBounds R C r c = true ↔ 0 ≤ r ∧ r ≤ 2 * R - 2 ∧ 0 ≤ c ∧ c ≤ 2 * C - 2 := PlanarCode.inBounds_iff R C r c

/-- a primal (Z-type) plaquette meets the major X diagonal in an even number of in-lattice sites -/
theorem ov_xdiag (R C : Int) (p : Int × Int) (hp : RealP R C p) (hpr : p.1 % 2 = 1) :
    xorSum (plaquetteSites p.1 p.2) (fun rc => inBounds R C rc.1 rc.2 && decide (XD R C rc.1 rc.2)) = false := by
  obtain ⟨pr, pc⟩ := p
  unfold RealP at hp
  simp only at hp hpr
  rw [xorSum_plaq]
  dsimp only
  have t1 : (inBounds R C (pr - 1) pc && decide (XD R C (pr - 1) pc)) =
      decide (pr - 1 = pc ∨ (pc = 2 * C - 2 ∧ 2 * C ≤ pr - 1)) := by
    rw [Bool.eq_iff_iff]
    simp only [Bool.and_eq_true, decide_eq_true_eq, inB_iff]
    unfold XD; omega
  have t2 : (inBounds R C (pr + 1) pc && decide (XD R C (pr + 1) pc)) =
      decide (pr + 1 = pc ∨ (pc = 2 * C - 2 ∧ 2 * C ≤ pr + 1)) := by
    rw [Bool.eq_iff_iff]
    simp only [Bool.and_eq_true, decide_eq_true_eq, inB_iff]
    unfold XD; omega
  have t3 : (inBounds R C pr (pc - 1) && decide (XD R C pr (pc - 1))) = decide (pr = pc - 1) := by
    rw [Bool.eq_iff_iff]
    simp only [Bool.and_eq_true, decide_eq_true_eq, inB_iff]
    unfold XD; omega
  have t4 : (inBounds R C pr (pc + 1) && decide (XD R C pr (pc + 1))) = decide (pr = pc + 1 ∧ pc + 1 ≤ 2 * C - 2) := by
    rw [Bool.eq_iff_iff]
    simp only [Bool.and_eq_true, decide_eq_true_eq, inB_iff]
    unfold XD; omega
  rw [t1, t2, t3, t4]
  simp only [xor_decide]
  apply decide_eq_false; omega

/-- a dual (X-type) plaquette meets the major Z diagonal in an even number of in-lattice sites -/
theorem ov_zdiag (R C : Int) (p : Int × Int) (hp : RealP R C p) (hpr : p.1 % 2 = 0) :
    xorSum (plaquetteSites p.1 p.2) (fun rc => inBounds R C rc.1 rc.2 && decide (ZD R C rc.1 rc.2)) = false := by
  obtain ⟨pr, pc⟩ := p
  unfold RealP at hp
  simp only at hp hpr
  rw [xorSum_plaq]
  dsimp only
  have t1 : (inBounds R C (pr - 1) pc && decide (ZD R C (pr - 1) pc)) = decide (pr - 1 = pc) := by
    rw [Bool.eq_iff_iff]
    simp only [Bool.and_eq_true, decide_eq_true_eq, inB_iff]
    unfold ZD; omega
  have t2 : (inBounds R C (pr + 1) pc && decide (ZD R C (pr + 1) pc)) = decide (pr + 1 = pc ∧ pr + 1 ≤ 2 * R - 2) := by
    rw [Bool.eq_iff_iff]
    simp only [Bool.and_eq_true, decide_eq_true_eq, inB_iff]
    unfold ZD; omega
  have t3 : (inBounds R C pr (pc - 1) && decide (ZD R C pr (pc - 1))) =
      decide (pr = pc - 1 ∨ (pr = 2 * R - 2 ∧ 2 * R ≤ pc - 1)) := by
    rw [Bool.eq_iff_iff]
    simp only [Bool.and_eq_true, decide_eq_true_eq, inB_iff]
    unfold ZD; omega
  have t4 : (inBounds R C pr (pc + 1) && decide (ZD R C pr (pc + 1))) =
      decide (pr = pc + 1 ∨ (pr = 2 * R - 2 ∧ 2 * R ≤ pc + 1)) := by
    rw [Bool.eq_iff_iff]
    simp only [Bool.and_eq_true, decide_eq_true_eq, inB_iff]
    unfold ZD; omega
  rw [t1, t2, t3, t4]
  simp only [xor_decide]
  apply decide_eq_false; omega

/-- mirror image of a plaquette sum: reading a row-symmetric weight at the mirrored rows = summing over the mirrored
    plaquette -/
theorem xorSum_plaq_flip (R C : Int) (g : Int → Int → Bool) (pr pc : Int) :
    xorSum (plaquetteSites pr pc) (fun rc => inBounds R C rc.1 rc.2 && g (2 * R - 2 - rc.1) rc.2) =
      xorSum (plaquetteSites (2 * R - 2 - pr) pc) (fun rc => inBounds R C rc.1 rc.2 && g rc.1 rc.2) := by
  rw [xorSum_plaq, xorSum_plaq]
  dsimp only
  have b1 : inBounds R C (pr - 1) pc = inBounds R C (2 * R - 2 - pr + 1) pc := by
    rw [Bool.eq_iff_iff, inB_iff, inB_iff]; omega
  have b2 : inBounds R C (pr + 1) pc = inBounds R C (2 * R - 2 - pr - 1) pc := by
    rw [Bool.eq_iff_iff, inB_iff, inB_iff]; omega
  have b3 : inBounds R C pr (pc - 1) = inBounds R C (2 * R - 2 - pr) (pc - 1) := by
    rw [Bool.eq_iff_iff, inB_iff, inB_iff]; omega
  have b4 : inBounds R C pr (pc + 1) = inBounds R C (2 * R - 2 - pr) (pc + 1) := by
    rw [Bool.eq_iff_iff, inB_iff, inB_iff]; omega
  rw [b1, b2, b3, b4, show 2 * R - 2 - (pr - 1) = 2 * R - 2 - pr + 1 by omega,
    show 2 * R - 2 - (pr + 1) = 2 * R - 2 - pr - 1 by omega]
  generalize (inBounds R C (2 * R - 2 - pr + 1) pc && g (2 * R - 2 - pr + 1) pc) = x1
  generalize (inBounds R C (2 * R - 2 - pr - 1) pc && g (2 * R - 2 - pr - 1) pc) = x2
  generalize (inBounds R C (2 * R - 2 - pr) (pc - 1) && g (2 * R - 2 - pr) (pc - 1)) = x3
  generalize (inBounds R C (2 * R - 2 - pr) (pc + 1) && g (2 * R - 2 - pr) (pc + 1)) = x4
  cases x1 <;> cases x2 <;> cases x3 <;> cases x4 <;> rfl

theorem realP_flip (R C : Int) (p : Int × Int) (hp : RealP R C p) : RealP R C (2 * R - 2 - p.1, p.2) := by
  unfold RealP at *; simp only; omega

/-- every primal plaquette meets `_logical_x(·, major)` in an even number of in-lattice sites (both diagonals) -/
theorem ov_logicalXSites (R C : Int) (hR : 2 ≤ R) (hC : 2 ≤ C) (major : Bool) (p : Int × Int) (hp : RealP R C p)
    (hpr : p.1 % 2 = 1) :
    xorSum (plaquetteSites p.1 p.2)
      (fun rc => inBounds R C rc.1 rc.2 && occ (PlanarRmpsTn.logicalXSites R C major) rc) = false := by
  have e : ∀ rc : Int × Int, occ (PlanarRmpsTn.logicalXSites R C major) rc = decide (XD R C (rowOf R major rc.1) rc.2) :=
    fun rc => occ_logicalXSites R C hR hC major rc.1 rc.2
  simp only [e]
  cases major
  · simp only [rowOf, Bool.false_eq_true, if_false]
    rw [xorSum_plaq_flip R C (fun r c => decide (XD R C r c))]
    exact ov_xdiag R C (2 * R - 2 - p.1, p.2) (realP_flip R C p hp) (by simp only; omega)
  · simp only [rowOf, if_true]
    exact ov_xdiag R C p hp hpr

/-- every dual plaquette meets `_logical_z(·, major)` in an even number of in-lattice sites (both diagonals) -/
theorem ov_logicalZSites (R C : Int) (hR : 2 ≤ R) (hC : 2 ≤ C) (major : Bool) (p : Int × Int) (hp : RealP R C p)
    (hpr : p.1 % 2 = 0) :
    xorSum (plaquetteSites p.1 p.2)
      (fun rc => inBounds R C rc.1 rc.2 && occ (PlanarRmpsTn.logicalZSites R C major) rc) = false := by
  have e : ∀ rc : Int × Int, occ (PlanarRmpsTn.logicalZSites R C major) rc = decide (ZD R C (rowOf R major rc.1) rc.2) :=
    fun rc => occ_logicalZSites R C hR hC major rc.1 rc.2
  simp only [e]
  cases major
  · simp only [rowOf, Bool.false_eq_true, if_false]
    rw [xorSum_plaq_flip R C (fun r c => decide (ZD R C r c))]
    exact ov_zdiag R C (2 * R - 2 - p.1, p.2) (realP_flip R C p hp) (by simp only; omega)
  · simp only [rowOf, if_true]
    exact ov_zdiag R C p hp hpr

/-! ### D. overlaps with the code's logicals: exactly one common site -/

/-- `_logical_x(·, major)` and the support of `logical_z` (last row, even columns) share exactly one site -/
theorem ov_xdiag_rowRun (R C : Int) (hR : 2 ≤ R) (hC : 2 ≤ C) (major : Bool) :
    xorSum (rowRun C.toNat (2 * R - 2))
      (fun rc => inBounds R C rc.1 rc.2 && occ (PlanarRmpsTn.logicalXSites R C major) rc) = true := by
  unfold rowRun
  rw [xorSum_map]
  have : ∀ i ∈ List.range C.toNat,
      (inBounds R C (2 * R - 2) (2 * (i : Int)) &&
        occ (PlanarRmpsTn.logicalXSites R C major) (2 * R - 2, 2 * (i : Int))) =
        decide (i = if major then (min R C - 1).toNat else 0) := by
    intro i hi
    have hi' := List.mem_range.mp hi
    rw [occ_logicalXSites R C hR hC, Bool.eq_iff_iff]
    simp only [Bool.and_eq_true, decide_eq_true_eq, inB_iff]
    unfold XD rowOf
    cases major
    · simp only [Bool.false_eq_true, if_false]; omega
    · simp only [if_true]; omega
  rw [xorSum_congr _ _ _ this, xorSum_range_eq]
  apply decide_eq_true
  cases major
  · simp only [Bool.false_eq_true, if_false]; omega
  · simp only [if_true]; omega

/-- `_logical_z(·, major)` and the support of `logical_x` (last column, even rows) share exactly one site -/
theorem ov_zdiag_colRun (R C : Int) (hR : 2 ≤ R) (hC : 2 ≤ C) (major : Bool) :
    xorSum (colRun R.toNat (2 * C - 2))
      (fun rc => inBounds R C rc.1 rc.2 && occ (PlanarRmpsTn.logicalZSites R C major) rc) = true := by
  unfold colRun
  rw [xorSum_map]
  have : ∀ i ∈ List.range R.toNat,
      (inBounds R C (2 * (i : Int)) (2 * C - 2) &&
        occ (PlanarRmpsTn.logicalZSites R C major) (2 * (i : Int), 2 * C - 2)) =
        decide (i = if major then (min R C - 1).toNat else (R - C).toNat) := by
    intro i hi
    have hi' := List.mem_range.mp hi
    rw [occ_logicalZSites R C hR hC, Bool.eq_iff_iff]
    simp only [Bool.and_eq_true, decide_eq_true_eq, inB_iff]
    unfold ZD rowOf
    cases major
    · simp only [Bool.false_eq_true, if_false]; omega
    · simp only [if_true]; omega
  rw [xorSum_congr _ _ _ this, xorSum_range_eq]
  apply decide_eq_true
  cases major
  · simp only [Bool.false_eq_true, if_false]; omega
  · simp only [if_true]; omega

/-! ### E. the diagonal operators -/

/-- `_logical_x(identity, major)` / `_logical_z(identity, major)` as bsf vectors -/
def diagX (R C : Int) (major : Bool) : BVec :=
  sites R C (opOf false) (identity R C) (PlanarRmpsTn.logicalXSites R C major)
def diagZ (R C : Int) (major : Bool) : BVec :=
  sites R C (opOf true) (identity R C) (PlanarRmpsTn.logicalZSites R C major)

theorem allSites_logicalXSites (R C : Int) (hR : 2 ≤ R) (hC : 2 ≤ C) (major : Bool) :
    AllSites (PlanarRmpsTn.logicalXSites R C major) :=
  fun rc h => (PlanarRmpsLemmas.logicalXSites_range R C hR hC major rc h).1

theorem allSites_logicalZSites (R C : Int) (hR : 2 ≤ R) (hC : 2 ≤ C) (major : Bool) :
    AllSites (PlanarRmpsTn.logicalZSites R C major) :=
  fun rc h => (PlanarRmpsLemmas.logicalZSites_range R C hR hC major rc h).1

theorem diagX_length (R C : Int) (major : Bool) : (diagX R C major).length = 2 * nq R C := siteop_length _ _ _ _
theorem diagZ_length (R C : Int) (major : Bool) : (diagZ R C major).length = 2 * nq R C := siteop_length _ _ _ _

theorem ext_getD (a b : BVec) (hl : a.length = b.length)
    (h : ∀ j, a.getD j false = b.getD j false) : a = b := by
  apply List.ext_getElem hl
  intro j h1 h2
  have := h j
  simpa [List.getD_eq_getElem?_getD, List.getElem?_eq_getElem h1, List.getElem?_eq_getElem h2] using this

/-- toggling a site list into `f` is multiplying `f` by the site operator -/
theorem sites_eq_xorV (R C : Int) (hR : 2 ≤ R) (hC : 2 ≤ C) (z : Bool) (f : BVec) (hf : f.length = 2 * nq R C)
    (l : List (Int × Int)) (hl : AllSites l) :
    sites R C (opOf z) f l = xorV f (sites R C (opOf z) (identity R C) l) := by
  have hfl := flatLt_of_allSites R C hR hC l hl
  have hlen : (sites R C (opOf z) (identity R C) l).length = 2 * nq R C := siteop_length _ _ _ _
  apply ext_getD
  · rw [sites_length, xorV_length _ _ (hf.trans hlen.symm)]
  · intro j
    rw [getD_xorV _ _ (hf.trans hlen.symm), sites_eq_gsites, sites_eq_gsites, identity_eq,
      getD_gsites (nq R C) (dom R C) (fl R C) z f hf l hfl,
      getD_gsites (nq R C) (dom R C) (fl R C) z _ (zeros_length _) l hfl, getD_zeros, Bool.false_xor]

theorem applyLogicalX_eq (R C : Int) (hR : 2 ≤ R) (hC : 2 ≤ C) (major : Bool) (f : BVec) (hf : f.length = 2 * nq R C) :
    PlanarRmpsTn.applyLogicalX R C major f = xorV f (diagX R C major) :=
  sites_eq_xorV R C hR hC false f hf _ (allSites_logicalXSites R C hR hC major)

theorem applyLogicalZ_eq (R C : Int) (hR : 2 ≤ R) (hC : 2 ≤ C) (major : Bool) (f : BVec) (hf : f.length = 2 * nq R C) :
    PlanarRmpsTn.applyLogicalZ R C major f = xorV f (diagZ R C major) :=
  sites_eq_xorV R C hR hC true f hf _ (allSites_logicalZSites R C hR hC major)

/-- the diagonal X operator commutes with every stabilizer generator -/
theorem bsp_diagX_stab (R C : Int) (hR : 2 ≤ R) (hC : 2 ≤ C) (major : Bool) (p : Int × Int) (hp : RealP R C p) :
    bsp (diagX R C major) (stabOp R C p) = false := by
  have sp := allSites_plaq p.1 p.2 hp.2.2.2.2
  have sx := allSites_logicalXSites R C hR hC major
  unfold stabOp diagX
  rw [isPrimal_plaq _ _ hp.2.2.2.2]
  by_cases hp1 : p.1 % 2 = 1
  · rw [show decide (p.1 % 2 = 1) = !false by simp [hp1], bsp_sites_diff R C hR hC _ _ _ sx sp]
    exact ov_logicalXSites R C hR hC major p hp hp1
  · rw [show decide (p.1 % 2 = 1) = false by simp [hp1]]
    exact bsp_sites_same R C hR hC _ _ _ sx sp

/-- the diagonal Z operator commutes with every stabilizer generator -/
theorem bsp_diagZ_stab (R C : Int) (hR : 2 ≤ R) (hC : 2 ≤ C) (major : Bool) (p : Int × Int) (hp : RealP R C p) :
    bsp (diagZ R C major) (stabOp R C p) = false := by
  have sp := allSites_plaq p.1 p.2 hp.2.2.2.2
  have sz := allSites_logicalZSites R C hR hC major
  unfold stabOp diagZ
  rw [isPrimal_plaq _ _ hp.2.2.2.2]
  by_cases hp1 : p.1 % 2 = 1
  · rw [show decide (p.1 % 2 = 1) = true by simp [hp1]]
    exact bsp_sites_same R C hR hC _ _ _ sz sp
  · rw [show decide (p.1 % 2 = 1) = !true by simp [hp1], bsp_sites_diff R C hR hC _ _ _ sz sp]
    unfold RealP at hp
    exact ov_logicalZSites R C hR hC major p hp (by omega)

theorem bsp_diagX_logicalZ (R C : Int) (hR : 2 ≤ R) (hC : 2 ≤ C) (major : Bool) :
    bsp (diagX R C major) (logicalZ R C) = true := by
  rw [logicalZ_eq, show true = !false from rfl]
  unfold diagX
  rw [bsp_sites_diff R C hR hC _ _ _ (allSites_logicalXSites R C hR hC major)
    (allSites_rowRun C.toNat (2 * R - 2) (by omega))]
  exact ov_xdiag_rowRun R C hR hC major

theorem bsp_diagZ_logicalX (R C : Int) (hR : 2 ≤ R) (hC : 2 ≤ C) (major : Bool) :
    bsp (diagZ R C major) (logicalX R C) = true := by
  rw [logicalX_eq, show false = !true from rfl]
  unfold diagZ
  rw [bsp_sites_diff R C hR hC _ _ _ (allSites_logicalZSites R C hR hC major)
    (allSites_colRun R.toNat (2 * C - 2) (by omega))]
  exact ov_zdiag_colRun R C hR hC major

theorem bsp_diagX_logicalX (R C : Int) (hR : 2 ≤ R) (hC : 2 ≤ C) (major : Bool) :
    bsp (diagX R C major) (logicalX R C) = false := by
  rw [logicalX_eq]
  exact bsp_sites_same R C hR hC _ _ _ (allSites_logicalXSites R C hR hC major)
    (allSites_colRun R.toNat (2 * C - 2) (by omega))

theorem bsp_diagZ_logicalZ (R C : Int) (hR : 2 ≤ R) (hC : 2 ≤ C) (major : Bool) :
    bsp (diagZ R C major) (logicalZ R C) = false := by
  rw [logicalZ_eq]
  exact bsp_sites_same R C hR hC _ _ _ (allSites_logicalZSites R C hR hC major)
    (allSites_rowRun C.toNat (2 * R - 2) (by omega))

/-! ### F. equivalence modulo the stabilizer group -/

/-- **`_logical_x(·, major)` is `logical_x` times a product of stabilizer generators** (`hv`: C07 `planar_valid`) -/
theorem diagX_equiv (R C : Int) (hR : 2 ≤ R) (hC : 2 ≤ C) (major : Bool)
    (hv : ValidCode (nq R C) 1 (stabilizers R C) [logicalX R C] [logicalZ R C]) :
    InSpan (2 * nq R C) (stabilizers R C) (xorV (logicalX R C) (diagX R C major)) := by
  have hx : (logicalX R C).length = 2 * nq R C := hv.len_Lx _ (List.mem_singleton.mpr rfl)
  have hz : (logicalZ R C).length = 2 * nq R C := hv.len_Lz _ (List.mem_singleton.mpr rfl)
  have hd := diagX_length R C major
  have hXZ : bsp (logicalX R C) (logicalZ R C) = true := bsp_logicalX_logicalZ R C hR hC
  have hXX : bsp (logicalX R C) (logicalX R C) = false := bsp_logicalX_logicalX R C hR hC
  apply normaliser_complete_stab (nq R C) 1 _ _ _ hv _ (by rw [xorV_length _ _ (hx.trans hd.symm), hx])
  · intro s hs
    rw [stabilizers_eq_map] at hs
    obtain ⟨p, hp, rfl⟩ := List.mem_map.mp hs
    have hp' := (mem_plaquetteIndices R C p).mp hp
    have h1 : bsp (logicalX R C) (stabOp R C p) = false := by
      rw [bsp_comm' (nq R C) _ _ hx (stabOp_length R C p)]; exact bsp_stab_logicalX R C hR hC p hp'
    rw [bsp_xorV_left _ _ _ (hx.trans hd.symm), h1, bsp_diagX_stab R C hR hC major p hp']; rfl
  · intro l hl
    simp only [List.cons_append, List.nil_append, List.mem_cons, List.not_mem_nil, or_false] at hl
    rcases hl with rfl | rfl
    · rw [bsp_xorV_left _ _ _ (hx.trans hd.symm), hXX, bsp_diagX_logicalX R C hR hC major]; rfl
    · rw [bsp_xorV_left _ _ _ (hx.trans hd.symm), hXZ, bsp_diagX_logicalZ R C hR hC major]; rfl

/-- **`_logical_z(·, major)` is `logical_z` times a product of stabilizer generators** -/
theorem diagZ_equiv (R C : Int) (hR : 2 ≤ R) (hC : 2 ≤ C) (major : Bool)
    (hv : ValidCode (nq R C) 1 (stabilizers R C) [logicalX R C] [logicalZ R C]) :
    InSpan (2 * nq R C) (stabilizers R C) (xorV (logicalZ R C) (diagZ R C major)) := by
  have hx : (logicalX R C).length = 2 * nq R C := hv.len_Lx _ (List.mem_singleton.mpr rfl)
  have hz : (logicalZ R C).length = 2 * nq R C := hv.len_Lz _ (List.mem_singleton.mpr rfl)
  have hd := diagZ_length R C major
  have hZX : bsp (logicalZ R C) (logicalX R C) = true := by
    rw [bsp_comm' (nq R C) _ _ hz hx]; exact bsp_logicalX_logicalZ R C hR hC
  have hZZ : bsp (logicalZ R C) (logicalZ R C) = false := bsp_logicalZ_logicalZ R C hR hC
  apply normaliser_complete_stab (nq R C) 1 _ _ _ hv _ (by rw [xorV_length _ _ (hz.trans hd.symm), hz])
  · intro s hs
    rw [stabilizers_eq_map] at hs
    obtain ⟨p, hp, rfl⟩ := List.mem_map.mp hs
    have hp' := (mem_plaquetteIndices R C p).mp hp
    have h1 : bsp (logicalZ R C) (stabOp R C p) = false := by
      rw [bsp_comm' (nq R C) _ _ hz (stabOp_length R C p)]; exact bsp_stab_logicalZ R C hR hC p hp'
    rw [bsp_xorV_left _ _ _ (hz.trans hd.symm), h1, bsp_diagZ_stab R C hR hC major p hp']; rfl
  · intro l hl
    simp only [List.cons_append, List.nil_append, List.mem_cons, List.not_mem_nil, or_false] at hl
    rcases hl with rfl | rfl
    · rw [bsp_xorV_left _ _ _ (hz.trans hd.symm), hZX, bsp_diagZ_logicalX R C hR hC major]; rfl
    · rw [bsp_xorV_left _ _ _ (hz.trans hd.symm), hZZ, bsp_diagZ_logicalZ R C hR hC major]; rfl

section coset
variable {α : Type} [CommSemiring α]
open Qec.Coset (cosetProb cosetProbM CodeSpec Dist)

/-- the coset of `g · D` is the coset of `g · L̄` when `L̄ · D` is a product of stabilizer generators -/
theorem cosetProb_swap (d : Dist α) {m : Nat} {S Ls : List BVec} (hC : CodeSpec m S Ls) (g L D : BVec)
    (hg : g.length = m) (hL : L.length = m) (hD : D.length = m) (hspan : InSpan m S (xorV L D)) :
    cosetProb d S (xorV g D) = cosetProb d S (xorV g L) := by
  have he := mem_spanEnum_of_inSpan m S _ hspan
  have e : xorV g D = xorV (xorV g L) (xorV L D) := by
    rw [Symp.xorV_assoc, Coset.xorV_cancel_left hL hD]
  rw [Coset.cosetProb_eq_M, Coset.cosetProb_eq_M, Coset.xorV_len hg hD, Coset.xorV_len hg hL, e]
  exact Coset.cosetProbM_shift d hC.lenS hC.h_indep.of_append_right _ he

end coset

end Qec.PlanarRmpsDiag
