/-
  C10 — `PlanarMPSDecoder._coset_probabilities` shares one partially contracted bra between the cosets I / X̄ and one
  between Z̄ / Ȳ (mode 'c'), resp. I / Z̄ and X̄ / Ȳ (mode 'r', transposed networks): helper lemmas for
  Props/C10/PlanarShared.lean.

  Route: `PlanarPauli.logical_x` acts on the sites of the LAST COLUMN of the lattice only, `logical_z` on the sites of the
  LAST ROW only (`operatorAt_xor_sites` + the site lists of the model's logicals); network coordinates = lattice
  coordinates and the node at `(r, c)` reads the sample at the site `(r, c)` only (`node_congr`), so the networks of `f`
  and `f·X̄` have the same columns `< ncols - 1` and those of `f` and `f·Z̄` the same rows `< nrows - 1`; the rest is
  generic (Lemmas/TnShared.lean).
-/
import QecVerif.Lemmas.TnShared
import QecVerif.Lemmas.PlanarTn
namespace Qec.PlanarShared
open Qec Qec.Tensor Qec.TensorAlg Qec.TensorExact Qec.TensorPad Qec.Coset Qec.Symp Qec.Planar Qec.PlanarCode Qec.PlanarTn
open Qec.PlanarTnLemmas Qec.TnShared
open Qec.RotatedPlanarRmpsTn (cosetValue)

/-! ### 1. a site operator does not change the read-back at a site outside its site list -/

theorem operatorAt_xor_sites (R C : Int) (hR : 2 ≤ R) (hC : 2 ≤ C) (z : Bool) (l : List (Int × Int))
    (hl : AllSites l) (f : BVec) (hf : f.length = 2 * nq R C) (r c : Int) (hs : (r + c) % 2 = 0)
    (hb : inBounds R C r c = true) (hocc : occ l (r, c) = false) :
    operatorAt R C (xorV f (sites R C (opOf z) (identity R C) l)) r c = operatorAt R C f r c := by
  have h1 := getD_siteop_same R C hR hC z l hl (r, c) hs hb
  have h0 := getD_siteop_other R C hR hC z l hl (r, c) hs hb
  rw [hocc] at h1
  have hlen : f.length = (sites R C (opOf z) (identity R C) l).length := by
    rw [hf, PlanarCode.sites_length, PlanarCode.identity_length]
  have e1 := operatorAt_eq R C (xorV f (sites R C (opOf z) (identity R C) l)) (r, c)
  have e2 := operatorAt_eq R C f (r, c)
  simp only at e1 e2
  rw [e1, e2, getD_xorV _ _ hlen, getD_xorV _ _ hlen]
  cases z
  · simp only [off, Bool.false_eq_true, if_false, Nat.zero_add, Bool.not_false, if_true] at h1 h0
    rw [h1, h0, Bool.xor_false, Bool.xor_false]
  · simp only [off, Bool.false_eq_true, if_false, Nat.zero_add, Bool.not_true, if_true] at h1 h0
    rw [h1, h0, Bool.xor_false, Bool.xor_false]

theorem allSites_colRun (k : ℕ) (Mx : Int) (h : Mx % 2 = 0) : AllSites (colRun k Mx) := by
  intro s hs
  obtain ⟨i, _, e⟩ := List.mem_map.1 hs
  rw [← e]; simp only; omega

theorem allSites_rowRun (k : ℕ) (Mx : Int) (h : Mx % 2 = 0) : AllSites (rowRun k Mx) := by
  intro s hs
  obtain ⟨i, _, e⟩ := List.mem_map.1 hs
  rw [← e]; simp only; omega

/-- `logical_x` touches the last column only -/
theorem operatorAt_xor_logicalX (R C : Int) (hR : 2 ≤ R) (hC : 2 ≤ C) (f : BVec)
    (hf : f.length = 2 * nq R C) (r c : Int) (hs : (r + c) % 2 = 0) (hb : inBounds R C r c = true)
    (hc : c < 2 * C - 2) : operatorAt R C (xorV f (logicalX R C)) r c = operatorAt R C f r c := by
  rw [logicalX_eq]
  apply operatorAt_xor_sites R C hR hC false _ (allSites_colRun _ _ (by omega)) f hf r c hs hb
  rw [occ_colRun]
  apply decide_eq_false
  omega

/-- `logical_z` touches the last row only -/
theorem operatorAt_xor_logicalZ (R C : Int) (hR : 2 ≤ R) (hC : 2 ≤ C) (f : BVec)
    (hf : f.length = 2 * nq R C) (r c : Int) (hs : (r + c) % 2 = 0) (hb : inBounds R C r c = true)
    (hr : r < 2 * R - 2) : operatorAt R C (xorV f (logicalZ R C)) r c = operatorAt R C f r c := by
  rw [logicalZ_eq]
  apply operatorAt_xor_sites R C hR hC true _ (allSites_rowRun _ _ (by omega)) f hf r c hs hb
  rw [occ_rowRun]
  apply decide_eq_false
  omega

/-! ### 2. the node at `(r, c)` reads the sample at the site `(r, c)` only -/

theorem node_congr (R C : Int) (d : Dist Int) (f g : BVec) (nr nc r c : ℕ)
    (h : (r + c) % 2 = 0 → operatorAt R C g r c = operatorAt R C f r c) :
    node R C d g nr nc r c = node R C d f nr nc r c := by
  unfold node
  simp only
  split_ifs with h1 h2
  · rw [h (by omega)]
  · rw [h (by omega)]
  · rfl

/-- `g` and `f` carry the same operator on the in-lattice site `(r, c)` -/
def SameAt (R C : Int) (f g : BVec) (r c : ℕ) : Prop :=
  (r + c) % 2 = 0 → operatorAt R C g r c = operatorAt R C f r c

theorem site_congr (R C : Int) (d : Dist Int) (f g : BVec) (hR : 2 ≤ R) (hC : 2 ≤ C) (r c : ℕ) (hr : r ≤ M R)
    (hc : c ≤ M C) (h : SameAt R C f g r c) : (planarTn R C d g).site r c = (planarTn R C d f).site r c := by
  rw [site_planarTn R C d g hR hC r c hr hc, site_planarTn R C d f hR hC r c hr hc, node_congr R C d f g _ _ r c h]

/-- the networks of two samples that agree on lattice column `c` have the same column `c` -/
theorem col_congr (R C : Int) (d : Dist Int) (f g : BVec) (hR : 2 ≤ R) (hC : 2 ≤ C) (c : ℕ) (hc : c ≤ M C)
    (h : ∀ r, r ≤ M R → SameAt R C f g r c) : (planarTn R C d g).col c = (planarTn R C d f).col c := by
  unfold Net.col
  rw [nrows_planarTn R C d g hR, nrows_planarTn R C d f hR]
  apply List.map_congr_left
  intro r hr
  have hr' := List.mem_range.mp hr
  exact site_congr R C d f g hR hC r c (by omega) hc (h r (by omega))

/-- the transposed networks of two samples that agree on lattice row `r` have the same column `r` -/
theorem row_congr (R C : Int) (d : Dist Int) (f g : BVec) (hR : 2 ≤ R) (hC : 2 ≤ C) (r : ℕ) (hr : r ≤ M R)
    (h : ∀ c, c ≤ M C → SameAt R C f g r c) :
    (planarTn R C d g).transpose.col r = (planarTn R C d f).transpose.col r := by
  apply col_transpose_congr
  · rw [nrows_planarTn R C d g hR, nrows_planarTn R C d f hR]
  · rw [ncols_planarTn R C d g hC, ncols_planarTn R C d f hC]
  · rw [nrows_planarTn R C d g hR]; omega
  · intro c hc
    rw [ncols_planarTn R C d g hC] at hc
    exact site_congr R C d f g hR hC r c hr (by omega) (h c (by omega))

/-! ### 3. the variants -/

theorem inBounds_nat (R C : Int) (hR : 2 ≤ R) (hC : 2 ≤ C) (r c : ℕ) (hr : r ≤ M R) (hc : c ≤ M C) :
    inBounds R C r c = true := by
  rw [inBounds_iff]; unfold M at hr hc; omega

theorem sameAt_logicalX (R C : Int) (hR : 2 ≤ R) (hC : 2 ≤ C) (f : BVec) (hf : f.length = 2 * nq R C)
    (r c : ℕ) (hr : r ≤ M R) (hc : c < M C) : SameAt R C f (xorV f (logicalX R C)) r c := by
  intro hpar
  apply operatorAt_xor_logicalX R C hR hC f hf r c (by omega) (inBounds_nat R C hR hC r c hr (by omega))
  unfold M at hc; omega

theorem sameAt_logicalZ (R C : Int) (hR : 2 ≤ R) (hC : 2 ≤ C) (f : BVec) (hf : f.length = 2 * nq R C)
    (r c : ℕ) (hr : r < M R) (hc : c ≤ M C) : SameAt R C f (xorV f (logicalZ R C)) r c := by
  intro hpar
  apply operatorAt_xor_logicalZ R C hR hC f hf r c (by omega) (inBounds_nat R C hR hC r c (by omega) hc)
  unfold M at hr; omega

theorem sameAt_symm (R C : Int) (f g : BVec) (r c : ℕ) (h : SameAt R C f g r c) : SameAt R C g f r c :=
  fun hp => (h hp).symm

theorem sameAt_trans (R C : Int) (f g k : BVec) (r c : ℕ) (h1 : SameAt R C f g r c) (h2 : SameAt R C g k r c) :
    SameAt R C f k r c := fun hp => (h2 hp).trans (h1 hp)

/-! ### 4. one slot: the bra of the network of `f`, the last column (row) of the network of `g` -/

theorem padded (R C : Int) (d : Dist Int) (f : BVec) (hR : 2 ≤ R) (hC : 2 ≤ C) : PaddedRows (planarTn R C d f) :=
  noneFree_padded _ (by rw [nrows_planarTn R C d f hR]; omega) (by rw [ncols_planarTn R C d f hC]; omega)
    (noneFree_planarTn R C d f hR hC)

theorem padded_transpose (R C : Int) (d : Dist Int) (f : BVec) (hR : 2 ≤ R) (hC : 2 ≤ C) :
    PaddedRows (planarTn R C d f).transpose :=
  noneFree_padded _ (by show 0 < (planarTn R C d f).ncols; rw [ncols_planarTn R C d f hC]; omega)
    (by show 0 < (planarTn R C d f).nrows; rw [nrows_planarTn R C d f hR]; omega)
    (noneFree_transpose _ (noneFree_planarTn R C d f hR hC))

theorem grid_scalar (R C : Int) (d : Dist Int) (f : BVec) (hR : 2 ≤ R) (hC : 2 ≤ C)
    (hf : f.length = 2 * nq R C) :
    scalar (gridT (netF (planarTn R C d f)) (M R) (M C)) = cosetProb d (Planar.stabilizers R C) f := by
  have h := exactValue_eq_gridT _ _ _ (compat_planarTn R C d f hR hC) (compatible_planarTn R C d f hR hC)
  rw [exactValue_planarTn_eq_cosetProb R C d f hR hC hf] at h
  exact (Option.some.inj h).symm

/-- **mode 'c', one slot**: the bra of the network of `f` (all columns but the last) with the last column of the
    network of `g`, when `g` and `f` agree outside the last lattice column -/
theorem slot_col (R C : Int) (d : Dist Int) (f g : BVec) (hR : 2 ≤ R) (hC : 2 ≤ C)
    (hg : g.length = 2 * nq R C) (h : ∀ r c, r ≤ M R → c < M C → SameAt R C f g r c) :
    cosetValue (planarTn R C d f) (planarTn R C d g) = .ok (cosetProb d (Planar.stabilizers R C) g) := by
  obtain ⟨n, hn⟩ : ∃ n, M C = n + 1 := ⟨M C - 1, by have := M_ge C hC; omega⟩
  have hc := compat_planarTn R C d g hR hC
  rw [← grid_scalar R C d g hR hC hg, hn]
  rw [hn] at hc
  apply cosetValue_grid _ _ _ _ hc (padded R C d g hR hC)
  · rw [ncols_planarTn R C d f hC, ncols_planarTn R C d g hC]
  · intro c hcn
    exact (col_congr R C d f g hR hC c (by omega) (fun r hr => h r c hr (by omega))).symm

/-- **mode 'r', one slot**: the same on the transposed networks, when `g` and `f` agree outside the last lattice row -/
theorem slot_row (R C : Int) (d : Dist Int) (f g : BVec) (hR : 2 ≤ R) (hC : 2 ≤ C)
    (hg : g.length = 2 * nq R C) (h : ∀ r c, r < M R → c ≤ M C → SameAt R C f g r c) :
    cosetValue (planarTn R C d f).transpose (planarTn R C d g).transpose
      = .ok (cosetProb d (Planar.stabilizers R C) g) := by
  obtain ⟨n, hn⟩ : ∃ n, M R = n + 1 := ⟨M R - 1, by have := M_ge R hR; omega⟩
  have hc := compat_planarTn R C d g hR hC
  have hcT := compat_transpose _ _ _ hc
  rw [← grid_scalar R C d g hR hC hg, ← grid_scalar_transpose _ _ _ hc (padded_transpose R C d g hR hC), hn]
  rw [hn] at hcT
  apply cosetValue_grid _ _ _ _ hcT (padded_transpose R C d g hR hC)
  · show (planarTn R C d f).nrows = (planarTn R C d g).nrows
    rw [nrows_planarTn R C d f hR, nrows_planarTn R C d g hR]
  · intro r hrn
    exact (row_congr R C d f g hR hC r (by omega) (fun c hc' => h r c (by omega) hc')).symm

end Qec.PlanarShared
