/-
  C08 — rotated toric code, all (even) sizes: an operator that commutes with every stabilizer generator and
  anticommutes with a supplied logical on the west column (X̄₁, Z̄₂) has a set bit on every one of the `C` columns;
  with one on the south row (X̄₂, Z̄₁) on every one of the `R` rows.  The plaquettes of one type between two
  neighbouring columns (rows) pair up the sites of both, periodically.
-/
import QecVerif.Lemmas.DistanceLower
import QecVerif.Lemmas.Lattice.RotatedToricCode
import QecVerif.Lemmas.Lattice.Toric
namespace Qec.DistLower.RotatedToric
open Qec Qec.RotatedToric Qec.Symp Qec.RotatedToric.Lem Qec.RotatedToricCode Qec.Distance Qec.DistLower

/-- X-type (`false`) or Z-type (`true`) operator, in the shape of the model's `plaquetteOp` -/
def tyOp (zt : Bool) : P1 := if zt then P1.Z else P1.X

/-- the bit of `e` at site `s` (reduced modulo the lattice) that decides commutation with `op` there -/
def tbit (R C : Int) (e : BVec) (op : P1) (s : Int × Int) : Bool :=
  xor (op.xBit && e.getD (nq R C + flatOf R C s) false) (op.zBit && e.getD (flatOf R C s) false)

theorem tbit_periodic (R C : Int) (hR : 0 < R) (hC : 0 < C) (e : BVec) (op : P1) (s t : Int × Int)
    (h : s.1 % C = t.1 % C ∧ s.2 % R = t.2 % R) : tbit R C e op s = tbit R C e op t := by
  unfold tbit
  rw [(flatOf_eq_iff R C hR hC s t).mpr h]

theorem tbit_acts (R C : Int) (hR : 0 < R) (hC : 0 < C) (e : BVec) (op : P1) (s : Int × Int)
    (h : tbit R C e op s = true) :
    flatOf R C s < nq R C ∧ actsOn (nq R C) e (flatOf R C s) = true := by
  refine ⟨flatOf_lt R C hR hC s, ?_⟩
  unfold tbit at h
  unfold actsOn
  revert h
  cases e.getD (flatOf R C s) false <;> cases e.getD (nq R C + flatOf R C s) false <;> simp

theorem sites_eq_applyOps (R C : Int) (op : P1) (v : BVec) (l : List (Int × Int)) :
    sites R C op v l = ToricLemmas.applyOps (nQubits R C).toNat op v (l.map (flatOf R C)) := by
  simp only [sites, ToricLemmas.applyOps, List.foldl_map]
  rfl

/-- `bsp e ·` of a site operator is the parity of the relevant bits of `e` over its sites -/
theorem bsp_siteop (R C : Int) (hR : 0 < R) (hC : 0 < C) (e : BVec) (he : e.length = 2 * nq R C) (op : P1)
    (l : List (Int × Int)) : bsp e (sites R C op (identity R C) l) = xorSum l (tbit R C e op) := by
  rw [sites_eq_applyOps, identity,
    ToricLemmas.bsp_applyOps_right (nQubits R C).toNat op e _ _ he (by simp [zeros]) (by
      intro f hf
      rcases List.mem_map.mp hf with ⟨s, _, rfl⟩
      exact flatOf_lt R C hR hC s),
    ToricLemmas.bsp_zeros_right, Bool.false_xor, ToricLemmas.xsum_map]
  rfl

/-- parity of `e` against the generator of an in-lattice plaquette of type `zt` (order SW, NW, NE, SE) -/
theorem stab_parity (R C : Int) (hR : 0 < R) (hC : 0 < C) (e : BVec) (he : e.length = 2 * nq R C)
    (hcomm : commAll (stabilizers R C) e = true) (zt : Bool) (p : Int × Int)
    (hp : 0 ≤ p.1 ∧ p.1 < C ∧ 0 ≤ p.2 ∧ p.2 < R) (ht : isZPlaquette p.1 p.2 = zt) :
    (tbit R C e (tyOp zt) (p.1, p.2) ^^ (tbit R C e (tyOp zt) (p.1, p.2 + 1) ^^
      (tbit R C e (tyOp zt) (p.1 + 1, p.2 + 1) ^^ tbit R C e (tyOp zt) (p.1 + 1, p.2)))) = false := by
  have hmem : stabOf R C p ∈ stabilizers R C := by
    rw [Lem.stabilizers_eq_map]
    exact List.mem_map.mpr ⟨p, (Lem.mem_plaquetteIndices R C p).mpr ((Lem.inBounds_iff R C _ _).mpr hp), rfl⟩
  have h := (commAll_iff _ _).mp hcomm _ hmem
  unfold stabOf plaquetteOp at h
  rw [ht, bsp_siteop R C hR hC e he] at h
  simpa [plaquetteSites, tyOp] using h

theorem isZ_of_parity (x y : Int) (zt : Bool) (h : (x - y) % 2 = if zt then 0 else 1) : isZPlaquette x y = zt := by
  cases zt
  · rw [Bool.eq_false_iff, Ne, Lem.isZPlaquette_iff]; simp at h; omega
  · rw [Lem.isZPlaquette_iff]; simpa using h

theorem flat_inj' (R C : Int) (hR : 0 < R) (hC : 0 < C) (x y x' y' : Nat) (hx : (x : Int) < C) (hy : (y : Int) < R)
    (hx' : (x' : Int) < C) (hy' : (y' : Int) < R)
    (h : flatOf R C ((x : Int), (y : Int)) = flatOf R C ((x' : Int), (y' : Int))) : x = x' ∧ y = y' := by
  have := (flatOf_eq_iff R C hR hC _ _).mp h
  simp only at this
  rw [Int.emod_eq_of_lt (by omega) hx, Int.emod_eq_of_lt (by omega) hx', Int.emod_eq_of_lt (by omega) hy,
    Int.emod_eq_of_lt (by omega) hy'] at this
  omega

section
variable (R C : Int) (hR : 2 ≤ R) (hC : 2 ≤ C) (hRe : R % 2 = 0) (hCe : C % 2 = 0) (e : BVec)
  (he : e.length = 2 * nq R C) (hcomm : commAll (stabilizers R C) e = true)
include hR hC hRe hCe he hcomm

/-- a logical of type `zt` on the west column: `C` column translates -/
theorem wt_ge_cols (zt : Bool) (hanti : bsp e (sites R C (tyOp zt) (identity R C) (colN R.toNat)) = true) :
    C.toNat ≤ wt e := by
  have hR' : (0 : Int) < R := by omega
  have hC' : (0 : Int) < C := by omega
  apply wt_ge_of_grid (nq R C) e he C.toNat R.toNat (fun j i => flatOf R C ((j : Int), (i : Int)))
    (fun j i => tbit R C e (tyOp zt) ((j : Int), (i : Int)))
  · intro j i _ _ hb
    exact tbit_acts R C hR' hC' e _ _ hb
  · intro j i j' i' hj hi hj' hi' h
    exact (flat_inj' R C hR' hC' j i j' i' (by omega) (by omega) (by omega) (by omega) h).1
  · intro j hj
    rw [show R.toNat = 2 * (R / 2).toNat by omega]
    refine strip_pairs_periodic (R / 2).toNat ((j + (if zt then 0 else 1)) % 2) (by omega)
      (fun i : Nat => tbit R C e (tyOp zt) ((j : Int), (i : Int)))
      (fun i : Nat => tbit R C e (tyOp zt) (((j + 1 : Nat) : Int), (i : Int))) ?_ ?_ ?_
    · exact tbit_periodic R C hR' hC' e _ _ _ ⟨rfl, by
        simp only
        rw [show ((2 * (R / 2).toNat : Nat) : Int) = 0 + R by omega, Int.add_emod_right]; rfl⟩
    · exact tbit_periodic R C hR' hC' e _ _ _ ⟨rfl, by
        simp only
        rw [show ((2 * (R / 2).toNat : Nat) : Int) = 0 + R by omega, Int.add_emod_right]; rfl⟩
    · intro k hk
      have := stab_parity R C hR' hC' e he hcomm zt
        ((j : Int), ((2 * k + (j + (if zt then 0 else 1)) % 2 : Nat) : Int)) (by simp only; omega)
        (isZ_of_parity _ _ _ (by cases zt <;> simp only [if_true, if_false, Bool.false_eq_true] <;> omega))
      simp only at this
      rw [show ((j : Int) + 1) = ((j + 1 : Nat) : Int) by push_cast; rfl,
        show (((2 * k + (j + (if zt then 0 else 1)) % 2 : Nat) : Int) + 1) =
          ((2 * k + (j + (if zt then 0 else 1)) % 2 + 1 : Nat) : Int) by push_cast; rfl] at this
      exact regroup_columns _ _ _ _ this
  · refine ⟨0, by omega, ?_⟩
    rw [bsp_siteop R C hR' hC' e he] at hanti
    unfold colN at hanti
    rw [xorSum_map] at hanti
    exact hanti

/-- a logical of type `zt` on the south row: `R` row translates -/
theorem wt_ge_rows (zt : Bool) (hanti : bsp e (sites R C (tyOp zt) (identity R C) (rowN C.toNat)) = true) :
    R.toNat ≤ wt e := by
  have hR' : (0 : Int) < R := by omega
  have hC' : (0 : Int) < C := by omega
  apply wt_ge_of_grid (nq R C) e he R.toNat C.toNat (fun j i => flatOf R C ((i : Int), (j : Int)))
    (fun j i => tbit R C e (tyOp zt) ((i : Int), (j : Int)))
  · intro j i _ _ hb
    exact tbit_acts R C hR' hC' e _ _ hb
  · intro j i j' i' hj hi hj' hi' h
    exact (flat_inj' R C hR' hC' i j i' j' (by omega) (by omega) (by omega) (by omega) h).2
  · intro j hj
    rw [show C.toNat = 2 * (C / 2).toNat by omega]
    refine strip_pairs_periodic (C / 2).toNat ((j + (if zt then 0 else 1)) % 2) (by omega)
      (fun i : Nat => tbit R C e (tyOp zt) ((i : Int), (j : Int)))
      (fun i : Nat => tbit R C e (tyOp zt) ((i : Int), ((j + 1 : Nat) : Int))) ?_ ?_ ?_
    · exact tbit_periodic R C hR' hC' e _ _ _ ⟨by
        simp only
        rw [show ((2 * (C / 2).toNat : Nat) : Int) = 0 + C by omega, Int.add_emod_right]; rfl, rfl⟩
    · exact tbit_periodic R C hR' hC' e _ _ _ ⟨by
        simp only
        rw [show ((2 * (C / 2).toNat : Nat) : Int) = 0 + C by omega, Int.add_emod_right]; rfl, rfl⟩
    · intro k hk
      have := stab_parity R C hR' hC' e he hcomm zt
        (((2 * k + (j + (if zt then 0 else 1)) % 2 : Nat) : Int), (j : Int)) (by simp only; omega)
        (isZ_of_parity _ _ _ (by cases zt <;> simp only [if_true, if_false, Bool.false_eq_true] <;> omega))
      simp only at this
      rw [show ((j : Int) + 1) = ((j + 1 : Nat) : Int) by push_cast; rfl,
        show (((2 * k + (j + (if zt then 0 else 1)) % 2 : Nat) : Int) + 1) =
          ((2 * k + (j + (if zt then 0 else 1)) % 2 + 1 : Nat) : Int) by push_cast; rfl] at this
      exact regroup_rows _ _ _ _ this
  · refine ⟨0, by omega, ?_⟩
    rw [bsp_siteop R C hR' hC' e he] at hanti
    unfold rowN at hanti
    rw [xorSum_map] at hanti
    exact hanti

end

/-- **rotated toric lower bound**: every non-trivial logical has weight at least `min R C` -/
theorem lower (R C : Int) (hR : 2 ≤ R) (hC : 2 ≤ C) (hRe : R % 2 = 0) (hCe : C % 2 = 0) (e : BVec)
    (he : e.length = 2 * (nQubits R C).toNat)
    (h : IsLogical (stabilizers R C) (logicalXs R C ++ logicalZs R C) e) : min R C ≤ (wt e : Int) := by
  obtain ⟨hcomm, l, hl, hanti⟩ := h
  simp only [logicalXs, logicalZs, List.cons_append, List.nil_append, List.mem_cons, List.not_mem_nil,
    or_false] at hl
  rcases hl with rfl | rfl | rfl | rfl
  · rw [logicalX1_eq] at hanti
    have := wt_ge_cols R C hR hC hRe hCe e he hcomm false hanti; omega
  · rw [logicalX2_eq] at hanti
    have := wt_ge_rows R C hR hC hRe hCe e he hcomm false hanti; omega
  · rw [logicalZ1_eq] at hanti
    have := wt_ge_rows R C hR hC hRe hCe e he hcomm true hanti; omega
  · rw [logicalZ2_eq] at hanti
    have := wt_ge_cols R C hR hC hRe hCe e he hcomm true hanti; omega

end Qec.DistLower.RotatedToric
