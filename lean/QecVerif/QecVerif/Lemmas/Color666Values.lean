/-
  C10 — the colour 6.6.6 MPS decoder evaluates the four cosets with ONE partially contracted ket (that of the sample's
  own network): helper lemmas for Props/C10/Color666Values.lean.

  Route: the logical operators of `Color666Code` act on the sites of lattice column 0 only (`occ_logical`), the network
  cell `(i, c)` reads the sample only at lattice sites of column `c` (`cellKind`), so the networks of the sample and of
  its logical variants agree in every column `c ≥ 1`; a partial contraction reads only the columns of its range
  (`OptContract.contract_congr`), so the sample's ket IS the variant's ket and `cosetValue tnI tnK = cosetValue tnK tnK`.
-/
import QecVerif.Lemmas.Color666Tn
import QecVerif.Lemmas.OptContract
namespace Qec.Color666Values
open Qec Qec.Tensor Qec.TensorAlg Qec.TensorExact Qec.Coset Qec.Symp
open Qec.Color666Tn Qec.Color666 Qec.Color666Code Qec.Color666TnLemmas Qec.OptContract

/-! ### 1. the logical operators do not touch a site outside column 0 -/

/-- read-back at an in-lattice site of a column `c ≥ 1` is not changed by multiplying with a logical operator -/
theorem operatorAt_xor_logical (L : Int) (h : Odd3 L) (z : Bool) (f : BVec) (hf : f.length = 2 * nq L) (r c : Int)
    (hc : 1 ≤ c) (hb : inBounds L r c = true) (hs : (r + c) % 3 ≠ 2) :
    operatorAt L (xorV f (sites L (opOf z) (identity L) (logicalSites L))) r c = operatorAt L f r c := by
  have hl := siteop_length L z (logicalSites L)
  have hocc : occ (logicalSites L) (r, c) = false := by
    rw [occ_logical L h]; apply decide_eq_false; omega
  have h1 := getD_siteop_same L h z (logicalSites L) (allSites_logical L) (r, c) hs hb
  have h0 := getD_siteop_other L h z (logicalSites L) (allSites_logical L) (r, c) hs hb
  rw [hocc] at h1
  have e1 := operatorAt_eq L (xorV f (sites L (opOf z) (identity L) (logicalSites L))) (r, c)
  have e2 := operatorAt_eq L f (r, c)
  simp only at e1 e2
  rw [e1, e2, getD_xorV _ _ (by rw [hf, hl]), getD_xorV _ _ (by rw [hf, hl])]
  cases z
  · simp only [off, Bool.false_eq_true, if_false, Nat.zero_add, Bool.not_false, if_true] at h1 h0
    rw [h1, h0, Bool.xor_false, Bool.xor_false]
  · simp only [off, Bool.false_eq_true, if_false, Nat.zero_add, Bool.not_true, if_true] at h1 h0
    rw [h1, h0, Bool.xor_false, Bool.xor_false]

/-! ### 2. a network cell reads the sample only at the sites of its own lattice column -/

/-- two samples with the same operator on every in-lattice site of lattice column `c` -/
def AgreeCol (L : Int) (f g : BVec) (c : Int) : Prop :=
  ∀ r : Int, inBounds L r c = true → (r + c) % 3 ≠ 2 → operatorAt L g r c = operatorAt L f r c

theorem f2At_congr (L : Int) (f g : BVec) (r c : Int) (h : AgreeCol L f g c) : f2At L g r c = f2At L f r c := by
  unfold f2At
  by_cases hcond : (inBounds L (r + 1) c && isSite (r + 1) c) = true
  · rw [if_pos hcond, if_pos hcond]
    rw [Bool.and_eq_true] at hcond
    rw [h (r + 1) hcond.1 ((isSite_iff _ _).mp hcond.2)]
  · rw [if_neg hcond, if_neg hcond]

theorem cellKind_congr (L : Int) (f g : BVec) (i c : ℕ) (h : AgreeCol L f g (c : ℤ)) :
    cellKind L g i c = cellKind L f i c := by
  unfold cellKind
  simp only
  by_cases hpar : (3 * (i : ℤ) + (c : ℤ)) % 2 = 1
  · rw [if_pos hpar, if_pos hpar]
  · rw [if_neg hpar, if_neg hpar]
    obtain ⟨r1, hr1⟩ : ∃ r1 : ℤ, r1 = (if (c : ℤ) ≤ (3 * (i : ℤ) + (c : ℤ)) / 2 then (3 * (i : ℤ) + (c : ℤ)) / 2
        else (3 * (i : ℤ) + (c : ℤ)) / 2 + 1) := ⟨_, rfl⟩
    rw [← hr1]
    by_cases hin : (c : ℤ) ≤ r1 ∧ r1 ≤ bound L
    · rw [if_pos hin, if_pos hin]
      have hsite : (r1 + (c : ℤ)) % 3 ≠ 2 := by
        rw [hr1]; split_ifs <;> omega
      have hb : inBounds L r1 (c : ℤ) = true := (inBounds_iff _ _ _).mpr ⟨by omega, hin.1, hin.2⟩
      rw [h r1 hb hsite, f2At_congr L f g r1 c h]
    · rw [if_neg hin, if_neg hin]

theorem cell_congr (L : Int) (d : Dist Int) (f g : BVec) (i c : ℕ) (h : AgreeCol L f g (c : ℤ)) :
    Color666Tn.cell L d g i c = Color666Tn.cell L d f i c := by
  unfold Color666Tn.cell
  rw [cellKind_congr L f g i c h]

/-- the networks of two samples that agree on lattice column `c` have the same column `c` -/
theorem col_congr (m : ℕ) (d : Dist Int) (f g : BVec) (c : ℕ) (hc : c ≤ 3 * m) (h : AgreeCol (LL m) f g (c : ℤ)) :
    (colorTn (LL m) d g).col c = (colorTn (LL m) d f).col c := by
  unfold Net.col
  rw [nrows_colorTn, nrows_colorTn]
  apply List.map_congr_left
  intro r hr
  have hr' := List.mem_range.mp hr
  rw [site_colorTn m d g r c (by omega) hc, site_colorTn m d f r c (by omega) hc, cell_congr _ d f g r c h]

/-! ### 3. the shared ket -/

/-- the right-to-left partial contraction `contract(tn, start=-1, stop=0, step=-1)` reads the columns `≥ 1` only -/
theorem ket_congr (tn tn' : Net) (hn : tn.ncols = tn'.ncols) (h1 : 1 ≤ tn.ncols)
    (hcols : ∀ c, 1 ≤ c → c < tn.ncols → tn.col c = tn'.col c) :
    contract tn none false (some (-1)) (some 0) (some (-1)) none
      = contract tn' none false (some (-1)) (some 0) (some (-1)) none := by
  apply contract_congr tn tn' _ _ _ hn
  intro cr hcr c hcc
  have e : (0 : ℤ) = ((1 : ℕ) : ℤ) - 1 := by norm_num
  rw [e, colRange_rstop tn.ncols 1 (le_refl _) h1] at hcr
  obtain rfl : down 1 (tn.ncols - 1) = cr := by simpa using hcr
  obtain ⟨h2, h3⟩ := (mem_down _ _ _).mp hcc
  exact hcols c h2 (by omega)

/-- with a ket taken from a network `tnI` that agrees with `tnK` in every column `≥ 1`, the decoder's value for `tnK`
    is the value computed from `tnK` alone -/
theorem cosetValue_congr (tnI tnK : Net) (hn : tnI.ncols = tnK.ncols) (h1 : 1 ≤ tnI.ncols)
    (hcols : ∀ c, 1 ≤ c → c < tnI.ncols → tnI.col c = tnK.col c) :
    cosetValue tnI tnK = cosetValue tnK tnK := by
  unfold cosetValue
  rw [ket_congr tnI tnK hn h1 hcols]

/-! ### 4. the four variants -/

theorem odd3_LL (m : ℕ) (hm : 1 ≤ m) : Odd3 (LL m) := by unfold Odd3 LL; omega

theorem agreeCol_refl (L : Int) (f : BVec) (c : Int) : AgreeCol L f f c := fun _ _ _ => rfl

theorem agreeCol_trans (L : Int) (f g k : BVec) (c : Int) (h1 : AgreeCol L f g c) (h2 : AgreeCol L g k c) :
    AgreeCol L f k c := fun r hb hs => (h2 r hb hs).trans (h1 r hb hs)

theorem agreeCol_logical (m : ℕ) (hm : 1 ≤ m) (z : Bool) (f : BVec) (hf : f.length = 2 * nq (LL m)) (c : Int)
    (hc : 1 ≤ c) : AgreeCol (LL m) f (xorV f (sites (LL m) (opOf z) (identity (LL m)) (logicalSites (LL m)))) c :=
  fun r hb hs => operatorAt_xor_logical (LL m) (odd3_LL m hm) z f hf r c hc hb hs

/-- the value the decoder computes for a variant `g` of the sample `f` (ket of `f`'s network, first column of `g`'s
    network) is the value it would compute from `g`'s network alone, when `g` and `f` agree outside lattice column 0 -/
theorem cosetValue_variant (m : ℕ) (d : Dist Int) (f g : BVec)
    (h : ∀ c : ℕ, 1 ≤ c → AgreeCol (LL m) f g (c : ℤ)) :
    cosetValue (colorTn (LL m) d f) (colorTn (LL m) d g) = tnValue (LL m) d g := by
  unfold tnValue
  apply cosetValue_congr
  · rw [ncols_colorTn, ncols_colorTn]
  · rw [ncols_colorTn]; omega
  · intro c h1 h2
    rw [ncols_colorTn] at h2
    exact (col_congr m d f g c (by omega) (h c h1)).symm

end Qec.Color666Values
