/-
  C12 — the LINK between the two models of the canonical-form sweep:
    * the algebraic sweep relations `LSweep` / `TSweep` over real matrix chains (Lemmas/Sweep.lean), and
    * the shape / control-flow model `Qec.Mps.sweep`, `lcf`, `rcf`, `truncate` (Model/MpsShape.lean).

  `shapeOf` erases a chain to the list of tensor shapes `(N, E, S, W) = (left bond, physical, right bond, 1)`.
  `RSweep p mk row C nrm C' w orc tr` is a derivation of the truncating sweep in which every step follows the CODE's
  rule and which records what the code reads from LAPACK:
    * the step at position `row` is a QR step iff `p.qr || !mk row`, else an SVD step;
    * a QR step keeps `k = min(rows, cols)`, its scalar `c` (the `r_norm` divided out) is non-zero and is the oracle
      entry `Orc.qr rn`, `rn = c`;
    * an SVD step has singular values `sig` (the raw values: `sig[j] = c * σ_j`, `sig[0] = c = max_s ≠ 0`; oracle entry
      `Orc.svd sig`), keeps the prefix `e = Fin.castLE` of length `k = min(min(rows, cols), #keptSigmas chi tol sig)`,
      and at least one singular value is kept (`#keptSigmas ≠ 0`: a step where tol discards every value is the code's
      zero exit, like `max_s = 0`, and is no step of a derivation);
    * `orc` is the list of oracle entries in call order, `tr` the decomposition trace.
  Forgetting the decorations gives a `TSweep` (`RSweep.toTSweep`; an `LSweep` when every step is exact).
  `RSweep.shadow`: the shape model run on `shapeOf C` with the oracle `orc` returns `shapeOf C'`, the trace `tr`, and
  consumes exactly `orc`.  Helpers for Props/C12/Link.lean.
-/
import QecVerif.Lemmas.Sweep
import QecVerif.Lemmas.MpsShape
namespace Qec.SweepShape
open Matrix Qec.Sweep Qec.Sweep.Chain Qec.Mps Qec.MpsLemmas

/-! ### 1. erasure -/

/-- the shapes `(N, E, S, W)` of the sites of a chain: `(left bond, physical, right bond, 1)` -/
def shapeOf : {ds : List ℕ} → {l r : ℕ} → Chain ds l r → List Shape
  | _, _, _, .nil => []
  | _, _, _, .cons (d := d) (l := l) (m := m) _ C => ⟨l, d, m, 1⟩ :: shapeOf C

theorem shapeOf_cons {d : ℕ} {ds : List ℕ} {l m r : ℕ} (A : Fin d → Matrix (Fin l) (Fin m) ℝ) (C : Chain ds m r) :
    shapeOf (.cons A C) = ⟨l, d, m, 1⟩ :: shapeOf C := rfl

theorem shapeOf_mulLeft {d : ℕ} {ds : List ℕ} {k l m r : ℕ} (R : Matrix (Fin k) (Fin l) ℝ)
    (B : Fin d → Matrix (Fin l) (Fin m) ℝ) (C : Chain ds m r) :
    shapeOf ((Chain.cons B C).mulLeft R) = ⟨k, d, m, 1⟩ :: shapeOf C := rfl

theorem shapeOf_length : ∀ {ds : List ℕ} {l r : ℕ} (C : Chain ds l r), (shapeOf C).length = ds.length
  | _, _, _, .nil => rfl
  | _, _, _, .cons _ C => by rw [shapeOf_cons, List.length_cons, shapeOf_length C, List.length_cons]

/-- the physical dimensions are what the chain's index says -/
theorem shapeOf_phys : ∀ {ds : List ℕ} {l r : ℕ} (C : Chain ds l r), (shapeOf C).map (·.e) = ds
  | _, _, _, .nil => rfl
  | _, _, _, .cons _ C => by rw [shapeOf_cons, List.map_cons, shapeOf_phys C]

theorem shapeOf_scaleLast (a : ℝ) : ∀ {ds : List ℕ} {l r : ℕ} (C : Chain ds l r),
    shapeOf (C.scaleLast a) = shapeOf C
  | _, _, _, .nil => rfl
  | _, _, _, .cons _ .nil => rfl
  | _, _, _, .cons B (.cons B' C) => by
    have ih := shapeOf_scaleLast a (.cons B' C)
    simp only [scaleLast, shapeOf_cons] at ih ⊢
    rw [ih]

theorem shapeOf_snoc {d r : ℕ} : ∀ {ds : List ℕ} {l m : ℕ} (C : Chain ds l m) (A : Fin d → Matrix (Fin m) (Fin r) ℝ),
    shapeOf (C.snoc A) = shapeOf C ++ [⟨m, d, r, 1⟩]
  | _, _, _, .nil, _ => rfl
  | _, _, _, .cons B C, A => by
    show _ :: shapeOf (C.snoc A) = _
    rw [shapeOf_snoc C A]; rfl

/-- `mps.reverse` on shapes: reversed list, N and S swapped -/
theorem shapeOf_reverse : ∀ {ds : List ℕ} {l r : ℕ} (C : Chain ds l r),
    shapeOf C.reverse = (shapeOf C).reverse.map Shape.swap
  | _, _, _, .nil => rfl
  | _, _, _, .cons A C => by
    show shapeOf (C.reverse.snoc fun s => (A s)ᵀ) = _
    rw [shapeOf_snoc, shapeOf_reverse C, shapeOf_cons, List.reverse_cons, List.map_append]
    rfl

theorem rev_map_some (l : List Shape) : Mps.rev (l.map some) = (l.reverse.map Shape.swap).map some := by
  unfold Mps.rev
  rw [← List.map_reverse, List.map_map, List.map_map]
  rfl

/-- the model's `reverse` of the erased chain is the erasure of the reversed chain -/
theorem rev_shapeOf {ds : List ℕ} {l r : ℕ} (C : Chain ds l r) :
    Mps.rev ((shapeOf C).map some) = (shapeOf C.reverse).map some := by
  rw [rev_map_some, shapeOf_reverse]

/-! ### 2. sweeps that follow the code's rule, with the oracle read off -/

/-- see the header -/
inductive RSweep (p : Params) (mk : ℕ → Bool) :
    {ds : List ℕ} → {l r : ℕ} → ℕ → Chain ds l r → ℝ → Chain ds l r → ℝ → List Orc → List Step → Prop
  | last {d l r : ℕ} (row : ℕ) (A : Fin d → Matrix (Fin l) (Fin r) ℝ) :
      RSweep p mk row (.cons A .nil) 1 (.cons A .nil) 0 [] []
  | qr {d d' : ℕ} {ds : List ℕ} {l m r k : ℕ} (row : ℕ) (A : Fin d → Matrix (Fin l) (Fin m) ℝ)
      (C : Chain (d' :: ds) m r) (Q : Matrix (Fin l × Fin d) (Fin k) ℝ) (R : Matrix (Fin k) (Fin m) ℝ) (c nrm : ℝ)
      (C' : Chain (d' :: ds) k r) (w : ℝ) (rn : ℚ) (orc : List Orc) (tr : List Step)
      (huse : (p.qr || !(mk row)) = true) (hk : k = min (l * d * 1) m) (hrn : (rn : ℝ) = c) (hc : c ≠ 0)
      (hfac : stack A = c • (Q * R)) (hiso : Qᵀ * Q = 1)
      (hrest : RSweep p mk (row + 1) (C.mulLeft R) nrm C' w orc tr) :
      RSweep p mk row (.cons A C) (c * nrm) (.cons (unstack Q) C') (c ^ 2 * w) (.qr rn :: orc)
        (⟨row, true, l * d * 1, m, some k⟩ :: tr)
  | svd {d d' : ℕ} {ds : List ℕ} {l m r n k : ℕ} (row : ℕ) (A : Fin d → Matrix (Fin l) (Fin m) ℝ)
      (C : Chain (d' :: ds) m r) (U : Matrix (Fin l × Fin d) (Fin n) ℝ) (σv : Fin n → ℝ)
      (W : Matrix (Fin n) (Fin m) ℝ) (c : ℝ) (hkn : k ≤ n) (nrm : ℝ) (C' : Chain (d' :: ds) k r) (w : ℝ)
      (sig : List ℚ) (orc : List Orc) (tr : List Step)
      (huse : (p.qr || !(mk row)) = false) (hlen : sig.length = n)
      (hsig : ∀ j : Fin n, ((sig.getD j 0 : ℚ) : ℝ) = c * σv j) (hs0 : ((sig.headD 0 : ℚ) : ℝ) = c) (hc : c ≠ 0)
      (hk : k = min (min (l * d * 1) m) (keptSigmas p.chi p.tol sig).length)
      (hkept : (keptSigmas p.chi p.tol sig).length ≠ 0)
      (hfac : stack A = c • (U * diagonal σv * W)) (hU : Uᵀ * U = 1) (hW : W * Wᵀ = 1)
      (hrest : RSweep p mk (row + 1)
        (C.mulLeft (diagonal (σv ∘ Fin.castLE hkn) * W.submatrix (Fin.castLE hkn) id)) nrm C' w orc tr) :
      RSweep p mk row (.cons A C) (c * nrm) (.cons (unstack (U.submatrix id (Fin.castLE hkn))) C')
        (c ^ 2 * (∑ j, σv j ^ 2 - ∑ x, σv (Fin.castLE hkn x) ^ 2) + c ^ 2 * w) (.svd sig :: orc)
        (⟨row, false, l * d * 1, m, some k⟩ :: tr)

/-- forgetting the decorations: a sweep that follows the code's rule is a truncating sweep of Lemmas/Sweep.lean -/
theorem RSweep.toTSweep {p : Params} {mk : ℕ → Bool} {ds : List ℕ} {l r : ℕ} {row : ℕ} {C C' : Chain ds l r}
    {nrm w : ℝ} {orc : List Orc} {tr : List Step} (h : RSweep p mk row C nrm C' w orc tr) : TSweep C nrm C' w := by
  induction h with
  | last row A => exact TSweep.last A
  | qr row A C Q R c nrm C' w rn orc tr _ _ _ _ hfac hiso _ ih => exact TSweep.qr A C Q R c nrm C' w hfac hiso ih
  | svd row A C U σv W c hkn nrm C' w sig orc tr _ _ _ _ _ _ _ hfac hU hW _ ih =>
    exact TSweep.svd A C U σv W c (Fin.castLE hkn) (Fin.castLE_injective hkn) nrm C' w hfac hU hW ih

/-- … and an exact sweep `LSweep` when every step is a QR step (`qr=True`, or every visited site masked off) -/
theorem RSweep.toLSweep {p : Params} {mk : ℕ → Bool} (hq : ∀ row, (p.qr || !(mk row)) = true) {ds : List ℕ} {l r : ℕ}
    {row : ℕ} {C C' : Chain ds l r} {nrm w : ℝ} {orc : List Orc} {tr : List Step}
    (h : RSweep p mk row C nrm C' w orc tr) : LSweep C nrm C' := by
  induction h with
  | last row A => exact LSweep.last A
  | qr row A C Q R c nrm C' w rn orc tr _ _ _ _ hfac hiso _ ih => exact LSweep.step A C Q R c nrm C' hfac hiso ih
  | svd row A C U σv W c hkn nrm C' w sig orc tr huse _ _ _ _ _ _ hfac hU hW _ ih =>
    rw [hq row] at huse; cases huse

/-- an all-QR sweep discards nothing -/
theorem RSweep.weight_zero {p : Params} {mk : ℕ → Bool} (hq : ∀ row, (p.qr || !(mk row)) = true) {ds : List ℕ}
    {l r : ℕ} {row : ℕ} {C C' : Chain ds l r} {nrm w : ℝ} {orc : List Orc} {tr : List Step}
    (h : RSweep p mk row C nrm C' w orc tr) : w = 0 := by
  induction h with
  | last row A => rfl
  | qr row A C Q R c nrm C' w rn orc tr _ _ _ _ hfac hiso _ ih => rw [ih, mul_zero]
  | svd row A C U σv W c hkn nrm C' w sig orc tr huse _ _ _ _ _ _ hfac hU hW _ ih =>
    rw [hq row] at huse; cases huse

/-- every scalar divided out is non-zero -/
theorem RSweep.nrm_ne_zero {p : Params} {mk : ℕ → Bool} {ds : List ℕ} {l r : ℕ} {row : ℕ} {C C' : Chain ds l r}
    {nrm w : ℝ} {orc : List Orc} {tr : List Step} (h : RSweep p mk row C nrm C' w orc tr) : nrm ≠ 0 := by
  induction h with
  | last row A => exact one_ne_zero
  | qr row A C Q R c nrm C' w rn orc tr _ _ _ hc _ _ _ ih => exact mul_ne_zero hc ih
  | svd row A C U σv W c hkn nrm C' w sig orc tr _ _ _ _ hc _ _ _ _ _ _ ih => exact mul_ne_zero hc ih

/-! ### 3. one step of the shape model -/

theorem sweep_cons_keep {p : Params} {mk : ℕ → Bool} {row : ℕ} {cur nxt : Shape} {more : List Shape} {o : Orc}
    {orc' : List Orc} {k : ℕ} {r' : SweepRes}
    (h1 : stepDecide p (p.qr || !(mk row)) (cur.n * cur.e * cur.w) cur.s o = .ok (.keep k))
    (h2 : bondClash cur.s nxt.n = false)
    (h3 : sweep p mk (row + 1) { nxt with n := k } more orc' = .ok r') :
    sweep p mk row cur (nxt :: more) (o :: orc')
      = .ok ⟨r'.flow.cons { cur with s := k },
          ⟨row, p.qr || !(mk row), cur.n * cur.e * cur.w, cur.s, some k⟩ :: r'.trace, r'.rest⟩ := by
  rw [sweep]
  simp only [h1, h2, h3, Bool.false_eq_true, if_false]

theorem bondClash_self (m : ℕ) : bondClash m m = false := by simp [bondClash]

theorem stepDecide_qr {p : Params} {rows cols : ℕ} {rn : ℚ} (h : rn ≠ 0) :
    stepDecide p true rows cols (.qr rn) = .ok (.keep (min rows cols)) := by
  simp only [stepDecide, if_true, h, if_false]

theorem stepDecide_svd {p : Params} {rows cols : ℕ} {sig : List ℚ} (h : sig.headD 0 ≠ 0)
    (hkept : (keptSigmas p.chi p.tol sig).length ≠ 0) :
    stepDecide p false rows cols (.svd sig)
      = .ok (.keep (min (min rows cols) (keptSigmas p.chi p.tol sig).length)) := by
  cases sig with
  | nil => exact absurd rfl h
  | cons s0 rest =>
    have h' : s0 ≠ 0 := h
    simp only [stepDecide, Bool.false_eq_true, if_false, h', hkept]

/-- the oracle entries the sweep reads at the last site: none, or (normalise=True) the non-zero norm of the last
    tensor -/
def FinOk (p : Params) (fin : List Orc) : Prop :=
  (p.normalise = false ∧ fin = []) ∨ (p.normalise = true ∧ ∃ x : ℚ, x ≠ 0 ∧ fin = [.last x])

theorem sweep_last {p : Params} {mk : ℕ → Bool} {row : ℕ} {cur : Shape} {fin rest : List Orc} (hfin : FinOk p fin) :
    sweep p mk row cur [] (fin ++ rest) = .ok ⟨.done [cur], [], rest⟩ := by
  rcases hfin with ⟨hn, rfl⟩ | ⟨hn, x, hx, rfl⟩
  · simp only [sweep, hn, Bool.false_eq_true, if_false, List.nil_append]
  · simp only [sweep, hn, if_true, List.cons_append, List.nil_append, hx, if_false]

/-! ### 4. the shape model is the shadow of the sweep -/

/-- **shadow, sweep level.**  For a sweep `C ⟶ C'` that follows the code's rule, the shape model's loop started at
    position `row` on the shapes of `C`, with the oracle entries `orc` of the derivation (then the last-site entries
    `fin`, then anything), runs without error or zero flag, returns the shapes of `C'` and the trace `tr`, and leaves
    exactly the unread entries. -/
theorem RSweep.shadow {p : Params} {mk : ℕ → Bool} {ds : List ℕ} {l r : ℕ} {row : ℕ} {C C' : Chain ds l r}
    {nrm w : ℝ} {orc : List Orc} {tr : List Step} (h : RSweep p mk row C nrm C' w orc tr) (fin : List Orc)
    (hfin : FinOk p fin) (rest : List Orc) :
    ∃ cur more, shapeOf C = cur :: more ∧
      sweep p mk row cur more (orc ++ (fin ++ rest)) = .ok ⟨.done (shapeOf C'), tr, rest⟩ := by
  induction h with
  | last row A => exact ⟨_, [], rfl, sweep_last hfin⟩
  | @qr d d' ds0 l0 m r0 k row A C Q R c nrm C' w rn orc tr huse hk hrn hc hfac hiso _ ih =>
    obtain ⟨cur', more', hsh, hsw⟩ := ih
    cases C with
    | @cons _ _ _ m' _ B C0 =>
      rw [shapeOf_mulLeft] at hsh
      obtain ⟨rfl, rfl⟩ := List.cons.inj hsh
      refine ⟨⟨l0, d, m, 1⟩, ⟨m, d', m', 1⟩ :: shapeOf C0, rfl, ?_⟩
      have hrn0 : rn ≠ 0 := by
        intro h0; apply hc; rw [← hrn, h0]; norm_num
      have h1 : stepDecide p true (l0 * d * 1) m (.qr rn) = .ok (.keep k) := by
        rw [hk]; exact stepDecide_qr hrn0
      have := sweep_cons_keep (p := p) (mk := mk) (row := row) (cur := ⟨l0, d, m, 1⟩) (nxt := ⟨m, d', m', 1⟩)
        (more := shapeOf C0) (o := .qr rn) (orc' := orc ++ (fin ++ rest)) (k := k)
        (by rw [huse]; exact h1) (bondClash_self _) hsw
      rw [huse] at this
      rw [List.cons_append, this]
      rfl
  | @svd d d' ds0 l0 m r0 n k row A C U σv W c hkn nrm C' w sig orc tr huse hlen hsig hs0 hc hk hkept hfac hU hW _ ih =>
    obtain ⟨cur', more', hsh, hsw⟩ := ih
    cases C with
    | @cons _ _ _ m' _ B C0 =>
      rw [shapeOf_mulLeft] at hsh
      obtain ⟨rfl, rfl⟩ := List.cons.inj hsh
      refine ⟨⟨l0, d, m, 1⟩, ⟨m, d', m', 1⟩ :: shapeOf C0, rfl, ?_⟩
      have hs00 : sig.headD 0 ≠ 0 := by
        intro h0; apply hc; rw [← hs0, h0]; norm_num
      have h1 : stepDecide p false (l0 * d * 1) m (.svd sig) = .ok (.keep k) := by
        rw [hk]; exact stepDecide_svd hs00 hkept
      have := sweep_cons_keep (p := p) (mk := mk) (row := row) (cur := ⟨l0, d, m, 1⟩) (nxt := ⟨m, d', m', 1⟩)
        (more := shapeOf C0) (o := .svd sig) (orc' := orc ++ (fin ++ rest)) (k := k)
        (by rw [huse]; exact h1) (bondClash_self _) hsw
      rw [huse] at this
      rw [List.cons_append, this]
      rfl

/-! ### 5. `_mps_start_stop_indices` on a padded run -/

theorem aux0_replicate (a : ℕ) (l : List Site) (i : ℕ) :
    startStopAux (List.replicate a none ++ l) i none none = startStopAux l (i + a) none none := by
  induction a generalizing i with
  | zero => rfl
  | succ a ih =>
    rw [List.replicate_succ, List.cons_append]
    simp only [startStopAux, Option.isSome_none, Bool.false_eq_true, if_false]
    rw [ih]; congr 1; omega

theorem aux1_run (run : List Shape) (b i a : ℕ) :
    startStopAux (run.map some ++ List.replicate b none) i (some a) none
      = .ok (some a, if b = 0 then none else some (i + run.length)) := by
  induction run generalizing i with
  | nil =>
    cases b with
    | zero => rfl
    | succ b =>
      rw [List.map_nil, List.nil_append, List.replicate_succ]
      simp only [startStopAux, Option.isNone_none, if_true, aux2_eq]
      simp
  | cons t ts ih =>
    rw [List.map_cons, List.cons_append]
    simp only [startStopAux, Option.isNone_some, Bool.false_eq_true, if_false]
    rw [ih, show i + 1 + ts.length = i + (t :: ts).length by simp only [List.length_cons]; omega]

theorem startStop_padded (a b : ℕ) (cur : Shape) (more : List Shape) :
    startStop (List.replicate a none ++ ((cur :: more).map some ++ List.replicate b none))
      = .ok (a, a + (more.length + 1)) := by
  unfold startStop
  rw [aux0_replicate, List.map_cons, List.cons_append]
  simp only [startStopAux, Option.isSome_some, if_true]
  rw [aux1_run]
  by_cases hb : b = 0
  · subst hb
    simp only [if_true, List.replicate_zero, List.append_nil, List.length_append, List.length_replicate,
      List.length_cons, List.length_map, Except.ok.injEq, Prod.mk.injEq]
    exact ⟨by omega, trivial⟩
  · simp only [hb, if_false, Except.ok.injEq, Prod.mk.injEq]
    constructor <;> omega

/-- `left_canonical_form` of the shape model on a padded run, in terms of its loop -/
theorem lcf_padded (p : Params) (a b : ℕ) (cur : Shape) (more : List Shape) (orc : List Orc) (sr : SweepRes)
    (out : List Shape) (h1 : (p.chiOn && p.qr) = false) (h2 : (p.tolOn && p.qr) = false)
    (h3 : maskLenBad p.mask (List.replicate a none ++ ((cur :: more).map some ++ List.replicate b none)) = false)
    (hsw : sweep p (maskAt p.mask) a cur more orc = .ok sr) (hflow : sr.flow = .done out) :
    lcf p (List.replicate a none ++ ((cur :: more).map some ++ List.replicate b none)) orc
      = .ok ⟨List.replicate a none ++ (out.map some ++ List.replicate b none), false, sr.trace, sr.rest⟩ := by
  obtain ⟨e1, e2, e3⟩ := split3 (m := List.replicate a none ++ ((cur :: more).map some ++ List.replicate b none))
    rfl (List.length_replicate ..) (n := more.length + 1) (by simp)
  unfold lcf
  rw [h1, h2, h3]
  simp only [Bool.false_eq_true, if_false, startStop_padded]
  rw [show a + (more.length + 1) - a = more.length + 1 by omega, e2, filterMap_id_map_some]
  simp only [hsw, hflow, e1, e3, List.append_assoc]

/-! ### 6. converse for QR sweeps: every zero-free run of the shape model is the shadow of a derivation -/

/-- thin QR factorisations exist for every shape and every non-zero scalar (what LAPACK's `qr(mode='economic')`
    followed by the division of `R` by its norm delivers): a HYPOTHESIS of the converse, not proved here -/
def QRProvider : Prop :=
  ∀ {l d m : ℕ} (M : Matrix (Fin l × Fin d) (Fin m) ℝ) (c : ℝ), c ≠ 0 →
    ∃ (Q : Matrix (Fin l × Fin d) (Fin (min (l * d * 1) m)) ℝ) (R : Matrix (Fin (min (l * d * 1) m)) (Fin m) ℝ),
      M = c • (Q * R) ∧ Qᵀ * Q = 1

theorem stepDecide_qr_inv {p : Params} {rows cols : ℕ} {o : Orc} {k : ℕ}
    (h : stepDecide p true rows cols o = .ok (.keep k)) : ∃ rn : ℚ, o = .qr rn ∧ rn ≠ 0 ∧ k = min rows cols := by
  cases o with
  | qr rn =>
    simp only [stepDecide, if_true] at h
    by_cases h0 : rn = 0
    · rw [if_pos h0] at h; cases h
    · rw [if_neg h0] at h; cases h; exact ⟨rn, rfl, h0, rfl⟩
  | svd sig => simp [stepDecide] at h
  | last x => simp [stepDecide] at h

theorem exists_rsweep_of_run (prov : QRProvider) (p : Params) (mk : ℕ → Bool)
    (hq : ∀ row, (p.qr || !(mk row)) = true) :
    ∀ {ds : List ℕ} {l r : ℕ} (C : Chain ds l r) (row : ℕ) (cur : Shape) (more : List Shape) (orc : List Orc)
      (sr : SweepRes) (out : List Shape), shapeOf C = cur :: more → sweep p mk row cur more orc = .ok sr →
      sr.flow = .done out →
      ∃ (nrm w : ℝ) (C' : Chain ds l r) (orc' fin : List Orc), orc = orc' ++ (fin ++ sr.rest) ∧ FinOk p fin ∧
        RSweep p mk row C nrm C' w orc' sr.trace ∧ shapeOf C' = out := by
  intro ds
  induction ds with
  | nil => intro l r C; cases C; intro row cur more orc sr out hsh; cases hsh
  | cons d ds ih =>
    intro l r C
    cases C with
    | @cons _ _ _ m _ A C0 =>
      intro row cur more orc sr out hsh hrun hflow
      cases C0 with
      | nil =>
        obtain ⟨rfl, rfl⟩ := List.cons.inj hsh
        rcases sweep_nil_ok hrun with ⟨hn, rfl⟩ | ⟨hn, x, orc1, rfl, ⟨hx, rfl⟩ | ⟨hx, rfl⟩⟩
        · simp only [Flow.done.injEq] at hflow
          exact ⟨1, 0, _, [], [], rfl, Or.inl ⟨hn, rfl⟩, RSweep.last row A, hflow⟩
        · cases hflow
        · simp only [Flow.done.injEq] at hflow
          exact ⟨1, 0, _, [], [.last x], rfl, Or.inr ⟨hn, x, hx, rfl⟩, RSweep.last row A, hflow⟩
      | @cons d' ds' _ m' _ B C1 =>
        obtain ⟨rfl, rfl⟩ := List.cons.inj hsh
        obtain ⟨o, orc1, rfl, ⟨_, rfl⟩ | ⟨k, r', hstep, _, hsw, rfl⟩⟩ := sweep_cons_ok hrun
        · cases hflow
        · rw [hq row] at hstep
          obtain ⟨rn, rfl, hrn0, rfl⟩ := stepDecide_qr_inv hstep
          obtain ⟨out', hf', rfl⟩ := flow_cons_done hflow
          have hc : (rn : ℝ) ≠ 0 := by exact_mod_cast hrn0
          obtain ⟨Q, R, hfac, hiso⟩ := prov (stack A) (rn : ℝ) hc
          obtain ⟨nrm, w, C', orc', fin, rfl, hfin, hrs, hout⟩ :=
            ih ((Chain.cons B C1).mulLeft R) (row + 1) ⟨min (l * d * 1) m, d', m', 1⟩ (shapeOf C1) orc1 r' out' rfl
              hsw hf'
          refine ⟨(rn : ℝ) * nrm, (rn : ℝ) ^ 2 * w, .cons (unstack Q) C', .qr rn :: orc', fin, rfl, hfin, ?_, ?_⟩
          · rw [hq row]
            exact RSweep.qr row A (.cons B C1) Q R (rn : ℝ) nrm C' w rn orc' r'.trace (hq row) rfl rfl hc hfac hiso hrs
          · rw [shapeOf_cons, hout]

end Qec.SweepShape
