/-
  Helper lemmas for Props/C02/SmwpmExists2.lean — the items left open by Props/C02/SmwpmExists.lean:
  * the generators of one type of the rotated toric code XOR to the identity, all even sizes (`xdep_all`, `alldep_all`);
  * lists ordered by a key (`byKey`): pairing up within the classes of the key;
  * infinite bias: the matching that pairs row nodes within rows and column nodes within columns.
-/
import QecVerif.Lemmas.SmwpmExists
import QecVerif.Lemmas.Lattice.RotatedToricCode
namespace Qec.SmwpmX2
open Qec Qec.Smwpm Qec.SmwpmL Qec.SmwpmX

/-! ## the generators of one type XOR to the identity (rotated toric, all even sizes) -/

section Dep
open Qec.RotatedToric Qec.RotatedToric.Lem Qec.RotatedToricCode Qec.Symp

/-- **double cover, full list, with a selection**: a site lies in exactly two in-lattice plaquettes `Q`, `Q'` of the
    type of `a`; the number of SELECTED plaquettes of that type around the site is `sel Q + sel Q'` -/
theorem cover_sel_aux (R C : Int) (hR : 0 < R) (hC : 0 < C) (hRe : R % 2 = 0) (hCe : C % 2 = 0)
    (sel : Int × Int → Bool)
    (a s Q Q' : Int × Int) (hQx : Q.1 = s.1 - 1 ∨ Q.1 = s.1) (hQy : Q.2 = s.2 - 1 ∨ Q.2 = s.2)
    (hx : Q'.1 = 2 * s.1 - 1 - Q.1) (hy : Q'.2 = 2 * s.2 - 1 - Q.2)
    (hpar : (Q.1 - Q.2 - (a.1 - a.2)) % 2 = 0) :
    parity (fun p => sel p && (sameType a p && inc R C s p)) (plaquetteIndices R C) =
      xor (sel (modIndex R C Q)) (sel (modIndex R C Q')) := by
  have hpar' : (Q'.1 - Q'.2 - (a.1 - a.2)) % 2 = 0 := by omega
  have tQ := sameType_modIndex R C hRe hCe a Q hpar
  have tQ' := sameType_modIndex R C hRe hCe a Q' hpar'
  have hin : ∀ p ∈ plaquetteIndices R C, inBounds R C p.1 p.2 = true :=
    fun p hp => (mem_plaquetteIndices R C p).mp hp
  have hterm : ∀ p ∈ plaquetteIndices R C, (sel p && (sameType a p && inc R C s p)) =
      xor (sel (modIndex R C Q) && decide (p = modIndex R C Q)) (sel (modIndex R C Q') && decide (p = modIndex R C Q')) := by
    intro p hp
    have h0 : (sameType a p && inc R C s p) = xor (decide (p = modIndex R C Q)) (decide (p = modIndex R C Q')) := by
      by_cases ht : sameType a p = true
      · have hpp := (sameType_iff a p).mp ht
        rw [ht, Bool.true_and, site_flip2 R C hR hC hRe hCe s p Q Q' hQx hQy hx hy (by omega),
          decide_eq_decide.mpr (eq_modIndex_iff R C p Q (hin p hp)),
          decide_eq_decide.mpr (eq_modIndex_iff R C p Q' (hin p hp))]
      · have ht' : sameType a p = false := by simpa using ht
        have n1 : decide (p = modIndex R C Q) = false := by
          apply decide_eq_false; intro h; rw [h] at ht; exact ht tQ
        have n2 : decide (p = modIndex R C Q') = false := by
          apply decide_eq_false; intro h; rw [h] at ht; exact ht tQ'
        rw [ht', n1, n2]; rfl
    rw [h0]
    by_cases h1 : p = modIndex R C Q
    · by_cases h2 : p = modIndex R C Q'
      · rw [← h1, ← h2]; simp
      · rw [← h1]; simp [h2]
    · by_cases h2 : p = modIndex R C Q'
      · rw [← h2]; simp [h1]
      · simp [h1, h2]
  rw [parity_congr _ _ _ hterm, parity_xor, parity_const_and, parity_const_and,
    parity_eq_mem _ (nodup_plaquetteIndices R C), parity_eq_mem _ (nodup_plaquetteIndices R C)]
  have m1 : modIndex R C Q ∈ plaquetteIndices R C :=
    (mem_plaquetteIndices R C _).mpr (inBounds_modIndex R C hR hC Q)
  have m2 : modIndex R C Q' ∈ plaquetteIndices R C :=
    (mem_plaquetteIndices R C _).mpr (inBounds_modIndex R C hR hC Q')
  simp [m1, m2]

theorem cover_sel (R C : Int) (hR : 0 < R) (hC : 0 < C) (hRe : R % 2 = 0) (hCe : C % 2 = 0)
    (sel : Int × Int → Bool) (a s : Int × Int) :
    parity (fun p => sel p && (sameType a p && inc R C s p)) (plaquetteIndices R C) =
      if (s.1 - s.2 - (a.1 - a.2)) % 2 = 0 then
        xor (sel (modIndex R C (s.1, s.2))) (sel (modIndex R C (s.1 - 1, s.2 - 1)))
      else xor (sel (modIndex R C (s.1 - 1, s.2))) (sel (modIndex R C (s.1, s.2 - 1))) := by
  by_cases h : (s.1 - s.2 - (a.1 - a.2)) % 2 = 0
  · rw [if_pos h]
    exact cover_sel_aux R C hR hC hRe hCe sel a s (s.1, s.2) (s.1 - 1, s.2 - 1)
      (Or.inr rfl) (Or.inr rfl) (by simp only []; omega) (by simp only []; omega) (by simp only []; omega)
  · rw [if_neg h]
    exact cover_sel_aux R C hR hC hRe hCe sel a s (s.1 - 1, s.2) (s.1, s.2 - 1)
      (Or.inl rfl) (Or.inr rfl) (by simp only []; omega) (by simp only []; omega) (by simp only []; omega)

theorem cover (R C : Int) (hR : 0 < R) (hC : 0 < C) (hRe : R % 2 = 0) (hCe : C % 2 = 0) (a s : Int × Int) :
    parity (fun p => sameType a p && inc R C s p) (plaquetteIndices R C) = false := by
  have := cover_sel R C hR hC hRe hCe (fun _ => true) a s
  simpa using this

/-- bit `j` of the XOR of the rows `f p`, `p ∈ idx` -/
theorem getD_xorAll_map {ι : Type} (m : Nat) (f : ι → BVec) : ∀ (idx : List ι), (∀ p ∈ idx, (f p).length = m) →
    ∀ j, (xorAll m (idx.map f)).getD j false = xorSum idx (fun p => (f p).getD j false)
  | [], _, j => by
    have : xorAll m [] = zeros m := rfl
    simp only [List.map_nil, this, xorSum_nil]; exact Symp.getD_zeros m j
  | p :: rest, hlen, j => by
    have ih := getD_xorAll_map m f rest (fun q hq => hlen q (List.mem_cons_of_mem _ hq)) j
    have hl : (xorAll m (rest.map f)).length = m := by
      apply Ftp.xorAll_length
      intro r hr
      obtain ⟨q, hq, rfl⟩ := List.mem_map.mp hr
      exact hlen q (List.mem_cons_of_mem _ hq)
    rw [List.map_cons, Dec.xorAll_cons, getD_xorV _ _ (by rw [hl, hlen p List.mem_cons_self]), ih, xorSum_cons]

theorem xorSum_filter {ι : Type} (sel : ι → Bool) (g : ι → Bool) : ∀ (l : List ι),
    xorSum (l.filter sel) g = xorSum l (fun p => sel p && g p)
  | [] => rfl
  | p :: l => by
    rw [List.filter_cons, xorSum_cons, ← xorSum_filter sel g l]
    cases sel p <;> simp

theorem plaquetteOp_xBit (p : Int × Int) : (plaquetteOp p.1 p.2).xBit = sameType (1, 0) p := by
  unfold plaquetteOp sameType
  rw [isZ_10]
  cases isZPlaquette p.1 p.2 <;> rfl

theorem plaquetteOp_zBit (p : Int × Int) : (plaquetteOp p.1 p.2).zBit = sameType (0, 0) p := by
  unfold plaquetteOp sameType
  rw [isZ_00]
  cases isZPlaquette p.1 p.2 <;> rfl

/-- the selected generators XOR to the identity when the selection is a union of plaquette types -/
theorem dep_of_types (R C : Int) (hR : 0 < R) (hC : 0 < C) (hRe : R % 2 = 0) (hCe : C % 2 = 0)
    (sel : Int × Int → Bool) (bx bz : Bool)
    (hx : ∀ p, (sel p && sameType (1, 0) p) = (bx && sameType (1, 0) p))
    (hz : ∀ p, (sel p && sameType (0, 0) p) = (bz && sameType (0, 0) p)) :
    xorAll (2 * nq R C) (((plaquetteIndices R C).filter sel).map (stabOf R C)) = zeros (2 * nq R C) := by
  have hlen : ∀ p ∈ (plaquetteIndices R C).filter sel, (stabOf R C p).length = 2 * nq R C :=
    fun p _ => stabOf_length R C p
  apply bvec_ext
  · rw [Ftp.xorAll_length _ _ (by
      intro r hr
      obtain ⟨q, _, rfl⟩ := List.mem_map.mp hr
      exact stabOf_length R C q), Symp.zeros_length]
  · intro j hj
    rw [Ftp.xorAll_length _ _ (by
      intro r hr
      obtain ⟨q, _, rfl⟩ := List.mem_map.mp hr
      exact stabOf_length R C q)] at hj
    rw [getD_xorAll_map _ _ _ hlen, xorSum_filter, Symp.getD_zeros, ← parity_eq_xorSum]
    by_cases hlt : j < nq R C
    · obtain ⟨s, _, rfl⟩ := flatOf_surj R C hC j hlt
      rw [parity_congr _ (fun p => bx && (sameType (1, 0) p && inc R C s p)) _ (by
        intro p _
        rw [(stab_bits R C hR hC p s).1, plaquetteOp_xBit, ← Bool.and_assoc, hx p, Bool.and_assoc]),
        parity_const_and, cover R C hR hC hRe hCe (1, 0) s, Bool.and_false]
    · obtain ⟨j', rfl⟩ : ∃ j', j = nq R C + j' := ⟨j - nq R C, by omega⟩
      obtain ⟨s, _, rfl⟩ := flatOf_surj R C hC j' (by omega)
      rw [parity_congr _ (fun p => bz && (sameType (0, 0) p && inc R C s p)) _ (by
        intro p _
        rw [(stab_bits R C hR hC p s).2, plaquetteOp_zBit, ← Bool.and_assoc, hz p, Bool.and_assoc]),
        parity_const_and, cover R C hR hC hRe hCe (0, 0) s, Bool.and_false]

theorem isXp_eq (p : Int × Int) : T.isXp p = sameType (1, 0) p := by
  unfold T.isXp RotatedPlanar.isXPlaquette sameType
  rw [isZ_10]
  unfold isZPlaquette isXPlaquette
  cases (p.1 - p.2) % 2 == 1 <;> rfl

theorem sameType_excl (p : Int × Int) : (sameType (1, 0) p && sameType (0, 0) p) = false := by
  unfold sameType
  rw [isZ_10, isZ_00]
  cases isZPlaquette p.1 p.2 <;> rfl

/-- the X-type generators XOR to the identity, all even sizes -/
theorem xdep_all (R C : Int) (hS : Size R C) :
    xorAll (2 * nq R C) (((plaquetteIndices R C).filter T.isXp).map (stabOf R C)) = zeros (2 * nq R C) := by
  obtain ⟨hR, hC, hRe, hCe⟩ := hS
  apply dep_of_types R C (by omega) (by omega) hRe hCe T.isXp true false
  · intro p; rw [isXp_eq]; cases sameType (1, 0) p <;> rfl
  · intro p; rw [isXp_eq, sameType_excl]; rfl

/-- all generators XOR to the identity, all even sizes -/
theorem alldep_all (R C : Int) (hS : Size R C) :
    xorAll (2 * nq R C) (((plaquetteIndices R C).filter fun _ => true).map (stabOf R C)) = zeros (2 * nq R C) := by
  obtain ⟨hR, hC, hRe, hCe⟩ := hS
  exact dep_of_types R C (by omega) (by omega) hRe hCe (fun _ => true) true true (fun _ => rfl) (fun _ => rfl)

/-- a selection of plaquettes that is a union of lattice lines of one orientation: whether the (reduced) plaquette is
    selected depends on one coordinate only -/
def LineSel (R C : Int) (sel : Int × Int → Bool) : Prop :=
  (∀ x x' y, sel (modIndex R C (x, y)) = sel (modIndex R C (x', y))) ∨
  (∀ x y y', sel (modIndex R C (x, y)) = sel (modIndex R C (x, y')))

/-- **the generators of a line XOR to a Y-type operator**: around every site a line holds as many X-type as Z-type
    plaquettes, so the X-bit and the Z-bit of the XOR of the line's generators agree at every site -/
theorem line_ybits (R C : Int) (hR : 0 < R) (hC : 0 < C) (hRe : R % 2 = 0) (hCe : C % 2 = 0)
    (sel : Int × Int → Bool) (hsel : LineSel R C sel) (j : Nat) (hj : j < nq R C) :
    (xorAll (2 * nq R C) (((plaquetteIndices R C).filter sel).map (stabOf R C))).getD j false =
      (xorAll (2 * nq R C) (((plaquetteIndices R C).filter sel).map (stabOf R C))).getD (nq R C + j) false := by
  have hlen : ∀ p ∈ (plaquetteIndices R C).filter sel, (stabOf R C p).length = 2 * nq R C :=
    fun p _ => stabOf_length R C p
  obtain ⟨s, _, rfl⟩ := flatOf_surj R C hC j hj
  rw [getD_xorAll_map _ _ _ hlen, getD_xorAll_map _ _ _ hlen, xorSum_filter, xorSum_filter, ← parity_eq_xorSum,
    ← parity_eq_xorSum,
    parity_congr _ (fun p => sel p && (sameType (1, 0) p && inc R C s p)) _ (by
      intro p _
      rw [(stab_bits R C hR hC p s).1, plaquetteOp_xBit]),
    parity_congr (fun p => sel p && (stabOf R C p).getD (nq R C + flatOf R C s) false)
      (fun p => sel p && (sameType (0, 0) p && inc R C s p)) _ (by
      intro p _
      rw [(stab_bits R C hR hC p s).2, plaquetteOp_zBit]),
    cover_sel R C hR hC hRe hCe sel (1, 0) s, cover_sel R C hR hC hRe hCe sel (0, 0) s]
  have hA : xor (sel (modIndex R C (s.1, s.2))) (sel (modIndex R C (s.1 - 1, s.2 - 1))) =
      xor (sel (modIndex R C (s.1 - 1, s.2))) (sel (modIndex R C (s.1, s.2 - 1))) := by
    rcases hsel with h | h
    · rw [h s.1 (s.1 - 1) s.2, h (s.1 - 1) s.1 (s.2 - 1)]
    · rw [h s.1 s.2 (s.2 - 1), h (s.1 - 1) (s.2 - 1) s.2, Bool.xor_comm]
  by_cases h : (s.1 - s.2 - ((1 : Int) - 0)) % 2 = 0
  · have h' : ¬ (s.1 - s.2 - ((0 : Int) - 0)) % 2 = 0 := by omega
    simp only [] at h h' ⊢
    rw [if_pos h, if_neg h', hA]
  · have h' : (s.1 - s.2 - ((0 : Int) - 0)) % 2 = 0 := by omega
    simp only [] at h h' ⊢
    rw [if_neg h, if_pos h', hA]

theorem selRow_line (R C : Int) (j : Int) : LineSel R C (fun p => decide (p.2 = j)) :=
  Or.inl fun _ _ _ => by simp only [modIndex_eq]

theorem selCol_line (R C : Int) (i : Int) : LineSel R C (fun p => decide (p.1 = i)) :=
  Or.inr fun _ _ _ => by simp only [modIndex_eq]

end Dep

/-! ## Y-only errors commute with Y-type operators -/

/-- an error with equal X- and Z-part commutes with every operator whose X- and Z-bits agree -/
theorem bsp_yonly (n : Nat) (e g : BVec) (he : e.length = 2 * n) (hg : g.length = 2 * n)
    (hey : xHalf e = zHalf e) (hgy : ∀ j, j < n → g.getD j false = g.getD (n + j) false) : bsp e g = false := by
  have hgh : xHalf g = zHalf g := by
    unfold xHalf zHalf
    have hn : g.length / 2 = n := by omega
    rw [hn]
    apply Symp.bvec_ext
    · simp only [List.length_take, List.length_drop]; omega
    · intro j hj
      simp only [List.length_take] at hj
      have hj' : j < n := by omega
      have := hgy j hj'
      simp only [List.getD_eq_getElem?_getD, List.getElem?_take, List.getElem?_drop, hj', if_true] at this ⊢
      exact this
  rw [bsp_halves e g (by rw [he, hg]) (by omega), hey, hgh]
  cases dot (zHalf e) (zHalf g) <;> rfl

/-- if `e` commutes with the XOR of the selected generators, its syndrome has an even number of selected defects -/
theorem wX_synd_even' (sel : Dec.Idx2 → Bool) (m : Nat) (plaqs : List Dec.Idx2) (f : Dec.Idx2 → BVec)
    (hf : ∀ p ∈ plaqs, (f p).length = m) (e : BVec)
    (hdep : bsp e (xorAll m ((plaqs.filter sel).map f)) = false) :
    T.wX sel plaqs (synd (plaqs.map f) e) % 2 = 0 := by
  have h := T.count_bsp_parity sel m e f plaqs hf
  rw [hdep] at h
  unfold T.wX synd
  rw [List.map_map]
  have e1 : ((fun row => bsp e row) ∘ f) = fun p => bsp e (f p) := rfl
  rw [e1, T.pick_map, List.filter_filter, ← List.countP_eq_length_filter]
  simpa using h

/-- **a Y-only error leaves an even number of defects on every line of the rotated toric code** -/
theorem toric_line_even (R C : Int) (hS : RotatedToricCode.Size R C) (sel : Int × Int → Bool)
    (hsel : LineSel R C sel) (e : BVec) (he : e.length = 2 * RotatedToricCode.nq R C) (hey : xHalf e = zHalf e) :
    T.wX sel (RotatedToric.plaquetteIndices R C) (synd (RotatedToric.stabilizers R C) e) % 2 = 0 := by
  obtain ⟨hR, hC, hRe, hCe⟩ := hS
  rw [RotatedToric.Lem.stabilizers_eq_map]
  apply wX_synd_even' sel (2 * RotatedToricCode.nq R C) _ _ (fun p _ => RotatedToricCode.stabOf_length R C p)
  apply bsp_yonly (RotatedToricCode.nq R C) e _ he _ hey
  · intro j hj
    exact line_ybits R C (by omega) (by omega) hRe hCe sel hsel j hj
  · apply Ftp.xorAll_length
    intro r hr
    obtain ⟨q, _, rfl⟩ := List.mem_map.mp hr
    exact RotatedToricCode.stabOf_length R C q

/-! ## lists ordered by a key -/

/-- `l` reordered: the classes of `key`, in the order of `keys` -/
def byKey {α κ : Type} [DecidableEq κ] (keys : List κ) (key : α → κ) (l : List α) : List α :=
  keys.flatMap fun j => l.filter fun k => decide (key k = j)

theorem mem_byKey {α κ : Type} [DecidableEq κ] (keys : List κ) (key : α → κ) (l : List α) (k : α) :
    k ∈ byKey keys key l ↔ k ∈ l ∧ key k ∈ keys := by
  unfold byKey
  simp only [List.mem_flatMap, List.mem_filter, decide_eq_true_eq]
  constructor
  · rintro ⟨j, hj, hk, rfl⟩; exact ⟨hk, hj⟩
  · rintro ⟨hk, hj⟩; exact ⟨key k, hj, hk, rfl⟩

theorem byKey_nodup {α κ : Type} [DecidableEq κ] (keys : List κ) (key : α → κ) (l : List α)
    (hk : keys.Nodup) (hl : l.Nodup) : (byKey keys key l).Nodup := by
  unfold byKey
  rw [List.nodup_flatMap]
  refine ⟨fun j _ => hl.filter _, ?_⟩
  apply List.Pairwise.imp _ hk
  intro a b hab x hxa hxb
  simp only [List.mem_filter, decide_eq_true_eq] at hxa hxb
  exact hab (hxa.2.symm.trans hxb.2)

theorem length_flatMap_even {α β : Type} (f : β → List α) : ∀ (L : List β),
    (∀ a ∈ L, (f a).length % 2 = 0) → (L.flatMap f).length % 2 = 0
  | [], _ => rfl
  | a :: L, h => by
    have := length_flatMap_even f L (fun b hb => h b (List.mem_cons_of_mem _ hb))
    have h1 := h a List.mem_cons_self
    rw [List.flatMap_cons, List.length_append]; omega

theorem pairUp_flatMap {α β : Type} (f : β → List α) : ∀ (L : List β), (∀ a ∈ L, (f a).length % 2 = 0) →
    Dec.pairUp (L.flatMap f) = L.flatMap fun a => Dec.pairUp (f a)
  | [], _ => rfl
  | a :: L, h => by
    rw [List.flatMap_cons, List.flatMap_cons, pairUp_append _ _ (h a List.mem_cons_self),
      pairUp_flatMap f L (fun b hb => h b (List.mem_cons_of_mem _ hb))]

theorem byKey_even {α κ : Type} [DecidableEq κ] (keys : List κ) (key : α → κ) (l : List α)
    (h : ∀ j ∈ keys, (l.filter fun k => decide (key k = j)).length % 2 = 0) : (byKey keys key l).length % 2 = 0 :=
  length_flatMap_even _ keys h

/-- pairing up a key-ordered list with even classes pairs elements of the same class -/
theorem byKey_pair {α κ : Type} [DecidableEq κ] (keys : List κ) (key : α → κ) (l : List α) (hl : l.Nodup)
    (h : ∀ j ∈ keys, (l.filter fun k => decide (key k = j)).length % 2 = 0) :
    ∀ y ∈ Dec.pairUp (byKey keys key l), y.1 ∈ l ∧ y.2 ∈ l ∧ y.1 ≠ y.2 ∧ key y.1 = key y.2 := by
  intro y hy
  unfold byKey at hy
  rw [pairUp_flatMap _ keys h, List.mem_flatMap] at hy
  obtain ⟨j, _, hy⟩ := hy
  obtain ⟨m1, m2, hne⟩ := Dec.pairUp_mem _ (hl.filter _) y hy
  simp only [List.mem_filter, decide_eq_true_eq] at m1 m2
  exact ⟨m1.1, m2.1, hne, m1.2.trans m2.2.symm⟩

/-- the integers `0, …, n - 1` -/
def intRange (lo : Int) (n : Int) : List Int := (List.range n.toNat).map fun (i : Nat) => lo + (i : Int)

theorem mem_intRange (lo n j : Int) : j ∈ intRange lo n ↔ lo ≤ j ∧ j < lo + n := by
  unfold intRange
  simp only [List.mem_map, List.mem_range]
  constructor
  · rintro ⟨i, hi, rfl⟩; omega
  · intro h; exact ⟨(j - lo).toNat, by omega, by omega⟩

theorem intRange_nodup (lo n : Int) : (intRange lo n).Nodup := by
  unfold intRange
  apply List.nodup_range.map
  intro a b h; simp only at h; omega

/-! ## rotated toric, infinite bias: pair row nodes within rows, column nodes within columns -/

namespace T
open Qec.SmwpmX.T

/-- **the explicit matching at infinite bias** (rotated toric, `p ≠ 0`): the row nodes of each group (time step
    without time-like edges, else everything) are ordered by rows and paired up, the column nodes by columns -/
def lineMatching (fl : Flags) (R C : Int) (rows : List BVec) : List (Node × Node) :=
  (groupsSpace fl.q01 rows.length).flatMap fun g =>
    mk (byKey (intRange 0 R) (fun k : TIdx => k.2.2) (usedSpace R C rows g))
      (byKey (intRange 0 C) (fun k : TIdx => k.2.1) (usedSpace R C rows g)) []

theorem usedSpace_inB (R C : Int) (rows : List BVec) (g : Option Nat) (k : TIdx) (hk : k ∈ usedSpace R C rows g) :
    0 ≤ k.2.1 ∧ k.2.1 < C ∧ 0 ≤ k.2.2 ∧ k.2.2 < R := by
  have : ∃ t : Nat, k ∈ SmwpmX.T.defectsAt R C rows t := by
    cases g with
    | none =>
      obtain ⟨t, _, h⟩ := (mem_allDefects R C rows k).mp hk
      exact ⟨t, h⟩
    | some t => exact ⟨t, hk⟩
  obtain ⟨t, ht⟩ := this
  have := (defect_inB R C rows t _ ((SmwpmX.T.mem_defectsAt R C rows t k).mp ht).2).2
  unfold SmwpmL.T.InB sp at this
  simp only at this
  omega

/-- the line strategy on the torus: a perfect matching when every line of every group holds an even number of
    defects -/
theorem line_space (fl : Flags) (R C : Int) (rows : List BVec) (hp : fl.pZero = false)
    (hev : ∀ g ∈ groupsSpace fl.q01 rows.length, ∀ j : Int,
      ((usedSpace R C rows g).filter fun k => decide (k.2.2 = j)).length % 2 = 0 ∧
      ((usedSpace R C rows g).filter fun k => decide (k.2.1 = j)).length % 2 = 0) :
    Dec.isPerfectMatchingOfGraph (Toric.graphNodes R C rows) (Toric.graphEdges fl R C rows)
      (lineMatching fl R C rows) = true := by
  unfold lineMatching
  have hgn : (groupsSpace fl.q01 rows.length).Nodup := by
    unfold groupsSpace
    split
    · exact List.nodup_range.map (fun a b h => Option.some.inj h)
    · simp
  have hmemR : ∀ g k, k ∈ byKey (intRange 0 R) (fun k : TIdx => k.2.2) (usedSpace R C rows g) ↔
      k ∈ usedSpace R C rows g := by
    intro g k
    rw [mem_byKey, mem_intRange]
    constructor
    · exact fun h => h.1
    · intro h; have := usedSpace_inB R C rows g k h; exact ⟨h, by omega⟩
  have hmemC : ∀ g k, k ∈ byKey (intRange 0 C) (fun k : TIdx => k.2.1) (usedSpace R C rows g) ↔
      k ∈ usedSpace R C rows g := by
    intro g k
    rw [mem_byKey, mem_intRange]
    constructor
    · exact fun h => h.1
    · intro h; have := usedSpace_inB R C rows g k h; exact ⟨h, by omega⟩
  have hkey : ∀ g ∈ groupsSpace fl.q01 rows.length, ∀ k,
      k ∈ usedSpace R C rows g →
        (fun k : TIdx => if fl.q01 = true then some k.1.toNat else none) k = g := by
    intro g hg k hk
    unfold groupsSpace at hg
    by_cases hq : fl.q01 = true
    · rw [if_pos hq] at hg
      simp only [if_pos hq]
      obtain ⟨t, _, rfl⟩ := List.mem_map.mp hg
      have := ((SmwpmX.T.mem_defectsAt R C rows t k).mp hk).1
      congr 1; omega
    · rw [if_neg hq, List.mem_singleton] at hg
      simp only [if_neg hq]; exact hg.symm
  obtain ⟨g1, g2⟩ := group_spec (groupsSpace fl.q01 rows.length) hgn
    (fun k : TIdx => if fl.q01 = true then some k.1.toNat else none)
    (fun g => byKey (intRange 0 R) (fun k : TIdx => k.2.2) (usedSpace R C rows g))
    (fun g => byKey (intRange 0 C) (fun k : TIdx => k.2.1) (usedSpace R C rows g)) (fun _ => [])
    (fun g hg => byKey_even _ _ _ (fun j _ => (hev g hg j).1))
    (fun g hg => byKey_even _ _ _ (fun j _ => (hev g hg j).2))
    (fun g _ => byKey_nodup _ _ _ (intRange_nodup 0 R) (usedSpace_nodup R C rows g))
    (fun g _ => byKey_nodup _ _ _ (intRange_nodup 0 C) (usedSpace_nodup R C rows g))
    (fun _ _ => List.nodup_nil) (fun g _ k => by rw [hmemR, hmemC]) (fun _ _ _ _ h => by cases h)
    (fun g hg k h => by
      simp only [List.not_mem_nil, or_false] at h
      exact hkey g hg k ((hmemR g k).mp h))
  apply pm_of_nodup _ _ _ g1
  · rintro ⟨k, o⟩
    rw [g2, SmwpmL.T.mem_graphNodes R C rows, ← node_iff_space fl.q01 R C rows k]
    constructor
    · rintro ⟨g, hg, h⟩
      simp only [List.not_mem_nil, or_false] at h
      exact ⟨g, hg, Or.inl ((hmemR g k).mp h)⟩
    · rintro ⟨g, hg, h⟩
      simp only [List.not_mem_nil, or_false] at h
      exact ⟨g, hg, Or.inl ((hmemR g k).mpr h)⟩
  · intro x hx
    rw [List.mem_flatMap] at hx
    obtain ⟨g, hg, hx⟩ := hx
    have hnode : ∀ k, k ∈ usedSpace R C rows g → SmwpmL.T.IsNode R C rows k := fun k hk =>
      (node_iff_space fl.q01 R C rows k).mp ⟨g, hg, Or.inl hk⟩
    have hpair : ∀ (o : Bool) (y : TIdx × TIdx), y.1 ∈ usedSpace R C rows g → y.2 ∈ usedSpace R C rows g →
        y.1 ≠ y.2 → (if o = true then y.1.2.2 = y.2.2.2 else y.1.2.1 = y.2.2.1) →
        ((y.1, o), (y.2, o)) ∈ Toric.graphEdges fl R C rows ∨ ((y.2, o), (y.1, o)) ∈ Toric.graphEdges fl R C rows := by
      intro o y m1 m2 hne hline
      apply edge_same fl R C rows o y.1 y.2 (hnode _ m1) (hnode _ m2) hne
      · intro hq
        have k1 := hkey g hg y.1 m1
        have k2 := hkey g hg y.2 m2
        simp only [if_pos hq] at k1 k2
        have := Option.some.inj (k1.trans k2.symm)
        have t1 := (hnode _ m1).2
        have t2 := (hnode _ m2).2
        obtain ⟨t1, e1, _⟩ := t1
        obtain ⟨t2, e2, _⟩ := t2
        omega
      · intro h; rw [hp] at h; cases h
      · intro _; exact hline
    rcases mem_mk _ _ _ x hx with ⟨y, hy, rfl⟩ | ⟨y, hy, rfl⟩ | ⟨v, hv, _⟩
    · obtain ⟨m1, m2, hne, hk⟩ := byKey_pair _ _ _ (usedSpace_nodup R C rows g) (fun j _ => (hev g hg j).1) y hy
      exact hpair true y m1 m2 hne (by simpa using hk)
    · obtain ⟨m1, m2, hne, hk⟩ := byKey_pair _ _ _ (usedSpace_nodup R C rows g) (fun j _ => (hev g hg j).2) y hy
      exact hpair false y m1 m2 hne (by simpa using hk)
    · cases hv

end T


/-! ## supports of error models, syndromes of several step errors -/

/-- support of a Y-only error model (infinite bias): equal X- and Z-part -/
def YOnly (n : Nat) (e : BVec) : Prop := e.length = 2 * n ∧ xHalf e = zHalf e

theorem yonly_zeros (n : Nat) : YOnly n (zeros (2 * n)) := by
  refine ⟨Symp.zeros_length _, ?_⟩
  unfold xHalf zHalf zeros
  simp only [List.length_replicate, List.take_replicate, List.drop_replicate]
  congr 1; omega

theorem yonly_xor (n : Nat) (a b : BVec) (ha : YOnly n a) (hb : YOnly n b) : YOnly n (xorV a b) := by
  obtain ⟨la, ea⟩ := ha
  obtain ⟨lb, eb⟩ := hb
  have hl : (xorV a b).length = 2 * n := by rw [xorV_length _ _ (by rw [la, lb]), la]
  refine ⟨hl, ?_⟩
  unfold xHalf zHalf at ea eb ⊢
  rw [hl]; rw [la] at ea; rw [lb] at eb
  unfold xorV
  rw [List.take_zipWith, List.drop_zipWith, ea, eb]

theorem synd_zeros (S : List BVec) (k : Nat) : synd S (zeros k) = zeros S.length := by
  unfold synd zeros
  rw [List.eq_replicate_iff]
  refine ⟨by simp, ?_⟩
  intro b hb
  obtain ⟨r, _, rfl⟩ := List.mem_map.mp hb
  exact Symp.bsp_zeros_left k r

/-- if every row is the syndrome of an error in the support, so is the XOR of the rows -/
theorem synd_rows_xorAll (n : Nat) (S : List BVec) (supp : BVec → Prop) (hS : ∀ s ∈ S, s.length = 2 * n)
    (h0 : supp (zeros (2 * n))) (hx : ∀ a b, supp a → supp b → supp (xorV a b))
    (hl : ∀ e, supp e → e.length = 2 * n) : ∀ (rows : List BVec), (∀ r ∈ rows, ∃ e, supp e ∧ synd S e = r) →
    ∃ e, supp e ∧ synd S e = xorAll S.length rows
  | [], _ => ⟨zeros (2 * n), h0, synd_zeros S _⟩
  | r :: rows, h => by
    obtain ⟨e1, s1, rfl⟩ := h r List.mem_cons_self
    obtain ⟨e2, s2, h2⟩ := synd_rows_xorAll n S supp hS h0 hx hl rows (fun r' hr' => h r' (List.mem_cons_of_mem _ hr'))
    refine ⟨xorV e1 e2, hx _ _ s1 s2, ?_⟩
    rw [Dec.xorAll_cons, ← h2]
    exact C09.synd_add S e1 e2 (by rw [hl e1 s1, hl e2 s2]) (by rw [hl e1 s1]; omega)
      (by intro x hx'; rw [hS x hx', hl e1 s1])

theorem sum_even : ∀ (l : List Nat), (∀ a ∈ l, a % 2 = 0) → l.sum % 2 = 0
  | [], _ => rfl
  | a :: l, h => by
    have := sum_even l (fun b hb => h b (List.mem_cons_of_mem _ hb))
    have := h a List.mem_cons_self
    rw [List.sum_cons]; omega

theorem getD_mem_or_nil (rows : List BVec) (t : Nat) : rows.getD t [] ∈ rows ∨ rows.getD t [] = [] := by
  rw [List.getD_eq_getElem?_getD]
  by_cases h : t < rows.length
  · rw [List.getElem?_eq_getElem h]; exact Or.inl (List.getElem_mem h)
  · rw [List.getElem?_eq_none (by omega)]; exact Or.inr rfl

/-! ## `error_probability == 0`: only measurement flips -/

theorem pick_zeros {ι : Type} : ∀ (plaqs : List ι) (m : Nat), Pairing.pick plaqs (zeros m) = []
  | [], _ => by simp [Pairing.pick]
  | p :: ps, 0 => by simp [Pairing.pick, zeros]
  | p :: ps, m + 1 => by
    have ih := pick_zeros ps m
    have e : zeros (m + 1) = false :: zeros m := by simp [zeros, List.replicate_succ]
    unfold Pairing.pick at ih ⊢
    rw [e]; simpa using ih

theorem pick_nil {ι : Type} (plaqs : List ι) : Pairing.pick plaqs [] = [] := by
  cases plaqs <;> simp [Pairing.pick]

/-- rotated planar: a zero row has no defects -/
theorem planar_no_defect (R C : Int) (rows : List BVec) (m : Nat) (h : ∀ r ∈ rows, r = zeros m) (t : Nat) (p : Dec.Idx2) :
    isDefect R C rows t p = false := by
  unfold isDefect
  rw [SmwpmL.syndromeToPlaquettes_eq_pick]
  rcases getD_mem_or_nil rows t with hm | hm
  · rw [h _ hm, pick_zeros]; simp
  · rw [hm, pick_nil]; simp

theorem toric_no_defect (R C : Int) (rows : List BVec) (m : Nat) (h : ∀ r ∈ rows, r = zeros m) (t : Nat) (p : Dec.Idx2) :
    Toric.isDefect R C rows t p = false := by
  unfold Toric.isDefect
  have e : RotatedToric.syndromeToPlaquettes R C (rows.getD t []) =
      Pairing.pick (RotatedToric.plaquetteIndices R C) (rows.getD t []) := rfl
  rw [e]
  rcases getD_mem_or_nil rows t with hm | hm
  · rw [h _ hm, pick_zeros]; simp
  · rw [hm, pick_nil]; simp

theorem map_eq_zeros {ι : Type} (l : List ι) (f : ι → Bool) (m : Nat) (h : l.map f = zeros m) : ∀ p ∈ l, f p = false := by
  intro p hp
  have : f p ∈ l.map f := List.mem_map.mpr ⟨p, hp, rfl⟩
  rw [h] at this
  exact (List.mem_replicate.mp this).2

/-- rotated planar: rows that XOR to zero show every plaquette as a defect at an even number of time steps -/
theorem planar_even_times (R C : Int) (rows : List BVec)
    (hrows : ∀ r ∈ rows, r.length = (RotatedPlanar.plaquetteIndices R C).length)
    (h : xorAll (RotatedPlanar.plaquetteIndices R C).length rows = zeros (RotatedPlanar.plaquetteIndices R C).length)
    (p : Dec.Idx2) : ((List.range rows.length).countP fun t => isDefect R C rows t p) % 2 = 0 := by
  by_cases hp : p ∈ RotatedPlanar.plaquetteIndices R C
  · have := map_eq_zeros _ _ _ ((SmwpmL.xorAll_rows R C rows hrows).symm.trans h) p hp
    simp only [decide_eq_false_iff_not] at this
    omega
  · have : ∀ t, isDefect R C rows t p = false := by
      intro t
      rw [Bool.eq_false_iff]; intro hd
      exact hp ((RotatedPlanarCode.mem_plaquetteIndices R C p).mpr (defect_plaqIn R C rows t p hd))
    simp [this]

theorem toric_even_times (R C : Int) (rows : List BVec)
    (hrows : ∀ r ∈ rows, r.length = (RotatedToric.plaquetteIndices R C).length)
    (h : xorAll (RotatedToric.plaquetteIndices R C).length rows = zeros (RotatedToric.plaquetteIndices R C).length)
    (p : Dec.Idx2) : ((List.range rows.length).countP fun t => Toric.isDefect R C rows t p) % 2 = 0 := by
  by_cases hp : p ∈ RotatedToric.plaquetteIndices R C
  · have := map_eq_zeros _ _ _ ((SmwpmL.T.xorAll_rows R C rows hrows).symm.trans h) p hp
    simp only [decide_eq_false_iff_not] at this
    omega
  · have : ∀ t, Toric.isDefect R C rows t p = false := by
      intro t
      rw [Bool.eq_false_iff]; intro hd
      exact hp (SmwpmX.T.defect_inB R C rows t p hd).1
    simp [this]

/-! ## rotated planar, infinite bias: a T-join over the boundary lines

  Row nodes may only be matched within their row, column nodes within their column; a virtual node is matched with its
  twin or, when USED, in its row and in its column.  The used virtual plaquettes repair the parity of every line that
  has one: an interior line with an odd number of defects uses its own boundary plaquette, the three corners SW, NW, SE
  absorb what that does to the four boundary lines. -/

namespace P
open RotatedPlanar RotatedPlanarCode

def allDefects (R C : Int) (rows : List BVec) : List TIdx := (List.range rows.length).flatMap (defectsAt R C rows)

/-- the defects of a group: one time step, or all of them -/
def usedSpace (R C : Int) (rows : List BVec) : Option Nat → List TIdx
  | some t => defectsAt R C rows t
  | none => allDefects R C rows

/-- the time step whose virtual nodes a group uses -/
def tg : Option Nat → Nat
  | some t => t
  | none => 0

/-- number of defects in row `y` / column `x` -/
def dr (D : List TIdx) (y : Int) : Nat := (D.filter fun k => decide (k.2.2 = y)).length
def dc (D : List TIdx) (x : Int) : Nat := (D.filter fun k => decide (k.2.1 = x)).length

/-- `-1, 0, …, n - 2, n - 1` -/
def lineKeys (n : Int) : List Int := -1 :: (intRange 0 (n - 1) ++ [n - 1])

def leftL (R C : Int) (D : List TIdx) : List Int :=
  (intRange 0 (R - 1)).filter fun y => isVirtualPlaquette R C (-1) y && oddB (dr D y)
def rightL (R C : Int) (D : List TIdx) : List Int :=
  (intRange 0 (R - 1)).filter fun y => isVirtualPlaquette R C (C - 1) y && decide (y % 2 = 0) && oddB (dr D y)
def botL (R C : Int) (D : List TIdx) : List Int :=
  (intRange 0 (C - 1)).filter fun x => isVirtualPlaquette R C x (-1) && oddB (dc D x)
def topL (R C : Int) (D : List TIdx) : List Int :=
  (intRange 0 (C - 1)).filter fun x => isVirtualPlaquette R C x (R - 1) && decide (x % 2 = 1) && oddB (dc D x)
def uNW (R C : Int) (D : List TIdx) : Bool := oddB (dr D (R - 1) + (topL R C D).length)
def uSE (R C : Int) (D : List TIdx) : Bool := oddB (dc D (C - 1) + (rightL R C D).length)
def uSW (R C : Int) (D : List TIdx) : Bool :=
  oddB (dc D (-1) + (leftL R C D).length + (if uNW R C D then 1 else 0))

/-- the virtual plaquettes used in their row and column (not twinned) -/
def usedV (R C : Int) (D : List TIdx) : List Dec.Idx2 :=
  (leftL R C D).map (fun y => ((-1 : Int), y)) ++ ((rightL R C D).map (fun y => (C - 1, y)) ++
  ((botL R C D).map (fun x => (x, (-1 : Int))) ++ ((topL R C D).map (fun x => (x, R - 1)) ++
  ((if uNW R C D then [((-1 : Int), R - 1)] else []) ++ ((if uSE R C D then [(C - 1, (-1 : Int))] else []) ++
  (if uSW R C D then [((-1 : Int), (-1 : Int))] else []))))))

def usedT (R C : Int) (rows : List BVec) (g : Option Nat) : List TIdx :=
  (usedV R C (usedSpace R C rows g)).map (tix (tg g))

/-- all virtual nodes of a group -/
def allV (R C : Int) (T : Nat) : Option Nat → List TIdx
  | some t => (virtualPlaqs R C).map (tix t)
  | none => (List.range T).flatMap fun t => (virtualPlaqs R C).map (tix t)

def twins (R C : Int) (rows : List BVec) (g : Option Nat) : List TIdx :=
  (allV R C rows.length g).filter fun k => !decide (k ∈ usedT R C rows g)

/-- **the explicit matching at infinite bias** (rotated planar, `p ≠ 0`) -/
def lineMatching (fl : Flags) (R C : Int) (rows : List BVec) : List (Node × Node) :=
  (T.groupsSpace fl.q01 rows.length).flatMap fun g =>
    mk (byKey (lineKeys R) (fun k : TIdx => k.2.2) (usedSpace R C rows g ++ usedT R C rows g))
      (byKey (lineKeys C) (fun k : TIdx => k.2.1) (usedSpace R C rows g ++ usedT R C rows g)) (twins R C rows g)

/-! ### closed forms, counting -/

theorem virt_iff (R C x y : Int) : isVirtualPlaquette R C x y = true ↔
    (x = -1 ∨ x = C - 1 ∨ y = -1 ∨ y = R - 1) ∧ ¬ PlaqIn R C (x, y) := by
  have hb := inPlaquetteBounds_iff R C x y
  unfold isVirtualPlaquette maxSiteX maxSiteY
  by_cases h : inPlaquetteBounds R C x y = true
  · simp [h, hb.mp h]
  · have h' : inPlaquetteBounds R C x y = false := by simpa using h
    have hn : ¬ PlaqIn R C (x, y) := fun hp => h (hb.mpr hp)
    simp only [h', Bool.not_false, Bool.and_true, Bool.or_eq_true, beq_iff_eq, hn, not_false_eq_true, and_true]
    omega

theorem virt_boundary (R C x y : Int) (hb : x = -1 ∨ x = C - 1 ∨ y = -1 ∨ y = R - 1) :
    isVirtualPlaquette R C x y = true ↔ ¬ PlaqIn R C (x, y) := by
  rw [virt_iff]; exact ⟨fun h => h.2, fun h => ⟨hb, h⟩⟩

theorem mem_lineKeys (n : Int) (hn : 1 ≤ n) (j : Int) : j ∈ lineKeys n ↔ -1 ≤ j ∧ j ≤ n - 1 := by
  unfold lineKeys
  simp only [List.mem_cons, List.mem_append, mem_intRange, List.not_mem_nil, or_false]
  omega

theorem lineKeys_nodup (n : Int) (hn : 1 ≤ n) : (lineKeys n).Nodup := by
  unfold lineKeys
  rw [List.nodup_cons]
  constructor
  · simp only [List.mem_append, mem_intRange, List.mem_cons, List.not_mem_nil, or_false]; omega
  · rw [List.nodup_append]
    refine ⟨intRange_nodup _ _, by simp, ?_⟩
    intro a ha b hb
    rw [mem_intRange] at ha
    simp only [List.mem_cons, List.not_mem_nil, or_false] at hb
    omega

theorem cnt_var (L : List Int) (hL : L.Nodup) (P : Int → Bool) (f : Int → Dec.Idx2) (q : Dec.Idx2 → Bool) (j : Int)
    (h : ∀ y, q (f y) = decide (y = j)) :
    ((L.filter P).map f).countP q = if j ∈ L ∧ P j = true then 1 else 0 := by
  rw [List.countP_map]
  have e : (L.filter P).countP (q ∘ f) = (L.filter P).count j := by
    rw [List.count_eq_countP]
    apply List.countP_congr
    intro y _
    simp [h y]
  rw [e, (hL.filter P).count]
  simp only [List.mem_filter]

theorem cnt_const (L : List Int) (f : Int → Dec.Idx2) (q : Dec.Idx2 → Bool) (b : Bool) (h : ∀ y, q (f y) = b) :
    (L.map f).countP q = if b = true then L.length else 0 := by
  rw [List.countP_map]
  cases b
  · simp only [Bool.false_eq_true, if_false]
    rw [List.countP_eq_zero]
    intro y _; simp [h y]
  · simp only [if_true]
    rw [List.countP_eq_length]
    intro y _; simp [h y]

theorem cnt_one (u : Bool) (v : Dec.Idx2) (q : Dec.Idx2 → Bool) :
    (if u = true then [v] else []).countP q = if u = true ∧ q v = true then 1 else 0 := by
  cases u <;> cases hq : q v <;> simp [hq]

theorem oddB_iff (n : Nat) : oddB n = true ↔ n % 2 = 1 := by unfold oddB; simp

/-- a list of counts whose parities are given entry by entry -/
theorem count_parity (P Q : Int → Bool) (f : Int → Nat) : ∀ (l : List Int),
    (∀ y ∈ l, ((if P y = true then 1 else 0) + (if Q y = true then 1 else 0)) % 2 = f y % 2) →
    ((l.filter P).length + (l.filter Q).length) % 2 = (l.map f).sum % 2
  | [], _ => rfl
  | a :: l, h => by
    have ih := count_parity P Q f l (fun y hy => h y (List.mem_cons_of_mem _ hy))
    have ha := h a List.mem_cons_self
    rw [List.filter_cons, List.filter_cons, List.map_cons, List.sum_cons]
    cases hp : P a <;> cases hq : Q a <;> simp only [hp, hq, Bool.false_eq_true, if_false, if_true, List.length_cons] at ha ⊢ <;> omega

/-- the class sizes of a duplicate-free list add up to its length -/
theorem sum_classes {α : Type} (keys : List Int) (hk : keys.Nodup) (key : α → Int) (l : List α) (hl : l.Nodup)
    (h : ∀ k ∈ l, key k ∈ keys) :
    (keys.map fun j => (l.filter fun k => decide (key k = j)).length).sum = l.length := by
  have e : (byKey keys key l).length = (keys.map fun j => (l.filter fun k => decide (key k = j)).length).sum := by
    unfold byKey; rw [List.length_flatMap]
  rw [← e]
  apply List.Perm.length_eq
  rw [List.perm_ext_iff_of_nodup (byKey_nodup keys key l hk hl) hl]
  intro k
  rw [mem_byKey]
  exact ⟨fun h' => h'.1, fun h' => ⟨h', h k h'⟩⟩

/-! ### the parity of every line after adding the used virtual plaquettes -/

/-- indicator of a Boolean as a number -/
def ind (b : Bool) : Nat := if b = true then 1 else 0

theorem ind_oddB (n : Nat) : ind (oddB n) = n % 2 := by
  unfold ind oddB
  rcases Nat.mod_two_eq_zero_or_one n with h | h <;> simp [h]

theorem row_cnt (R C : Int) (D : List TIdx) (j : Int) :
    (usedV R C D).countP (fun v => decide (v.2 = j)) =
      ind (decide (j ∈ intRange 0 (R - 1)) && (isVirtualPlaquette R C (-1) j && oddB (dr D j))) +
      (ind (decide (j ∈ intRange 0 (R - 1)) &&
        (isVirtualPlaquette R C (C - 1) j && decide (j % 2 = 0) && oddB (dr D j))) +
      ((if decide ((-1 : Int) = j) = true then (botL R C D).length else 0) +
      ((if decide (R - 1 = j) = true then (topL R C D).length else 0) +
      (ind (uNW R C D && decide (R - 1 = j)) + (ind (uSE R C D && decide ((-1 : Int) = j)) +
        ind (uSW R C D && decide ((-1 : Int) = j))))))) := by
  have c1 : ((leftL R C D).map fun y => ((-1 : Int), y)).countP (fun v => decide (v.2 = j)) =
      ind (decide (j ∈ intRange 0 (R - 1)) && (isVirtualPlaquette R C (-1) j && oddB (dr D j))) := by
    refine (cnt_var (intRange 0 (R - 1)) (intRange_nodup _ _)
      (fun y => isVirtualPlaquette R C (-1) y && oddB (dr D y)) (fun y => ((-1 : Int), y))
      (fun v => decide (v.2 = j)) j (fun y => rfl)).trans ?_
    unfold ind; simp only [Bool.and_eq_true, decide_eq_true_eq]
  have c2 : ((rightL R C D).map fun y => (C - 1, y)).countP (fun v => decide (v.2 = j)) =
      ind (decide (j ∈ intRange 0 (R - 1)) &&
        (isVirtualPlaquette R C (C - 1) j && decide (j % 2 = 0) && oddB (dr D j))) := by
    refine (cnt_var (intRange 0 (R - 1)) (intRange_nodup _ _)
      (fun y => isVirtualPlaquette R C (C - 1) y && decide (y % 2 = 0) && oddB (dr D y)) (fun y => (C - 1, y))
      (fun v => decide (v.2 = j)) j (fun y => rfl)).trans ?_
    unfold ind; simp only [Bool.and_eq_true, decide_eq_true_eq]
  have c3 := cnt_const (botL R C D) (fun x => (x, (-1 : Int))) (fun v => decide (v.2 = j)) (decide ((-1 : Int) = j))
    (fun _ => rfl)
  have c4 := cnt_const (topL R C D) (fun x => (x, R - 1)) (fun v => decide (v.2 = j)) (decide (R - 1 = j))
    (fun _ => rfl)
  have c5 : (if uNW R C D = true then [((-1 : Int), R - 1)] else []).countP (fun v => decide (v.2 = j)) =
      ind (uNW R C D && decide (R - 1 = j)) := by
    rw [cnt_one]; unfold ind; simp only [Bool.and_eq_true]
  have c6 : (if uSE R C D = true then [(C - 1, (-1 : Int))] else []).countP (fun v => decide (v.2 = j)) =
      ind (uSE R C D && decide ((-1 : Int) = j)) := by
    rw [cnt_one]; unfold ind; simp only [Bool.and_eq_true]
  have c7 : (if uSW R C D = true then [((-1 : Int), (-1 : Int))] else []).countP (fun v => decide (v.2 = j)) =
      ind (uSW R C D && decide ((-1 : Int) = j)) := by
    rw [cnt_one]; unfold ind; simp only [Bool.and_eq_true]
  unfold usedV
  simp only [List.countP_append]
  rw [c1, c2, c3, c4, c5, c6, c7]

theorem col_cnt (R C : Int) (D : List TIdx) (i : Int) :
    (usedV R C D).countP (fun v => decide (v.1 = i)) =
      (if decide ((-1 : Int) = i) = true then (leftL R C D).length else 0) +
      ((if decide (C - 1 = i) = true then (rightL R C D).length else 0) +
      (ind (decide (i ∈ intRange 0 (C - 1)) && (isVirtualPlaquette R C i (-1) && oddB (dc D i))) +
      (ind (decide (i ∈ intRange 0 (C - 1)) &&
        (isVirtualPlaquette R C i (R - 1) && decide (i % 2 = 1) && oddB (dc D i))) +
      (ind (uNW R C D && decide ((-1 : Int) = i)) + (ind (uSE R C D && decide (C - 1 = i)) +
        ind (uSW R C D && decide ((-1 : Int) = i))))))) := by
  have c1 := cnt_const (leftL R C D) (fun y => ((-1 : Int), y)) (fun v => decide (v.1 = i)) (decide ((-1 : Int) = i))
    (fun _ => rfl)
  have c2 := cnt_const (rightL R C D) (fun y => (C - 1, y)) (fun v => decide (v.1 = i)) (decide (C - 1 = i))
    (fun _ => rfl)
  have c3 : ((botL R C D).map fun x => (x, (-1 : Int))).countP (fun v => decide (v.1 = i)) =
      ind (decide (i ∈ intRange 0 (C - 1)) && (isVirtualPlaquette R C i (-1) && oddB (dc D i))) := by
    refine (cnt_var (intRange 0 (C - 1)) (intRange_nodup _ _)
      (fun x => isVirtualPlaquette R C x (-1) && oddB (dc D x)) (fun x => (x, (-1 : Int)))
      (fun v => decide (v.1 = i)) i (fun y => rfl)).trans ?_
    unfold ind; simp only [Bool.and_eq_true, decide_eq_true_eq]
  have c4 : ((topL R C D).map fun x => (x, R - 1)).countP (fun v => decide (v.1 = i)) =
      ind (decide (i ∈ intRange 0 (C - 1)) &&
        (isVirtualPlaquette R C i (R - 1) && decide (i % 2 = 1) && oddB (dc D i))) := by
    refine (cnt_var (intRange 0 (C - 1)) (intRange_nodup _ _)
      (fun x => isVirtualPlaquette R C x (R - 1) && decide (x % 2 = 1) && oddB (dc D x)) (fun x => (x, R - 1))
      (fun v => decide (v.1 = i)) i (fun y => rfl)).trans ?_
    unfold ind; simp only [Bool.and_eq_true, decide_eq_true_eq]
  have c5 : (if uNW R C D = true then [((-1 : Int), R - 1)] else []).countP (fun v => decide (v.1 = i)) =
      ind (uNW R C D && decide ((-1 : Int) = i)) := by
    rw [cnt_one]; unfold ind; simp only [Bool.and_eq_true]
  have c6 : (if uSE R C D = true then [(C - 1, (-1 : Int))] else []).countP (fun v => decide (v.1 = i)) =
      ind (uSE R C D && decide (C - 1 = i)) := by
    rw [cnt_one]; unfold ind; simp only [Bool.and_eq_true]
  have c7 : (if uSW R C D = true then [((-1 : Int), (-1 : Int))] else []).countP (fun v => decide (v.1 = i)) =
      ind (uSW R C D && decide ((-1 : Int) = i)) := by
    rw [cnt_one]; unfold ind; simp only [Bool.and_eq_true]
  unfold usedV
  simp only [List.countP_append]
  rw [c1, c2, c3, c4, c5, c6, c7]

/-- every line WITHOUT a virtual plaquette holds an even number of defects -/
def LinesOk (R C : Int) (D : List TIdx) : Prop :=
  (∀ y, 0 ≤ y → y ≤ R - 2 → isVirtualPlaquette R C (-1) y = false → isVirtualPlaquette R C (C - 1) y = false →
    dr D y % 2 = 0) ∧
  (∀ x, 0 ≤ x → x ≤ C - 2 → isVirtualPlaquette R C x (-1) = false → isVirtualPlaquette R C x (R - 1) = false →
    dc D x % 2 = 0)

theorem bool_iff_false (b : Bool) (p : Prop) (h : b = true ↔ p) : b = false ↔ ¬ p := by
  cases b <;> simp_all

/-- an interior row: its own boundary plaquette repairs its parity -/
theorem p1_row (R C : Int) (_hR : 2 ≤ R) (hC : 2 ≤ C) (D : List TIdx) (hok : LinesOk R C D) (y : Int)
    (h0 : 0 ≤ y) (h1 : y ≤ R - 2) :
    (ind (isVirtualPlaquette R C (-1) y && oddB (dr D y)) +
      ind (isVirtualPlaquette R C (C - 1) y && decide (y % 2 = 0) && oddB (dr D y))) % 2 = dr D y % 2 := by
  have v1 : isVirtualPlaquette R C (-1) y = true ↔ y % 2 = 1 := by
    rw [virt_boundary R C (-1) y (Or.inl rfl)]; unfold PlaqIn; dsimp only; omega
  have v2 : isVirtualPlaquette R C (C - 1) y = true ↔ (C - 1 - y) % 2 = 0 := by
    rw [virt_boundary R C (C - 1) y (Or.inr (Or.inl rfl))]; unfold PlaqIn; dsimp only; omega
  have hk := hok.1 y h0 h1
  rw [bool_iff_false _ _ v1, bool_iff_false _ _ v2] at hk
  have e := ind_oddB (dr D y)
  cases hv1 : isVirtualPlaquette R C (-1) y <;> cases hv2 : isVirtualPlaquette R C (C - 1) y <;>
    rw [hv1] at v1 <;> rw [hv2] at v2
  · have : dr D y % 2 = 0 := hk (by simpa using v1) (by simpa using v2)
    simp [ind, this]
  · have hy : y % 2 = 0 := by have : ¬ y % 2 = 1 := by simpa using v1
                              omega
    simp only [Bool.false_and, Bool.true_and, hy, decide_true]
    rw [e]; simp [ind]
  · have hy : ¬ y % 2 = 0 := by have : y % 2 = 1 := by simpa using v1
                                omega
    simp only [Bool.false_and, Bool.true_and, hy, decide_false]
    rw [e]; simp [ind]
  · have hy : ¬ y % 2 = 0 := by have : y % 2 = 1 := by simpa using v1
                                omega
    simp only [Bool.true_and, hy, decide_false, Bool.false_and]
    rw [e]; simp [ind]

/-- an interior column -/
theorem p1_col (R C : Int) (hR : 2 ≤ R) (_hC : 2 ≤ C) (D : List TIdx) (hok : LinesOk R C D) (x : Int)
    (h0 : 0 ≤ x) (h1 : x ≤ C - 2) :
    (ind (isVirtualPlaquette R C x (-1) && oddB (dc D x)) +
      ind (isVirtualPlaquette R C x (R - 1) && decide (x % 2 = 1) && oddB (dc D x))) % 2 = dc D x % 2 := by
  have v1 : isVirtualPlaquette R C x (-1) = true ↔ x % 2 = 0 := by
    rw [virt_boundary R C x (-1) (Or.inr (Or.inr (Or.inl rfl)))]; unfold PlaqIn; dsimp only; omega
  have v2 : isVirtualPlaquette R C x (R - 1) = true ↔ (x - R + 1) % 2 = 1 := by
    rw [virt_boundary R C x (R - 1) (Or.inr (Or.inr (Or.inr rfl)))]; unfold PlaqIn; dsimp only; omega
  have hk := hok.2 x h0 h1
  rw [bool_iff_false _ _ v1, bool_iff_false _ _ v2] at hk
  have e := ind_oddB (dc D x)
  cases hv1 : isVirtualPlaquette R C x (-1) <;> cases hv2 : isVirtualPlaquette R C x (R - 1) <;>
    rw [hv1] at v1 <;> rw [hv2] at v2
  · have : dc D x % 2 = 0 := hk (by simpa using v1) (by simpa using v2)
    simp [ind, this]
  · have hy : x % 2 = 1 := by have : ¬ x % 2 = 0 := by simpa using v1
                              omega
    simp only [Bool.false_and, Bool.true_and, hy, decide_true]
    rw [e]; simp [ind]
  · have hy : ¬ x % 2 = 1 := by have : x % 2 = 0 := by simpa using v1
                                omega
    simp only [Bool.false_and, Bool.true_and, hy, decide_false]
    rw [e]; simp [ind]
  · have hy : ¬ x % 2 = 1 := by have : x % 2 = 0 := by simpa using v1
                                omega
    simp only [Bool.true_and, hy, decide_false, Bool.false_and]
    rw [e]; simp [ind]

theorem ind_false : ind false = 0 := rfl

theorem sums (R C : Int) (hR : 2 ≤ R) (hC : 2 ≤ C) (D : List TIdx) (hDn : D.Nodup)
    (hD : ∀ k ∈ D, InGrid R C (sp k)) (hok : LinesOk R C D) :
    ((leftL R C D).length + (rightL R C D).length) % 2 = ((intRange 0 (R - 1)).map (dr D)).sum % 2 ∧
    ((botL R C D).length + (topL R C D).length) % 2 = ((intRange 0 (C - 1)).map (dc D)).sum % 2 ∧
    dr D (-1) + (((intRange 0 (R - 1)).map (dr D)).sum + dr D (R - 1)) = D.length ∧
    dc D (-1) + (((intRange 0 (C - 1)).map (dc D)).sum + dc D (C - 1)) = D.length := by
  refine ⟨?_, ?_, ?_, ?_⟩
  · apply count_parity
    intro y hy
    rw [mem_intRange] at hy
    exact p1_row R C hR hC D hok y (by omega) (by omega)
  · apply count_parity
    intro x hx
    rw [mem_intRange] at hx
    exact p1_col R C hR hC D hok x (by omega) (by omega)
  · have := sum_classes (lineKeys R) (lineKeys_nodup R (by omega)) (fun k : TIdx => k.2.2) D hDn (by
      intro k hk
      have := hD k hk
      unfold InGrid sp at this
      rw [mem_lineKeys R (by omega)]
      simp only at this ⊢; omega)
    unfold lineKeys at this
    simp only [List.map_cons, List.sum_cons, List.map_append, List.sum_append, List.map_nil, List.sum_nil,
      Nat.add_zero] at this
    exact this
  · have := sum_classes (lineKeys C) (lineKeys_nodup C (by omega)) (fun k : TIdx => k.2.1) D hDn (by
      intro k hk
      have := hD k hk
      unfold InGrid sp at this
      rw [mem_lineKeys C (by omega)]
      simp only at this ⊢; omega)
    unfold lineKeys at this
    simp only [List.map_cons, List.sum_cons, List.map_append, List.sum_append, List.map_nil, List.sum_nil,
      Nat.add_zero] at this
    exact this

/-- **every row is even** once the used virtual plaquettes are added -/
theorem row_even (R C : Int) (hR : 2 ≤ R) (hC : 2 ≤ C) (D : List TIdx) (hDn : D.Nodup)
    (hD : ∀ k ∈ D, InGrid R C (sp k)) (hok : LinesOk R C D) (j : Int) (h1 : -1 ≤ j) (h2 : j ≤ R - 1) :
    (dr D j + (usedV R C D).countP (fun v => decide (v.2 = j))) % 2 = 0 := by
  obtain ⟨s1, s2, s3, s4⟩ := sums R C hR hC D hDn hD hok
  rw [row_cnt]
  have eNW : ind (uNW R C D) = (dr D (R - 1) + (topL R C D).length) % 2 := ind_oddB _
  have eSE : ind (uSE R C D) = (dc D (C - 1) + (rightL R C D).length) % 2 := ind_oddB _
  have eSW : ind (uSW R C D) = (dc D (-1) + (leftL R C D).length + ind (uNW R C D)) % 2 := ind_oddB _
  rcases (by omega : j = -1 ∨ j = R - 1 ∨ (0 ≤ j ∧ j ≤ R - 2)) with rfl | rfl | ⟨h3, h4⟩
  · have m : ¬ ((-1 : Int) ∈ intRange 0 (R - 1)) := by rw [mem_intRange]; omega
    have n1 : ¬ (R - 1 = -1) := by omega
    simp only [m, n1, decide_false, decide_true, Bool.false_and, Bool.and_false, Bool.and_true, ind_false,
      if_true, Bool.false_eq_true, if_false, Nat.zero_add]
    omega
  · have m : ¬ (R - 1 ∈ intRange 0 (R - 1)) := by rw [mem_intRange]; omega
    have n1 : ¬ (-1 = R - 1) := by omega
    simp only [m, n1, decide_false, decide_true, Bool.false_and, Bool.and_false, Bool.and_true, ind_false,
      if_true, Bool.false_eq_true, if_false, Nat.zero_add, Nat.add_zero]
    omega
  · have m : j ∈ intRange 0 (R - 1) := by rw [mem_intRange]; omega
    have n1 : ¬ (-1 = j) := by omega
    have n2 : ¬ (R - 1 = j) := by omega
    have := p1_row R C hR hC D hok j h3 h4
    simp only [m, n1, n2, decide_false, decide_true, Bool.true_and, Bool.and_false, ind_false,
      Bool.false_eq_true, if_false, Nat.zero_add, Nat.add_zero]
    omega

/-- **every column is even** once the used virtual plaquettes are added -/
theorem col_even (R C : Int) (hR : 2 ≤ R) (hC : 2 ≤ C) (D : List TIdx) (hDn : D.Nodup)
    (hD : ∀ k ∈ D, InGrid R C (sp k)) (hok : LinesOk R C D) (i : Int) (h1 : -1 ≤ i) (h2 : i ≤ C - 1) :
    (dc D i + (usedV R C D).countP (fun v => decide (v.1 = i))) % 2 = 0 := by
  obtain ⟨s1, s2, s3, s4⟩ := sums R C hR hC D hDn hD hok
  rw [col_cnt]
  have eNW : ind (uNW R C D) = (dr D (R - 1) + (topL R C D).length) % 2 := ind_oddB _
  have eSE : ind (uSE R C D) = (dc D (C - 1) + (rightL R C D).length) % 2 := ind_oddB _
  have eSW : ind (uSW R C D) = (dc D (-1) + (leftL R C D).length + ind (uNW R C D)) % 2 := ind_oddB _
  rcases (by omega : i = -1 ∨ i = C - 1 ∨ (0 ≤ i ∧ i ≤ C - 2)) with rfl | rfl | ⟨h3, h4⟩
  · have m : ¬ ((-1 : Int) ∈ intRange 0 (C - 1)) := by rw [mem_intRange]; omega
    have n1 : ¬ (C - 1 = -1) := by omega
    simp only [m, n1, decide_false, decide_true, Bool.false_and, Bool.and_false, Bool.and_true, ind_false,
      if_true, Bool.false_eq_true, if_false, Nat.zero_add, Nat.add_zero]
    omega
  · have m : ¬ (C - 1 ∈ intRange 0 (C - 1)) := by rw [mem_intRange]; omega
    have n1 : ¬ (-1 = C - 1) := by omega
    simp only [m, n1, decide_false, decide_true, Bool.false_and, Bool.and_false, Bool.and_true, ind_false,
      if_true, Bool.false_eq_true, if_false, Nat.zero_add, Nat.add_zero]
    omega
  · have m : i ∈ intRange 0 (C - 1) := by rw [mem_intRange]; omega
    have n1 : ¬ (-1 = i) := by omega
    have n2 : ¬ (C - 1 = i) := by omega
    have := p1_col R C hR hC D hok i h3 h4
    simp only [m, n1, n2, decide_false, decide_true, Bool.true_and, Bool.and_false, ind_false,
      Bool.false_eq_true, if_false, Nat.zero_add, Nat.add_zero]
    omega

/-! ### the used virtual plaquettes: where they are, no repetition -/

/-- which of the seven pieces of `usedV` a plaquette belongs to (7: the south-west corner / anything else) -/
def cls (R C : Int) (v : Dec.Idx2) : Nat :=
  if v.1 = -1 ∧ 0 ≤ v.2 ∧ v.2 ≤ R - 2 then 1
  else if v.1 = C - 1 ∧ 0 ≤ v.2 ∧ v.2 ≤ R - 2 then 2
  else if v.2 = -1 ∧ 0 ≤ v.1 ∧ v.1 ≤ C - 2 then 3
  else if v.2 = R - 1 ∧ 0 ≤ v.1 ∧ v.1 ≤ C - 2 then 4
  else if v.1 = -1 ∧ v.2 = R - 1 then 5
  else if v.1 = C - 1 ∧ v.2 = -1 then 6
  else 7

theorem nodup_append_cls {α : Type} (c : α → Nat) (i : Nat) (l1 l2 : List α) (h1 : l1.Nodup) (h2 : l2.Nodup)
    (c1 : ∀ a ∈ l1, c a = i) (c2 : ∀ b ∈ l2, i < c b) :
    (l1 ++ l2).Nodup ∧ ∀ b ∈ l1 ++ l2, i ≤ c b := by
  constructor
  · rw [List.nodup_append]
    refine ⟨h1, h2, ?_⟩
    intro a ha b hb hab
    have := c1 a ha
    have := c2 b hb
    rw [hab] at *; omega
  · intro b hb
    rcases List.mem_append.mp hb with h | h
    · have := c1 b h; omega
    · have := c2 b h; omega

theorem nodup_if {α : Type} (u : Bool) (v : α) : (if u = true then [v] else []).Nodup := by
  cases u <;> simp

theorem mem_if {α : Type} (u : Bool) (v a : α) (h : a ∈ (if u = true then [v] else [])) : a = v := by
  cases u
  · simp at h
  · simpa using h

/-- the pieces, with the facts that matter about their elements: in the grid, virtual, of the right class -/
theorem piece_left (R C : Int) (hR : 2 ≤ R) (hC : 2 ≤ C) (D : List TIdx) :
    ((leftL R C D).map fun y => ((-1 : Int), y)).Nodup ∧
    ∀ v ∈ (leftL R C D).map fun y => ((-1 : Int), y),
      cls R C v = 1 ∧ InGrid R C v ∧ isVirtualPlaquette R C v.1 v.2 = true := by
  constructor
  · exact ((intRange_nodup _ _).filter _).map (fun a b h => (Prod.mk.inj h).2)
  · intro v hv
    obtain ⟨y, hy, rfl⟩ := List.mem_map.mp hv
    unfold leftL at hy
    rw [List.mem_filter, mem_intRange, Bool.and_eq_true] at hy
    refine ⟨?_, ?_, hy.2.1⟩
    · unfold cls; rw [if_pos (by dsimp only; omega)]
    · unfold InGrid; dsimp only; omega

theorem piece_right (R C : Int) (hR : 2 ≤ R) (hC : 2 ≤ C) (D : List TIdx) :
    ((rightL R C D).map fun y => (C - 1, y)).Nodup ∧
    ∀ v ∈ (rightL R C D).map fun y => (C - 1, y),
      cls R C v = 2 ∧ InGrid R C v ∧ isVirtualPlaquette R C v.1 v.2 = true := by
  constructor
  · exact ((intRange_nodup _ _).filter _).map (fun a b h => (Prod.mk.inj h).2)
  · intro v hv
    obtain ⟨y, hy, rfl⟩ := List.mem_map.mp hv
    unfold rightL at hy
    rw [List.mem_filter, mem_intRange, Bool.and_eq_true, Bool.and_eq_true] at hy
    refine ⟨?_, ?_, hy.2.1.1⟩
    · unfold cls; rw [if_neg (by dsimp only; omega), if_pos (by dsimp only; omega)]
    · unfold InGrid; dsimp only; omega

theorem piece_bot (R C : Int) (hR : 2 ≤ R) (hC : 2 ≤ C) (D : List TIdx) :
    ((botL R C D).map fun x => (x, (-1 : Int))).Nodup ∧
    ∀ v ∈ (botL R C D).map fun x => (x, (-1 : Int)),
      cls R C v = 3 ∧ InGrid R C v ∧ isVirtualPlaquette R C v.1 v.2 = true := by
  constructor
  · exact ((intRange_nodup _ _).filter _).map (fun a b h => (Prod.mk.inj h).1)
  · intro v hv
    obtain ⟨x, hx, rfl⟩ := List.mem_map.mp hv
    unfold botL at hx
    rw [List.mem_filter, mem_intRange, Bool.and_eq_true] at hx
    refine ⟨?_, ?_, hx.2.1⟩
    · unfold cls; rw [if_neg (by dsimp only; omega), if_neg (by dsimp only; omega), if_pos (by dsimp only; omega)]
    · unfold InGrid; dsimp only; omega

theorem piece_top (R C : Int) (hR : 2 ≤ R) (hC : 2 ≤ C) (D : List TIdx) :
    ((topL R C D).map fun x => (x, R - 1)).Nodup ∧
    ∀ v ∈ (topL R C D).map fun x => (x, R - 1),
      cls R C v = 4 ∧ InGrid R C v ∧ isVirtualPlaquette R C v.1 v.2 = true := by
  constructor
  · exact ((intRange_nodup _ _).filter _).map (fun a b h => (Prod.mk.inj h).1)
  · intro v hv
    obtain ⟨x, hx, rfl⟩ := List.mem_map.mp hv
    unfold topL at hx
    rw [List.mem_filter, mem_intRange, Bool.and_eq_true, Bool.and_eq_true] at hx
    refine ⟨?_, ?_, hx.2.1.1⟩
    · unfold cls
      rw [if_neg (by dsimp only; omega), if_neg (by dsimp only; omega), if_neg (by dsimp only; omega),
        if_pos (by dsimp only; omega)]
    · unfold InGrid; dsimp only; omega

theorem corner_facts (R C : Int) (hR : 2 ≤ R) (hC : 2 ≤ C) :
    (cls R C (-1, R - 1) = 5 ∧ InGrid R C (-1, R - 1) ∧ isVirtualPlaquette R C (-1) (R - 1) = true) ∧
    (cls R C (C - 1, -1) = 6 ∧ InGrid R C (C - 1, -1) ∧ isVirtualPlaquette R C (C - 1) (-1) = true) ∧
    (cls R C (-1, -1) = 7 ∧ InGrid R C (-1, -1) ∧ isVirtualPlaquette R C (-1) (-1) = true) := by
  refine ⟨⟨?_, ?_, ?_⟩, ⟨?_, ?_, ?_⟩, ⟨?_, ?_, ?_⟩⟩
  · unfold cls
    rw [if_neg (by dsimp only; omega), if_neg (by dsimp only; omega), if_neg (by dsimp only; omega),
      if_neg (by dsimp only; omega), if_pos (by dsimp only; omega)]
  · unfold InGrid; dsimp only; omega
  · rw [virt_boundary R C (-1) (R - 1) (Or.inl rfl)]; unfold PlaqIn; dsimp only; omega
  · unfold cls
    rw [if_neg (by dsimp only; omega), if_neg (by dsimp only; omega), if_neg (by dsimp only; omega),
      if_neg (by dsimp only; omega), if_neg (by dsimp only; omega), if_pos (by dsimp only; omega)]
  · unfold InGrid; dsimp only; omega
  · rw [virt_boundary R C (C - 1) (-1) (Or.inr (Or.inl rfl))]; unfold PlaqIn; dsimp only; omega
  · unfold cls
    rw [if_neg (by dsimp only; omega), if_neg (by dsimp only; omega), if_neg (by dsimp only; omega),
      if_neg (by dsimp only; omega), if_neg (by dsimp only; omega), if_neg (by dsimp only; omega)]
  · unfold InGrid; dsimp only; omega
  · rw [virt_boundary R C (-1) (-1) (Or.inl rfl)]; unfold PlaqIn; dsimp only; omega

/-- **the used virtual plaquettes**: no repetition, all in the grid, all virtual -/
theorem usedV_spec (R C : Int) (hR : 2 ≤ R) (hC : 2 ≤ C) (D : List TIdx) :
    (usedV R C D).Nodup ∧ ∀ v ∈ usedV R C D, InGrid R C v ∧ isVirtualPlaquette R C v.1 v.2 = true := by
  obtain ⟨n1, f1⟩ := piece_left R C hR hC D
  obtain ⟨n2, f2⟩ := piece_right R C hR hC D
  obtain ⟨n3, f3⟩ := piece_bot R C hR hC D
  obtain ⟨n4, f4⟩ := piece_top R C hR hC D
  obtain ⟨c5, c6, c7⟩ := corner_facts R C hR hC
  have g5 : ∀ v ∈ (if uNW R C D = true then [((-1 : Int), R - 1)] else []),
      cls R C v = 5 ∧ InGrid R C v ∧ isVirtualPlaquette R C v.1 v.2 = true := by
    intro v hv; rw [mem_if _ _ _ hv]; exact c5
  have g6 : ∀ v ∈ (if uSE R C D = true then [(C - 1, (-1 : Int))] else []),
      cls R C v = 6 ∧ InGrid R C v ∧ isVirtualPlaquette R C v.1 v.2 = true := by
    intro v hv; rw [mem_if _ _ _ hv]; exact c6
  have g7 : ∀ v ∈ (if uSW R C D = true then [((-1 : Int), (-1 : Int))] else []),
      cls R C v = 7 ∧ InGrid R C v ∧ isVirtualPlaquette R C v.1 v.2 = true := by
    intro v hv; rw [mem_if _ _ _ hv]; exact c7
  obtain ⟨m6, b6⟩ := nodup_append_cls (cls R C) 6 _ _ (nodup_if _ _) (nodup_if _ _) (fun a ha => (g6 a ha).1)
    (fun b hb => by rw [(g7 b hb).1]; omega)
  obtain ⟨m5, b5⟩ := nodup_append_cls (cls R C) 5 _ _ (nodup_if _ _) m6 (fun a ha => (g5 a ha).1)
    (fun b hb => by have := b6 b hb; omega)
  obtain ⟨m4, b4⟩ := nodup_append_cls (cls R C) 4 _ _ n4 m5 (fun a ha => (f4 a ha).1)
    (fun b hb => by have := b5 b hb; omega)
  obtain ⟨m3, b3⟩ := nodup_append_cls (cls R C) 3 _ _ n3 m4 (fun a ha => (f3 a ha).1)
    (fun b hb => by have := b4 b hb; omega)
  obtain ⟨m2, b2⟩ := nodup_append_cls (cls R C) 2 _ _ n2 m3 (fun a ha => (f2 a ha).1)
    (fun b hb => by have := b3 b hb; omega)
  obtain ⟨m1, _⟩ := nodup_append_cls (cls R C) 1 _ _ n1 m2 (fun a ha => (f1 a ha).1)
    (fun b hb => by have := b2 b hb; omega)
  refine ⟨m1, ?_⟩
  intro v hv
  unfold usedV at hv
  simp only [List.mem_append] at hv
  rcases hv with h | h | h | h | h | h | h
  · exact (f1 v h).2
  · exact (f2 v h).2
  · exact (f3 v h).2
  · exact (f4 v h).2
  · exact (g5 v h).2
  · exact (g6 v h).2
  · exact (g7 v h).2

/-! ### the matching -/

theorem mem_allDefects (R C : Int) (rows : List BVec) (k : TIdx) :
    k ∈ allDefects R C rows ↔ ∃ t : Nat, t < rows.length ∧ k ∈ defectsAt R C rows t := by
  unfold allDefects; simp only [List.mem_flatMap, List.mem_range]

theorem allDefects_nodup (R C : Int) (rows : List BVec) : (allDefects R C rows).Nodup := by
  unfold allDefects
  rw [List.nodup_flatMap]
  refine ⟨fun t _ => defectsAt_nodup R C rows t, ?_⟩
  apply List.Pairwise.imp _ List.nodup_range
  intro a b hab x hxa hxb
  have h1 := ((mem_defectsAt R C rows a x).mp hxa).1
  have h2 := ((mem_defectsAt R C rows b x).mp hxb).1
  omega

theorem usedSpace_nodup (R C : Int) (rows : List BVec) (g : Option Nat) : (usedSpace R C rows g).Nodup := by
  cases g with
  | none => exact allDefects_nodup R C rows
  | some t => exact defectsAt_nodup R C rows t

theorem mem_groups (q : Bool) (n : Nat) (g : Option Nat) :
    g ∈ T.groupsSpace q n ↔ (q = true ∧ ∃ t, t < n ∧ g = some t) ∨ (q = false ∧ g = none) := by
  unfold T.groupsSpace
  cases q
  · simp
  · simp only [if_true, List.mem_map, List.mem_range, true_and, Bool.true_eq_false, false_and, or_false]
    constructor
    · rintro ⟨t, ht, rfl⟩; exact ⟨t, ht, rfl⟩
    · rintro ⟨t, ht, rfl⟩; exact ⟨t, ht, rfl⟩

theorem filter_M (D : List TIdx) (U : List Dec.Idx2) (t : Nat) (q : TIdx → Bool) (q' : Dec.Idx2 → Bool)
    (h : ∀ v, q (tix t v) = q' v) :
    ((D ++ U.map (tix t)).filter q).length = (D.filter q).length + U.countP q' := by
  rw [List.filter_append, List.length_append, ← List.countP_eq_length_filter (l := U.map (tix t)), List.countP_map]
  congr 1
  apply List.countP_congr
  intro v _
  simp [h v]

theorem allV_nodup (R C : Int) (n : Nat) (g : Option Nat) : (allV R C n g).Nodup := by
  have hv : (virtualPlaqs R C).Nodup := (gridIdx_nodup R C).filter _
  cases g with
  | some t => exact hv.map (tix_inj t)
  | none =>
    unfold allV
    rw [List.nodup_flatMap]
    refine ⟨fun t _ => hv.map (tix_inj t), ?_⟩
    apply List.Pairwise.imp _ List.nodup_range
    intro a b hab x hxa hxb
    obtain ⟨_, _, rfl⟩ := List.mem_map.mp hxa
    obtain ⟨_, _, h⟩ := List.mem_map.mp hxb
    have := congrArg Prod.fst h
    unfold tix at this
    simp only at this
    omega

theorem mem_allV (R C : Int) (n : Nat) (g : Option Nat) (k : TIdx) :
    k ∈ allV R C n g ↔ ∃ t : Nat, (g = some t ∨ (g = none ∧ t < n)) ∧ k.1 = (t : Int) ∧
      InGrid R C (sp k) ∧ isVirtualPlaquette R C k.2.1 k.2.2 = true := by
  cases g with
  | some t =>
    unfold allV
    simp only [List.mem_map, mem_virtualPlaqs]
    constructor
    · rintro ⟨v, hv, rfl⟩
      exact ⟨t, Or.inl rfl, rfl, hv.1, hv.2⟩
    · rintro ⟨t', h, h1, h2, h3⟩
      rcases h with h | h
      · cases h
        exact ⟨sp k, ⟨h2, h3⟩, tix_sp k t h1⟩
      · cases h.1
  | none =>
    unfold allV
    constructor
    · intro hk
      obtain ⟨t, ht, hk⟩ := List.mem_flatMap.mp hk
      obtain ⟨v, hv, rfl⟩ := List.mem_map.mp hk
      have hv' := (mem_virtualPlaqs R C v).mp hv
      exact ⟨t, Or.inr ⟨rfl, List.mem_range.mp ht⟩, rfl, hv'.1, hv'.2⟩
    · rintro ⟨t, h, h1, h2, h3⟩
      rcases h with h | h
      · cases h
      · exact List.mem_flatMap.mpr ⟨t, List.mem_range.mpr h.2,
          List.mem_map.mpr ⟨sp k, (mem_virtualPlaqs R C _).mpr ⟨h2, h3⟩, tix_sp k t h1⟩⟩

/-- **the line strategy on the rotated planar code**: a perfect matching at infinite bias (and any other bias) when,
    in every group, every line without a virtual plaquette holds an even number of defects -/
theorem line_space (fl : Flags) (R C : Int) (hR : 2 ≤ R) (hC : 2 ≤ C) (rows : List BVec) (hT : 1 ≤ rows.length)
    (hp : fl.pZero = false)
    (hok : ∀ g ∈ T.groupsSpace fl.q01 rows.length, LinesOk R C (usedSpace R C rows g)) :
    Dec.isPerfectMatchingOfGraph (graphNodes R C rows) (graphEdges fl R C rows) (lineMatching fl R C rows) = true := by
  unfold lineMatching
  have hgn : (T.groupsSpace fl.q01 rows.length).Nodup := by
    unfold T.groupsSpace
    split
    · exact List.nodup_range.map (fun a b h => Option.some.inj h)
    · simp
  -- the time step of a group
  have htg : ∀ g ∈ T.groupsSpace fl.q01 rows.length, tg g < rows.length := by
    intro g hg
    rcases (mem_groups _ _ g).mp hg with ⟨_, t, ht, rfl⟩ | ⟨_, rfl⟩
    · exact ht
    · exact hT
  -- defects of a group
  have hDdef : ∀ g ∈ T.groupsSpace fl.q01 rows.length, ∀ k ∈ usedSpace R C rows g,
      ∃ t : Nat, t < rows.length ∧ k.1 = (t : Int) ∧ isDefect R C rows t (sp k) = true ∧ ∀ t', g = some t' → t' = t := by
    intro g hg k hk
    rcases (mem_groups _ _ g).mp hg with ⟨_, t, ht, rfl⟩ | ⟨_, rfl⟩
    · obtain ⟨h1, h2⟩ := (mem_defectsAt R C rows t k).mp hk
      exact ⟨t, ht, h1, h2, fun t' h => (Option.some.inj h).symm⟩
    · obtain ⟨t, ht, hk'⟩ := (mem_allDefects R C rows k).mp hk
      obtain ⟨h1, h2⟩ := (mem_defectsAt R C rows t k).mp hk'
      exact ⟨t, ht, h1, h2, fun t' h => by cases h⟩
  have hDg : ∀ g ∈ T.groupsSpace fl.q01 rows.length, ∀ k ∈ usedSpace R C rows g, InGrid R C (sp k) := by
    intro g hg k hk
    obtain ⟨t, _, _, hd, _⟩ := hDdef g hg k hk
    exact plaqIn_inGrid R C _ (defect_plaqIn R C rows t _ hd)
  have hDreal : ∀ g ∈ T.groupsSpace fl.q01 rows.length, ∀ k ∈ usedSpace R C rows g,
      isVirtualPlaquette R C k.2.1 k.2.2 = false := by
    intro g hg k hk
    obtain ⟨t, _, _, hd, _⟩ := hDdef g hg k hk
    exact plaqIn_not_virtual R C (sp k) (defect_plaqIn R C rows t _ hd)
  have hU := fun g => usedV_spec R C hR hC (usedSpace R C rows g)
  have hUT : ∀ g k, k ∈ usedT R C rows g → k.1 = ((tg g : Nat) : Int) ∧ InGrid R C (sp k) ∧
      isVirtualPlaquette R C k.2.1 k.2.2 = true := by
    intro g k hk
    unfold usedT at hk
    obtain ⟨v, hv, rfl⟩ := List.mem_map.mp hk
    exact ⟨rfl, ((hU g).2 v hv).1, ((hU g).2 v hv).2⟩
  have hUTn : ∀ g, (usedT R C rows g).Nodup := fun g => (hU g).1.map (tix_inj _)
  have hMn : ∀ g ∈ T.groupsSpace fl.q01 rows.length, (usedSpace R C rows g ++ usedT R C rows g).Nodup := by
    intro g hg
    rw [List.nodup_append]
    refine ⟨usedSpace_nodup R C rows g, hUTn g, ?_⟩
    intro a ha b hb hab
    have h1 := hDreal g hg a ha
    have h2 := (hUT g b hb).2.2
    rw [hab, h2] at h1; cases h1
  have hMg : ∀ g ∈ T.groupsSpace fl.q01 rows.length, ∀ k ∈ usedSpace R C rows g ++ usedT R C rows g,
      InGrid R C (sp k) := by
    intro g hg k hk
    rcases List.mem_append.mp hk with h | h
    · exact hDg g hg k h
    · exact (hUT g k h).2.1
  have hrow : ∀ g ∈ T.groupsSpace fl.q01 rows.length, ∀ j ∈ lineKeys R,
      ((usedSpace R C rows g ++ usedT R C rows g).filter fun k => decide (k.2.2 = j)).length % 2 = 0 := by
    intro g hg j hj
    rw [mem_lineKeys R (by omega)] at hj
    unfold usedT
    rw [filter_M _ _ _ _ (fun v => decide (v.2 = j)) (fun _ => rfl)]
    exact row_even R C hR hC _ (usedSpace_nodup R C rows g) (hDg g hg) (hok g hg) j hj.1 hj.2
  have hcol : ∀ g ∈ T.groupsSpace fl.q01 rows.length, ∀ j ∈ lineKeys C,
      ((usedSpace R C rows g ++ usedT R C rows g).filter fun k => decide (k.2.1 = j)).length % 2 = 0 := by
    intro g hg j hj
    rw [mem_lineKeys C (by omega)] at hj
    unfold usedT
    rw [filter_M _ _ _ _ (fun v => decide (v.1 = j)) (fun _ => rfl)]
    exact col_even R C hR hC _ (usedSpace_nodup R C rows g) (hDg g hg) (hok g hg) j hj.1 hj.2
  have hmemR : ∀ g ∈ T.groupsSpace fl.q01 rows.length, ∀ k,
      k ∈ byKey (lineKeys R) (fun k : TIdx => k.2.2) (usedSpace R C rows g ++ usedT R C rows g) ↔
        k ∈ usedSpace R C rows g ++ usedT R C rows g := by
    intro g hg k
    rw [mem_byKey, mem_lineKeys R (by omega)]
    constructor
    · exact fun h => h.1
    · intro h
      have := hMg g hg k h
      unfold InGrid sp at this
      simp only at this
      exact ⟨h, by omega⟩
  have hmemC : ∀ g ∈ T.groupsSpace fl.q01 rows.length, ∀ k,
      k ∈ byKey (lineKeys C) (fun k : TIdx => k.2.1) (usedSpace R C rows g ++ usedT R C rows g) ↔
        k ∈ usedSpace R C rows g ++ usedT R C rows g := by
    intro g hg k
    rw [mem_byKey, mem_lineKeys C (by omega)]
    constructor
    · exact fun h => h.1
    · intro h
      have := hMg g hg k h
      unfold InGrid sp at this
      simp only at this
      exact ⟨h, by omega⟩
  have htw : ∀ g k, k ∈ twins R C rows g ↔ k ∈ allV R C rows.length g ∧ k ∉ usedT R C rows g := by
    intro g k
    unfold twins
    rw [List.mem_filter]
    simp
  -- the group of an index
  have hkey : ∀ g ∈ T.groupsSpace fl.q01 rows.length, ∀ k,
      k ∈ usedSpace R C rows g ++ usedT R C rows g ∨ k ∈ twins R C rows g →
        (fun k : TIdx => if fl.q01 = true then some k.1.toNat else none) k = g := by
    intro g hg k hk
    rcases (mem_groups _ _ g).mp hg with ⟨hq, t, ht, rfl⟩ | ⟨hq, rfl⟩
    · simp only [if_pos hq]
      have : k.1 = (t : Int) := by
        rcases hk with hk | hk
        · rcases List.mem_append.mp hk with h | h
          · exact ((mem_defectsAt R C rows t k).mp h).1
          · exact (hUT _ k h).1
        · obtain ⟨t', h, h1, _⟩ := (mem_allV R C _ _ k).mp ((htw _ k).mp hk).1
          rcases h with h | h
          · cases h; exact h1
          · cases h.1
      congr 1; omega
    · simp only [hq, Bool.false_eq_true, if_false]
  have hnodeM : ∀ g ∈ T.groupsSpace fl.q01 rows.length, ∀ k,
      k ∈ usedSpace R C rows g ++ usedT R C rows g ∨ k ∈ twins R C rows g → IsNode R C rows k := by
    intro g hg k hk
    rcases hk with hk | hk
    · rcases List.mem_append.mp hk with h | h
      · obtain ⟨t, ht, h1, hd, _⟩ := hDdef g hg k h
        exact ⟨hDg g hg k h, t, h1, ht, Or.inr hd⟩
      · obtain ⟨h1, h2, h3⟩ := hUT g k h
        exact ⟨h2, tg g, h1, htg g hg, Or.inl h3⟩
    · obtain ⟨t, h, h1, h2, h3⟩ := (mem_allV R C _ _ k).mp ((htw _ k).mp hk).1
      refine ⟨h2, t, h1, ?_, Or.inl h3⟩
      rcases h with h | h
      · subst h
        rcases (mem_groups _ _ _).mp hg with ⟨_, t', ht', e⟩ | ⟨_, e⟩
        · cases e; exact ht'
        · cases e
      · exact h.2
  obtain ⟨g1, g2⟩ := group_spec (T.groupsSpace fl.q01 rows.length) hgn
    (fun k : TIdx => if fl.q01 = true then some k.1.toNat else none)
    (fun g => byKey (lineKeys R) (fun k : TIdx => k.2.2) (usedSpace R C rows g ++ usedT R C rows g))
    (fun g => byKey (lineKeys C) (fun k : TIdx => k.2.1) (usedSpace R C rows g ++ usedT R C rows g))
    (fun g => twins R C rows g)
    (fun g hg => byKey_even _ _ _ (hrow g hg))
    (fun g hg => byKey_even _ _ _ (hcol g hg))
    (fun g hg => byKey_nodup _ _ _ (lineKeys_nodup R (by omega)) (hMn g hg))
    (fun g hg => byKey_nodup _ _ _ (lineKeys_nodup C (by omega)) (hMn g hg))
    (fun g _ => (allV_nodup R C _ g).filter _)
    (fun g hg k => by rw [hmemR g hg, hmemC g hg])
    (fun g hg k hk hk2 => by
      rw [hmemR g hg] at hk
      obtain ⟨hv, hnu⟩ := (htw g k).mp hk2
      rcases List.mem_append.mp hk with h | h
      · obtain ⟨_, _, _, _, h3⟩ := (mem_allV R C _ _ k).mp hv
        rw [hDreal g hg k h] at h3; cases h3
      · exact hnu h)
    (fun g hg k h => by
      apply hkey g hg k
      rcases h with h | h
      · exact Or.inl ((hmemR g hg k).mp h)
      · exact Or.inr h)
  apply pm_of_nodup _ _ _ g1
  · rintro ⟨k, o⟩
    rw [g2, mem_graphNodes R C (by omega) (by omega)]
    constructor
    · rintro ⟨g, hg, h⟩
      apply hnodeM g hg k
      rcases h with h | h
      · exact Or.inl ((hmemR g hg k).mp h)
      · exact Or.inr h
    · rintro ⟨hgr, t, h1, ht, h⟩
      have hgm : (if fl.q01 = true then some t else none) ∈ T.groupsSpace fl.q01 rows.length := by
        rw [mem_groups]
        by_cases hq : fl.q01 = true
        · rw [if_pos hq]; exact Or.inl ⟨hq, t, ht, rfl⟩
        · rw [if_neg hq]; exact Or.inr ⟨by simpa using hq, rfl⟩
      refine ⟨_, hgm, ?_⟩
      by_cases hd : isDefect R C rows t (sp k) = true
      · left
        rw [hmemR _ hgm]
        apply List.mem_append_left
        have hk : k ∈ defectsAt R C rows t := (mem_defectsAt R C rows t k).mpr ⟨h1, hd⟩
        by_cases hq : fl.q01 = true
        · simp only [if_pos hq]; exact hk
        · simp only [if_neg hq]; exact (mem_allDefects R C rows k).mpr ⟨t, ht, hk⟩
      · have hv : isVirtualPlaquette R C k.2.1 k.2.2 = true := by
          rcases h with h | h
          · exact h
          · exact absurd h hd
        have hin : k ∈ allV R C rows.length (if fl.q01 = true then some t else none) := by
          rw [mem_allV]
          refine ⟨t, ?_, h1, hgr, hv⟩
          by_cases hq : fl.q01 = true
          · rw [if_pos hq]; exact Or.inl rfl
          · rw [if_neg hq]; exact Or.inr ⟨rfl, ht⟩
        by_cases hu : k ∈ usedT R C rows (if fl.q01 = true then some t else none)
        · left
          rw [hmemR _ hgm]
          exact List.mem_append_right _ hu
        · right
          exact (htw _ k).mpr ⟨hin, hu⟩
  · intro x hx
    rw [List.mem_flatMap] at hx
    obtain ⟨g, hg, hx⟩ := hx
    have hpair : ∀ (o : Bool) (y : TIdx × TIdx), y.1 ∈ usedSpace R C rows g ++ usedT R C rows g →
        y.2 ∈ usedSpace R C rows g ++ usedT R C rows g →
        y.1 ≠ y.2 → (if o = true then y.1.2.2 = y.2.2.2 else y.1.2.1 = y.2.2.1) →
        ((y.1, o), (y.2, o)) ∈ graphEdges fl R C rows ∨ ((y.2, o), (y.1, o)) ∈ graphEdges fl R C rows := by
      intro o y m1 m2 hne hline
      apply edge_same fl R C (by omega) (by omega) rows o y.1 y.2 (hnodeM g hg _ (Or.inl m1))
        (hnodeM g hg _ (Or.inl m2)) hne
      · intro hq
        have k1 := hkey g hg y.1 (Or.inl m1)
        have k2 := hkey g hg y.2 (Or.inl m2)
        simp only [if_pos hq] at k1 k2
        have := Option.some.inj (k1.trans k2.symm)
        obtain ⟨t1, e1, _⟩ := (hnodeM g hg _ (Or.inl m1)).2
        obtain ⟨t2, e2, _⟩ := (hnodeM g hg _ (Or.inl m2)).2
        omega
      · intro h; rw [hp] at h; cases h
      · intro _; exact hline
    rcases mem_mk _ _ _ x hx with ⟨y, hy, rfl⟩ | ⟨y, hy, rfl⟩ | ⟨v, hv, rfl⟩
    · obtain ⟨m1, m2, hne, hk⟩ := byKey_pair _ _ _ (hMn g hg) (hrow g hg) y hy
      exact hpair true y m1 m2 hne (by simpa using hk)
    · obtain ⟨m1, m2, hne, hk⟩ := byKey_pair _ _ _ (hMn g hg) (hcol g hg) y hy
      exact hpair false y m1 m2 hne (by simpa using hk)
    · have hn := hnodeM g hg v (Or.inr hv)
      obtain ⟨_, _, _, _, h3⟩ := (mem_allV R C _ _ v).mp ((htw g v).mp hv).1
      exact Or.inl (edge_twin fl R C (by omega) (by omega) rows v hn h3)

/-! ### Y-only errors leave an even number of defects on every line without a virtual plaquette -/

open Qec.Symp Qec.RotatedToric.Lem Qec.RotatedToricCode in
theorem parity_pt {α : Type} [DecidableEq α] (l : List α) (hl : l.Nodup) (g : α → Bool) (q : α) :
    parity (fun p => g p && decide (p = q)) l = (g q && decide (q ∈ l)) := by
  rw [parity_congr _ (fun p => g q && decide (p = q)) l (by
    intro p _
    by_cases h : p = q
    · rw [h]
    · simp [h]), parity_const_and, parity_eq_mem l hl]

open Qec.Symp Qec.RotatedToric.Lem Qec.RotatedToricCode in
theorem parity_four {α : Type} [DecidableEq α] (l : List α) (hl : l.Nodup) (g : α → Bool) (a b c d : α) :
    parity (fun p => g p && (decide (p = d) ^^ (decide (p = c) ^^ (decide (p = b) ^^ decide (p = a))))) l =
      ((g d && decide (d ∈ l)) ^^ ((g c && decide (c ∈ l)) ^^ ((g b && decide (b ∈ l)) ^^ (g a && decide (a ∈ l))))) := by
  rw [parity_congr _ (fun p => xor (g p && decide (p = d)) (xor (g p && decide (p = c))
      (xor (g p && decide (p = b)) (g p && decide (p = a))))) l (by
    intro p _
    cases g p <;> simp),
    parity_xor (fun p => g p && decide (p = d)), parity_xor (fun p => g p && decide (p = c)),
    parity_xor (fun p => g p && decide (p = b)), parity_pt l hl, parity_pt l hl, parity_pt l hl, parity_pt l hl]

theorem bool12 : ∀ s1 s2 s3 s4 u1 u2 u3 u4 k1 k2 k3 k4 : Bool,
    ((s1 && k1) ^^ ((s2 && k2) ^^ ((s3 && k3) ^^ (s4 && k4)))) = false →
    (((s1 && !u1) && k1) ^^ (((s2 && !u2) && k2) ^^ (((s3 && !u3) && k3) ^^ ((s4 && !u4) && k4)))) =
      (((s1 && u1) && k1) ^^ (((s2 && u2) && k2) ^^ (((s3 && u3) && k3) ^^ ((s4 && u4) && k4)))) := by
  decide

/-- the two bits of a generator at an in-lattice site -/
theorem stabOp_bits (R C : Int) (p s : Int × Int) (hs : inSiteBounds R C s.1 s.2 = true) :
    (stabOp R C p).getD (fl R C s) false = (!isZPlaquette p.1 p.2 && occ (plaquetteSites p.1 p.2) s) ∧
    (stabOp R C p).getD (nq R C + fl R C s) false = (isZPlaquette p.1 p.2 && occ (plaquetteSites p.1 p.2) s) := by
  unfold stabOp
  have h1 := getD_siteop_same R C (isZPlaquette p.1 p.2) (plaquetteSites p.1 p.2) s hs
  have h0 := getD_siteop_other R C (isZPlaquette p.1 p.2) (plaquetteSites p.1 p.2) s hs
  cases hz : isZPlaquette p.1 p.2
  · rw [hz] at h1 h0
    simp only [Symp.off, Bool.false_eq_true, if_false, Nat.zero_add, Bool.not_false, if_true] at h1 h0
    rw [h1, h0]; simp
  · rw [hz] at h1 h0
    simp only [Symp.off, Bool.false_eq_true, if_false, Nat.zero_add, Bool.not_true, if_true] at h1 h0
    rw [h1, h0]; simp

theorem occ_four (p s : Int × Int) :
    occ (plaquetteSites p.1 p.2) s = (decide (p = (s.1, s.2)) ^^ (decide (p = (s.1 - 1, s.2)) ^^
      (decide (p = (s.1, s.2 - 1)) ^^ decide (p = (s.1 - 1, s.2 - 1))))) := by
  obtain ⟨px, py⟩ := p
  obtain ⟨sx, sy⟩ := s
  rw [occ_plaq]
  simp only [Prod.mk.injEq, Symp.xor_decide]
  apply decide_eq_decide.mpr
  omega

theorem mem_dec (R C : Int) (q : Int × Int) [inst : Decidable (q ∈ plaquetteIndices R C)] :
    decide (q ∈ plaquetteIndices R C) = inPlaquetteBounds R C q.1 q.2 := by
  rw [Bool.eq_iff_iff, decide_eq_true_eq, mem_plaquetteIndices, inPlaquetteBounds_iff]

/-- **the parity of the real selected plaquettes around every site decides whether the XOR of the selected
    generators is a Y-type operator** -/
theorem planar_ybits (R C : Int) (hC : 3 ≤ C) (sel : Int × Int → Bool)
    (hsel : ∀ s : Int × Int, inSiteBounds R C s.1 s.2 = true →
      ((sel (s.1, s.2) && inPlaquetteBounds R C s.1 s.2) ^^
       ((sel (s.1 - 1, s.2) && inPlaquetteBounds R C (s.1 - 1) s.2) ^^
       ((sel (s.1, s.2 - 1) && inPlaquetteBounds R C s.1 (s.2 - 1)) ^^
        (sel (s.1 - 1, s.2 - 1) && inPlaquetteBounds R C (s.1 - 1) (s.2 - 1))))) = false)
    (j : Nat) (hj : j < nq R C) :
    (xorAll (2 * nq R C) (((plaquetteIndices R C).filter sel).map (stabOp R C))).getD j false =
      (xorAll (2 * nq R C) (((plaquetteIndices R C).filter sel).map (stabOp R C))).getD (nq R C + j) false := by
  have hlen : ∀ p ∈ (plaquetteIndices R C).filter sel, (stabOp R C p).length = 2 * nq R C :=
    fun p _ => stabOp_length R C p
  obtain ⟨x, y, hxy, hf⟩ := flatten_surj R C hC (j : Int) (by omega) (by unfold nq at hj; omega)
  have hs : inSiteBounds R C (x, y).1 (x, y).2 = true := (inSiteBounds_iff R C x y).mpr hxy
  have hfl : fl R C (x, y) = j := by unfold fl; simp only [hf]; omega
  rw [← hfl, getD_xorAll_map _ _ _ hlen, getD_xorAll_map _ _ _ hlen, xorSum_filter, xorSum_filter,
    ← RotatedToricCode.parity_eq_xorSum, ← RotatedToricCode.parity_eq_xorSum,
    RotatedToric.Lem.parity_congr _ (fun p => (sel p && !isZPlaquette p.1 p.2) &&
      (decide (p = (x, y)) ^^ (decide (p = (x - 1, y)) ^^ (decide (p = (x, y - 1)) ^^ decide (p = (x - 1, y - 1)))))) _ (by
      intro p _
      rw [(stabOp_bits R C p (x, y) hs).1, occ_four, Bool.and_assoc]),
    RotatedToric.Lem.parity_congr (fun p => sel p && (stabOp R C p).getD (nq R C + fl R C (x, y)) false)
      (fun p => (sel p && isZPlaquette p.1 p.2) &&
      (decide (p = (x, y)) ^^ (decide (p = (x - 1, y)) ^^ (decide (p = (x, y - 1)) ^^ decide (p = (x - 1, y - 1)))))) _ (by
      intro p _
      rw [(stabOp_bits R C p (x, y) hs).2, occ_four, Bool.and_assoc]),
    parity_four _ (plaquetteIndices_nodup R C), parity_four _ (plaquetteIndices_nodup R C)]
  simp only [mem_dec]
  exact bool12 _ _ _ _ _ _ _ _ _ _ _ _ (hsel (x, y) hs)

theorem virt_left_iff (R C y : Int) (hC : 2 ≤ C) (h0 : 0 ≤ y) (h1 : y ≤ R - 2) :
    isVirtualPlaquette R C (-1) y = true ↔ y % 2 = 1 := by
  rw [virt_boundary R C (-1) y (Or.inl rfl)]; unfold PlaqIn; dsimp only; omega

theorem virt_right_iff (R C y : Int) (hC : 2 ≤ C) (h0 : 0 ≤ y) (h1 : y ≤ R - 2) :
    isVirtualPlaquette R C (C - 1) y = true ↔ (C - 1 - y) % 2 = 0 := by
  rw [virt_boundary R C (C - 1) y (Or.inr (Or.inl rfl))]; unfold PlaqIn; dsimp only; omega

theorem virt_bot_iff (R C x : Int) (hR : 2 ≤ R) (h0 : 0 ≤ x) (h1 : x ≤ C - 2) :
    isVirtualPlaquette R C x (-1) = true ↔ x % 2 = 0 := by
  rw [virt_boundary R C x (-1) (Or.inr (Or.inr (Or.inl rfl)))]; unfold PlaqIn; dsimp only; omega

theorem virt_top_iff (R C x : Int) (hR : 2 ≤ R) (h0 : 0 ≤ x) (h1 : x ≤ C - 2) :
    isVirtualPlaquette R C x (R - 1) = true ↔ (x - R + 1) % 2 = 1 := by
  rw [virt_boundary R C x (R - 1) (Or.inr (Or.inr (Or.inr rfl)))]; unfold PlaqIn; dsimp only; omega

/-- a row without a virtual plaquette: around every site an even number (0 or 2) of its plaquettes -/
theorem row_sel_ok (R C y0 : Int) (h0 : 0 ≤ y0) (h1 : y0 ≤ R - 2) (hy : y0 % 2 = 0) (hCe : C % 2 = 0)
    (s : Int × Int) (hs : inSiteBounds R C s.1 s.2 = true) :
    ((decide ((s.1, s.2).2 = y0) && inPlaquetteBounds R C s.1 s.2) ^^
     ((decide ((s.1 - 1, s.2).2 = y0) && inPlaquetteBounds R C (s.1 - 1) s.2) ^^
     ((decide ((s.1, s.2 - 1).2 = y0) && inPlaquetteBounds R C s.1 (s.2 - 1)) ^^
      (decide ((s.1 - 1, s.2 - 1).2 = y0) && inPlaquetteBounds R C (s.1 - 1) (s.2 - 1))))) = false := by
  obtain ⟨sx, sy⟩ := s
  have hb := (inSiteBounds_iff R C sx sy).mp hs
  unfold SiteIn at hb
  dsimp only
  by_cases e1 : sy = y0
  · subst e1
    have e2 : ¬ (sy - 1 = sy) := by omega
    have m1 : inPlaquetteBounds R C sx sy = true := by
      rw [inPlaquetteBounds_iff]; unfold PlaqIn; dsimp only; omega
    have m2 : inPlaquetteBounds R C (sx - 1) sy = true := by
      rw [inPlaquetteBounds_iff]; unfold PlaqIn; dsimp only; omega
    simp [e2, m1, m2]
  · by_cases e2 : sy - 1 = y0
    · subst e2
      have e3 : ¬ (sy = sy - 1) := by omega
      have m1 : inPlaquetteBounds R C sx (sy - 1) = true := by
        rw [inPlaquetteBounds_iff]; unfold PlaqIn; dsimp only; omega
      have m2 : inPlaquetteBounds R C (sx - 1) (sy - 1) = true := by
        rw [inPlaquetteBounds_iff]; unfold PlaqIn; dsimp only; omega
      simp [e3, m1, m2]
    · simp [e1, e2]

/-- a column without a virtual plaquette -/
theorem col_sel_ok (R C x0 : Int) (h0 : 0 ≤ x0) (h1 : x0 ≤ C - 2) (hx : x0 % 2 = 1) (hRe : R % 2 = 0)
    (s : Int × Int) (hs : inSiteBounds R C s.1 s.2 = true) :
    ((decide ((s.1, s.2).1 = x0) && inPlaquetteBounds R C s.1 s.2) ^^
     ((decide ((s.1 - 1, s.2).1 = x0) && inPlaquetteBounds R C (s.1 - 1) s.2) ^^
     ((decide ((s.1, s.2 - 1).1 = x0) && inPlaquetteBounds R C s.1 (s.2 - 1)) ^^
      (decide ((s.1 - 1, s.2 - 1).1 = x0) && inPlaquetteBounds R C (s.1 - 1) (s.2 - 1))))) = false := by
  obtain ⟨sx, sy⟩ := s
  have hb := (inSiteBounds_iff R C sx sy).mp hs
  unfold SiteIn at hb
  dsimp only
  by_cases e1 : sx = x0
  · subst e1
    have e2 : ¬ (sx - 1 = sx) := by omega
    have m1 : inPlaquetteBounds R C sx sy = true := by
      rw [inPlaquetteBounds_iff]; unfold PlaqIn; dsimp only; omega
    have m2 : inPlaquetteBounds R C sx (sy - 1) = true := by
      rw [inPlaquetteBounds_iff]; unfold PlaqIn; dsimp only; omega
    simp [e2, m1, m2]
  · by_cases e2 : sx - 1 = x0
    · subst e2
      have e3 : ¬ (sx = sx - 1) := by omega
      have m1 : inPlaquetteBounds R C (sx - 1) sy = true := by
        rw [inPlaquetteBounds_iff]; unfold PlaqIn; dsimp only; omega
      have m2 : inPlaquetteBounds R C (sx - 1) (sy - 1) = true := by
        rw [inPlaquetteBounds_iff]; unfold PlaqIn; dsimp only; omega
      simp [e3, m1, m2]
    · simp [e1, e2]

/-- the hypothesis of `planar_ybits` for a selection -/
def SelOk (R C : Int) (sel : Int × Int → Bool) : Prop :=
  ∀ s : Int × Int, inSiteBounds R C s.1 s.2 = true →
    ((sel (s.1, s.2) && inPlaquetteBounds R C s.1 s.2) ^^
     ((sel (s.1 - 1, s.2) && inPlaquetteBounds R C (s.1 - 1) s.2) ^^
     ((sel (s.1, s.2 - 1) && inPlaquetteBounds R C s.1 (s.2 - 1)) ^^
      (sel (s.1 - 1, s.2 - 1) && inPlaquetteBounds R C (s.1 - 1) (s.2 - 1))))) = false

/-- **a Y-only error leaves an even number of defects on every selection that meets the plaquettes around each site
    an even number of times** (rotated planar) -/
theorem planar_line_even (R C : Int) (hC : 3 ≤ C) (sel : Int × Int → Bool) (hsel : SelOk R C sel)
    (e : BVec) (he : e.length = 2 * nq R C) (hey : xHalf e = zHalf e) :
    T.wX sel (plaquetteIndices R C) (synd (stabilizers R C) e) % 2 = 0 := by
  rw [stabilizers_eq_map]
  apply wX_synd_even' sel (2 * nq R C) _ _ (fun p _ => stabOp_length R C p)
  apply bsp_yonly (nq R C) e _ he _ hey
  · intro j hj
    exact planar_ybits R C hC sel hsel j hj
  · apply Ftp.xorAll_length
    intro r hr
    obtain ⟨q, _, rfl⟩ := List.mem_map.mp hr
    exact stabOp_length R C q

theorem defectsAt_wX (sel : Dec.Idx2 → Bool) (R C : Int) (rows : List BVec) (t : Nat) :
    ((defectsAt R C rows t).filter fun k => sel (sp k)).length =
      T.wX sel (plaquetteIndices R C) (rows.getD t []) := by
  unfold defectsAt T.wX
  rw [List.filter_map, List.length_map]
  rfl

theorem allDefects_wX (sel : Dec.Idx2 → Bool) (R C : Int) (rows : List BVec)
    (hrows : ∀ r ∈ rows, r.length = (plaquetteIndices R C).length) :
    ((allDefects R C rows).filter fun k => sel (sp k)).length % 2 =
      T.wX sel (plaquetteIndices R C) (xorAll (plaquetteIndices R C).length rows) % 2 := by
  unfold allDefects xorAll
  rw [T.filter_flatMap_length, T.wX_foldl sel _ rows _ (by simp [zeros]) hrows, T.wX_zeros sel, Nat.zero_add]
  congr 2
  have : (List.range rows.length).map (fun t => ((defectsAt R C rows t).filter fun k => sel (sp k)).length) =
      ((List.range rows.length).map fun t => rows.getD t []).map (T.wX sel (plaquetteIndices R C)) := by
    rw [List.map_map]
    apply List.map_congr_left
    intro t _
    exact defectsAt_wX sel R C rows t
  rw [this, Qec.map_getD_range]

/-- `LinesOk` from the evenness of every admissible selection -/
theorem linesOk_of_even (R C : Int) (hR : 2 ≤ R) (hC : 2 ≤ C) (D : List TIdx)
    (h : ∀ sel : Int × Int → Bool, SelOk R C sel → (D.filter fun k => sel (sp k)).length % 2 = 0) :
    LinesOk R C D := by
  constructor
  · intro y h0 h1 hv1 hv2
    rw [bool_iff_false _ _ (virt_left_iff R C y hC h0 h1)] at hv1
    rw [bool_iff_false _ _ (virt_right_iff R C y hC h0 h1)] at hv2
    exact h (fun p => decide (p.2 = y)) (fun s hs => row_sel_ok R C y h0 h1 (by omega) (by omega) s hs)
  · intro x h0 h1 hv1 hv2
    rw [bool_iff_false _ _ (virt_bot_iff R C x hR h0 h1)] at hv1
    rw [bool_iff_false _ _ (virt_top_iff R C x hR h0 h1)] at hv2
    exact h (fun p => decide (p.1 = x)) (fun s hs => col_sel_ok R C x h0 h1 (by omega) (by omega) s hs)

end P

end Qec.SmwpmX2
