/-
  C10 — the factor-graph identity, generic part (no lattice, no grid): sums over bond-index assignments (`sumV` of
  Lemmas/TensorExact.lean) of a product of DELTA tensors ("stars": all legs of one stabilizer carry the same index)
  and an arbitrary remaining factor collapse to a sum over one bit per stabilizer, which is the fold `spanEnum` of
  the spec (`Model/Coset.lean`).
-/
import QecVerif.Lemmas.TensorExact
import QecVerif.Lemmas.Coset
namespace Qec.FactorGraph
open Finset Qec Qec.TensorExact Qec.Coset
set_option linter.unusedSectionVars false

variable {R : Type*} [CommSemiring R] {ι : Type*} [DecidableEq ι]

/-- give every variable of `l` the value `x` (in the order in which `sumV` updates them) -/
def setAll : List ι → ℕ → (ι → ℕ) → (ι → ℕ)
  | [], _, τ => τ
  | b :: l, x, τ => setAll l x (Function.update τ b x)

theorem setAll_apply (l : List ι) (x : ℕ) (τ : ι → ℕ) (b : ι) :
    setAll l x τ b = if b ∈ l then x else τ b := by
  induction l generalizing τ with
  | nil => simp [setAll]
  | cons a l ih =>
    simp only [setAll, ih, List.mem_cons]
    by_cases h1 : b ∈ l
    · simp [h1]
    · by_cases h2 : b = a
      · subst h2; simp [h1]
      · simp [h1, h2, Function.update_of_ne h2]

/-- a sum over the variables of `l` against the indicator "every variable of `l` has the value `x`" evaluates the
    rest at that assignment -/
theorem sumV_pin (dim : ι → ℕ) (l : List ι) (hn : l.Nodup) (x : ℕ) (hx : ∀ b ∈ l, x < dim b)
    (H : (ι → ℕ) → R) (τ : ι → ℕ) :
    sumV dim l (fun t => (if ∀ b ∈ l, t b = x then 1 else 0) * H t) τ = H (setAll l x τ) := by
  induction l generalizing τ with
  | nil => simp [sumV, setAll]
  | cons b l ih =>
    have hb : b ∉ l := (List.nodup_cons.mp hn).1
    simp only [sumV]
    have step : ∀ y ∈ range (dim b),
        sumV dim l (fun t => (if ∀ c ∈ b :: l, t c = x then 1 else 0) * H t) (Function.update τ b y)
          = (if y = x then 1 else 0) * H (setAll l x (Function.update τ b y)) := by
      intro y _
      rw [← ih (List.nodup_cons.mp hn).2 (fun c hc => hx c (List.mem_cons_of_mem _ hc)) (Function.update τ b y),
        ← sumV_mul_left dim l (fun _ => (if y = x then (1 : R) else 0)) _ (fun _ _ _ _ => rfl)]
      apply sumV_congr_mem
      intro t _ h2
      have htb : t b = y := by rw [h2 b hb, Function.update_self]
      simp only [List.forall_mem_cons, htb]
      by_cases hyx : y = x
      · simp [hyx]
      · simp [hyx]
    rw [sum_congr rfl step, sum_eq_single x]
    · simp [setAll]
    · intro y _ hy; simp [hy]
    · intro hnx; exact absurd (mem_range.mpr (hx b (List.mem_cons_self ..))) hnx

/-- the delta tensor of one stabilizer as a function of the assignment: 1 iff all its legs carry the index of the
    first leg (`tsr.delta` restricted to the non-dummy legs) -/
def star (l : List ι) (t : ι → ℕ) : R :=
  match l with
  | [] => 1
  | b0 :: _ => if ∀ b ∈ l, t b = t b0 then 1 else 0

theorem star_congr (l : List ι) (t t' : ι → ℕ) (h : ∀ b ∈ l, t b = t' b) : (star l t : R) = star l t' := by
  cases l with
  | nil => rfl
  | cons b0 l =>
    simp only [star]
    have h0 := h b0 (List.mem_cons_self ..)
    have : (∀ b ∈ b0 :: l, t b = t b0) ↔ (∀ b ∈ b0 :: l, t' b = t' b0) := by
      constructor
      · intro hh b hb; rw [← h b hb, ← h0]; exact hh b hb
      · intro hh b hb; rw [h b hb, h0]; exact hh b hb
    simp only [this]

theorem star_indep (l l' : List ι) (hd : ∀ b ∈ l', b ∉ l) : Indep (star l : (ι → ℕ) → R) l' := by
  intro t b x hb
  apply star_congr
  intro c hc
  rw [Function.update_of_ne]
  rintro rfl
  exact hd _ hb hc

/-- one star: the sum over its legs against its delta is the sum over ONE index shared by all its legs -/
theorem sumV_star (dim : ι → ℕ) (l : List ι) (hn : l.Nodup) (hne : l ≠ []) (d : ℕ) (hd : ∀ b ∈ l, dim b = d)
    (K : (ι → ℕ) → R) (τ : ι → ℕ) :
    sumV dim l (fun t => star l t * K t) τ = ∑ x ∈ range d, K (setAll l x τ) := by
  cases l with
  | nil => exact absurd rfl hne
  | cons b0 l =>
    have hb : b0 ∉ l := (List.nodup_cons.mp hn).1
    simp only [sumV, hd b0 (List.mem_cons_self ..)]
    apply sum_congr rfl
    intro x hx
    have hx := mem_range.mp hx
    rw [show setAll (b0 :: l) x τ = setAll l x (Function.update τ b0 x) from rfl,
      ← sumV_pin dim l (List.nodup_cons.mp hn).2 x
        (fun c hc => by rw [hd c (List.mem_cons_of_mem _ hc)]; exact hx) K (Function.update τ b0 x)]
    apply sumV_congr_mem
    intro t _ h2
    have htb : t b0 = x := by rw [h2 b0 hb, Function.update_self]
    simp only [star, List.forall_mem_cons, htb, true_and]

/-- the sum over one shared index (dimension 2) per star -/
def sumB : List (List ι) → ((ι → ℕ) → R) → (ι → ℕ) → R
  | [], G, τ => G τ
  | l :: L, G, τ => ∑ x ∈ range 2, sumB L G (setAll l x τ)

/-- all stars: the sum over all legs of the product of the deltas and any factor `G` is the sum over one bit per
    star of `G` -/
theorem sumV_stars (dim : ι → ℕ) (L : List (List ι)) (hn : L.flatten.Nodup) (hne : ∀ l ∈ L, l ≠ [])
    (hd : ∀ b ∈ L.flatten, dim b = 2) (G : (ι → ℕ) → R) (τ : ι → ℕ) :
    sumV dim L.flatten (fun t => (L.map fun l => star l t).prod * G t) τ = sumB L G τ := by
  induction L generalizing τ with
  | nil => simp [sumV, sumB]
  | cons l L ih =>
    rw [List.flatten_cons] at hn hd ⊢
    have hnl : l.Nodup := (List.nodup_append.mp hn).1
    have hnL : L.flatten.Nodup := (List.nodup_append.mp hn).2.1
    have hdisj : ∀ b ∈ L.flatten, b ∉ l := fun b hb hl => (List.nodup_append.mp hn).2.2 b hl b hb rfl
    rw [sumV_append]
    have inner : ∀ t, sumV dim L.flatten (fun t' => ((l :: L).map fun l' => star l' t').prod * G t') t
        = star l t * sumB L G t := by
      intro t
      rw [← ih hnL (fun l' hl' => hne l' (List.mem_cons_of_mem _ hl'))
        (fun b hb => hd b (List.mem_append_right _ hb)) t,
        ← sumV_mul_left dim L.flatten (star l) _ (star_indep l L.flatten hdisj)]
      apply sumV_congr'
      intro t'
      simp only [List.map_cons, List.prod_cons, mul_assoc]
    rw [sumV_congr' dim l _ _ τ inner]
    exact sumV_star dim l hnl (hne l (List.mem_cons_self ..)) 2
      (fun b hb => hd b (List.mem_append_left _ hb)) _ τ

/-- the assignment in which every leg of the i-th star carries the bit `β i` -/
def assign : List (List ι) → List Bool → (ι → ℕ) → (ι → ℕ)
  | l :: L, b :: β, τ => assign L β (setAll l b.toNat τ)
  | _, _, τ => τ

/-- the sum over one bit per star is the spec's fold over the generators, whenever `G` at the assignment of the bits
    `β` is `W` at the XOR-combination `β · S` -/
theorem sumB_eq_span (m : ℕ) (L : List (List ι)) (S : List BVec) (hlen : L.length = S.length)
    (G : (ι → ℕ) → R) (W : BVec → R) (τ : ι → ℕ)
    (h : ∀ β : List Bool, β.length = S.length → G (assign L β τ) = W (xorComb m β S)) :
    sumB L G τ = ((spanEnum m S).map W).sum := by
  induction L generalizing S τ W with
  | nil =>
    cases S with
    | nil => simpa [sumB, spanEnum, assign, xorComb] using h [] rfl
    | cons g S => simp at hlen
  | cons l L ih =>
    cases S with
    | nil => simp at hlen
    | cons g S =>
      have hl : L.length = S.length := by simpa using hlen
      simp only [sumB, spanEnum, List.map_append, List.sum_append, List.map_map, sum_range_succ, sum_range_zero,
        zero_add]
      congr 1
      · apply ih S hl W
        intro β hβ
        have := h (false :: β) (by simp [hβ])
        simpa [assign, xorComb] using this
      · apply ih S hl (W ∘ xorV g)
        intro β hβ
        have := h (true :: β) (by simp [hβ])
        simpa [assign, xorComb] using this

theorem zipWith_prod {α : Type} [CommSemiring α] (f : Bool → Bool → α) (n : ℕ) (a b : BVec) (ha : a.length = n)
    (hb : b.length = n) :
    (List.zipWith f a b).prod = ∏ q ∈ range n, f (a.getD q false) (b.getD q false) := by
  induction n generalizing a b with
  | zero =>
    have : a = [] := List.length_eq_zero_iff.mp ha
    subst this
    simp
  | succ n ih =>
    cases a with
    | nil => simp at ha
    | cons x a =>
      cases b with
      | nil => simp at hb
      | cons y b =>
        rw [prod_range_succ', List.zipWith_cons_cons, List.prod_cons, ih a b (by simpa using ha) (by simpa using hb),
          mul_comm]
        simp

/-- probability of an n-qubit Pauli as a product over the qubit index -/
theorem weight_eq_prod {α : Type} [CommSemiring α] (d : Dist α) (n : ℕ) (e : BVec) (he : e.length = 2 * n) :
    weight d e = ∏ q ∈ range n, d.at (e.getD q false) (e.getD (n + q) false) := by
  have hh : e.length / 2 = n := by omega
  unfold weight xHalf zHalf
  rw [hh, zipWith_prod d.at n _ _ (by simp; omega) (by simp; omega)]
  apply prod_congr rfl
  intro q hq
  have hq := mem_range.mp hq
  congr 1
  · simp [List.getD_eq_getElem?_getD, List.getElem?_take, hq]
  · simp [List.getD_eq_getElem?_getD, List.getElem?_drop]

/-! ### the assignment of one bit per star, pointwise -/

theorem assign_not_mem (L : List (List ι)) (β : List Bool) (τ : ι → ℕ) (b : ι) (hb : b ∉ L.flatten) :
    assign L β τ b = τ b := by
  induction L generalizing β τ with
  | nil => cases β <;> rfl
  | cons l L ih =>
    cases β with
    | nil => rfl
    | cons x β =>
      rw [List.flatten_cons, List.mem_append, not_or] at hb
      simp only [assign]
      rw [ih β _ hb.2, setAll_apply, if_neg hb.1]

theorem assign_lt_two (L : List (List ι)) (β : List Bool) (τ : ι → ℕ) (b : ι) :
    assign L β τ b = τ b ∨ assign L β τ b < 2 := by
  induction L generalizing β τ with
  | nil => cases β <;> exact Or.inl rfl
  | cons l L ih =>
    cases β with
    | nil => exact Or.inl rfl
    | cons x β =>
      simp only [assign]
      rcases ih β (setAll l x.toNat τ) with h | h
      · rw [h, setAll_apply]
        by_cases hb : b ∈ l
        · right; rw [if_pos hb]; cases x <;> simp
        · left; rw [if_neg hb]
      · exact Or.inr h

/-- every leg of the star of `p0` carries the bit of `p0` -/
theorem assign_map_mem {σ : Type*} (P : List σ) (Lg : σ → List ι) (B : σ → Bool) (τ : ι → ℕ) (b : ι) (p0 : σ)
    (hp0 : p0 ∈ P) (hb : b ∈ Lg p0) (huniq : ∀ p ∈ P, b ∈ Lg p → p = p0) :
    assign (P.map Lg) (P.map B) τ b = (B p0).toNat := by
  induction P generalizing τ with
  | nil => simp at hp0
  | cons p P ih =>
    simp only [List.map_cons, assign]
    by_cases hin : ∃ p' ∈ P, b ∈ Lg p'
    · obtain ⟨p', hp', hb'⟩ := hin
      have : p' = p0 := huniq p' (List.mem_cons_of_mem _ hp') hb'
      subst this
      exact ih _ hp' (fun q hq => huniq q (List.mem_cons_of_mem _ hq))
    · have hp : p = p0 := by
        rcases List.mem_cons.mp hp0 with h | h
        · exact h.symm
        · exact absurd ⟨p0, h, hb⟩ hin
      subst hp
      rw [assign_not_mem, setAll_apply, if_pos hb]
      simp only [List.mem_flatten, List.mem_map, not_exists, not_and]
      rintro l ⟨q, hq, rfl⟩ hbq
      exact hin ⟨q, hq, hbq⟩

/-- a bit list of the right length is the image of a function on the (distinct) star indices -/
theorem exists_map_eq {σ : Type*} [DecidableEq σ] (P : List σ) (hP : P.Nodup) (β : List Bool)
    (h : β.length = P.length) : ∃ B : σ → Bool, P.map B = β := by
  induction P generalizing β with
  | nil => exact ⟨fun _ => false, by rw [List.map_nil]; exact (List.length_eq_zero_iff.mp h).symm⟩
  | cons p P ih =>
    cases β with
    | nil => simp at h
    | cons x β =>
      obtain ⟨B', hB'⟩ := ih (List.nodup_cons.mp hP).2 β (by simpa using h)
      refine ⟨Function.update B' p x, ?_⟩
      simp only [List.map_cons, Function.update_self, List.cons.injEq, true_and]
      rw [← hB']
      apply List.map_congr_left
      intro q hq
      rw [Function.update_of_ne]
      rintro rfl
      exact (List.nodup_cons.mp hP).1 hq

end Qec.FactorGraph
