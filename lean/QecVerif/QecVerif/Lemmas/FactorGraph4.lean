/-
  C10 — the factor-graph identity for stabilizer tensors whose legs carry a PAIR of generators (colour code: the X-type and
  the Z-type stabilizer of a plaquette share one delta tensor with legs of dimension 4, index 0, 1, 2, 3 = I, X, Y, Z).
  Generalises `Lemmas/FactorGraph.lean` (`sumV_stars`, `sumB_eq_span`, `assign`, `assign_map_mem`), whose statements
  are untouched: stars of any common dimension `k` (`sumV_starsK`), assignments of one index per star (`assignN`), and
  for `k = 4` the collapse of the sum over one Pauli index per star to the spec's fold `spanEnum` over the generator
  list `SX ++ SZ` (all first generators, then all second generators — the row order of `Color666.stabilizers`).
-/
import QecVerif.Lemmas.FactorGraph
import Mathlib.Tactic.Ring
namespace Qec.FactorGraph4
open Finset Qec Qec.TensorExact Qec.Coset Qec.FactorGraph
set_option linter.unusedSectionVars false

variable {R : Type*} [CommSemiring R] {ι : Type*} [DecidableEq ι]

/-- the sum over one shared index (dimension `k`) per star -/
def sumBk (k : ℕ) : List (List ι) → ((ι → ℕ) → R) → (ι → ℕ) → R
  | [], G, τ => G τ
  | l :: L, G, τ => ∑ x ∈ range k, sumBk k L G (setAll l x τ)

/-- all stars (legs of common dimension `k`): the sum over all legs of the product of the deltas and any factor `G` is
    the sum over one index per star of `G` -/
theorem sumV_starsK (k : ℕ) (dim : ι → ℕ) (L : List (List ι)) (hn : L.flatten.Nodup) (hne : ∀ l ∈ L, l ≠ [])
    (hd : ∀ b ∈ L.flatten, dim b = k) (G : (ι → ℕ) → R) (τ : ι → ℕ) :
    sumV dim L.flatten (fun t => (L.map fun l => FactorGraph.star l t).prod * G t) τ = sumBk k L G τ := by
  induction L generalizing τ with
  | nil => simp [sumV, sumBk]
  | cons l L ih =>
    rw [List.flatten_cons] at hn hd ⊢
    have hnl : l.Nodup := (List.nodup_append.mp hn).1
    have hnL : L.flatten.Nodup := (List.nodup_append.mp hn).2.1
    have hdisj : ∀ b ∈ L.flatten, b ∉ l := fun b hb hl => (List.nodup_append.mp hn).2.2 b hl b hb rfl
    rw [sumV_append]
    have inner : ∀ t, sumV dim L.flatten (fun t' => ((l :: L).map fun l' => FactorGraph.star l' t').prod * G t') t
        = FactorGraph.star l t * sumBk k L G t := by
      intro t
      rw [← ih hnL (fun l' hl' => hne l' (List.mem_cons_of_mem _ hl'))
        (fun b hb => hd b (List.mem_append_right _ hb)) t,
        ← sumV_mul_left dim L.flatten (FactorGraph.star l) _ (star_indep l L.flatten hdisj)]
      apply sumV_congr'
      intro t'
      simp only [List.map_cons, List.prod_cons, mul_assoc]
    rw [sumV_congr' dim l _ _ τ inner]
    exact sumV_star dim l hnl (hne l (List.mem_cons_self ..)) k
      (fun b hb => hd b (List.mem_append_left _ hb)) _ τ

/-- the assignment in which every leg of the i-th star carries the index `xs i` -/
def assignN : List (List ι) → List ℕ → (ι → ℕ) → (ι → ℕ)
  | l :: L, x :: xs, τ => assignN L xs (setAll l x τ)
  | _, _, τ => τ

theorem assignN_not_mem (L : List (List ι)) (xs : List ℕ) (τ : ι → ℕ) (b : ι) (hb : b ∉ L.flatten) :
    assignN L xs τ b = τ b := by
  induction L generalizing xs τ with
  | nil => cases xs <;> rfl
  | cons l L ih =>
    cases xs with
    | nil => rfl
    | cons x xs =>
      rw [List.flatten_cons, List.mem_append, not_or] at hb
      simp only [assignN]
      rw [ih xs _ hb.2, setAll_apply, if_neg hb.1]

/-- every leg of the star of `p0` carries the index of `p0` -/
theorem assignN_map_mem {σ : Type*} (P : List σ) (Lg : σ → List ι) (X : σ → ℕ) (τ : ι → ℕ) (b : ι) (p0 : σ)
    (hp0 : p0 ∈ P) (hb : b ∈ Lg p0) (huniq : ∀ p ∈ P, b ∈ Lg p → p = p0) :
    assignN (P.map Lg) (P.map X) τ b = X p0 := by
  induction P generalizing τ with
  | nil => simp at hp0
  | cons p P ih =>
    simp only [List.map_cons, assignN]
    by_cases hin : ∃ p' ∈ P, b ∈ Lg p'
    · obtain ⟨p', hp', hb'⟩ := hin
      have : p' = p0 := huniq p' (List.mem_cons_of_mem _ hp') hb'
      subst this
      exact ih _ hp' (fun q hq => huniq q (List.mem_cons_of_mem _ hq))
    · have hp : p = p0 := by
        rcases List.mem_cons.mp hp0 with h | h
        · exact h.symm
        · exact absurd ⟨p0, h, hb⟩ hin
      subst hp
      rw [assignN_not_mem, setAll_apply, if_pos hb]
      simp only [List.mem_flatten, List.mem_map, not_exists, not_and]
      rintro l ⟨q, hq, rfl⟩ hbq
      exact hin ⟨q, hq, hbq⟩

/-- Pauli index of a pair of bits: `(x, z) ↦ 0, 1, 2, 3` for `I, X, Y, Z` (`index_to_op` of `q_node_value`) -/
def pidx (x z : Bool) : ℕ :=
  match x, z with
  | false, false => 0
  | true, false => 1
  | true, true => 2
  | false, true => 3

theorem pidx_lt (x z : Bool) : pidx x z < 4 := by cases x <;> cases z <;> decide

/-- a generator in the middle of the list can be pulled out of a combination -/
theorem xorComb_mid (m : ℕ) (βx βz : List Bool) (bz : Bool) (A B : List BVec) (g : BVec) (h : βx.length = A.length) :
    xorComb m (βx ++ bz :: βz) (A ++ g :: B)
      = if bz then xorV g (xorComb m (βx ++ βz) (A ++ B)) else xorComb m (βx ++ βz) (A ++ B) := by
  induction βx generalizing A with
  | nil =>
    cases A with
    | nil => rfl
    | cons a A => simp at h
  | cons b βx ih =>
    cases A with
    | nil => simp at h
    | cons a A =>
      have hl : βx.length = A.length := by simpa using h
      simp only [List.cons_append, xorComb, ih A hl]
      cases b <;> cases bz <;> simp only [if_true, if_false, Bool.false_eq_true]
      ac_rfl

/-- the fold over a generator list with one generator in the middle -/
theorem span_mid_sum (m : ℕ) (A B : List BVec) (g : BVec) (W : BVec → R) :
    ((spanEnum m (A ++ g :: B)).map W).sum
      = ((spanEnum m (A ++ B)).map W).sum + ((spanEnum m (A ++ B)).map fun v => W (xorV g v)).sum := by
  induction A generalizing W with
  | nil => simp [spanEnum, List.map_append, List.sum_append, List.map_map, Function.comp_def]
  | cons a A ih =>
    simp only [List.cons_append, spanEnum, List.map_append, List.sum_append, List.map_map, Function.comp_def]
    rw [ih W, ih (fun v => W (xorV a v))]
    have e : (fun v => W (xorV a (xorV g v))) = (fun v => W (xorV g (xorV a v))) := by
      funext v
      congr 1
      ac_rfl
    rw [e]
    ring

/-- **one Pauli index per star = the spec's fold over `SX ++ SZ`**: whenever `G` at the assignment of the indices
    `pidx βxᵢ βzᵢ` is `W` at the XOR-combination `(βx ++ βz) · (SX ++ SZ)` -/
theorem sumB4_eq_span (m : ℕ) (L : List (List ι)) (SX SZ : List BVec) (hx : L.length = SX.length)
    (hz : L.length = SZ.length) (G : (ι → ℕ) → R) (W : BVec → R) (τ : ι → ℕ)
    (h : ∀ βx βz : List Bool, βx.length = L.length → βz.length = L.length →
      G (assignN L (List.zipWith pidx βx βz) τ) = W (xorComb m (βx ++ βz) (SX ++ SZ))) :
    sumBk 4 L G τ = ((spanEnum m (SX ++ SZ)).map W).sum := by
  induction L generalizing SX SZ τ W with
  | nil =>
    cases SX with
    | cons g S => simp at hx
    | nil =>
      cases SZ with
      | cons g S => simp at hz
      | nil => simpa [sumBk, spanEnum, assignN, xorComb] using h [] [] rfl rfl
  | cons l L ih =>
    cases SX with
    | nil => simp at hx
    | cons gx SX =>
      cases SZ with
      | nil => simp at hz
      | cons gz SZ =>
        have hx' : L.length = SX.length := by simpa using hx
        have hz' : L.length = SZ.length := by simpa using hz
        have key : ∀ bx bz : Bool, sumBk 4 L G (setAll l (pidx bx bz) τ)
            = ((spanEnum m (SX ++ SZ)).map fun v =>
                W (if bx then xorV gx (if bz then xorV gz v else v) else (if bz then xorV gz v else v))).sum := by
          intro bx bz
          apply ih SX SZ hx' hz'
          intro βx βz h1 h2
          have := h (bx :: βx) (bz :: βz) (by simp [h1]) (by simp [h2])
          simp only [List.zipWith_cons_cons, assignN, List.cons_append, xorComb] at this
          rw [this, xorComb_mid m βx βz bz SX SZ gz (by rw [h1, hx'])]
        have k0 := key false false
        have k1 := key true false
        have k2 := key true true
        have k3 := key false true
        simp only [pidx, if_true, if_false, Bool.false_eq_true] at k0 k1 k2 k3
        simp only [sumBk, sum_range_succ, sum_range_zero, zero_add, k0, k1, k2, k3]
        simp only [List.cons_append, spanEnum, List.map_append, List.sum_append, List.map_map, Function.comp_def]
        rw [span_mid_sum m SX SZ gz W, span_mid_sum m SX SZ gz (fun v => W (xorV gx v))]
        ring

end Qec.FactorGraph4
