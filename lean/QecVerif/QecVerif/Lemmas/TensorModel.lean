/-
  Helper lemmas for property C11 about the executable model (Model/Tensor.lean): truncation guard,
  error cases.  Core Lean only.
-/
import QecVerif.Model.Tensor

namespace Qec.TensorModel
open Qec.Tensor

/-! ### no-op truncation -/

theorem truncate_of_guard_false (mps : MPS) (chi : Option Int) (tol : Bool) (mask : Option (List Bool))
    (h : truncateGuard mps chi tol mask = false) : truncate mps chi tol mask = .ok (mps, 1) := by
  simp [truncate, h]; rfl

theorem truncStep_noop (skip : Bool) (m : MPS) (mult : Int) (chi chi' : Option Int) (tol tol' : Bool)
    (msk msk' : Option (List Bool)) (h1 : truncateGuard m chi tol msk = false)
    (h2 : truncateGuard m chi' tol' msk' = false) :
    truncStep skip m mult chi tol msk = truncStep skip m mult chi' tol' msk' := by
  simp only [truncStep, truncate_of_guard_false _ _ _ _ h1, truncate_of_guard_false _ _ _ _ h2]

/-- sweeps whose columns agree (masks may differ) and whose truncation settings are both no-ops agree -/
theorem sweep_noop (fwd : Bool) (chi chi' : Option Int) (tol tol' full : Bool)
    (cols cols' : List (MPS × Option (List Bool))) (acc : MPS × Int)
    (hc : cols.map Prod.fst = cols'.map Prod.fst)
    (h1 : ∀ mps, ∀ p ∈ cols, truncateGuard mps chi tol p.2 = false)
    (h2 : ∀ mps, ∀ p ∈ cols', truncateGuard mps chi' tol' p.2 = false) :
    sweep fwd chi tol full acc cols = sweep fwd chi' tol' full acc cols' := by
  induction cols generalizing cols' acc with
  | nil => cases cols' with
    | nil => rfl
    | cons _ _ => simp at hc
  | cons p ps ih =>
    cases cols' with
    | nil => simp at hc
    | cons p' ps' =>
      obtain ⟨res, mult⟩ := acc
      obtain ⟨mps, msk⟩ := p
      obtain ⟨mps', msk'⟩ := p'
      simp only [List.map_cons, List.cons.injEq] at hc
      obtain ⟨rfl, hc⟩ := hc
      have hemp : ps.isEmpty = ps'.isEmpty := by
        have := congrArg List.length hc
        simp only [List.length_map] at this
        cases ps <;> cases ps' <;> simp_all
      have ih' := fun acc => ih ps' acc hc (fun m p hp => h1 m p (List.mem_cons_of_mem _ hp))
        (fun m p hp => h2 m p (List.mem_cons_of_mem _ hp))
      simp only [sweep]
      cases pairStep fwd res mps with
      | error e => rfl
      | ok r =>
        simp only [hemp]
        rw [truncStep_noop _ r mult chi chi' tol tol' msk msk' (h1 r _ (List.mem_cons_self ..))
          (h2 r _ (List.mem_cons_self ..))]
        cases truncStep (ps'.isEmpty && full) r mult chi' tol' msk' with
        | error e => rfl
        | ok a => exact ih' a

theorem truncStep_of_guard_false (skip : Bool) (m : MPS) (mult : Int) (chi : Option Int) (tol : Bool)
    (msk : Option (List Bool)) (h : truncateGuard m chi tol msk = false) :
    truncStep skip m mult chi tol msk = .ok (m, mult) := by
  cases skip with
  | true => rfl
  | false => simp only [truncStep, Bool.false_eq_true, if_false, truncate_of_guard_false _ _ _ _ h, Int.mul_one]

/-- the bond dimensions that occur during the column loop run without truncation: `bond_dimension` of every
    result of `contract_pairwise` (the loop stops at the first exception) -/
def sweepBonds (fwd : Bool) : MPS → List MPS → List Nat
  | _, [] => []
  | res, mps :: rest =>
    match pairStep fwd res mps with
    | .error _ => []
    | .ok res' => bondDimension res' :: sweepBonds fwd res' rest

/-- `step is None or step > 0` -/
def stepFwd (step : Option Int) : Bool := match step with | none => true | some s => decide (s > 0)

theorem contract_unfold (tn : Net) (chi : Option Int) (tol : Bool) (start stop step : Option Int)
    (mask : Option Mask) :
    contract tn chi tol start stop step mask =
      if !maskOK tn mask then .error .assertion else
      match colRange start stop step tn.ncols with
      | .error e => .error e
      | .ok cr => contractCols tn chi tol (stepFwd step) mask cr := rfl

/-- the bond dimensions that occur during `contract tn … start stop step` run without truncation -/
def contractBonds (tn : Net) (start stop step : Option Int) : List Nat :=
  match colRange start stop step tn.ncols with
  | .ok (c0 :: cs) => sweepBonds (stepFwd step) (tn.col c0) (cs.map tn.col)
  | _ => []

/-- a bond limit `chi` at least as large as every bond that occurs is a no-op for the whole sweep -/
theorem sweep_noop_chi (fwd : Bool) (c : Int) (chi' : Option Int) (tol' full : Bool)
    (cols cols' : List (MPS × Option (List Bool))) (res : MPS) (mult : Int)
    (hc : cols.map Prod.fst = cols'.map Prod.fst)
    (hb : ∀ b ∈ sweepBonds fwd res (cols.map Prod.fst), (b : Int) ≤ c)
    (h2 : ∀ mps, ∀ p ∈ cols', truncateGuard mps chi' tol' p.2 = false) :
    sweep fwd (some c) false full (res, mult) cols = sweep fwd chi' tol' full (res, mult) cols' := by
  induction cols generalizing cols' res mult with
  | nil => cases cols' with
    | nil => rfl
    | cons _ _ => simp at hc
  | cons p ps ih =>
    cases cols' with
    | nil => simp at hc
    | cons p' ps' =>
      obtain ⟨mps, msk⟩ := p
      obtain ⟨mps', msk'⟩ := p'
      simp only [List.map_cons, List.cons.injEq] at hc
      obtain ⟨rfl, hc⟩ := hc
      have hemp : ps.isEmpty = ps'.isEmpty := by
        have := congrArg List.length hc
        simp only [List.length_map] at this
        cases ps <;> cases ps' <;> simp_all
      simp only [sweep]
      simp only [List.map_cons, sweepBonds] at hb
      cases hps : pairStep fwd res mps with
      | error e => rfl
      | ok r =>
        rw [hps] at hb
        simp only [List.mem_cons, forall_eq_or_imp] at hb
        have hg : truncateGuard r (some c) false msk = false := by
          have : ¬ (c < (bondDimension r : Int)) := by omega
          simp [truncateGuard, this]
        simp only [truncStep_of_guard_false _ r mult _ _ _ hg,
          truncStep_of_guard_false _ r mult _ _ _ (h2 r _ (List.mem_cons_self ..))]
        exact ih ps' r mult hc hb.2 (fun m p hp => h2 m p (List.mem_cons_of_mem _ hp))

theorem mask_col_allfalse (m : Mask) (h : ∀ i, m.a.getD i false = false) (c : Nat) :
    (m.col c).any id = false := by
  simp only [Mask.col, List.any_eq_false, List.mem_map, List.mem_range, id]
  rintro x ⟨r, _, rfl⟩
  simp [h]

/-- bonds that occur when the columns `cr` are contracted without truncation -/
def colsBonds (tn : Net) (fwd : Bool) : List Nat → List Nat
  | c0 :: cs => sweepBonds fwd (tn.col c0) (cs.map tn.col)
  | [] => []

theorem contractCols_noop (tn : Net) (chi : Option Int) (tol fwd : Bool) (mask : Option Mask) (cr : List Nat)
    (h : (tol = false ∧ (chi = none ∨ chi = some 0 ∨ ∃ c, chi = some c ∧ ∀ b ∈ colsBonds tn fwd cr, (b : Int) ≤ c)) ∨
         (∃ m, mask = some m ∧ ∀ i, m.a.getD i false = false)) :
    contractCols tn chi tol fwd mask cr = contractCols tn none false fwd none cr := by
  simp only [contractCols, Option.map_none]
  cases cr with
  | nil => rfl
  | cons c cs =>
    simp only [List.map_cons]
    have hguard' : ∀ (mps : MPS) (p : MPS × Option (List Bool)),
        p ∈ cs.map (fun c => (tn.col c, (none : Option (List Bool)))) → truncateGuard mps none false p.2 = false := by
      intro mps p _; simp [truncateGuard]
    have hfst : (cs.map fun c => (tn.col c, mask.map fun m => m.col c)).map Prod.fst
        = (cs.map fun c => (tn.col c, (none : Option (List Bool)))).map Prod.fst := by
      simp [List.map_map, Function.comp_def]
    have key : sweep fwd chi tol (tn.ncols == (c :: cs).length) (tn.col c, 1)
          (cs.map fun c => (tn.col c, mask.map fun m => m.col c))
        = sweep fwd none false (tn.ncols == (c :: cs).length) (tn.col c, 1) (cs.map fun c => (tn.col c, none)) := by
      rcases h with ⟨rfl, rfl | rfl | ⟨c', rfl, hb⟩⟩ | ⟨m, rfl, hm⟩
      · exact sweep_noop _ _ _ _ _ _ _ _ _ hfst (fun mps p _ => by simp [truncateGuard]) hguard'
      · exact sweep_noop _ _ _ _ _ _ _ _ _ hfst (fun mps p _ => by simp [truncateGuard]) hguard'
      · refine sweep_noop_chi _ c' none false _ _ _ _ _ hfst ?_ hguard'
        intro b hb'
        apply hb
        simpa [colsBonds, List.map_map, Function.comp_def] using hb'
      · refine sweep_noop _ _ _ _ _ _ _ _ _ hfst (fun mps p hp => ?_) hguard'
        obtain ⟨c', _, rfl⟩ := List.mem_map.mp hp
        simp [truncateGuard, mask_col_allfalse m hm c']
    rw [key]

theorem contractBonds_eq (tn : Net) (start stop step : Option Int) (cr : List Nat)
    (h : colRange start stop step tn.ncols = .ok cr) :
    contractBonds tn start stop step = colsBonds tn (stepFwd step) cr := by
  unfold contractBonds
  rw [h]
  cases cr <;> rfl

/-! ### non-contiguous MPS -/

theorem aux_both (l : MPS) (i a b : Nat) (h : ∃ t, some t ∈ l) :
    startStopAux l i (some a) (some b) = .error .value := by
  induction l generalizing i with
  | nil => obtain ⟨t, ht⟩ := h; simp at ht
  | cons x l ih =>
    cases x with
    | some t => simp [startStopAux]; rfl
    | none =>
      simp only [startStopAux, Option.isSome_none, Bool.false_eq_true, if_false]
      apply ih
      obtain ⟨t, ht⟩ := h
      exact ⟨t, by simpa using ht⟩

theorem aux_started (l2 l3 l4 : MPS) (t : T4) (i a : Nat) :
    startStopAux (l2 ++ none :: (l3 ++ some t :: l4)) i (some a) none = .error .value := by
  induction l2 generalizing i with
  | nil =>
    simp only [List.nil_append, startStopAux, Option.isNone_none, if_true]
    exact aux_both _ _ _ _ ⟨t, by simp⟩
  | cons x l2 ih =>
    cases x with
    | some u => simp only [List.cons_append, startStopAux, Option.isNone_some, Bool.false_eq_true, if_false]; exact ih _
    | none =>
      simp only [List.cons_append, startStopAux, Option.isNone_none, if_true]
      exact aux_both _ _ _ _ ⟨t, by simp⟩

theorem aux_fresh (l1 l2 l3 l4 : MPS) (s t : T4) (i : Nat) :
    startStopAux (l1 ++ some s :: (l2 ++ none :: (l3 ++ some t :: l4))) i none none = .error .value := by
  induction l1 generalizing i with
  | nil =>
    simp only [List.nil_append, startStopAux, Option.isSome_some, if_true]
    exact aux_started _ _ _ _ _ _
  | cons x l1 ih =>
    cases x with
    | none => simp only [List.cons_append, startStopAux, Option.isSome_none, Bool.false_eq_true, if_false]; exact ih _
    | some u =>
      simp only [List.cons_append, startStopAux, Option.isSome_some, if_true]
      have := aux_started (l1 ++ some s :: l2) l3 l4 t (i + 1) i
      simpa using this

end Qec.TensorModel
