/-
  Helper lemmas for property C11 about the executable model (Model/Tensor.lean): truncation guard,
  error cases.  Core Lean only.
-/
import QecVerif.Model.Tensor

namespace Qec.TensorModel
open Qec.Tensor

/-! ### no-op truncation -/

theorem truncate_of_guard_false (mps : MPS) (chi : Option Int) (tol : Bool) (mask : Option (List Bool))
    (h : truncateGuard mps chi tol mask = false) : truncate mps chi tol mask = .ok (mps, 1) := by
  simp [truncate, h]; rfl

theorem truncStep_noop (skip : Bool) (m : MPS) (mult : Int) (chi chi' : Option Int) (tol tol' : Bool)
    (msk msk' : Option (List Bool)) (h1 : truncateGuard m chi tol msk = false)
    (h2 : truncateGuard m chi' tol' msk' = false) :
    truncStep skip m mult chi tol msk = truncStep skip m mult chi' tol' msk' := by
  simp only [truncStep, truncate_of_guard_false _ _ _ _ h1, truncate_of_guard_false _ _ _ _ h2]

/-- sweeps whose columns agree (masks may differ) and whose truncation settings are both no-ops agree -/
theorem sweep_noop (fwd : Bool) (chi chi' : Option Int) (tol tol' full : Bool)
    (cols cols' : List (MPS × Option (List Bool))) (acc : MPS × Int)
    (hc : cols.map Prod.fst = cols'.map Prod.fst)
    (h1 : ∀ mps, ∀ p ∈ cols, truncateGuard mps chi tol p.2 = false)
    (h2 : ∀ mps, ∀ p ∈ cols', truncateGuard mps chi' tol' p.2 = false) :
    sweep fwd chi tol full acc cols = sweep fwd chi' tol' full acc cols' := by
  induction cols generalizing cols' acc with
  | nil => cases cols' with
    | nil => rfl
    | cons _ _ => simp at hc
  | cons p ps ih =>
    cases cols' with
    | nil => simp at hc
    | cons p' ps' =>
      obtain ⟨res, mult⟩ := acc
      obtain ⟨mps, msk⟩ := p
      obtain ⟨mps', msk'⟩ := p'
      simp only [List.map_cons, List.cons.injEq] at hc
      obtain ⟨rfl, hc⟩ := hc
      have hemp : ps.isEmpty = ps'.isEmpty := by
        have := congrArg List.length hc
        simp only [List.length_map] at this
        cases ps <;> cases ps' <;> simp_all
      have ih' := fun acc => ih ps' acc hc (fun m p hp => h1 m p (List.mem_cons_of_mem _ hp))
        (fun m p hp => h2 m p (List.mem_cons_of_mem _ hp))
      simp only [sweep]
      cases pairStep fwd res mps with
      | error e => rfl
      | ok r =>
        simp only [hemp]
        rw [truncStep_noop _ r mult chi chi' tol tol' msk msk' (h1 r _ (List.mem_cons_self ..))
          (h2 r _ (List.mem_cons_self ..))]
        cases truncStep (ps'.isEmpty && full) r mult chi' tol' msk' with
        | error e => rfl
        | ok a => exact ih' a

theorem mask_col_allfalse (m : Mask) (h : ∀ i, m.a.getD i false = false) (c : Nat) :
    (m.col c).any id = false := by
  simp only [Mask.col, List.any_eq_false, List.mem_map, List.mem_range, id]
  rintro x ⟨r, _, rfl⟩
  simp [h]

/-! ### non-contiguous MPS -/

theorem aux_both (l : MPS) (i a b : Nat) (h : ∃ t, some t ∈ l) :
    startStopAux l i (some a) (some b) = .error .value := by
  induction l generalizing i with
  | nil => obtain ⟨t, ht⟩ := h; simp at ht
  | cons x l ih =>
    cases x with
    | some t => simp [startStopAux]; rfl
    | none =>
      simp only [startStopAux, Option.isSome_none, Bool.false_eq_true, if_false]
      apply ih
      obtain ⟨t, ht⟩ := h
      exact ⟨t, by simpa using ht⟩

theorem aux_started (l2 l3 l4 : MPS) (t : T4) (i a : Nat) :
    startStopAux (l2 ++ none :: (l3 ++ some t :: l4)) i (some a) none = .error .value := by
  induction l2 generalizing i with
  | nil =>
    simp only [List.nil_append, startStopAux, Option.isNone_none, if_true]
    exact aux_both _ _ _ _ ⟨t, by simp⟩
  | cons x l2 ih =>
    cases x with
    | some u => simp only [List.cons_append, startStopAux, Option.isNone_some, Bool.false_eq_true, if_false]; exact ih _
    | none =>
      simp only [List.cons_append, startStopAux, Option.isNone_none, if_true]
      exact aux_both _ _ _ _ ⟨t, by simp⟩

theorem aux_fresh (l1 l2 l3 l4 : MPS) (s t : T4) (i : Nat) :
    startStopAux (l1 ++ some s :: (l2 ++ none :: (l3 ++ some t :: l4))) i none none = .error .value := by
  induction l1 generalizing i with
  | nil =>
    simp only [List.nil_append, startStopAux, Option.isSome_some, if_true]
    exact aux_started _ _ _ _ _ _
  | cons x l1 ih =>
    cases x with
    | none => simp only [List.cons_append, startStopAux, Option.isSome_none, Bool.false_eq_true, if_false]; exact ih _
    | some u =>
      simp only [List.cons_append, startStopAux, Option.isSome_some, if_true]
      have := aux_started (l1 ++ some s :: l2) l3 l4 t (i + 1) i
      simpa using this

end Qec.TensorModel
