/-
  C10 — the rotated planar ROTATED MPS decoder's network (`Model/RotatedPlanarRmpsTn.lean`): the shape table of
  `create_q_node` in closed form (which of the horseshoe links of which plaquette has dimension 2), leg dimensions, C11
  compatibility, no `None` site.  Helper lemmas for Props/C10/RotatedPlanarRmpsNetwork.lean.
-/
import QecVerif.Model.RotatedPlanarRmpsTn
import QecVerif.Lemmas.RotatedPlanarTn
import Mathlib.Tactic.IntervalCases
import Mathlib.Tactic.Ring
namespace Qec.RotatedPlanarRmpsLemmas
open Qec Qec.Tensor Qec.TensorAlg Qec.TensorBridge Qec.TensorExact Qec.TensorPad Qec.Coset
open Qec.PlanarTn (RowDir ColDir hNodeValue vNodeValue)
open Qec.RotatedPlanarTn (qRowDir qColDir opAt)
open Qec.RotatedPlanarCode (SiteIn PlaqIn)
open Qec.RotatedPlanarRmpsTn

/-! ### the horseshoe links in closed form -/

/-- the four sides of a plaquette -/
inductive Side | W | S | E | N
deriving DecidableEq

/-- the link along side `sd` of the plaquette `(px, py)` (corner sites SW `(px, py)`, NW `(px, py+1)`, NE `(px+1, py+1)`,
    SE `(px+1, py)`) has dimension 2: the plaquette is in the lattice, both end points of the side are sites, and — for a
    4-site plaquette — the side is not the open side of the horseshoe (the north side for even `px`, the south side for
    odd `px`) -/
def On (R C px py : Int) : Side → Prop
  | .W => PlaqIn R C (px, py) ∧ SiteIn R C px py ∧ SiteIn R C px (py + 1)
  | .E => PlaqIn R C (px, py) ∧ SiteIn R C (px + 1) py ∧ SiteIn R C (px + 1) (py + 1)
  | .S => PlaqIn R C (px, py) ∧ SiteIn R C px py ∧ SiteIn R C (px + 1) py ∧
      ¬ (SiteIn R C px (py + 1) ∧ SiteIn R C (px + 1) (py + 1) ∧ px % 2 = 1)
  | .N => PlaqIn R C (px, py) ∧ SiteIn R C px (py + 1) ∧ SiteIn R C (px + 1) (py + 1) ∧
      ¬ (SiteIn R C px py ∧ SiteIn R C (px + 1) py ∧ px % 2 = 0)

instance (R C px py : Int) (sd : Side) : Decidable (On R C px py sd) := by
  cases sd <;> unfold On PlaqIn SiteIn <;> infer_instance

instance (R C : Int) (p : Int × Int) : Decidable (PlaqIn R C p) := by unfold PlaqIn; infer_instance

/-- dimension of a link -/
def ld (R C px py : Int) (sd : Side) : ℕ := if On R C px py sd then 2 else 1
/-- dimension of the leg of a qubit towards a plaquette -/
def pd (R C px py : Int) : ℕ := if PlaqIn R C (px, py) then 2 else 1

/-- the shapes of the q-node of the site `(x, y)` in closed form -/
def shapesOf (R C x y : Int) : Shapes :=
  { q := (pd R C x y, pd R C x (y - 1), pd R C (x - 1) (y - 1), pd R C (x - 1) y),
    n := (pd R C x y, ld R C x y .W, ld R C x y .S),
    e := (pd R C x (y - 1), ld R C x (y - 1) .N, ld R C x (y - 1) .W),
    s := (pd R C (x - 1) (y - 1), ld R C (x - 1) (y - 1) .E, ld R C (x - 1) (y - 1) .N),
    w := (pd R C (x - 1) y, ld R C (x - 1) y .S, ld R C (x - 1) y .E) }

theorem qRowDir_cases (R y : Int) (hR : 3 ≤ R) (h0 : 0 ≤ y) (h1 : y ≤ R - 1) :
    (qRowDir R y = .s ∧ y = 0) ∨ (qRowDir R y = .n ∧ y = R - 1) ∨ (qRowDir R y = .mid ∧ 0 < y ∧ y < R - 1) := by
  unfold qRowDir RotatedPlanar.maxSiteY
  split_ifs <;> simp <;> omega

theorem qColDir_cases (C x : Int) (hC : 3 ≤ C) (h0 : 0 ≤ x) (h1 : x ≤ C - 1) :
    (qColDir C x = .w ∧ x = 0) ∨ (qColDir C x = .e ∧ x = C - 1) ∨ (qColDir C x = .mid ∧ 0 < x ∧ x < C - 1) := by
  unfold qColDir RotatedPlanar.maxSiteX
  split_ifs <;> simp <;> omega

/-- one combination of node type, column parity and row class (the three column classes inside): closes the
    component equations of `qShapes … = some (shapesOf …)` by unfolding `On` and linear arithmetic -/
macro "shapes_tac" : tactic => `(tactic| (
  simp only [qShapes, hShapes, vShapes, bulk, if_true, if_false, Bool.false_eq_true, Option.some.injEq, shapesOf,
    Shapes.mk.injEq, Prod.mk.injEq, ld, pd]
  refine ⟨⟨?_, ?_, ?_, ?_⟩, ⟨?_, ?_, ?_⟩, ⟨?_, ?_, ?_⟩, ⟨?_, ?_, ?_⟩, ⟨?_, ?_, ?_⟩⟩ <;>
  (split_ifs with hh <;> first | rfl | (exfalso; simp only [On, PlaqIn, SiteIn] at hh; omega))))

theorem qShapes_hes (R C x y : Int) (hR : 3 ≤ R) (hC : 3 ≤ C) (hx0 : 0 ≤ x) (hx1 : x ≤ C - 1) (hy : y = 0)
    (hz : (x - y) % 2 = 0) (he : x % 2 = 0) :
    qShapes true true .s (qColDir C x) = some (shapesOf R C x y) := by
  rcases qColDir_cases C x hC hx0 hx1 with ⟨e2, h2⟩ | ⟨e2, h2⟩ | ⟨e2, h2⟩ <;> rw [e2] <;>
    first
    | (exfalso; omega)
    | shapes_tac

theorem qShapes_hen (R C x y : Int) (hR : 3 ≤ R) (hC : 3 ≤ C) (hx0 : 0 ≤ x) (hx1 : x ≤ C - 1) (hy : y = R - 1)
    (hz : (x - y) % 2 = 0) (he : x % 2 = 0) :
    qShapes true true .n (qColDir C x) = some (shapesOf R C x y) := by
  rcases qColDir_cases C x hC hx0 hx1 with ⟨e2, h2⟩ | ⟨e2, h2⟩ | ⟨e2, h2⟩ <;> rw [e2] <;>
    first
    | (exfalso; omega)
    | shapes_tac

theorem qShapes_hem (R C x y : Int) (hR : 3 ≤ R) (hC : 3 ≤ C) (hx0 : 0 ≤ x) (hx1 : x ≤ C - 1) (hy : 0 < y ∧ y < R - 1)
    (hz : (x - y) % 2 = 0) (he : x % 2 = 0) :
    qShapes true true .mid (qColDir C x) = some (shapesOf R C x y) := by
  rcases qColDir_cases C x hC hx0 hx1 with ⟨e2, h2⟩ | ⟨e2, h2⟩ | ⟨e2, h2⟩ <;> rw [e2] <;>
    first
    | (exfalso; omega)
    | shapes_tac

theorem qShapes_hos (R C x y : Int) (hR : 3 ≤ R) (hC : 3 ≤ C) (hx0 : 0 ≤ x) (hx1 : x ≤ C - 1) (hy : y = 0)
    (hz : (x - y) % 2 = 0) (he : x % 2 = 1) :
    qShapes true false .s (qColDir C x) = some (shapesOf R C x y) := by
  rcases qColDir_cases C x hC hx0 hx1 with ⟨e2, h2⟩ | ⟨e2, h2⟩ | ⟨e2, h2⟩ <;> rw [e2] <;>
    first
    | (exfalso; omega)
    | shapes_tac

theorem qShapes_hon (R C x y : Int) (hR : 3 ≤ R) (hC : 3 ≤ C) (hx0 : 0 ≤ x) (hx1 : x ≤ C - 1) (hy : y = R - 1)
    (hz : (x - y) % 2 = 0) (he : x % 2 = 1) :
    qShapes true false .n (qColDir C x) = some (shapesOf R C x y) := by
  rcases qColDir_cases C x hC hx0 hx1 with ⟨e2, h2⟩ | ⟨e2, h2⟩ | ⟨e2, h2⟩ <;> rw [e2] <;>
    first
    | (exfalso; omega)
    | shapes_tac

theorem qShapes_hom (R C x y : Int) (hR : 3 ≤ R) (hC : 3 ≤ C) (hx0 : 0 ≤ x) (hx1 : x ≤ C - 1) (hy : 0 < y ∧ y < R - 1)
    (hz : (x - y) % 2 = 0) (he : x % 2 = 1) :
    qShapes true false .mid (qColDir C x) = some (shapesOf R C x y) := by
  rcases qColDir_cases C x hC hx0 hx1 with ⟨e2, h2⟩ | ⟨e2, h2⟩ | ⟨e2, h2⟩ <;> rw [e2] <;>
    first
    | (exfalso; omega)
    | shapes_tac

theorem qShapes_ves (R C x y : Int) (hR : 3 ≤ R) (hC : 3 ≤ C) (hx0 : 0 ≤ x) (hx1 : x ≤ C - 1) (hy : y = 0)
    (hz : (x - y) % 2 = 1) (he : x % 2 = 0) :
    qShapes false true .s (qColDir C x) = some (shapesOf R C x y) := by
  rcases qColDir_cases C x hC hx0 hx1 with ⟨e2, h2⟩ | ⟨e2, h2⟩ | ⟨e2, h2⟩ <;> rw [e2] <;>
    first
    | (exfalso; omega)
    | shapes_tac

theorem qShapes_ven (R C x y : Int) (hR : 3 ≤ R) (hC : 3 ≤ C) (hx0 : 0 ≤ x) (hx1 : x ≤ C - 1) (hy : y = R - 1)
    (hz : (x - y) % 2 = 1) (he : x % 2 = 0) :
    qShapes false true .n (qColDir C x) = some (shapesOf R C x y) := by
  rcases qColDir_cases C x hC hx0 hx1 with ⟨e2, h2⟩ | ⟨e2, h2⟩ | ⟨e2, h2⟩ <;> rw [e2] <;>
    first
    | (exfalso; omega)
    | shapes_tac

theorem qShapes_vem (R C x y : Int) (hR : 3 ≤ R) (hC : 3 ≤ C) (hx0 : 0 ≤ x) (hx1 : x ≤ C - 1) (hy : 0 < y ∧ y < R - 1)
    (hz : (x - y) % 2 = 1) (he : x % 2 = 0) :
    qShapes false true .mid (qColDir C x) = some (shapesOf R C x y) := by
  rcases qColDir_cases C x hC hx0 hx1 with ⟨e2, h2⟩ | ⟨e2, h2⟩ | ⟨e2, h2⟩ <;> rw [e2] <;>
    first
    | (exfalso; omega)
    | shapes_tac

theorem qShapes_vos (R C x y : Int) (hR : 3 ≤ R) (hC : 3 ≤ C) (hx0 : 0 ≤ x) (hx1 : x ≤ C - 1) (hy : y = 0)
    (hz : (x - y) % 2 = 1) (he : x % 2 = 1) :
    qShapes false false .s (qColDir C x) = some (shapesOf R C x y) := by
  rcases qColDir_cases C x hC hx0 hx1 with ⟨e2, h2⟩ | ⟨e2, h2⟩ | ⟨e2, h2⟩ <;> rw [e2] <;>
    first
    | (exfalso; omega)
    | shapes_tac

theorem qShapes_von (R C x y : Int) (hR : 3 ≤ R) (hC : 3 ≤ C) (hx0 : 0 ≤ x) (hx1 : x ≤ C - 1) (hy : y = R - 1)
    (hz : (x - y) % 2 = 1) (he : x % 2 = 1) :
    qShapes false false .n (qColDir C x) = some (shapesOf R C x y) := by
  rcases qColDir_cases C x hC hx0 hx1 with ⟨e2, h2⟩ | ⟨e2, h2⟩ | ⟨e2, h2⟩ <;> rw [e2] <;>
    first
    | (exfalso; omega)
    | shapes_tac

theorem qShapes_vom (R C x y : Int) (hR : 3 ≤ R) (hC : 3 ≤ C) (hx0 : 0 ≤ x) (hx1 : x ≤ C - 1) (hy : 0 < y ∧ y < R - 1)
    (hz : (x - y) % 2 = 1) (he : x % 2 = 1) :
    qShapes false false .mid (qColDir C x) = some (shapesOf R C x y) := by
  rcases qColDir_cases C x hC hx0 hx1 with ⟨e2, h2⟩ | ⟨e2, h2⟩ | ⟨e2, h2⟩ <;> rw [e2] <;>
    first
    | (exfalso; omega)
    | shapes_tac

/-- **the shape table of `create_q_node` is the closed form**, for every site of every accepted lattice -/
theorem qShapes_eq (R C x y : Int) (hR : 3 ≤ R) (hC : 3 ≤ C) (hs : SiteIn R C x y) (even : Bool)
    (he : even = true ↔ x % 2 = 0) :
    qShapes (RotatedPlanar.isZPlaquette x y) even (qRowDir R y) (qColDir C x) = some (shapesOf R C x y) := by
  obtain ⟨hx0, hx1, hy0, hy1⟩ := hs
  have hz := RotatedPlanarCode.isZPlaquette_iff x y
  rcases qRowDir_cases R y hR hy0 hy1 with ⟨e1, h1⟩ | ⟨e1, h1⟩ | ⟨e1, h1⟩ <;>
  rw [e1] <;>
  cases hH : RotatedPlanar.isZPlaquette x y <;>
  cases hE : even <;>
  rw [hH] at hz <;> rw [hE] at he <;>
  simp only [Bool.false_eq_true, false_iff, true_iff] at hz he
  · exact qShapes_vos R C x y hR hC hx0 hx1 h1 (by omega) (by omega)
  · exact qShapes_ves R C x y hR hC hx0 hx1 h1 (by omega) (by omega)
  · exact qShapes_hos R C x y hR hC hx0 hx1 h1 (by omega) (by omega)
  · exact qShapes_hes R C x y hR hC hx0 hx1 h1 (by omega) (by omega)
  · exact qShapes_von R C x y hR hC hx0 hx1 h1 (by omega) (by omega)
  · exact qShapes_ven R C x y hR hC hx0 hx1 h1 (by omega) (by omega)
  · exact qShapes_hon R C x y hR hC hx0 hx1 h1 (by omega) (by omega)
  · exact qShapes_hen R C x y hR hC hx0 hx1 h1 (by omega) (by omega)
  · exact qShapes_vom R C x y hR hC hx0 hx1 h1 (by omega) (by omega)
  · exact qShapes_vem R C x y hR hC hx0 hx1 h1 (by omega) (by omega)
  · exact qShapes_hom R C x y hR hC hx0 hx1 h1 (by omega) (by omega)
  · exact qShapes_hem R C x y hR hC hx0 hx1 h1 (by omega) (by omega)

/-! ### the einsum with the four deltas, evaluated -/

/-- one leg of the einsum: the sum over a bare index against its 3-leg delta selects the bare index from the links
    and demands that the two links agree -/
theorem sum_delta3 (q a b : ℕ) (hq : q = 1 ∨ q = 2) (ha : a = 1 ∨ a = 2) (hb : b = 1 ∨ b = 2)
    (h1 : q = 1 → a = 1 ∧ b = 1) (h2 : q = 2 → a = 2 ∨ b = 2) (g : ℕ → ℤ) (I j : ℕ) (hI : I < a) (hj : j < b) :
    sumRange q (fun n => g n * delta3 (q, a, b) n I j)
      = (if (a = 2 ∧ b = 2 → I = j) then 1 else 0) * g (if a = 2 then I else if b = 2 then j else 0) := by
  rcases hq with rfl | rfl <;> rcases ha with rfl | rfl <;> rcases hb with rfl | rfl <;>
    first
    | (exfalso; have := h1 rfl; omega)
    | (exfalso; have := h2 rfl; omega)
    | (interval_cases I <;> interval_cases j <;> simp [sumRange, delta3, PlanarTn.deltaEntry])

/-- the four-fold sum of `qEntry` collapses when each leg does -/
theorem collapse4 (qn qe qs qw : ℕ) (bare : ℕ → ℕ → ℕ → ℕ → ℤ) (dn de ds dw : ℕ → ℤ) (cn ce cs cw : ℤ)
    (n0 e0 s0 w0 : ℕ)
    (Hn : ∀ g : ℕ → ℤ, sumRange qn (fun n => g n * dn n) = cn * g n0)
    (He : ∀ g : ℕ → ℤ, sumRange qe (fun n => g n * de n) = ce * g e0)
    (Hs : ∀ g : ℕ → ℤ, sumRange qs (fun n => g n * ds n) = cs * g s0)
    (Hw : ∀ g : ℕ → ℤ, sumRange qw (fun n => g n * dw n) = cw * g w0) :
    (sumRange qn fun n => sumRange qe fun e => sumRange qs fun s => sumRange qw fun w =>
      bare n e s w * dn n * de e * ds s * dw w) = cn * ce * cs * cw * bare n0 e0 s0 w0 := by
  have e1 : ∀ n e s, (sumRange qw fun w => bare n e s w * dn n * de e * ds s * dw w)
      = (cw * bare n e s w0 * dn n * de e) * ds s := by
    intro n e s
    rw [Hw (fun w => bare n e s w * dn n * de e * ds s)]; ring
  have e2 : ∀ n e, (sumRange qs fun s => (cw * bare n e s w0 * dn n * de e) * ds s)
      = (cs * cw * bare n e s0 w0 * dn n) * de e := by
    intro n e
    rw [Hs (fun s => cw * bare n e s w0 * dn n * de e)]; ring
  have e3 : ∀ n, (sumRange qe fun e => (cs * cw * bare n e s0 w0 * dn n) * de e)
      = (ce * cs * cw * bare n e0 s0 w0) * dn n := by
    intro n
    rw [He (fun e => cs * cw * bare n e s0 w0 * dn n)]; ring
  simp only [e1, e2, e3]
  rw [Hn (fun n => ce * cs * cw * bare n e0 s0 w0)]; ring

end Qec.RotatedPlanarRmpsLemmas
