/-
  Helper lemmas for Props/C02/SmwpmToric.lean — the rotated TORIC symmetry-matching decoder (`Smwpm.Toric` of
  Model/Smwpm.lean): nodes / edges of the modelled graphs, what a perfect matching of them looks like (no twin pairs:
  there are no virtual nodes), the cluster stage (every pair of cluster nodes is an edge, no match is skipped), the XOR
  of the syndrome rows.  The clustering lemmas (`loop_spec`, `mates_good`, `clusters_spec`) are shared with the planar
  decoder.
-/
import QecVerif.Lemmas.SmwpmFinal
import QecVerif.Lemmas.Lattice.RotatedToric
namespace Qec.SmwpmL.T
open Qec Qec.Smwpm Qec.Dec Qec.SmwpmL

/-- in lattice bounds -/
def InB (R C : Int) (xy : Idx2) : Prop := 0 ≤ xy.1 ∧ xy.1 ≤ C - 1 ∧ 0 ≤ xy.2 ∧ xy.2 ≤ R - 1

theorem mem_lines (R C : Int) (byRow : Bool) (xy : Idx2) :
    (∃ line ∈ Toric.lines R C byRow, xy ∈ line) ↔ InB R C xy := by
  unfold Toric.lines InB
  cases byRow
  · simp only [Bool.false_eq_true, if_false]
    constructor
    · rintro ⟨line, hl, hxy⟩
      rw [List.mem_map] at hl
      obtain ⟨i, hi, rfl⟩ := hl
      rw [List.mem_map] at hxy
      obtain ⟨j, hj, rfl⟩ := hxy
      rw [List.mem_range] at hi hj
      simp only; omega
    · intro h
      refine ⟨_, List.mem_map.mpr ⟨xy.1.toNat, List.mem_range.mpr (by omega), rfl⟩,
        List.mem_map.mpr ⟨(R - 1 - xy.2).toNat, List.mem_range.mpr (by omega), ?_⟩⟩
      apply Prod.ext <;> simp only <;> omega
  · simp only [if_true]
    constructor
    · rintro ⟨line, hl, hxy⟩
      rw [List.mem_map] at hl
      obtain ⟨j, hj, rfl⟩ := hl
      rw [List.mem_map] at hxy
      obtain ⟨i, hi, rfl⟩ := hxy
      rw [List.mem_range] at hi hj
      simp only; omega
    · intro h
      refine ⟨_, List.mem_map.mpr ⟨(R - 1 - xy.2).toNat, List.mem_range.mpr (by omega), rfl⟩,
        List.mem_map.mpr ⟨xy.1.toNat, List.mem_range.mpr (by omega), ?_⟩⟩
      apply Prod.ext <;> simp only <;> omega

/-- a node of the graph: a syndrome defect at a time step -/
def IsNode (R C : Int) (rows : List BVec) (k : TIdx) : Prop :=
  InB R C (sp k) ∧ ∃ t : Nat, k.1 = (t : Int) ∧ t < rows.length ∧ Toric.isDefect R C rows t (sp k) = true

theorem mem_passNodes (R C : Int) (rows : List BVec) (byRow : Bool) (n : Node) :
    n ∈ Toric.passNodes R C rows byRow ↔ n.2 = byRow ∧ IsNode R C rows n.1 := by
  unfold Toric.passNodes Toric.lineNodes
  simp only [List.mem_flatMap, List.mem_filterMap, List.mem_range]
  constructor
  · rintro ⟨line, hl, xy, hxy, t, ht, hn⟩
    by_cases hc : Toric.isDefect R C rows t xy = true
    · rw [if_pos hc] at hn
      have := Option.some.inj hn
      rw [← this]
      exact ⟨rfl, (mem_lines R C byRow xy).mp ⟨line, hl, hxy⟩, t, rfl, ht, hc⟩
    · rw [if_neg hc] at hn; cases hn
  · rintro ⟨ho, hg, t, ht, htl, hc⟩
    obtain ⟨line, hl, hxy⟩ := (mem_lines R C byRow (sp n.1)).mpr hg
    refine ⟨line, hl, sp n.1, hxy, t, htl, ?_⟩
    rw [if_pos hc]
    congr 1
    apply Prod.ext
    · apply Prod.ext
      · exact ht.symm
      · rfl
    · exact ho.symm

theorem mem_graphNodes (R C : Int) (rows : List BVec) (n : Node) :
    n ∈ Toric.graphNodes R C rows ↔ IsNode R C rows n.1 := by
  unfold Toric.graphNodes
  rw [List.mem_append, mem_passNodes, mem_passNodes]
  constructor
  · rintro (h | h) <;> exact h.2
  · intro h
    cases ho : n.2
    · exact Or.inr ⟨rfl, h⟩
    · exact Or.inl ⟨rfl, h⟩

theorem graphEdges_shape (fl : Flags) (R C : Int) (rows : List BVec) (e : Node × Node)
    (h : e ∈ Toric.graphEdges fl R C rows) : e.1.2 = e.2.2 := by
  have hq : addEdgeOk fl e.1 e.2 = true := by
    unfold Toric.graphEdges at h
    by_cases hf : fl.etaNone = true
    · rw [if_pos hf] at h
      simp only [List.mem_flatMap] at h
      obtain ⟨_, _, line, _, hl⟩ := h
      exact mem_pairsOf_filter _ _ e hl
    · rw [if_neg hf] at h
      exact mem_pairsOf_filter _ _ e h
  unfold addEdgeOk at hq
  simp only [Bool.and_eq_true, beq_iff_eq] at hq
  exact hq.1.1.1

structure MatchFacts (R C : Int) (rows : List BVec) (ms : List (Node × Node)) : Prop where
  shape : ∀ m ∈ ms, m.1.2 = m.2.2 ∨ m.1.1 = m.2.1
  nodup : (ends ms).Nodup
  twin : ∀ k o, (k, o) ∈ ends ms → (k, !o) ∈ ends ms
  node : ∀ k o, (k, o) ∈ ends ms ↔ IsNode R C rows k
  noTwin : ∀ m ∈ ms, m.1.1 ≠ m.2.1

theorem matchFacts (fl : Flags) (R C : Int) (rows : List BVec) (ms : List (Node × Node))
    (hpm : isPerfectMatchingOfGraph (Toric.graphNodes R C rows) (Toric.graphEdges fl R C rows) ms = true) :
    MatchFacts R C rows ms := by
  have hocc := pm_occ_gen _ _ _ hpm
  have hnd : (ends ms).Nodup := by
    apply nodup_of_count_le
    intro v
    have := hocc v
    unfold occ at this
    rw [this]; split <;> omega
  have hnode : ∀ k o, (k, o) ∈ ends ms ↔ IsNode R C rows k := by
    intro k o
    rw [← mem_graphNodes R C rows (k, o)]
    constructor
    · exact pm_ends _ _ _ hpm (k, o)
    · intro h
      exact mem_of_count_eq_one _ _ (pm_count _ _ _ hpm (k, o) h)
  have hor : ∀ m ∈ ms, m.1.2 = m.2.2 := by
    intro m hm
    rcases pm_edges _ _ _ hpm m hm with h | h
    · exact graphEdges_shape fl R C rows _ h
    · exact (graphEdges_shape fl R C rows _ h).symm
  refine ⟨fun m hm => Or.inl (hor m hm), hnd, ?_, hnode, ?_⟩
  · intro k o h
    rw [hnode] at h ⊢; exact h
  · intro m hm hidx
    exact nodup_ends_ne ms hnd m hm (Prod.ext hidx (hor m hm))

/-! ### the cluster stage -/

theorem match_spec (ns : List ClNode) (hk : ∀ n ∈ ns, n.kind ≠ .extra) (m : Nat × Nat)
    (h1 : m.1 < ns.length) (h2 : m.2 < ns.length) :
    ∃ ps, Toric.matchPairs ns m = .ok ps ∧ (∀ x ∈ ps, FromNodes ns x) ∧
      ∀ p, cntS (ends ps) p = wI ns p m.1 + wI ns p m.2 := by
  have ha : ns[m.1]? = some ns[m.1] := List.getElem?_eq_getElem h1
  have hb : ns[m.2]? = some ns[m.2] := List.getElem?_eq_getElem h2
  have hma : ns[m.1] ∈ ns := List.getElem_mem h1
  have hmb : ns[m.2] ∈ ns := List.getElem_mem h2
  unfold Toric.matchPairs
  simp only [ha, hb]
  refine ⟨_, rfl, ?_, ?_⟩
  · intro x hx
    simp only [List.mem_cons, List.not_mem_nil, or_false] at hx
    exact ⟨_, _, hma, hmb, hk _ hma, hk _ hmb, hx⟩
  · intro p
    simp only [wI, ha, hb, wS, if_neg (hk _ hma), if_neg (hk _ hmb), ends, List.flatMap_cons, List.flatMap_nil,
      List.append_nil, List.cons_append, List.nil_append, cntS_cons, cntS_nil]
    omega

theorem stage2_spec (ns : List ClNode) (hk : ∀ n ∈ ns, n.kind ≠ .extra) (cms : List (Nat × Nat))
    (hpm : isPerfectMatchingOfGraph (List.range ns.length) (Toric.clusterEdges ns) cms = true) :
    ∃ qs, Toric.allMatchPairs ns cms = .ok qs ∧ (∀ x ∈ qs, FromNodes ns x) ∧
      ∀ p, cntS (ends qs) p = sumW ns p := by
  have hin : ∀ m ∈ cms, m.1 < ns.length ∧ m.2 < ns.length := by
    intro m hm
    have h1 := pm_ends _ _ _ hpm m.1 ((mem_ends cms _).mpr ⟨m, hm, Or.inl rfl⟩)
    have h2 := pm_ends _ _ _ hpm m.2 ((mem_ends cms _).mpr ⟨m, hm, Or.inr rfl⟩)
    exact ⟨List.mem_range.mp h1, List.mem_range.mp h2⟩
  have key : ∀ ms : List (Nat × Nat), (∀ m ∈ ms, m.1 < ns.length ∧ m.2 < ns.length) →
      ∃ qs, Toric.allMatchPairs ns ms = .ok qs ∧ (∀ x ∈ qs, FromNodes ns x) ∧
        ∀ p, cntS (ends qs) p = (ms.map fun m => wI ns p m.1 + wI ns p m.2).sum := by
    intro ms
    induction ms with
    | nil => intro _; exact ⟨[], rfl, by simp, fun p => rfl⟩
    | cons m ms ih =>
      intro hm
      obtain ⟨ps, h1, h2, h3⟩ := match_spec ns hk m (hm m (by simp)).1 (hm m (by simp)).2
      obtain ⟨qs, g1, g2, g3⟩ := ih (fun m' h' => hm m' (by simp [h']))
      refine ⟨ps ++ qs, ?_, ?_, ?_⟩
      · unfold Toric.allMatchPairs; rw [h1, g1]
      · intro x hx
        rcases List.mem_append.mp hx with h | h
        · exact h2 x h
        · exact g2 x h
      · intro p
        rw [ends_append, cntS_append, h3 p, g3 p, List.map_cons, List.sum_cons]
  obtain ⟨qs, h1, h2, h3⟩ := key cms hin
  refine ⟨qs, h1, h2, ?_⟩
  intro p
  rw [h3 p, ← sum_ends (wI ns p) cms, (List.Perm.map _ (perm_ends_range _ _ _ hpm)).sum_nat, sum_wI_range]

/-! ### the XOR of the syndrome rows -/

theorem xorAll_rows (R C : Int) (rows : List BVec)
    (hrows : ∀ r ∈ rows, r.length = (RotatedToric.plaquetteIndices R C).length) :
    xorAll (RotatedToric.plaquetteIndices R C).length rows =
      (RotatedToric.plaquetteIndices R C).map fun p =>
        decide (((List.range rows.length).countP fun t => Toric.isDefect R C rows t p) % 2 = 1) := by
  have hrow : ∀ t, t < rows.length →
      rows.getD t [] = (RotatedToric.plaquetteIndices R C).map fun p => Toric.isDefect R C rows t p := by
    intro t ht
    have hl : (rows.getD t []).length = (RotatedToric.plaquetteIndices R C).length := by
      apply hrows
      rw [List.getD_eq_getElem?_getD, List.getElem?_eq_getElem ht]
      exact List.getElem_mem ht
    have := Pairing.map_mem_pick (RotatedToric.plaquetteIndices R C) (rows.getD t [])
      (RotatedToric.Lem.nodup_plaquetteIndices R C) hl
    refine Eq.trans this.symm ?_
    apply List.map_congr_left
    intro p _
    unfold Toric.isDefect
    have e : RotatedToric.syndromeToPlaquettes R C (rows.getD t []) =
        Pairing.pick (RotatedToric.plaquetteIndices R C) (rows.getD t []) := rfl
    rw [e]
    exact decide_eq_decide.mpr Iff.rfl
  have e : rows = (List.range rows.length).map fun t =>
      (RotatedToric.plaquetteIndices R C).map fun p => Toric.isDefect R C rows t p := by
    have := map_getD_range rows
    rw [← this]
    simp only [List.length_map, List.length_range]
    apply List.map_congr_left
    intro t ht
    rw [this]
    exact hrow t (List.mem_range.mp ht)
  have hz : zeros (RotatedToric.plaquetteIndices R C).length =
      (RotatedToric.plaquetteIndices R C).map fun _ => decide (0 % 2 = 1) := by
    simp [zeros]
  unfold xorAll
  have key := Pairing.foldl_indicator (RotatedToric.plaquetteIndices R C)
    (fun (t : Nat) p => Toric.isDefect R C rows t p) (List.range rows.length) (fun _ => 0)
  simp only [Nat.zero_add] at key
  rw [← key, ← hz]
  exact congrArg (fun l => List.foldl xorV (zeros (RotatedToric.plaquetteIndices R C).length) l) e

end Qec.SmwpmL.T
