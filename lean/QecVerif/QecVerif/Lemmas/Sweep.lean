/-
  Algebra of one MPS sweep step, of a whole sweep, and of one SVD truncation, over ℝ (Mathlib matrices).

  The numeric factors (Q, R) / (U, σ, W) are NOT computed here: they are arbitrary matrices about which the
  theorems assume exactly what LAPACK promises (`M = Q * R`, `Qᵀ * Q = 1`, `M = U * diagonal σ * W`, …).
  Used by Props/C12/Sweep.lean.
-/
import Mathlib.Data.Matrix.Basic
import Mathlib.Data.Matrix.Mul
import Mathlib.Data.Matrix.Diagonal
import Mathlib.LinearAlgebra.Matrix.Trace
import Mathlib.Data.Real.Basic
import Mathlib.Algebra.BigOperators.Ring.Finset
import Mathlib.Algebra.Order.BigOperators.Ring.Finset
import Mathlib.Tactic.Ring
import Mathlib.Tactic.Linarith
import Mathlib.Tactic.Abel
import Mathlib.Tactic.FieldSimp
import Mathlib.Tactic.FinCases
import Mathlib.Tactic.NormNum.Basic
import Mathlib.LinearAlgebra.Matrix.Notation
import Mathlib.Data.Fin.SuccPred

namespace Qec.Sweep
open Matrix

section Mat
variable {l m n k ι σ : Type*} [Fintype l] [Fintype m] [Fintype n] [Fintype k] [Fintype ι] [Fintype σ]

/-- squared Frobenius norm, `tr (Mᵀ M)` -/
def frob2 (M : Matrix m n ℝ) : ℝ := trace (Mᵀ * M)

theorem frob2_eq_sum (M : Matrix m n ℝ) : frob2 M = ∑ i, ∑ j, M i j ^ 2 := by
  simp only [frob2, trace, diag_apply, mul_apply, transpose_apply, pow_two]
  exact Finset.sum_comm

theorem frob2_nonneg (M : Matrix m n ℝ) : 0 ≤ frob2 M := by
  rw [frob2_eq_sum]
  exact Finset.sum_nonneg fun i _ => Finset.sum_nonneg fun j _ => sq_nonneg _

theorem frob2_eq_zero {M : Matrix m n ℝ} (h : frob2 M = 0) : M = 0 := by
  rw [frob2_eq_sum] at h
  ext i j
  have h1 := (Finset.sum_eq_zero_iff_of_nonneg
    (fun i _ => Finset.sum_nonneg fun j _ => sq_nonneg (M i j))).mp h i (Finset.mem_univ _)
  have h2 := (Finset.sum_eq_zero_iff_of_nonneg (fun j _ => sq_nonneg (M i j))).mp h1 j (Finset.mem_univ _)
  simpa using h2

theorem frob2_transpose (M : Matrix m n ℝ) : frob2 Mᵀ = frob2 M := by
  rw [frob2_eq_sum, frob2_eq_sum]
  simp only [transpose_apply]
  exact Finset.sum_comm

theorem frob2_smul (a : ℝ) (M : Matrix m n ℝ) : frob2 (a • M) = a ^ 2 * frob2 M := by
  simp only [frob2_eq_sum, smul_apply, smul_eq_mul, mul_pow, Finset.mul_sum]

theorem frob2_zero : frob2 (0 : Matrix m n ℝ) = 0 := by
  simp [frob2_eq_sum]

/-- the site family `A s` (physical index first) reshaped as the matrix with rows (left bond, physical) -/
def stack (A : σ → Matrix l n ℝ) : Matrix (l × σ) n ℝ := fun p b => A p.2 p.1 b

/-- inverse reshape -/
def unstack (Q : Matrix (l × σ) k ℝ) : σ → Matrix l k ℝ := fun s a b => Q (a, s) b

@[simp] theorem stack_unstack (Q : Matrix (l × σ) k ℝ) : stack (unstack Q) = Q := rfl
@[simp] theorem unstack_stack (A : σ → Matrix l n ℝ) : unstack (stack A) = A := rfl

theorem unstack_mul (Q : Matrix (l × σ) k ℝ) (R : Matrix k n ℝ) (s : σ) :
    unstack (Q * R) s = unstack Q s * R := by
  ext a b; simp [unstack, mul_apply]

theorem unstack_smul (a : ℝ) (Q : Matrix (l × σ) k ℝ) (s : σ) : unstack (a • Q) s = a • unstack Q s := rfl

theorem unstack_sub (Q Q' : Matrix (l × σ) k ℝ) (s : σ) : unstack (Q - Q') s = unstack Q s - unstack Q' s := rfl

theorem stackT_mul_stack (A : σ → Matrix l n ℝ) : (stack A)ᵀ * stack A = ∑ s, (A s)ᵀ * A s := by
  ext i j
  simp only [mul_apply, transpose_apply, stack, Matrix.sum_apply, Fintype.sum_prod_type]
  exact Finset.sum_comm

theorem frob2_stack (A : σ → Matrix l n ℝ) : frob2 (stack A) = ∑ s, frob2 (A s) := by
  simp only [frob2, stackT_mul_stack, trace_sum]

/-- left isometry: `Σ_s A[s]ᵀ A[s] = 1` -/
def IsLeftIso [DecidableEq n] (A : σ → Matrix l n ℝ) : Prop := ∑ s, (A s)ᵀ * A s = 1

/-- right isometry: `Σ_s A[s] A[s]ᵀ = 1` -/
def IsRightIso [DecidableEq l] (A : σ → Matrix l n ℝ) : Prop := ∑ s, A s * (A s)ᵀ = 1

theorem isLeftIso_unstack [DecidableEq k] (Q : Matrix (l × σ) k ℝ) (h : Qᵀ * Q = 1) : IsLeftIso (unstack Q) := by
  unfold IsLeftIso
  rw [← stackT_mul_stack, stack_unstack, h]

theorem isRightIso_transpose [DecidableEq n] {A : σ → Matrix l n ℝ} (h : IsLeftIso A) :
    IsRightIso fun s => (A s)ᵀ := by
  unfold IsRightIso
  unfold IsLeftIso at h
  simpa only [transpose_transpose] using h

/-- a left isometry on the left does not change the (summed) squared norm -/
theorem sum_frob2_leftIso_mul [DecidableEq n] {A : σ → Matrix l n ℝ} (h : IsLeftIso A) (X : Matrix n m ℝ) :
    ∑ s, frob2 (A s * X) = frob2 X := by
  unfold frob2
  have : ∀ s, (A s * X)ᵀ * (A s * X) = Xᵀ * ((A s)ᵀ * A s) * X := by
    intro s; rw [transpose_mul]; simp only [Matrix.mul_assoc]
  simp only [this]
  rw [← trace_sum, ← Matrix.sum_mul, ← Matrix.mul_sum, (h : ∑ s, (A s)ᵀ * A s = 1), Matrix.mul_one]

/-- a right isometry on the right does not change the (summed) squared norm -/
theorem sum_frob2_mul_rightIso [DecidableEq l] {B : σ → Matrix l n ℝ} (h : IsRightIso B) (Y : Matrix m l ℝ) :
    ∑ t, frob2 (Y * B t) = frob2 Y := by
  unfold frob2
  have : ∀ t, trace ((Y * B t)ᵀ * (Y * B t)) = trace (Yᵀ * Y * (B t * (B t)ᵀ)) := by
    intro t
    rw [transpose_mul, Matrix.mul_assoc, trace_mul_comm]
    simp only [Matrix.mul_assoc]
  simp only [this]
  rw [← trace_sum, ← Matrix.mul_sum, (h : ∑ t, B t * (B t)ᵀ = 1), Matrix.mul_one]

/-- `‖U X‖² = ‖X‖²` for `Uᵀ U = 1` -/
theorem frob2_iso_mul [DecidableEq n] (U : Matrix l n ℝ) (h : Uᵀ * U = 1) (X : Matrix n m ℝ) :
    frob2 (U * X) = frob2 X := by
  unfold frob2
  rw [transpose_mul, Matrix.mul_assoc, ← Matrix.mul_assoc Uᵀ, h, Matrix.one_mul]

/-- `‖X W‖² = ‖X‖²` for `W Wᵀ = 1` -/
theorem frob2_mul_coiso [DecidableEq l] (W : Matrix l n ℝ) (h : W * Wᵀ = 1) (X : Matrix m l ℝ) :
    frob2 (X * W) = frob2 X := by
  rw [← frob2_transpose, transpose_mul]
  rw [frob2_iso_mul Wᵀ (by rw [transpose_transpose]; exact h), frob2_transpose]

theorem frob2_diagonal [DecidableEq ι] (d : ι → ℝ) : frob2 (diagonal d) = ∑ j, d j ^ 2 := by
  unfold frob2
  rw [diagonal_transpose, diagonal_mul_diagonal, trace_diagonal]
  simp only [pow_two]

/-- keeping only the singular triples selected by `keep` -/
def maskσ (keep : ι → Prop) [DecidablePred keep] (σv : ι → ℝ) : ι → ℝ := fun j => if keep j then σv j else 0

/-- the algebra of one SVD truncation: the squared error is the discarded weight -/
theorem frob2_svd_sub [DecidableEq ι] (U : Matrix m ι ℝ) (σv : ι → ℝ) (W : Matrix ι n ℝ)
    (hU : Uᵀ * U = 1) (hW : W * Wᵀ = 1) (keep : ι → Prop) [DecidablePred keep] :
    frob2 (U * diagonal σv * W - U * diagonal (maskσ keep σv) * W) = ∑ j, if keep j then 0 else σv j ^ 2 := by
  have : U * diagonal σv * W - U * diagonal (maskσ keep σv) * W =
      U * (diagonal (fun j => if keep j then 0 else σv j) * W) := by
    rw [Matrix.mul_assoc, Matrix.mul_assoc, ← Matrix.mul_sub, ← Matrix.sub_mul, diagonal_sub]
    congr 3
    funext j
    by_cases hj : keep j <;> simp [maskσ, hj]
  rw [this, frob2_iso_mul U hU, frob2_mul_coiso W hW, frob2_diagonal]
  refine Finset.sum_congr rfl fun j _ => ?_
  by_cases hj : keep j <;> simp [hj]

/-- the truncated factors `U[:, kept] · diag σ[kept] · W[kept, :]` give the masked product -/
theorem submatrix_svd {κ : Type*} [Fintype κ] [DecidableEq κ] [DecidableEq ι] (U : Matrix m ι ℝ) (σv : ι → ℝ)
    (W : Matrix ι n ℝ) (e : κ → ι) (he : Function.Injective e) [DecidablePred (· ∈ Set.range e)] :
    U.submatrix id e * diagonal (σv ∘ e) * W.submatrix e id =
      U * diagonal (maskσ (· ∈ Set.range e) σv) * W := by
  rw [Matrix.mul_assoc, Matrix.mul_assoc]
  ext i c
  rw [mul_apply, mul_apply]
  simp only [submatrix_apply, id_eq, diagonal_mul, Function.comp_apply, maskσ]
  rw [← Finset.sum_subset (Finset.subset_univ (Finset.univ.image e))]
  · rw [Finset.sum_image (fun x _ y _ h => he h)]
    refine Finset.sum_congr rfl fun x _ => ?_
    simp
  · intro j _ hj
    have : ¬ j ∈ Set.range e := by
      rintro ⟨x, rfl⟩
      exact hj (Finset.mem_image_of_mem e (Finset.mem_univ x))
    simp [this]

/-- a column selection of an isometry is an isometry -/
theorem submatrix_iso {κ : Type*} [Fintype κ] [DecidableEq κ] [DecidableEq ι] (U : Matrix m ι ℝ)
    (hU : Uᵀ * U = 1) (e : κ → ι) (he : Function.Injective e) :
    (U.submatrix id e)ᵀ * U.submatrix id e = 1 := by
  rw [transpose_submatrix, ← submatrix_mul _ _ e id e Function.bijective_id, hU, submatrix_one _ he]

theorem frob2_add (X Y : Matrix m n ℝ) : frob2 (X + Y) = frob2 X + frob2 Y + 2 * trace (Xᵀ * Y) := by
  unfold frob2
  rw [transpose_add, Matrix.add_mul, Matrix.mul_add, Matrix.mul_add, trace_add, trace_add, trace_add,
    ← trace_transpose (Yᵀ * X), transpose_mul, transpose_transpose]
  ring

theorem stackT_mul_stack' (X : σ → Matrix l n ℝ) (Q : σ → Matrix l k ℝ) :
    (stack X)ᵀ * stack Q = ∑ s, (X s)ᵀ * Q s := by
  ext i j
  simp only [mul_apply, transpose_apply, stack, Matrix.sum_apply, Fintype.sum_prod_type]
  exact Finset.sum_comm

theorem sum_discard {κ : Type*} [Fintype κ] [DecidableEq ι] (e : κ → ι) (he : Function.Injective e)
    [DecidablePred (· ∈ Set.range e)] (f : ι → ℝ) :
    ∑ j, (if j ∈ Set.range e then 0 else f j) = ∑ j, f j - ∑ x, f (e x) := by
  have h1 : ∑ j, f j = ∑ j, (if j ∈ Set.range e then f j else 0) + ∑ j, (if j ∈ Set.range e then 0 else f j) := by
    rw [← Finset.sum_add_distrib]
    refine Finset.sum_congr rfl fun j _ => ?_
    by_cases hj : j ∈ Set.range e <;> simp [hj]
  have h2 : ∑ j, (if j ∈ Set.range e then f j else 0) = ∑ x, f (e x) := by
    rw [← Finset.sum_subset (Finset.subset_univ (Finset.univ.image e))]
    · rw [Finset.sum_image (fun x _ y _ h => he h)]
      refine Finset.sum_congr rfl fun x _ => ?_
      simp
    · intro j _ hj
      have : ¬ j ∈ Set.range e := by
        rintro ⟨x, rfl⟩
        exact hj (Finset.mem_image_of_mem e (Finset.mem_univ x))
      simp [this]
  rw [h1, h2]; ring

/-- the discarded part of an SVD is orthogonal to the kept left singular vectors -/
theorem svd_discard_orth {κ : Type*} [Fintype κ] [DecidableEq κ] [DecidableEq ι] (U : Matrix m ι ℝ) (σv : ι → ℝ)
    (W : Matrix ι n ℝ) (hU : Uᵀ * U = 1) (e : κ → ι) [DecidablePred (· ∈ Set.range e)] :
    (U * diagonal σv * W - U * diagonal (maskσ (· ∈ Set.range e) σv) * W)ᵀ * U.submatrix id e = 0 := by
  have h0 : U * diagonal σv * W - U * diagonal (maskσ (· ∈ Set.range e) σv) * W =
      U * (diagonal (fun j => if j ∈ Set.range e then 0 else σv j) * W) := by
    rw [Matrix.mul_assoc, Matrix.mul_assoc, ← Matrix.mul_sub, ← Matrix.sub_mul, diagonal_sub]
    congr 3
    funext j
    by_cases hj : j ∈ Set.range e <;> simp [maskσ, hj]
  have h1 : Uᵀ * U.submatrix id e = (1 : Matrix ι ι ℝ).submatrix id e := by
    rw [← hU]
    ext j x
    simp [mul_apply]
  have h2 : diagonal (fun j => if j ∈ Set.range e then 0 else σv j) * (1 : Matrix ι ι ℝ).submatrix id e = 0 := by
    ext j x
    rw [diagonal_mul]
    by_cases hj : j = e x
    · subst hj; simp
    · simp [one_apply, hj]
  rw [h0, transpose_mul, transpose_mul, diagonal_transpose, Matrix.mul_assoc, Matrix.mul_assoc, h1, h2,
    Matrix.mul_zero]

end Mat

/-! ### open chains of site families -/

/-- an open MPS chain with physical dimensions `ds` (left to right), left boundary bond `l` and right boundary
    bond `r`; the inner bond dimensions are hidden in the constructor, so a sweep may change them -/
inductive Chain : List ℕ → ℕ → ℕ → Type
  | nil {l : ℕ} : Chain [] l l
  | cons {d : ℕ} {ds : List ℕ} {l m r : ℕ} (A : Fin d → Matrix (Fin l) (Fin m) ℝ) (C : Chain ds m r) :
      Chain (d :: ds) l r

/-- physical configurations -/
def Cfg : List ℕ → Type
  | [] => Unit
  | d :: ds => Fin d × Cfg ds

/-- sum over all physical configurations -/
def sumCfg : (ds : List ℕ) → (Cfg ds → ℝ) → ℝ
  | [], f => f ()
  | d :: ds, f => ∑ s : Fin d, sumCfg ds (fun c => f (s, c))

theorem sumCfg_add (ds : List ℕ) (f g : Cfg ds → ℝ) :
    sumCfg ds (fun c => f c + g c) = sumCfg ds f + sumCfg ds g := by
  induction ds with
  | nil => rfl
  | cons d ds ih => simp only [sumCfg, ih, Finset.sum_add_distrib]

theorem sumCfg_zero (ds : List ℕ) : sumCfg ds (fun _ => 0) = 0 := by
  induction ds with
  | nil => rfl
  | cons d ds ih => simp only [sumCfg, ih, Finset.sum_const_zero]

theorem sumCfg_mul_left (ds : List ℕ) (a : ℝ) (f : Cfg ds → ℝ) :
    sumCfg ds (fun c => a * f c) = a * sumCfg ds f := by
  induction ds with
  | nil => rfl
  | cons d ds ih => simp only [sumCfg, ih, Finset.mul_sum]

theorem sumCfg_sub (ds : List ℕ) (f g : Cfg ds → ℝ) :
    sumCfg ds (fun c => f c - g c) = sumCfg ds f - sumCfg ds g := by
  induction ds with
  | nil => rfl
  | cons d ds ih => simp only [sumCfg, ih, Finset.sum_sub_distrib]

theorem sumCfg_sum {ι : Type*} (t : Finset ι) (ds : List ℕ) (f : ι → Cfg ds → ℝ) :
    sumCfg ds (fun c => ∑ i ∈ t, f i c) = ∑ i ∈ t, sumCfg ds (f i) := by
  induction ds with
  | nil => rfl
  | cons d ds ih =>
    simp only [sumCfg, ih]
    exact Finset.sum_comm

theorem sumCfg_nonneg (ds : List ℕ) (f : Cfg ds → ℝ) (h : ∀ c, 0 ≤ f c) : 0 ≤ sumCfg ds f := by
  induction ds with
  | nil => exact h ()
  | cons d ds ih => exact Finset.sum_nonneg fun s _ => ih _ fun c => h (s, c)

theorem sumCfg_congr (ds : List ℕ) {f g : Cfg ds → ℝ} (h : ∀ c, f c = g c) : sumCfg ds f = sumCfg ds g := by
  rw [funext h]

namespace Chain

/-- the matrix (boundary bonds) the chain assigns to a physical configuration: the product of the site matrices -/
def eval : {ds : List ℕ} → {l r : ℕ} → Chain ds l r → Cfg ds → Matrix (Fin l) (Fin r) ℝ
  | _, _, _, .nil, _ => 1
  | _, _, _, .cons A C, c => A c.1 * eval C c.2

@[simp] theorem eval_nil {l : ℕ} (c : Cfg []) : (nil : Chain [] l l).eval c = 1 := rfl

@[simp] theorem eval_cons {d : ℕ} {ds : List ℕ} {l m r : ℕ} (A : Fin d → Matrix (Fin l) (Fin m) ℝ)
    (C : Chain ds m r) (s : Fin d) (c : Cfg ds) : (cons A C).eval (s, c) = A s * C.eval c := rfl

/-- multiply the first site by `R` on the left (`np.einsum('ns,sESW->nESW', r, next)`) -/
def mulLeft {d : ℕ} {ds : List ℕ} {k l r : ℕ} (R : Matrix (Fin k) (Fin l) ℝ) :
    Chain (d :: ds) l r → Chain (d :: ds) k r
  | .cons B C => .cons (fun t => R * B t) C

theorem eval_mulLeft {d : ℕ} {ds : List ℕ} {k l r : ℕ} (R : Matrix (Fin k) (Fin l) ℝ) (C : Chain (d :: ds) l r)
    (c : Cfg (d :: ds)) : (C.mulLeft R).eval c = R * C.eval c := by
  cases C with
  | cons B C => obtain ⟨s, c⟩ := c; simp only [mulLeft, eval_cons, Matrix.mul_assoc]

/-- multiply the last site by the scalar `a` -/
def scaleLast (a : ℝ) : {ds : List ℕ} → {l r : ℕ} → Chain ds l r → Chain ds l r
  | _, _, _, .nil => .nil
  | _, _, _, .cons B .nil => .cons (fun t => a • B t) .nil
  | _, _, _, .cons B (.cons B' C) => .cons B (scaleLast a (.cons B' C))

theorem eval_scaleLast (a : ℝ) {d : ℕ} {ds : List ℕ} {l r : ℕ} (C : Chain (d :: ds) l r) (c : Cfg (d :: ds)) :
    (C.scaleLast a).eval c = a • C.eval c := by
  induction ds generalizing d l with
  | nil =>
    cases C with
    | cons B C => cases C with
      | nil => obtain ⟨s, c⟩ := c; simp [scaleLast]
  | cons d' ds ih =>
    cases C with
    | cons B C => cases C with
      | cons B' C => obtain ⟨s, c⟩ := c; simp only [scaleLast, eval_cons, ih, Matrix.mul_smul]

/-- concatenation -/
def append : {ds es : List ℕ} → {l m r : ℕ} → Chain ds l m → Chain es m r → Chain (ds ++ es) l r
  | _, _, _, _, _, .nil, D => D
  | _, _, _, _, _, .cons A C, D => .cons A (append C D)

/-- every site is a left isometry -/
def LeftCan : {ds : List ℕ} → {l r : ℕ} → Chain ds l r → Prop
  | _, _, _, .nil => True
  | _, _, _, .cons A C => IsLeftIso A ∧ LeftCan C

/-- every site is a right isometry -/
def RightCan : {ds : List ℕ} → {l r : ℕ} → Chain ds l r → Prop
  | _, _, _, .nil => True
  | _, _, _, .cons A C => IsRightIso A ∧ RightCan C

/-- every site but the last is a left isometry (the output contract of `left_canonical_form`) -/
def LeftCanButLast : {ds : List ℕ} → {l r : ℕ} → Chain ds l r → Prop
  | _, _, _, .nil => True
  | _, _, _, .cons _ .nil => True
  | _, _, _, .cons A (.cons B C) => IsLeftIso A ∧ LeftCanButLast (.cons B C)

/-- squared Frobenius norm of the last site -/
def lastFrob2 : {ds : List ℕ} → {l r : ℕ} → Chain ds l r → ℝ
  | _, _, _, .nil => 0
  | _, _, _, .cons A .nil => ∑ s, frob2 (A s)
  | _, _, _, .cons _ (.cons B C) => lastFrob2 (.cons B C)

/-- squared norm of the represented tensor -/
def norm2 {ds : List ℕ} {l r : ℕ} (C : Chain ds l r) : ℝ := sumCfg ds fun c => frob2 (C.eval c)

/-- squared distance of the represented tensors -/
def dist2 {ds : List ℕ} {l r : ℕ} (C D : Chain ds l r) : ℝ := sumCfg ds fun c => frob2 (C.eval c - D.eval c)

/-- inner product of the represented tensors -/
def inner {ds : List ℕ} {l r : ℕ} (C D : Chain ds l r) : ℝ :=
  sumCfg ds fun c => trace ((C.eval c)ᵀ * D.eval c)

end Chain

namespace Chain

theorem sum_sumCfg_leftIso {d : ℕ} {ds : List ℕ} {l m r : ℕ} {A : Fin d → Matrix (Fin l) (Fin m) ℝ}
    (h : IsLeftIso A) (g : Cfg ds → Matrix (Fin m) (Fin r) ℝ) :
    ∑ s, sumCfg ds (fun c => frob2 (A s * g c)) = sumCfg ds fun c => frob2 (g c) := by
  rw [← sumCfg_sum]
  exact sumCfg_congr ds fun c => sum_frob2_leftIso_mul h (g c)

theorem sumCfg_rightCan {es : List ℕ} {m r : ℕ} (S : Chain es m r) (hS : S.RightCan) {k : ℕ}
    (Y : Matrix (Fin k) (Fin m) ℝ) : sumCfg es (fun c => frob2 (Y * S.eval c)) = frob2 Y := by
  induction S generalizing k with
  | nil => show frob2 (Y * 1) = frob2 Y; rw [Matrix.mul_one]
  | cons B S ih =>
    simp only [sumCfg, eval_cons, ← Matrix.mul_assoc]
    simp only [ih hS.2]
    exact sum_frob2_mul_rightIso hS.1 Y

theorem norm2_append_of_leftCan {ds es : List ℕ} {l m r : ℕ} (P : Chain ds l m) (hP : P.LeftCan)
    (D : Chain es m r) : (P.append D).norm2 = D.norm2 := by
  induction P with
  | nil => rfl
  | cons A P ih =>
    have := ih hP.2 D
    unfold norm2 at this ⊢
    rw [← this]
    exact sum_sumCfg_leftIso hP.1 _

theorem dist2_append_of_leftCan {ds es : List ℕ} {l m r : ℕ} (P : Chain ds l m) (hP : P.LeftCan)
    (D D' : Chain es m r) : dist2 (P.append D) (P.append D') = dist2 D D' := by
  induction P with
  | nil => rfl
  | cons A P ih =>
    have := ih hP.2 D D'
    unfold dist2 at this
    refine Eq.trans ?_ this
    show ∑ s, sumCfg _ (fun c => frob2 (A s * (P.append D).eval c - A s * (P.append D').eval c)) = _
    simp only [← Matrix.mul_sub]
    exact sum_sumCfg_leftIso hP.1 _

theorem norm2_cons_of_rightCan {d : ℕ} {es : List ℕ} {l m r : ℕ} (A : Fin d → Matrix (Fin l) (Fin m) ℝ)
    (S : Chain es m r) (hS : S.RightCan) : (cons A S).norm2 = ∑ s, frob2 (A s) := by
  simp only [norm2, sumCfg, eval_cons, sumCfg_rightCan S hS]

theorem dist2_cons_of_rightCan {d : ℕ} {es : List ℕ} {l m r : ℕ} (A A' : Fin d → Matrix (Fin l) (Fin m) ℝ)
    (S : Chain es m r) (hS : S.RightCan) : dist2 (cons A S) (cons A' S) = ∑ s, frob2 (A s - A' s) := by
  simp only [dist2, sumCfg, eval_cons, ← Matrix.sub_mul, sumCfg_rightCan S hS]

theorem norm2_of_leftCanButLast {ds : List ℕ} {l r : ℕ} (C : Chain ds l r) (h : C.LeftCanButLast)
    (hne : ds ≠ []) : C.norm2 = C.lastFrob2 := by
  induction C with
  | nil => exact absurd rfl hne
  | cons A C ih =>
    cases C with
    | nil => simpa [lastFrob2] using norm2_cons_of_rightCan A nil trivial
    | cons B C =>
      have := ih h.2 (by simp)
      unfold norm2 at this ⊢
      simp only [lastFrob2]
      rw [← this]
      exact sum_sumCfg_leftIso h.1 _

theorem eval_append_congr {ds es : List ℕ} {l m r : ℕ} (P : Chain ds l m) (D D' : Chain es m r)
    (h : ∀ c, D.eval c = D'.eval c) : ∀ c, (P.append D).eval c = (P.append D').eval c := by
  induction P with
  | nil => exact h
  | cons A P ih =>
    rintro ⟨s, c⟩
    simp only [append, eval_cons, ih D D' h c]

theorem dist2_congr {ds : List ℕ} {l r : ℕ} {C C' D D' : Chain ds l r} (hC : ∀ c, C.eval c = C'.eval c)
    (hD : ∀ c, D.eval c = D'.eval c) : dist2 C D = dist2 C' D' := by
  unfold dist2
  exact sumCfg_congr ds fun c => by rw [hC, hD]

theorem norm2_congr {ds : List ℕ} {l r : ℕ} {C C' : Chain ds l r} (hC : ∀ c, C.eval c = C'.eval c) :
    C.norm2 = C'.norm2 := by
  unfold norm2
  exact sumCfg_congr ds fun c => by rw [hC]

theorem norm2_nonneg {ds : List ℕ} {l r : ℕ} (C : Chain ds l r) : 0 ≤ C.norm2 :=
  sumCfg_nonneg ds _ fun _ => frob2_nonneg _

theorem dist2_nonneg {ds : List ℕ} {l r : ℕ} (C D : Chain ds l r) : 0 ≤ dist2 C D :=
  sumCfg_nonneg ds _ fun _ => frob2_nonneg _

/-- an exact left sweep: `LSweep C nrm C'` says `C'` arises from `C` by replacing, site after site, the reshaped
    site matrix `M = c • (Q * R)` (with `Qᵀ Q = 1`; `c` is the factor divided out of `R`, i.e. `r_norm` or `max_s`)
    by `Q` and pushing `R` into the next site; `nrm` is the product of the factors `c`.  The last site is kept. -/
inductive LSweep : {ds : List ℕ} → {l r : ℕ} → Chain ds l r → ℝ → Chain ds l r → Prop
  | last {d l r : ℕ} (A : Fin d → Matrix (Fin l) (Fin r) ℝ) : LSweep (.cons A .nil) 1 (.cons A .nil)
  | step {d d' : ℕ} {ds : List ℕ} {l m r k : ℕ} (A : Fin d → Matrix (Fin l) (Fin m) ℝ) (C : Chain (d' :: ds) m r)
      (Q : Matrix (Fin l × Fin d) (Fin k) ℝ) (R : Matrix (Fin k) (Fin m) ℝ) (c nrm : ℝ) (C' : Chain (d' :: ds) k r)
      (hfac : stack A = c • (Q * R)) (hiso : Qᵀ * Q = 1) (hrest : LSweep (C.mulLeft R) nrm C') :
      LSweep (.cons A C) (c * nrm) (.cons (unstack Q) C')

theorem LSweep.eval_eq {ds : List ℕ} {l r : ℕ} {C C' : Chain ds l r} {nrm : ℝ} (h : LSweep C nrm C') :
    ∀ c, C.eval c = nrm • C'.eval c := by
  induction h with
  | last A => intro c; simp
  | step A C Q R c nrm C' hfac hiso _ ih =>
    rintro ⟨s, cf⟩
    have hA : A s = c • (unstack Q s * R) := by
      have := congrArg (fun M => unstack M s) hfac
      simpa only [unstack_stack, unstack_smul, unstack_mul] using this
    have := ih cf
    rw [eval_mulLeft] at this
    simp only [eval_cons, hA, Matrix.smul_mul, Matrix.mul_assoc, this, Matrix.mul_smul, smul_smul]

theorem LSweep.leftCanButLast {ds : List ℕ} {l r : ℕ} {C C' : Chain ds l r} {nrm : ℝ} (h : LSweep C nrm C') :
    C'.LeftCanButLast := by
  induction h with
  | last A => trivial
  | step A C Q R c nrm C' hfac hiso _ ih =>
    cases C' with
    | cons B C' => exact ⟨isLeftIso_unstack Q hiso, ih⟩

end Chain

namespace Chain

/-- the tail (everything after the first site) is right-canonical: the input contract of the truncating sweep of
    `truncate` (the reversed left-canonical chain) -/
def TailRightCan : {ds : List ℕ} → {l r : ℕ} → Chain ds l r → Prop
  | _, _, _, .nil => True
  | _, _, _, .cons _ C => RightCan C

theorem sum_sumCfg_cross {d : ℕ} {ds : List ℕ} {l m k r : ℕ} (X : Fin d → Matrix (Fin l) (Fin m) ℝ)
    (Q : Fin d → Matrix (Fin l) (Fin k) ℝ) (h : ∑ s, (X s)ᵀ * Q s = 0) (T : Cfg ds → Matrix (Fin m) (Fin r) ℝ)
    (E : Cfg ds → Matrix (Fin k) (Fin r) ℝ) :
    ∑ s, sumCfg ds (fun c => trace ((X s * T c)ᵀ * (Q s * E c))) = 0 := by
  rw [← sumCfg_sum]
  rw [← sumCfg_zero ds]
  refine sumCfg_congr ds fun c => ?_
  have : ∀ s, (X s * T c)ᵀ * (Q s * E c) = (T c)ᵀ * ((X s)ᵀ * Q s) * E c := by
    intro s; rw [transpose_mul]; simp only [Matrix.mul_assoc]
  simp only [this]
  rw [← trace_sum, ← Matrix.sum_mul, ← Matrix.mul_sum, h, Matrix.mul_zero, Matrix.zero_mul, trace_zero]

/-- one step of a (possibly truncating) sweep: the error of the step and the error of the rest add in quadrature -/
theorem step_error {d : ℕ} {ds : List ℕ} {l m k r : ℕ} (A Ak : Fin d → Matrix (Fin l) (Fin m) ℝ)
    (Qk : Fin d → Matrix (Fin l) (Fin k) ℝ) (Rk : Matrix (Fin k) (Fin m) ℝ) (c nrm w : ℝ) (hQ : IsLeftIso Qk)
    (hAk : ∀ s, Ak s = c • (Qk s * Rk)) (horth : ∑ s, (A s - Ak s)ᵀ * Qk s = 0) (T : Chain ds m r)
    (hT : T.RightCan) (G : Cfg ds → Matrix (Fin k) (Fin r) ℝ)
    (hG : sumCfg ds (fun cf => frob2 (Rk * T.eval cf - nrm • G cf)) = w) :
    ∑ s, sumCfg ds (fun cf => frob2 (A s * T.eval cf - (c * nrm) • (Qk s * G cf))) =
      (∑ s, frob2 (A s - Ak s)) + c ^ 2 * w := by
  have key : ∀ s cf, A s * T.eval cf - (c * nrm) • (Qk s * G cf) =
      (A s - Ak s) * T.eval cf + c • (Qk s * (Rk * T.eval cf - nrm • G cf)) := by
    intro s cf
    simp only [Matrix.sub_mul, Matrix.mul_sub, smul_sub, hAk, Matrix.smul_mul, Matrix.mul_smul, Matrix.mul_assoc,
      smul_smul]
    abel
  simp only [key, frob2_add, sumCfg_add, Finset.sum_add_distrib]
  have t1 : ∑ s, sumCfg ds (fun cf => frob2 ((A s - Ak s) * T.eval cf)) = ∑ s, frob2 (A s - Ak s) :=
    Finset.sum_congr rfl fun s _ => sumCfg_rightCan T hT _
  have t2 : ∑ s, sumCfg ds (fun cf => frob2 (c • (Qk s * (Rk * T.eval cf - nrm • G cf)))) = c ^ 2 * w := by
    simp only [frob2_smul, sumCfg_mul_left]
    rw [← Finset.mul_sum, sum_sumCfg_leftIso hQ, hG]
  have t3 : ∑ s, sumCfg ds (fun cf => 2 * trace (((A s - Ak s) * T.eval cf)ᵀ *
      (c • (Qk s * (Rk * T.eval cf - nrm • G cf))))) = 0 := by
    have : ∀ s cf, 2 * trace (((A s - Ak s) * T.eval cf)ᵀ * (c • (Qk s * (Rk * T.eval cf - nrm • G cf)))) =
        (2 * c) * trace (((A s - Ak s) * T.eval cf)ᵀ * (Qk s * (Rk * T.eval cf - nrm • G cf))) := by
      intro s cf
      rw [Matrix.mul_smul, trace_smul, smul_eq_mul]; ring
    simp only [this, sumCfg_mul_left]
    rw [← Finset.mul_sum, sum_sumCfg_cross _ _ horth, mul_zero]
  rw [t1, t2, t3, add_zero]

/-- a left sweep whose SVD steps may truncate.  `TSweep C nrm C' w`: `C'` is the swept chain, `nrm` the product of
    the scalars divided out, `w` the accumulated discarded weight `Σ_steps (Π previous scalars)² Σ_discarded σ²`
    (the scalars are what the code divides out and multiplies back through `norm`).
    `qr`: exact step `M = c • (Q R)`.  `svd`: `M = c • (U diag σ W)`, kept triples selected by the injection `e`
    (`e = Fin.castLE` for `s[:chi]` and for the tol cut, which keeps a prefix), new site `U[:, e]`, the matrix
    `diag(σ∘e) W[e, :]` is pushed into the next site. -/
inductive TSweep : {ds : List ℕ} → {l r : ℕ} → Chain ds l r → ℝ → Chain ds l r → ℝ → Prop
  | last {d l r : ℕ} (A : Fin d → Matrix (Fin l) (Fin r) ℝ) : TSweep (.cons A .nil) 1 (.cons A .nil) 0
  | qr {d d' : ℕ} {ds : List ℕ} {l m r k : ℕ} (A : Fin d → Matrix (Fin l) (Fin m) ℝ) (C : Chain (d' :: ds) m r)
      (Q : Matrix (Fin l × Fin d) (Fin k) ℝ) (R : Matrix (Fin k) (Fin m) ℝ) (c nrm : ℝ) (C' : Chain (d' :: ds) k r)
      (w : ℝ) (hfac : stack A = c • (Q * R)) (hiso : Qᵀ * Q = 1) (hrest : TSweep (C.mulLeft R) nrm C' w) :
      TSweep (.cons A C) (c * nrm) (.cons (unstack Q) C') (c ^ 2 * w)
  | svd {d d' : ℕ} {ds : List ℕ} {l m r n k : ℕ} (A : Fin d → Matrix (Fin l) (Fin m) ℝ) (C : Chain (d' :: ds) m r)
      (U : Matrix (Fin l × Fin d) (Fin n) ℝ) (σv : Fin n → ℝ) (W : Matrix (Fin n) (Fin m) ℝ) (c : ℝ)
      (e : Fin k → Fin n) (he : Function.Injective e) (nrm : ℝ) (C' : Chain (d' :: ds) k r) (w : ℝ)
      (hfac : stack A = c • (U * diagonal σv * W)) (hU : Uᵀ * U = 1) (hW : W * Wᵀ = 1)
      (hrest : TSweep (C.mulLeft (diagonal (σv ∘ e) * W.submatrix e id)) nrm C' w) :
      TSweep (.cons A C) (c * nrm) (.cons (unstack (U.submatrix id e)) C')
        (c ^ 2 * (∑ j, σv j ^ 2 - ∑ x, σv (e x) ^ 2) + c ^ 2 * w)

theorem TSweep.leftCanButLast {ds : List ℕ} {l r : ℕ} {C C' : Chain ds l r} {nrm w : ℝ} (h : TSweep C nrm C' w) :
    C'.LeftCanButLast := by
  induction h with
  | last A => trivial
  | qr A C Q R c nrm C' w hfac hiso _ ih =>
    cases C' with
    | cons B C' => exact ⟨isLeftIso_unstack Q hiso, ih⟩
  | svd A C U σv W c e he nrm C' w hfac hU hW _ ih =>
    cases C' with
    | cons B C' => exact ⟨isLeftIso_unstack _ (submatrix_iso U hU e he), ih⟩

theorem TSweep.error_eq {ds : List ℕ} {l r : ℕ} {C C' : Chain ds l r} {nrm w : ℝ} (h : TSweep C nrm C' w)
    (hC : C.TailRightCan) : sumCfg ds (fun cf => frob2 (C.eval cf - nrm • C'.eval cf)) = w := by
  induction h with
  | last A => simp [frob2_zero, sumCfg_zero]
  | qr A C Q R c nrm C' w hfac hiso _ ih =>
    have hC' : C.RightCan := hC
    have hTail : (C.mulLeft R).TailRightCan := by
      cases C with
      | cons B S => exact hC'.2
    have ih' := ih hTail
    simp only [eval_mulLeft] at ih'
    have hA : ∀ s, A s = c • (unstack Q s * R) := by
      intro s
      have := congrArg (fun M => unstack M s) hfac
      simpa only [unstack_stack, unstack_smul, unstack_mul] using this
    have := step_error A A (unstack Q) R c nrm w (isLeftIso_unstack Q hiso) hA (by simp) C hC' C'.eval ih'
    simp only [sub_self, frob2_zero, Finset.sum_const_zero, zero_add] at this
    exact this
  | svd A C U σv W c e he nrm C' w hfac hU hW _ ih =>
    classical
    have hC' : C.RightCan := hC
    have hTail : (C.mulLeft (diagonal (σv ∘ e) * W.submatrix e id)).TailRightCan := by
      cases C with
      | cons B S => exact hC'.2
    have ih' := ih hTail
    simp only [eval_mulLeft] at ih'
    let Nk := c • (U.submatrix id e * (diagonal (σv ∘ e) * W.submatrix e id))
    have hNk : Nk = c • (U * diagonal (maskσ (· ∈ Set.range e) σv) * W) := by
      simp only [Nk]; rw [← submatrix_svd U σv W e he, Matrix.mul_assoc]
    have hAk : ∀ s, unstack Nk s = c • (unstack (U.submatrix id e) s * (diagonal (σv ∘ e) * W.submatrix e id)) := by
      intro s; simp only [Nk, unstack_smul, unstack_mul]
    have hdiff : stack A - Nk = c • (U * diagonal σv * W - U * diagonal (maskσ (· ∈ Set.range e) σv) * W) := by
      rw [hfac, hNk, smul_sub]
    have horth : ∑ s, (A s - unstack Nk s)ᵀ * unstack (U.submatrix id e) s = 0 := by
      have := stackT_mul_stack' (fun s => A s - unstack Nk s) (unstack (U.submatrix id e))
      rw [← this]
      have hs : stack (fun s => A s - unstack Nk s) = stack A - Nk := rfl
      rw [hs, stack_unstack, hdiff, transpose_smul, Matrix.smul_mul, svd_discard_orth U σv W hU e, smul_zero]
    have hw : ∑ s, frob2 (A s - unstack Nk s) = c ^ 2 * (∑ j, σv j ^ 2 - ∑ x, σv (e x) ^ 2) := by
      have hs : stack (fun s => A s - unstack Nk s) = stack A - Nk := rfl
      rw [← frob2_stack, hs, hdiff, frob2_smul, frob2_svd_sub U σv W hU hW, sum_discard e he]
    have := step_error A (unstack Nk) (unstack (U.submatrix id e)) _ c nrm w
      (isLeftIso_unstack _ (submatrix_iso U hU e he)) hAk horth C hC' C'.eval ih'
    rw [hw] at this
    exact this

end Chain

/-! ### reversal (`mps.reverse`: reverse the list, swap the bond legs of every tensor) -/

/-- list reversal in the form that computes with `snoc` -/
def rev : List ℕ → List ℕ
  | [] => []
  | d :: ds => rev ds ++ [d]

theorem rev_cons_ne_nil (d : ℕ) (ds : List ℕ) : rev (d :: ds) ≠ [] := by simp [rev]

/-- append a physical value at the end of a configuration -/
def Cfg.snoc {d : ℕ} : {ds : List ℕ} → Cfg ds → Fin d → Cfg (ds ++ [d])
  | [], _, s => (s, ())
  | _ :: _, (t, c), s => (t, Cfg.snoc c s)

/-- reversed configuration -/
def Cfg.reverse : {ds : List ℕ} → Cfg ds → Cfg (rev ds)
  | [], _ => ()
  | _ :: _, (s, c) => Cfg.snoc (Cfg.reverse c) s

theorem sumCfg_snoc (d : ℕ) (ds : List ℕ) (g : Cfg (ds ++ [d]) → ℝ) :
    sumCfg (ds ++ [d]) g = sumCfg ds fun c => ∑ s : Fin d, g (c.snoc s) := by
  induction ds with
  | nil => rfl
  | cons d' ds ih =>
    show ∑ t : Fin d', sumCfg (ds ++ [d]) (fun c => g (t, c)) = _
    simp only [ih]
    rfl

theorem sumCfg_reverse (ds : List ℕ) (g : Cfg (rev ds) → ℝ) :
    sumCfg (rev ds) g = sumCfg ds fun c => g c.reverse := by
  induction ds with
  | nil => rfl
  | cons d ds ih =>
    refine Eq.trans (sumCfg_snoc d (rev ds) g) ?_
    rw [ih, sumCfg_sum]
    rfl

namespace Chain

/-- append a site at the right end -/
def snoc {d : ℕ} {r : ℕ} : {ds : List ℕ} → {l m : ℕ} → Chain ds l m → (Fin d → Matrix (Fin m) (Fin r) ℝ) →
    Chain (ds ++ [d]) l r
  | _, _, _, .nil, A => .cons A .nil
  | _, _, _, .cons B C, A => .cons B (snoc C A)

/-- `mps.reverse`: reversed order, every site matrix transposed -/
def reverse : {ds : List ℕ} → {l r : ℕ} → Chain ds l r → Chain (rev ds) r l
  | _, _, _, .nil => .nil
  | _, _, _, .cons A C => snoc (reverse C) fun s => (A s)ᵀ

theorem eval_snoc {d r : ℕ} {ds : List ℕ} {l m : ℕ} (C : Chain ds l m) (A : Fin d → Matrix (Fin m) (Fin r) ℝ)
    (c : Cfg ds) (s : Fin d) : (C.snoc A).eval (c.snoc s) = C.eval c * A s := by
  induction C with
  | nil => show A s * 1 = 1 * A s; rw [Matrix.mul_one, Matrix.one_mul]
  | cons B C ih =>
    obtain ⟨t, c⟩ := c
    show B t * (C.snoc A).eval (c.snoc s) = B t * C.eval c * A s
    rw [ih, Matrix.mul_assoc]

/-- the reversed chain represents the transposed tensor with reversed physical indices -/
theorem eval_reverse {ds : List ℕ} {l r : ℕ} (C : Chain ds l r) (c : Cfg ds) :
    C.reverse.eval c.reverse = (C.eval c)ᵀ := by
  induction C with
  | nil => show (1 : Matrix _ _ ℝ) = 1ᵀ; rw [transpose_one]
  | cons A C ih =>
    obtain ⟨s, c⟩ := c
    show (C.reverse.snoc fun s => (A s)ᵀ).eval (c.reverse.snoc s) = (A s * C.eval c)ᵀ
    rw [eval_snoc, ih, transpose_mul]

theorem rightCan_snoc {d r : ℕ} {ds : List ℕ} {l m : ℕ} (C : Chain ds l m) (A : Fin d → Matrix (Fin m) (Fin r) ℝ)
    (hC : C.RightCan) (hA : IsRightIso A) : (C.snoc A).RightCan := by
  induction C with
  | nil => exact ⟨hA, trivial⟩
  | cons B C ih => exact ⟨hC.1, ih A hC.2 hA⟩

theorem tailRightCan_snoc {d r : ℕ} {ds : List ℕ} {l m : ℕ} (C : Chain ds l m)
    (A : Fin d → Matrix (Fin m) (Fin r) ℝ) (hC : C.TailRightCan) (hA : IsRightIso A) (hne : ds ≠ []) :
    (C.snoc A).TailRightCan := by
  cases C with
  | nil => exact absurd rfl hne
  | cons B C => exact rightCan_snoc C A hC hA

/-- the reverse of a chain whose sites but the last are left isometries has a right-canonical tail: the output of the
    first sweep of `truncate`, reversed, meets the input contract of the truncating sweep -/
theorem tailRightCan_reverse {ds : List ℕ} {l r : ℕ} (C : Chain ds l r) (h : C.LeftCanButLast) :
    C.reverse.TailRightCan := by
  induction C with
  | nil => trivial
  | cons A C ih =>
    cases C with
    | nil => trivial
    | cons B C =>
      exact tailRightCan_snoc _ _ (ih h.2) (isRightIso_transpose h.1) (rev_cons_ne_nil _ _)

theorem eval_scaleLast' (a : ℝ) {ds : List ℕ} {l r : ℕ} (C : Chain ds l r) (hne : ds ≠ []) (c : Cfg ds) :
    (C.scaleLast a).eval c = a • C.eval c := by
  cases C with
  | nil => exact absurd rfl hne
  | cons B C => exact eval_scaleLast a _ c

theorem leftCanButLast_cons {d d' : ℕ} {ds : List ℕ} {l m r : ℕ} (A : Fin d → Matrix (Fin l) (Fin m) ℝ)
    (X : Chain (d' :: ds) m r) : (cons A X).LeftCanButLast ↔ IsLeftIso A ∧ X.LeftCanButLast := by
  cases X with
  | cons B C => rfl

theorem scaleLast_cons_cons (a : ℝ) {d d' : ℕ} {ds : List ℕ} {l m k r : ℕ} (A : Fin d → Matrix (Fin l) (Fin m) ℝ)
    (B : Fin d' → Matrix (Fin m) (Fin k) ℝ) (C : Chain ds k r) :
    scaleLast a (cons A (cons B C)) = cons A (scaleLast a (cons B C)) := by
  rw [scaleLast]

theorem leftCanButLast_scaleLast (a : ℝ) {ds : List ℕ} {l r : ℕ} (C : Chain ds l r) (h : C.LeftCanButLast) :
    (C.scaleLast a).LeftCanButLast := by
  induction C with
  | nil => trivial
  | cons A C ih =>
    cases C with
    | nil => trivial
    | cons B C =>
      rw [scaleLast_cons_cons, leftCanButLast_cons]
      exact ⟨h.1, ih h.2⟩

end Chain

end Qec.Sweep
