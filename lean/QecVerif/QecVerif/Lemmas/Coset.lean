/-
  Helper lemmas for C10 (`Model/Coset.lean`): algebra of the XOR-span enumeration, sums of weights
  over cosets, the partition of a syndrome class into logical cosets, arg-max optimality.
-/
import QecVerif.Model.Coset
import QecVerif.Lemmas.GF2
import QecVerif.Lemmas.RunOnce
import QecVerif.Props.C09
import Mathlib.Algebra.BigOperators.Group.List.Basic
import Mathlib.Algebra.BigOperators.Group.Finset.Basic
import Mathlib.Algebra.BigOperators.Ring.List
import Mathlib.Algebra.Order.BigOperators.Ring.List
import Mathlib.Algebra.Order.BigOperators.Group.List
import Mathlib.Algebra.Order.BigOperators.GroupWithZero.List
import Mathlib.Algebra.Order.BigOperators.Group.Finset
import Mathlib.Data.List.Perm.Basic
import Mathlib.Data.List.Nodup
import Mathlib.Tactic.Ring
namespace Qec.Coset
open Qec

/-! ### XOR-combinations -/

/-- the XOR of the generators selected by the coefficient list `c` -/
def xorComb (m : Nat) : List Bool → List BVec → BVec
  | b :: c, g :: S => if b then xorV g (xorComb m c S) else xorComb m c S
  | _, _ => zeros m

/-- linear independence over GF(2): only the all-false coefficient list combines to zero -/
def LinIndep (m : Nat) (S : List BVec) : Prop :=
  ∀ c : List Bool, c.length = S.length → xorComb m c S = zeros m → c = List.replicate S.length false

/-- all vectors of the list have length `m` -/
def AllLen (m : Nat) (S : List BVec) : Prop := ∀ g ∈ S, g.length = m

theorem AllLen.tail {m : Nat} {g : BVec} {S : List BVec} (h : AllLen m (g :: S)) : AllLen m S :=
  fun x hx => h x (by simp [hx])

theorem AllLen.head {m : Nat} {g : BVec} {S : List BVec} (h : AllLen m (g :: S)) : g.length = m :=
  h g (by simp)

theorem AllLen.append {m : Nat} {A B : List BVec} (hA : AllLen m A) (hB : AllLen m B) : AllLen m (A ++ B) := by
  intro x hx
  rcases List.mem_append.mp hx with h | h
  · exact hA x h
  · exact hB x h

theorem xorV_len {m : Nat} {a b : BVec} (ha : a.length = m) (hb : b.length = m) : (xorV a b).length = m := by
  rw [xorV_length a b (ha.trans hb.symm), ha]

theorem xorV_cancel_left {m : Nat} {a b : BVec} (ha : a.length = m) (hb : b.length = m) :
    xorV a (xorV a b) = b := by
  rw [← xorV_assoc, xorV_self, ha, xorV_zeros_left m b hb]

theorem xorV_inj_left {m : Nat} {a b c : BVec} (ha : a.length = m) (hb : b.length = m) (hc : c.length = m)
    (h : xorV a b = xorV a c) : b = c := by
  rw [← xorV_cancel_left ha hb, h, xorV_cancel_left ha hc]

theorem spanEnum_len {m : Nat} {S : List BVec} (hS : AllLen m S) : AllLen m (spanEnum m S) := by
  induction S with
  | nil => intro g hg; simp [spanEnum] at hg; subst hg; exact zeros_length m
  | cons g S ih =>
    intro x hx
    simp only [spanEnum, List.mem_append, List.mem_map] at hx
    rcases hx with h | ⟨y, hy, rfl⟩
    · exact ih hS.tail x h
    · exact xorV_len hS.head (ih hS.tail y hy)

theorem zeros_mem_spanEnum (m : Nat) (S : List BVec) : zeros m ∈ spanEnum m S := by
  induction S with
  | nil => simp [spanEnum]
  | cons g S ih => simp only [spanEnum, List.mem_append]; exact Or.inl ih

theorem spanEnum_length (m : Nat) (S : List BVec) : (spanEnum m S).length = 2 ^ S.length := by
  induction S with
  | nil => simp [spanEnum]
  | cons g S ih => simp [spanEnum, ih, Nat.pow_succ]; omega

/-- membership in the fold = being an XOR-combination -/
theorem mem_spanEnum_iff (m : Nat) (S : List BVec) (x : BVec) :
    x ∈ spanEnum m S ↔ ∃ c : List Bool, c.length = S.length ∧ x = xorComb m c S := by
  induction S generalizing x with
  | nil =>
    simp only [spanEnum, List.mem_singleton, List.length_nil, List.length_eq_zero_iff]
    constructor
    · intro h; exact ⟨[], rfl, by simp [xorComb, h]⟩
    · rintro ⟨c, rfl, h⟩; simpa [xorComb] using h
  | cons g S ih =>
    simp only [spanEnum, List.mem_append, List.mem_map]
    constructor
    · rintro (h | ⟨y, hy, rfl⟩)
      · obtain ⟨c, hc, rfl⟩ := (ih x).mp h
        exact ⟨false :: c, by simp [hc], by simp [xorComb]⟩
      · obtain ⟨c, hc, rfl⟩ := (ih y).mp hy
        exact ⟨true :: c, by simp [hc], by simp [xorComb]⟩
    · rintro ⟨c, hc, rfl⟩
      cases c with
      | nil => simp at hc
      | cons b c =>
        simp only [List.length_cons, Nat.add_right_cancel_iff] at hc
        cases b with
        | false => left; exact (ih _).mpr ⟨c, hc, by simp [xorComb]⟩
        | true => right; exact ⟨xorComb m c S, (ih _).mpr ⟨c, hc, rfl⟩, by simp [xorComb]⟩

/-- the span is closed under XOR -/
theorem spanEnum_closed {m : Nat} {S : List BVec} (hS : AllLen m S) {x y : BVec}
    (hx : x ∈ spanEnum m S) (hy : y ∈ spanEnum m S) : xorV x y ∈ spanEnum m S := by
  induction S generalizing x y with
  | nil =>
    simp only [spanEnum, List.mem_singleton] at hx hy ⊢
    subst hx; subst hy; rw [xorV_self, zeros_length]
  | cons g S ih =>
    have hg := hS.head
    have hl := spanEnum_len hS.tail
    simp only [spanEnum, List.mem_append, List.mem_map] at hx hy ⊢
    rcases hx with hx | ⟨x', hx', rfl⟩ <;> rcases hy with hy | ⟨y', hy', rfl⟩
    · exact Or.inl (ih hS.tail hx hy)
    · right; exact ⟨xorV x y', ih hS.tail hx hy', by rw [← xorV_assoc, xorV_comm g x, xorV_assoc]⟩
    · right; exact ⟨xorV x' y, ih hS.tail hx' hy, by rw [xorV_assoc]⟩
    · left
      have : xorV (xorV g x') (xorV g y') = xorV x' y' := by
        rw [xorV_assoc, ← xorV_assoc x' g y', xorV_comm x' g, xorV_assoc g x' y',
          xorV_cancel_left hg (xorV_len (hl x' hx') (hl y' hy'))]
      rw [this]; exact ih hS.tail hx' hy'

theorem mem_spanEnum_of_mem {m : Nat} {S : List BVec} (hS : AllLen m S) {g : BVec} (hg : g ∈ S) :
    g ∈ spanEnum m S := by
  induction S with
  | nil => simp at hg
  | cons a S ih =>
    simp only [spanEnum, List.mem_append, List.mem_map]
    rcases List.mem_cons.mp hg with rfl | h
    · right; exact ⟨zeros m, zeros_mem_spanEnum m S, xorV_zeros_right m g hS.head⟩
    · left; exact ih hS.tail h

/-- span of a sub-family is contained in the span of the family -/
theorem spanEnum_mono_append_right {m : Nat} (A B : List BVec) {x : BVec} (hx : x ∈ spanEnum m B) :
    x ∈ spanEnum m (A ++ B) := by
  induction A with
  | nil => simpa using hx
  | cons a A ih => simp only [List.cons_append, spanEnum, List.mem_append]; exact Or.inl ih

/-! ### independence ⇒ no repetition -/

theorem LinIndep.tail {m : Nat} {g : BVec} {S : List BVec} (h : LinIndep m (g :: S)) : LinIndep m S := by
  intro c hc hz
  have := h (false :: c) (by simp [hc]) (by simpa [xorComb] using hz)
  simpa [List.replicate_succ] using this

theorem LinIndep.head_not_mem {m : Nat} {g : BVec} {S : List BVec} (hg : g.length = m)
    (h : LinIndep m (g :: S)) : g ∉ spanEnum m S := by
  intro hmem
  obtain ⟨c, hc, hgc⟩ := (mem_spanEnum_iff m S g).mp hmem
  have := h (true :: c) (by simp [hc]) (by
    simp only [xorComb, if_true]; rw [← hgc, xorV_self, hg])
  simp [List.replicate_succ] at this

theorem spanEnum_nodup {m : Nat} {S : List BVec} (hS : AllLen m S) (hI : LinIndep m S) :
    (spanEnum m S).Nodup := by
  induction S with
  | nil => simp [spanEnum]
  | cons g S ih =>
    have hg := hS.head
    have hl := spanEnum_len hS.tail
    have hnd := ih hS.tail hI.tail
    simp only [spanEnum]
    refine List.Nodup.append hnd ?_ ?_
    · refine (List.nodup_map_iff_inj_on hnd).mpr ?_
      intro a ha b hb hab
      exact xorV_inj_left hg (hl a ha) (hl b hb) hab
    · intro x hx hx'
      obtain ⟨y, hy, rfl⟩ := List.mem_map.mp hx'
      apply hI.head_not_mem hg
      have := spanEnum_closed hS.tail hx hy
      rwa [xorV_comm g y, xorV_assoc, xorV_comm g y, ← xorV_assoc, xorV_self, hl y hy,
        xorV_zeros_left m g hg] at this

/-! ### all vectors of a length -/

theorem mem_allVecs (m : Nat) (e : BVec) : e ∈ allVecs m ↔ e.length = m := by
  induction m generalizing e with
  | zero => simp [allVecs]
  | succ m ih =>
    simp only [allVecs, List.mem_append, List.mem_map]
    constructor
    · rintro (⟨y, hy, rfl⟩ | ⟨y, hy, rfl⟩) <;> simp [(ih y).mp hy]
    · intro h
      cases e with
      | nil => simp at h
      | cons b t =>
        simp only [List.length_cons, Nat.add_right_cancel_iff] at h
        cases b with
        | false => left; exact ⟨t, (ih t).mpr h, rfl⟩
        | true => right; exact ⟨t, (ih t).mpr h, rfl⟩

theorem allVecs_nodup (m : Nat) : (allVecs m).Nodup := by
  induction m with
  | zero => simp [allVecs]
  | succ m ih =>
    simp only [allVecs]
    refine List.Nodup.append ?_ ?_ ?_
    · exact (List.nodup_map_iff_inj_on ih).mpr (by intro a _ b _ h; simpa using h)
    · exact (List.nodup_map_iff_inj_on ih).mpr (by intro a _ b _ h; simpa using h)
    · intro x hx hx'
      obtain ⟨a, _, rfl⟩ := List.mem_map.mp hx
      obtain ⟨b, _, hb⟩ := List.mem_map.mp hx'
      simp at hb

/-! ### coset sums -/

section sums
variable {α : Type} [CommSemiring α]

/-- `cosetProb` with the vector length as an explicit parameter -/
def cosetProbM (m : Nat) (d : Dist α) (S : List BVec) (f : BVec) : α :=
  ((spanEnum m S).map fun g => weight d (xorV f g)).sum

theorem cosetProb_eq_M (d : Dist α) (S : List BVec) (f : BVec) :
    cosetProb d S f = cosetProbM f.length d S f := rfl

theorem cosetProbM_nil (m : Nat) (d : Dist α) (f : BVec) (hf : f.length = m) :
    cosetProbM m d [] f = weight d f := by
  simp [cosetProbM, spanEnum, xorV_zeros_right m f hf]

theorem cosetProbM_cons (m : Nat) (d : Dist α) (g : BVec) (S : List BVec) (f : BVec) :
    cosetProbM m d (g :: S) f = cosetProbM m d S f + cosetProbM m d S (xorV f g) := by
  simp only [cosetProbM, spanEnum, List.map_append, List.sum_append, List.map_map]
  congr 2
  apply List.map_congr_left
  intro h _
  simp [Function.comp, xorV_assoc]

/-- the probabilities of the `2^|L|` cosets `f·ℓ·⟨S⟩` add up to the probability of the coset of `f` with respect
    to the group generated by `L ++ S` -/
theorem sum_cosetProbM_span (m : Nat) (d : Dist α) (S L : List BVec) (f : BVec) (hf : f.length = m)
    (hL : AllLen m L) :
    ((spanEnum m L).map fun l => cosetProbM m d S (xorV f l)).sum = cosetProbM m d (L ++ S) f := by
  induction L generalizing f with
  | nil => simp [spanEnum, xorV_zeros_right m f hf]
  | cons l L ih =>
    have hl := hL.head
    simp only [spanEnum, List.map_append, List.sum_append, List.map_map, List.cons_append, cosetProbM_cons]
    rw [ih f hf hL.tail, ← ih (xorV f l) (xorV_len hf hl) hL.tail]
    congr 2
    apply List.map_congr_left
    intro h _
    simp [Function.comp, xorV_assoc]

end sums

/-! ### the syndrome class of `f` is the coset of `f` with respect to the normaliser -/

theorem synd_span_zero {m : Nat} {S N : List BVec} (hm : m % 2 = 0) (hS : AllLen m S) (hN : AllLen m N)
    (hcomm : ∀ a ∈ N, synd S a = zeros S.length) :
    ∀ h ∈ spanEnum m N, synd S h = zeros S.length := by
  induction N with
  | nil => intro h hh; simp only [spanEnum, List.mem_singleton] at hh; subst hh; exact synd_zeros S m
  | cons g N ih =>
    intro h hh
    have ih' := ih hN.tail (fun a ha => hcomm a (by simp [ha]))
    simp only [spanEnum, List.mem_append, List.mem_map] at hh
    rcases hh with hh | ⟨y, hy, rfl⟩
    · exact ih' h hh
    · have hy' := spanEnum_len hN.tail y hy
      rw [C09.synd_add S g y (hN.head.trans hy'.symm) (by rw [hN.head]; exact hm)
        (fun r hr => (hS r hr).trans hN.head.symm), hcomm g (by simp), ih' y hy,
        xorV_self, zeros_length]

theorem coset_perm_syndrome_class {m : Nat} {S N : List BVec} {f : BVec} (hm : m % 2 = 0)
    (hS : AllLen m S) (hN : AllLen m N) (hI : LinIndep m N)
    (hcomm : ∀ a ∈ N, synd S a = zeros S.length)
    (hnorm : ∀ e : BVec, e.length = m → synd S e = zeros S.length → e ∈ spanEnum m N)
    (hf : f.length = m) :
    List.Perm ((spanEnum m N).map (xorV f)) ((allVecs m).filter fun e => synd S e == synd S f) := by
  have hl := spanEnum_len hN
  refine (List.perm_ext_iff_of_nodup ?_ ?_).mpr ?_
  · exact (List.nodup_map_iff_inj_on (spanEnum_nodup hN hI)).mpr
      (fun a ha b hb hab => xorV_inj_left hf (hl a ha) (hl b hb) hab)
  · exact (allVecs_nodup m).filter _
  · intro e
    simp only [List.mem_map, List.mem_filter, mem_allVecs, beq_iff_eq]
    constructor
    · rintro ⟨h, hh, rfl⟩
      refine ⟨xorV_len hf (hl h hh), ?_⟩
      rw [C09.synd_add S f h (hf.trans (hl h hh).symm) (by rw [hf]; exact hm)
        (fun r hr => (hS r hr).trans hf.symm), synd_span_zero hm hS hN hcomm h hh,
        xorV_zeros_right _ _ (synd_length S f)]
    · rintro ⟨he, hs⟩
      refine ⟨xorV f e, hnorm _ (xorV_len hf he) ?_, xorV_cancel_left hf he⟩
      rw [C09.synd_add S f e (hf.trans he.symm) (by rw [hf]; exact hm)
        (fun r hr => (hS r hr).trans hf.symm), hs, xorV_self, synd_length]

instance : Std.Associative xorV := ⟨xorV_assoc⟩
instance : Std.Commutative xorV := ⟨xorV_comm⟩

/-- every element of the span of `L ++ S` is a product of an element of the span of `L` and one of `S` -/
theorem spanEnum_append_decomp {m : Nat} (L S : List BVec) (hL : AllLen m L) (hS : AllLen m S) {x : BVec}
    (hx : x ∈ spanEnum m (L ++ S)) : ∃ l ∈ spanEnum m L, ∃ g ∈ spanEnum m S, x = xorV l g := by
  induction L generalizing x with
  | nil =>
    exact ⟨zeros m, by simp [spanEnum], x, by simpa using hx,
      (xorV_zeros_left m x (spanEnum_len hS x (by simpa using hx))).symm⟩
  | cons a L ih =>
    simp only [List.cons_append, spanEnum, List.mem_append, List.mem_map] at hx
    rcases hx with hx | ⟨y, hy, rfl⟩
    · obtain ⟨l, hl, g, hg, rfl⟩ := ih hL.tail hx
      exact ⟨l, by simp only [spanEnum, List.mem_append]; exact Or.inl hl, g, hg, rfl⟩
    · obtain ⟨l, hl, g, hg, rfl⟩ := ih hL.tail hy
      refine ⟨xorV a l, ?_, g, hg, by ac_rfl⟩
      simp only [spanEnum, List.mem_append, List.mem_map]
      exact Or.inr ⟨l, hl, rfl⟩

/-- translating the span by one of its elements permutes it -/
theorem spanEnum_translate_perm {m : Nat} {S : List BVec} (hS : AllLen m S) (hI : LinIndep m S) {g0 : BVec}
    (hg0 : g0 ∈ spanEnum m S) : List.Perm ((spanEnum m S).map (xorV g0)) (spanEnum m S) := by
  have hl := spanEnum_len hS
  have hg0l := hl g0 hg0
  refine (List.perm_ext_iff_of_nodup ?_ (spanEnum_nodup hS hI)).mpr ?_
  · exact (List.nodup_map_iff_inj_on (spanEnum_nodup hS hI)).mpr
      (fun a ha b hb hab => xorV_inj_left hg0l (hl a ha) (hl b hb) hab)
  · intro e
    simp only [List.mem_map]
    constructor
    · rintro ⟨h, hh, rfl⟩; exact spanEnum_closed hS hg0 hh
    · intro he; exact ⟨xorV g0 e, spanEnum_closed hS hg0 he, xorV_cancel_left hg0l (hl e he)⟩

section sums2
variable {α : Type} [CommSemiring α]

/-- the coset probability does not depend on the representative -/
theorem cosetProbM_shift {m : Nat} (d : Dist α) {S : List BVec} (hS : AllLen m S) (hI : LinIndep m S) (f : BVec)
    {g0 : BVec} (hg0 : g0 ∈ spanEnum m S) : cosetProbM m d S (xorV f g0) = cosetProbM m d S f := by
  have h := (spanEnum_translate_perm hS hI hg0).map (fun h => weight d (xorV f h))
  have := h.sum_eq
  simp only [List.map_map] at this
  rw [cosetProbM, cosetProbM, ← this]
  congr 1
  apply List.map_congr_left
  intro h _
  simp [Function.comp, xorV_assoc]

/-- the `2^|L|` coset probabilities add up to the probability of the syndrome class -/
theorem sum_cosets_eq_syndProb {m : Nat} (d : Dist α) {S L : List BVec} {f : BVec} (hm : m % 2 = 0)
    (hS : AllLen m S) (hL : AllLen m L) (hI : LinIndep m (L ++ S))
    (hcomm : ∀ a ∈ L ++ S, synd S a = zeros S.length)
    (hnorm : ∀ e : BVec, e.length = m → synd S e = zeros S.length → e ∈ spanEnum m (L ++ S))
    (hf : f.length = m) :
    ((spanEnum m L).map fun l => cosetProbM m d S (xorV f l)).sum = syndProb d S m (synd S f) := by
  rw [sum_cosetProbM_span m d S L f hf hL]
  have h := (coset_perm_syndrome_class hm hS (hL.append hS) hI hcomm hnorm hf).map (weight d)
  have := h.sum_eq
  simp only [List.map_map] at this
  rw [syndProb, ← this]
  rfl

end sums2

/-- What C10 needs from the code (facts that belong to C07's `ValidCode`; taken here as named hypotheses):
    `S` = stabilizer generators, `L` = the 2k logical operators, all of bsf length `m = 2n`.
    * `h_indep`: the generators and logicals together are linearly independent over GF(2)
      (rank n−k of the stabilizers, and no logical lies in the stabilizer group times other logicals);
    * `h_comm`: stabilizers commute with each other and with the logicals;
    * `h_norm`: every Pauli commuting with all stabilizers is a product of stabilizers and logicals
      (the dimension count |N(S)| = 2^(2n−(n−k)) = 2^((n−k)+2k)). -/
structure CodeSpec (m : Nat) (S L : List BVec) : Prop where
  even : m % 2 = 0
  lenS : AllLen m S
  lenL : AllLen m L
  h_indep : LinIndep m (L ++ S)
  h_comm : ∀ a ∈ L ++ S, synd S a = zeros S.length
  h_norm : ∀ e : BVec, e.length = m → synd S e = zeros S.length → e ∈ spanEnum m (L ++ S)

theorem LinIndep.of_append_right {m : Nat} {A B : List BVec} (h : LinIndep m (A ++ B)) : LinIndep m B := by
  induction A with
  | nil => simpa using h
  | cons a A ih => exact ih (LinIndep.tail (by simpa using h))

section sample
variable {α : Type} [CommSemiring α]

/-- another sample recovery with the same syndrome only permutes the cosets: there is a fixed logical `l0`
    such that the coset of `f' · l` is the coset of `f · l0 · l` -/
theorem cosetProbM_other_sample {m : Nat} (d : Dist α) {S L : List BVec} (hC : CodeSpec m S L) {f f' : BVec}
    (hf : f.length = m) (hf' : f'.length = m) (hs : synd S f' = synd S f) :
    ∃ l0 ∈ spanEnum m L, ∀ l : BVec, l.length = m →
      cosetProbM m d S (xorV f' l) = cosetProbM m d S (xorV f (xorV l0 l)) := by
  have hz : synd S (xorV f f') = zeros S.length := by
    rw [C09.synd_add S f f' (hf.trans hf'.symm) (by rw [hf]; exact hC.even)
      (fun r hr => (hC.lenS r hr).trans hf.symm), hs, xorV_self, synd_length]
  obtain ⟨l0, hl0, g0, hg0, hx⟩ :=
    spanEnum_append_decomp L S hC.lenL hC.lenS (hC.h_norm _ (xorV_len hf hf') hz)
  refine ⟨l0, hl0, fun l hl => ?_⟩
  have hf'eq : f' = xorV f (xorV l0 g0) := by rw [← hx, xorV_cancel_left hf hf']
  have : xorV f' l = xorV (xorV f (xorV l0 l)) g0 := by rw [hf'eq]; ac_rfl
  rw [this, cosetProbM_shift d hC.lenS hC.h_indep.of_append_right _ hg0]

end sample

/-! ### order -/

section order
variable {α : Type} [CommSemiring α] [PartialOrder α] [IsOrderedRing α]

omit [CommSemiring α] [PartialOrder α] [IsOrderedRing α] in
theorem exists_of_mem_zipWith {β γ : Type} {f : β → γ → α} {xs : List β} {ys : List γ} {a : α}
    (h : a ∈ List.zipWith f xs ys) : ∃ x y, a = f x y := by
  induction xs generalizing ys with
  | nil => simp at h
  | cons x xs ih =>
    cases ys with
    | nil => simp at h
    | cons y ys =>
      simp only [List.zipWith_cons_cons, List.mem_cons] at h
      rcases h with rfl | h
      · exact ⟨x, y, rfl⟩
      · exact ih h

/-- all four entries non-negative -/
def Dist.Nonneg (d : Dist α) : Prop := 0 ≤ d.pI ∧ 0 ≤ d.pX ∧ 0 ≤ d.pY ∧ 0 ≤ d.pZ

omit [IsOrderedRing α] in
theorem Dist.at_nonneg {d : Dist α} (h : d.Nonneg) (x z : Bool) : 0 ≤ d.at x z := by
  obtain ⟨h1, h2, h3, h4⟩ := h
  cases x <;> cases z <;> simp [Dist.at, *]

theorem weight_nonneg {d : Dist α} (h : d.Nonneg) (e : BVec) : 0 ≤ weight d e := by
  apply List.prod_nonneg
  intro a ha
  obtain ⟨x, z, rfl⟩ := exists_of_mem_zipWith ha
  exact Dist.at_nonneg h _ _

theorem cosetProbM_nonneg {d : Dist α} (h : d.Nonneg) (m : Nat) (S : List BVec) (f : BVec) :
    0 ≤ cosetProbM m d S f := by
  apply List.sum_nonneg
  intro a ha
  obtain ⟨g, _, rfl⟩ := List.mem_map.mp ha
  exact weight_nonneg h _

end order

/-! ### maximum likelihood is optimal -/

theorem eq_of_xorV_eq_zeros {k : Nat} {a b : BVec} (ha : a.length = k) (hb : b.length = k)
    (h : xorV a b = zeros k) : a = b := by
  have := xorV_cancel_left ha hb
  rw [h, xorV_zeros_right k a ha] at this
  exact this

section ml
variable {α : Type} [CommSemiring α]

theorem successProb_eq_finset (d : Dist α) (S : List BVec) (m : Nat) (dec : BVec → BVec) :
    successProb d S m dec =
      ∑ e ∈ (allVecs m).toFinset.filter
        (fun e => (spanEnum m S).contains (xorV (dec (synd S e)) e) = true), weight d e := by
  unfold successProb
  rw [← List.sum_toFinset (weight d) ((allVecs_nodup m).filter _), List.toFinset_filter]

/-- the errors with syndrome `s` that the recovery `r` corrects: the coset of `r` if `r` carries `s`, none otherwise -/
theorem fiber_sum {m : Nat} {S : List BVec} (hm : m % 2 = 0) (hS : AllLen m S) (hI : LinIndep m S)
    (hcomm : ∀ a ∈ S, synd S a = zeros S.length) (d : Dist α) (r : BVec) (hr : r.length = m) (s : BVec) :
    ∑ e ∈ ((allVecs m).toFinset.filter (fun e => (spanEnum m S).contains (xorV r e) = true)).filter
        (fun e => synd S e = s), weight d e
      = if synd S r = s then cosetProbM m d S r else 0 := by
  have hl := spanEnum_len hS
  have hz := synd_span_zero hm hS hS hcomm
  have hadd : ∀ e : BVec, e.length = m → synd S (xorV r e) = xorV (synd S r) (synd S e) := fun e he =>
    C09.synd_add S r e (hr.trans he.symm) (by rw [hr]; exact hm) (fun x hx => (hS x hx).trans hr.symm)
  by_cases h : synd S r = s
  · rw [if_pos h]
    have hnd : ((spanEnum m S).map (xorV r)).Nodup :=
      (List.nodup_map_iff_inj_on (spanEnum_nodup hS hI)).mpr
        (fun a ha b hb hab => xorV_inj_left hr (hl a ha) (hl b hb) hab)
    have hset : ((allVecs m).toFinset.filter (fun e => (spanEnum m S).contains (xorV r e) = true)).filter
        (fun e => synd S e = s) = ((spanEnum m S).map (xorV r)).toFinset := by
      ext e
      simp only [Finset.mem_filter, List.mem_toFinset, mem_allVecs, List.contains_iff_mem, List.mem_map]
      constructor
      · rintro ⟨⟨he, hmem⟩, _⟩
        exact ⟨xorV r e, hmem, xorV_cancel_left hr he⟩
      · rintro ⟨g, hg, rfl⟩
        have hgl := hl g hg
        refine ⟨⟨xorV_len hr hgl, ?_⟩, ?_⟩
        · rw [xorV_cancel_left hr hgl]; exact hg
        · rw [hadd g hgl, hz g hg, xorV_zeros_right _ _ (synd_length S r), h]
    rw [hset, List.sum_toFinset (weight d) hnd, List.map_map]
    rfl
  · rw [if_neg h]
    apply Finset.sum_eq_zero
    intro e he
    exfalso
    simp only [Finset.mem_filter, List.mem_toFinset, mem_allVecs, List.contains_iff_mem] at he
    obtain ⟨⟨hel, hmem⟩, hs⟩ := he
    have h1 := hz _ hmem
    rw [hadd e hel] at h1
    exact h ((eq_of_xorV_eq_zeros (synd_length S r) (synd_length S e) h1).trans hs)

variable [PartialOrder α] [IsOrderedRing α]

/-- returning, for every syndrome, a recovery whose coset has maximal probability among the recoveries carrying
    that syndrome maximises the success probability over ALL decoders (functions of the syndrome) -/
theorem successProb_le_of_argmax {m : Nat} {S : List BVec} (hm : m % 2 = 0) (hS : AllLen m S)
    (hI : LinIndep m S) (hcomm : ∀ a ∈ S, synd S a = zeros S.length) {d : Dist α} (hd : d.Nonneg)
    (dec dML : BVec → BVec) (hdec : ∀ s, (dec s).length = m) (hMLlen : ∀ s, (dML s).length = m)
    (hMLs : ∀ e : BVec, e.length = m → synd S (dML (synd S e)) = synd S e)
    (hMLmax : ∀ r : BVec, r.length = m → cosetProbM m d S r ≤ cosetProbM m d S (dML (synd S r))) :
    successProb d S m dec ≤ successProb d S m dML := by
  rw [successProb_eq_finset, successProb_eq_finset]
  have hmaps : ∀ (D : BVec → BVec), ∀ e ∈ (allVecs m).toFinset.filter
      (fun e => (spanEnum m S).contains (xorV (D (synd S e)) e) = true),
      synd S e ∈ (allVecs m).toFinset.image (synd S) := by
    intro D e he
    exact Finset.mem_image_of_mem _ (Finset.mem_filter.mp he).1
  rw [← Finset.sum_fiberwise_of_maps_to (hmaps dec), ← Finset.sum_fiberwise_of_maps_to (hmaps dML)]
  have hfib : ∀ (D : BVec → BVec) (s : BVec),
      ((allVecs m).toFinset.filter (fun e => (spanEnum m S).contains (xorV (D (synd S e)) e) = true)).filter
        (fun e => synd S e = s) =
      ((allVecs m).toFinset.filter (fun e => (spanEnum m S).contains (xorV (D s) e) = true)).filter
        (fun e => synd S e = s) := by
    intro D s
    ext e
    simp only [Finset.mem_filter]
    constructor
    · rintro ⟨⟨h1, h2⟩, h3⟩; rw [h3] at h2; exact ⟨⟨h1, h2⟩, h3⟩
    · rintro ⟨⟨h1, h2⟩, h3⟩; rw [← h3] at h2; exact ⟨⟨h1, h2⟩, h3⟩
  apply Finset.sum_le_sum
  intro s hs
  obtain ⟨e0, he0, rfl⟩ := Finset.mem_image.mp hs
  have he0l : e0.length = m := (mem_allVecs m e0).mp (List.mem_toFinset.mp he0)
  rw [hfib dec, hfib dML, fiber_sum hm hS hI hcomm d _ (hdec _), fiber_sum hm hS hI hcomm d _ (hMLlen _),
    if_pos (hMLs e0 he0l)]
  split
  · next h => have := hMLmax _ (hdec (synd S e0)); rwa [h] at this
  · exact cosetProbM_nonneg hd _ _ _

end ml

/-! ### arg-max -/

theorem exists_max_mem {α : Type} [LinearOrder α] (l : List α) (h : l ≠ []) : ∃ a ∈ l, ∀ b ∈ l, b ≤ a := by
  induction l with
  | nil => exact absurd rfl h
  | cons x t ih =>
    by_cases ht : t = []
    · subst ht; exact ⟨x, by simp, by simp⟩
    · obtain ⟨a, ha, hmax⟩ := ih ht
      rcases le_total a x with hax | hxa
      · exact ⟨x, by simp, fun b hb => by
          rcases List.mem_cons.mp hb with rfl | hb
          · exact le_refl _
          · exact (hmax b hb).trans hax⟩
      · exact ⟨a, by simp [ha], fun b hb => by
          rcases List.mem_cons.mp hb with rfl | hb
          · exact hxa
          · exact hmax b hb⟩

/-- `argMax` returns a valid index of an entry that is ≥ all entries (the first such) -/
theorem argMax_spec {α : Type} [LinearOrder α] (l : List α) (h : l ≠ []) :
    ∃ hlt : argMax l < l.length, ∀ b ∈ l, b ≤ l[argMax l] := by
  obtain ⟨a, ha, hmax⟩ := exists_max_mem l h
  have hex : ∃ x ∈ l, (fun a => l.all fun b => decide (b ≤ a)) x = true :=
    ⟨a, ha, by simpa using hmax⟩
  have hlt : argMax l < l.length := List.findIdx_lt_length_of_exists hex
  refine ⟨hlt, ?_⟩
  intro b hb
  have h1 : (l.all fun b => decide (b ≤ l[argMax l])) = true := List.findIdx_getElem (w := hlt)
  exact of_decide_eq_true (List.all_eq_true.mp h1 b hb)

/-! ### total weight, upper bound -/

section total
variable {α : Type} [CommSemiring α]

theorem sum_allVecs_succ (m : Nat) (F : BVec → α) :
    ((allVecs (m + 1)).map F).sum =
      ((allVecs m).map fun e => F (false :: e)).sum + ((allVecs m).map fun e => F (true :: e)).sum := by
  simp [allVecs, List.map_append, List.sum_append, List.map_map, Function.comp_def]

theorem sum_allVecs_split (a b : Nat) (F : BVec → BVec → α) :
    ((allVecs (a + b)).map fun e => F (e.take a) (e.drop a)).sum =
      ((allVecs a).map fun x => ((allVecs b).map fun z => F x z).sum).sum := by
  induction a generalizing F with
  | zero => simp [allVecs]
  | succ a ih =>
    have : a + 1 + b = (a + b) + 1 := by omega
    rw [this, sum_allVecs_succ, sum_allVecs_succ]
    simp only [List.take_succ_cons, List.drop_succ_cons]
    rw [ih (fun x z => F (false :: x) z), ih (fun x z => F (true :: x) z)]

theorem sum_prod_zipWith (d : Dist α) (n : Nat) :
    ((allVecs n).map fun x => ((allVecs n).map fun z => (List.zipWith d.at x z).prod).sum).sum =
      (d.pI + d.pX + d.pY + d.pZ) ^ n := by
  induction n with
  | zero => simp [allVecs]
  | succ n ih =>
    have inner : ∀ (b : Bool) (x : BVec),
        ((allVecs (n + 1)).map fun z => (List.zipWith d.at (b :: x) z).prod).sum =
          (d.at b false + d.at b true) * ((allVecs n).map fun z => (List.zipWith d.at x z).prod).sum := by
      intro b x
      rw [sum_allVecs_succ]
      simp only [List.zipWith_cons_cons, List.prod_cons, List.sum_map_mul_left]
      ring
    rw [sum_allVecs_succ]
    simp only [inner, List.sum_map_mul_left, ih]
    simp only [Dist.at]
    ring

theorem sum_weight_allVecs (d : Dist α) (n : Nat) :
    ((allVecs (2 * n)).map (weight d)).sum = (d.pI + d.pX + d.pY + d.pZ) ^ n := by
  rw [← sum_prod_zipWith d n, ← sum_allVecs_split n n (fun x z => (List.zipWith d.at x z).prod), ← Nat.two_mul]
  congr 1
  apply List.map_congr_left
  intro e he
  have hl : e.length = 2 * n := (mem_allVecs _ e).mp he
  simp [weight, xHalf, zHalf, hl]

variable [PartialOrder α] [IsOrderedRing α]

theorem cosetProbM_le_total {d : Dist α} (hd : d.Nonneg) {m : Nat} {S : List BVec} (hS : AllLen m S)
    (hI : LinIndep m S) {f : BVec} (hf : f.length = m) :
    cosetProbM m d S f ≤ ((allVecs m).map (weight d)).sum := by
  have hl := spanEnum_len hS
  have hnd : ((spanEnum m S).map (xorV f)).Nodup :=
    (List.nodup_map_iff_inj_on (spanEnum_nodup hS hI)).mpr
      (fun a ha b hb hab => xorV_inj_left hf (hl a ha) (hl b hb) hab)
  have h1 : cosetProbM m d S f = ∑ e ∈ ((spanEnum m S).map (xorV f)).toFinset, weight d e := by
    rw [List.sum_toFinset (weight d) hnd, List.map_map]; rfl
  rw [h1, ← List.sum_toFinset (weight d) (allVecs_nodup m)]
  apply Finset.sum_le_sum_of_subset_of_nonneg
  · intro e he
    obtain ⟨g, hg, rfl⟩ := List.mem_map.mp (List.mem_toFinset.mp he)
    exact List.mem_toFinset.mpr ((mem_allVecs m _).mpr (xorV_len hf (hl g hg)))
  · intro e _ _; exact weight_nonneg hd e

end total

/-! ### pure-Y noise: only the Y-only elements of a coset contribute -/

section ynoise
variable {α : Type} [CommSemiring α]

theorem prod_zipWith_eq_zero_of_ne (d : Dist α) (hX : d.pX = 0) (hZ : d.pZ = 0) :
    ∀ (xs zs : BVec), xs.length = zs.length → xs ≠ zs → (List.zipWith d.at xs zs).prod = 0 := by
  intro xs
  induction xs with
  | nil => intro zs h hne; cases zs with
    | nil => exact absurd rfl hne
    | cons _ _ => simp at h
  | cons x xs ih =>
    intro zs h hne
    cases zs with
    | nil => simp at h
    | cons z zs =>
      simp only [List.length_cons, Nat.add_right_cancel_iff] at h
      simp only [List.zipWith_cons_cons, List.prod_cons]
      by_cases hxz : x = z
      · subst hxz
        rw [ih zs h (fun hh => hne (by rw [hh])), mul_zero]
      · have : d.at x z = 0 := by
          cases x <;> cases z <;> simp_all [Dist.at]
        rw [this, zero_mul]

theorem weight_eq_zero_of_not_yOnly (d : Dist α) (hX : d.pX = 0) (hZ : d.pZ = 0) (e : BVec)
    (he : e.length % 2 = 0) (hy : yOnly e = false) : weight d e = 0 := by
  apply prod_zipWith_eq_zero_of_ne d hX hZ _ _ (halves_same_length e he)
  intro h
  simp [yOnly, h] at hy

theorem sum_filter_of_zero (w : BVec → α) (p : BVec → Bool) (l : List BVec)
    (h : ∀ e ∈ l, p e = false → w e = 0) : ((l.filter p).map w).sum = (l.map w).sum := by
  induction l with
  | nil => rfl
  | cons a l ih =>
    have ih' := ih (fun e he => h e (by simp [he]))
    cases hp : p a with
    | true => simp [hp, ih']
    | false => simp [hp, ih', h a (by simp) hp]

theorem yCosetProb_eq {m : Nat} (d : Dist α) (hX : d.pX = 0) (hZ : d.pZ = 0) (hm : m % 2 = 0) {S : List BVec}
    (hS : AllLen m S) {f : BVec} (hf : f.length = m) : yCosetProb d S f = cosetProb d S f := by
  unfold yCosetProb cosetProb
  rw [sum_filter_of_zero, List.map_map]
  · rfl
  · intro e he hy
    obtain ⟨g, hg, rfl⟩ := List.mem_map.mp he
    apply weight_eq_zero_of_not_yOnly d hX hZ _ _ hy
    rw [hf] at hg
    rw [xorV_len hf (spanEnum_len hS g hg)]; exact hm

end ynoise

/-! ### homogeneity: the driver computes with integer numerators over a common denominator -/

section scale
variable {α : Type} [CommSemiring α]

/-- all four entries multiplied by `c` -/
def Dist.scale (c : α) (d : Dist α) : Dist α := ⟨c * d.pI, c * d.pX, c * d.pY, c * d.pZ⟩

theorem Dist.scale_at (c : α) (d : Dist α) (x z : Bool) : (d.scale c).at x z = c * d.at x z := by
  cases x <;> cases z <;> rfl

theorem prod_zipWith_scale (c : α) (d : Dist α) :
    ∀ (xs zs : BVec), xs.length = zs.length →
      (List.zipWith (d.scale c).at xs zs).prod = c ^ xs.length * (List.zipWith d.at xs zs).prod := by
  intro xs
  induction xs with
  | nil => intro zs _; simp
  | cons x xs ih =>
    intro zs h
    cases zs with
    | nil => simp at h
    | cons z zs =>
      simp only [List.length_cons, Nat.add_right_cancel_iff] at h
      simp only [List.zipWith_cons_cons, List.prod_cons, List.length_cons, ih zs h, Dist.scale_at]
      ring

theorem weight_scale (c : α) (d : Dist α) (n : Nat) (e : BVec) (he : e.length = 2 * n) :
    weight (d.scale c) e = c ^ n * weight d e := by
  unfold weight
  rw [prod_zipWith_scale c d _ _ (halves_same_length e (by omega)), xHalf_length, he]
  congr 2; omega

theorem cosetProbM_scale (c : α) (d : Dist α) (n : Nat) {S : List BVec} (hS : AllLen (2 * n) S) {f : BVec}
    (hf : f.length = 2 * n) : cosetProbM (2 * n) (d.scale c) S f = c ^ n * cosetProbM (2 * n) d S f := by
  unfold cosetProbM
  rw [← List.sum_map_mul_left]
  congr 1
  apply List.map_congr_left
  intro g hg
  exact weight_scale c d n _ (xorV_len hf (spanEnum_len hS g hg))

end scale

end Qec.Coset
