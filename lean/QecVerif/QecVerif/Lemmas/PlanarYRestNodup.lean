/-
  Helper lemmas for the planar Y decoder, part 9: the 2^(gcd−1) all-Y stabilizers are pairwise distinct.
  (a) linear algebra over lists: a "triangular" list of vectors (each has a pivot coordinate on which all later ones
      vanish) has pairwise distinct sub-list products; `itertools.combinations` of a duplicate-free list is
      duplicate-free;
  (b) the pivots: the loop from `(0, 2a)` visits the site `(0, 2a − 2)` exactly once (two steps before it closes) and
      the loops from `(0, 2b)`, a < b < gcd, never visit it.
-/
import QecVerif.Lemmas.PlanarYRestYLogical
namespace Qec.PlanarYL
open Qec Qec.Planar Qec.Symp Qec.PlanarCode Qec.PlanarY

/-! ### (a) triangular lists -/

theorem getD_xorSet (m : Nat) (set : List BVec) (hs : AllLen m set) (p : Nat) :
    (xorSet m set).getD p false = xorSum set (fun v => v.getD p false) := by
  induction set with
  | nil => show (zeros m).getD p false = false; exact getD_zeros _ _
  | cons r set ih =>
    rw [xorSet_cons m r set hs.head hs.tail, getD_xorV _ _ (by rw [hs.head, xorSet_length m _ hs.tail]),
      ih hs.tail, xorSum_cons]

/-- every vector has a pivot coordinate on which all later vectors of the list vanish -/
def Tri : List BVec → Prop
  | [] => True
  | x :: xs => (∃ p, x.getD p false = true ∧ ∀ y ∈ xs, y.getD p false = false) ∧ Tri xs

theorem tri_inj (m : Nat) : ∀ xs : List BVec, AllLen m xs → Tri xs → ∀ s1 s2 : List BVec,
    s1.Sublist xs → s2.Sublist xs → xorSet m s1 = xorSet m s2 → s1 = s2 := by
  intro xs
  induction xs with
  | nil =>
    intro _ _ s1 s2 h1 h2 _
    rw [List.sublist_nil.mp h1, List.sublist_nil.mp h2]
  | cons x xs ih =>
    intro hl ht s1 s2 h1 h2 heq
    obtain ⟨⟨p, hp1, hp0⟩, htri⟩ := ht
    have bit0 : ∀ s : List BVec, s.Sublist xs → (xorSet m s).getD p false = false := by
      intro s hs
      rw [getD_xorSet m s (AllLen.sublist hs hl.tail)]
      apply xorSum_false
      intro v hv
      exact hp0 v (hs.subset hv)
    have bit1 : ∀ s : List BVec, s.Sublist xs → (xorSet m (x :: s)).getD p false = true := by
      intro s hs
      have hsl := AllLen.sublist hs hl.tail
      rw [xorSet_cons m x s hl.head hsl, getD_xorV _ _ (by rw [hl.head, xorSet_length m _ hsl]), hp1, bit0 s hs]
      rfl
    rcases List.sublist_cons_iff.mp h1 with g1 | ⟨r1, rfl, g1⟩ <;>
      rcases List.sublist_cons_iff.mp h2 with g2 | ⟨r2, rfl, g2⟩
    · exact ih hl.tail htri s1 s2 g1 g2 heq
    · exfalso
      have : (xorSet m s1).getD p false = (xorSet m (x :: r2)).getD p false := by rw [heq]
      rw [bit0 s1 g1, bit1 r2 g2] at this
      exact Bool.noConfusion this
    · exfalso
      have : (xorSet m (x :: r1)).getD p false = (xorSet m s2).getD p false := by rw [heq]
      rw [bit1 r1 g1, bit0 s2 g2] at this
      exact Bool.noConfusion this
    · have l1 := AllLen.sublist g1 hl.tail
      have l2 := AllLen.sublist g2 hl.tail
      rw [xorSet_cons m x r1 hl.head l1, xorSet_cons m x r2 hl.head l2] at heq
      have e : xorSet m r1 = xorSet m r2 := by
        have a := xorV_cancel_left x (xorSet m r1) (by rw [hl.head, xorSet_length m _ l1])
        have b := xorV_cancel_left x (xorSet m r2) (by rw [hl.head, xorSet_length m _ l2])
        rw [← a, ← b, heq]
      rw [ih hl.tail htri r1 r2 g1 g2 e]

theorem tri_nodup : ∀ xs : List BVec, Tri xs → xs.Nodup := by
  intro xs
  induction xs with
  | nil => intro _; exact List.nodup_nil
  | cons x xs ih =>
    intro ht
    obtain ⟨⟨p, hp1, hp0⟩, htri⟩ := ht
    rw [List.nodup_cons]
    refine ⟨?_, ih htri⟩
    intro hx
    have := hp0 x hx
    rw [hp1] at this
    exact Bool.noConfusion this

/-! ### `itertools.combinations` of a duplicate-free list -/

theorem length_of_mem_combinations {α : Type} (xs : List α) (k : Nat) (sub : List α)
    (h : sub ∈ Qec.combinations xs k) : sub.length = k := by
  induction xs generalizing k sub with
  | nil =>
    cases k with
    | zero => simp [Qec.combinations] at h; subst h; rfl
    | succ k => simp [Qec.combinations] at h
  | cons x xs ih =>
    cases k with
    | zero => simp [Qec.combinations] at h; subst h; rfl
    | succ k =>
      simp only [Qec.combinations, List.mem_append, List.mem_map] at h
      rcases h with ⟨t, ht, rfl⟩ | h
      · rw [List.length_cons, ih k t ht]
      · exact ih (k + 1) sub h

theorem nodup_map_on {α β : Type} (f : α → β) : ∀ l : List α, l.Nodup →
    (∀ a ∈ l, ∀ b ∈ l, f a = f b → a = b) → (l.map f).Nodup := by
  intro l
  induction l with
  | nil => intro _ _; exact List.nodup_nil
  | cons a l ih =>
    intro hn hinj
    rw [List.map_cons, List.nodup_cons]
    refine ⟨?_, ih (List.nodup_cons.mp hn).2 (fun x hx y hy => hinj x (List.mem_cons_of_mem _ hx) y
      (List.mem_cons_of_mem _ hy))⟩
    intro hmem
    rcases List.mem_map.mp hmem with ⟨b, hb, hfb⟩
    have := hinj a List.mem_cons_self b (List.mem_cons_of_mem _ hb) hfb.symm
    subst this
    exact (List.nodup_cons.mp hn).1 hb

theorem combinations_nodup {α : Type} (xs : List α) (hn : xs.Nodup) : ∀ k, (Qec.combinations xs k).Nodup := by
  induction xs with
  | nil =>
    intro k
    cases k with
    | zero => simp [Qec.combinations]
    | succ k => simp [Qec.combinations]
  | cons x xs ih =>
    intro k
    have hx := (List.nodup_cons.mp hn).1
    have hxs := (List.nodup_cons.mp hn).2
    cases k with
    | zero => simp [Qec.combinations]
    | succ k =>
      simp only [Qec.combinations]
      rw [List.nodup_append]
      refine ⟨?_, ih hxs (k + 1), ?_⟩
      · apply nodup_map_on _ _ (ih hxs k)
        intro a _ b _ hab
        exact List.tail_eq_of_cons_eq hab
      · intro a ha b hb hab
        rcases List.mem_map.mp ha with ⟨t, _, rfl⟩
        subst hab
        have := (sublist_of_mem_combinations xs (k + 1) _ hb).subset List.mem_cons_self
        exact hx this

theorem nodup_flatMap_len {α : Type} (F : Nat → List (List α)) (hF : ∀ k, (F k).Nodup)
    (hlen : ∀ k, ∀ s ∈ F k, s.length = k + 1) : ∀ l : List Nat, l.Nodup → (l.flatMap F).Nodup := by
  intro l
  induction l with
  | nil => intro _; exact List.nodup_nil
  | cons k l ih =>
    intro hn
    rw [List.flatMap_cons, List.nodup_append]
    refine ⟨hF k, ih (List.nodup_cons.mp hn).2, ?_⟩
    intro a ha b hb hab
    subst hab
    rcases List.mem_flatMap.mp hb with ⟨k', hk', hb'⟩
    have e1 := hlen k a ha
    have e2 := hlen k' a hb'
    have : k = k' := by omega
    subst this
    exact (List.nodup_cons.mp hn).1 hk'

theorem allCombinations_nodup {α : Type} (xs : List α) (hn : xs.Nodup) : (allCombinations xs).Nodup := by
  unfold allCombinations
  exact nodup_flatMap_len _ (fun k => combinations_nodup xs hn (k + 1))
    (fun k s hs => length_of_mem_combinations xs (k + 1) s hs) _ List.nodup_range

theorem ne_nil_of_mem_allCombinations {α : Type} (xs sub : List α) (h : sub ∈ allCombinations xs) : sub ≠ [] := by
  unfold allCombinations at h
  rcases List.mem_flatMap.mp h with ⟨n, _, hn⟩
  have := length_of_mem_combinations xs (n + 1) sub hn
  intro e
  rw [e] at this
  simp at this

/-- **the products of all non-empty combinations of a triangular list, followed by the zero vector, are pairwise
    distinct** -/
theorem tri_products_nodup (m : Nat) (xs : List BVec) (hl : AllLen m xs) (ht : Tri xs) :
    ((allCombinations xs).map (xorSet m) ++ [zeros m]).Nodup := by
  rw [List.nodup_append]
  refine ⟨?_, List.nodup_singleton _, ?_⟩
  · apply nodup_map_on _ _ (allCombinations_nodup xs (tri_nodup xs ht))
    intro a ha b hb hab
    exact tri_inj m xs hl ht a b (sublist_of_mem_allCombinations xs a ha) (sublist_of_mem_allCombinations xs b hb) hab
  · intro a ha b hb hab
    simp only [List.mem_singleton] at hb
    subst hb
    rcases List.mem_map.mp ha with ⟨sub, hsub, rfl⟩
    have := tri_inj m xs hl ht sub [] (sublist_of_mem_allCombinations xs sub hsub) (List.nil_sublist _) hab
    exact ne_nil_of_mem_allCombinations xs sub hsub this

/-- a list `G a, G (a+1), …` is triangular if `G i` has a pivot on which every later `G i'` vanishes -/
theorem tri_range' (G : Nat → BVec) (piv : Nat → Nat) (N : Nat) (h1 : ∀ i, i < N → (G i).getD (piv i) false = true)
    (h0 : ∀ i i', i < i' → i' < N → (G i').getD (piv i) false = false) :
    ∀ n a, a + n ≤ N → Tri ((List.range' a n).map G) := by
  intro n
  induction n with
  | zero => intro a _; exact True.intro
  | succ n ih =>
    intro a ha
    rw [List.range'_succ, List.map_cons]
    refine ⟨⟨piv a, h1 a (by omega), ?_⟩, ih (a + 1) (by omega)⟩
    intro y hy
    rcases List.mem_map.mp hy with ⟨i', hi', rfl⟩
    rw [List.mem_range'_1] at hi'
    exact h0 a i' (by omega) (by omega)

/-! ### (b) the pivots of the generators -/

theorem sub_mod_of_dvd (G N d : Nat) (hG : G ∣ N) (hN : 0 < N) (hd : 0 < d) (hdG : d ≤ G) :
    (N - d) % G = G - d := by
  obtain ⟨t, rfl⟩ := hG
  cases t with
  | zero => simp at hN
  | succ t =>
    have : G * (t + 1) - d = G * t + (G - d) := by rw [Nat.mul_succ]; omega
    rw [this, Nat.mul_add_mod, Nat.mod_eq_of_lt (by omega)]

theorem V0_zero_phase (M : Int) (hM : 0 ≤ M) (i : Nat) (h : V 0 M i = 0) :
    i % (2 * M + 4).toNat = 0 ∨ i % (2 * M + 4).toNat = (2 * M + 4).toNat - 2 := by
  have sp := V_spec 0 M (Int.le_refl _) hM i
  rw [h] at sp
  have hlt := Nat.mod_lt i (by omega : 0 < (2 * M + 4).toNat)
  generalize i % (2 * M + 4).toNat = x at *
  unfold CycValU at sp
  omega

theorem Vs_phase (s M c : Int) (hs : 0 ≤ s) (hM : s ≤ M) (hc0 : 0 ≤ c) (hc : c < s) (i : Nat) (h : V s M i = c) :
    ((i % (2 * M + 4).toNat : Nat) : Int) = 2 * M + 2 - s - c ∨
      ((i % (2 * M + 4).toNat : Nat) : Int) = 2 * M + 4 + c - s := by
  have sp := V_spec s M hs hM i
  rw [h] at sp
  have hlt := Nat.mod_lt i (by omega : 0 < (2 * M + 4).toNat)
  generalize i % (2 * M + 4).toNat = x at *
  unfold CycValU at sp
  omega

/-- a visit of the loop from `(0, 2b)` to the site `(0, 2a − 2)`, 1 ≤ a ≤ b < gcd, forces a = b and the phase two steps
    before the loop closes -/
theorem se_visit (R C : Int) (hR : 2 ≤ R) (hC : 2 ≤ C) (a b : Nat) (ha : 1 ≤ a) (hab : a ≤ b)
    (hb : b < Nat.gcd R.toNat C.toNat) (i : Nat) (hr : V 0 (maxRow R) i = 0)
    (hc : V (2 * (b : Int)) (maxCol C) i = 2 * (a : Int) - 2) :
    a = b ∧ i % (4 * R.toNat) = 4 * R.toNat - 2 ∧ i % (4 * C.toNat) = 4 * C.toNat - 2 := by
  have hgR : Nat.gcd R.toNat C.toNat ∣ R.toNat := Nat.gcd_dvd_left _ _
  have hgC : Nat.gcd R.toNat C.toNat ∣ C.toNat := Nat.gcd_dvd_right _ _
  have hgleC : Nat.gcd R.toNat C.toNat ≤ C.toNat := Nat.le_of_dvd (by omega) hgC
  have hgleR : Nat.gcd R.toNat C.toNat ≤ R.toNat := Nat.le_of_dvd (by omega) hgR
  have Mr0 : 0 ≤ maxRow R := by unfold maxRow; omega
  have hLr : (2 * maxRow R + 4).toNat = 4 * R.toNat := by unfold maxRow; omega
  have hLc : (2 * maxCol C + 4).toNat = 4 * C.toNat := by unfold maxCol; omega
  have hMc : maxCol C = 2 * C - 2 := rfl
  have p1 := V0_zero_phase (maxRow R) Mr0 i hr
  have p2 := Vs_phase (2 * (b : Int)) (maxCol C) (2 * (a : Int) - 2) (by omega) (by omega) (by omega) (by omega) i hc
  rw [hLr] at p1
  rw [hLc] at p2
  have dR : 4 * Nat.gcd R.toNat C.toNat ∣ 4 * R.toNat := Nat.mul_dvd_mul_left 4 hgR
  have dC : 4 * Nat.gcd R.toNat C.toNat ∣ 4 * C.toNat := Nat.mul_dvd_mul_left 4 hgC
  have m1 := Nat.mod_mod_of_dvd i dR
  have m2 := Nat.mod_mod_of_dvd i dC
  have r0 : 0 % (4 * Nat.gcd R.toNat C.toNat) = 0 := Nat.zero_mod _
  have r2 := sub_mod_of_dvd _ _ 2 dR (by omega) (by omega) (by omega)
  have c1 := sub_mod_of_dvd _ _ (2 * a + 2 * b) dC (by omega) (by omega) (by omega)
  have c2 := sub_mod_of_dvd _ _ (2 * (b + 1 - a)) dC (by omega) (by omega) (by omega)
  have y1 : ((i % (4 * C.toNat) : Nat) : Int) = 2 * maxCol C + 2 - 2 * (b : Int) - (2 * (a : Int) - 2) →
      i % (4 * C.toNat) = 4 * C.toNat - (2 * a + 2 * b) := by intro h; omega
  have y2 : ((i % (4 * C.toNat) : Nat) : Int) = 2 * maxCol C + 4 + (2 * (a : Int) - 2) - 2 * (b : Int) →
      i % (4 * C.toNat) = 4 * C.toNat - (2 * (b + 1 - a)) := by intro h; omega
  rcases p1 with p1 | p1 <;> rcases p2 with p2 | p2
  · have := y1 p2; rw [p1, r0] at m1; rw [this, c1] at m2; omega
  · have := y2 p2; rw [p1, r0] at m1; rw [this, c2] at m2; omega
  · have := y1 p2; rw [p1, r2] at m1; rw [this, c1] at m2; omega
  · have := y2 p2; rw [p1, r2] at m1; rw [this, c2] at m2
    have hab' : a = b := by omega
    subst hab'
    refine ⟨rfl, p1, ?_⟩
    rw [this]; omega

/-- **the pivots**: the generator from `(0, 2b)` has Y on the site `(0, 2b − 2)` and on none of the sites `(0, 2a − 2)`,
    1 ≤ a < b -/
theorem gen_pivots (R C : Int) (hR : 2 ≤ R) (hC : 2 ≤ C) (b : Nat) (hb1 : 1 ≤ b) (hb2 : b < Nat.gcd R.toNat C.toNat) :
    ∃ v, snake R C (0, 2 * (b : Int)) true true false = .ok v ∧ YGood R C v ∧
      v.getD (fl R C (0, 2 * (b : Int) - 2)) false = true ∧
      ∀ a : Nat, 1 ≤ a → a < b → v.getD (fl R C (0, 2 * (a : Int) - 2)) false = false := by
  have hgleC : Nat.gcd R.toNat C.toNat ≤ C.toNat := Nat.le_of_dvd (by omega) (Nat.gcd_dvd_right _ _)
  have Mr0 : 0 ≤ maxRow R := by unfold maxRow; omega
  have h0 : (0 : Int) ≤ 2 * (b : Int) := by omega
  have h1 : 2 * (b : Int) ≤ maxCol C := by unfold maxCol; omega
  have hLr : (2 * maxRow R + 4).toNat = 4 * R.toNat := by unfold maxRow; omega
  have hLc : (2 * maxCol C + 4).toNat = 4 * C.toNat := by unfold maxCol; omega
  rcases snake_se_spec R C hR hC b hb1 hb2 with ⟨v, hv, hgood⟩
  rcases snakeDir_se_loop_run R C hR hC b hb1 hb2 with ⟨k, hdir, e1r, e1c, e2r, e2c, hmin⟩
  have hpar : ∀ i : Nat, (V 0 (maxRow R) i + V (2 * (b : Int)) (maxCol C) i) % 2 = 0 := by
    intro i
    have x := V_parity 0 (maxRow R) (Int.le_refl _) Mr0 i
    have y := V_parity (2 * (b : Int)) (maxCol C) h0 h1 i
    omega
  have hl : AllSites ((List.range (k + 1)).map
      (fun (i : Nat) => (V 0 (maxRow R) i, V (2 * (b : Int)) (maxCol C) i))) := by
    intro rc hrc
    rcases List.mem_map.mp hrc with ⟨i, _, rfl⟩
    exact hpar i
  have hveq : v = yop R C ((List.range (k + 1)).map
      (fun (i : Nat) => (V 0 (maxRow R) i, V (2 * (b : Int)) (maxCol C) i))) := by
    have hb : inBounds R C 0 (2 * (b : Int)) = true := by rw [inBounds_iff]; unfold maxCol at h1; omega
    unfold snake at hv
    simp only [hb, Bool.not_true, Bool.false_eq_true, if_false, hdir, Bool.and_false] at hv
    exact (Except.ok.inj hv).symm
  have hbit : ∀ a : Nat, 1 ≤ a → a ≤ b → v.getD (fl R C (0, 2 * (a : Int) - 2)) false =
      xorSum (List.range (k + 1)) (fun i =>
        decide ((V 0 (maxRow R) i, V (2 * (b : Int)) (maxCol C) i) = ((0 : Int), 2 * (a : Int) - 2))) := by
    intro a ha hab
    rw [hveq, (getD_yop R C hR hC _ hl (0, 2 * (a : Int) - 2) (by simp only; omega)
      (by rw [inBounds_iff]; unfold maxCol at h1; simp only; omega)).1]
    unfold occ
    rw [xorSum_map]
  have hk1 : 1 ≤ k := by
    rcases Nat.eq_zero_or_pos k with h | h
    · subst h
      have := V_zero 0 (maxRow R) (Int.le_refl _) Mr0
      omega
    · exact h
  refine ⟨v, hv, hgood, ?_, ?_⟩
  · rw [hbit b hb1 (Nat.le_refl _)]
    have hind : ∀ i ∈ List.range (k + 1),
        decide ((V 0 (maxRow R) i, V (2 * (b : Int)) (maxCol C) i) = ((0 : Int), 2 * (b : Int) - 2)) =
          (true && decide (i = k - 1)) := by
      intro i hi
      have hi' := List.mem_range.mp hi
      rw [Bool.true_and]
      apply decide_eq_decide.mpr
      constructor
      · intro h
        have hr : V 0 (maxRow R) i = 0 := congrArg Prod.fst h
        have hc : V (2 * (b : Int)) (maxCol C) i = 2 * (b : Int) - 2 := congrArg Prod.snd h
        rcases se_visit R C hR hC b b hb1 (Nat.le_refl _) hb2 i hr hc with ⟨_, ph1, ph2⟩
        have d1 : (2 * maxRow R + 4).toNat ∣ i + 2 := by
          rw [hLr]; apply Nat.dvd_of_mod_eq_zero
          rw [Nat.add_mod, ph1, Nat.mod_eq_of_lt (by omega : 2 < 4 * R.toNat),
            show 4 * R.toNat - 2 + 2 = 4 * R.toNat by omega, Nat.mod_self]
        have d2 : (2 * maxCol C + 4).toNat ∣ i + 2 := by
          rw [hLc]; apply Nat.dvd_of_mod_eq_zero
          rw [Nat.add_mod, ph2, Nat.mod_eq_of_lt (by omega : 2 < 4 * C.toNat),
            show 4 * C.toNat - 2 + 2 = 4 * C.toNat by omega, Nat.mod_self]
        have pr := V_period 0 (maxRow R) (Int.le_refl _) Mr0 (i + 2) (by omega) d1
        have pc := V_period (2 * (b : Int)) (maxCol C) h0 h1 (i + 2) (by omega) d2
        have hst : stopAt (0, 2 * (b : Int)) true (cycUp 0 (maxRow R)) (cycUp (2 * (b : Int)) (maxCol C)) (i + 2) =
            true := by
          unfold stopAt loopAt curAt
          rw [if_neg (by omega)]
          have e1 : posAt (cycUp 0 (maxRow R)) (cycUp (2 * (b : Int)) (maxCol C)) (i + 2) =
              (0, 2 * (b : Int)) := Prod.ext pr.1 pc.1
          have e2 : posAt (cycUp 0 (maxRow R)) (cycUp (2 * (b : Int)) (maxCol C)) (i + 2 - 1) =
              backOf true (0, 2 * (b : Int)) := Prod.ext pr.2 pc.2
          rw [e1, e2, beq_some_self]
          simp
        have hge : k + 1 ≤ i + 2 := by
          by_cases hlt : i + 2 < k + 1
          · have := hmin (i + 2) hlt
            rw [hst] at this
            exact Bool.noConfusion this
          · omega
        have hne : i ≠ k := by
          intro e; subst e; omega
        omega
      · intro h
        subst h
        have tr := V_triple 0 (maxRow R) (Int.le_refl _) Mr0 (k - 1)
        have tc := V_triple (2 * (b : Int)) (maxCol C) h0 h1 (k - 1)
        rw [show k - 1 + 1 = k by omega, show k - 1 + 2 = k + 1 by omega] at tr tc
        rw [e1r, e2r] at tr
        rw [e1c, e2c] at tc
        unfold Triple at tr tc
        have hMc : maxCol C = 2 * C - 2 := rfl
        exact Prod.ext (by show V 0 (maxRow R) (k - 1) = 0; omega)
          (by show V (2 * (b : Int)) (maxCol C) (k - 1) = 2 * (b : Int) - 2; omega)
    rw [xorSum_congr _ _ _ hind, xorSum_range_pick (k + 1) (k - 1) (by omega) (fun _ => true)]
  · intro a ha hab
    rw [hbit a ha (by omega)]
    apply xorSum_false
    intro i _
    apply decide_eq_false
    intro h
    have hr : V 0 (maxRow R) i = 0 := congrArg Prod.fst h
    have hc : V (2 * (b : Int)) (maxCol C) i = 2 * (a : Int) - 2 := congrArg Prod.snd h
    have := (se_visit R C hR hC a b ha (by omega) hb2 i hr hc).1
    omega

/-- **`_y_stabilizers(code)` has no repetitions**: the 2^(gcd−1) operators are pairwise distinct -/
theorem yStabilizers_nodup (R C : Int) (hR : 2 ≤ R) (hC : 2 ≤ C) :
    ∃ ys, yStabilizers R C = .ok ys ∧ ys.Nodup := by
  have hgen : ∀ i, i < Nat.gcd R.toNat C.toNat - 1 →
      snake R C (0, 2 * ((i : Int) + 1)) true true false = .ok (genOr R C i) ∧ YGood R C (genOr R C i) ∧
      (genOr R C i).getD (fl R C (0, 2 * (i : Int))) false = true ∧
      ∀ i' : Nat, i' < i → (genOr R C i).getD (fl R C (0, 2 * (i' : Int))) false = false := by
    intro i hi
    rcases gen_pivots R C hR hC (i + 1) (by omega) (by omega) with ⟨v, hv, hy, hp1, hp0⟩
    rw [show (2 : Int) * ((i + 1 : Nat) : Int) = 2 * ((i : Int) + 1) by push_cast; rfl] at hv
    rw [genOr_eq R C i v hv]
    refine ⟨hv, hy, ?_, ?_⟩
    · rw [show (2 : Int) * (i : Int) = 2 * ((i + 1 : Nat) : Int) - 2 by push_cast; omega]; exact hp1
    · intro i' hi'
      have := hp0 (i' + 1) (by omega) (by omega)
      rw [show (2 : Int) * (i' : Int) = 2 * ((i' + 1 : Nat) : Int) - 2 by push_cast; omega]; exact this
  have hY : yGenerators R C = .ok ((List.range (Nat.gcd R.toNat C.toNat - 1)).map (genOr R C)) := by
    unfold yGenerators
    exact mapM_ok (genOr R C) _ _ (fun i hi => (hgen i (List.mem_range.mp hi)).1)
  refine ⟨_, by unfold yStabilizers; rw [hY], ?_⟩
  rw [identity_eq]
  apply tri_products_nodup
  · intro r hr
    rcases List.mem_map.mp hr with ⟨i, hi, rfl⟩
    exact (hgen i (List.mem_range.mp hi)).2.1.1.1
  · rw [List.range_eq_range']
    exact tri_range' (genOr R C) (fun i => fl R C (0, 2 * (i : Int))) (Nat.gcd R.toNat C.toNat - 1)
      (fun i hi => (hgen i hi).2.2.1) (fun i i' hii' hi' => (hgen i' hi').2.2.2 i hii') _ 0 (by omega)

end Qec.PlanarYL
