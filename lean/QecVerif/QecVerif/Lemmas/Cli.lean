/-
  Helper lemmas for C19 (command line): list scanning facts behind `splitSpec`, and the event /
  acceptance facts behind `process`.
-/
import QecVerif.Model.Cli
namespace Qec.Cli

/-! ### takeWhile / dropWhile -/

theorem takeWhile_append_stop {p : Char → Bool} : ∀ (l : List Char) (x : Char) (r : List Char),
    (∀ c ∈ l, p c = true) → p x = false → (l ++ x :: r).takeWhile p = l
  | [], x, r, _, hx => by simp [hx]
  | a :: l, x, r, h, hx => by
    have ha : p a = true := h a (by simp)
    have := takeWhile_append_stop l x r (fun c hc => h c (by simp [hc])) hx
    simp [ha, this]

theorem dropWhile_append_stop {p : Char → Bool} : ∀ (l : List Char) (x : Char) (r : List Char),
    (∀ c ∈ l, p c = true) → p x = false → (l ++ x :: r).dropWhile p = x :: r
  | [], x, r, _, hx => by simp [hx]
  | a :: l, x, r, h, hx => by
    have ha : p a = true := h a (by simp)
    have := dropWhile_append_stop l x r (fun c hc => h c (by simp [hc])) hx
    simp [ha, this]

theorem takeWhile_all {p : Char → Bool} : ∀ (l : List Char), (∀ c ∈ l, p c = true) → l.takeWhile p = l
  | [], _ => rfl
  | a :: l, h => by
    have ha : p a = true := h a (by simp)
    simp [List.takeWhile, ha, takeWhile_all l (fun c hc => h c (by simp [hc]))]

theorem dropWhile_all {p : Char → Bool} : ∀ (l : List Char), (∀ c ∈ l, p c = true) → l.dropWhile p = []
  | [], _ => rfl
  | a :: l, h => by
    have ha : p a = true := h a (by simp)
    simp [List.dropWhile, ha, dropWhile_all l (fun c hc => h c (by simp [hc]))]

theorem dropWhile_append_all {p : Char → Bool} : ∀ (w l : List Char), (∀ c ∈ w, p c = true) →
    (w ++ l).dropWhile p = l.dropWhile p
  | [], _, _ => rfl
  | a :: w, l, h => by
    have ha : p a = true := h a (by simp)
    simp [ha, dropWhile_append_all w l (fun c hc => h c (by simp [hc]))]

theorem mem_takeWhile_sat {p : Char → Bool} : ∀ (l : List Char) (c : Char), c ∈ l.takeWhile p → p c = true
  | [], c, h => by simp at h
  | a :: l, c, h => by
    by_cases ha : p a = true
    · simp only [List.takeWhile, ha] at h
      rcases List.mem_cons.mp h with rfl | h
      · exact ha
      · exact mem_takeWhile_sat l c h
    · have ha' : p a = false := by simpa using ha
      simp [List.takeWhile, ha'] at h

theorem mem_dropWhile {p : Char → Bool} : ∀ (l : List Char) (c : Char), c ∈ l.dropWhile p → c ∈ l
  | [], c, h => by simp at h
  | a :: l, c, h => by
    by_cases ha : p a = true
    · simp only [List.dropWhile, ha] at h
      exact List.mem_cons_of_mem _ (mem_dropWhile l c h)
    · have ha' : p a = false := by simpa using ha
      simpa [List.dropWhile, ha'] using h

theorem dropWhile_head_false {p : Char → Bool} (l : List Char) :
    ∀ x t, l.dropWhile p = x :: t → p x = false := by
  induction l with
  | nil => intro x t h; simp at h
  | cons a l ih =>
    intro x t h
    by_cases ha : p a = true
    · simp only [List.dropWhile, ha] at h; exact ih x t h
    · have ha' : p a = false := by simpa using ha
      simp only [List.dropWhile, ha'] at h
      cases h; exact ha'

/-! ### stripArgs -/

theorem mem_dropComma (l : List Char) (c : Char) (h : c ∈ dropComma l) : c ∈ l := by
  unfold dropComma at h
  split at h
  · exact List.mem_cons_of_mem _ h
  · exact h

/-- `dropComma l` removes `cm.reverse` for `cm = []` or `[',']` -/
theorem dropComma_decomp (l : List Char) : ∃ cm : List Char, (cm = [] ∨ cm = [',']) ∧ l = cm ++ dropComma l := by
  unfold dropComma
  split
  · exact ⟨[','], Or.inr rfl, rfl⟩
  · exact ⟨[], Or.inl rfl, rfl⟩

theorem mem_stripArgs (body : List Char) (c : Char) (h : c ∈ stripArgs body) : c ∈ body := by
  unfold stripArgs at h
  have h1 := mem_dropComma _ c (List.mem_reverse.mp h)
  have h2 := mem_dropWhile _ c h1
  exact mem_dropWhile _ c (List.mem_reverse.mp h2)

theorem stripArgs_ws_left (w l : List Char) (hw : ∀ c ∈ w, isSpace c = true) :
    stripArgs (w ++ l) = stripArgs l := by
  unfold stripArgs; rw [dropWhile_append_all w l hw]

theorem dropWhile_reverse_ws_right (l w : List Char) (hw : ∀ c ∈ w, isSpace c = true) :
    ((l ++ w).dropWhile isSpace).reverse.dropWhile isSpace = (l.dropWhile isSpace).reverse.dropWhile isSpace := by
  induction l with
  | nil =>
    simp only [List.nil_append, List.dropWhile_nil, List.reverse_nil]
    rw [dropWhile_all w hw]; rfl
  | cons a l ih =>
    by_cases ha : isSpace a = true
    · simp only [List.cons_append, List.dropWhile, ha]; exact ih
    · have ha' : isSpace a = false := by simpa using ha
      simp only [List.cons_append, List.dropWhile, ha']
      have : (a :: (l ++ w)).reverse = w.reverse ++ (a :: l).reverse := by simp
      rw [this, dropWhile_append_all _ _ (fun c hc => hw c (List.mem_reverse.mp hc))]

theorem stripArgs_ws_right (l w : List Char) (hw : ∀ c ∈ w, isSpace c = true) :
    stripArgs (l ++ w) = stripArgs l := by
  unfold stripArgs; rw [dropWhile_reverse_ws_right l w hw]

/-- text that neither starts nor ends with whitespace, followed by the optional comma, is captured as is
    (the text itself must not end with a comma when no separate comma follows) -/
theorem stripArgs_core (a : List Char) (comma : Bool)
    (hhead : ∀ x, a.head? = some x → isSpace x = false)
    (hlast : ∀ x, a.getLast? = some x → isSpace x = false ∧ (comma = false → x ≠ ',')) :
    stripArgs (a ++ (if comma then [','] else [])) = a := by
  have hcomma : isSpace ',' = false := by decide
  -- leading side: nothing to skip
  have hlead : ∀ l : List Char, (∀ x, l.head? = some x → isSpace x = false) → l.dropWhile isSpace = l := by
    intro l hl
    cases l with
    | nil => rfl
    | cons x t => simp [List.dropWhile, hl x rfl]
  cases comma with
  | true =>
    simp only [if_true]
    unfold stripArgs
    have h1 : (a ++ [',']).dropWhile isSpace = a ++ [','] := by
      apply hlead
      intro x hx
      cases a with
      | nil => simp at hx; subst hx; exact hcomma
      | cons y t => simp at hx; subst hx; exact hhead _ rfl
    rw [h1]
    simp [hcomma, dropComma]
  | false =>
    simp only [Bool.false_eq_true, if_false, List.append_nil]
    unfold stripArgs
    rw [hlead a hhead]
    -- a.reverse starts with a's last element
    rcases List.eq_nil_or_concat a with rfl | ⟨t, x, hax⟩
    · rfl
    · have ha : a = t ++ [x] := by rw [hax, List.concat_eq_append]
      subst ha
      have hx := hlast x (by simp)
      have hne : x ≠ ',' := hx.2 rfl
      have hrev : (t ++ [x]).reverse = x :: t.reverse := by simp
      rw [hrev]
      have hdw : (x :: t.reverse).dropWhile isSpace = x :: t.reverse := by simp [List.dropWhile, hx.1]
      rw [hdw]
      have : dropComma (x :: t.reverse) = x :: t.reverse := by
        unfold dropComma
        split
        · rename_i h; cases h; exact absurd rfl hne
        · rfl
      rw [this]; simp

/-- decomposition of any body around its captured text -/
theorem stripArgs_decomp (body : List Char) : ∃ w1 w2 cm : List Char,
    body = w1 ++ stripArgs body ++ cm ++ w2 ∧ (∀ c ∈ w1, isSpace c = true) ∧ (∀ c ∈ w2, isSpace c = true) ∧
    (cm = [] ∨ cm = [',']) := by
  let b1 := body.dropWhile isSpace
  let r := b1.reverse
  let b2 := r.dropWhile isSpace
  obtain ⟨cm, hcm, hb2⟩ := dropComma_decomp b2
  refine ⟨body.takeWhile isSpace, (r.takeWhile isSpace).reverse, cm.reverse, ?_, ?_, ?_, ?_⟩
  · have h1 : body = body.takeWhile isSpace ++ b1 := (List.takeWhile_append_dropWhile).symm
    have h2 : r = r.takeWhile isSpace ++ b2 := (List.takeWhile_append_dropWhile).symm
    have h3 : b1 = r.reverse := by simp [r]
    have h4 : stripArgs body = (dropComma b2).reverse := rfl
    rw [h4]
    conv => lhs; rw [h1, h3, h2, hb2]
    simp [List.append_assoc]
  · exact fun c hc => mem_takeWhile_sat _ c hc
  · exact fun c hc => mem_takeWhile_sat _ c (List.mem_reverse.mp hc)
  · rcases hcm with rfl | rfl <;> simp

/-! ### name scanning -/

theorem lparen_not_name : isNameChar '(' = false := by decide

/-- the scanner on `name(body)` -/
theorem splitSpec_call_eq (n body : List Char) (hn : n ≠ []) (hall : ∀ c ∈ n, isNameChar c = true) :
    splitSpec (n ++ '(' :: (body ++ [')'])) =
      if (stripArgs body).contains '\n' then none else some (n, some (stripArgs body)) := by
  unfold splitSpec
  rw [takeWhile_append_stop n '(' _ hall lparen_not_name, dropWhile_append_stop n '(' _ hall lparen_not_name]
  have hne : n.isEmpty = false := by cases n with
    | nil => exact absurd rfl hn
    | cons a t => rfl
  simp only [hne, Bool.false_eq_true, if_false]
  have : (body ++ [')']).reverse = ')' :: body.reverse := by simp
  simp only [this, List.reverse_reverse]

/-! ### process -/

theorem convEvents_tag (r r' : Role) (c : ConvRes) (h : Ev.ctor r ∈ convEvents r' c) :
    r = r' ∧ c.ctorCalled = true := by
  unfold convEvents at h
  rcases List.mem_append.mp h with h | h
  · split at h <;> simp at h
  · split at h
    · rename_i hc; simp at h; exact ⟨h, hc⟩
    · simp at h

theorem roleEvents_ctor (i : CmdIn) (r r' : Role) (h : Ev.ctor r ∈ roleEvents i r') :
    r = r' ∧ ∃ s, specOf i r = some s ∧ (convOf s).ctorCalled = true := by
  unfold roleEvents at h
  split at h
  · rename_i s hs
    obtain ⟨rfl, hc⟩ := convEvents_tag _ _ _ h
    exact ⟨rfl, s, hs, hc⟩
  · simp at h

theorem process_events_mem (i : CmdIn) : ∀ (order : List Role) (e : Ev),
    e ∈ (process i order).2 → ∃ r ∈ order, e ∈ roleEvents i r
  | [], e, h => by simp [process] at h
  | r :: rs, e, h => by
    unfold process at h
    split at h
    · rcases List.mem_append.mp h with h | h
      · exact ⟨r, by simp, h⟩
      · obtain ⟨r', hr', he⟩ := process_events_mem i rs e h
        exact ⟨r', by simp [hr'], he⟩
    · exact ⟨r, by simp, h⟩

theorem process_ok_iff (i : CmdIn) : ∀ (order : List Role),
    (process i order).1 = true ↔ ∀ r ∈ order, roleOk i r = true
  | [] => by simp [process]
  | r :: rs => by
    unfold process
    by_cases h : roleOk i r = true
    · simp only [h, if_true]
      rw [process_ok_iff i rs]; simp [h]
    · have h' : roleOk i r = false := by simpa using h
      simp [h']

/-! ### cmd -/

theorem cmd_of_ok {ρ} (sim : SimCall → ρ) (i : CmdIn) (order : List Role) (fs : Fs) (ser : Bool)
    (h : (process i order).1 = true) :
    cmd sim i order fs ser =
      .ran (process i order).2 (simCalls i) (writeData i.target fs ser ((simCalls i).map sim)) := by
  unfold cmd; simp [h]

theorem cmd_of_bad {ρ} (sim : SimCall → ρ) (i : CmdIn) (order : List Role) (fs : Fs) (ser : Bool)
    (h : (process i order).1 = false) : cmd sim i order fs ser = .usage (process i order).2 := by
  unfold cmd; simp [h]

theorem writeData_exit_ne_two {α} (t : Target) (fs : Fs) (ser : Bool) (p : α) : (writeData t fs ser p).exit ≠ 2 := by
  cases t <;> cases fs <;> cases ser <;> simp [writeData]

/-! ### validators -/

theorem probOk_iff (t : FloatTok) (q : Rat) : probOk t = some q ↔ t = .fin q ∧ 0 ≤ q ∧ q ≤ 1 := by
  cases t with
  | fin x =>
    unfold probOk
    by_cases h : 0 ≤ x ∧ x ≤ 1
    · simp only [h, and_self, if_true, Option.some.injEq, FloatTok.fin.injEq]
      constructor
      · rintro rfl; exact ⟨rfl, h⟩
      · exact fun h' => h'.1
    · simp only [h, if_false]
      constructor
      · intro h'; cases h'
      · rintro ⟨h1, h2⟩; cases h1; exact absurd h2 h
  | bad => simp [probOk]
  | nan => simp [probOk]
  | posInf => simp [probOk]
  | negInf => simp [probOk]

theorem intMinOk_iff (m : Int) (t : IntTok) (n : Int) : intMinOk m t = some n ↔ t = .val n ∧ m ≤ n := by
  cases t with
  | bad => simp [intMinOk]
  | val x =>
    unfold intMinOk
    by_cases h : m ≤ x
    · simp only [h, if_true, Option.some.injEq, IntTok.val.injEq]
      constructor
      · rintro rfl; exact ⟨rfl, h⟩
      · exact fun h' => h'.1
    · simp only [h, if_false]
      constructor
      · intro h'; cases h'
      · rintro ⟨h1, h2⟩; cases h1; exact absurd h2 h

end Qec.Cli
