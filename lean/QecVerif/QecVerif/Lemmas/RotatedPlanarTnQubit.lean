/-
  C10 — the rotated planar MPS decoder's tensor network: the qubit tensors at the assignment of one bit per
  stabilizer, and the final identity `exactValue (rplanarTn …) = cosetProb …` (continues
  Lemmas/RotatedPlanarTnSum.lean; same route as Lemmas/PlanarTn.lean).
-/
import QecVerif.Lemmas.RotatedPlanarTnSum
namespace Qec.RotatedPlanarTnLemmas
open Finset Qec Qec.Tensor Qec.TensorAlg Qec.TensorBridge Qec.TensorExact Qec.TensorExact.Bond Qec.Coset
open Qec.FactorGraph Qec.RotatedPlanarTn Qec.RotatedPlanarCode

/-! ### G. the qubit tensors at the assignment of one bit per stabilizer -/

/-- the bit of plaquette `q` (lattice coordinates); `false` outside the lattice -/
def Bq (R C : Int) (B : ℕ × ℕ → Bool) (q : Int × Int) : Bool :=
  decide (q ∈ RotatedPlanar.plaquetteIndices R C) && B (cellOf R C q)

/-- the assignment of the bits `B` (one per stabilizer cell) to the bonds -/
def tB (R C : Int) (B : ℕ × ℕ → Bool) : Bond → ℕ := assign (stars R C) ((cells R C).map B) (fun _ => 0)

theorem tB_in (R C : Int) (B : ℕ × ℕ → Bool) (b : Bond) (q : Int × Int)
    (hq : q ∈ RotatedPlanar.plaquetteIndices R C) (hb : b ∈ legs R C (cellOf R C q)) :
    tB R C B b = (Bq R C B q).toNat := by
  have hc : cellOf R C q ∈ cells R C := List.mem_map.mpr ⟨q, hq, rfl⟩
  unfold tB stars Bq
  rw [assign_map_mem (cells R C) (legs R C) B _ b (cellOf R C q) hc hb
    (fun p hp hbp => legs_owner _ _ p (cellOf R C q) b hbp hb ((mem_cells R C p).mp hp).2.2
      ((mem_cells R C _).mp hc).2.2)]
  simp [hq]

theorem tB_out (R C : Int) (B : ℕ × ℕ → Bool) (b : Bond) (q : Int × Int)
    (hq : q ∉ RotatedPlanar.plaquetteIndices R C) (hb : b ∉ (stars R C).flatten) :
    tB R C B b = (Bq R C B q).toNat := by
  unfold tB Bq
  rw [assign_not_mem _ _ _ _ hb]
  simp [hq]

theorem tB_bond (R C : Int) (B : ℕ × ℕ → Bool) (b : Bond) (q : Int × Int)
    (hin : PlaqIn R C q → b ∈ legs R C (cellOf R C q)) (hout : ¬ PlaqIn R C q → b ∉ (stars R C).flatten) :
    tB R C B b = (Bq R C B q).toNat := by
  by_cases hq : q ∈ RotatedPlanar.plaquetteIndices R C
  · exact tB_in R C B b q hq (hin ((mem_plaquetteIndices R C q).mp hq))
  · exact tB_out R C B b q hq (hout (fun h => hq ((mem_plaquetteIndices R C q).mpr h)))

theorem tB_vis (R C : Int) (d : Dist Int) (f : BVec) (hR : 3 ≤ R) (hC : 3 ≤ C) (B : ℕ × ℕ → Bool) :
    (∀ b ∈ gvars (N R C) (N R C), tB R C B b < TensorExact.bdim (netF (rplanarTn R C d f)) b) ∧
    (∀ b, b ∉ gvars (N R C) (N R C) → tB R C B b = 0) := by
  refine ⟨fun b hb => ?_, fun b hb => ?_⟩
  · by_cases hs : b ∈ (stars R C).flatten
    · rw [bdim_stars R C d f hR hC b hs]
      rcases assign_lt_two (stars R C) ((cells R C).map B) (fun _ => 0) b with h | h
      · unfold tB; rw [h]; exact Nat.zero_lt_two
      · exact h
    · have : tB R C B b = 0 := assign_not_mem _ _ _ _ hs
      rw [this]
      rcases bdim_gvars R C d f hR hC b hb with h | h <;> rw [h] <;> omega
  · exact assign_not_mem _ _ _ _ (fun h => hb ((mem_stars R C d f hR hC b).mp h).1)

/-- a vertical bond can only be a leg of the stabilizer cell below or above it -/
theorem star_of_v (R C : Int) (r c : ℕ) (hb : v r c ∈ (stars R C).flatten) :
    IsS R C r c ∨ IsS R C ((r : ℤ) - 1) c := by
  unfold stars at hb
  simp only [List.mem_flatten, List.mem_map, exists_exists_and_eq_and] at hb
  obtain ⟨⟨r0, c0⟩, hp, hl⟩ := hb
  have hs := ((mem_cells R C (r0, c0)).mp hp).2.2
  simp only at hs
  rcases (mem_legs _ _ r0 c0 _).mp hl with ⟨_, hh⟩ | ⟨_, hh⟩ | ⟨_, hh⟩ | ⟨_, hh⟩
  · injection hh with e1 e2; subst e1 e2; exact Or.inl hs
  · injection hh
  · injection hh with e1 e2; subst e1 e2
    right
    have : ((r0 + 1 : ℕ) : ℤ) - 1 = (r0 : ℤ) := by push_cast; omega
    rw [this]; exact hs
  · injection hh

/-- a horizontal bond can only be a leg of the stabilizer cell right or left of it -/
theorem star_of_h (R C : Int) (r c : ℕ) (hb : h r c ∈ (stars R C).flatten) :
    IsS R C r c ∨ IsS R C r ((c : ℤ) - 1) := by
  unfold stars at hb
  simp only [List.mem_flatten, List.mem_map, exists_exists_and_eq_and] at hb
  obtain ⟨⟨r0, c0⟩, hp, hl⟩ := hb
  have hs := ((mem_cells R C (r0, c0)).mp hp).2.2
  simp only at hs
  rcases (mem_legs _ _ r0 c0 _).mp hl with ⟨_, hh⟩ | ⟨_, hh⟩ | ⟨_, hh⟩ | ⟨_, hh⟩
  · injection hh
  · injection hh with e1 e2; subst e1 e2
    right
    have : ((c0 + 1 : ℕ) : ℤ) - 1 = (c0 : ℤ) := by push_cast; omega
    rw [this]; exact hs
  · injection hh
  · injection hh with e1 e2; subst e1 e2; exact Or.inl hs

theorem isQ_not_isS (R C : Int) (r c : ℤ) (hq : IsQ R C r c) : ¬ IsS R C r c := by
  intro hs; have := hq.1; have := hs.1; omega

/-- the plaquette of a stabilizer cell next to the qubit cell of the site `(x, y)` -/
theorem plaq_of_isS (R C : Int) (r c r' c' x y : ℤ) (hs : IsS R C r' c')
    (hx : 2 * x + 1 = c' - r' + (C - 1)) (hy : 2 * y + 1 = 2 * (R - 1) + (C - 1) - r' - c') :
    PlaqIn R C (x, y) := by
  have e1 : X C r' c' = x := by unfold X; omega
  have e2 : Y R C r' c' = y := by unfold Y; omega
  have := hs.2
  rwa [e1, e2] at this

/-- the four leg indices of a qubit cell are the bits of its four neighbouring plaquettes (NE, SE, SW, NW) -/
theorem tB_legs (R C : Int) (B : ℕ × ℕ → Bool) (r c : ℕ) (hq : IsQ R C r c) :
    tB R C B (v r c) = (Bq R C B (X C r c, Y R C r c)).toNat ∧
    tB R C B (h r (c + 1)) = (Bq R C B (X C r c, Y R C r c - 1)).toNat ∧
    tB R C B (v (r + 1) c) = (Bq R C B (X C r c - 1, Y R C r c - 1)).toNat ∧
    tB R C B (h r c) = (Bq R C B (X C r c - 1, Y R C r c)).toNat := by
  have hx : 2 * X C r c = (c : ℤ) - r + (C - 1) := by have := hq.1; unfold par X at *; omega
  have hy : 2 * Y R C r c = 2 * (R - 1) + (C - 1) - r - c := by have := hq.1; unfold par Y at *; omega
  have hq' := hq
  obtain ⟨_, b1, b2, b3, b4⟩ := hq
  generalize X C r c = x at *
  generalize Y R C r c = y at *
  have hocc : Occ R C r c := Or.inl hq'
  refine ⟨?_, ?_, ?_, ?_⟩
  · -- north leg: plaquette (x, y), cell (r - 1, c)
    apply tB_bond
    · intro hp
      obtain ⟨_, _, s3, _, _⟩ := cellOf_spec R C (x, y) hp
      have hr : 1 ≤ r := by unfold PlaqIn at hp; simp only at hp; omega
      obtain ⟨r', rfl⟩ : ∃ r', r = r' + 1 := ⟨r - 1, by omega⟩
      have e : cellOf R C (x, y) = (r', c) := by
        unfold cellOf; unfold PlaqIn at hp; simp only at hp ⊢
        rw [Prod.mk.injEq]; constructor <;> omega
      rw [e] at s3 ⊢
      rw [mem_legs]
      refine Or.inr (Or.inr (Or.inl ⟨(dS_ne_one R C r' c).mpr ⟨Or.inr s3, ?_⟩, rfl⟩))
      have : ((r' + 1 : ℕ) : ℤ) = (r' : ℤ) + 1 := by push_cast; rfl
      rw [← this]; exact hocc
    · intro hp hb
      rcases star_of_v R C r c hb with hs | hs
      · exact isQ_not_isS R C r c hq' hs
      · exact hp (plaq_of_isS R C r c _ _ x y hs (by omega) (by omega))
  · -- east leg: plaquette (x, y - 1), cell (r, c + 1)
    apply tB_bond
    · intro hp
      obtain ⟨_, _, s3, _, _⟩ := cellOf_spec R C (x, y - 1) hp
      have e : cellOf R C (x, y - 1) = (r, c + 1) := by
        unfold cellOf; unfold PlaqIn at hp; simp only at hp ⊢
        rw [Prod.mk.injEq]; constructor <;> omega
      rw [e] at s3 ⊢
      rw [mem_legs]
      refine Or.inr (Or.inr (Or.inr ⟨(dW_ne_one R C r (c + 1)).mpr ⟨Or.inr s3, ?_⟩, rfl⟩))
      have : ((c + 1 : ℕ) : ℤ) - 1 = (c : ℤ) := by push_cast; omega
      rw [this]; exact hocc
    · intro hp hb
      rcases star_of_h R C r (c + 1) hb with hs | hs
      · exact hp (plaq_of_isS R C r c _ _ x (y - 1) hs (by push_cast; omega) (by push_cast; omega))
      · have : ((c + 1 : ℕ) : ℤ) - 1 = (c : ℤ) := by push_cast; omega
        rw [this] at hs
        exact isQ_not_isS R C r c hq' hs
  · -- south leg: plaquette (x - 1, y - 1), cell (r + 1, c)
    apply tB_bond
    · intro hp
      obtain ⟨_, _, s3, _, _⟩ := cellOf_spec R C (x - 1, y - 1) hp
      have e : cellOf R C (x - 1, y - 1) = (r + 1, c) := by
        unfold cellOf; unfold PlaqIn at hp; simp only at hp ⊢
        rw [Prod.mk.injEq]; constructor <;> omega
      rw [e] at s3 ⊢
      rw [mem_legs]
      refine Or.inl ⟨(dN_ne_one R C (r + 1) c).mpr ⟨Or.inr s3, ?_⟩, rfl⟩
      have : ((r + 1 : ℕ) : ℤ) - 1 = (r : ℤ) := by push_cast; omega
      rw [this]; exact hocc
    · intro hp hb
      rcases star_of_v R C (r + 1) c hb with hs | hs
      · exact hp (plaq_of_isS R C r c _ _ (x - 1) (y - 1) hs (by push_cast; omega) (by push_cast; omega))
      · have : ((r + 1 : ℕ) : ℤ) - 1 = (r : ℤ) := by push_cast; omega
        rw [this] at hs
        exact isQ_not_isS R C r c hq' hs
  · -- west leg: plaquette (x - 1, y), cell (r, c - 1)
    apply tB_bond
    · intro hp
      obtain ⟨_, _, s3, _, _⟩ := cellOf_spec R C (x - 1, y) hp
      have hc : 1 ≤ c := by unfold PlaqIn at hp; simp only at hp; omega
      obtain ⟨c', rfl⟩ : ∃ c', c = c' + 1 := ⟨c - 1, by omega⟩
      have e : cellOf R C (x - 1, y) = (r, c') := by
        unfold cellOf; unfold PlaqIn at hp; simp only at hp ⊢
        rw [Prod.mk.injEq]; constructor <;> omega
      rw [e] at s3 ⊢
      rw [mem_legs]
      refine Or.inr (Or.inl ⟨(dE_ne_one R C r c').mpr ⟨Or.inr s3, ?_⟩, rfl⟩)
      have : ((c' + 1 : ℕ) : ℤ) = (c' : ℤ) + 1 := by push_cast; rfl
      rw [← this]; exact hocc
    · intro hp hb
      rcases star_of_h R C r c hb with hs | hs
      · exact isQ_not_isS R C r c hq' hs
      · exact hp (plaq_of_isS R C r c _ _ (x - 1) y hs (by omega) (by omega))

theorem opAt_eq (R C : Int) (f : BVec) (x y : Int) :
    opAt R C f x y = P1.ofBits (f.getD (fl R C (x, y)) false) (f.getD (nq R C + fl R C (x, y)) false) := rfl

/-- the qubit tensor entry selected by the bits of the four neighbouring plaquettes -/
theorem cw_qubit (R C : Int) (d : Dist Int) (f : BVec) (hR : 3 ≤ R) (hC : 3 ≤ C) (B : ℕ × ℕ → Bool) (r c : ℕ)
    (hr : r ≤ N R C) (hc : c ≤ N R C) (hq : IsQ R C r c) :
    cw (netF (rplanarTn R C d f)) (tB R C B) r c =
      if RotatedPlanar.isZPlaquette (X C r c) (Y R C r c) then
        d.at (f.getD (fl R C (X C r c, Y R C r c)) false
            ^^ (Bq R C B (X C r c, Y R C r c - 1) ^^ Bq R C B (X C r c - 1, Y R C r c)))
          (f.getD (nq R C + fl R C (X C r c, Y R C r c)) false
            ^^ (Bq R C B (X C r c, Y R C r c) ^^ Bq R C B (X C r c - 1, Y R C r c - 1)))
      else
        d.at (f.getD (fl R C (X C r c, Y R C r c)) false
            ^^ (Bq R C B (X C r c - 1, Y R C r c - 1) ^^ Bq R C B (X C r c, Y R C r c)))
          (f.getD (nq R C + fl R C (X C r c, Y R C r c)) false
            ^^ (Bq R C B (X C r c, Y R C r c - 1) ^^ Bq R C B (X C r c - 1, Y R C r c))) := by
  obtain ⟨hv1, hv0⟩ := tB_vis R C d f hR hC B
  obtain ⟨i1, i2, i3, i4⟩ := vis_inRange R C d f hR hC _ hv1 hv0 r c hr hc
  obtain ⟨l1, l2, l3, l4⟩ := tB_legs R C B r c hq
  rw [cw_occ R C d f hR hC _ r c hr hc (Or.inl hq) i1 i2 i3 i4, l1, l2, l3, l4]
  unfold nodeFn
  rw [if_pos hq.1]
  by_cases hz : RotatedPlanar.isZPlaquette (X C r c) (Y R C r c) = true
  · rw [if_pos hz, if_pos hz, PlanarTnLemmas.hNodeValue_bits, opAt_eq, PlanarTnLemmas.xBit_ofBits,
      PlanarTnLemmas.zBit_ofBits]
  · rw [if_neg hz, if_neg hz]
    unfold PlanarTn.vNodeValue
    rw [PlanarTnLemmas.hNodeValue_bits, opAt_eq, PlanarTnLemmas.xBit_ofBits, PlanarTnLemmas.zBit_ofBits]

open Qec.Symp in
theorem stabOp_bits (R C : Int) (p s : Int × Int) (hb : RotatedPlanar.inSiteBounds R C s.1 s.2 = true) :
    (stabOp R C p).getD (fl R C s) false
      = (!RotatedPlanar.isZPlaquette p.1 p.2 && occ (RotatedPlanar.plaquetteSites p.1 p.2) s) ∧
    (stabOp R C p).getD (nq R C + fl R C s) false
      = (RotatedPlanar.isZPlaquette p.1 p.2 && occ (RotatedPlanar.plaquetteSites p.1 p.2) s) := by
  unfold stabOp
  have h1 := getD_siteop_same R C (RotatedPlanar.isZPlaquette p.1 p.2) (RotatedPlanar.plaquetteSites p.1 p.2) s hb
  have h0 := getD_siteop_other R C (RotatedPlanar.isZPlaquette p.1 p.2) (RotatedPlanar.plaquetteSites p.1 p.2) s hb
  cases hz : RotatedPlanar.isZPlaquette p.1 p.2
  · rw [hz] at h1 h0
    simp only [off, Bool.false_eq_true, if_false, Nat.zero_add, Bool.not_false, if_true] at h1 h0
    rw [h1, h0]; simp
  · rw [hz] at h1 h0
    simp only [off, Bool.false_eq_true, if_false, Nat.zero_add, Bool.not_true, if_true] at h1 h0
    rw [h1, h0]; simp

open Qec.Symp in
/-- bits of `Π Sᵢ^βᵢ` at a site: the XOR of the bits of the neighbouring plaquettes of the matching type -/
theorem comb_bits (R C : Int) (B : ℕ × ℕ → Bool) (x y : ℤ) (hs : SiteIn R C x y) :
    xorSum (RotatedPlanar.plaquetteIndices R C)
        (fun p => B (cellOf R C p) && (stabOp R C p).getD (fl R C (x, y)) false)
      = (if RotatedPlanar.isZPlaquette x y then (Bq R C B (x, y - 1) ^^ Bq R C B (x - 1, y))
          else (Bq R C B (x - 1, y - 1) ^^ Bq R C B (x, y))) ∧
    xorSum (RotatedPlanar.plaquetteIndices R C)
        (fun p => B (cellOf R C p) && (stabOp R C p).getD (nq R C + fl R C (x, y)) false)
      = (if RotatedPlanar.isZPlaquette x y then (Bq R C B (x, y) ^^ Bq R C B (x - 1, y - 1))
          else (Bq R C B (x, y - 1) ^^ Bq R C B (x - 1, y))) := by
  have hb : RotatedPlanar.inSiteBounds R C (x, y).1 (x, y).2 = true := (inSiteBounds_iff R C x y).mpr hs
  have hnd := plaquetteIndices_nodup R C
  unfold Bq
  constructor
  · rw [xorSum_congr _ _ (fun p => B (cellOf R C p) &&
        (!RotatedPlanar.isZPlaquette p.1 p.2 && occ (RotatedPlanar.plaquetteSites p.1 p.2) (x, y)))
      (fun p _ => by rw [(stabOp_bits R C p (x, y) hb).1])]
    by_cases hz : RotatedPlanar.isZPlaquette x y = true
    · rw [if_pos hz]
      have hz' := (isZPlaquette_iff x y).mp hz
      apply PlanarTnLemmas.nb_sum _ hnd (fun p => B (cellOf R C p)) _ _ _ (by intro hh; injection hh; omega) _ _
        decide_eq_true_iff decide_eq_true_iff
      intro p _
      rw [occ_plaq, isZPlaquette_eq_decide, Bool.eq_iff_iff]
      simp only [Bool.and_eq_true, Bool.not_eq_true', decide_eq_false_iff_not, decide_eq_true_eq, Prod.ext_iff]
      omega
    · rw [if_neg hz]
      have hz' := (isZPlaquette_iff x y).not.mp hz
      apply PlanarTnLemmas.nb_sum _ hnd (fun p => B (cellOf R C p)) _ _ _ (by intro hh; injection hh; omega) _ _
        decide_eq_true_iff decide_eq_true_iff
      intro p _
      rw [occ_plaq, isZPlaquette_eq_decide, Bool.eq_iff_iff]
      simp only [Bool.and_eq_true, Bool.not_eq_true', decide_eq_false_iff_not, decide_eq_true_eq, Prod.ext_iff]
      omega
  · rw [xorSum_congr _ _ (fun p => B (cellOf R C p) &&
        (RotatedPlanar.isZPlaquette p.1 p.2 && occ (RotatedPlanar.plaquetteSites p.1 p.2) (x, y)))
      (fun p _ => by rw [(stabOp_bits R C p (x, y) hb).2])]
    by_cases hz : RotatedPlanar.isZPlaquette x y = true
    · rw [if_pos hz]
      have hz' := (isZPlaquette_iff x y).mp hz
      apply PlanarTnLemmas.nb_sum _ hnd (fun p => B (cellOf R C p)) _ _ _ (by intro hh; injection hh; omega) _ _
        decide_eq_true_iff decide_eq_true_iff
      intro p _
      rw [occ_plaq, isZPlaquette_eq_decide, Bool.eq_iff_iff]
      simp only [Bool.and_eq_true, decide_eq_true_eq, Prod.ext_iff]
      omega
    · rw [if_neg hz]
      have hz' := (isZPlaquette_iff x y).not.mp hz
      apply PlanarTnLemmas.nb_sum _ hnd (fun p => B (cellOf R C p)) _ _ _ (by intro hh; injection hh; omega) _ _
        decide_eq_true_iff decide_eq_true_iff
      intro p _
      rw [occ_plaq, isZPlaquette_eq_decide, Bool.eq_iff_iff]
      simp only [Bool.and_eq_true, decide_eq_true_eq, Prod.ext_iff]
      omega

/-! ### reindexing the qubit cells by the flat qubit index, and the final identity -/

theorem prod_sites (R C : Int) (hR : 3 ≤ R) (hC : 3 ≤ C) (φ : ℕ → ℤ) :
    ∏ c ∈ range (N R C + 1), ∏ r ∈ range (N R C + 1),
        (if IsQ R C r c then φ (fl R C (X C r c, Y R C r c)) else 1)
      = ∏ q ∈ range (nq R C), φ q := by
  have hN : ((N R C : ℕ) : ℤ) = R + C - 2 := by unfold N; omega
  calc ∏ c ∈ range (N R C + 1), ∏ r ∈ range (N R C + 1),
        (if IsQ R C r c then φ (fl R C (X C r c, Y R C r c)) else 1)
      = ∏ r ∈ range (N R C + 1), ∏ c ∈ range (N R C + 1),
          (if IsQ R C r c then φ (fl R C (X C r c, Y R C r c)) else 1) := prod_comm
    _ = ∏ x ∈ range (N R C + 1) ×ˢ range (N R C + 1),
          (if IsQ R C x.1 x.2 then φ (fl R C (X C x.1 x.2, Y R C x.1 x.2)) else 1) :=
        (prod_product' _ _ (fun (r c : ℕ) => if IsQ R C r c then φ (fl R C (X C r c, Y R C r c)) else 1)).symm
    _ = ∏ x ∈ (range (N R C + 1) ×ˢ range (N R C + 1)).filter (fun x => IsQ R C x.1 x.2),
          φ (fl R C (X C x.1 x.2, Y R C x.1 x.2)) := (prod_filter _ _).symm
    _ = ∏ q ∈ range (nq R C), φ q := by
        apply prod_nbij (fun x : ℕ × ℕ => fl R C (X C x.1 x.2, Y R C x.1 x.2))
        · intro x hx
          simp only [mem_filter, mem_product, mem_range] at hx
          rw [mem_range]
          exact fl_lt R C _ ((inSiteBounds_iff R C _ _).mpr hx.2.2)
        · intro x hx y hy hxy
          simp only [coe_filter, mem_product, mem_range, Set.mem_setOf_eq] at hx hy
          have := fl_inj R C (X C y.1 y.2, Y R C y.1 y.2) (X C x.1 x.2, Y R C x.1 x.2)
            ((inSiteBounds_iff R C _ _).mpr hy.2.2) ((inSiteBounds_iff R C _ _).mpr hx.2.2) hxy
          simp only [Prod.mk.injEq] at this
          have p1 := hx.2.1
          have p2 := hy.2.1
          unfold X Y par at *
          exact Prod.ext (by omega) (by omega)
        · intro q hq
          simp only [coe_range, Set.mem_Iio] at hq
          obtain ⟨x, y, hs, he⟩ := flatten_surj R C hC (q : ℤ) (by omega) (by unfold nq at hq; omega)
          have hs' := hs
          unfold SiteIn at hs
          have e1 : ((((R - 1) + (C - 1) - x - y).toNat : ℕ) : ℤ) = (R - 1) + (C - 1) - x - y := by omega
          have e2 : ((((R - 1) - y + x).toNat : ℕ) : ℤ) = (R - 1) - y + x := by omega
          have ex : X C (((R - 1) + (C - 1) - x - y).toNat : ℕ) (((R - 1) - y + x).toNat : ℕ) = x := by
            rw [e1, e2]; unfold X; omega
          have ey : Y R C (((R - 1) + (C - 1) - x - y).toNat : ℕ) (((R - 1) - y + x).toNat : ℕ) = y := by
            rw [e1, e2]; unfold Y; omega
          refine ⟨(((R - 1) + (C - 1) - x - y).toNat, ((R - 1) - y + x).toNat), ?_, ?_⟩
          · simp only [coe_filter, mem_product, mem_range, Set.mem_setOf_eq]
            refine ⟨⟨by omega, by omega⟩, ?_, ?_⟩
            · rw [e1, e2]; unfold par; omega
            · rw [ex, ey]; exact hs
          · show fl R C (X C _ _, Y R C _ _) = q
            rw [ex, ey]
            unfold fl
            simp only
            rw [he]
            simp
        · intro x _; rfl

/-- **every qubit tensor entry indexed by the bits of the adjacent stabilizers is `dist((f · Π Sᵢ^βᵢ)_q)`**, hence the
    product of the qubit tensors at the assignment of the bits `β` is the probability of `f · Π Sᵢ^βᵢ` -/
theorem qubitProd_assign (R C : Int) (d : Dist Int) (f : BVec) (hR : 3 ≤ R) (hC : 3 ≤ C)
    (hf : f.length = 2 * nq R C) (β : List Bool) (hβ : β.length = (RotatedPlanar.stabilizers R C).length) :
    qubitProd R C d f (assign (stars R C) β (fun _ => 0))
      = weight d (xorV f (Coset.xorComb f.length β (RotatedPlanar.stabilizers R C))) := by
  have hlenc : β.length = (cells R C).length := by
    rw [hβ, stabilizers_eq_map]; unfold cells; simp
  obtain ⟨B, hB⟩ := exists_map_eq (cells R C) (cells_nodup R C) β hlenc
  subst hB
  have hlenS : Symp.AllLen (2 * nq R C) ((RotatedPlanar.plaquetteIndices R C).map (stabOp R C)) := by
    intro g hg
    obtain ⟨p, _, rfl⟩ := List.mem_map.mp hg
    exact stabOp_length R C p
  have hcomb : Coset.xorComb f.length ((cells R C).map B) (RotatedPlanar.stabilizers R C)
      = Symp.xorComb (2 * nq R C) ((RotatedPlanar.plaquetteIndices R C).map fun p => B (cellOf R C p))
          ((RotatedPlanar.plaquetteIndices R C).map (stabOp R C)) := by
    rw [PlanarTnLemmas.xorComb_eq, hf, stabilizers_eq_map]
    unfold cells
    rw [List.map_map]
    rfl
  rw [hcomb]
  have hcl := Symp.xorComb_length (2 * nq R C)
    ((RotatedPlanar.plaquetteIndices R C).map fun p => B (cellOf R C p)) _ hlenS
  rw [weight_eq_prod d (nq R C) _ (xorV_len hf hcl), ← prod_sites R C hR hC]
  unfold qubitProd
  obtain ⟨hv1, hv0⟩ := tB_vis R C d f hR hC B
  apply prod_congr rfl; intro c hc
  apply prod_congr rfl; intro r hr
  have hc := Nat.lt_succ_iff.mp (mem_range.mp hc)
  have hr := Nat.lt_succ_iff.mp (mem_range.mp hr)
  by_cases hs : IsS R C r c
  · rw [if_pos hs, if_neg (fun hq => isQ_not_isS R C r c hq hs)]
  · rw [if_neg hs]
    by_cases hq : IsQ R C r c
    · rw [if_pos hq]
      have hcw := cw_qubit R C d f hR hC B r c hr hc hq
      unfold tB at hcw
      have hsite : SiteIn R C (X C r c) (Y R C r c) := hq.2
      rw [hcw, Symp.getD_xorV _ _ (hf.trans hcl.symm), Symp.getD_xorV _ _ (hf.trans hcl.symm),
        Symp.getD_xorComb_map _ _ _ _ (fun p _ => stabOp_length R C p),
        Symp.getD_xorComb_map _ _ _ _ (fun p _ => stabOp_length R C p),
        (comb_bits R C B _ _ hsite).1, (comb_bits R C B _ _ hsite).2]
      split_ifs <;> rfl
    · rw [if_neg hq]
      obtain ⟨i1, i2, i3, i4⟩ := vis_inRange R C d f hR hC _ hv1 hv0 r c hr hc
      exact cw_none R C d f hR hC _ r c hr hc (fun ho => ho.elim hq hs) i1 i2 i3 i4

/-- **the rotated planar network contracts to the coset probability** (as `exactValue`, the literal index sum) -/
theorem exactValue_rplanarTn_eq_cosetProb (R C : Int) (d : Dist Int) (f : BVec) (hR : 3 ≤ R) (hC : 3 ≤ C)
    (hf : f.length = 2 * (RotatedPlanar.nQubits R C).toNat) :
    exactValue (rplanarTn R C d f) = some (cosetProb d (RotatedPlanar.stabilizers R C) f) := by
  rw [exactValue_rplanarTn R C d f hR hC]
  congr 1
  apply sumB_eq_span f.length (stars R C) (RotatedPlanar.stabilizers R C) _ (qubitProd R C d f)
    (fun g => weight d (xorV f g)) (fun _ => 0)
  · intro β hβ
    exact qubitProd_assign R C d f hR hC hf β hβ
  · rw [stabilizers_eq_map]; unfold stars cells; simp

end Qec.RotatedPlanarTnLemmas
