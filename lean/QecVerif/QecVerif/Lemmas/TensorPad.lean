/-
  Helper lemmas for property C11: `None`-padded columns.  A `None` site behaves as the scalar tensor 1 of shape
  (1,1,1,1) (`contract_pairwise` passes the partner through, `contract_ladder` skips leading/trailing `None`s), so
  the executed contraction of a padded network is represented by the same function-level sweeps as the network
  with every `None` replaced by that tensor (`netF`), provided the swept result has its tensors in one contiguous
  run (the domain of `contract_ladder`).
-/
import QecVerif.Lemmas.TensorExact

namespace Qec.TensorPad
open Qec.Tensor Qec.TensorAlg Qec.TensorBridge Qec.TensorExact Finset

/-- function-level view of the scalar tensor 1 -/
def oneF : F4 ℤ := toF T4.one

theorem oneF_val : oneF.f 0 0 0 0 = 1 := by decide

/-- a site (tensor or `None`) represented by `A`; `None` is the scalar tensor 1 -/
def RepS' (s : Site) (A : F4 ℤ) : Prop := Eqv (toF (siteT s)) A

def RepL' (m : MPS) (L : List (F4 ℤ)) : Prop := List.Forall₂ RepS' m L

/-! ### the scalar tensor 1 is a unit of `hcomp` and `vcomp` up to in-range agreement -/

theorem hcomp_one_left (B : F4 ℤ) (hw : B.w = 1) : Eqv B (hcomp oneF B) := by
  refine ⟨(Nat.one_mul _).symm, rfl, (Nat.one_mul _).symm, hw, ?_⟩
  intro i j k l hi hj hk hl
  obtain rfl : l = 0 := by omega
  show B.f i j k 0 = ∑ x ∈ range 1, oneF.f (i / B.n) x (k / B.s) 0 * B.f (i % B.n) j (k % B.s) x
  rw [sum_range_one, Nat.div_eq_of_lt hi, Nat.div_eq_of_lt hk, Nat.mod_eq_of_lt hi, Nat.mod_eq_of_lt hk,
    oneF_val, one_mul]

theorem hcomp_one_right (A : F4 ℤ) (he : A.e = 1) : Eqv A (hcomp A oneF) := by
  refine ⟨(Nat.mul_one _).symm, he, (Nat.mul_one _).symm, rfl, ?_⟩
  intro i j k l hi hj hk hl
  obtain rfl : j = 0 := by omega
  show A.f i 0 k l = ∑ x ∈ range A.e, A.f (i / 1) x (k / 1) l * oneF.f (i % 1) 0 (k % 1) x
  rw [he, sum_range_one, Nat.div_one, Nat.div_one, Nat.mod_one, Nat.mod_one, oneF_val, mul_one]

theorem vcomp_one_left (B : F4 ℤ) (hn : B.n = 1) : Eqv B (vcomp oneF B) := by
  refine ⟨hn, (Nat.one_mul _).symm, rfl, (Nat.one_mul _).symm, ?_⟩
  intro i j k l hi hj hk hl
  obtain rfl : i = 0 := by omega
  show B.f 0 j k l = ∑ x ∈ range 1, oneF.f 0 (j / B.e) x (l / B.w) * B.f x (j % B.e) k (l % B.w)
  rw [sum_range_one, Nat.div_eq_of_lt hj, Nat.div_eq_of_lt hl, Nat.mod_eq_of_lt hj, Nat.mod_eq_of_lt hl,
    oneF_val, one_mul]

theorem vcomp_one_right (A : F4 ℤ) (hs : A.s = 1) : Eqv A (vcomp A oneF) := by
  refine ⟨rfl, (Nat.mul_one _).symm, hs, (Nat.mul_one _).symm, ?_⟩
  intro i j k l hi hj hk hl
  obtain rfl : k = 0 := by omega
  show A.f i j 0 l = ∑ x ∈ range A.s, A.f i (j / 1) x (l / 1) * oneF.f x (j % 1) 0 (l % 1)
  rw [hs, sum_range_one, Nat.div_one, Nat.div_one, Nat.mod_one, Nat.mod_one, oneF_val, mul_one]

/-! ### pairwise contraction with `None` sites -/

theorem zipSites_rep' (m1 m2 : MPS) (L1 L2 : List (F4 ℤ)) (h1 : RepL' m1 L1) (h2 : RepL' m2 L2)
    (hm : L1.map (·.e) = L2.map (·.w)) :
    ∃ m, zipSites m1 m2 = .ok m ∧ RepL' m (hzip L1 L2) ∧
      m.map Option.isSome = List.zipWith (· || ·) (m1.map Option.isSome) (m2.map Option.isSome) := by
  induction h1 generalizing m2 L2 with
  | nil =>
    cases h2 with
    | nil => exact ⟨[], rfl, List.Forall₂.nil, rfl⟩
    | cons _ _ => simp at hm
  | @cons s1 A1 ms1 Ls1 hs1 _ ih =>
    cases h2 with
    | nil => simp at hm
    | @cons s2 A2 ms2 Ls2 hs2 hr2 =>
      simp only [List.map_cons, List.cons.injEq] at hm
      obtain ⟨m, hmz, hrep, hpres⟩ := ih ms2 Ls2 hr2 hm.2
      have hew : A1.e = A2.w := hm.1
      cases s1 with
      | none =>
        have e1 : Eqv oneF A1 := hs1
        have hone : (1 : ℕ) = A1.e := e1.e
        refine ⟨s2 :: m, ?_, List.Forall₂.cons ?_ hrep, ?_⟩
        · simp only [zipSites, cellSite, hmz, bind, Except.bind, pure, Except.pure]
        · have e2 : Eqv (toF (siteT s2)) A2 := hs2
          have hw : (toF (siteT s2)).w = 1 := by rw [e2.w]; omega
          exact (hcomp_one_left _ hw).trans (hcomp_congr e1 e2 (by show 1 = _; omega))
        · simp [hpres]
      | some t1 =>
        have e1 : Eqv (toF t1) A1 := hs1
        cases s2 with
        | none =>
          have e2 : Eqv oneF A2 := hs2
          have hone : (1 : ℕ) = A2.w := e2.w
          refine ⟨some t1 :: m, ?_, List.Forall₂.cons ?_ hrep, ?_⟩
          · simp only [zipSites, cellSite, hmz, bind, Except.bind, pure, Except.pure]
          · have he : (toF t1).e = 1 := by rw [e1.e]; omega
            exact (hcomp_one_right _ he).trans (hcomp_congr e1 e2 (by show _ = 1; exact he))
          · simp [hpres]
        | some t2 =>
          have e2 : Eqv (toF t2) A2 := hs2
          have hew' : t1.e = t2.w := by
            have := e1.e; have := e2.w; simp only [toF] at *; omega
          obtain ⟨t, ht, et⟩ := cell_bridge t1 t2 hew'
          refine ⟨some t :: m, ?_, List.Forall₂.cons (et.trans (hcomp_congr e1 e2 hew')) hrep, ?_⟩
          · simp only [zipSites, cellSite, ht, hmz, bind, Except.bind, pure, Except.pure]
          · simp [hpres]

theorem contractPairwise_rep' (m1 m2 : MPS) (L1 L2 : List (F4 ℤ)) (h1 : RepL' m1 L1) (h2 : RepL' m2 L2)
    (hm : L1.map (·.e) = L2.map (·.w)) :
    ∃ m, contractPairwise m1 m2 = .ok m ∧ RepL' m (hzip L1 L2) ∧
      m.map Option.isSome = List.zipWith (· || ·) (m1.map Option.isSome) (m2.map Option.isSome) := by
  obtain ⟨m, hz, hr, hp⟩ := zipSites_rep' m1 m2 L1 L2 h1 h2 hm
  refine ⟨m, ?_, hr, hp⟩
  have hl : m1.length = m2.length := by
    rw [h1.length_eq, h2.length_eq]; exact length_eq_of_map_eq hm
  simp only [contractPairwise, hl, ne_eq, not_true_eq_false, if_false, hz]

/-! ### `contract_ladder` with leading / trailing `None`s -/

/-- presence patterns (on `m.map Option.isSome`) -/
def AllFalse : List Bool → Prop
  | [] => True
  | false :: l => AllFalse l
  | true :: _ => False

/-- `true … true false … false` -/
def TailOKb : List Bool → Prop
  | [] => True
  | true :: l => TailOKb l
  | false :: l => AllFalse l

/-- `false … false true … true false … false` with at least one `true`: the tensors form one contiguous run -/
def PadOKb : List Bool → Prop
  | [] => False
  | false :: l => PadOKb l
  | true :: l => TailOKb l

theorem aux_shift (m : MPS) (i : ℕ) (st sp : Option ℕ) :
    startStopAux m (i + 1) (st.map (· + 1)) (sp.map (· + 1))
      = (startStopAux m i st sp).map fun p => (p.1.map (· + 1), p.2.map (· + 1)) := by
  induction m generalizing i st sp with
  | nil => rfl
  | cons t rest ih =>
    cases st with
    | none =>
      cases t with
      | none =>
        simp only [startStopAux, Option.map_none, Option.isSome_none, Bool.false_eq_true, if_false]
        exact ih (i + 1) none sp
      | some u =>
        simp only [startStopAux, Option.map_none, Option.isSome_some, if_true]
        exact ih (i + 1) (some i) sp
    | some a =>
      cases sp with
      | none =>
        cases t with
        | none =>
          simp only [startStopAux, Option.map_some, Option.map_none, Option.isNone_none, if_true]
          exact ih (i + 1) (some a) (some i)
        | some u =>
          simp only [startStopAux, Option.map_some, Option.map_none, Option.isNone_some, Bool.false_eq_true,
            if_false]
          exact ih (i + 1) (some a) none
      | some b =>
        cases t with
        | none =>
          simp only [startStopAux, Option.map_some, Option.isSome_none, Bool.false_eq_true, if_false]
          exact ih (i + 1) (some a) (some b)
        | some u =>
          simp only [startStopAux, Option.map_some, Option.isSome_some, if_true]
          rfl

/-- a leading `None` is skipped by `contract_ladder` -/
theorem contractLadder_cons_none (m : MPS) : contractLadder (none :: m) = contractLadder m := by
  have hs := aux_shift m 0 none none
  simp only [Option.map_none, Nat.zero_add] at hs
  simp only [contractLadder, startStop, startStopAux, Option.isSome_none, Bool.false_eq_true, if_false,
    Nat.zero_add, hs]
  cases startStopAux m 0 none none with
  | error e => rfl
  | ok p =>
    obtain ⟨st, sp⟩ := p
    cases st with
    | none => rfl
    | some a =>
      cases sp with
      | none => simp [Except.map, bind, Except.bind, pure, Except.pure]
      | some b => simp [Except.map, bind, Except.bind, pure, Except.pure]

theorem aux_allnone (m : MPS) (h : AllFalse (m.map Option.isSome)) (i a b : ℕ) :
    startStopAux m i (some a) (some b) = .ok (some a, some b) := by
  induction m generalizing i with
  | nil => rfl
  | cons t rest ih =>
    cases t with
    | some u => simp [AllFalse] at h
    | none =>
      simp only [List.map_cons, Option.isSome_none, AllFalse] at h
      simp only [startStopAux, Option.isSome_none, Bool.false_eq_true, if_false]
      exact ih h _

theorem foldl_vcomp_congr (ts : List (F4 ℤ)) (X X' : F4 ℤ) (h : Eqv X X') (hc : VChain X ts) :
    Eqv (ts.foldl vcomp X) (ts.foldl vcomp X') := by
  induction ts generalizing X X' with
  | nil => exact h
  | cons T ts ih =>
    simp only [List.foldl_cons]
    refine ih _ _ (vcomp_congr h (Eqv.refl T) hc.1) ?_
    cases ts with
    | nil => trivial
    | cons b bs => exact ⟨hc.2.1, hc.2.2⟩

theorem vchain_step (v A : F4 ℤ) (ts : List (F4 ℤ)) (hc : VChain v (A :: ts)) : VChain (vcomp v A) ts := by
  cases ts with
  | nil => trivial
  | cons b bs => exact ⟨hc.2.1, hc.2.2⟩

/-- trailing `None`s contribute nothing to the ladder -/
theorem foldl_ones (ms : MPS) (ts : List (F4 ℤ)) (h : RepL' ms ts) (hn : AllFalse (ms.map Option.isSome))
    (v : F4 ℤ) (hc : VChain v ts) : Eqv v (ts.foldl vcomp v) := by
  induction h generalizing v with
  | nil => exact Eqv.refl _
  | @cons s A ms' ts' hs _ ih =>
    cases s with
    | some u => simp [AllFalse] at hn
    | none =>
      simp only [List.map_cons, Option.isSome_none, AllFalse] at hn
      have e1 : Eqv oneF A := hs
      have hs1 : v.s = 1 := by have := hc.1; have : (1 : ℕ) = A.n := e1.n; omega
      simp only [List.foldl_cons]
      exact ((vcomp_one_right v hs1).trans (vcomp_congr (Eqv.refl v) e1 (by show v.s = 1; exact hs1))).trans
        (ih hn _ (vchain_step v A ts' hc))

/-- the run of tensors after the first one, followed by `None`s only -/
theorem tail_rep (t0 : T4) (v : F4 ℤ) (ms : MPS) (ts : List (F4 ℤ)) (h0 : Eqv (toF t0) v) (h : RepL' ms ts)
    (hc : VChain v ts) (ht : TailOKb (ms.map Option.isSome)) :
    ∃ t k, k ≤ ms.length ∧ ladderFold t0 (ms.take k) = .ok t ∧ Eqv (toF t) (ts.foldl vcomp v) ∧
      ∀ i a, startStopAux ms i (some a) none = .ok (some a, if k = ms.length then none else some (i + k)) := by
  induction h generalizing t0 v with
  | nil => exact ⟨t0, 0, le_refl _, rfl, h0, fun i a => rfl⟩
  | @cons s A ms' ts' hs hr ih =>
    cases s with
    | some t1 =>
      simp only [List.map_cons, Option.isSome_some, TailOKb] at ht
      have e1 : Eqv (toF t1) A := hs
      have hsn : t0.s = t1.n := by
        have := h0.s; have := e1.n; have := hc.1; simp only [toF] at *; omega
      obtain ⟨u, hu, eu⟩ := ladderStep_bridge t0 t1 hsn
      obtain ⟨t, k, hk, hf, et, hss⟩ := ih u (vcomp v A) (eu.trans (vcomp_congr h0 e1 hsn)) (vchain_step v A ts' hc) ht
      refine ⟨t, k + 1, by simpa using hk, ?_, et, ?_⟩
      · simp only [List.take_succ_cons, ladderFold, hu, bind, Except.bind, hf]
      · intro i a
        simp only [startStopAux, Option.isNone_some, Bool.false_eq_true, if_false, hss, List.length_cons,
          Nat.add_right_cancel_iff]
        congr 2
        split <;> simp <;> omega
    | none =>
      simp only [List.map_cons, Option.isSome_none, TailOKb] at ht
      refine ⟨t0, 0, Nat.zero_le _, rfl, ?_, ?_⟩
      · exact h0.trans (foldl_ones (none :: ms') (A :: ts') (List.Forall₂.cons hs hr)
          (by simpa [AllFalse] using ht) v hc)
      · intro i a
        simp only [startStopAux, Option.isNone_none, if_true, aux_allnone ms' ht, List.length_cons, Nat.add_zero]
        simp

/-- ladder of a column given as a non-empty list -/
def ladderL : List (F4 ℤ) → F4 ℤ
  | [] => oneF
  | A :: ts => ts.foldl vcomp A

def VChainL : List (F4 ℤ) → Prop
  | [] => True
  | A :: ts => VChain A ts

/-- **`contract_ladder` on a padded column**: if the tensors form one contiguous run, the result agrees with the
    ladder of the represented column (where every `None` is the scalar tensor 1) -/
theorem contractLadder_rep' (m : MPS) (L : List (F4 ℤ)) (h : RepL' m L) (hc : VChainL L)
    (hp : PadOKb (m.map Option.isSome)) : ∃ t, contractLadder m = .ok t ∧ Eqv (toF t) (ladderL L) := by
  induction h with
  | nil => simp [PadOKb] at hp
  | @cons s A ms ts hs hr ih =>
    cases s with
    | none =>
      simp only [List.map_cons, Option.isSome_none, PadOKb] at hp
      have e1 : Eqv oneF A := hs
      cases hr with
      | nil => simp [PadOKb] at hp
      | @cons s2 B ms2 ts2 hs2 hr2 =>
        obtain ⟨t, ht, et⟩ := ih hc.2 hp
        refine ⟨t, by rw [contractLadder_cons_none]; exact ht, et.trans ?_⟩
        show Eqv (ts2.foldl vcomp B) (ts2.foldl vcomp (vcomp A B))
        have hBn : B.n = 1 := by have := hc.1; have : (1 : ℕ) = A.s := e1.s; omega
        exact foldl_vcomp_congr ts2 _ _
          ((vcomp_one_left B hBn).trans (vcomp_congr e1 (Eqv.refl B) (by show 1 = B.n; omega))) hc.2
    | some t0 =>
      simp only [List.map_cons, Option.isSome_some, PadOKb] at hp
      have e0 : Eqv (toF t0) A := hs
      obtain ⟨t, k, hk, hf, et, hss⟩ := tail_rep t0 A ms ts e0 hr hc hp
      refine ⟨t, ?_, et⟩
      have hstart : startStop (some t0 :: ms) = .ok (0, k + 1) := by
        simp only [startStop, startStopAux, Option.isSome_some, if_true, Nat.zero_add, hss, bind, Except.bind,
          pure, Except.pure, List.length_cons]
        split
        · rename_i hkk; simp [hkk]
        · simp [Nat.add_comm]
      simp only [contractLadder, hstart, bind, Except.bind, List.take_succ_cons, List.drop_zero, hf]

/-! ### the column loop on a padded network -/

theorem sweep_lr_rep' (full : Bool) (cols : List (MPS × Option (List Bool))) (Cs : List (Col ℤ))
    (hcols : List.Forall₂ (fun p C => RepL' p.1 (C.1 :: C.2)) cols Cs)
    (res : MPS) (mult : ℤ) (acc : Col ℤ) (h0 : RepL' res (acc.1 :: acc.2)) (hm : LRFull acc Cs) :
    ∃ res', sweep true none false full (res, mult) cols = .ok (res', mult) ∧
      RepL' res' ((lrSweep acc Cs).1 :: (lrSweep acc Cs).2) ∧
      res'.map Option.isSome
        = (cols.map fun p => p.1.map Option.isSome).foldl (List.zipWith (· || ·)) (res.map Option.isSome) := by
  induction hcols generalizing res acc with
  | nil => exact ⟨res, rfl, h0, rfl⟩
  | @cons p d ps ds hp _ ih =>
    obtain ⟨mps, msk⟩ := p
    obtain ⟨hm1, hm2⟩ := hm
    obtain ⟨m, hmz, hrep, hpres⟩ := contractPairwise_rep' res mps _ _ h0 hp hm1
    have hl : (acc.1 :: acc.2).length = (d.1 :: d.2).length := length_eq_of_map_eq hm1
    have he := hzip_map_e (acc.1 :: acc.2) (d.1 :: d.2) hl
    obtain ⟨res', hs, hr, hpr⟩ := ih m (hzipCol acc d) hrep (lrfull_congr d _ ds he.symm hm2)
    refine ⟨res', ?_, hr, ?_⟩
    · simp only [sweep, pairStep, if_true, hmz, truncStep_none, hs]
    · rw [hpr, hpres]; rfl

theorem sweep_rl_rep' (full : Bool) (cols : List (MPS × Option (List Bool))) (Cs : List (Col ℤ))
    (hcols : List.Forall₂ (fun p C => RepL' p.1 (C.1 :: C.2)) cols Cs)
    (res : MPS) (mult : ℤ) (acc : Col ℤ) (h0 : RepL' res (acc.1 :: acc.2)) (hm : RLFull acc Cs) :
    ∃ res', sweep false none false full (res, mult) cols = .ok (res', mult) ∧
      RepL' res' ((rlSweep acc Cs).1 :: (rlSweep acc Cs).2) ∧
      res'.map Option.isSome
        = (cols.map fun p => p.1.map Option.isSome).foldl (List.zipWith (· || ·)) (res.map Option.isSome) := by
  induction hcols generalizing res acc with
  | nil => exact ⟨res, rfl, h0, rfl⟩
  | @cons p d ps ds hp _ ih =>
    obtain ⟨mps, msk⟩ := p
    obtain ⟨hm1, hm2⟩ := hm
    obtain ⟨m, hmz, hrep, hpres⟩ := contractPairwise_rep' mps res _ _ hp h0 hm1
    have hl : (d.1 :: d.2).length = (acc.1 :: acc.2).length := length_eq_of_map_eq hm1
    have he := hzip_map_w (d.1 :: d.2) (acc.1 :: acc.2) hl
    obtain ⟨res', hs, hr, hpr⟩ := ih m (hzipCol d acc) hrep (rlfull_congr d _ ds he.symm hm2)
    refine ⟨res', ?_, hr, ?_⟩
    · simp only [sweep, pairStep, Bool.false_eq_true, if_false, hmz, truncStep_none, hs]
    · rw [hpr, hpres, List.zipWith_comm]
      simp only [List.map_cons, List.foldl_cons]
      congr 2
      funext a b
      exact Bool.or_comm b a

theorem col_rep' (tn : Net) (m : ℕ) (hr : tn.nrows = m + 1) (c : ℕ) :
    RepL' (tn.col c) ((gcol (netF tn) m c).1 :: (gcol (netF tn) m c).2) := by
  have h : ∀ l : List ℕ, RepL' (l.map fun r => tn.site r c) (l.map fun r => netF tn r c) := by
    intro l
    induction l with
    | nil => exact List.Forall₂.nil
    | cons a l ih => exact List.Forall₂.cons (Eqv.refl _) ih
  have := h (List.range (m + 1))
  unfold Net.col
  rw [hr]
  rw [show (List.range (m + 1)).map (fun r => netF tn r c) = (gcol (netF tn) m c).1 :: (gcol (netF tn) m c).2 by
    rw [List.range_succ_eq_map, List.map_cons, List.map_map]; rfl] at this
  exact this

theorem forall2_cols' (tn : Net) (m : ℕ) (hr : tn.nrows = m + 1) (l : List ℕ) :
    List.Forall₂ (fun (p : MPS × Option (List Bool)) (C : Col ℤ) => RepL' p.1 (C.1 :: C.2))
      (l.map fun c => (tn.col c, (none : Option (List Bool)))) (l.map (gcol (netF tn) m)) := by
  induction l with
  | nil => exact List.Forall₂.nil
  | cons a l ih => exact List.Forall₂.cons (col_rep' tn m hr a) ih

/-- presence of the swept result: row `r` holds a tensor iff some visited column has one in row `r` -/
theorem foldl_or (R : ℕ) (f : ℕ → Bool) (P : ℕ → ℕ → Bool) (cs : List ℕ) :
    (cs.map fun c => (List.range R).map fun r => P r c).foldl (List.zipWith (· || ·)) ((List.range R).map f)
      = (List.range R).map fun r => f r || cs.any (P r) := by
  induction cs generalizing f with
  | nil => simp
  | cons c cs ih =>
    simp only [List.map_cons, List.foldl_cons, List.zipWith_map_left, List.zipWith_map_right, List.zipWith_self]
    rw [ih]
    apply List.map_congr_left
    intro r _
    simp [Bool.or_assoc]

theorem allFalse_range' (φ : ℕ → Bool) (k s : ℕ) (h : ∀ r, s ≤ r → r < s + k → φ r = false) :
    AllFalse ((List.range' s k).map φ) := by
  induction k generalizing s with
  | zero => trivial
  | succ k ih =>
    simp only [List.range'_succ, List.map_cons, h s (le_refl _) (by omega), AllFalse]
    exact ih (s + 1) fun r h1 h2 => h r (by omega) (by omega)

theorem tailOK_range' (φ : ℕ → Bool) (lo hi k s : ℕ)
    (hφ : ∀ r, s ≤ r → r < s + k → (φ r = true ↔ lo ≤ r ∧ r < hi)) (hs : lo ≤ s) :
    TailOKb ((List.range' s k).map φ) := by
  induction k generalizing s with
  | zero => trivial
  | succ k ih =>
    cases hφs : φ s with
    | true =>
      simp only [List.range'_succ, List.map_cons, hφs, TailOKb]
      exact ih (s + 1) (fun r h1 h2 => hφ r (by omega) (by omega)) (by omega)
    | false =>
      simp only [List.range'_succ, List.map_cons, hφs, TailOKb]
      apply allFalse_range'
      intro r h1 h2
      have h0 := hφ s (le_refl _) (by omega)
      have hr := hφ r (by omega) (by omega)
      rw [hφs] at h0
      have : ¬ (lo ≤ r ∧ r < hi) := by
        have : ¬ (lo ≤ s ∧ s < hi) := fun hh => by simpa using h0.mpr hh
        omega
      cases hh : φ r with
      | false => rfl
      | true => exact absurd (hr.mp hh) this

theorem padOK_range' (φ : ℕ → Bool) (lo hi k s : ℕ)
    (hφ : ∀ r, s ≤ r → r < s + k → (φ r = true ↔ lo ≤ r ∧ r < hi)) (hs : s ≤ lo) (hlo : lo < hi)
    (hhi : hi ≤ s + k) : PadOKb ((List.range' s k).map φ) := by
  induction k generalizing s with
  | zero => omega
  | succ k ih =>
    have h0 := hφ s (le_refl _) (by omega)
    cases hφs : φ s with
    | true =>
      simp only [List.range'_succ, List.map_cons, hφs, PadOKb]
      rw [hφs] at h0
      exact tailOK_range' φ lo hi k (s + 1) (fun r h1 h2 => hφ r (by omega) (by omega)) (by have := h0.mp rfl; omega)
    | false =>
      simp only [List.range'_succ, List.map_cons, hφs, PadOKb]
      rw [hφs] at h0
      have : ¬ (lo ≤ s ∧ s < hi) := fun hh => by simpa using h0.mpr hh
      exact ih (s + 1) (fun r h1 h2 => hφ r (by omega) (by omega)) (by omega) (by omega)

/-- the rows that hold at least one tensor form a non-empty interval (columns padded with `None` at their ends) -/
def PaddedRows (tn : Net) : Prop :=
  ∃ lo hi, lo < hi ∧ hi ≤ tn.nrows ∧
    ∀ r < tn.nrows, ((∃ c < tn.ncols, (tn.site r c).isSome = true) ↔ lo ≤ r ∧ r < hi)

theorem padOK_of_padded (tn : Net) (h : PaddedRows tn) (φ : ℕ → Bool)
    (hφ : ∀ r < tn.nrows, (φ r = true ↔ ∃ c < tn.ncols, (tn.site r c).isSome = true)) :
    PadOKb ((List.range tn.nrows).map φ) := by
  obtain ⟨lo, hi, h1, h2, h3⟩ := h
  rw [List.range_eq_range']
  exact padOK_range' φ lo hi tn.nrows 0 (fun r _ hr => (hφ r (by omega)).trans (h3 r (by omega))) (Nat.zero_le _) h1
    (by omega)

theorem noneFree_padded (tn : Net) (hR : 0 < tn.nrows) (hC : 0 < tn.ncols) (h : NoneFree tn) : PaddedRows tn :=
  ⟨0, tn.nrows, hR, le_refl _, fun r hr => ⟨fun _ => ⟨Nat.zero_le _, hr⟩, fun _ => ⟨0, hC, h r hr 0 hC⟩⟩⟩

theorem pres_col (tn : Net) (c : ℕ) :
    (tn.col c).map Option.isSome = (List.range tn.nrows).map fun r => (tn.site r c).isSome := by
  unfold Net.col; rw [List.map_map]; rfl

/-- **padded network, left to right**: the executed `contract` returns the scalar of the grid tensor of `netF tn` -/
theorem contract_lr_pad (tn : Net) (m n : ℕ) (hc : Compat tn m n) (hp : PaddedRows tn) :
    contract tn none false none none none none = .ok (.scalar (scalar (gridT (netF tn) m n))) := by
  have hok := hc.ok
  obtain ⟨hn, he, hs, hw⟩ := gridT_dims hc
  have e := lrT_eq_gridT hok
  obtain ⟨res, hsw, hrep, hpres⟩ := sweep_lr_rep' true _ _ (forall2_cols' tn m hc.nrows (List.range' 1 n))
    (tn.col 0) 1 (gcol (netF tn) m 0) (col_rep' tn m hc.nrows 0) (by simpa using lrfull_grid hok n 0 (by omega))
  have hcok : ColOK (lrSweep (gcol (netF tn) m 0) ((List.range' 1 n).map (gcol (netF tn) m))) :=
    lrSweep_ok _ _ (gcol_ok hok 0 (by omega)) (by simpa using lrok_grid hok n 0 (by omega))
  have hpad : PadOKb (res.map Option.isSome) := by
    rw [hpres, List.map_map]
    simp only [Function.comp_def, pres_col]
    rw [foldl_or]
    apply padOK_of_padded tn hp
    intro r _
    rw [hc.ncols]
    simp only [Bool.or_eq_true, List.any_eq_true, List.mem_range'_1]
    constructor
    · rintro (h0 | ⟨c, ⟨_, h2⟩, h3⟩)
      · exact ⟨0, by omega, h0⟩
      · exact ⟨c, by omega, h3⟩
    · rintro ⟨c, h1, h2⟩
      by_cases h0 : c = 0
      · subst h0; exact Or.inl h2
      · exact Or.inr ⟨c, ⟨by omega, by omega⟩, h2⟩
  obtain ⟨t, ht, et⟩ := contractLadder_rep' res _ hrep hcok hpad
  have hsc := asScalar_rep t (lrT (netF tn) m n) et (by rw [e]; exact hn) (by rw [e]; exact he)
    (by rw [e]; exact hs) (by rw [e]; exact hw)
  rw [e] at hsc
  have hfull : (n + 1 == (0 :: List.range' (0 + 1) n).length) = true := by simp
  simp only [contract, maskOK, Bool.not_true, Bool.false_eq_true, if_false, colRange_all, hc.ncols, contractCols,
    List.range_eq_range', List.range'_succ, List.map_cons, Option.map_none, hfull]
  simp only [Nat.zero_add] at hsw ⊢
  simp only [hsw, finish, if_true, ht, hsc, one_mul]

/-- **padded network, right to left** (`step = -1`) -/
theorem contract_rl_pad (tn : Net) (m n : ℕ) (hc : Compat tn m n) (hp : PaddedRows tn) :
    contract tn none false none none (some (-1)) none = .ok (.scalar (scalar (gridT (netF tn) m n))) := by
  have hok := hc.ok
  obtain ⟨hn, he, hs, hw⟩ := gridT_dims hc
  have e := rlT_eq_gridT hok
  obtain ⟨res, hsw, hrep, hpres⟩ := sweep_rl_rep' true _ _ (forall2_cols' tn m hc.nrows (down 0 n))
    (tn.col n) 1 (gcol (netF tn) m n) (col_rep' tn m hc.nrows n) (by simpa using rlfull_grid hok n 0 (by omega))
  have hcok := (rlSweep_w_ok (gcol (netF tn) m n) (gcol (netF tn) m n) ((down 0 n).map (gcol (netF tn) m)) rfl
    (gcol_ok hok n (le_refl _)) (by simpa using rlok_grid hok n 0 (by omega))).2
  have hpad : PadOKb (res.map Option.isSome) := by
    rw [hpres, List.map_map]
    simp only [Function.comp_def, pres_col]
    rw [foldl_or]
    apply padOK_of_padded tn hp
    intro r _
    rw [hc.ncols]
    simp only [Bool.or_eq_true, List.any_eq_true, down_eq, List.mem_reverse, List.mem_range'_1]
    constructor
    · rintro (h0 | ⟨c, ⟨_, h2⟩, h3⟩)
      · exact ⟨n, by omega, h0⟩
      · exact ⟨c, by omega, h3⟩
    · rintro ⟨c, h1, h2⟩
      by_cases h0 : c = n
      · subst h0; exact Or.inl h2
      · exact Or.inr ⟨c, ⟨by omega, by omega⟩, h2⟩
  obtain ⟨t, ht, et⟩ := contractLadder_rep' res _ hrep hcok hpad
  have hsc := asScalar_rep t (rlT (netF tn) m n) et (by rw [e]; exact hn) (by rw [e]; exact he)
    (by rw [e]; exact hs) (by rw [e]; exact hw)
  rw [e] at hsc
  have hfull : (n + 1 == ((0 + n) :: down 0 n).length) = true := by simp [down_eq]
  simp only [contract, maskOK, Bool.not_true, Bool.false_eq_true, if_false, colRange_rev, hc.ncols, contractCols,
    down, List.map_cons, Option.map_none, hfull]
  simp only [Nat.zero_add] at hsw ⊢
  simp only [show decide ((-1 : ℤ) > 0) = false by decide, hsw, finish, if_true, ht, hsc, one_mul]

/-! ### split and recombine on a padded network -/

theorem contract_part_lr' (tn : Net) (m n : ℕ) (hc : Compat tn m n) (a : ℕ) (ha : a < n) :
    ∃ res, contract tn none false none (some ((a + 1 : ℕ) : ℤ)) none none = .ok (.part (some res) 1) ∧
      RepL' res ((lrSweep (gcol (netF tn) m 0) ((List.range' 1 a).map (gcol (netF tn) m))).1 ::
        (lrSweep (gcol (netF tn) m 0) ((List.range' 1 a).map (gcol (netF tn) m))).2) ∧
      res.map Option.isSome = (List.range tn.nrows).map fun r =>
        (tn.site r 0).isSome || (List.range' 1 a).any fun c => (tn.site r c).isSome := by
  obtain ⟨res, hsw, hr, hpres⟩ := sweep_lr_rep' false _ _ (forall2_cols' tn m hc.nrows (List.range' 1 a))
    (tn.col 0) 1 (gcol (netF tn) m 0) (col_rep' tn m hc.nrows 0) (by simpa using lrfull_grid hc.ok a 0 (by omega))
  refine ⟨res, ?_, hr, ?_⟩
  · have hfull : (n + 1 == (0 :: List.range' (0 + 1) a).length) = false := by
      simp only [List.length_cons, List.length_range', beq_eq_false_iff_ne, ne_eq]; omega
    simp only [contract, maskOK, Bool.not_true, Bool.false_eq_true, if_false, hc.ncols,
      colRange_stop (n + 1) (a + 1) (by omega), contractCols, List.range_eq_range', List.range'_succ, List.map_cons,
      Option.map_none, hfull]
    simp only [Nat.zero_add] at hsw ⊢
    simp only [hsw, finish, Bool.false_eq_true, if_false]
  · rw [hpres, List.map_map]
    simp only [Function.comp_def, pres_col]
    rw [foldl_or]

theorem contract_part_rl' (tn : Net) (m a b : ℕ) (hc : Compat tn m (a + 1 + b)) :
    ∃ res, contract tn none false (some (-1)) (some (((a + 1 : ℕ) : ℤ) - 1)) (some (-1)) none
        = .ok (.part (some res) 1) ∧
      RepL' res ((rlSweep (gcol (netF tn) m (a + 1 + b)) ((down (a + 1) b).map (gcol (netF tn) m))).1 ::
        (rlSweep (gcol (netF tn) m (a + 1 + b)) ((down (a + 1) b).map (gcol (netF tn) m))).2) ∧
      res.map Option.isSome = (List.range tn.nrows).map fun r =>
        (tn.site r (a + 1 + b)).isSome || (down (a + 1) b).any fun c => (tn.site r c).isSome := by
  obtain ⟨res, hsw, hr, hpres⟩ := sweep_rl_rep' false _ _ (forall2_cols' tn m hc.nrows (down (a + 1) b))
    (tn.col (a + 1 + b)) 1 (gcol (netF tn) m (a + 1 + b)) (col_rep' tn m hc.nrows (a + 1 + b))
    (rlfull_grid hc.ok b (a + 1) (le_refl _))
  refine ⟨res, ?_, hr, ?_⟩
  · have hd : down (a + 1) (a + 1 + b + 1 - (a + 1)) = (a + 1 + b) :: down (a + 1) b := by
      rw [show a + 1 + b + 1 - (a + 1) = b + 1 by omega]; rfl
    have hfull : (a + 1 + b + 1 == ((a + 1 + b) :: down (a + 1) b).length) = false := by
      simp only [List.length_cons, down_eq, List.length_reverse, List.length_range', beq_eq_false_iff_ne, ne_eq]
      omega
    simp only [contract, maskOK, Bool.not_true, Bool.false_eq_true, if_false, hc.ncols,
      colRange_rstop (a + 1 + b + 1) (a + 1) (by omega) (by omega), hd, contractCols, List.map_cons,
      Option.map_none, hfull]
    simp only [show decide ((-1 : ℤ) > 0) = false by decide, hsw, finish, Bool.false_eq_true, if_false]
  · rw [hpres, List.map_map]
    simp only [Function.comp_def, pres_col]
    rw [foldl_or]

/-- **padded network, split and recombine** -/
theorem splitValue_pad (tn : Net) (m a b : ℕ) (hc : Compat tn m (a + 1 + b)) (hp : PaddedRows tn) :
    splitValue tn (a + 1) none false none = .ok (scalar (gridT (netF tn) m (a + 1 + b))) := by
  have hok := hc.ok
  obtain ⟨hn, he, hs, hw⟩ := gridT_dims hc
  have e := splitT_eq_gridT hok
  obtain ⟨lm, hl, hlr, hlp⟩ := contract_part_lr' tn m _ hc a (by omega)
  obtain ⟨rm, hr, hrr, hrp⟩ := contract_part_rl' tn m a b hc
  have hlrfull := lrfull_grid hok a 0 (by omega)
  have hrlfull := rlfull_grid hok b (a + 1) (le_refl _)
  have hlrok := lrok_grid hok a 0 (by omega)
  have hrlok := rlok_grid hok b (a + 1) (le_refl _)
  simp only [Nat.zero_add] at hlrfull hlrok
  have eL := lrSweep_e_full _ (gcol (netF tn) m 0) _ rfl hlrfull
  have eR := rlSweep_w_full _ (gcol (netF tn) m (a + 1 + b)) _ rfl hrlfull
  have e1 := foldl_last_up (gcol (netF tn) m) 0 a
  have e2 := foldl_last_down (gcol (netF tn) m) (a + 1) b
  simp only [Nat.zero_add] at e1
  rw [e1] at eL
  rw [e2] at eR
  have hfm : FullMatch (gcol (netF tn) m a) (gcol (netF tn) m (a + 1)) := (lrfull_grid hok 1 a (by omega)).1
  have hm : ((lrSweep (gcol (netF tn) m 0) ((List.range' 1 a).map (gcol (netF tn) m))).1 ::
        (lrSweep (gcol (netF tn) m 0) ((List.range' 1 a).map (gcol (netF tn) m))).2).map (·.e)
      = ((rlSweep (gcol (netF tn) m (a + 1 + b)) ((down (a + 1) b).map (gcol (netF tn) m))).1 ::
        (rlSweep (gcol (netF tn) m (a + 1 + b)) ((down (a + 1) b).map (gcol (netF tn) m))).2).map (·.w) := by
    rw [eL, eR]; exact hfm
  obtain ⟨pm, hpw, hpr, hpp⟩ := contractPairwise_rep' lm rm _ _ hlr hrr hm
  have hLok := lrSweep_ok _ _ (gcol_ok hok 0 (by omega)) hlrok
  have hRok := (rlSweep_w_ok _ (gcol (netF tn) m (a + 1 + b)) _ rfl (gcol_ok hok (a + 1 + b) (le_refl _)) hrlok).2
  have hlen : (lrSweep (gcol (netF tn) m 0) ((List.range' 1 a).map (gcol (netF tn) m))).2.length
      = (rlSweep (gcol (netF tn) m (a + 1 + b)) ((down (a + 1) b).map (gcol (netF tn) m))).2.length := by
    have := length_eq_of_map_eq hm
    simpa using this
  have hcok : ColOK (hzipCol (lrSweep (gcol (netF tn) m 0) ((List.range' 1 a).map (gcol (netF tn) m)))
      (rlSweep (gcol (netF tn) m (a + 1 + b)) ((down (a + 1) b).map (gcol (netF tn) m)))) :=
    vchain_hzip _ _ _ _ hlen hLok hRok
  have hpad : PadOKb (pm.map Option.isSome) := by
    rw [hpp, hlp, hrp, List.zipWith_map_left, List.zipWith_map_right, List.zipWith_self]
    apply padOK_of_padded tn hp
    intro r _
    rw [hc.ncols]
    simp only [Bool.or_eq_true, List.any_eq_true, down_eq, List.mem_reverse, List.mem_range'_1]
    constructor
    · rintro ((h0 | ⟨c, ⟨_, h2⟩, h3⟩) | (h0 | ⟨c, ⟨_, h2⟩, h3⟩))
      · exact ⟨0, by omega, h0⟩
      · exact ⟨c, by omega, h3⟩
      · exact ⟨a + 1 + b, by omega, h0⟩
      · exact ⟨c, by omega, h3⟩
    · rintro ⟨c, h1, h2⟩
      by_cases h0 : c = 0
      · subst h0; exact Or.inl (Or.inl h2)
      · by_cases h3 : c ≤ a
        · exact Or.inl (Or.inr ⟨c, ⟨by omega, by omega⟩, h2⟩)
        · by_cases h4 : c = a + 1 + b
          · subst h4; exact Or.inr (Or.inl h2)
          · exact Or.inr (Or.inr ⟨c, ⟨by omega, by omega⟩, h2⟩)
  obtain ⟨t, ht, et⟩ := contractLadder_rep' pm _ hpr hcok hpad
  have hsc := asScalar_rep t (splitT (netF tn) m a b) et (by rw [e]; exact hn) (by rw [e]; exact he)
    (by rw [e]; exact hs) (by rw [e]; exact hw)
  rw [e] at hsc
  simp only [splitValue, hl, hr, bind, Except.bind, innerProduct, hpw, ht, hsc, pure, Except.pure, mul_one]

/-! ### the transposed padded network -/

theorem colT_congr (g g' : ℕ → ℕ → F4 ℤ) (m c : ℕ) (hg : ∀ r ≤ m, Eqv (g r c) (g' r c))
    (hv : ∀ r < m, (g r c).s = (g (r + 1) c).n) : Eqv (colT g m c) (colT g' m c) := by
  induction m with
  | zero => exact hg 0 (le_refl _)
  | succ m ih =>
    rw [colT_succ, colT_succ]
    refine vcomp_congr (ih (fun r hr => hg r (by omega)) (fun r hr => hv r (by omega))) (hg (m + 1) (le_refl _)) ?_
    rw [colT_s]
    exact hv m (by omega)

theorem gridT_congr (g g' : ℕ → ℕ → F4 ℤ) (m n : ℕ) (hg : ∀ r ≤ m, ∀ c ≤ n, Eqv (g r c) (g' r c))
    (hok : GridOK g m n) : Eqv (gridT g m n) (gridT g' m n) := by
  induction n with
  | zero =>
    rw [gridT_zero, gridT_zero]
    exact colT_congr g g' m 0 (fun r hr => hg r hr 0 (le_refl _)) (fun r hr => hok.vert r 0 hr (le_refl _))
  | succ n ih =>
    rw [gridT_succ, gridT_succ]
    have hok' : GridOK g m n :=
      ⟨fun r c hr hc => hok.vert r c hr (by omega), fun r c hr hc => hok.horiz r c hr (by omega)⟩
    refine hcomp_congr (ih (fun r hr c hc => hg r hr c (by omega)) hok')
      (colT_congr g g' m (n + 1) (fun r hr => hg r hr (n + 1) (le_refl _))
        (fun r hr => hok.vert r (n + 1) hr (le_refl _))) ?_
    rw [gridT_e, colT_e, colT_w]
    exact mprod_congr _ _ m (fun r hr => hok.horiz r n hr (by omega))

theorem oneF_tr : Eqv oneF (tr oneF) := by
  refine ⟨rfl, rfl, rfl, rfl, fun i j k l hi hj hk hl => ?_⟩
  have h1 : oneF.n = 1 := rfl
  have h2 : oneF.e = 1 := rfl
  have h3 : oneF.s = 1 := rfl
  have h4 : oneF.w = 1 := rfl
  obtain rfl : i = 0 := by omega
  obtain rfl : j = 0 := by omega
  obtain rfl : k = 0 := by omega
  obtain rfl : l = 0 := by omega
  rfl

theorem netF_transpose (tn : Net) (r c : ℕ) (hr : r < tn.nrows) (hc : c < tn.ncols) :
    Eqv (netF tn.transpose c r) (tr (netF tn r c)) := by
  unfold netF
  rw [transpose_site tn r c hr hc]
  cases tn.site r c with
  | none => exact oneF_tr
  | some t => exact toF_transpose t

theorem compat_transpose (tn : Net) (m n : ℕ) (hc : Compat tn m n) : Compat tn.transpose n m := by
  have E : ∀ r c, r ≤ m → c ≤ n → Eqv (netF tn.transpose c r) (tr (netF tn r c)) := fun r c hr hcc =>
    netF_transpose tn r c (by rw [hc.nrows]; omega) (by rw [hc.ncols]; omega)
  refine ⟨hc.ncols, hc.nrows, ⟨fun r c hr hcc => ?_, fun r c hr hcc => ?_⟩, fun r hr => ?_, fun c hcc => ?_,
    fun r hr => ?_, fun c hcc => ?_⟩
  · rw [(E c r hcc (by omega)).s, (E c (r + 1) hcc (by omega)).n]
    exact hc.ok.horiz c r hcc hr
  · rw [(E c r (by omega) hr).e, (E (c + 1) r (by omega) hr).w]
    exact hc.ok.vert c r hcc hr
  · rw [(E 0 r (by omega) hr).w]; exact hc.north r hr
  · rw [(E c 0 hcc (by omega)).n]; exact hc.west c hcc
  · rw [(E m r (le_refl _) hr).e]; exact hc.south r hr
  · rw [(E c n hcc (le_refl _)).s]; exact hc.east c hcc

/-- **padded network, transposed**: contracting `mps2d.transpose tn` gives the scalar of the grid tensor of `tn` -/
theorem contract_transpose_pad (tn : Net) (m n : ℕ) (hc : Compat tn m n) (hp : PaddedRows tn.transpose) :
    contract tn.transpose none false none none none none = .ok (.scalar (scalar (gridT (netF tn) m n))) := by
  have hcT := compat_transpose tn m n hc
  rw [contract_lr_pad tn.transpose n m hcT hp]
  congr 2
  have hcg := gridT_congr (netF tn.transpose) (trGrid (netF tn)) n m
    (fun r hr c hcc => netF_transpose tn c r (by rw [hc.nrows]; omega) (by rw [hc.ncols]; omega)) hcT.ok
  obtain ⟨hn, he, hs, hw⟩ := gridT_dims hcT
  have h1 := hcg.f 0 0 0 0 (by omega) (by omega) (by omega) (by omega)
  have h2 := (lrT_eq_gridT (gridOK_tr hc.ok)).symm
  have h3 := lrT_trGrid hc.ok
  show (gridT (netF tn.transpose) n m).f 0 0 0 0 = (gridT (netF tn) m n).f 0 0 0 0
  rw [h1, h2, h3, lrT_eq_gridT hc.ok]
  rfl

theorem noneFree_transpose (tn : Net) (h : NoneFree tn) : NoneFree tn.transpose := by
  intro c hc r hr
  rw [transpose_site tn r c hr hc]
  have := h r hr c hc
  obtain ⟨t, ht⟩ := Option.isSome_iff_exists.mp this
  rw [ht]
  rfl

end Qec.TensorPad
