/-
  Helper lemmas for property C11: the algebra of 4-leg tensors as functions on index tuples
  (a small double category: `hcomp` = one `contract_pairwise` cell, `vcomp` = one `contract_ladder` step),
  over any commutative semiring.  Equalities in this first part are plain equalities of `F4` values
  (shape and function, for ALL index tuples, not only in-range ones).
-/
import Mathlib.Algebra.BigOperators.Ring.Finset
import Mathlib.Algebra.BigOperators.Intervals
import Mathlib.Tactic.Ring
import QecVerif.Model.Tensor

namespace Qec.TensorAlg
open Finset
set_option linter.unusedSectionVars false

variable {R : Type*} [CommSemiring R]

/-- function-level view of a 4-leg tensor: shape `(n, e, s, w)` and entries -/
@[ext] structure F4 (R : Type*) where
  n : ℕ
  e : ℕ
  s : ℕ
  w : ℕ
  f : ℕ → ℕ → ℕ → ℕ → R

/-- reshape identity: a sum over a merged (row-major) index is the double sum -/
theorem sum_merge (a b : ℕ) (g : ℕ → ℕ → R) :
    ∑ i ∈ range (a * b), g (i / b) (i % b) = ∑ x ∈ range a, ∑ y ∈ range b, g x y := by
  induction a with
  | zero => simp
  | succ a ih =>
    rw [Nat.succ_mul, sum_range_add, sum_range_succ, ih]
    congr 1
    apply sum_congr rfl
    intro y hy
    have hb : 0 < b := Nat.pos_of_ne_zero (by rintro rfl; simp at hy)
    have hy' : y < b := mem_range.mp hy
    rw [Nat.add_comm (a * b) y, Nat.add_mul_div_right _ _ hb, Nat.add_mul_mod_self_right,
      Nat.div_eq_of_lt hy', Nat.mod_eq_of_lt hy', Nat.zero_add]

/-- one cell of `contract_pairwise`: `nesw,NESe -> (nN) E (sS) w`, bonds merged row-major -/
def hcomp (A B : F4 R) : F4 R :=
  { n := A.n * B.n, e := B.e, s := A.s * B.s, w := A.w,
    f := fun i j k l => ∑ x ∈ range A.e, A.f (i / B.n) x (k / B.s) l * B.f (i % B.n) j (k % B.s) x }

/-- one step of `contract_ladder`: `nesw,sESW -> n (eE) S (wW)` -/
def vcomp (V T : F4 R) : F4 R :=
  { n := V.n, e := V.e * T.e, s := T.s, w := V.w * T.w,
    f := fun i j k l => ∑ x ∈ range V.s, V.f i (j / T.e) x (l / T.w) * T.f x (j % T.e) k (l % T.w) }

/-- `np.transpose`: `(n,e,s,w) → (w,s,e,n)` -/
def tr (A : F4 R) : F4 R :=
  { n := A.w, e := A.s, s := A.e, w := A.n, f := fun a b c d => A.f d c b a }

omit [CommSemiring R] in
@[simp] theorem tr_tr (A : F4 R) : tr (tr A) = A := rfl

/-- duality: a ladder step is a pairwise cell of the transposed tensors, transposed back -/
theorem vcomp_eq_tr_hcomp (A B : F4 R) : vcomp A B = tr (hcomp (tr A) (tr B)) := rfl

theorem hcomp_tr (A B : F4 R) : hcomp (tr A) (tr B) = tr (vcomp A B) := rfl

theorem vcomp_tr (A B : F4 R) : vcomp (tr A) (tr B) = tr (hcomp A B) := rfl

/-- **interchange law** -/
theorem interchange (A B C D : F4 R) (h1 : B.s = D.n) (h2 : C.e = D.w) :
    vcomp (hcomp A B) (hcomp C D) = hcomp (vcomp A C) (vcomp B D) := by
  ext i j k l
  · rfl
  · rfl
  · rfl
  · rfl
  · show ∑ x ∈ range (A.s * B.s),
        (∑ y ∈ range A.e, A.f (i / B.n) y (x / B.s) (l / C.w) * B.f (i % B.n) (j / D.e) (x % B.s) y) *
        (∑ z ∈ range C.e, C.f (x / D.n) z (k / D.s) (l % C.w) * D.f (x % D.n) (j % D.e) (k % D.s) z)
      = ∑ y ∈ range (A.e * C.e),
        (∑ x1 ∈ range A.s, A.f (i / B.n) (y / C.e) x1 (l / C.w) * C.f x1 (y % C.e) (k / D.s) (l % C.w)) *
        (∑ x2 ∈ range B.s, B.f (i % B.n) (j / D.e) x2 (y / D.w) * D.f x2 (j % D.e) (k % D.s) (y % D.w))
    rw [← h1, ← h2]
    rw [sum_merge A.s B.s (fun x1 x2 =>
        (∑ y ∈ range A.e, A.f (i / B.n) y x1 (l / C.w) * B.f (i % B.n) (j / D.e) x2 y) *
        (∑ z ∈ range C.e, C.f x1 z (k / D.s) (l % C.w) * D.f x2 (j % D.e) (k % D.s) z))]
    rw [sum_merge A.e C.e (fun y z =>
        (∑ x1 ∈ range A.s, A.f (i / B.n) y x1 (l / C.w) * C.f x1 z (k / D.s) (l % C.w)) *
        (∑ x2 ∈ range B.s, B.f (i % B.n) (j / D.e) x2 y * D.f x2 (j % D.e) (k % D.s) z))]
    simp only [sum_mul_sum]
    -- LHS: Σ x1 x2 y z ; RHS: Σ y z x1 x2
    calc ∑ x1 ∈ range A.s, ∑ x2 ∈ range B.s, ∑ y ∈ range A.e, ∑ z ∈ range C.e,
            A.f (i / B.n) y x1 (l / C.w) * B.f (i % B.n) (j / D.e) x2 y *
            (C.f x1 z (k / D.s) (l % C.w) * D.f x2 (j % D.e) (k % D.s) z)
        = ∑ x1 ∈ range A.s, ∑ y ∈ range A.e, ∑ x2 ∈ range B.s, ∑ z ∈ range C.e,
            A.f (i / B.n) y x1 (l / C.w) * B.f (i % B.n) (j / D.e) x2 y *
            (C.f x1 z (k / D.s) (l % C.w) * D.f x2 (j % D.e) (k % D.s) z) := by
          apply sum_congr rfl; intro x1 _; exact sum_comm
      _ = ∑ y ∈ range A.e, ∑ x1 ∈ range A.s, ∑ x2 ∈ range B.s, ∑ z ∈ range C.e,
            A.f (i / B.n) y x1 (l / C.w) * B.f (i % B.n) (j / D.e) x2 y *
            (C.f x1 z (k / D.s) (l % C.w) * D.f x2 (j % D.e) (k % D.s) z) := sum_comm
      _ = ∑ y ∈ range A.e, ∑ x1 ∈ range A.s, ∑ z ∈ range C.e, ∑ x2 ∈ range B.s,
            A.f (i / B.n) y x1 (l / C.w) * B.f (i % B.n) (j / D.e) x2 y *
            (C.f x1 z (k / D.s) (l % C.w) * D.f x2 (j % D.e) (k % D.s) z) := by
          apply sum_congr rfl; intro y _; apply sum_congr rfl; intro x1 _; exact sum_comm
      _ = ∑ y ∈ range A.e, ∑ z ∈ range C.e, ∑ x1 ∈ range A.s, ∑ x2 ∈ range B.s,
            A.f (i / B.n) y x1 (l / C.w) * B.f (i % B.n) (j / D.e) x2 y *
            (C.f x1 z (k / D.s) (l % C.w) * D.f x2 (j % D.e) (k % D.s) z) := by
          apply sum_congr rfl; intro y _; exact sum_comm
      _ = _ := by
          apply sum_congr rfl; intro y _; apply sum_congr rfl; intro z _
          apply sum_congr rfl; intro x1 _; apply sum_congr rfl; intro x2 _; ring

/-- `hcomp` is associative (plain equality: the merged-index arithmetic agrees for every index) -/
theorem hcomp_assoc (A B C : F4 R) : hcomp (hcomp A B) C = hcomp A (hcomp B C) := by
  ext i j k l
  · exact Nat.mul_assoc _ _ _
  · rfl
  · exact Nat.mul_assoc _ _ _
  · rfl
  · show ∑ y ∈ range B.e,
        (∑ x ∈ range A.e, A.f (i / C.n / B.n) x (k / C.s / B.s) l * B.f (i / C.n % B.n) y (k / C.s % B.s) x) *
          C.f (i % C.n) j (k % C.s) y
      = ∑ x ∈ range A.e, A.f (i / (B.n * C.n)) x (k / (B.s * C.s)) l *
          ∑ y ∈ range B.e, B.f (i % (B.n * C.n) / C.n) y (k % (B.s * C.s) / C.s) x *
            C.f (i % (B.n * C.n) % C.n) j (k % (B.s * C.s) % C.s) y
    have e1 : ∀ (m b c : ℕ), m / c / b = m / (b * c) := fun m b c => by
      rw [Nat.div_div_eq_div_mul, Nat.mul_comm]
    have e2 : ∀ (m b c : ℕ), m % (b * c) / c = m / c % b := fun m b c => Nat.mod_mul_left_div_self m c b
    have e3 : ∀ (m b c : ℕ), m % (b * c) % c = m % c := fun m b c =>
      Nat.mod_mod_of_dvd m (Dvd.intro_left b rfl)
    simp only [e1, e2, e3, sum_mul, mul_sum]
    rw [sum_comm]
    apply sum_congr rfl; intro x _; apply sum_congr rfl; intro y _; ring

/-- `vcomp` is associative (by duality) -/
theorem vcomp_assoc (A B C : F4 R) : vcomp (vcomp A B) C = vcomp A (vcomp B C) := by
  show tr (hcomp (hcomp (tr A) (tr B)) (tr C)) = tr (hcomp (tr A) (hcomp (tr B) (tr C)))
  rw [hcomp_assoc]

/-! ### columns and sweeps -/

/-- a column is a vertical chain: every `s` bond equals the `n` bond below -/
def VChain : F4 R → List (F4 R) → Prop
  | _, [] => True
  | v, t :: ts => v.s = t.n ∧ VChain t ts

/-- horizontal matching of two lists of tensors: the `e` bonds of the left are the `w` bonds of the right
    (in particular the lists have equal length) -/
def HMatch (l r : List (F4 R)) : Prop := l.map (·.e) = r.map (·.w)

/-- `contract_ladder` of the column `v :: ts` -/
def ladder (v : F4 R) (ts : List (F4 R)) : F4 R := ts.foldl vcomp v

/-- `contract_pairwise` of two None-free columns -/
def hzip (l r : List (F4 R)) : List (F4 R) := List.zipWith hcomp l r

/-- ladder of a pairwise-contracted column = `hcomp` of the ladders (interchange, by induction over rows) -/
theorem ladder_hzip (a b : F4 R) (as bs : List (F4 R)) (hb : VChain b bs) (hm : HMatch as bs) :
    ladder (hcomp a b) (hzip as bs) = hcomp (ladder a as) (ladder b bs) := by
  induction as generalizing a b bs with
  | nil => cases bs with
    | nil => simp [ladder, hzip]
    | cons _ _ => simp [HMatch] at hm
  | cons a1 as ih =>
    cases bs with
    | nil => simp [HMatch] at hm
    | cons b1 bs =>
      obtain ⟨hb1, hb2⟩ := hb
      simp only [HMatch, List.map_cons, List.cons.injEq] at hm
      obtain ⟨hm1, hm2⟩ := hm
      simp only [ladder, hzip, List.zipWith_cons_cons, List.foldl_cons]
      rw [interchange a b a1 b1 hb1 hm1]
      refine ih (vcomp a a1) (vcomp b b1) bs ?_ hm2
      cases bs with
      | nil => trivial
      | cons b2 bs => exact ⟨hb2.1, hb2.2⟩

omit [CommSemiring R] in
theorem length_eq_of_map_eq {α β γ : Type*} {f : α → γ} {g : β → γ} {l : List α} {r : List β}
    (h : l.map f = r.map g) : l.length = r.length := by
  have := congrArg List.length h; simpa using this

theorem hzip_map_e (as bs : List (F4 R)) (hl : as.length = bs.length) :
    (hzip as bs).map (·.e) = bs.map (·.e) := by
  induction as generalizing bs with
  | nil => cases bs with
    | nil => rfl
    | cons _ _ => simp at hl
  | cons a as ih => cases bs with
    | nil => simp at hl
    | cons b bs => simp only [hzip, List.zipWith_cons_cons, List.map_cons, List.cons.injEq]
                   exact ⟨rfl, ih bs (by simpa using hl)⟩

theorem hzip_map_w (as bs : List (F4 R)) (hl : as.length = bs.length) :
    (hzip as bs).map (·.w) = as.map (·.w) := by
  induction as generalizing bs with
  | nil => cases bs with
    | nil => rfl
    | cons _ _ => simp at hl
  | cons a as ih => cases bs with
    | nil => simp at hl
    | cons b bs => simp only [hzip, List.zipWith_cons_cons, List.map_cons, List.cons.injEq]
                   exact ⟨rfl, ih bs (by simpa using hl)⟩

theorem vchain_hzip (a b : F4 R) (as bs : List (F4 R)) (hl : as.length = bs.length)
    (ha : VChain a as) (hb : VChain b bs) : VChain (hcomp a b) (hzip as bs) := by
  induction as generalizing a b bs with
  | nil => cases bs with
    | nil => trivial
    | cons _ _ => simp at hl
  | cons a1 as ih => cases bs with
    | nil => simp at hl
    | cons b1 bs =>
      refine ⟨?_, ih a1 b1 bs (by simpa using hl) ha.2 hb.2⟩
      show a.s * b.s = a1.n * b1.n
      rw [ha.1, hb.1]

/-! A column is a non-empty list of tensors, kept as (top tensor, the rest). -/
abbrev Col (R : Type*) := F4 R × List (F4 R)

def ladderCol (c : Col R) : F4 R := ladder c.1 c.2
def hzipCol (l r : Col R) : Col R := (hcomp l.1 r.1, hzip l.2 r.2)
def ColOK (c : Col R) : Prop := VChain c.1 c.2
/-- bonds between two neighbouring columns agree, below the top row (the top row is not needed by the algebra) -/
def ColMatch (l r : Col R) : Prop := HMatch l.2 r.2

theorem ladderCol_hzipCol (l r : Col R) (hr : ColOK r) (hm : ColMatch l r) :
    ladderCol (hzipCol l r) = hcomp (ladderCol l) (ladderCol r) :=
  ladder_hzip l.1 r.1 l.2 r.2 hr hm

/-- the left-to-right column loop: `result = contract_pairwise(result, column)` -/
def lrSweep (c0 : Col R) (cs : List (Col R)) : Col R := cs.foldl hzipCol c0
/-- the right-to-left column loop: `result = contract_pairwise(column, result)` (columns in visiting order) -/
def rlSweep (c0 : Col R) (cs : List (Col R)) : Col R := cs.foldl (fun acc c => hzipCol c acc) c0

/-- compatibility of the columns visited left to right -/
def LROK : Col R → List (Col R) → Prop
  | _, [] => True
  | acc, d :: ds => ColMatch acc d ∧ ColOK d ∧ LROK d ds

/-- compatibility of the columns visited right to left -/
def RLOK : Col R → List (Col R) → Prop
  | _, [] => True
  | acc, d :: ds => ColMatch d acc ∧ ColOK d ∧ RLOK d ds

theorem lrok_congr (a a' : Col R) (cs : List (Col R)) (h : a.2.map (·.e) = a'.2.map (·.e)) :
    LROK a cs → LROK a' cs := by
  cases cs with
  | nil => exact id
  | cons d ds => intro ⟨h1, h2, h3⟩; exact ⟨by unfold ColMatch HMatch at *; rw [← h]; exact h1, h2, h3⟩

theorem rlok_congr (a a' : Col R) (cs : List (Col R)) (h : a.2.map (·.w) = a'.2.map (·.w)) :
    RLOK a cs → RLOK a' cs := by
  cases cs with
  | nil => exact id
  | cons d ds => intro ⟨h1, h2, h3⟩; exact ⟨by unfold ColMatch HMatch at *; rw [← h]; exact h1, h2, h3⟩

/-- **column fold, left to right**: the ladder of the swept result is the left-nested `hcomp` of the column ladders -/
theorem lr_fold (acc : Col R) (cs : List (Col R)) (h : LROK acc cs) :
    ladderCol (lrSweep acc cs) = (cs.map ladderCol).foldl hcomp (ladderCol acc) := by
  induction cs generalizing acc with
  | nil => rfl
  | cons d ds ih =>
    obtain ⟨h1, h2, h3⟩ := h
    simp only [lrSweep, List.foldl_cons, List.map_cons]
    have hl : acc.2.length = d.2.length := length_eq_of_map_eq h1
    have := ih (hzipCol acc d) (lrok_congr d _ ds (hzip_map_e acc.2 d.2 hl).symm h3)
    simp only [lrSweep] at this
    rw [this, ladderCol_hzipCol acc d h2 h1]

/-- **column fold, right to left** -/
theorem rl_fold (acc : Col R) (cs : List (Col R)) (ha : ColOK acc) (h : RLOK acc cs) :
    ladderCol (rlSweep acc cs) = (cs.map ladderCol).foldl (fun X Y => hcomp Y X) (ladderCol acc) := by
  induction cs generalizing acc with
  | nil => rfl
  | cons d ds ih =>
    obtain ⟨h1, h2, h3⟩ := h
    simp only [rlSweep, List.foldl_cons, List.map_cons]
    have hl : d.2.length = acc.2.length := length_eq_of_map_eq h1
    have := ih (hzipCol d acc) (vchain_hzip d.1 acc.1 d.2 acc.2 hl h2 ha)
      (rlok_congr d _ ds (hzip_map_w d.2 acc.2 hl).symm h3)
    simp only [rlSweep] at this
    rw [this, ladderCol_hzipCol d acc ha h1]

/-! ### re-association -/

theorem op_foldl (a x : F4 R) (m : List (F4 R)) :
    hcomp a (m.foldl hcomp x) = m.foldl hcomp (hcomp a x) := by
  induction m generalizing x with
  | nil => rfl
  | cons y m ih => simp only [List.foldl_cons]; rw [ih, hcomp_assoc]

/-- left nesting = right nesting -/
theorem foldl_eq_foldr (x y : F4 R) (l : List (F4 R)) :
    (l ++ [y]).foldl hcomp x = (x :: l).foldr hcomp y := by
  induction l generalizing x with
  | nil => rfl
  | cons a l ih =>
    simp only [List.cons_append, List.foldl_cons, List.foldr_cons]
    rw [ih (hcomp x a)]
    simp only [List.foldr_cons]
    rw [hcomp_assoc]

/-- the value seen by the right-to-left loop (visiting the reversed list) is the right nesting -/
theorem foldl_flip_reverse (y : F4 R) (l : List (F4 R)) :
    l.reverse.foldl (fun X Y => hcomp Y X) y = l.foldr hcomp y := by
  rw [List.foldl_reverse]

/-- visiting a non-empty list forwards with left nesting = visiting it backwards with flipped nesting -/
theorem nest_eq (X : List (F4 R)) (a y : F4 R) (l m : List (F4 R)) (h1 : X = a :: l) (h2 : X.reverse = y :: m) :
    l.foldl hcomp a = m.foldl (fun X Y => hcomp Y X) y := by
  subst h1
  rcases List.eq_nil_or_concat l with rfl | ⟨l', b, rfl⟩
  · simp at h2; obtain ⟨rfl, rfl⟩ := h2; rfl
  · rw [List.concat_eq_append] at h2 ⊢
    have : (a :: (l' ++ [b])).reverse = b :: (a :: l').reverse := by simp
    rw [this] at h2
    simp only [List.cons.injEq] at h2
    obtain ⟨rfl, rfl⟩ := h2
    rw [foldl_flip_reverse, foldl_eq_foldr]

/-! ### rectangular grids -/

/-- column `c` of the grid `g` with `m+1` rows -/
def gcol (g : ℕ → ℕ → F4 R) (m c : ℕ) : Col R := (g 0 c, (List.range m).map fun r => g (r + 1) c)

/-- the grid `g` with `m+1` rows and `n+1` columns has matching bonds (outer legs are unconstrained here) -/
structure GridOK (g : ℕ → ℕ → F4 R) (m n : ℕ) : Prop where
  vert : ∀ r c, r < m → c ≤ n → (g r c).s = (g (r + 1) c).n
  horiz : ∀ r c, r ≤ m → c < n → (g r c).e = (g r (c + 1)).w

theorem gcol_ok {g : ℕ → ℕ → F4 R} {m n : ℕ} (h : GridOK g m n) (c : ℕ) (hc : c ≤ n) : ColOK (gcol g m c) := by
  unfold ColOK gcol
  simp only
  have key : ∀ (k a : ℕ), a + k ≤ m →
      VChain (g a c) ((List.range' a k).map fun r => g (r + 1) c) := by
    intro k
    induction k with
    | zero => intro a _; trivial
    | succ k ih =>
      intro a ha
      rw [List.range'_succ]
      exact ⟨h.vert a c (by omega) hc, ih (a + 1) (by omega)⟩
  have := key m 0 (by omega)
  rwa [← List.range_eq_range'] at this

theorem gcol_match {g : ℕ → ℕ → F4 R} {m n : ℕ} (h : GridOK g m n) (c : ℕ) (hc : c < n) :
    ColMatch (gcol g m c) (gcol g m (c + 1)) := by
  unfold ColMatch HMatch gcol
  simp only [List.map_map]
  apply List.map_congr_left
  intro r hr
  exact h.horiz (r + 1) c (by have := List.mem_range.mp hr; omega) hc

theorem lrok_grid {g : ℕ → ℕ → F4 R} {m n : ℕ} (h : GridOK g m n) (k a : ℕ) (ha : a + k ≤ n) :
    LROK (gcol g m a) ((List.range' (a + 1) k).map (gcol g m)) := by
  induction k generalizing a with
  | zero => trivial
  | succ k ih =>
    rw [List.range'_succ]
    exact ⟨gcol_match h a (by omega), gcol_ok h (a + 1) (by omega), ih (a + 1) (by omega)⟩

/-- `[a+k-1, …, a]` -/
def down (a : ℕ) : ℕ → List ℕ
  | 0 => []
  | k + 1 => (a + k) :: down a k

theorem rlok_grid {g : ℕ → ℕ → F4 R} {m n : ℕ} (h : GridOK g m n) (k a : ℕ) (ha : a + k ≤ n) :
    RLOK (gcol g m (a + k)) ((down a k).map (gcol g m)) := by
  induction k with
  | zero => trivial
  | succ k ih =>
    exact ⟨gcol_match h (a + k) (by omega), gcol_ok h (a + k) (by omega), ih (by omega)⟩

theorem down_eq (a k : ℕ) : down a k = (List.range' a k).reverse := by
  induction k with
  | zero => rfl
  | succ k ih => rw [down, ih, List.range'_concat]; simp

/-- the tensor of the whole grid, merged columns first: left-nested `hcomp` of the column ladders -/
def gridT (g : ℕ → ℕ → F4 R) (m n : ℕ) : F4 R :=
  ((List.range' 1 n).map fun c => ladderCol (gcol g m c)).foldl hcomp (ladderCol (gcol g m 0))

/-- result tensor of the left-to-right sweep followed by `contract_ladder` -/
def lrT (g : ℕ → ℕ → F4 R) (m n : ℕ) : F4 R :=
  ladderCol (lrSweep (gcol g m 0) ((List.range' 1 n).map (gcol g m)))

/-- result tensor of the right-to-left sweep (columns `n, n-1, …, 0`) followed by `contract_ladder` -/
def rlT (g : ℕ → ℕ → F4 R) (m n : ℕ) : F4 R :=
  ladderCol (rlSweep (gcol g m n) ((down 0 n).map (gcol g m)))

theorem lrT_eq_gridT {g : ℕ → ℕ → F4 R} {m n : ℕ} (h : GridOK g m n) : lrT g m n = gridT g m n := by
  unfold lrT gridT
  rw [lr_fold _ _ (by simpa using lrok_grid h n 0 (by omega)), List.map_map]
  rfl

theorem rlT_eq_gridT {g : ℕ → ℕ → F4 R} {m n : ℕ} (h : GridOK g m n) : rlT g m n = gridT g m n := by
  unfold rlT gridT
  rw [rl_fold _ _ (gcol_ok h n (le_refl _)) (by simpa using rlok_grid h n 0 (by omega)), List.map_map]
  symm
  apply nest_eq ((List.range (n + 1)).map fun c => ladderCol (gcol g m c))
  · rw [List.range_eq_range', List.range'_succ, List.map_cons]
  · rw [List.range_eq_range', List.range'_concat, List.map_append, List.reverse_append, down_eq]
    simp [List.map_reverse]

/-! ### split and recombine -/

theorem lrSweep_e (acc acc' : Col R) (cs : List (Col R)) (he : acc.2.map (·.e) = acc'.2.map (·.e))
    (h : LROK acc cs) : (lrSweep acc cs).2.map (·.e) = (cs.foldl (fun _ c => c) acc').2.map (·.e) := by
  induction cs generalizing acc acc' with
  | nil => exact he
  | cons d ds ih =>
    obtain ⟨h1, h2, h3⟩ := h
    have hl : acc.2.length = d.2.length := length_eq_of_map_eq h1
    simp only [lrSweep, List.foldl_cons]
    exact ih (hzipCol acc d) d (hzip_map_e acc.2 d.2 hl) (lrok_congr d _ ds (hzip_map_e acc.2 d.2 hl).symm h3)

theorem rlSweep_w_ok (acc acc' : Col R) (cs : List (Col R)) (he : acc.2.map (·.w) = acc'.2.map (·.w))
    (ha : ColOK acc) (h : RLOK acc cs) :
    (rlSweep acc cs).2.map (·.w) = (cs.foldl (fun _ c => c) acc').2.map (·.w) ∧ ColOK (rlSweep acc cs) := by
  induction cs generalizing acc acc' with
  | nil => exact ⟨he, ha⟩
  | cons d ds ih =>
    obtain ⟨h1, h2, h3⟩ := h
    have hl : d.2.length = acc.2.length := length_eq_of_map_eq h1
    simp only [rlSweep, List.foldl_cons]
    exact ih (hzipCol d acc) d (hzip_map_w d.2 acc.2 hl) (vchain_hzip d.1 acc.1 d.2 acc.2 hl h2 ha)
      (rlok_congr d _ ds (hzip_map_w d.2 acc.2 hl).symm h3)

theorem foldl_last_up {α : Type*} (f : ℕ → α) (s k : ℕ) :
    ((List.range' (s + 1) k).map f).foldl (fun _ c => c) (f s) = f (s + k) := by
  induction k generalizing s with
  | zero => rfl
  | succ k ih => rw [List.range'_succ, List.map_cons, List.foldl_cons, ih (s + 1)]; congr 1; omega

theorem foldl_last_down {α : Type*} (f : ℕ → α) (s k : ℕ) :
    ((down s k).map f).foldl (fun _ c => c) (f (s + k)) = f s := by
  induction k with
  | zero => rfl
  | succ k ih => rw [down, List.map_cons, List.foldl_cons, ih]

/-- tensor obtained by contracting columns `0..a` left to right, columns `a+1+b, …, a+1` right to left, and
    combining the two partial results as `inner_product` does (pairwise, then ladder) -/
def splitT (g : ℕ → ℕ → F4 R) (m a b : ℕ) : F4 R :=
  ladderCol (hzipCol (lrSweep (gcol g m 0) ((List.range' 1 a).map (gcol g m)))
    (rlSweep (gcol g m (a + 1 + b)) ((down (a + 1) b).map (gcol g m))))

theorem splitT_eq_gridT {g : ℕ → ℕ → F4 R} {m a b : ℕ} (h : GridOK g m (a + 1 + b)) :
    splitT g m a b = gridT g m (a + 1 + b) := by
  have hlr := lrok_grid h a 0 (by omega)
  have hrl := rlok_grid h b (a + 1) (by omega)
  simp only [Nat.zero_add] at hlr
  have hR := rlSweep_w_ok _ (gcol g m (a + 1 + b)) _ rfl (gcol_ok h (a + 1 + b) (le_refl _)) hrl
  have hL := lrSweep_e _ (gcol g m 0) _ rfl hlr
  have e1 := foldl_last_up (gcol g m) 0 a
  have e2 := foldl_last_down (gcol g m) (a + 1) b
  simp only [Nat.zero_add] at e1
  rw [e1] at hL
  rw [e2] at hR
  have hm : ColMatch (lrSweep (gcol g m 0) ((List.range' 1 a).map (gcol g m)))
      (rlSweep (gcol g m (a + 1 + b)) ((down (a + 1) b).map (gcol g m))) := by
    unfold ColMatch HMatch
    rw [hL, hR.1]
    exact gcol_match h a (by omega)
  unfold splitT
  rw [ladderCol_hzipCol _ _ hR.2 hm, lr_fold _ _ hlr,
    rl_fold _ _ (gcol_ok h (a + 1 + b) (le_refl _)) hrl]
  unfold gridT
  have hsplit : List.range' 1 (a + 1 + b) = List.range' 1 a ++ (a + 1) :: List.range' (a + 2) b := by
    rw [show a + 1 + b = a + (1 + b) by omega, ← List.range'_append_1, show 1 + b = b + 1 by omega,
      List.range'_succ, show 1 + a = a + 1 by omega]
  rw [hsplit, List.map_append, List.foldl_append, List.map_cons, List.foldl_cons, List.map_map, List.map_map,
    ← op_foldl]
  congr 1
  symm
  apply nest_eq ((List.range' (a + 1) (b + 1)).map fun c => ladderCol (gcol g m c))
  · rw [List.range'_succ, List.map_cons]
  · rw [List.range'_concat, List.map_append, List.reverse_append, down_eq]
    simp [List.map_reverse, Function.comp_def]

/-! ### rows first / the transposed network -/

/-- row `r` of the grid merged left to right over columns `0..k` -/
def rowT (g : ℕ → ℕ → F4 R) (k r : ℕ) : F4 R := ((List.range' 1 k).map (g r)).foldl hcomp (g r 0)

/-- the left-to-right sweep keeps, in every row, the left-nested merge of that row -/
theorem sweep_rows (g : ℕ → ℕ → F4 R) (m k : ℕ) :
    lrSweep (gcol g m 0) ((List.range' 1 k).map (gcol g m))
      = (rowT g k 0, (List.range m).map fun r => rowT g k (r + 1)) := by
  induction k with
  | zero => rfl
  | succ k ih =>
    unfold lrSweep at ih ⊢
    rw [List.range'_concat, List.map_append, List.foldl_append, ih]
    simp only [List.map_cons, List.map_nil, List.foldl_cons, List.foldl_nil, hzipCol, gcol, hzip, rowT,
      List.zipWith_map_left, List.zipWith_map_right, List.zipWith_self]
    simp only [List.range'_concat, List.map_append, List.foldl_append, List.map_cons, List.map_nil,
      List.foldl_cons, List.foldl_nil]

/-- the grid tensor merged rows first: ladder of the merged rows -/
def rowsT (g : ℕ → ℕ → F4 R) (m n : ℕ) : F4 R :=
  ladder (rowT g n 0) ((List.range m).map fun r => rowT g n (r + 1))

theorem lrT_eq_rowsT (g : ℕ → ℕ → F4 R) (m n : ℕ) : lrT g m n = rowsT g m n := by
  unfold lrT rowsT
  rw [sweep_rows]
  rfl

/-- rows first = columns first -/
theorem rowsT_eq_gridT {g : ℕ → ℕ → F4 R} {m n : ℕ} (h : GridOK g m n) : rowsT g m n = gridT g m n := by
  rw [← lrT_eq_rowsT, lrT_eq_gridT h]

theorem foldl_vcomp_tr (a : F4 R) (l : List (F4 R)) : (l.map tr).foldl vcomp (tr a) = tr (l.foldl hcomp a) := by
  induction l generalizing a with
  | nil => rfl
  | cons b l ih => simp only [List.map_cons, List.foldl_cons]; rw [← ih]; rfl

theorem foldl_hcomp_tr (a : F4 R) (l : List (F4 R)) : (l.map tr).foldl hcomp (tr a) = tr (l.foldl vcomp a) := by
  induction l generalizing a with
  | nil => rfl
  | cons b l ih => simp only [List.map_cons, List.foldl_cons]; rw [← ih]; rfl

/-- the transposed network (`mps2d.transpose`: positions swapped, every tensor transposed) -/
def trGrid (g : ℕ → ℕ → F4 R) : ℕ → ℕ → F4 R := fun r c => tr (g c r)

theorem gridOK_tr {g : ℕ → ℕ → F4 R} {m n : ℕ} (h : GridOK g m n) : GridOK (trGrid g) n m where
  vert := fun r c hr hc => h.horiz c r hc hr
  horiz := fun r c hr hc => h.vert c r hc hr

theorem range'_one_map {α : Type*} (f : ℕ → α) (k : ℕ) :
    (List.range' 1 k).map f = (List.range k).map fun r => f (r + 1) := by
  rw [List.range'_eq_map_range, List.map_map]
  apply List.map_congr_left; intro r _; simp [Nat.add_comm]

/-- **transposed network**: sweeping the transposed network gives the transpose of the original result tensor -/
theorem lrT_trGrid {g : ℕ → ℕ → F4 R} {m n : ℕ} (h : GridOK g m n) :
    lrT (trGrid g) n m = tr (lrT g m n) := by
  rw [lrT_eq_gridT (gridOK_tr h), lrT_eq_rowsT]
  unfold gridT rowsT ladder
  have hcol : ∀ r, ladderCol (gcol (trGrid g) n r) = tr (rowT g n r) := by
    intro r
    unfold ladderCol ladder gcol trGrid rowT
    simp only
    rw [range'_one_map, ← foldl_vcomp_tr, List.map_map]
    rfl
  simp only [hcol]
  rw [range'_one_map (fun c => tr (rowT g n c)) m, ← foldl_hcomp_tr, List.map_map]
  rfl

/-- scalar read-out (`as_scalar` of a 1×1×1×1 tensor) -/
def scalar (A : F4 R) : R := A.f 0 0 0 0

theorem scalar_tr (A : F4 R) : scalar (tr A) = scalar A := rfl

end Qec.TensorAlg
