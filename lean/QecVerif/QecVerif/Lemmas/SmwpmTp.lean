/-
  Helper lemmas for Props/C03/TParity.lean — the time-parity bookkeeping of the rotated-toric symmetry-matching decoder
  as a function of the two matchings (Model/SmwpmTp.lean): the t-parity of a list of fused pairs is the parity of the
  number of pairs that wrap around the periodic time boundary; unpacking of `stageTps` / `decodeFtp`; invariance under
  the order and the orientation of the cluster matches; what `app._run_once` reports.
-/
import QecVerif.Model.SmwpmTp
import QecVerif.Lemmas.Ftp
namespace Qec.SmwpmTpL
open Qec Qec.Dec Qec.Smwpm Qec.Smwpm.Toric Qec.Ftp

/-! ### parity arithmetic -/

theorem xor_mod_two (a b : Nat) : (a % 2) ^^^ (b % 2) = (a + b) % 2 := by
  have e : (a + b) % 2 = (a % 2 + b % 2) % 2 := by omega
  rcases Nat.mod_two_eq_zero_or_one a with h | h <;> rcases Nat.mod_two_eq_zero_or_one b with h' | h' <;>
    rw [e, h, h'] <;> rfl

theorem xor_bit (a v : Nat) (ha : a ≤ 1) (hv : v ≤ 1) : a ^^^ v = (a + v) % 2 := by
  have h1 : a = 0 ∨ a = 1 := by omega
  have h2 : v = 0 ∨ v = 1 := by omega
  rcases h1 with rfl | rfl <;> rcases h2 with rfl | rfl <;> rfl

/-! ### time-wrapping pairs -/

/-- the fused pair `(a, b)` crosses the plane between `t = T − 1` and `t = 0`: the way round through the boundary is
    strictly shorter than the way through the bulk (`_tparity` returns 1) -/
def wraps (T : Int) (p : Smwpm.TIdx × Smwpm.TIdx) : Bool := decide (T < 2 * iabs (p.2.1 % T - p.1.1 % T))

/-- number of time-wrapping pairs in a list of fused pairs -/
def wrapCount (T : Int) (ps : List (Smwpm.TIdx × Smwpm.TIdx)) : Nat := ps.countP (wraps T)

theorem tparity_eq_wraps (T : Int) (hT : 1 ≤ T) (p : Smwpm.TIdx × Smwpm.TIdx) :
    tparity T p.1.1 p.2.1 = some (if wraps T p then 1 else 0) := by
  rw [tparity_pos T _ _ (by omega)]
  unfold wraps
  by_cases h : T < 2 * iabs (p.2.1 % T - p.1.1 % T)
  · rw [if_neg (by omega)]; simp [h]
  · rw [if_pos (by omega)]; simp [h]

theorem wraps_swap (T : Int) (a b : Smwpm.TIdx) : wraps T (b, a) = wraps T (a, b) := by
  unfold wraps; simp only []; rw [iabs_symm]

/-- only the time coordinates modulo `T` matter (periodic time axis; the space coordinates are irrelevant) -/
theorem wraps_congr (T : Int) (p q : Smwpm.TIdx × Smwpm.TIdx) (h1 : p.1.1 % T = q.1.1 % T)
    (h2 : p.2.1 % T = q.2.1 % T) : wraps T p = wraps T q := by
  unfold wraps; rw [h1, h2]

theorem wrapCount_nil (T : Int) : wrapCount T [] = 0 := rfl

theorem wrapCount_cons (T : Int) (p : Smwpm.TIdx × Smwpm.TIdx) (ps : List (Smwpm.TIdx × Smwpm.TIdx)) :
    wrapCount T (p :: ps) = wrapCount T ps + if wraps T p then 1 else 0 := by
  unfold wrapCount; rw [List.countP_cons]

theorem wrapCount_append (T : Int) (ps qs : List (Smwpm.TIdx × Smwpm.TIdx)) :
    wrapCount T (ps ++ qs) = wrapCount T ps + wrapCount T qs := by
  unfold wrapCount; rw [List.countP_append]

theorem wrapCount_perm (T : Int) (ps qs : List (Smwpm.TIdx × Smwpm.TIdx)) (h : ps.Perm qs) :
    wrapCount T ps = wrapCount T qs := h.countP_eq _

/-- the count sees a list only through its time-wrapping members -/
theorem wrapCount_filter (T : Int) (ps : List (Smwpm.TIdx × Smwpm.TIdx)) :
    wrapCount T (ps.filter (wraps T)) = wrapCount T ps := by
  unfold wrapCount
  rw [List.countP_filter]
  congr 1
  funext a
  cases wraps T a <;> rfl

theorem wrapCount_filter_length (T : Int) (ps : List (Smwpm.TIdx × Smwpm.TIdx)) :
    wrapCount T ps = (ps.filter (wraps T)).length := by
  unfold wrapCount; rw [List.countP_eq_length_filter]

theorem wrapCount_map_swap (T : Int) (ps : List (Smwpm.TIdx × Smwpm.TIdx)) :
    wrapCount T (ps.map Prod.swap) = wrapCount T ps := by
  induction ps with
  | nil => rfl
  | cons p ps ih =>
    obtain ⟨a, b⟩ := p
    rw [List.map_cons, wrapCount_cons, wrapCount_cons, ih]
    show _ + (if wraps T (b, a) then 1 else 0) = _
    rw [wraps_swap]

/-- with a single time step nothing wraps -/
theorem wraps_one (p : Smwpm.TIdx × Smwpm.TIdx) : wraps 1 p = false := by
  unfold wraps
  simp [Int.emod_one, iabs]

theorem wrapCount_one (ps : List (Smwpm.TIdx × Smwpm.TIdx)) : wrapCount 1 ps = 0 := by
  induction ps with
  | nil => rfl
  | cons p ps ih => rw [wrapCount_cons, ih, wraps_one]; rfl

/-! ### `tpFold` -/

/-- **the accumulated t-parity is the parity of the number of time-wrapping pairs** -/
theorem tpFold_eq (T : Int) (hT : 1 ≤ T) (ps : List (Smwpm.TIdx × Smwpm.TIdx)) (acc : Nat) (hacc : acc ≤ 1) :
    tpFold T ps acc = some ((acc + wrapCount T ps) % 2) := by
  induction ps generalizing acc with
  | nil => unfold tpFold; rw [wrapCount_nil]; congr 1; omega
  | cons p ps ih =>
    unfold tpFold
    rw [tparity_eq_wraps T hT p]
    simp only []
    have hv : (if wraps T p then 1 else 0 : Nat) ≤ 1 := by split <;> omega
    rw [ih _ (xor_le_one _ _ hacc hv), xor_bit _ _ hacc hv, wrapCount_cons]
    congr 1
    omega

theorem tpFold_zero (T : Int) (hT : 1 ≤ T) (ps : List (Smwpm.TIdx × Smwpm.TIdx)) :
    tpFold T ps 0 = some (wrapCount T ps % 2) := by
  rw [tpFold_eq T hT ps 0 (by omega), Nat.zero_add]

/-- whatever `T` is: when the fold returns, a bit stays a bit -/
theorem tpFold_bit (T : Int) (ps : List (Smwpm.TIdx × Smwpm.TIdx)) (acc r : Nat) (hacc : acc ≤ 1)
    (h : tpFold T ps acc = some r) : r ≤ 1 := by
  induction ps generalizing acc with
  | nil => unfold tpFold at h; cases h; exact hacc
  | cons p ps ih =>
    unfold tpFold at h
    cases hv : tparity T p.1.1 p.2.1 with
    | none => rw [hv] at h; cases h
    | some v =>
      rw [hv] at h
      exact ih _ (xor_le_one _ _ hacc (tparity_le_one T _ _ v hv)) h

/-! ### the fused pairs -/

/-- `xp`, `zp`: the X / Z pairs fused inside the clusters of the first matching; `cxp`, `czp`: the X / Z pairs fused
    for the cluster matches -/
def Fused (ms : List (Node × Node)) (cms : List (Nat × Nat))
    (xp zp cxp czp : List (Smwpm.TIdx × Smwpm.TIdx)) : Prop :=
  ∃ cls ns, clusters ms = .ok cls ∧ allClusterXZ cls = .ok (xp, zp) ∧ Smwpm.Toric.clusterNodes cls = .ok ns ∧
    allMatchXZ ns cms = .ok (cxp, czp)

theorem Fused.unique {ms : List (Node × Node)} {cms : List (Nat × Nat)}
    {xp zp cxp czp xp' zp' cxp' czp' : List (Smwpm.TIdx × Smwpm.TIdx)}
    (h : Fused ms cms xp zp cxp czp) (h' : Fused ms cms xp' zp' cxp' czp') :
    xp = xp' ∧ zp = zp' ∧ cxp = cxp' ∧ czp = czp' := by
  obtain ⟨cls, ns, h1, h2, h3, h4⟩ := h
  obtain ⟨cls', ns', h1', h2', h3', h4'⟩ := h'
  rw [h1] at h1'; cases h1'
  rw [h2] at h2'; cases h2'
  rw [h3] at h3'; cases h3'
  rw [h4] at h4'; cases h4'
  exact ⟨rfl, rfl, rfl, rfl⟩

theorem clusterPairs_of_XZ (cl : List Smwpm.TIdx) :
    clusterPairs cl = match clusterXZ cl with | .error e => .error e | .ok p => .ok (p.1 ++ p.2) := by
  unfold clusterPairs clusterXZ
  cases splitCluster cl with
  | error e => rfl
  | ok v => obtain ⟨xs, zs, d⟩ := v; rfl

theorem allClusterXZ_of_pairs (cls : List (List Smwpm.TIdx)) (ps : List (Smwpm.TIdx × Smwpm.TIdx))
    (h : allClusterPairs cls = .ok ps) : ∃ xz, allClusterXZ cls = .ok xz := by
  induction cls generalizing ps with
  | nil => exact ⟨_, rfl⟩
  | cons cl cls ih =>
    unfold allClusterPairs at h
    rw [clusterPairs_of_XZ] at h
    unfold allClusterXZ
    cases h1 : clusterXZ cl with
    | error e => rw [h1] at h; cases h
    | ok p =>
      rw [h1] at h; simp only [] at h ⊢
      cases h2 : allClusterPairs cls with
      | error e => rw [h2] at h; cases h
      | ok qs =>
        obtain ⟨q, hq⟩ := ih qs h2
        rw [hq]; exact ⟨_, rfl⟩

theorem allMatchXZ_of_pairs (ns : List ClNode) (cms : List (Nat × Nat)) (ps : List (Smwpm.TIdx × Smwpm.TIdx))
    (h : Smwpm.Toric.allMatchPairs ns cms = .ok ps) : ∃ xz, allMatchXZ ns cms = .ok xz := by
  induction cms generalizing ps with
  | nil => exact ⟨_, rfl⟩
  | cons m cms ih =>
    unfold Smwpm.Toric.allMatchPairs at h
    unfold allMatchXZ
    have hm : (∃ p, matchXZ ns m = .ok p) := by
      unfold Smwpm.Toric.matchPairs at h
      unfold matchXZ
      cases ha : ns[m.1]? with
      | none => rw [ha] at h; cases h
      | some a =>
        cases hb : ns[m.2]? with
        | none => rw [ha, hb] at h; cases h
        | some b => exact ⟨_, rfl⟩
    obtain ⟨p, hp⟩ := hm
    rw [hp]; simp only []
    cases h1 : Smwpm.Toric.matchPairs ns m with
    | error e => rw [h1] at h; cases h
    | ok ps1 =>
      rw [h1] at h; simp only [] at h
      cases h2 : Smwpm.Toric.allMatchPairs ns cms with
      | error e => rw [h2] at h; cases h
      | ok qs =>
        obtain ⟨q, hq⟩ := ih qs h2
        rw [hq]; exact ⟨_, rfl⟩

/-- whenever the recovery construction returns, the fused pairs exist -/
theorem fused_of_decode (R C : Int) (ms : List (Node × Node)) (cms : List (Nat × Nat)) (r : BVec)
    (h : Smwpm.Toric.decode R C ms cms = .ok r) : ∃ xp zp cxp czp, Fused ms cms xp zp cxp czp := by
  unfold Smwpm.Toric.decode at h
  cases hc : clusters ms with
  | error e => rw [hc] at h; cases h
  | ok cls =>
    rw [hc] at h; simp only at h
    cases h1 : Smwpm.Toric.recovery R C cls with
    | error e => rw [h1] at h; cases h
    | ok r1 =>
      rw [h1] at h; simp only at h
      cases hn : Smwpm.Toric.clusterNodes cls with
      | error e => rw [hn] at h; cases h
      | ok ns =>
        rw [hn] at h; simp only at h
        cases h2 : Smwpm.Toric.clusterRecovery R C ns cms with
        | error e => rw [h2] at h; cases h
        | ok r2 =>
          have e1 : ∃ xz, allClusterXZ cls = .ok xz := by
            unfold Smwpm.Toric.recovery at h1
            cases hp : allClusterPairs cls with
            | error e => rw [hp] at h1; cases h1
            | ok ps => exact allClusterXZ_of_pairs cls ps hp
          have e2 : ∃ xz, allMatchXZ ns cms = .ok xz := by
            unfold Smwpm.Toric.clusterRecovery at h2
            cases hp : Smwpm.Toric.allMatchPairs ns cms with
            | error e => rw [hp] at h2; cases h2
            | ok ps => exact allMatchXZ_of_pairs ns cms ps hp
          obtain ⟨⟨xp, zp⟩, hx⟩ := e1
          obtain ⟨⟨cxp, czp⟩, hz⟩ := e2
          exact ⟨xp, zp, cxp, czp, cls, ns, hc, hx, hn, hz⟩

/-- the four stage outputs are the parities of the four wrap counts -/
def tpsOf (T : Int) (xp zp cxp czp : List (Smwpm.TIdx × Smwpm.TIdx)) : StageTps :=
  ⟨wrapCount T xp % 2, wrapCount T zp % 2, wrapCount T cxp % 2, wrapCount T czp % 2⟩

theorem stageTps_of_fused (T : Int) (hT : 1 ≤ T) (ms : List (Node × Node)) (cms : List (Nat × Nat))
    (xp zp cxp czp : List (Smwpm.TIdx × Smwpm.TIdx)) (h : Fused ms cms xp zp cxp czp) :
    stageTps T ms cms = .ok (tpsOf T xp zp cxp czp) := by
  obtain ⟨cls, ns, h1, h2, h3, h4⟩ := h
  unfold stageTps
  rw [h1]; simp only []
  rw [h2]; simp only []
  rw [h3]; simp only []
  rw [h4]; simp only []
  rw [tpFold_zero T hT, tpFold_zero T hT, tpFold_zero T hT, tpFold_zero T hT]
  rfl

theorem fused_of_stageTps (T : Int) (ms : List (Node × Node)) (cms : List (Nat × Nat)) (s : StageTps)
    (h : stageTps T ms cms = .ok s) : ∃ xp zp cxp czp, Fused ms cms xp zp cxp czp ∧
      tpFold T xp 0 = some s.sx ∧ tpFold T zp 0 = some s.sz ∧ tpFold T cxp 0 = some s.cx ∧
      tpFold T czp 0 = some s.cz := by
  unfold stageTps at h
  cases h1 : clusters ms with
  | error e => rw [h1] at h; cases h
  | ok cls =>
    rw [h1] at h; simp only [] at h
    cases h2 : allClusterXZ cls with
    | error e => rw [h2] at h; cases h
    | ok sp =>
      rw [h2] at h; simp only [] at h
      cases h3 : Smwpm.Toric.clusterNodes cls with
      | error e => rw [h3] at h; cases h
      | ok ns =>
        rw [h3] at h; simp only [] at h
        cases h4 : allMatchXZ ns cms with
        | error e => rw [h4] at h; cases h
        | ok cp =>
          rw [h4] at h; simp only [] at h
          cases ha : tpFold T sp.1 0 with
          | none => rw [ha] at h; cases h
          | some a =>
            cases hb : tpFold T sp.2 0 with
            | none => rw [ha, hb] at h; cases h
            | some b =>
              cases hc : tpFold T cp.1 0 with
              | none => rw [ha, hb, hc] at h; cases h
              | some c =>
                cases hd : tpFold T cp.2 0 with
                | none => rw [ha, hb, hc, hd] at h; cases h
                | some d =>
                  rw [ha, hb, hc, hd] at h; cases h
                  exact ⟨sp.1, sp.2, cp.1, cp.2, ⟨cls, ns, h1, h2, h3, h4⟩, ha, hb, hc, hd⟩

/-! ### unpacking `decodeFtp` -/

theorem decodeFtp_unpack (R C : Int) (T : Nat) (itp : Bool) (ms : List (Node × Node)) (cms : List (Nat × Nat))
    (sm : Option (List BVec)) (res : Result) (h : decodeFtp R C T itp ms cms sm = .ok res) :
    ∃ r s, Smwpm.Toric.decode R C ms cms = .ok r ∧ stageTps T ms cms = .ok s ∧
      finalize R C itp T r (recoveryTps s).1 (recoveryTps s).2 sm = .ok res := by
  unfold decodeFtp at h
  cases h1 : Smwpm.Toric.decode R C ms cms with
  | error e => rw [h1] at h; cases h
  | ok r =>
    rw [h1] at h; simp only [] at h
    cases h2 : stageTps T ms cms with
    | error e => rw [h2] at h; cases h
    | ok s =>
      rw [h2] at h; simp only [] at h
      cases h3 : finalize R C itp T r (recoveryTps s).1 (recoveryTps s).2 sm with
      | error e => rw [h3] at h; cases h
      | ok res' => rw [h3] at h; cases h; exact ⟨r, s, rfl, rfl, h3⟩

theorem decodeFtp_pack (R C : Int) (T : Nat) (itp : Bool) (ms : List (Node × Node)) (cms : List (Nat × Nat))
    (sm : Option (List BVec)) (res : Result) (r : BVec) (s : StageTps)
    (h1 : Smwpm.Toric.decode R C ms cms = .ok r) (h2 : stageTps T ms cms = .ok s)
    (h3 : finalize R C itp T r (recoveryTps s).1 (recoveryTps s).2 sm = .ok res) :
    decodeFtp R C T itp ms cms sm = .ok res := by
  unfold decodeFtp
  rw [h1]; simp only []
  rw [h2]; simp only []
  rw [h3]

/-- `0 ^ symmetry ^ cluster` of two parities is the parity of the sum -/
theorem recoveryTps_tpsOf (T : Int) (xp zp cxp czp : List (Smwpm.TIdx × Smwpm.TIdx)) :
    recoveryTps (tpsOf T xp zp cxp czp) =
      (wrapCount T (xp ++ cxp) % 2, wrapCount T (zp ++ czp) % 2) := by
  unfold recoveryTps tpsOf
  simp only [Nat.zero_xor, xor_mod_two, wrapCount_append]

/-- the tail of `decode_ftp` does not look at the recovery -/
theorem finalize_recovery_indep (R C : Int) (itp : Bool) (T : Int) (r r' : BVec) (rx rz : Nat)
    (sm : Option (List BVec)) (res : Result) (h : finalize R C itp T r rx rz sm = .ok res) :
    finalize R C itp T r' rx rz sm = .ok { res with recovery := r' } := by
  by_cases hs : itp = true ∨ T = 1
  · rw [finalize_skip R C itp T r rx rz sm hs] at h
    rw [finalize_skip R C itp T r' rx rz sm hs]
    cases h; rfl
  · have hitp : itp = false := by cases itp <;> simp_all
    have hT : T ≠ 1 := fun h' => hs (Or.inr h')
    subst hitp
    match sm, h with
    | none, h => simp [finalize, hT] at h
    | some [], h => simp [finalize, hT] at h
    | some (m :: ms), h =>
      rw [finalize_tested R C T r rx rz m ms hT] at h
      rw [finalize_tested R C T r' rx rz m ms hT]
      simp only [] at h ⊢
      split at h <;> rename_i hc
      · cases h; rw [if_pos hc]
      · cases h; rw [if_neg hc]

/-! ### order and orientation of the cluster matches -/

/-- flip the orientation of the matches marked `true` -/
def flipSome : List Bool → List (Nat × Nat) → List (Nat × Nat)
  | b :: bs, m :: ms => (if b then (m.2, m.1) else m) :: flipSome bs ms
  | _, ms => ms

theorem matchXZ_swap (ns : List ClNode) (m : Nat × Nat) (p : (Smwpm.TIdx × Smwpm.TIdx) × (Smwpm.TIdx × Smwpm.TIdx))
    (h : matchXZ ns m = .ok p) : matchXZ ns (m.2, m.1) = .ok (p.1.swap, p.2.swap) := by
  unfold matchXZ at h ⊢
  cases ha : ns[m.1]? with
  | none => rw [ha] at h; cases h
  | some a =>
    cases hb : ns[m.2]? with
    | none => rw [ha, hb] at h; cases h
    | some b => rw [ha, hb] at h; cases h; rfl

theorem allMatchXZ_flip (T : Int) (ns : List ClNode) (bs : List Bool) (cms : List (Nat × Nat))
    (p : List (Smwpm.TIdx × Smwpm.TIdx) × List (Smwpm.TIdx × Smwpm.TIdx)) (h : allMatchXZ ns cms = .ok p) :
    ∃ p', allMatchXZ ns (flipSome bs cms) = .ok p' ∧ wrapCount T p'.1 = wrapCount T p.1 ∧
      wrapCount T p'.2 = wrapCount T p.2 := by
  induction cms generalizing bs p with
  | nil => cases bs <;> exact ⟨p, h, rfl, rfl⟩
  | cons m cms ih =>
    cases bs with
    | nil => exact ⟨p, h, rfl, rfl⟩
    | cons b bs =>
      unfold allMatchXZ at h
      cases h1 : matchXZ ns m with
      | error e => rw [h1] at h; cases h
      | ok q =>
        rw [h1] at h; simp only [] at h
        cases h2 : allMatchXZ ns cms with
        | error e => rw [h2] at h; cases h
        | ok qs =>
          rw [h2] at h; cases h
          obtain ⟨qs', hq, e1, e2⟩ := ih bs qs h2
          show ∃ p', allMatchXZ ns ((if b then (m.2, m.1) else m) :: flipSome bs cms) = .ok p' ∧ _
          cases b with
          | false =>
            refine ⟨(q.1 :: qs'.1, q.2 :: qs'.2), ?_, ?_, ?_⟩
            · unfold allMatchXZ; simp only [Bool.false_eq_true, if_false]; rw [h1]; simp only []; rw [hq]
            · simp only [wrapCount_cons, e1]
            · simp only [wrapCount_cons, e2]
          | true =>
            refine ⟨(q.1.swap :: qs'.1, q.2.swap :: qs'.2), ?_, ?_, ?_⟩
            · unfold allMatchXZ; simp only [if_true]; rw [matchXZ_swap ns m q h1]; simp only []; rw [hq]
            · simp only [wrapCount_cons, e1]
              obtain ⟨⟨a, b⟩, _⟩ := q
              show _ + (if wraps T (b, a) then 1 else 0) = _
              rw [wraps_swap]
            · simp only [wrapCount_cons, e2]
              obtain ⟨_, ⟨a, b⟩⟩ := q
              show _ + (if wraps T (b, a) then 1 else 0) = _
              rw [wraps_swap]

theorem allMatchXZ_perm (ns : List ClNode) (cms cms' : List (Nat × Nat)) (hp : cms.Perm cms') :
    ∀ p, allMatchXZ ns cms = .ok p → ∃ p', allMatchXZ ns cms' = .ok p' ∧ p.1.Perm p'.1 ∧ p.2.Perm p'.2 := by
  induction hp with
  | nil => intro p h; exact ⟨p, h, List.Perm.refl _, List.Perm.refl _⟩
  | cons m _ ih =>
    intro p h
    unfold allMatchXZ at h ⊢
    cases h1 : matchXZ ns m with
    | error e => rw [h1] at h; cases h
    | ok q =>
      rw [h1] at h; simp only [] at h ⊢
      rename_i l1 l2 _
      cases h2 : allMatchXZ ns l1 with
      | error e => rw [h2] at h; cases h
      | ok qs =>
        rw [h2] at h; cases h
        obtain ⟨qs', hq, e1, e2⟩ := ih qs h2
        rw [hq]
        exact ⟨_, rfl, e1.cons _, e2.cons _⟩
  | swap m m' l =>
    intro p h
    unfold allMatchXZ at h ⊢
    cases h1 : matchXZ ns m' with
    | error e => rw [h1] at h; cases h
    | ok q' =>
      rw [h1] at h; simp only [] at h
      unfold allMatchXZ at h ⊢
      cases h2 : matchXZ ns m with
      | error e => rw [h2] at h; cases h
      | ok q =>
        rw [h2] at h; simp only [] at h ⊢
        cases h3 : allMatchXZ ns l with
        | error e => rw [h3] at h; cases h
        | ok qs =>
          rw [h3] at h; cases h
          rw [h1]; simp only []
          exact ⟨_, rfl, List.Perm.swap _ _ _, List.Perm.swap _ _ _⟩
  | trans _ _ ih1 ih2 =>
    intro p h
    obtain ⟨p1, h1, a1, b1⟩ := ih1 p h
    obtain ⟨p2, h2, a2, b2⟩ := ih2 p1 h1
    exact ⟨p2, h2, a1.trans a2, b1.trans b2⟩

/-! ### the tested tail -/

/-- number of flipped X-plaquette / Z-plaquette measurements in a row of measurement errors -/
def flipsX (R C : Int) (m : BVec) : Nat :=
  ((RotatedToric.syndromeToPlaquettes R C m).filter fun i => RotatedToric.isXPlaquette i.1 i.2).length
def flipsZ (R C : Int) (m : BVec) : Nat :=
  ((RotatedToric.syndromeToPlaquettes R C m).filter fun i => RotatedToric.isZPlaquette i.1 i.2).length

theorem mtp_eq (R C : Int) (m : BVec) :
    measurementTparities R C m = (flipsX R C m % 2, flipsZ R C m % 2) := by
  have hp := filter_partition (fun i : Int × Int => RotatedToric.isXPlaquette i.1 i.2)
    (RotatedToric.syndromeToPlaquettes R C m)
  beta_reduce at hp
  apply Prod.ext
  · rfl
  · simp only [measurementTparities, flipsZ, RotatedToric.isZPlaquette]; omega

/-- when the time parity is tested, `custom_values` is `[rx ⊕ mx, rz ⊕ mz]` in both branches (the all-zero branch
    returns the literal `(0, 0)`), and `success` is `None` exactly when it is all zero -/
theorem finalize_tested_cv (R C : Int) (T : Int) (rec : BVec) (rx rz : Nat) (meas : List BVec) (hne : meas ≠ [])
    (hT : T ≠ 1) (res : Result) (h : finalize R C false T rec rx rz (some meas) = .ok res) :
    res.cv = [rx ^^^ (flipsX R C (meas.getLast hne) % 2), rz ^^^ (flipsZ R C (meas.getLast hne) % 2)] := by
  match meas, hne, h with
  | m :: ms, _, h =>
    rw [finalize_tested R C T rec rx rz m ms hT] at h
    simp only [mtp_eq] at h
    split at h <;> rename_i hc
    · cases h; rfl
    · cases h
      simp only [Bool.or_eq_true, bne_iff_ne, ne_eq, not_or, Decidable.not_not] at hc
      rw [hc.1, hc.2]

theorem finalize_total (R C : Int) (itp : Bool) (T : Int) (rec : BVec) (rx rz : Nat) (meas : List BVec)
    (hne : meas ≠ []) : ∃ res, finalize R C itp T rec rx rz (some meas) = .ok res := by
  by_cases hs : itp = true ∨ T = 1
  · exact ⟨_, finalize_skip R C itp T rec rx rz _ hs⟩
  · have hitp : itp = false := by cases itp <;> simp_all
    have hT : T ≠ 1 := fun h' => hs (Or.inr h')
    subst hitp
    match meas, hne with
    | m :: ms, _ =>
      rw [finalize_tested R C T rec rx rz m ms hT]
      simp only []
      split <;> exact ⟨_, rfl⟩

/-! ### what `app._run_once` reports -/

theorem runFtp_eq (S L : List BVec) (n : Nat) (es : List BVec) (res : Result) :
    runFtp S L n es res = .ok
      { errorWeight := bsfWtMat es
        success := match res.success with
          | none => isZero (synd S (xorV res.recovery (xorAll (2 * n) es))) &&
              isZero (synd L (xorV res.recovery (xorAll (2 * n) es)))
          | some s => s
        lc := some (bvecToInts (synd L (xorV res.recovery (xorAll (2 * n) es))))
        cv := some (res.cv.map Int.ofNat) } := rfl

end Qec.SmwpmTpL
