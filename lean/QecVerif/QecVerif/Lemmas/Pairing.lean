/-
  F5 — the pairing theorem, generic over a lattice interface.

  A lattice is seen through `PathSpec`: a list of in-lattice plaquettes `plaqs` (in the order of the stabilizer
  rows `S`), and a path operator `path a b` whose syndrome is exactly the in-lattice members of `{a, b}`
  (the C15 endpoint lemma, taken as the field `path_synd`).  For ANY list of admissible pairs the XOR-fold of the
  paths has, at plaquette `p`, the parity of the number of times `p` occurs as an endpoint; so when every defect
  occurs exactly once and every other endpoint is virtual / out of lattice (does not occur in `plaqs`, or occurs
  an even number of times) the syndrome is exactly the defect set.
-/
import QecVerif.Model.Decoders
import QecVerif.Lemmas.GF2
import QecVerif.Lemmas.RunOnce
namespace Qec.Pairing
open Qec Qec.Dec

/-! ### XOR-folds of indicator rows -/

theorem xor_decide_parity (k : Nat) (b : Bool) :
    xor (decide (k % 2 = 1)) b = decide ((k + if b then 1 else 0) % 2 = 1) := by
  cases b
  · simp
  · by_cases h : k % 2 = 1
    · have : (k + 1) % 2 ≠ 1 := by omega
      simp [h, this]
    · have : (k + 1) % 2 = 1 := by omega
      simp [h, this]

theorem xorV_map_map {ι : Type} (l : List ι) (f g : ι → Bool) :
    xorV (l.map f) (l.map g) = l.map fun p => xor (f p) (g p) := by
  induction l with
  | nil => rfl
  | cons a l ih =>
    simp only [xorV, List.map_cons, List.zipWith_cons_cons] at ih ⊢
    rw [ih]

theorem foldl_indicator {α ι : Type} (plaqs : List ι) (g : α → ι → Bool) (l : List α) (k : ι → Nat) :
    (l.map fun x => plaqs.map (g x)).foldl xorV (plaqs.map fun p => decide (k p % 2 = 1)) =
      plaqs.map fun p => decide ((k p + l.countP (fun x => g x p)) % 2 = 1) := by
  induction l generalizing k with
  | nil => simp
  | cons x l ih =>
    simp only [List.map_cons, List.foldl_cons, xorV_map_map]
    have : (plaqs.map fun p => xor (decide (k p % 2 = 1)) (g x p)) =
        plaqs.map fun p => decide ((k p + if g x p then 1 else 0) % 2 = 1) := by
      apply List.map_congr_left; intro p _; exact xor_decide_parity _ _
    rw [this, ih (fun p => k p + if g x p then 1 else 0)]
    apply List.map_congr_left; intro p _
    rw [List.countP_cons]
    congr 2
    by_cases h : g x p = true <;> simp [h] <;> omega

/-- **indicator sum**: if every operator `f x` has the indicator row `g x` as its syndrome, the XOR of the `f x`
    has, at plaquette `p`, the parity of `#{x | g x p}` -/
theorem synd_xorAll_indicator {α ι : Type} (n : Nat) (S : List BVec) (plaqs : List ι) (f : α → BVec)
    (g : α → ι → Bool) (l : List α)
    (hSl : S.length = plaqs.length)
    (hS : ∀ s ∈ S, s.length = 2 * n) (hf : ∀ x ∈ l, (f x).length = 2 * n)
    (hsyn : ∀ x ∈ l, synd S (f x) = plaqs.map (g x)) :
    synd S (xorAll (2 * n) (l.map f)) =
      plaqs.map fun p => decide (l.countP (fun x => g x p) % 2 = 1) := by
  unfold xorAll
  rw [← foldl_synd n S (l.map f) (zeros (2 * n)) (zeros_length _) hS
    (by intro e he; rw [List.mem_map] at he; obtain ⟨x, hx, rfl⟩ := he; exact hf x hx)]
  rw [synd_zeros, List.map_map]
  have h1 : (l.map (synd S ∘ f)) = l.map fun x => plaqs.map (g x) := by
    apply List.map_congr_left; intro x hx; exact hsyn x hx
  have hz : zeros S.length = plaqs.map fun _ => decide (0 % 2 = 1) := by simp [zeros, hSl]
  rw [h1, hz]
  have := foldl_indicator plaqs g l (fun _ => 0)
  simp only [Nat.zero_add] at this
  exact this

/-! ### the lattice interface and the pairing theorem -/

/-- what the pairing theorem needs to know about a lattice -/
structure PathSpec (ι : Type) [DecidableEq ι] where
  /-- number of qubits -/
  n : Nat
  /-- stabilizer rows, in the order of `plaqs` -/
  S : List BVec
  /-- the in-lattice plaquettes -/
  plaqs : List ι
  /-- the path operator (as a bsf vector) between two plaquette indices -/
  path : ι → ι → BVec
  /-- the admissible pairs (same type; real, boundary-virtual or off-lattice) -/
  ok : ι → ι → Prop
  S_plaqs : S.length = plaqs.length
  S_len : ∀ s ∈ S, s.length = 2 * n
  path_len : ∀ a b, ok a b → (path a b).length = 2 * n
  /-- C15: the path anticommutes exactly with the in-lattice members of `{a, b}` -/
  path_synd : ∀ a b, ok a b → synd S (path a b) = plaqs.map fun p => (decide (p = a) != decide (p = b))

theorem countP_pairs_parity {ι : Type} [DecidableEq ι] (pairs : List (ι × ι)) (p : ι) :
    pairs.countP (fun x => (decide (p = x.1) != decide (p = x.2))) % 2 = (ends pairs).count p % 2 := by
  induction pairs with
  | nil => rfl
  | cons x l ih =>
    have he : ends (x :: l) = x.1 :: x.2 :: ends l := by simp [ends]
    rw [he, List.countP_cons, List.count_cons, List.count_cons]
    obtain ⟨a, b⟩ := x
    simp only
    by_cases h1 : a = p <;> by_cases h2 : b = p
    · subst h1; subst h2; simp; omega
    · subst h1
      have : ¬ a = b := fun h => h2 h.symm
      simp [h2, this]; omega
    · subst h2
      have : ¬ b = a := fun h => h1 h.symm
      simp [h1, this]; omega
    · have h1' : ¬ p = a := fun h => h1 h.symm
      have h2' : ¬ p = b := fun h => h2 h.symm
      simp [h1, h2, h1', h2']; omega

/-- **pairing theorem** (parity form): the XOR of the paths of ANY list of admissible pairs has, at plaquette
    `p`, the parity of the number of occurrences of `p` among the endpoints -/
theorem pairing {ι : Type} [DecidableEq ι] (L : PathSpec ι) (pairs : List (ι × ι))
    (hok : ∀ x ∈ pairs, L.ok x.1 x.2) :
    synd L.S (xorAll (2 * L.n) (pairs.map fun x => L.path x.1 x.2)) =
      L.plaqs.map fun p => decide ((ends pairs).count p % 2 = 1) := by
  rw [synd_xorAll_indicator L.n L.S L.plaqs (fun x => L.path x.1 x.2)
    (fun x p => (decide (p = x.1) != decide (p = x.2))) pairs L.S_plaqs L.S_len
    (fun x hx => L.path_len _ _ (hok x hx)) (fun x hx => L.path_synd _ _ (hok x hx))]
  apply List.map_congr_left; intro p _
  rw [countP_pairs_parity]

/-- **pairing theorem** (defect form): if every in-lattice plaquette occurs among the endpoints exactly once
    when it is a defect and not at all otherwise (every other endpoint is virtual / off-lattice), the XOR of the
    paths has syndrome exactly the defect set -/
theorem pairing_defects {ι : Type} [DecidableEq ι] (L : PathSpec ι) (pairs : List (ι × ι)) (defects : List ι)
    (hok : ∀ x ∈ pairs, L.ok x.1 x.2)
    (hocc : ∀ p ∈ L.plaqs, (ends pairs).count p = if p ∈ defects then 1 else 0) :
    synd L.S (xorAll (2 * L.n) (pairs.map fun x => L.path x.1 x.2)) =
      L.plaqs.map fun p => decide (p ∈ defects) := by
  rw [pairing L pairs hok]
  apply List.map_congr_left; intro p hp
  rw [hocc p hp]
  by_cases h : p ∈ defects <;> simp [h]

/-- unary form (a run from a plaquette to the boundary): operators `run a` with syndrome exactly `{a}` -/
theorem runs_defects {ι : Type} [DecidableEq ι] (n : Nat) (S : List BVec) (plaqs : List ι) (run : ι → BVec)
    (defects : List ι)
    (hSl : S.length = plaqs.length) (hS : ∀ s ∈ S, s.length = 2 * n)
    (hlen : ∀ a ∈ defects, (run a).length = 2 * n)
    (hsyn : ∀ a ∈ defects, synd S (run a) = plaqs.map fun p => decide (p = a))
    (hnd : defects.Nodup) :
    synd S (xorAll (2 * n) (defects.map run)) = plaqs.map fun p => decide (p ∈ defects) := by
  rw [synd_xorAll_indicator n S plaqs run (fun a p => decide (p = a)) defects hSl hS hlen hsyn]
  apply List.map_congr_left; intro p _
  have : defects.countP (fun a => decide (p = a)) = defects.count p := by
    rw [List.count_eq_countP]; congr 1; funext a
    by_cases h : a = p
    · subst h; simp
    · have : ¬ p = a := fun h' => h h'.symm
      simp [h, this]
  rw [this]
  by_cases h : p ∈ defects
  · rw [List.count_eq_one_of_mem hnd h]; simp [h]
  · rw [List.count_eq_zero_of_not_mem h]; simp [h]

/-! ### a syndrome vector and its defect list -/

/-- `syndrome_to_plaquette_indices` as a list -/
def pick {ι : Type} (plaqs : List ι) (s : BVec) : List ι :=
  (plaqs.zip s).filterMap fun p => if p.2 then some p.1 else none

theorem mem_pick_cons {ι : Type} (a : ι) (l : List ι) (b : Bool) (s : BVec) (p : ι) :
    p ∈ pick (a :: l) (b :: s) ↔ (b = true ∧ p = a) ∨ p ∈ pick l s := by
  cases b
  · simp [pick]
  · simp [pick]

theorem pick_subset {ι : Type} (plaqs : List ι) (s : BVec) : ∀ p ∈ pick plaqs s, p ∈ plaqs := by
  induction plaqs generalizing s with
  | nil => intro p hp; simp [pick] at hp
  | cons a l ih =>
    cases s with
    | nil => intro p hp; simp [pick] at hp
    | cons b s =>
      intro p hp
      rw [mem_pick_cons] at hp
      rcases hp with ⟨_, rfl⟩ | hp
      · simp
      · exact List.mem_cons_of_mem _ (ih s p hp)

theorem pick_nodup {ι : Type} (plaqs : List ι) (s : BVec) (h : plaqs.Nodup) : (pick plaqs s).Nodup := by
  induction plaqs generalizing s with
  | nil => simp [pick]
  | cons a l ih =>
    cases s with
    | nil => simp [pick]
    | cons b s =>
      rw [List.nodup_cons] at h
      have hrec := ih s h.2
      cases b
      · simpa [pick] using hrec
      · have : pick (a :: l) (true :: s) = a :: pick l s := by simp [pick]
        rw [this, List.nodup_cons]
        exact ⟨fun hm => h.1 (pick_subset l s a hm), hrec⟩

/-- the defect list determines the syndrome vector -/
theorem map_mem_pick {ι : Type} [DecidableEq ι] (plaqs : List ι) (s : BVec) (hn : plaqs.Nodup)
    (hl : s.length = plaqs.length) : (plaqs.map fun p => decide (p ∈ pick plaqs s)) = s := by
  induction plaqs generalizing s with
  | nil => cases s with
    | nil => rfl
    | cons _ _ => simp at hl
  | cons a l ih =>
    cases s with
    | nil => simp at hl
    | cons b s =>
      rw [List.nodup_cons] at hn
      simp only [List.length_cons, Nat.add_right_cancel_iff] at hl
      rw [List.map_cons]
      congr 1
      · cases b
        · have : a ∉ pick l s := fun h => hn.1 (pick_subset l s a h)
          simp [mem_pick_cons, this]
        · simp [mem_pick_cons]
      · rw [← ih s hn.2 hl]
        apply List.map_congr_left; intro p hp
        have hpa : p ≠ a := fun h => hn.1 (h ▸ hp)
        simp [mem_pick_cons, hpa, ih s hn.2 hl]

end Qec.Pairing
