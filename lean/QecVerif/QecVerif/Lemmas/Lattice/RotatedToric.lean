/-
  Helper lemmas for the rotated-toric lattice (C15): toggling bits, parity sums, the symbolic modulus,
  the closed form of the path loop, the plaquette walk behind a path and the translation residues.
-/
import QecVerif.Model.Lattice.RotatedToric
import QecVerif.Lemmas.GF2
namespace Qec.RotatedToric.Lem
open Qec Qec.RotatedToric

/-! ### A. bits: `toggle`, iterated toggles, parity sums -/

/-- XOR of `f` over a list -/
def parity {α} (f : α → Bool) : List α → Bool
  | [] => false
  | a :: l => xor (f a) (parity f l)

@[simp] theorem parity_nil {α} (f : α → Bool) : parity f [] = false := rfl
@[simp] theorem parity_cons {α} (f : α → Bool) (a : α) (l : List α) :
    parity f (a :: l) = xor (f a) (parity f l) := rfl

theorem parity_append {α} (f : α → Bool) (l₁ l₂ : List α) :
    parity f (l₁ ++ l₂) = xor (parity f l₁) (parity f l₂) := by
  induction l₁ with
  | nil => simp
  | cons a l ih => simp [ih]

theorem parity_map {α β} (g : α → β) (f : β → Bool) (l : List α) :
    parity f (l.map g) = parity (fun a => f (g a)) l := by
  induction l with
  | nil => rfl
  | cons a l ih => simp [ih]

theorem parity_congr {α} (f g : α → Bool) (l : List α) (h : ∀ a ∈ l, f a = g a) :
    parity f l = parity g l := by
  induction l with
  | nil => rfl
  | cons a l ih =>
    simp only [parity_cons]
    rw [h a (by simp), ih (fun b hb => h b (by simp [hb]))]

theorem parity_false {α} (l : List α) : parity (fun _ => false) l = false := by
  induction l with
  | nil => rfl
  | cons a l ih => simp [ih]

/-- telescoping: if `f (i) = g i ^^ g (i+1)` for every `i < n` then the XOR over `range n` is `g 0 ^^ g n` -/
theorem parity_telescope (f g : Nat → Bool) (n : Nat) (h : ∀ i, i < n → f i = xor (g i) (g (i + 1))) :
    parity f (List.range n) = xor (g 0) (g n) := by
  induction n with
  | zero => simp
  | succ n ih =>
    rw [List.range_succ, parity_append, ih (fun i hi => h i (by omega))]
    simp only [parity_cons, parity_nil, Bool.xor_false]
    rw [h n (by omega)]
    cases g 0 <;> cases g n <;> cases g (n + 1) <;> rfl

/-- `l.foldl toggle v` -/
def tog (v : BVec) (l : List Nat) : BVec := l.foldl toggle v

@[simp] theorem tog_nil (v : BVec) : tog v [] = v := rfl
@[simp] theorem tog_cons (v : BVec) (i : Nat) (l : List Nat) : tog v (i :: l) = tog (toggle v i) l := rfl

@[simp] theorem toggle_length (v : BVec) (i : Nat) : (toggle v i).length = v.length := by
  simp [toggle]

@[simp] theorem tog_length (v : BVec) (l : List Nat) : (tog v l).length = v.length := by
  induction l generalizing v with
  | nil => rfl
  | cons i l ih => simp [ih]

theorem getD_toggle (v : BVec) (i k : Nat) (hi : i < v.length) :
    (toggle v i).getD k false = xor (v.getD k false) (decide (i = k)) := by
  simp only [toggle, List.getD_eq_getElem?_getD, List.getElem?_modify]
  by_cases hik : i = k
  · subst hik
    simp [List.getElem?_eq_getElem hi]
  · simp only [hik, ↓reduceIte, decide_false, Bool.xor_false]
    cases v[k]? <;> simp

theorem getD_tog (v : BVec) (l : List Nat) (k : Nat) (hl : ∀ i ∈ l, i < v.length) :
    (tog v l).getD k false = xor (v.getD k false) (parity (fun i => decide (i = k)) l) := by
  induction l generalizing v with
  | nil => simp
  | cons i l ih =>
    rw [tog_cons, ih _ (by intro j hj; simpa using hl j (by simp [hj])),
      getD_toggle v i k (hl i (by simp)), parity_cons, Bool.xor_assoc]

theorem getD_zeros (n k : Nat) : (zeros n).getD k false = false := by
  simp [zeros, List.getD_eq_getElem?_getD, List.getElem?_replicate]
  split <;> rfl

theorem dot_toggle_left (a b : BVec) (k : Nat) (hk : k < a.length) :
    dot (toggle a k) b = xor (dot a b) (b.getD k false) := by
  induction a generalizing b k with
  | nil => simp at hk
  | cons x xs ih =>
    cases b with
    | nil => simp
    | cons y ys =>
      cases k with
      | zero =>
        simp only [toggle, List.modify_cons, ↓reduceIte, dot_cons, List.getD_cons_zero]
        cases x <;> cases y <;> cases dot xs ys <;> rfl
      | succ k =>
        have := ih ys k (by simpa using hk)
        simp only [toggle] at this
        simp only [toggle, List.modify_succ_cons, dot_cons, List.getD_cons_succ, this, Bool.xor_assoc]

theorem dot_tog_left (a b : BVec) (l : List Nat) (hl : ∀ i ∈ l, i < a.length) :
    dot (tog a l) b = xor (dot a b) (parity (fun i => b.getD i false) l) := by
  induction l generalizing a with
  | nil => simp
  | cons i l ih =>
    rw [tog_cons, ih _ (by intro j hj; simpa using hl j (by simp [hj])),
      dot_toggle_left a b i (hl i (by simp)), parity_cons, Bool.xor_assoc]

theorem dot_zeros_left (n : Nat) (b : BVec) : dot (zeros n) b = false := by
  induction n generalizing b with
  | zero => simp [zeros]
  | succ n ih =>
    cases b with
    | nil => simp
    | cons y ys =>
      have := ih ys
      simp only [zeros] at this
      simp [zeros, List.replicate_succ, this]

theorem dot_zeros_right (n : Nat) (b : BVec) : dot b (zeros n) = false := by
  rw [dot_comm, dot_zeros_left]

/-- the overlap parity of two toggle patterns: pairs of equal indices -/
theorem dot_tog_tog (n : Nat) (l₁ l₂ : List Nat) (h₁ : ∀ i ∈ l₁, i < n) (h₂ : ∀ i ∈ l₂, i < n) :
    dot (tog (zeros n) l₁) (tog (zeros n) l₂) =
      parity (fun i => parity (fun j => decide (j = i)) l₂) l₁ := by
  rw [dot_tog_left _ _ _ (by simpa [zeros] using h₁), dot_zeros_left, Bool.false_xor]
  apply parity_congr
  intro i _
  rw [getD_tog _ _ _ (by simpa [zeros] using h₂), getD_zeros, Bool.false_xor]

theorem toggle_append_left (a b : BVec) (i : Nat) (hi : i < a.length) :
    toggle (a ++ b) i = toggle a i ++ b := by
  induction a generalizing i with
  | nil => simp at hi
  | cons x xs ih =>
    cases i with
    | zero => simp [toggle]
    | succ i =>
      have := ih i (by simpa using hi)
      simp only [toggle] at this
      simp [toggle, this]

theorem toggle_append_right (a b : BVec) (i : Nat) :
    toggle (a ++ b) (a.length + i) = a ++ toggle b i := by
  induction a with
  | nil => simp
  | cons x xs ih =>
    simp only [toggle] at ih
    simp only [toggle, List.length_cons, List.cons_append]
    rw [show xs.length + 1 + i = (xs.length + i) + 1 by omega, List.modify_succ_cons, ih]

theorem zeros_add (n : Nat) : zeros (2 * n) = zeros n ++ zeros n := by
  simp [zeros, Nat.two_mul]

theorem bsp_split (ax az bx bz : BVec) (n : Nat) (h1 : ax.length = n) (h2 : az.length = n)
    (h3 : bx.length = n) (h4 : bz.length = n) :
    bsp (ax ++ az) (bx ++ bz) = xor (dot az bx) (dot ax bz) := by
  rw [bsp_halves _ _ (by simp [h1, h2, h3, h4]) (by simp [h1, h2]; omega),
    xHalf_append _ _ (by omega), zHalf_append _ _ (by omega), xHalf_append _ _ (by omega),
    zHalf_append _ _ (by omega)]

theorem bsfWt_split (ax az : BVec) (h : ax.length = az.length) :
    bsfWt (ax ++ az) = (List.zipWith or ax az).countP id := by
  rw [bsfWt, xHalf_append _ _ h, zHalf_append _ _ h]

/-! ### B. flat indices and `sites` in split form -/

/-- flat qubit index of the site `i` (reduced modulo the lattice) -/
def flatOf (R C : Int) (i : Int × Int) : Nat :=
  (flatten R C (modIndex R C i).1 (modIndex R C i).2).toNat

theorem emod_lt' (x m : Int) (hm : 0 < m) : 0 ≤ x % m ∧ x % m < m :=
  ⟨Int.emod_nonneg _ (by omega), Int.emod_lt_of_pos _ hm⟩

theorem flatten_eq (R C x y : Int) : flatten R C x y = x + y * C := by
  simp [flatten, maxX]

theorem modIndex_eq (R C : Int) (i : Int × Int) : modIndex R C i = (i.1 % C, i.2 % R) := by
  simp [modIndex, maxX, maxY]

theorem flat_bound (R C x y : Int) (hx0 : 0 ≤ x) (hx : x < C) (hy0 : 0 ≤ y) (hy : y < R) :
    0 ≤ x + y * C ∧ x + y * C < R * C := by
  have h1 : 0 ≤ y * C := Int.mul_nonneg hy0 (by omega)
  have h2 : y * C ≤ (R - 1) * C := Int.mul_le_mul_of_nonneg_right (by omega) (by omega)
  have h3 : (R - 1) * C = R * C - C := by rw [Int.sub_mul]; omega
  omega

theorem flatOf_lt (R C : Int) (hR : 0 < R) (hC : 0 < C) (i : Int × Int) :
    flatOf R C i < (nQubits R C).toNat := by
  have hx := emod_lt' i.1 C hC
  have hy := emod_lt' i.2 R hR
  have := flat_bound R C _ _ hx.1 hx.2 hy.1 hy.2
  simp only [flatOf, flatten_eq, modIndex_eq, nQubits]
  omega

theorem flat_inj (C x y x' y' : Int) (hx0 : 0 ≤ x) (hx : x < C) (hx0' : 0 ≤ x') (hx' : x' < C)
    (h : x + y * C = x' + y' * C) : x = x' ∧ y = y' := by
  have e1 : (x + y * C) % C = x := by rw [Int.add_mul_emod_self_right]; exact Int.emod_eq_of_lt hx0 hx
  have e2 : (x' + y' * C) % C = x' := by rw [Int.add_mul_emod_self_right]; exact Int.emod_eq_of_lt hx0' hx'
  have hxx : x = x' := by rw [← e1, ← e2, h]
  subst hxx
  refine ⟨rfl, ?_⟩
  have : y * C = y' * C := by omega
  exact Int.eq_of_mul_eq_mul_right (by omega) this

theorem flatOf_eq_iff (R C : Int) (hR : 0 < R) (hC : 0 < C) (i j : Int × Int) :
    flatOf R C i = flatOf R C j ↔ (i.1 % C = j.1 % C ∧ i.2 % R = j.2 % R) := by
  have hx := emod_lt' i.1 C hC
  have hy := emod_lt' i.2 R hR
  have hx' := emod_lt' j.1 C hC
  have hy' := emod_lt' j.2 R hR
  have b1 := flat_bound R C _ _ hx.1 hx.2 hy.1 hy.2
  have b2 := flat_bound R C _ _ hx'.1 hx'.2 hy'.1 hy'.2
  simp only [flatOf, flatten_eq, modIndex_eq]
  constructor
  · intro h
    exact flat_inj C _ _ _ _ hx.1 hx.2 hx'.1 hx'.2 (by omega)
  · rintro ⟨h1, h2⟩
    rw [h1, h2]

theorem site_eq (R C : Int) (op : P1) (v : BVec) (i : Int × Int) :
    site R C op v i = applyOp (nQubits R C).toNat op v (flatOf R C i) := rfl

theorem applyOp_split (n : Nat) (op : P1) (vx vz : BVec) (f : Nat) (hx : vx.length = n) (hf : f < n) :
    applyOp n op (vx ++ vz) f =
      (if op.xBit then toggle vx f else vx) ++ (if op.zBit then toggle vz f else vz) := by
  subst hx
  cases op
  · simp [applyOp, P1.xBit, P1.zBit]
  · simp [applyOp, P1.xBit, P1.zBit, toggle_append_left _ _ _ hf]
  · simp only [applyOp, P1.xBit, P1.zBit, ↓reduceIte, toggle_append_left _ _ _ hf]
    rw [← toggle_length vx f, toggle_append_right]
  · simp [applyOp, P1.xBit, P1.zBit, toggle_append_right]

theorem sites_split (R C : Int) (hR : 0 < R) (hC : 0 < C) (op : P1) (vx vz : BVec) (l : List (Int × Int))
    (hx : vx.length = (nQubits R C).toNat) :
    sites R C op (vx ++ vz) l =
      (if op.xBit then tog vx (l.map (flatOf R C)) else vx) ++
      (if op.zBit then tog vz (l.map (flatOf R C)) else vz) := by
  induction l generalizing vx vz with
  | nil => cases op <;> simp [sites, P1.xBit, P1.zBit]
  | cons i l ih =>
    have hs : sites R C op (vx ++ vz) (i :: l) = sites R C op (site R C op (vx ++ vz) i) l := rfl
    rw [hs, site_eq, applyOp_split _ op vx vz _ hx (flatOf_lt R C hR hC i), ih]
    · cases op <;> simp [P1.xBit, P1.zBit]
    · cases op <;> simp [P1.xBit, hx]

/-- the overlap parity of two site patterns on the zero vector -/
theorem bsp_sites_sites (R C : Int) (hR : 0 < R) (hC : 0 < C) (op₁ op₂ : P1) (l₁ l₂ : List (Int × Int)) :
    bsp (sites R C op₁ (identity R C) l₁) (sites R C op₂ (identity R C) l₂) =
      (xor (op₁.zBit && op₂.xBit) (op₁.xBit && op₂.zBit) &&
        parity (fun i => parity (fun j => decide (flatOf R C j = flatOf R C i)) l₂) l₁) := by
  have hz : (zeros (nQubits R C).toNat).length = (nQubits R C).toNat := by simp [zeros]
  have hb₁ : ∀ i ∈ l₁.map (flatOf R C), i < (nQubits R C).toNat := by
    intro i hi; simp only [List.mem_map] at hi; obtain ⟨j, _, rfl⟩ := hi; exact flatOf_lt R C hR hC j
  have hb₂ : ∀ i ∈ l₂.map (flatOf R C), i < (nQubits R C).toNat := by
    intro i hi; simp only [List.mem_map] at hi; obtain ⟨j, _, rfl⟩ := hi; exact flatOf_lt R C hR hC j
  have key := dot_tog_tog _ _ _ hb₁ hb₂
  have key' := dot_tog_tog _ _ _ hb₂ hb₁
  rw [parity_map] at key key'
  simp only [parity_map] at key key'
  have hsymm : parity (fun i => parity (fun j => decide (flatOf R C j = flatOf R C i)) l₁) l₂
      = parity (fun i => parity (fun j => decide (flatOf R C j = flatOf R C i)) l₂) l₁ := by
    rw [← key, ← key', dot_comm]
  rw [identity, zeros_add, sites_split R C hR hC _ _ _ _ hz, sites_split R C hR hC _ _ _ _ hz,
    bsp_split _ _ _ _ (nQubits R C).toNat (by split <;> simp [hz]) (by split <;> simp [hz])
      (by split <;> simp [hz]) (by split <;> simp [hz])]
  cases op₁ <;> cases op₂ <;>
    simp [P1.xBit, P1.zBit, dot_zeros_left, dot_zeros_right, key]

/-! ### C. congruence modulo the lattice -/

/-- equality of two indices modulo the lattice (`x` modulo columns, `y` modulo rows) -/
def cong (R C : Int) (q s : Int × Int) : Prop := q.1 % C = s.1 % C ∧ q.2 % R = s.2 % R

instance (R C : Int) (q s : Int × Int) : Decidable (cong R C q s) := by unfold cong; infer_instance

theorem emod_eq_iff_dvd (x y m : Int) : x % m = y % m ↔ m ∣ x - y := by
  rw [Int.emod_eq_emod_iff_emod_sub_eq_zero, Int.dvd_iff_emod_eq_zero]

theorem cong_iff_of_sub_eq (R C : Int) (q s q' s' : Int × Int) (h1 : q.1 - s.1 = q'.1 - s'.1)
    (h2 : q.2 - s.2 = q'.2 - s'.2) : cong R C q s ↔ cong R C q' s' := by
  simp only [cong, emod_eq_iff_dvd, h1, h2]

theorem cong_parity (R C : Int) (hRe : R % 2 = 0) (hCe : C % 2 = 0) (q s : Int × Int) (h : cong R C q s) :
    (q.1 - q.2 - (s.1 - s.2)) % 2 = 0 := by
  simp only [cong, emod_eq_iff_dvd] at h
  have h1 : (2 : Int) ∣ q.1 - s.1 := Int.dvd_trans (Int.dvd_of_emod_eq_zero hCe) h.1
  have h2 : (2 : Int) ∣ q.2 - s.2 := Int.dvd_trans (Int.dvd_of_emod_eq_zero hRe) h.2
  omega

theorem cong_refl (R C : Int) (q : Int × Int) : cong R C q q := ⟨rfl, rfl⟩
theorem cong_symm (R C : Int) (q s : Int × Int) (h : cong R C q s) : cong R C s q := ⟨h.1.symm, h.2.symm⟩
theorem cong_trans (R C : Int) (q s t : Int × Int) (h : cong R C q s) (h' : cong R C s t) : cong R C q t :=
  ⟨h.1.trans h'.1, h.2.trans h'.2⟩

theorem cong_modIndex (R C : Int) (q : Int × Int) : cong R C (modIndex R C q) q := by
  simp only [cong, modIndex_eq, Int.emod_emod_of_dvd _ (Int.dvd_refl _)]
  exact ⟨trivial, trivial⟩

theorem inBounds_iff (R C x y : Int) : inBounds R C x y = true ↔ (0 ≤ x ∧ x < C ∧ 0 ≤ y ∧ y < R) := by
  unfold inBounds maxX maxY
  simp only [Bool.and_eq_true, decide_eq_true_eq]
  omega

/-- for a canonical (in-bounds) index `p`: `p = modIndex q ↔ p ≡ q` -/
theorem eq_modIndex_iff (R C : Int) (p q : Int × Int) (hp : inBounds R C p.1 p.2 = true) :
    p = modIndex R C q ↔ cong R C p q := by
  rw [inBounds_iff] at hp
  have e1 : p.1 % C = p.1 := Int.emod_eq_of_lt (by omega) (by omega)
  have e2 : p.2 % R = p.2 := Int.emod_eq_of_lt (by omega) (by omega)
  simp only [cong, modIndex_eq, e1, e2]
  constructor
  · intro h; rw [h]; exact ⟨rfl, rfl⟩
  · rintro ⟨h1, h2⟩; exact Prod.ext h1 h2

/-- incidence of the (reduced) site `s` with the four corners of plaquette `p`, as an XOR -/
def inc (R C : Int) (s p : Int × Int) : Bool :=
  parity (fun q => decide (flatOf R C q = flatOf R C s)) (plaquetteSites p.1 p.2)

theorem inc_eq (R C : Int) (hR : 0 < R) (hC : 0 < C) (s p : Int × Int) :
    inc R C s p = xor (decide (cong R C p (s.1, s.2))) (xor (decide (cong R C p (s.1, s.2 - 1)))
      (xor (decide (cong R C p (s.1 - 1, s.2 - 1))) (decide (cong R C p (s.1 - 1, s.2))))) := by
  simp only [inc, plaquetteSites, parity_cons, parity_nil, Bool.xor_false, flatOf_eq_iff R C hR hC]
  have e (a b : Int) : decide ((p.1 + a) % C = s.1 % C ∧ (p.2 + b) % R = s.2 % R)
      = decide (cong R C p (s.1 - a, s.2 - b)) :=
    decide_eq_decide.mpr (cong_iff_of_sub_eq R C (p.1 + a, p.2 + b) s p (s.1 - a, s.2 - b)
      (by simp only []; omega) (by simp only []; omega))
  have e00 := e 0 0; have e01 := e 0 1; have e11 := e 1 1; have e10 := e 1 0
  simp only [Int.add_zero, Int.sub_zero] at e00 e01 e10
  rw [e00, e01, e11, e10]

theorem cong_false_of_parity (R C : Int) (hRe : R % 2 = 0) (hCe : C % 2 = 0) (p q : Int × Int)
    (h : (p.1 - p.2 - (q.1 - q.2)) % 2 = 1) : decide (cong R C p q) = false := by
  apply decide_eq_false
  intro hc
  have := cong_parity R C hRe hCe p q hc
  omega

/-- **site flip**: a site `s` toggles, among the plaquettes `p` of the type of `Q`, exactly `Q` and the
    plaquette diagonally opposite to `Q` across `s`, whenever `Q` is one of the four plaquettes around `s` -/
theorem site_flip (R C : Int) (hR : 0 < R) (hC : 0 < C) (hRe : R % 2 = 0) (hCe : C % 2 = 0)
    (s p : Int × Int) (Qx Qy : Int) (hQx : Qx = s.1 - 1 ∨ Qx = s.1) (hQy : Qy = s.2 - 1 ∨ Qy = s.2)
    (hpar : (p.1 - p.2 - (Qx - Qy)) % 2 = 0) :
    inc R C s p = xor (decide (cong R C p (Qx, Qy)))
      (decide (cong R C p (2 * s.1 - 1 - Qx, 2 * s.2 - 1 - Qy))) := by
  rw [inc_eq R C hR hC]
  rcases hQx with rfl | rfl <;> rcases hQy with rfl | rfl
  · rw [cong_false_of_parity R C hRe hCe p (s.1, s.2 - 1) (by simp only []; omega),
      cong_false_of_parity R C hRe hCe p (s.1 - 1, s.2) (by simp only []; omega),
      show 2 * s.1 - 1 - (s.1 - 1) = s.1 by omega, show 2 * s.2 - 1 - (s.2 - 1) = s.2 by omega]
    cases decide (cong R C p (s.1, s.2)) <;> cases decide (cong R C p (s.1 - 1, s.2 - 1)) <;> rfl
  · rw [cong_false_of_parity R C hRe hCe p (s.1, s.2) (by simp only []; omega),
      cong_false_of_parity R C hRe hCe p (s.1 - 1, s.2 - 1) (by simp only []; omega),
      show 2 * s.1 - 1 - (s.1 - 1) = s.1 by omega, show 2 * s.2 - 1 - s.2 = s.2 - 1 by omega]
    cases decide (cong R C p (s.1, s.2 - 1)) <;> cases decide (cong R C p (s.1 - 1, s.2)) <;> rfl
  · rw [cong_false_of_parity R C hRe hCe p (s.1, s.2) (by simp only []; omega),
      cong_false_of_parity R C hRe hCe p (s.1 - 1, s.2 - 1) (by simp only []; omega),
      show 2 * s.1 - 1 - s.1 = s.1 - 1 by omega, show 2 * s.2 - 1 - (s.2 - 1) = s.2 by omega]
    cases decide (cong R C p (s.1, s.2 - 1)) <;> cases decide (cong R C p (s.1 - 1, s.2)) <;> rfl
  · rw [cong_false_of_parity R C hRe hCe p (s.1, s.2 - 1) (by simp only []; omega),
      cong_false_of_parity R C hRe hCe p (s.1 - 1, s.2) (by simp only []; omega),
      show 2 * s.1 - 1 - s.1 = s.1 - 1 by omega, show 2 * s.2 - 1 - s.2 = s.2 - 1 by omega]
    cases decide (cong R C p (s.1, s.2)) <;> cases decide (cong R C p (s.1 - 1, s.2 - 1)) <;> rfl

/-! ### D. the path loop: closed form -/

/-- remaining steps of a counter that started at `s`, after `i` iterations -/
def rem (s : Int) (i : Nat) : Int :=
  if s > 0 then s - min (i : Int) s else if s < 0 then s + min (i : Int) (-s) else 0
/-- current coordinate after `i` iterations -/
def cur (c s : Int) (i : Nat) : Int := if i = 0 then c else coordAt c s (i - 1)

/-- one axis of the loop body -/
def step1 (c r : Int) (e : Bool) : Int × Int :=
  if r > 0 then (c + 1, r - 1) else if r < 0 then ((if e then c else c - 1), r + 1) else (c, r)

theorem pathStep_eq (s : PathState) : pathStep s =
    { xs := (step1 s.cx s.xs s.acc.isEmpty).2, ys := (step1 s.cy s.ys s.acc.isEmpty).2,
      cx := (step1 s.cx s.xs s.acc.isEmpty).1, cy := (step1 s.cy s.ys s.acc.isEmpty).1,
      acc := s.acc ++ [((step1 s.cx s.xs s.acc.isEmpty).1, (step1 s.cy s.ys s.acc.isEmpty).1)] } := by
  rfl

theorem step1_spec (c s : Int) (i : Nat) :
    step1 (cur c s i) (rem s i) (decide (i = 0)) = (coordAt c s i, rem s (i + 1)) := by
  unfold step1 cur rem coordAt
  simp only [decide_eq_true_eq]
  refine Prod.ext ?_ ?_ <;> simp only [] <;> (repeat' split) <;> simp only [] <;> omega

/-- the loop state after `i` iterations -/
def st (a : Int × Int) (xs ys : Int) (i : Nat) : PathState :=
  { xs := rem xs i, ys := rem ys i, cx := cur a.1 xs i, cy := cur a.2 ys i,
    acc := (List.range i).map fun j => (coordAt a.1 xs j, coordAt a.2 ys j) }

theorem pathStep_st (a : Int × Int) (xs ys : Int) (i : Nat) :
    pathStep (st a xs ys i) = st a xs ys (i + 1) := by
  have he : (st a xs ys i).acc.isEmpty = decide (i = 0) := by
    cases i with
    | zero => simp [st]
    | succ i => simp [st, List.range_succ]
  rw [pathStep_eq, he]
  simp only [st, step1_spec, List.range_succ, List.map_append, List.map_cons, List.map_nil]
  congr 1

theorem foldl_pathStep (a : Int × Int) (xs ys : Int) (n : Nat) :
    (List.range n).foldl (fun s _ => pathStep s) (st a xs ys 0) = st a xs ys n := by
  induction n with
  | zero => rfl
  | succ n ih => rw [List.range_succ, List.foldl_append, ih]; simp [pathStep_st]

theorem st_zero (a : Int × Int) (xs ys : Int) :
    st a xs ys 0 = { xs := xs, ys := ys, cx := a.1, cy := a.2, acc := [] } := by
  have r (s : Int) : rem s 0 = s := by unfold rem; split <;> (try split) <;> omega
  simp [st, r, cur]

/-- the loop of `path` produces exactly the closed-form site list -/
theorem pathSites_eq_closed (a : Int × Int) (xs ys : Int) : pathSites a xs ys = pathSitesClosed a xs ys := by
  unfold pathSites pathSitesClosed
  rw [← st_zero, foldl_pathStep]
  rfl

/-! ### E. the plaquette walk behind a path -/

/-- coordinate of the `i`-th plaquette of the walk: `min i |s|` steps towards the target, and during the
    straight run along the OTHER axis (of length `m > |s|`) a zig-zag of one unit -/
def walk (c s m : Int) (i : Nat) : Int :=
  (if s > 0 then c + min (i : Int) s else if s < 0 then c - min (i : Int) (-s) else c)
  + (if (s.natAbs : Int) < m ∧ (s.natAbs : Int) < i ∧ ((i : Int) - s.natAbs) % 2 = 1
      then (if s < 0 then 1 else -1) else 0)

theorem walk_zero (c s m : Int) : walk c s m 0 = c := by
  unfold walk; (repeat' split) <;> omega

theorem walk_end (c s m : Int) (n : Nat) (hn : (n : Int) = max (s.natAbs : Int) m)
    (hpar : ((s.natAbs : Int) - m) % 2 = 0) : walk c s m n = c + s := by
  unfold walk; (repeat' split) <;> omega

theorem walk_step (c s m : Int) (i : Nat) (hi : (i : Int) < max (s.natAbs : Int) m) :
    (walk c s m i = coordAt c s i - 1 ∨ walk c s m i = coordAt c s i) ∧
      walk c s m (i + 1) = 2 * coordAt c s i - 1 - walk c s m i := by
  unfold walk coordAt
  by_cases h1 : s > 0
  · simp only [h1, ↓reduceIte]
    have : ¬ s < 0 := by omega
    simp only [this, ↓reduceIte]
    constructor <;> (repeat' split) <;> omega
  · by_cases h2 : s < 0
    · simp only [h1, h2, ↓reduceIte]
      constructor <;> (repeat' split) <;> omega
    · simp only [h1, h2, ↓reduceIte]
      constructor <;> (repeat' split) <;> omega

theorem walk_parity (cx cy xs ys : Int) (i : Nat)
    (hi : (i : Int) ≤ max (xs.natAbs : Int) (ys.natAbs : Int)) :
    (walk cx xs ys.natAbs i - walk cy ys xs.natAbs i - (cx - cy)) % 2 = 0 := by
  induction i with
  | zero => rw [walk_zero, walk_zero]; omega
  | succ i ih =>
    have hx := walk_step cx xs ys.natAbs i (by omega)
    have hy := walk_step cy ys xs.natAbs i (by omega)
    have := ih (by omega)
    omega

theorem isZPlaquette_iff (x y : Int) : isZPlaquette x y = true ↔ (x - y) % 2 = 0 := by
  simp only [isZPlaquette, isXPlaquette, Bool.not_eq_true', beq_eq_false_iff_ne, ne_eq]
  omega

theorem isZPlaquette_eq_iff (a b : Int × Int) :
    isZPlaquette a.1 a.2 = isZPlaquette b.1 b.2 ↔ (a.1 - a.2 - (b.1 - b.2)) % 2 = 0 := by
  have ha := isZPlaquette_iff a.1 a.2
  have hb := isZPlaquette_iff b.1 b.2
  cases h1 : isZPlaquette a.1 a.2 <;> cases h2 : isZPlaquette b.1 b.2 <;> simp_all <;> omega

/-- **path parity**: among the plaquettes `p` of the type of `a`, the sites of the path with translation
    `(xs, ys)` (of even `|xs| - |ys|`) toggle exactly `a` and `a + (xs, ys)` (modulo the lattice) -/
theorem path_parity (R C : Int) (hR : 0 < R) (hC : 0 < C) (hRe : R % 2 = 0) (hCe : C % 2 = 0)
    (a p : Int × Int) (xs ys : Int) (hpar : (xs - ys) % 2 = 0)
    (hp : (p.1 - p.2 - (a.1 - a.2)) % 2 = 0) :
    parity (fun s => inc R C s p) (pathSitesClosed a xs ys) =
      xor (decide (cong R C p a)) (decide (cong R C p (a.1 + xs, a.2 + ys))) := by
  unfold pathSitesClosed
  rw [parity_map]
  have key := parity_telescope
    (fun i => inc R C (coordAt a.1 xs i, coordAt a.2 ys i) p)
    (fun i => decide (cong R C p (walk a.1 xs ys.natAbs i, walk a.2 ys xs.natAbs i)))
    (max xs.natAbs ys.natAbs) (by
      intro i hi
      have hx := walk_step a.1 xs ys.natAbs i (by omega)
      have hy := walk_step a.2 ys xs.natAbs i (by omega)
      have hw := walk_parity a.1 a.2 xs ys i (by omega)
      show inc R C (coordAt a.1 xs i, coordAt a.2 ys i) p = xor
        (decide (cong R C p (walk a.1 xs ys.natAbs i, walk a.2 ys xs.natAbs i)))
        (decide (cong R C p (walk a.1 xs ys.natAbs (i + 1), walk a.2 ys xs.natAbs (i + 1))))
      rw [hx.2, hy.2]
      exact site_flip R C hR hC hRe hCe (coordAt a.1 xs i, coordAt a.2 ys i) p _ _ hx.1 hy.1 (by omega))
  rw [key]
  simp only [walk_zero]
  rw [walk_end a.1 xs ys.natAbs _ (by omega) (by omega), walk_end a.2 ys xs.natAbs _ (by omega) (by omega)]

/-! ### F. translation: shortest residues with the positive direction on ties -/

/-- one axis of `translation` (modulus `m`) -/
def trans1 (m a b : Int) : Int :=
  if (b % m - a % m) % m ≤ (a % m - b % m) % m then (b % m - a % m) % m else -((a % m - b % m) % m)

theorem translation_eq (R C : Int) (a b : Int × Int) :
    translation R C a b =
      if isZPlaquette a.1 a.2 != isZPlaquette b.1 b.2 then .error .index
      else .ok (trans1 C a.1 b.1, trans1 R a.2 b.2) := rfl

/-- `x % m` for `-m < x < m` -/
theorem emod_small (x m : Int) (h1 : -m < x) (h2 : x < m) : x % m = if 0 ≤ x then x else x + m := by
  split
  · exact Int.emod_eq_of_lt (by omega) h2
  · rw [← Int.add_emod_right]; exact Int.emod_eq_of_lt (by omega) (by omega)

/-- explicit value of the one-axis translation in terms of `d = b % m - a % m` -/
theorem trans1_formula (m a b : Int) (hm : 0 < m) :
    trans1 m a b =
      if b % m - a % m = 0 then 0
      else if 0 < b % m - a % m then (if 2 * (b % m - a % m) ≤ m then b % m - a % m else b % m - a % m - m)
      else (if 2 * (b % m - a % m) + m ≤ 0 then b % m - a % m + m else b % m - a % m) := by
  have ha := emod_lt' a m hm
  have hb := emod_lt' b m hm
  unfold trans1
  rw [emod_small (b % m - a % m) m (by omega) (by omega), emod_small (a % m - b % m) m (by omega) (by omega)]
  (repeat' split) <;> omega

theorem trans1_bounds (m a b : Int) (hm : 0 < m) : -m < 2 * trans1 m a b ∧ 2 * trans1 m a b ≤ m := by
  have ha := emod_lt' a m hm
  have hb := emod_lt' b m hm
  rw [trans1_formula m a b hm]
  (repeat' split) <;> omega

theorem trans1_reach (m a b : Int) (hm : 0 < m) : (a + trans1 m a b) % m = b % m := by
  have ha := emod_lt' a m hm
  have hb := emod_lt' b m hm
  have hf := trans1_formula m a b hm
  rw [← Int.emod_add_emod]
  have h3 : a % m + trans1 m a b = b % m ∨ a % m + trans1 m a b = b % m - m ∨
      a % m + trans1 m a b = b % m + m := by
    rw [hf]; (repeat' split) <;> omega
  rcases h3 with h | h | h <;> rw [h]
  · exact Int.emod_emod _ _
  · rw [Int.sub_emod_right]; exact Int.emod_emod _ _
  · rw [Int.add_emod_right]; exact Int.emod_emod _ _

theorem trans1_symm (m a b : Int) (hm : 0 < m) : (trans1 m a b).natAbs = (trans1 m b a).natAbs := by
  have ha := emod_lt' a m hm
  have hb := emod_lt' b m hm
  rw [trans1_formula m a b hm, trans1_formula m b a hm]
  (repeat' split) <;> omega

theorem not_dvd_of_small (m x : Int) (h1 : x ≠ 0) (h2 : -m < x) (h3 : x < m) : ¬ m ∣ x := by
  intro h
  exact h1 (Int.eq_zero_of_dvd_of_natAbs_lt_natAbs h (by omega))

/-- the one-axis translation is the ONLY residue of `b - a` in `(-m/2, m/2]` -/
theorem trans1_unique (m a b t : Int) (hm : 0 < m) (h : (a + t) % m = b % m) (h1 : -m < 2 * t) (h2 : 2 * t ≤ m) :
    t = trans1 m a b := by
  have hb := trans1_bounds m a b hm
  have hr := trans1_reach m a b hm
  rw [← h, emod_eq_iff_dvd] at hr
  have e : a + trans1 m a b - (a + t) = trans1 m a b - t := by omega
  rw [e] at hr
  by_cases hne : trans1 m a b - t = 0
  · omega
  · exact absurd hr (not_dvd_of_small m _ hne (by omega) (by omega))

/-- parity is preserved by the translation when the modulus is even -/
theorem trans1_parity (m a b : Int) (hm : 0 < m) (hme : m % 2 = 0) : (a + trans1 m a b - b) % 2 = 0 := by
  have h := trans1_reach m a b hm
  rw [emod_eq_iff_dvd] at h
  have h2 : (2 : Int) ∣ a + trans1 m a b - b := Int.dvd_trans (Int.dvd_of_emod_eq_zero hme) h
  omega

/-! ### G. the path operator against a plaquette operator -/

/-- the generator of plaquette `p` as `stabilizers` builds it -/
def stabOf (R C : Int) (p : Int × Int) : BVec :=
  sites R C (plaquetteOp p.1 p.2) (identity R C) (plaquetteSites p.1 p.2)

/-- the operator `path` applies between plaquettes of the type of `a` -/
def pathOp (a : Int × Int) : P1 := if isZPlaquette a.1 a.2 then P1.X else P1.Z

theorem path_eq (R C : Int) (a b : Int × Int) (hab : isZPlaquette a.1 a.2 = isZPlaquette b.1 b.2) :
    path R C (identity R C) a b = .ok (sites R C (pathOp a) (identity R C)
      (if a = b then [] else pathSitesClosed a (trans1 C a.1 b.1) (trans1 R a.2 b.2))) := by
  unfold path
  by_cases h : a = b
  · simp [h, sites]
  · have h' : (a == b) = false := by simpa using h
    simp only [h', Bool.false_eq_true, ↓reduceIte, h, translation_eq, hab, bne_self_eq_false, pathOp,
      pathSites_eq_closed]

theorem anti_factor (a p : Int × Int) :
    xor ((pathOp a).zBit && (plaquetteOp p.1 p.2).xBit) ((pathOp a).xBit && (plaquetteOp p.1 p.2).zBit)
      = (isZPlaquette a.1 a.2 == isZPlaquette p.1 p.2) := by
  unfold pathOp plaquetteOp
  cases isZPlaquette a.1 a.2 <;> cases isZPlaquette p.1 p.2 <;> rfl

/-- **core of `path_syndrome`**: symplectic product of the sites pattern of a path with a plaquette
    generator, for an arbitrary (not necessarily reduced) plaquette index `p` -/
theorem bsp_path_stab (R C : Int) (hR : 0 < R) (hC : 0 < C) (hRe : R % 2 = 0) (hCe : C % 2 = 0)
    (a b p : Int × Int) (hab : isZPlaquette a.1 a.2 = isZPlaquette b.1 b.2) :
    bsp (sites R C (pathOp a) (identity R C)
        (if a = b then [] else pathSitesClosed a (trans1 C a.1 b.1) (trans1 R a.2 b.2))) (stabOf R C p)
      = xor (decide (cong R C p a)) (decide (cong R C p b)) := by
  rw [stabOf, bsp_sites_sites R C hR hC, anti_factor]
  have habp := (isZPlaquette_eq_iff a b).mp hab
  have tx := trans1_parity C a.1 b.1 hC hCe
  have ty := trans1_parity R a.2 b.2 hR hRe
  have hreach : cong R C (a.1 + trans1 C a.1 b.1, a.2 + trans1 R a.2 b.2) b :=
    ⟨trans1_reach C a.1 b.1 hC, trans1_reach R a.2 b.2 hR⟩
  by_cases hap : isZPlaquette a.1 a.2 = isZPlaquette p.1 p.2
  · have happ := (isZPlaquette_eq_iff a p).mp hap
    rw [hap, beq_self_eq_true, Bool.true_and]
    by_cases h : a = b
    · subst h; simp
    · simp only [h, ↓reduceIte]
      have := path_parity R C hR hC hRe hCe a p (trans1 C a.1 b.1) (trans1 R a.2 b.2) (by omega) (by omega)
      unfold inc at this
      rw [this]
      congr 1
      apply decide_eq_decide.mpr
      exact ⟨fun hc => cong_trans R C _ _ _ hc hreach,
        fun hc => cong_trans R C _ _ _ hc (cong_symm R C _ _ hreach)⟩
  · have hne : (isZPlaquette a.1 a.2 == isZPlaquette p.1 p.2) = false := by simpa using hap
    rw [hne, Bool.false_and]
    have hparity : (a.1 - a.2 - (p.1 - p.2)) % 2 = 1 := by
      have := isZPlaquette_eq_iff a p
      have h2 : ¬ (a.1 - a.2 - (p.1 - p.2)) % 2 = 0 := fun h => hap (this.mpr h)
      omega
    rw [cong_false_of_parity R C hRe hCe p a (by omega), cong_false_of_parity R C hRe hCe p b (by omega)]
    rfl

/-! ### H. the plaquette index list -/

/-- all index pairs in the order `for y … for x …` -/
def allIdx (R C : Int) : List (Int × Int) :=
  (List.range (maxY R + 1).toNat).flatMap fun (y : Nat) =>
    (List.range (maxX C + 1).toNat).map fun (x : Nat) => ((x : Int), (y : Int))

theorem plaquetteIndices_eq (R C : Int) : plaquetteIndices R C =
    (allIdx R C).filter (fun i => isZPlaquette i.1 i.2) ++ (allIdx R C).filter (fun i => !isZPlaquette i.1 i.2) :=
  rfl

theorem mem_allIdx (R C : Int) (p : Int × Int) : p ∈ allIdx R C ↔ inBounds R C p.1 p.2 = true := by
  rw [inBounds_iff]
  simp only [allIdx, maxX, maxY, List.mem_flatMap, List.mem_map, List.mem_range]
  constructor
  · rintro ⟨y, hy, x, hx, rfl⟩
    simp only []
    omega
  · intro h
    refine ⟨p.2.toNat, by omega, p.1.toNat, by omega, ?_⟩
    apply Prod.ext <;> simp only [] <;> omega

theorem nodup_allIdx (R C : Int) : (allIdx R C).Nodup := by
  rw [List.nodup_iff_pairwise_ne]
  unfold allIdx
  rw [List.pairwise_flatMap]
  constructor
  · intro y _
    rw [List.pairwise_map]
    refine List.Pairwise.imp ?_ List.pairwise_lt_range
    intro x x' hlt h
    have := congrArg Prod.fst h
    simp only [] at this
    omega
  · refine List.Pairwise.imp ?_ List.pairwise_lt_range
    intro y y' hlt p hp q hq h
    simp only [List.mem_map, List.mem_range] at hp hq
    obtain ⟨x, _, rfl⟩ := hp
    obtain ⟨x', _, rfl⟩ := hq
    have := congrArg Prod.snd h
    simp only [] at this
    omega

theorem mem_plaquetteIndices (R C : Int) (p : Int × Int) :
    p ∈ plaquetteIndices R C ↔ inBounds R C p.1 p.2 = true := by
  rw [plaquetteIndices_eq, List.mem_append, List.mem_filter, List.mem_filter, mem_allIdx]
  cases isZPlaquette p.1 p.2 <;> simp

theorem nodup_plaquetteIndices (R C : Int) : (plaquetteIndices R C).Nodup := by
  rw [plaquetteIndices_eq, List.nodup_append]
  have h := nodup_allIdx R C
  rw [List.nodup_iff_pairwise_ne] at h
  refine ⟨?_, ?_, ?_⟩
  · rw [List.nodup_iff_pairwise_ne]; exact h.filter _
  · rw [List.nodup_iff_pairwise_ne]; exact h.filter _
  · intro a ha b hb hab
    rw [List.mem_filter] at ha hb
    subst hab
    have h1 := ha.2
    have h2 := hb.2
    simp only [h1, Bool.not_true] at h2
    exact absurd h2 (by decide)

theorem stabilizers_eq_map (R C : Int) : stabilizers R C = (plaquetteIndices R C).map (stabOf R C) := rfl

/-! ### I. weight -/

theorem count1_toggle (v : BVec) (i : Nat) (hi : i < v.length) (h0 : v.getD i false = false) :
    count1 (toggle v i) = count1 v + 1 := by
  induction v generalizing i with
  | nil => simp at hi
  | cons x xs ih =>
    cases i with
    | zero =>
      simp only [List.getD_cons_zero] at h0
      subst h0
      simp [toggle, count1]
    | succ i =>
      have := ih i (by simpa using hi) (by simpa using h0)
      simp only [toggle, count1] at this
      simp only [toggle, count1, List.modify_succ_cons, List.countP_cons, this]
      omega

theorem count1_tog (v : BVec) (l : List Nat) (hnd : l.Nodup)
    (hl : ∀ i ∈ l, i < v.length ∧ v.getD i false = false) :
    count1 (tog v l) = count1 v + l.length := by
  induction l generalizing v with
  | nil => simp
  | cons i l ih =>
    rw [List.nodup_cons] at hnd
    rw [tog_cons, ih _ hnd.2, count1_toggle v i (hl i (by simp)).1 (hl i (by simp)).2]
    · simp only [List.length_cons]; omega
    · intro j hj
      have hj' := hl j (by simp [hj])
      refine ⟨by simpa using hj'.1, ?_⟩
      rw [getD_toggle v i j (hl i (by simp)).1, hj'.2]
      have : i ≠ j := fun h => hnd.1 (h ▸ hj)
      simp [this]

theorem count1_zeros (n : Nat) : count1 (zeros n) = 0 := by
  simp [count1, zeros, List.countP_eq_zero]

theorem zipWith_or_zeros_right (a : BVec) : List.zipWith or a (zeros a.length) = a := by
  induction a with
  | nil => rfl
  | cons x xs ih =>
    simp only [zeros] at ih
    simp [zeros, List.replicate_succ, ih]

theorem zipWith_or_zeros_left (a : BVec) : List.zipWith or (zeros a.length) a = a := by
  induction a with
  | nil => rfl
  | cons x xs ih =>
    simp only [zeros] at ih
    simp [zeros, List.replicate_succ, ih]

/-- weight of an X- or Z-pattern on pairwise different (modulo the lattice) sites = number of sites -/
theorem bsfWt_sites (R C : Int) (hR : 0 < R) (hC : 0 < C) (op : P1) (hop : op = P1.X ∨ op = P1.Z)
    (l : List (Int × Int)) (hnd : (l.map (flatOf R C)).Nodup) :
    bsfWt (sites R C op (identity R C) l) = l.length := by
  have hz : (zeros (nQubits R C).toNat).length = (nQubits R C).toNat := by simp [zeros]
  have hcount : count1 (tog (zeros (nQubits R C).toNat) (l.map (flatOf R C))) = l.length := by
    rw [count1_tog _ _ hnd, count1_zeros]
    · simp
    · intro i hi
      simp only [List.mem_map] at hi
      obtain ⟨j, _, rfl⟩ := hi
      exact ⟨by rw [hz]; exact flatOf_lt R C hR hC j, getD_zeros _ _⟩
  rw [identity, zeros_add, sites_split R C hR hC _ _ _ _ hz]
  rcases hop with rfl | rfl
  · simp only [P1.xBit, P1.zBit, ↓reduceIte, Bool.false_eq_true]
    rw [bsfWt_split _ _ (by simp [hz])]
    have := zipWith_or_zeros_right (tog (zeros (nQubits R C).toNat) (l.map (flatOf R C)))
    rw [tog_length, hz] at this
    rw [this]; exact hcount
  · simp only [P1.xBit, P1.zBit, ↓reduceIte, Bool.false_eq_true]
    rw [bsfWt_split _ _ (by simp [hz])]
    have := zipWith_or_zeros_left (tog (zeros (nQubits R C).toNat) (l.map (flatOf R C)))
    rw [tog_length, hz] at this
    rw [this]; exact hcount

theorem coordAt_diff (c s : Int) (i j : Nat) (hij : i < j) (hj : (j : Int) < s.natAbs) :
    coordAt c s j - coordAt c s i = (j : Int) - i ∨ coordAt c s j - coordAt c s i = (i : Int) - j := by
  unfold coordAt
  (repeat' split) <;> omega

/-- the sites of a path within half the lattice are pairwise different modulo the lattice -/
theorem nodup_pathSites (R C : Int) (hR : 0 < R) (hC : 0 < C) (a : Int × Int) (xs ys : Int)
    (hx : 2 * (xs.natAbs : Int) ≤ C) (hy : 2 * (ys.natAbs : Int) ≤ R) :
    ((pathSitesClosed a xs ys).map (flatOf R C)).Nodup := by
  unfold pathSitesClosed
  rw [List.map_map, List.nodup_iff_pairwise_ne, List.pairwise_map]
  refine List.Pairwise.imp_of_mem ?_ List.pairwise_lt_range
  intro i j hi hj hij h
  rw [List.mem_range] at hi hj
  simp only [Function.comp] at h
  rw [flatOf_eq_iff R C hR hC] at h
  simp only [emod_eq_iff_dvd] at h
  by_cases hm : ys.natAbs ≤ xs.natAbs
  · have hd := coordAt_diff a.1 xs i j hij (by omega)
    have h1 : C ∣ coordAt a.1 xs j - coordAt a.1 xs i := by
      have := Int.dvd_neg.mpr h.1
      rwa [Int.neg_sub] at this
    exact not_dvd_of_small C _ (by omega) (by omega) (by omega) h1
  · have hd := coordAt_diff a.2 ys i j hij (by omega)
    have h1 : R ∣ coordAt a.2 ys j - coordAt a.2 ys i := by
      have := Int.dvd_neg.mpr h.2
      rwa [Int.neg_sub] at this
    exact not_dvd_of_small R _ (by omega) (by omega) (by omega) h1

theorem pathSitesClosed_length (a : Int × Int) (xs ys : Int) :
    (pathSitesClosed a xs ys).length = max xs.natAbs ys.natAbs := by
  simp [pathSitesClosed]

/-- explicit absolute value of the one-axis translation between reduced coordinates -/
theorem trans1_natAbs (m a b : Int) (hm : 0 < m) :
    ((trans1 m a b).natAbs : Int) = min ((a % m - b % m).natAbs : Int) (m - (a % m - b % m).natAbs) := by
  have ha := emod_lt' a m hm
  have hb := emod_lt' b m hm
  rw [trans1_formula m a b hm]
  (repeat' split) <;> omega

/-! ### J. support of a plaquette operator -/

theorem getD_append_left' (a b : BVec) (f : Nat) (hf : f < a.length) :
    (a ++ b).getD f false = a.getD f false := by
  simp only [List.getD_eq_getElem?_getD, List.getElem?_append_left hf]

theorem getD_append_right' (a b : BVec) (n f : Nat) (h : a.length = n) :
    (a ++ b).getD (n + f) false = b.getD f false := by
  subst h
  simp only [List.getD_eq_getElem?_getD, List.getElem?_append_right (Nat.le_add_right _ _),
    Nat.add_sub_cancel_left]

/-- the X- and Z-bit of a site pattern at the (reduced) site `s` -/
theorem getD_sites (R C : Int) (hR : 0 < R) (hC : 0 < C) (op : P1) (l : List (Int × Int)) (s : Int × Int) :
    (sites R C op (identity R C) l).getD (flatOf R C s) false
        = (op.xBit && parity (fun q => decide (flatOf R C q = flatOf R C s)) l) ∧
    (sites R C op (identity R C) l).getD ((nQubits R C).toNat + flatOf R C s) false
        = (op.zBit && parity (fun q => decide (flatOf R C q = flatOf R C s)) l) := by
  have hz : (zeros (nQubits R C).toNat).length = (nQubits R C).toNat := by simp [zeros]
  have hb : ∀ i ∈ l.map (flatOf R C), i < (zeros (nQubits R C).toNat).length := by
    intro i hi; simp only [List.mem_map] at hi; obtain ⟨j, _, rfl⟩ := hi
    rw [hz]; exact flatOf_lt R C hR hC j
  have hlt := flatOf_lt R C hR hC s
  have key := getD_tog _ _ (flatOf R C s) hb
  rw [getD_zeros, Bool.false_xor, parity_map] at key
  rw [identity, zeros_add, sites_split R C hR hC _ _ _ _ hz]
  constructor
  · rw [getD_append_left' _ _ _ (by split <;> simp [hz, hlt])]
    cases op <;> simp only [P1.xBit, ↓reduceIte, Bool.false_eq_true, key, getD_zeros, Bool.true_and, Bool.false_and]
  · rw [getD_append_right' _ _ _ _ (by split <;> simp [hz])]
    cases op <;> simp only [P1.zBit, ↓reduceIte, Bool.false_eq_true, key, getD_zeros, Bool.true_and, Bool.false_and]

theorem xor4_eq_or (b1 b2 b3 b4 : Bool) (h12 : (b1 && b2) = false) (h13 : (b1 && b3) = false)
    (h14 : (b1 && b4) = false) (h23 : (b2 && b3) = false) (h24 : (b2 && b4) = false)
    (h34 : (b3 && b4) = false) : xor b1 (xor b2 (xor b3 b4)) = (b1 || b2 || b3 || b4) := by
  cases b1 <;> cases b2 <;> cases b3 <;> cases b4 <;> simp_all

/-- two indices that differ by one unit in some coordinate are not congruent to the same index -/
theorem cong_excl (R C : Int) (hR : 2 ≤ R) (hC : 2 ≤ C) (p q q' : Int × Int)
    (h : (q.1 - q'.1 = 1 ∨ q.1 - q'.1 = -1) ∨ (q.2 - q'.2 = 1 ∨ q.2 - q'.2 = -1)) :
    (decide (cong R C p q) && decide (cong R C p q')) = false := by
  rw [Bool.and_eq_false_iff]
  by_cases h1 : cong R C p q
  · right
    apply decide_eq_false
    intro h2
    have hc := cong_trans R C _ _ _ (cong_symm R C _ _ h1) h2
    simp only [cong, emod_eq_iff_dvd] at hc
    rcases h with h | h
    · exact not_dvd_of_small C _ (by omega) (by omega) (by omega) hc.1
    · exact not_dvd_of_small R _ (by omega) (by omega) (by omega) hc.2
  · left; exact decide_eq_false h1

/-- a site is incident with plaquette `p` iff it is (modulo the lattice) one of its four corners -/
theorem inc_true_iff (R C : Int) (hR : 2 ≤ R) (hC : 2 ≤ C) (s p : Int × Int) :
    inc R C s p = true ↔
      (cong R C (p.1, p.2) s ∨ cong R C (p.1, p.2 + 1) s ∨ cong R C (p.1 + 1, p.2 + 1) s ∨
        cong R C (p.1 + 1, p.2) s) := by
  rw [inc_eq R C (by omega) (by omega), xor4_eq_or _ _ _ _
    (cong_excl R C hR hC _ _ _ (by simp only []; omega)) (cong_excl R C hR hC _ _ _ (by simp only []; omega))
    (cong_excl R C hR hC _ _ _ (by simp only []; omega)) (cong_excl R C hR hC _ _ _ (by simp only []; omega))
    (cong_excl R C hR hC _ _ _ (by simp only []; omega)) (cong_excl R C hR hC _ _ _ (by simp only []; omega))]
  simp only [Bool.or_eq_true, decide_eq_true_eq]
  rw [cong_iff_of_sub_eq R C p (s.1, s.2) (p.1, p.2) s (by simp only []) (by simp only []),
    cong_iff_of_sub_eq R C p (s.1, s.2 - 1) (p.1, p.2 + 1) s (by simp only []) (by simp only []; omega),
    cong_iff_of_sub_eq R C p (s.1 - 1, s.2 - 1) (p.1 + 1, p.2 + 1) s (by simp only []; omega)
      (by simp only []; omega),
    cong_iff_of_sub_eq R C p (s.1 - 1, s.2) (p.1 + 1, p.2) s (by simp only []; omega) (by simp only [])]
  simp only [or_assoc]

theorem modIndex_eq_iff (R C : Int) (q s : Int × Int) : modIndex R C q = modIndex R C s ↔ cong R C q s := by
  simp only [modIndex_eq, cong, Prod.mk.injEq]

/-! ### K. unit syndromes -/

theorem filterMap_zip_unit_aux {α} (l : List α) (k i : Nat) :
    ((l.zip ((List.range' k l.length).map fun j => decide (j = i))).filterMap
        fun p => if p.2 then some p.1 else none)
      = if k ≤ i then l[i - k]?.toList else [] := by
  induction l generalizing k with
  | nil => simp
  | cons x xs ih =>
    simp only [List.length_cons, List.range'_succ, List.map_cons, List.zip_cons_cons, List.filterMap_cons]
    rw [ih (k + 1)]
    by_cases hk : k = i
    · subst hk
      have : ¬ (k + 1 ≤ k) := by omega
      simp [this]
    · simp only [hk, decide_false, Bool.false_eq_true, ↓reduceIte]
      by_cases hlt : k + 1 ≤ i
      · have e : i - k = (i - (k + 1)) + 1 := by omega
        have hle : k ≤ i := by omega
        simp only [hlt, hle, ↓reduceIte]
        rw [e, List.getElem?_cons_succ]
      · have hle : ¬ k ≤ i := by omega
        simp only [hlt, hle, ↓reduceIte]

/-- reading back the unit vector `e_i` against a list of labels gives the `i`-th label -/
theorem filterMap_zip_unit {α} (l : List α) (i : Nat) (hi : i < l.length) :
    ((l.zip ((List.range l.length).map fun j => decide (j = i))).filterMap
        fun p => if p.2 then some p.1 else none) = [l[i]] := by
  rw [List.range_eq_range', filterMap_zip_unit_aux]
  simp [List.getElem?_eq_getElem hi]

theorem flatOf_ne (R C : Int) (hR : 2 ≤ R) (hC : 2 ≤ C) (q q' : Int × Int)
    (h : (q.1 - q'.1 = 1 ∨ q.1 - q'.1 = -1) ∨ (q.2 - q'.2 = 1 ∨ q.2 - q'.2 = -1)) :
    flatOf R C q ≠ flatOf R C q' := by
  intro he
  rw [flatOf_eq_iff R C (by omega) (by omega)] at he
  simp only [emod_eq_iff_dvd] at he
  rcases h with h | h
  · exact not_dvd_of_small C _ (by omega) (by omega) (by omega) he.1
  · exact not_dvd_of_small R _ (by omega) (by omega) (by omega) he.2

/-- the four corners of a plaquette are four different sites of the lattice -/
theorem nodup_plaquetteSites (R C : Int) (hR : 2 ≤ R) (hC : 2 ≤ C) (x y : Int) :
    ((plaquetteSites x y).map (flatOf R C)).Nodup := by
  simp only [plaquetteSites, List.map_cons, List.map_nil, List.nodup_cons, List.mem_cons,
    List.not_mem_nil, or_false, not_or, not_false_eq_true, List.nodup_nil, and_true]
  refine ⟨⟨?_, ?_, ?_⟩, ⟨?_, ?_⟩, ?_⟩ <;>
    exact flatOf_ne R C hR hC _ _ (by simp only []; omega)

end Qec.RotatedToric.Lem
