/-
  Helper lemmas for the toric lattice (C15-toric; reusable for C07-toric / C02-toric).
  Part 1 (namespace `Qec.ToricLemmas`): XOR-sums over lists, toggling bits of a bsf, `bsp` / weight of
  operators built by toggling site lists.  Part 2 (namespace `Qec.Toric`): flat indices, congruences,
  incidence of sites and plaquettes, straight runs, translations.
-/
import QecVerif.Model.Lattice.Toric
import QecVerif.Lemmas.GF2
namespace Qec.ToricLemmas
open Qec

/-! ### XOR-sums over lists -/

/-- parity of the number of elements of `L` satisfying `f` -/
def xsum {α : Type} (L : List α) (f : α → Bool) : Bool := L.foldr (fun a acc => xor (f a) acc) false

@[simp] theorem xsum_nil {α : Type} (f : α → Bool) : xsum [] f = false := rfl
@[simp] theorem xsum_cons {α : Type} (a : α) (L : List α) (f : α → Bool) :
    xsum (a :: L) f = xor (f a) (xsum L f) := rfl

theorem xsum_append {α : Type} (L M : List α) (f : α → Bool) :
    xsum (L ++ M) f = xor (xsum L f) (xsum M f) := by
  induction L with
  | nil => simp
  | cons a L ih => simp [ih]

theorem xsum_map {α β : Type} (g : α → β) (L : List α) (f : β → Bool) :
    xsum (L.map g) f = xsum L (fun a => f (g a)) := by
  induction L with
  | nil => simp
  | cons a L ih => simp [ih]

theorem xsum_congr {α : Type} (L : List α) (f g : α → Bool) (h : ∀ a ∈ L, f a = g a) :
    xsum L f = xsum L g := by
  induction L with
  | nil => simp
  | cons a L ih =>
    simp only [xsum_cons]
    rw [h a (by simp), ih (fun b hb => h b (by simp [hb]))]

@[simp] theorem xsum_false {α : Type} (L : List α) : xsum L (fun _ => false) = false := by
  induction L with
  | nil => simp
  | cons a L ih => simp [ih]

theorem xsum_xor {α : Type} (L : List α) (f g : α → Bool) :
    xsum L (fun a => xor (f a) (g a)) = xor (xsum L f) (xsum L g) := by
  induction L with
  | nil => simp
  | cons a L ih =>
    simp only [xsum_cons, ih]
    cases f a <;> cases g a <;> cases xsum L f <;> cases xsum L g <;> rfl

theorem xsum_and_left {α : Type} (L : List α) (c : Bool) (f : α → Bool) :
    xsum L (fun a => c && f a) = (c && xsum L f) := by
  induction L with
  | nil => simp
  | cons a L ih =>
    simp only [xsum_cons, ih]
    cases c <;> simp

theorem xsum_and_right {α : Type} (L : List α) (c : Bool) (f : α → Bool) :
    xsum L (fun a => f a && c) = (xsum L f && c) := by
  induction L with
  | nil => simp
  | cons a L ih =>
    simp only [xsum_cons, ih]
    cases c <;> simp

theorem xsum_comm {α β : Type} (L : List α) (M : List β) (f : α → β → Bool) :
    xsum L (fun a => xsum M (fun b => f a b)) = xsum M (fun b => xsum L (fun a => f a b)) := by
  induction L with
  | nil => simp
  | cons a L ih => simp only [xsum_cons, ih, xsum_xor]

/-- telescoping: consecutive differences cancel, whatever `g` is (no injectivity needed) -/
theorem xsum_range_telescope (g : Nat → Bool) (k : Nat) :
    xsum (List.range k) (fun i => xor (g (i + 1)) (g i)) = xor (g k) (g 0) := by
  induction k with
  | zero => simp
  | succ k ih =>
    rw [List.range_succ, xsum_append, ih]
    simp only [xsum_cons, xsum_nil, Bool.xor_false]
    cases g (k + 1) <;> cases g k <;> cases g 0 <;> rfl

/-- if at most the elements of a duplicate-free list can satisfy `decide (· = x)` … : membership form -/
theorem xsum_decide_eq_of_nodup {α : Type} [DecidableEq α] (L : List α) (x : α) (h : L.Nodup) :
    xsum L (fun a => decide (a = x)) = decide (x ∈ L) := by
  induction L with
  | nil => simp
  | cons a L ih =>
    have hn := List.nodup_cons.mp h
    simp only [xsum_cons, ih hn.2, List.mem_cons]
    by_cases hax : a = x
    · subst hax
      simp [hn.1]
    · have : ¬ x = a := fun e => hax e.symm
      simp [hax, this]

/-! ### toggling bits -/

@[simp] theorem length_toggle (v : BVec) (f : Nat) : (toggle v f).length = v.length := by
  simp [toggle]

theorem getD_toggle (v : BVec) (f i : Nat) (hf : f < v.length) :
    (toggle v f).getD i false = xor (v.getD i false) (decide (f = i)) := by
  simp only [toggle, List.getD_eq_getElem?_getD, List.getElem?_modify]
  by_cases hfi : f = i
  · subst hfi
    simp [List.getElem?_eq_getElem hf]
  · simp [hfi]

@[simp] theorem length_applyOp (n : Nat) (op : P1) (v : BVec) (f : Nat) :
    (applyOp n op v f).length = v.length := by
  unfold applyOp
  cases op.xBit <;> cases op.zBit <;> simp

theorem getD_applyOp_x (n : Nat) (op : P1) (v : BVec) (f i : Nat) (hv : v.length = 2 * n)
    (hf : f < n) (hi : i < n) :
    (applyOp n op v f).getD i false = xor (v.getD i false) (op.xBit && decide (f = i)) := by
  unfold applyOp
  cases op.xBit <;> cases op.zBit <;> simp only [if_true, if_false, Bool.false_eq_true, Bool.false_and,
    Bool.true_and, Bool.xor_false]
  · rw [getD_toggle _ _ _ (by omega)]
    have : ¬ (n + f = i) := by omega
    simp [this]
  · rw [getD_toggle _ _ _ (by omega)]
  · rw [getD_toggle _ _ _ (by simp; omega), getD_toggle _ _ _ (by omega)]
    have : ¬ (n + f = i) := by omega
    simp [this]

theorem getD_applyOp_z (n : Nat) (op : P1) (v : BVec) (f i : Nat) (hv : v.length = 2 * n)
    (hf : f < n) :
    (applyOp n op v f).getD (n + i) false = xor (v.getD (n + i) false) (op.zBit && decide (f = i)) := by
  unfold applyOp
  cases op.xBit <;> cases op.zBit <;> simp only [if_true, if_false, Bool.false_eq_true, Bool.false_and,
    Bool.true_and, Bool.xor_false]
  · rw [getD_toggle _ _ _ (by omega)]
    simp
  · rw [getD_toggle _ _ _ (by omega)]
    have : ¬ (f = n + i) := by omega
    simp [this]
  · rw [getD_toggle _ _ _ (by simp; omega), getD_toggle _ _ _ (by omega)]
    have : ¬ (f = n + i) := by omega
    simp [this]

/-! ### `dot` / `bsp` against toggled vectors -/

theorem dot_toggle_right (a b : BVec) (f : Nat) (hf : f < b.length) :
    dot a (toggle b f) = xor (dot a b) (a.getD f false) := by
  induction a generalizing b f with
  | nil => simp
  | cons x xs ih =>
    cases b with
    | nil => simp at hf
    | cons y ys =>
      cases f with
      | zero =>
        simp only [toggle, List.modify_zero_cons, dot_cons, List.getD_cons_zero]
        cases x <;> cases y <;> cases dot xs ys <;> rfl
      | succ f =>
        have := ih ys f (by simpa using hf)
        simp only [toggle] at this
        simp only [toggle, List.modify_succ_cons, dot_cons, List.getD_cons_succ, this]
        cases (x && y) <;> cases dot xs ys <;> cases xs.getD f false <;> rfl

theorem dot_zeros_right (a : BVec) (m : Nat) : dot a (zeros m) = false := by
  induction a generalizing m with
  | nil => simp
  | cons x xs ih =>
    cases m with
    | zero => simp [zeros]
    | succ m =>
      have := ih m
      simp only [zeros] at this
      simp [zeros, List.replicate_succ, this]

theorem getD_zeros (m i : Nat) : (zeros m).getD i false = false := by
  simp only [zeros, List.getD_eq_getElem?_getD, List.getElem?_replicate]
  split <;> rfl

@[simp] theorem length_zeros (m : Nat) : (zeros m).length = m := by simp [zeros]

/-- the swapped halves `zs ++ xs` that `bsp` multiplies with -/
theorem getD_swap_lo (v : BVec) (n f : Nat) (hv : v.length = 2 * n) (hf : f < n) :
    (zHalf v ++ xHalf v).getD f false = v.getD (n + f) false := by
  have h2 : v.length / 2 = n := by omega
  simp only [zHalf, xHalf, h2, List.getD_eq_getElem?_getD]
  rw [List.getElem?_append_left (by simp; omega), List.getElem?_drop]

theorem getD_swap_hi (v : BVec) (n f : Nat) (hv : v.length = 2 * n) (hf : f < n) :
    (zHalf v ++ xHalf v).getD (n + f) false = v.getD f false := by
  have h2 : v.length / 2 = n := by omega
  simp only [zHalf, xHalf, h2, List.getD_eq_getElem?_getD]
  rw [List.getElem?_append_right (by simp; omega)]
  have : n + f - (List.drop n v).length = f := by simp; omega
  rw [this, List.getElem?_take]
  simp [hf]

theorem bsp_zeros_right (v : BVec) (m : Nat) : bsp v (zeros m) = false := by
  simp [bsp, dot_zeros_right]

/-- `bsp` against a vector with one more operator applied -/
theorem bsp_applyOp_right (n : Nat) (op : P1) (v w : BVec) (f : Nat) (hv : v.length = 2 * n)
    (hw : w.length = 2 * n) (hf : f < n) :
    bsp v (applyOp n op w f) =
      xor (bsp v w) (xor (op.xBit && v.getD (n + f) false) (op.zBit && v.getD f false)) := by
  unfold applyOp bsp
  cases op.xBit <;> cases op.zBit <;> simp only [if_true, if_false, Bool.false_eq_true, Bool.false_and,
    Bool.true_and, Bool.xor_false, Bool.false_xor]
  · rw [dot_toggle_right _ _ _ (by omega), getD_swap_hi v n f hv hf]
  · rw [dot_toggle_right _ _ _ (by omega), getD_swap_lo v n f hv hf]
  · rw [dot_toggle_right _ _ _ (by simp; omega), dot_toggle_right _ _ _ (by omega),
      getD_swap_hi v n f hv hf, getD_swap_lo v n f hv hf]
    cases dot (zHalf v ++ xHalf v) w <;> cases v.getD (n + f) false <;> cases v.getD f false <;> rfl

/-! ### operators built by applying one single-qubit operator along a list of flat indices -/

/-- `site(op, *indices)` on flat qubit indices -/
def applyOps (n : Nat) (op : P1) (v : BVec) (fs : List Nat) : BVec := fs.foldl (applyOp n op) v

@[simp] theorem applyOps_nil (n : Nat) (op : P1) (v : BVec) : applyOps n op v [] = v := rfl
@[simp] theorem applyOps_cons (n : Nat) (op : P1) (v : BVec) (f : Nat) (fs : List Nat) :
    applyOps n op v (f :: fs) = applyOps n op (applyOp n op v f) fs := rfl

@[simp] theorem length_applyOps (n : Nat) (op : P1) (v : BVec) (fs : List Nat) :
    (applyOps n op v fs).length = v.length := by
  induction fs generalizing v with
  | nil => rfl
  | cons f fs ih => simp [ih]

theorem applyOps_append (n : Nat) (op : P1) (v : BVec) (fs gs : List Nat) :
    applyOps n op v (fs ++ gs) = applyOps n op (applyOps n op v fs) gs := by
  simp [applyOps, List.foldl_append]

theorem bsp_applyOps_right (n : Nat) (op : P1) (v w : BVec) (fs : List Nat) (hv : v.length = 2 * n)
    (hw : w.length = 2 * n) (hfs : ∀ f ∈ fs, f < n) :
    bsp v (applyOps n op w fs) =
      xor (bsp v w) (xsum fs fun f => xor (op.xBit && v.getD (n + f) false) (op.zBit && v.getD f false)) := by
  induction fs generalizing w with
  | nil => simp
  | cons f fs ih =>
    rw [applyOps_cons, ih _ (by simp [hw]) (fun g hg => hfs g (by simp [hg])),
      bsp_applyOp_right n op v w f hv hw (hfs f (by simp)), xsum_cons, Bool.xor_assoc]

theorem getD_applyOps_x (n : Nat) (op : P1) (v : BVec) (fs : List Nat) (i : Nat) (hv : v.length = 2 * n)
    (hfs : ∀ f ∈ fs, f < n) (hi : i < n) :
    (applyOps n op v fs).getD i false = xor (v.getD i false) (op.xBit && xsum fs fun f => decide (f = i)) := by
  induction fs generalizing v with
  | nil => simp
  | cons f fs ih =>
    rw [applyOps_cons, ih _ (by simp [hv]) (fun g hg => hfs g (by simp [hg])),
      getD_applyOp_x n op v f i hv (hfs f (by simp)) hi, xsum_cons]
    cases op.xBit <;> simp

theorem getD_applyOps_z (n : Nat) (op : P1) (v : BVec) (fs : List Nat) (i : Nat) (hv : v.length = 2 * n)
    (hfs : ∀ f ∈ fs, f < n) :
    (applyOps n op v fs).getD (n + i) false =
      xor (v.getD (n + i) false) (op.zBit && xsum fs fun f => decide (f = i)) := by
  induction fs generalizing v with
  | nil => simp
  | cons f fs ih =>
    rw [applyOps_cons, ih _ (by simp [hv]) (fun g hg => hfs g (by simp [hg])),
      getD_applyOp_z n op v f i hv (hfs f (by simp)), xsum_cons]
    cases op.zBit <;> simp

theorem anti_eq_bits (p q : P1) : P1.anti p q = xor (q.xBit && p.zBit) (q.zBit && p.xBit) := by
  cases p <;> cases q <;> rfl

/-- **commutation of two toggled operators**: the operator `op₁` along `fs` and the operator `op₂`
    along `gs` anticommute iff `op₁`, `op₂` anticommute and the lists share an odd number of
    (position, position) coincidences -/
theorem bsp_applyOps_applyOps (n : Nat) (op₁ op₂ : P1) (fs gs : List Nat)
    (hfs : ∀ f ∈ fs, f < n) (hgs : ∀ g ∈ gs, g < n) :
    bsp (applyOps n op₁ (zeros (2 * n)) fs) (applyOps n op₂ (zeros (2 * n)) gs) =
      (P1.anti op₁ op₂ && xsum gs fun g => xsum fs fun f => decide (f = g)) := by
  rw [bsp_applyOps_right n op₂ _ _ gs (by simp) (by simp) hgs, bsp_zeros_right, Bool.false_xor]
  rw [xsum_congr gs _ (fun g => P1.anti op₁ op₂ && xsum fs fun f => decide (f = g))]
  · exact xsum_and_left _ _ _
  · intro g hg
    rw [getD_applyOps_z n op₁ _ fs g (by simp) hfs,
      getD_applyOps_x n op₁ _ fs g (by simp) hfs (hgs g hg), getD_zeros, getD_zeros, anti_eq_bits]
    cases op₂.xBit <;> cases op₂.zBit <;> cases op₁.xBit <;> cases op₁.zBit <;> simp

/-! ### weight of toggled operators -/

theorem countP_zipWith_or_modify (xs zs : BVec) (f : Nat) (bx bz : Bool) (hl : xs.length = zs.length)
    (hf : f < xs.length) (hx : xs.getD f false = false) (hz : zs.getD f false = false)
    (hb : (bx || bz) = true) :
    (List.zipWith or (if bx then xs.modify f not else xs) (if bz then zs.modify f not else zs)).countP id =
      (List.zipWith or xs zs).countP id + 1 := by
  induction xs generalizing zs f with
  | nil => simp at hf
  | cons x xs ih =>
    cases zs with
    | nil => simp at hl
    | cons z zs =>
      cases f with
      | zero =>
        simp only [List.getD_cons_zero] at hx hz
        subst hx hz
        cases bx <;> cases bz <;> first | exact absurd hb (by decide) | simp
      | succ f =>
        simp only [List.getD_cons_succ] at hx hz
        have := ih zs f (by simpa using hl) (by simpa using hf) hx hz
        cases bx <;> cases bz <;> first
          | exact absurd hb (by decide)
          | (simp only [if_true, if_false, Bool.false_eq_true, List.modify_succ_cons,
              List.zipWith_cons_cons, List.countP_cons] at this ⊢
             omega)

theorem xHalf_applyOp (n : Nat) (op : P1) (v : BVec) (f : Nat) (hv : v.length = 2 * n) :
    xHalf (applyOp n op v f) = if op.xBit then (xHalf v).modify f not else xHalf v := by
  have h2 : v.length / 2 = n := by omega
  have hz : ∀ w : BVec, w.length = 2 * n → (toggle w (n + f)).take n = w.take n := by
    intro w hw
    rw [toggle, List.take_modify, List.modify_eq_self]
    simp; omega
  unfold applyOp xHalf
  cases op.xBit <;> cases op.zBit <;> simp only [if_true, if_false, Bool.false_eq_true, length_toggle, h2]
  · exact hz v hv
  · rw [toggle, List.take_modify]
  · rw [hz _ (by simp [hv]), toggle, List.take_modify]

theorem zHalf_applyOp (n : Nat) (op : P1) (v : BVec) (f : Nat) (hv : v.length = 2 * n) (hf : f < n) :
    zHalf (applyOp n op v f) = if op.zBit then (zHalf v).modify f not else zHalf v := by
  have h2 : v.length / 2 = n := by omega
  have hz : ∀ w : BVec, (toggle w (n + f)).drop n = (w.drop n).modify f not := by
    intro w
    rw [toggle, List.drop_modify_of_ge _ _ _ _ (by omega)]
    congr 1
    omega
  have hx : ∀ w : BVec, (toggle w f).drop n = w.drop n := by
    intro w
    rw [toggle, List.drop_modify_of_lt _ _ _ _ hf]
  unfold applyOp zHalf
  cases op.xBit <;> cases op.zBit <;> simp only [if_true, if_false, Bool.false_eq_true, length_toggle, h2]
  · exact hz v
  · exact hx v
  · rw [hz, hx]

/-- applying a non-identity operator on a qubit where the Pauli is the identity adds one to the weight -/
theorem bsfWt_applyOp (n : Nat) (op : P1) (v : BVec) (f : Nat) (hv : v.length = 2 * n) (hf : f < n)
    (hop : op ≠ P1.I) (hx : v.getD f false = false) (hz : v.getD (n + f) false = false) :
    bsfWt (applyOp n op v f) = bsfWt v + 1 := by
  have h2 : v.length / 2 = n := by omega
  unfold bsfWt
  rw [xHalf_applyOp n op v f hv, zHalf_applyOp n op v f hv hf]
  apply countP_zipWith_or_modify
  · simp [xHalf, zHalf, h2]; omega
  · simp [xHalf, h2]; omega
  · simp only [xHalf, h2, List.getD_eq_getElem?_getD, List.getElem?_take, hf, if_true] at hx ⊢
    exact hx
  · simp only [zHalf, h2, List.getD_eq_getElem?_getD, List.getElem?_drop] at hz ⊢
    exact hz
  · cases op <;> simp [P1.xBit, P1.zBit] at hop ⊢

theorem bsfWt_zeros (m : Nat) : bsfWt (zeros m) = 0 := by
  simp [bsfWt, xHalf, zHalf, zeros]

/-- the weight of an operator toggled along a duplicate-free list of qubits is the length of the list -/
theorem bsfWt_applyOps_nodup (n : Nat) (op : P1) (v : BVec) (fs : List Nat) (hv : v.length = 2 * n)
    (hop : op ≠ P1.I) (hfs : ∀ f ∈ fs, f < n) (hnd : fs.Nodup)
    (hid : ∀ f ∈ fs, v.getD f false = false ∧ v.getD (n + f) false = false) :
    bsfWt (applyOps n op v fs) = bsfWt v + fs.length := by
  induction fs generalizing v with
  | nil => simp
  | cons f fs ih =>
    have hn := List.nodup_cons.mp hnd
    have hf := hfs f (by simp)
    rw [applyOps_cons, ih _ (by simp [hv]) (fun g hg => hfs g (by simp [hg])) hn.2,
      bsfWt_applyOp n op v f hv hf hop (hid f (by simp)).1 (hid f (by simp)).2]
    · simp; omega
    · intro g hg
      have hgf : ¬ (f = g) := fun e => hn.1 (e ▸ hg)
      have hgn := hfs g (by simp [hg])
      have hg' := hid g (by simp [hg])
      rw [getD_applyOp_x n op v f g hv hf hgn, getD_applyOp_z n op v f g hv hf, hg'.1, hg'.2]
      simp [hgf]

theorem bsfWt_applyOps_zeros (n : Nat) (op : P1) (fs : List Nat) (hop : op ≠ P1.I)
    (hfs : ∀ f ∈ fs, f < n) (hnd : fs.Nodup) :
    bsfWt (applyOps n op (zeros (2 * n)) fs) = fs.length := by
  rw [bsfWt_applyOps_nodup n op _ fs (by simp) hop hfs hnd, bsfWt_zeros]
  · simp
  · intro f _
    exact ⟨getD_zeros _ _, getD_zeros _ _⟩

/-! ### reading a syndrome back: unit vectors select one element -/

/-- the selector used by `syndrome_to_plaquette_indices` models -/
def sel {α : Type} (p : α × Bool) : Option α := if p.2 then some p.1 else none

theorem filterMap_sel_all_false {α : Type} (L : List α) (bs : List Bool) (h : ∀ b ∈ bs, b = false) :
    (L.zip bs).filterMap sel = [] := by
  induction L generalizing bs with
  | nil => simp
  | cons x xs ih =>
    cases bs with
    | nil => simp
    | cons b bs =>
      have hb : b = false := h b (by simp)
      subst hb
      simp only [List.zip_cons_cons, List.filterMap_cons, sel]
      exact ih bs (fun b hb => h b (by simp [hb]))

theorem filterMap_sel_unit' {α : Type} (L : List α) (k i : Nat) (hi : i < L.length) :
    (L.zip ((List.range' k L.length).map fun j => decide (j = k + i))).filterMap sel = [L[i]] := by
  induction L generalizing k i with
  | nil => simp at hi
  | cons x xs ih =>
    simp only [List.length_cons, List.range'_succ, List.map_cons, List.zip_cons_cons, List.filterMap_cons, sel]
    cases i with
    | zero =>
      simp only [Nat.add_zero, decide_true, if_true, List.getElem_cons_zero]
      congr 1
      apply filterMap_sel_all_false
      intro b hb
      obtain ⟨j, hj, rfl⟩ := List.mem_map.mp hb
      have := List.mem_range'_1.mp hj
      simp
      omega
    | succ i =>
      have hne : ¬ (k = k + (i + 1)) := by omega
      simp only [hne, decide_false, Bool.false_eq_true, if_false, List.getElem_cons_succ]
      have := ih (k + 1) i (by simpa using hi)
      rw [← this]
      congr 2
      apply List.map_congr_left
      intro j _
      apply decide_eq_decide.mpr
      omega

/-- zipping a list with the `i`-th unit vector and keeping the marked elements yields `[L[i]]` -/
theorem filterMap_sel_unit {α : Type} (L : List α) (i : Nat) (hi : i < L.length) :
    (L.zip ((List.range L.length).map fun j => decide (j = i))).filterMap sel = [L[i]] := by
  have := filterMap_sel_unit' L 0 i hi
  simpa [List.range_eq_range'] using this

/-- reading back a vector computed element by element keeps exactly the marked elements -/
theorem filterMap_sel_map {α : Type} (L : List α) (f : α → Bool) :
    (L.zip (L.map f)).filterMap sel = L.filter f := by
  induction L with
  | nil => rfl
  | cons x xs ih =>
    simp only [List.map_cons, List.zip_cons_cons, List.filterMap_cons, sel, List.filter_cons]
    cases f x <;> simp [ih]

/-- membership in the read-back list: positions with a set bit -/
theorem mem_filterMap_sel {α : Type} (L : List α) (bs : List Bool) (x : α) :
    x ∈ (L.zip bs).filterMap sel ↔ ∃ i : Nat, L[i]? = some x ∧ bs[i]? = some true := by
  induction L generalizing bs with
  | nil => simp
  | cons y ys ih =>
    cases bs with
    | nil => simp
    | cons b bs =>
      simp only [List.zip_cons_cons, List.filterMap_cons, sel]
      constructor
      · intro h
        cases b with
        | false =>
          obtain ⟨i, h1, h2⟩ := (ih bs).mp h
          exact ⟨i + 1, by simpa using h1, by simpa using h2⟩
        | true =>
          rcases List.mem_cons.mp h with rfl | h
          · exact ⟨0, by simp, by simp⟩
          · obtain ⟨i, h1, h2⟩ := (ih bs).mp h
            exact ⟨i + 1, by simpa using h1, by simpa using h2⟩
      · rintro ⟨i, h1, h2⟩
        cases i with
        | zero =>
          simp only [List.getElem?_cons_zero, Option.some.injEq] at h1 h2
          subst h1 h2
          simp
        | succ i =>
          simp only [List.getElem?_cons_succ] at h1 h2
          have := (ih bs).mpr ⟨i, h1, h2⟩
          cases b <;> simp [this]

/-! ### positions in a `flatMap` over a range -/

theorem getElem?_flatMap_range {α : Type} (n m : Nat) (f : Nat → List α) (hf : ∀ i, i < n → (f i).length = m)
    (i k : Nat) (hi : i < n) (hk : k < m) :
    ((List.range n).flatMap f)[i * m + k]? = (f i)[k]? := by
  induction n with
  | zero => omega
  | succ n ih =>
    have hlen : ((List.range n).flatMap f).length = n * m := by
      clear ih hi
      induction n with
      | zero => simp
      | succ n ih2 =>
        rw [List.range_succ, List.flatMap_append, List.length_append,
          ih2 (fun i hi => hf i (by omega))]
        simp [hf n (by omega), Nat.succ_mul]
    rw [List.range_succ, List.flatMap_append]
    by_cases hin : i < n
    · have : i * m + k < n * m := by
        have := Nat.mul_le_mul_right m (show i + 1 ≤ n by omega)
        rw [Nat.succ_mul] at this
        omega
      rw [List.getElem?_append_left (by omega)]
      exact ih (fun i hi => hf i (by omega)) hin
    · have hie : i = n := by omega
      subst hie
      rw [List.getElem?_append_right (by omega), hlen]
      simp

/-! ### linearity: applying operators to `v` is XOR-ing `v` with the operator applied to the identity -/

theorem toggle_xorV (v w : BVec) (f : Nat) (hl : v.length = w.length) :
    toggle (xorV v w) f = xorV v (toggle w f) := by
  induction v generalizing w f with
  | nil => cases w with
    | nil => simp [toggle, xorV]
    | cons _ _ => simp at hl
  | cons x xs ih =>
    cases w with
    | nil => simp at hl
    | cons y ys =>
      cases f with
      | zero =>
        simp only [toggle, xorV, List.zipWith_cons_cons, List.modify_zero_cons]
        cases x <;> cases y <;> rfl
      | succ f =>
        have := ih ys f (by simpa using hl)
        simp only [toggle, xorV] at this
        simp only [toggle, xorV, List.zipWith_cons_cons, List.modify_succ_cons, this]

theorem applyOp_xorV (n : Nat) (op : P1) (v w : BVec) (f : Nat) (hl : v.length = w.length) :
    applyOp n op (xorV v w) f = xorV v (applyOp n op w f) := by
  unfold applyOp
  cases op.xBit <;> cases op.zBit <;> simp only [if_true, if_false, Bool.false_eq_true]
  · rw [toggle_xorV _ _ _ hl]
  · rw [toggle_xorV _ _ _ hl]
  · rw [toggle_xorV _ _ _ hl, toggle_xorV _ _ _ (by simp [hl])]

theorem applyOps_xorV (n : Nat) (op : P1) (v w : BVec) (fs : List Nat) (hl : v.length = w.length) :
    applyOps n op (xorV v w) fs = xorV v (applyOps n op w fs) := by
  induction fs generalizing w with
  | nil => rfl
  | cons f fs ih => rw [applyOps_cons, applyOps_cons, applyOp_xorV _ _ _ _ _ hl, ih _ (by simp [hl])]

theorem xorV_zeros (v : BVec) : xorV v (zeros v.length) = v := by
  induction v with
  | nil => rfl
  | cons x xs ih =>
    simp only [xorV, zeros] at ih
    simp [xorV, zeros, List.replicate_succ, ih]

/-- applying operators along `fs` to `v` = `v` XOR (the operators applied to the identity) -/
theorem applyOps_eq_xorV (n : Nat) (op : P1) (v : BVec) (fs : List Nat) :
    applyOps n op v fs = xorV v (applyOps n op (zeros v.length) fs) := by
  rw [← applyOps_xorV _ _ _ _ _ (by simp), xorV_zeros]

end Qec.ToricLemmas

namespace Qec.Toric
open Qec Qec.ToricLemmas

/-! ### congruences with a symbolic modulus -/

/-- two congruences with the same difference are equivalent -/
theorem emod_eq_iff_of_sub_eq {m x y x' y' : Int} (h : x - y = x' - y') :
    (x % m = y % m ↔ x' % m = y' % m) := by
  rw [Int.emod_eq_emod_iff_emod_sub_eq_zero, Int.emod_eq_emod_iff_emod_sub_eq_zero, h]

theorem decide_emod_congr {m x y x' y' : Int} (h : x - y = x' - y') :
    decide (x % m = y % m) = decide (x' % m = y' % m) :=
  decide_eq_decide.mpr (emod_eq_iff_of_sub_eq h)

theorem emod_eq_of_eq_add_mul {m x e k : Int} (h : x = e + m * k) (h0 : 0 ≤ e) (h1 : e < m) : x % m = e := by
  rw [h, Int.add_mul_emod_self_left, Int.emod_eq_of_lt h0 h1]

/-- a multiple of `m` strictly between `-m` and `m` is zero -/
theorem eq_zero_of_emod_eq_zero_of_small {m z : Int} (h1 : -m < z) (h2 : z < m) (h : z % m = 0) : z = 0 := by
  by_cases hz : 0 ≤ z
  · rw [Int.emod_eq_of_lt hz h2] at h
    exact h
  · have : z % m = z + m := emod_eq_of_eq_add_mul (k := -1) (by rw [Int.mul_neg, Int.mul_one]; omega)
      (by omega) (by omega)
    omega

/-- a run of at most `m` consecutive integers is injective modulo `m` -/
theorem eq_of_emod_eq_of_small {m x y : Int} (h1 : -m < x - y) (h2 : x - y < m) (h : x % m = y % m) : x = y := by
  have := eq_zero_of_emod_eq_zero_of_small h1 h2 (Int.emod_eq_emod_iff_emod_sub_eq_zero.mp h)
  omega

theorem emod_succ_ne {m x : Int} (hm : 2 ≤ m) : (x + 1) % m ≠ x % m := by
  intro h
  have := eq_of_emod_eq_of_small (m := m) (by omega) (by omega) h
  omega

/-- `(-z) % m` in terms of `z % m` -/
theorem neg_emod_cases {m : Int} (hm : 0 < m) (z : Int) :
    (z % m = 0 ∧ (-z) % m = 0) ∨ (0 < z % m ∧ (-z) % m = m - z % m) := by
  have h0 := Int.emod_nonneg z (by omega : m ≠ 0)
  have h1 := Int.emod_lt_of_pos z hm
  have hd := Int.emod_def z m
  by_cases hz : z % m = 0
  · left
    refine ⟨hz, ?_⟩
    have : -z = m * (-(z / m)) := by rw [Int.mul_neg]; omega
    rw [this, Int.mul_emod_right]
  · right
    refine ⟨by omega, ?_⟩
    apply emod_eq_of_eq_add_mul (k := -(z / m) - 1)
    · rw [Int.mul_sub, Int.mul_neg, Int.mul_one]; omega
    · omega
    · omega

/-! ### normalised indices and flat positions -/

theorem norm_fst (R C : Int) (i : Idx) : (norm R C i).1 = i.1 % 2 := rfl
theorem norm_snd_fst (R C : Int) (i : Idx) : (norm R C i).2.1 = i.2.1 % R := rfl
theorem norm_snd_snd (R C : Int) (i : Idx) : (norm R C i).2.2 = i.2.2 % C := rfl

theorem norm_eq_iff (R C : Int) (s t : Idx) :
    norm R C s = norm R C t ↔ s.1 % 2 = t.1 % 2 ∧ s.2.1 % R = t.2.1 % R ∧ s.2.2 % C = t.2.2 % C := by
  simp only [norm, Prod.mk.injEq]

@[simp] theorem norm_norm (R C : Int) (i : Idx) : norm R C (norm R C i) = norm R C i := by
  simp only [norm, Int.emod_emod]

/-- an index in the lattice: `0 ≤ l < 2`, `0 ≤ r < R`, `0 ≤ c < C` -/
def InLattice (R C : Int) (i : Idx) : Prop :=
  0 ≤ i.1 ∧ i.1 < 2 ∧ 0 ≤ i.2.1 ∧ i.2.1 < R ∧ 0 ≤ i.2.2 ∧ i.2.2 < C

instance (R C : Int) (i : Idx) : Decidable (InLattice R C i) := by unfold InLattice; infer_instance

theorem inLattice_norm (R C : Int) (hR : 0 < R) (hC : 0 < C) (i : Idx) : InLattice R C (norm R C i) := by
  refine ⟨?_, ?_, Int.emod_nonneg _ (by omega), Int.emod_lt_of_pos _ hR, Int.emod_nonneg _ (by omega),
    Int.emod_lt_of_pos _ hC⟩ <;> simp only [norm] <;> omega

theorem norm_of_inLattice (R C : Int) (i : Idx) (h : InLattice R C i) : norm R C i = i := by
  obtain ⟨h1, h2, h3, h4, h5, h6⟩ := h
  obtain ⟨l, r, c⟩ := i
  simp only [norm, Prod.mk.injEq]
  exact ⟨by omega, Int.emod_eq_of_lt h3 h4, Int.emod_eq_of_lt h5 h6⟩

theorem inLattice_iff_norm (R C : Int) (hR : 0 < R) (hC : 0 < C) (i : Idx) : InLattice R C i ↔ norm R C i = i :=
  ⟨norm_of_inLattice R C i, fun h => h ▸ inLattice_norm R C hR hC i⟩

theorem mixed_radix_inj {C r c r' c' : Int} (hc0 : 0 ≤ c) (hc1 : c < C) (hc0' : 0 ≤ c') (hc1' : c' < C)
    (h : r * C + c = r' * C + c') : r = r' ∧ c = c' := by
  have hr : r = r' := by
    rcases Int.lt_trichotomy r r' with hlt | heq | hgt
    · have := Int.mul_le_mul_of_nonneg_right (show r + 1 ≤ r' by omega) (show 0 ≤ C by omega)
      rw [Int.add_mul, Int.one_mul] at this
      omega
    · exact heq
    · have := Int.mul_le_mul_of_nonneg_right (show r' + 1 ≤ r by omega) (show 0 ≤ C by omega)
      rw [Int.add_mul, Int.one_mul] at this
      omega
  subst hr
  exact ⟨rfl, by omega⟩

theorem flatten_bounds (R C : Int) (hR : 0 < R) (hC : 0 < C) (i : Idx) :
    0 ≤ flatten R C i ∧ flatten R C i < nQubits R C := by
  obtain ⟨h1, h2, h3, h4, h5, h6⟩ := inLattice_norm R C hR hC i
  have ha := Int.mul_le_mul_of_nonneg_right (show (norm R C i).2.1 + 1 ≤ R by omega) (show 0 ≤ C by omega)
  rw [Int.add_mul, Int.one_mul] at ha
  have hb := Int.mul_nonneg h3 (show 0 ≤ C by omega)
  have hrc := Int.mul_pos hR hC
  have hn : nQubits R C = R * C + R * C := by unfold nQubits; rw [Int.mul_assoc, Int.two_mul]
  simp only [flatten, hn]
  have hl : (norm R C i).1 = 0 ∨ (norm R C i).1 = 1 := by omega
  rcases hl with hl | hl <;> rw [hl] <;> simp only [Int.zero_mul, Int.one_mul] <;> omega

theorem flatten_inj (R C : Int) (hR : 0 < R) (hC : 0 < C) (s t : Idx) :
    flatten R C s = flatten R C t ↔ norm R C s = norm R C t := by
  constructor
  · intro h
    obtain ⟨h1, h2, h3, h4, h5, h6⟩ := inLattice_norm R C hR hC s
    obtain ⟨k1, k2, k3, k4, k5, k6⟩ := inLattice_norm R C hR hC t
    have ha := Int.mul_le_mul_of_nonneg_right (show (norm R C s).2.1 + 1 ≤ R by omega) (show 0 ≤ C by omega)
    rw [Int.add_mul, Int.one_mul] at ha
    have hb := Int.mul_nonneg h3 (show 0 ≤ C by omega)
    have ka := Int.mul_le_mul_of_nonneg_right (show (norm R C t).2.1 + 1 ≤ R by omega) (show 0 ≤ C by omega)
    rw [Int.add_mul, Int.one_mul] at ka
    have kb := Int.mul_nonneg k3 (show 0 ≤ C by omega)
    simp only [flatten] at h
    have hl : (norm R C s).1 = 0 ∨ (norm R C s).1 = 1 := by omega
    have kl : (norm R C t).1 = 0 ∨ (norm R C t).1 = 1 := by omega
    have e1 : (norm R C s).1 = (norm R C t).1 := by
      rcases hl with hl | hl <;> rcases kl with kl | kl <;> rw [hl, kl] at h <;>
        simp only [Int.zero_mul, Int.one_mul] at h <;> omega
    rw [e1] at h
    have h' : (norm R C s).2.1 * C + (norm R C s).2.2 = (norm R C t).2.1 * C + (norm R C t).2.2 := by omega
    obtain ⟨e2, e3⟩ := mixed_radix_inj h5 h6 k5 k6 h'
    exact Prod.ext e1 (Prod.ext e2 e3)
  · intro h
    simp only [flatten, h]

/-- flat qubit position as a natural number -/
def flatNat (R C : Int) (i : Idx) : Nat := (flatten R C i).toNat

theorem flatNat_lt (R C : Int) (hR : 0 < R) (hC : 0 < C) (i : Idx) : flatNat R C i < (nQubits R C).toNat := by
  have := flatten_bounds R C hR hC i
  unfold flatNat
  omega

theorem flatNat_inj (R C : Int) (hR : 0 < R) (hC : 0 < C) (s t : Idx) :
    flatNat R C s = flatNat R C t ↔ norm R C s = norm R C t := by
  rw [← flatten_inj R C hR hC]
  have h1 := flatten_bounds R C hR hC s
  have h2 := flatten_bounds R C hR hC t
  unfold flatNat
  omega

theorem sites_eq_applyOps (R C : Int) (op : P1) (v : BVec) (L : List Idx) :
    sites R C op v L = applyOps (nQubits R C).toNat op v (L.map (flatNat R C)) := by
  simp only [sites, applyOps, List.foldl_map]
  rfl

theorem identity_eq_zeros (R C : Int) : identity R C = zeros (2 * (nQubits R C).toNat) := rfl

@[simp] theorem length_sites (R C : Int) (op : P1) (v : BVec) (L : List Idx) :
    (sites R C op v L).length = v.length := by
  rw [sites_eq_applyOps, length_applyOps]

/-- **commutation of two site-list operators on the torus**: they anticommute iff the single-qubit
    operators do and the lists have an odd number of coincidences (as sites modulo the lattice) -/
theorem bsp_sites_sites (R C : Int) (hR : 0 < R) (hC : 0 < C) (op₁ op₂ : P1) (L₁ L₂ : List Idx) :
    bsp (sites R C op₁ (identity R C) L₁) (sites R C op₂ (identity R C) L₂) =
      (P1.anti op₁ op₂ && xsum L₂ fun t => xsum L₁ fun s => decide (norm R C s = norm R C t)) := by
  rw [sites_eq_applyOps, sites_eq_applyOps, identity_eq_zeros, bsp_applyOps_applyOps]
  · congr 1
    rw [xsum_map]
    apply xsum_congr
    intro t _
    rw [xsum_map]
    apply xsum_congr
    intro s _
    exact decide_eq_decide.mpr (flatNat_inj R C hR hC s t)
  · intro f hf
    obtain ⟨s, _, rfl⟩ := List.mem_map.mp hf
    exact flatNat_lt R C hR hC s
  · intro f hf
    obtain ⟨s, _, rfl⟩ := List.mem_map.mp hf
    exact flatNat_lt R C hR hC s

/-- the single-qubit operator of a site-list operator at site `i` -/
theorem operator_sites (R C : Int) (hR : 0 < R) (hC : 0 < C) (op : P1) (L : List Idx) (i : Idx) :
    operator R C (sites R C op (identity R C) L) i =
      if xsum L (fun s => decide (norm R C s = norm R C i)) then op else P1.I := by
  have hi := flatNat_lt R C hR hC i
  have hL : ∀ f ∈ L.map (flatNat R C), f < (nQubits R C).toNat := by
    intro f hf
    obtain ⟨s, _, rfl⟩ := List.mem_map.mp hf
    exact flatNat_lt R C hR hC s
  have hx : xsum (L.map (flatNat R C)) (fun f => decide (f = flatNat R C i)) =
      xsum L (fun s => decide (norm R C s = norm R C i)) := by
    rw [xsum_map]
    apply xsum_congr
    intro s _
    exact decide_eq_decide.mpr (flatNat_inj R C hR hC s i)
  unfold operator
  show P1.ofBits (List.getD _ (flatNat R C i) false) (List.getD _ ((nQubits R C).toNat + flatNat R C i) false) = _
  rw [sites_eq_applyOps, identity_eq_zeros, getD_applyOps_x _ _ _ _ _ (by simp) hL hi,
    getD_applyOps_z _ _ _ _ _ (by simp) hL, getD_zeros, getD_zeros, hx]
  cases xsum L (fun s => decide (norm R C s = norm R C i)) <;> cases op <;> rfl

/-- weight of a site-list operator whose sites are pairwise different modulo the lattice -/
theorem bsfWt_sites (R C : Int) (hR : 0 < R) (hC : 0 < C) (op : P1) (hop : op ≠ P1.I) (L : List Idx)
    (hL : L.Pairwise fun s t => norm R C s ≠ norm R C t) :
    bsfWt (sites R C op (identity R C) L) = L.length := by
  rw [sites_eq_applyOps, identity_eq_zeros, bsfWt_applyOps_zeros _ _ _ hop]
  · simp
  · intro f hf
    obtain ⟨s, _, rfl⟩ := List.mem_map.mp hf
    exact flatNat_lt R C hR hC s
  · unfold List.Nodup
    rw [List.pairwise_map]
    exact hL.imp fun {s t} h e => h ((flatNat_inj R C hR hC s t).mp e)

/-! ### plaquettes: sites, incidence with a site -/

theorem plaquetteSites_norm (R C : Int) (p : Idx) : plaquetteSites R C (norm R C p) = plaquetteSites R C p := by
  simp only [plaquetteSites, norm_norm]

theorem plaquetteOp_norm (R C : Int) (p : Idx) : plaquetteOp R C (norm R C p) = plaquetteOp R C p := by
  simp only [plaquetteOp, norm_norm]

theorem plaquette_norm (R C : Int) (v : BVec) (p : Idx) : plaquette R C v (norm R C p) = plaquette R C v p := by
  simp only [plaquette, plaquetteSites_norm, plaquetteOp_norm]

theorem plaquetteSites_of_inLattice (R C : Int) (p : Idx) (hp : InLattice R C p) :
    plaquetteSites R C p =
      [(p.1, p.2.1, p.2.2), (p.1, p.2.1 + 1, p.2.2), (p.1 + 1, p.2.1 + p.1, p.2.2 - p.1),
       (p.1 + 1, p.2.1 + p.1, p.2.2 - p.1 + 1)] := by
  simp only [plaquetteSites, norm_of_inLattice R C p hp]

/-- parity of the number of the four sites of plaquette `p` that coincide with site `s` -/
def inc (R C : Int) (s p : Idx) : Bool :=
  xsum (plaquetteSites R C p) fun t => decide (norm R C s = norm R C t)

/-- a site on the plaquette's own lattice is its N or S site -/
theorem inc_same (R C : Int) (s p : Idx) (hp : InLattice R C p) (hl : s.1 % 2 = p.1) :
    inc R C s p = ((xor (decide (s.2.1 % R = p.2.1 % R)) (decide ((s.2.1 - 1) % R = p.2.1 % R))) &&
      decide (s.2.2 % C = p.2.2 % C)) := by
  obtain ⟨h1, h2, _, _, _, _⟩ := hp
  have e1 : (s.1 % 2 = p.1 % 2) ↔ True := by simp only [iff_true]; omega
  have e2 : (s.1 % 2 = (p.1 + 1) % 2) ↔ False := by simp only [iff_false]; omega
  have e3 : (s.2.1 % R = (p.2.1 + 1) % R) ↔ ((s.2.1 - 1) % R = p.2.1 % R) :=
    emod_eq_iff_of_sub_eq (by omega)
  simp only [inc, plaquetteSites_of_inLattice R C p ⟨h1, h2, ‹_›, ‹_›, ‹_›, ‹_›⟩, xsum_cons, xsum_nil,
    norm_eq_iff, e1, e2, e3, true_and, false_and, decide_false, Bool.xor_false]
  by_cases a : s.2.1 % R = p.2.1 % R <;> by_cases b : (s.2.1 - 1) % R = p.2.1 % R <;>
    by_cases c : s.2.2 % C = p.2.2 % C <;> simp [a, b, c]

/-- a site on the other lattice is the plaquette's W or E site -/
theorem inc_other (R C : Int) (s p : Idx) (hp : InLattice R C p) (hl : s.1 % 2 ≠ p.1) :
    inc R C s p = (decide ((s.2.1 - p.1) % R = p.2.1 % R) &&
      xor (decide ((s.2.2 + p.1) % C = p.2.2 % C)) (decide ((s.2.2 + p.1 - 1) % C = p.2.2 % C))) := by
  obtain ⟨h1, h2, _, _, _, _⟩ := hp
  have e1 : (s.1 % 2 = p.1 % 2) ↔ False := by simp only [iff_false]; omega
  have e2 : (s.1 % 2 = (p.1 + 1) % 2) ↔ True := by simp only [iff_true]; omega
  have e3 : (s.2.1 % R = (p.2.1 + p.1) % R) ↔ ((s.2.1 - p.1) % R = p.2.1 % R) :=
    emod_eq_iff_of_sub_eq (by omega)
  have e4 : (s.2.2 % C = (p.2.2 - p.1) % C) ↔ ((s.2.2 + p.1) % C = p.2.2 % C) :=
    emod_eq_iff_of_sub_eq (by omega)
  have e5 : (s.2.2 % C = (p.2.2 - p.1 + 1) % C) ↔ ((s.2.2 + p.1 - 1) % C = p.2.2 % C) :=
    emod_eq_iff_of_sub_eq (by omega)
  simp only [inc, plaquetteSites_of_inLattice R C p ⟨h1, h2, ‹_›, ‹_›, ‹_›, ‹_›⟩, xsum_cons, xsum_nil,
    norm_eq_iff, e1, e2, e3, e4, e5, true_and, false_and, decide_false, Bool.xor_false, Bool.false_xor]
  by_cases a : (s.2.1 - p.1) % R = p.2.1 % R <;> by_cases b : (s.2.2 + p.1) % C = p.2.2 % C <;>
    by_cases c : (s.2.2 + p.1 - 1) % C = p.2.2 % C <;> simp [a, b, c]

/-! ### straight runs of sites -/

/-- the sites visited by `k` steps from row `r` (north when `north`, else south), as `path` visits them -/
def vRun (l r c : Int) (rs : Int) : List Idx :=
  if rs < 0 then (List.range rs.natAbs).map fun (i : Nat) => (l, r - (i : Int), c)
  else (List.range rs.natAbs).map fun (i : Nat) => (l, r + 1 + (i : Int), c)

def hRun (l r c : Int) (cs : Int) : List Idx :=
  if cs < 0 then (List.range cs.natAbs).map fun (i : Nat) => (l, r, c - (i : Int))
  else (List.range cs.natAbs).map fun (i : Nat) => (l, r, c + 1 + (i : Int))

theorem pathSites_eq (R C : Int) (a : Idx) (rs cs : Int) :
    pathSites R C a rs cs =
      vRun (a.1 % 2) (a.2.1 % R) (a.2.2 % C) rs ++
      hRun (a.1 % 2 + 1) (a.2.1 % R + rs + a.1 % 2) (a.2.2 % C - a.1 % 2) cs := rfl

/-- **vertical run**: a vertical run of sites anticommutes exactly with the plaquettes at its two ends
    (telescoping; holds for any length) -/
theorem xsum_vRun (R C : Int) (l r c rs : Int) (p : Idx) (hp : InLattice R C p) (hl : l % 2 = p.1) :
    xsum (vRun l r c rs) (fun s => inc R C s p) =
      ((xor (decide ((r + rs) % R = p.2.1 % R)) (decide (r % R = p.2.1 % R))) &&
        decide (c % C = p.2.2 % C)) := by
  unfold vRun
  split
  · rename_i h
    rw [xsum_map, xsum_congr _ _ (fun (i : Nat) =>
        (xor (decide ((r - ((i + 1 : Nat) : Int)) % R = p.2.1 % R)) (decide ((r - (i : Int)) % R = p.2.1 % R)))
          && decide (c % C = p.2.2 % C))]
    · rw [xsum_and_right, xsum_range_telescope (fun i => decide ((r - (i : Int)) % R = p.2.1 % R))]
      have : r - ((rs.natAbs : Nat) : Int) = r + rs := by omega
      rw [this]
      simp
    · intro i _
      rw [inc_same R C _ p hp hl]
      have : r - ((i + 1 : Nat) : Int) = r - (i : Int) - 1 := by omega
      simp only [this, Bool.xor_comm]
  · rename_i h
    rw [xsum_map, xsum_congr _ _ (fun (i : Nat) =>
        (xor (decide ((r + ((i + 1 : Nat) : Int)) % R = p.2.1 % R)) (decide ((r + (i : Int)) % R = p.2.1 % R)))
          && decide (c % C = p.2.2 % C))]
    · rw [xsum_and_right, xsum_range_telescope (fun i => decide ((r + (i : Int)) % R = p.2.1 % R))]
      have : r + ((rs.natAbs : Nat) : Int) = r + rs := by omega
      rw [this]
      simp
    · intro i _
      rw [inc_same R C _ p hp hl]
      have e1 : r + 1 + (i : Int) = r + ((i + 1 : Nat) : Int) := by omega
      have e2 : r + 1 + (i : Int) - 1 = r + (i : Int) := by omega
      dsimp only
      rw [e2, e1]

/-- **horizontal run** (sites on the other lattice than the plaquette) -/
theorem xsum_hRun (R C : Int) (l r c cs : Int) (p : Idx) (hp : InLattice R C p) (hl : l % 2 ≠ p.1) :
    xsum (hRun l r c cs) (fun s => inc R C s p) =
      (decide ((r - p.1) % R = p.2.1 % R) &&
        xor (decide ((c + p.1 + cs) % C = p.2.2 % C)) (decide ((c + p.1) % C = p.2.2 % C))) := by
  unfold hRun
  split
  · rename_i h
    rw [xsum_map, xsum_congr _ _ (fun (i : Nat) => decide ((r - p.1) % R = p.2.1 % R) &&
        (xor (decide ((c + p.1 - ((i + 1 : Nat) : Int)) % C = p.2.2 % C))
          (decide ((c + p.1 - (i : Int)) % C = p.2.2 % C))))]
    · rw [xsum_and_left, xsum_range_telescope (fun i => decide ((c + p.1 - (i : Int)) % C = p.2.2 % C))]
      have : c + p.1 - ((cs.natAbs : Nat) : Int) = c + p.1 + cs := by omega
      rw [this]
      simp
    · intro i _
      rw [inc_other R C _ p hp hl]
      have e1 : c - (i : Int) + p.1 = c + p.1 - (i : Int) := by omega
      have e2 : c - (i : Int) + p.1 - 1 = c + p.1 - ((i + 1 : Nat) : Int) := by omega
      dsimp only
      rw [e2, e1, Bool.xor_comm]
  · rename_i h
    rw [xsum_map, xsum_congr _ _ (fun (i : Nat) => decide ((r - p.1) % R = p.2.1 % R) &&
        (xor (decide ((c + p.1 + ((i + 1 : Nat) : Int)) % C = p.2.2 % C))
          (decide ((c + p.1 + (i : Int)) % C = p.2.2 % C))))]
    · rw [xsum_and_left, xsum_range_telescope (fun i => decide ((c + p.1 + (i : Int)) % C = p.2.2 % C))]
      have : c + p.1 + ((cs.natAbs : Nat) : Int) = c + p.1 + cs := by omega
      rw [this]
      simp
    · intro i _
      rw [inc_other R C _ p hp hl]
      have e1 : c + 1 + (i : Int) + p.1 = c + p.1 + ((i + 1 : Nat) : Int) := by omega
      have e2 : c + 1 + (i : Int) + p.1 - 1 = c + p.1 + (i : Int) := by omega
      dsimp only
      rw [e2, e1]

/-! ### translations -/

/-- one component of `translation`: the shortest signed step from `x` to `y` modulo `m`, the positive
    direction (south / east) preferred on a tie -/
def step (m x y : Int) : Int :=
  let n := (x % m - y % m) % m
  let s := (y % m - x % m) % m
  if s ≤ n then s else -n

theorem translation_eq (R C : Int) (a b : Idx) :
    translation R C a b =
      if a.1 % 2 != b.1 % 2 then .error .index else .ok (step R a.2.1 b.2.1, step C a.2.2 b.2.2) := rfl

theorem step_cases {m : Int} (hm : 0 < m) (x y : Int) :
    ((y % m - x % m) % m = 0 ∧ step m x y = 0) ∨
    (0 < (y % m - x % m) % m ∧ 2 * ((y % m - x % m) % m) ≤ m ∧ step m x y = (y % m - x % m) % m) ∨
    (m < 2 * ((y % m - x % m) % m) ∧ step m x y = (y % m - x % m) % m - m) := by
  have h0 := Int.emod_nonneg (y % m - x % m) (by omega : m ≠ 0)
  have h1 := Int.emod_lt_of_pos (y % m - x % m) hm
  have hneg : x % m - y % m = -(y % m - x % m) := by omega
  unfold step
  simp only [hneg]
  rcases neg_emod_cases hm (y % m - x % m) with ⟨hz, hn⟩ | ⟨hz, hn⟩
  · left
    rw [hn, hz]
    simp
  · right
    rw [hn]
    by_cases hle : (y % m - x % m) % m ≤ m - (y % m - x % m) % m
    · left
      rw [if_pos hle]
      exact ⟨hz, by omega, rfl⟩
    · right
      rw [if_neg hle]
      exact ⟨by omega, by omega⟩

/-- the step leads from `x` to `y` modulo `m` -/
theorem step_emod {m : Int} (hm : 0 < m) (x y : Int) : (x + step m x y) % m = y % m := by
  have key : (x % m + (y % m - x % m) % m) % m = y % m := by
    rw [Int.add_emod_emod]
    have : x % m + (y % m - x % m) = y % m := by omega
    rw [this, Int.emod_emod]
  rw [← Int.emod_add_emod]
  rcases step_cases hm x y with ⟨h, hs⟩ | ⟨_, _, hs⟩ | ⟨_, hs⟩
  · rw [hs, ← h]; exact key
  · rw [hs]; exact key
  · rw [hs]
    have : x % m + ((y % m - x % m) % m - m) = x % m + (y % m - x % m) % m + m * (-1) := by
      rw [Int.mul_neg, Int.mul_one]; omega
    rw [this, Int.add_mul_emod_self_left]
    exact key

/-- the step is a shortest residue: `-m/2 < step ≤ m/2` (the tie `|step| = m/2` is resolved to `+m/2`) -/
theorem step_bounds {m : Int} (hm : 0 < m) (x y : Int) : -m < 2 * step m x y ∧ 2 * step m x y ≤ m := by
  have h0 := Int.emod_nonneg (y % m - x % m) (by omega : m ≠ 0)
  have h1 := Int.emod_lt_of_pos (y % m - x % m) hm
  rcases step_cases hm x y with ⟨h, hs⟩ | ⟨_, _, hs⟩ | ⟨_, hs⟩ <;> omega

/-- … and it is the only such residue -/
theorem step_unique {m : Int} (hm : 0 < m) (x y t : Int) (h : (x + t) % m = y % m)
    (h1 : -m < 2 * t) (h2 : 2 * t ≤ m) : t = step m x y := by
  have hb := step_bounds hm x y
  have he : (x + t) % m = (x + step m x y) % m := by rw [h, step_emod hm]
  have := eq_of_emod_eq_of_small (m := m) (by omega) (by omega) he
  omega

theorem step_natAbs_le {m : Int} (hm : 0 < m) (x y : Int) : ((step m x y).natAbs : Int) ≤ m / 2 := by
  have := step_bounds hm x y
  omega

theorem step_eq_zero {m : Int} (hm : 0 < m) (x y : Int) (h : x % m = y % m) : step m x y = 0 :=
  (step_unique hm x y 0 (by rw [Int.add_zero, h]) (by omega) (by omega)).symm

theorem step_natAbs_comm (m x y : Int) (hm : 0 < m) : (step m x y).natAbs = (step m y x).natAbs := by
  have h0 := Int.emod_nonneg (y % m - x % m) (by omega : m ≠ 0)
  have h1 := Int.emod_nonneg (x % m - y % m) (by omega : m ≠ 0)
  unfold step
  simp only
  split <;> split <;> omega

/-! ### the path operator -/

theorem plaquetteOp_of_inLattice (R C : Int) (p : Idx) (hp : InLattice R C p) :
    plaquetteOp R C p = if p.1 = 0 then P1.Z else P1.X := by
  simp only [plaquetteOp, norm_of_inLattice R C p hp, primalIndex, beq_iff_eq]

theorem pathOp_eq (R C : Int) (a : Idx) : pathOp R C a = if a.1 % 2 = 0 then P1.X else P1.Z := by
  simp only [pathOp, norm, primalIndex, beq_iff_eq]

/-- **path lemma**: the operator that `path` builds from plaquette `a` for ANY translation `(rs, cs)`
    anticommutes with the generator of the in-lattice plaquette `p` iff `p` is exactly one of `a` and
    `a + (rs, cs)` (modulo the lattice) -/
theorem bsp_pathSites_plaquette (R C : Int) (hR : 0 < R) (hC : 0 < C) (a : Idx) (rs cs : Int) (p : Idx)
    (hp : InLattice R C p) :
    bsp (sites R C (pathOp R C a) (identity R C) (pathSites R C a rs cs))
        (plaquette R C (identity R C) p) =
      (decide (norm R C p = norm R C (a.1, a.2.1 + rs, a.2.2 + cs)) != decide (norm R C p = norm R C a)) := by
  have hp' := hp
  obtain ⟨h1, h2, h3, h4, h5, h6⟩ := hp'
  unfold plaquette
  rw [bsp_sites_sites R C hR hC, xsum_comm]
  change (_ && xsum (pathSites R C a rs cs) (fun s => inc R C s p)) = _
  rw [plaquetteOp_of_inLattice R C p hp, pathOp_eq]
  by_cases hl : a.1 % 2 = p.1
  · have hanti : P1.anti (if a.1 % 2 = 0 then P1.X else P1.Z) (if p.1 = 0 then P1.Z else P1.X) = true := by
      rw [hl]
      split <;> rfl
    have hv := xsum_vRun R C (a.1 % 2) (a.2.1 % R) (a.2.2 % C) rs p hp (by omega)
    have hh := xsum_hRun R C (a.1 % 2 + 1) (a.2.1 % R + rs + a.1 % 2) (a.2.2 % C - a.1 % 2) cs p hp (by omega)
    have g1 : ((a.2.1 % R + rs) % R = p.2.1 % R) ↔ ((a.2.1 + rs) % R = p.2.1 % R) := by
      rw [Int.emod_add_emod]
    have g2 : (a.2.1 % R % R = p.2.1 % R) ↔ (a.2.1 % R = p.2.1 % R) := by rw [Int.emod_emod]
    have g3 : (a.2.2 % C % C = p.2.2 % C) ↔ (a.2.2 % C = p.2.2 % C) := by rw [Int.emod_emod]
    have g4 : ((a.2.1 % R + rs + a.1 % 2 - p.1) % R = p.2.1 % R) ↔ ((a.2.1 + rs) % R = p.2.1 % R) := by
      rw [show a.2.1 % R + rs + a.1 % 2 - p.1 = a.2.1 % R + rs by omega, Int.emod_add_emod]
    have g5 : ((a.2.2 % C - a.1 % 2 + p.1 + cs) % C = p.2.2 % C) ↔ ((a.2.2 + cs) % C = p.2.2 % C) := by
      rw [show a.2.2 % C - a.1 % 2 + p.1 + cs = a.2.2 % C + cs by omega, Int.emod_add_emod]
    have g6 : ((a.2.2 % C - a.1 % 2 + p.1) % C = p.2.2 % C) ↔ (a.2.2 % C = p.2.2 % C) := by
      rw [show a.2.2 % C - a.1 % 2 + p.1 = a.2.2 % C by omega, Int.emod_emod]
    simp only [g1, g2, g3] at hv
    simp only [g4, g5, g6] at hh
    have hl2 : (p.1 % 2 = a.1 % 2) ↔ True := by simp only [iff_true]; omega
    rw [hanti, Bool.true_and, pathSites_eq, xsum_append, hv, hh]
    simp only [norm_eq_iff, hl2, true_and, eq_comm (a := p.2.1 % R), eq_comm (a := p.2.2 % C)]
    by_cases A : (a.2.1 + rs) % R = p.2.1 % R <;> by_cases B : a.2.1 % R = p.2.1 % R <;>
      by_cases D : (a.2.2 + cs) % C = p.2.2 % C <;> by_cases E : a.2.2 % C = p.2.2 % C <;>
      simp [A, B, D, E]
  · have hanti : P1.anti (if a.1 % 2 = 0 then P1.X else P1.Z) (if p.1 = 0 then P1.Z else P1.X) = false := by
      have : a.1 % 2 = 0 ∨ a.1 % 2 = 1 := by omega
      have : p.1 = 0 ∨ p.1 = 1 := by omega
      split <;> split <;> first | rfl | omega
    have hl2 : (p.1 % 2 = a.1 % 2) ↔ False := by simp only [iff_false]; omega
    rw [hanti, Bool.false_and]
    simp only [norm_eq_iff, hl2, false_and, decide_false, bne_self_eq_false]

/-! ### distinctness of path sites and plaquette sites; weights -/

theorem vRun_pairwise (R C : Int) (l r c rs : Int) (h : (rs.natAbs : Int) ≤ R) :
    (vRun l r c rs).Pairwise fun s t => norm R C s ≠ norm R C t := by
  unfold vRun
  split <;> rw [List.pairwise_map] <;>
    refine List.Pairwise.imp_of_mem ?_ (List.pairwise_lt_range (n := rs.natAbs)) <;>
    intro i j hi hj hij e <;>
    have hi' := List.mem_range.mp hi <;>
    have hj' := List.mem_range.mp hj <;>
    have e2 := ((norm_eq_iff R C _ _).mp e).2.1 <;>
    have := eq_of_emod_eq_of_small (m := R) (by dsimp only; omega) (by dsimp only; omega) e2 <;>
    dsimp only at this <;> omega

theorem hRun_pairwise (R C : Int) (l r c cs : Int) (h : (cs.natAbs : Int) ≤ C) :
    (hRun l r c cs).Pairwise fun s t => norm R C s ≠ norm R C t := by
  unfold hRun
  split <;> rw [List.pairwise_map] <;>
    refine List.Pairwise.imp_of_mem ?_ (List.pairwise_lt_range (n := cs.natAbs)) <;>
    intro i j hi hj hij e <;>
    have hi' := List.mem_range.mp hi <;>
    have hj' := List.mem_range.mp hj <;>
    have e2 := ((norm_eq_iff R C _ _).mp e).2.2 <;>
    have := eq_of_emod_eq_of_small (m := C) (by dsimp only; omega) (by dsimp only; omega) e2 <;>
    dsimp only at this <;> omega

theorem vRun_lattice (l r c rs : Int) : ∀ s ∈ vRun l r c rs, s.1 = l := by
  intro s hs
  unfold vRun at hs
  split at hs <;> obtain ⟨i, _, rfl⟩ := List.mem_map.mp hs <;> rfl

theorem hRun_lattice (l r c cs : Int) : ∀ s ∈ hRun l r c cs, s.1 = l := by
  intro s hs
  unfold hRun at hs
  split at hs <;> obtain ⟨i, _, rfl⟩ := List.mem_map.mp hs <;> rfl

theorem length_vRun (l r c rs : Int) : (vRun l r c rs).length = rs.natAbs := by
  unfold vRun; split <;> simp
theorem length_hRun (l r c cs : Int) : (hRun l r c cs).length = cs.natAbs := by
  unfold hRun; split <;> simp

theorem length_pathSites (R C : Int) (a : Idx) (rs cs : Int) :
    (pathSites R C a rs cs).length = rs.natAbs + cs.natAbs := by
  rw [pathSites_eq, List.length_append, length_vRun, length_hRun]

/-- the sites of a path with `|rs| ≤ R`, `|cs| ≤ C` are pairwise different modulo the lattice -/
theorem pathSites_pairwise (R C : Int) (a : Idx) (rs cs : Int) (hr : (rs.natAbs : Int) ≤ R)
    (hc : (cs.natAbs : Int) ≤ C) :
    (pathSites R C a rs cs).Pairwise fun s t => norm R C s ≠ norm R C t := by
  rw [pathSites_eq, List.pairwise_append]
  refine ⟨vRun_pairwise R C _ _ _ _ hr, hRun_pairwise R C _ _ _ _ hc, ?_⟩
  intro s hs t ht e
  have h1 := vRun_lattice _ _ _ _ s hs
  have h2 := hRun_lattice _ _ _ _ t ht
  have e1 := ((norm_eq_iff R C _ _).mp e).1
  rw [h1, h2] at e1
  omega

theorem pathOp_ne_I (R C : Int) (a : Idx) : pathOp R C a ≠ P1.I := by
  rw [pathOp_eq]; split <;> simp

theorem plaquetteOp_ne_I (R C : Int) (p : Idx) : plaquetteOp R C p ≠ P1.I := by
  unfold plaquetteOp; split <;> simp

/-- the four sites of a plaquette are pairwise different modulo the lattice when `R, C ≥ 2` -/
theorem plaquetteSites_pairwise (R C : Int) (hR : 2 ≤ R) (hC : 2 ≤ C) (p : Idx) :
    (plaquetteSites R C p).Pairwise fun s t => norm R C s ≠ norm R C t := by
  rw [← plaquetteSites_norm]
  have hp := inLattice_norm R C (by omega) (by omega) p
  generalize norm R C p = q at hp
  rw [plaquetteSites_of_inLattice R C q hp]
  obtain ⟨h1, h2, _, _, _, _⟩ := hp
  have hS : (q.2.1 + 1) % R ≠ q.2.1 % R := emod_succ_ne hR
  have hE : (q.2.2 - q.1 + 1) % C ≠ (q.2.2 - q.1) % C := emod_succ_ne hC
  simp only [List.pairwise_cons, List.mem_cons, List.not_mem_nil, or_false, forall_eq_or_imp, forall_eq,
    norm_eq_iff, ne_eq, not_and, List.Pairwise.nil, and_true, false_imp_iff, implies_true]
  refine ⟨⟨?_, ?_, ?_⟩, ⟨?_, ?_⟩, ?_⟩
  · intro _ e; exact absurd e.symm hS
  · intro e; omega
  · intro e; omega
  · intro e; omega
  · intro e; omega
  · intro _ _ e; exact absurd e.symm hE

/-- the operator of a plaquette generator at site `s` -/
theorem operator_plaquette (R C : Int) (hR : 2 ≤ R) (hC : 2 ≤ C) (p s : Idx) :
    operator R C (plaquette R C (identity R C) p) s =
      if norm R C s ∈ (plaquetteSites R C p).map (norm R C) then plaquetteOp R C p else P1.I := by
  unfold plaquette
  rw [operator_sites R C (by omega) (by omega)]
  have hnd : ((plaquetteSites R C p).map (norm R C)).Nodup := by
    unfold List.Nodup
    rw [List.pairwise_map]
    exact plaquetteSites_pairwise R C hR hC p
  have := xsum_decide_eq_of_nodup _ (norm R C s) hnd
  rw [xsum_map] at this
  rw [this]
  by_cases h : norm R C s ∈ (plaquetteSites R C p).map (norm R C) <;> simp [h]

theorem bsfWt_plaquette (R C : Int) (hR : 2 ≤ R) (hC : 2 ≤ C) (p : Idx) :
    bsfWt (plaquette R C (identity R C) p) = 4 := by
  unfold plaquette
  rw [bsfWt_sites R C (by omega) (by omega) _ (plaquetteOp_ne_I R C p) _ (plaquetteSites_pairwise R C hR hC p)]
  rfl

/-! ### the index list -/

/-- lexicographic order on (lattice, row, column): the order of `np.ndindex` -/
def lexLt (p q : Idx) : Prop :=
  p.1 < q.1 ∨ (p.1 = q.1 ∧ (p.2.1 < q.2.1 ∨ (p.2.1 = q.2.1 ∧ p.2.2 < q.2.2)))

theorem mem_indices (R C : Int) (p : Idx) : p ∈ indices R C ↔ InLattice R C p := by
  simp only [indices, List.mem_flatMap, List.mem_map, List.mem_range]
  constructor
  · rintro ⟨l, hl, r, hr, c, hc, rfl⟩
    refine ⟨?_, ?_, ?_, ?_, ?_, ?_⟩ <;> dsimp only <;> omega
  · rintro ⟨h1, h2, h3, h4, h5, h6⟩
    refine ⟨p.1.toNat, by omega, p.2.1.toNat, by omega, p.2.2.toNat, by omega, ?_⟩
    obtain ⟨l, r, c⟩ := p
    simp only [Prod.mk.injEq]
    dsimp only at h1 h3 h5
    omega

theorem indices_sorted (R C : Int) : (indices R C).Pairwise lexLt := by
  unfold indices
  rw [List.pairwise_flatMap]
  constructor
  · intro l _
    rw [List.pairwise_flatMap]
    constructor
    · intro r _
      rw [List.pairwise_map]
      refine List.Pairwise.imp ?_ (List.pairwise_lt_range)
      intro c c' h
      right; refine ⟨rfl, ?_⟩; right; refine ⟨rfl, ?_⟩
      dsimp only; omega
    · refine List.Pairwise.imp ?_ (List.pairwise_lt_range)
      intro r r' h x hx y hy
      obtain ⟨c, _, rfl⟩ := List.mem_map.mp hx
      obtain ⟨c', _, rfl⟩ := List.mem_map.mp hy
      right; refine ⟨rfl, ?_⟩; left
      dsimp only; omega
  · refine List.Pairwise.imp ?_ (List.pairwise_lt_range)
    intro l l' h x hx y hy
    obtain ⟨r, _, hx⟩ := List.mem_flatMap.mp hx
    obtain ⟨c, _, rfl⟩ := List.mem_map.mp hx
    obtain ⟨r', _, hy⟩ := List.mem_flatMap.mp hy
    obtain ⟨c', _, rfl⟩ := List.mem_map.mp hy
    left
    dsimp only; omega

theorem lexLt_ne {p q : Idx} (h : lexLt p q) : p ≠ q := by
  intro e
  subst e
  unfold lexLt at h
  omega

theorem indices_nodup (R C : Int) : (indices R C).Nodup :=
  (indices_sorted R C).imp lexLt_ne

theorem sum_map_const {α : Type} (L : List α) (c : Nat) : (L.map fun _ => c).sum = L.length * c := by
  induction L with
  | nil => simp
  | cons a L ih => simp only [List.map_cons, List.sum_cons, ih, List.length_cons, Nat.succ_mul]; omega

theorem length_indices (R C : Int) : (indices R C).length = 2 * (R.toNat * C.toNat) := by
  simp only [indices, List.length_flatMap, List.length_map, List.length_range, sum_map_const]

/-- **position of a plaquette in the index list** (= position of its syndrome bit, = position of its
    generator in `stabilizers`): the flat index `l·R·C + r·C + c` -/
theorem getElem?_indices (R C : Int) (p : Idx) (hp : InLattice R C p) :
    (indices R C)[flatNat R C p]? = some p := by
  have hp' := hp
  obtain ⟨h1, h2, h3, h4, h5, h6⟩ := hp'
  have hflat : flatNat R C p = p.1.toNat * (R.toNat * C.toNat) + (p.2.1.toNat * C.toNat + p.2.2.toNat) := by
    unfold flatNat
    have : flatten R C p =
        ((p.1.toNat * (R.toNat * C.toNat) + (p.2.1.toNat * C.toNat + p.2.2.toNat) : Nat) : Int) := by
      simp only [flatten, norm_of_inLattice R C p hp]
      push_cast
      rw [Int.toNat_of_nonneg h1, Int.toNat_of_nonneg h3, Int.toNat_of_nonneg h5,
        Int.toNat_of_nonneg (show 0 ≤ R by omega), Int.toNat_of_nonneg (show 0 ≤ C by omega), Int.add_assoc]
    rw [this, Int.toNat_natCast]
  have hk : p.2.1.toNat * C.toNat + p.2.2.toNat < R.toNat * C.toNat := by
    have := Nat.mul_le_mul_right C.toNat (show p.2.1.toNat + 1 ≤ R.toNat by omega)
    rw [Nat.succ_mul] at this
    omega
  rw [hflat]
  unfold indices
  rw [getElem?_flatMap_range 2 (R.toNat * C.toNat) _ _ p.1.toNat _ (by omega) hk]
  · rw [getElem?_flatMap_range R.toNat C.toNat _ _ p.2.1.toNat p.2.2.toNat (by omega) (by omega)]
    · rw [List.getElem?_map, List.getElem?_range (by omega)]
      obtain ⟨l, r, c⟩ := p
      simp only [Option.map_some, Option.some.injEq, Prod.mk.injEq]
      dsimp only at h1 h3 h5
      omega
    · intro i _
      simp
  · intro i _
    simp only [List.length_flatMap, List.length_map, List.length_range, sum_map_const]

/-! ### `translation`, `path`, `distance` in closed form -/

theorem translation_eq_ok (R C : Int) (a b : Idx) (hab : a.1 % 2 = b.1 % 2) :
    translation R C a b = .ok (step R a.2.1 b.2.1, step C a.2.2 b.2.2) := by
  rw [translation_eq, hab]
  simp

theorem translation_eq_error (R C : Int) (a b : Idx) (hab : a.1 % 2 ≠ b.1 % 2) :
    translation R C a b = .error .index := by
  rw [translation_eq]
  simp [hab]

theorem path_eq_ok (R C : Int) (v : BVec) (a b : Idx) (hab : a.1 % 2 = b.1 % 2) :
    path R C v a b = .ok (sites R C (pathOp R C a) v
      (pathSites R C a (step R a.2.1 b.2.1) (step C a.2.2 b.2.2))) := by
  unfold path
  rw [translation_eq_ok R C a b hab]

theorem path_eq_error (R C : Int) (v : BVec) (a b : Idx) (hab : a.1 % 2 ≠ b.1 % 2) :
    path R C v a b = .error .index := by
  unfold path
  rw [translation_eq_error R C a b hab]

theorem distance_eq_ok (R C : Int) (a b : Idx) (hab : a.1 % 2 = b.1 % 2) :
    distance R C a b = .ok ((step R a.2.1 b.2.1).natAbs + (step C a.2.2 b.2.2).natAbs) := by
  unfold distance
  rw [translation_eq_ok R C a b hab]
  rfl

theorem distance_eq_error (R C : Int) (a b : Idx) (hab : a.1 % 2 ≠ b.1 % 2) :
    distance R C a b = .error .index := by
  unfold distance
  rw [translation_eq_error R C a b hab]
  rfl

/-- **endpoint lemma** for the path the code builds (any plaquette index `p`, reduced modulo the lattice) -/
theorem bsp_path_plaquette (R C : Int) (hR : 0 < R) (hC : 0 < C) (a b p : Idx) (hab : a.1 % 2 = b.1 % 2) :
    bsp (sites R C (pathOp R C a) (identity R C)
          (pathSites R C a (step R a.2.1 b.2.1) (step C a.2.2 b.2.2)))
        (plaquette R C (identity R C) p) =
      (decide (norm R C p = norm R C a) != decide (norm R C p = norm R C b)) := by
  rw [← plaquette_norm, bsp_pathSites_plaquette R C hR hC a _ _ _ (inLattice_norm R C hR hC p), norm_norm]
  have : norm R C (a.1, a.2.1 + step R a.2.1 b.2.1, a.2.2 + step C a.2.2 b.2.2) = norm R C b := by
    rw [norm_eq_iff]
    exact ⟨hab, step_emod hR _ _, step_emod hC _ _⟩
  rw [this, bne_comm]

/-- the path between plaquettes that coincide modulo the lattice has no sites -/
theorem pathSites_self (R C : Int) (hR : 0 < R) (hC : 0 < C) (a b : Idx) (h : norm R C a = norm R C b) :
    pathSites R C a (step R a.2.1 b.2.1) (step C a.2.2 b.2.2) = [] := by
  have h' := (norm_eq_iff R C a b).mp h
  rw [step_eq_zero hR _ _ h'.2.1, step_eq_zero hC _ _ h'.2.2]
  rfl

/-! ### linearity of `sites` / `path` -/

theorem sites_eq_xorV (R C : Int) (op : P1) (v : BVec) (L : List Idx)
    (hv : v.length = 2 * (nQubits R C).toNat) :
    sites R C op v L = xorV v (sites R C op (identity R C) L) := by
  rw [sites_eq_applyOps, sites_eq_applyOps, identity_eq_zeros, ← hv]
  exact applyOps_eq_xorV _ _ _ _

/-- `path` applied to an accumulated recovery `v` XORs the path operator into it -/
theorem path_eq_map_xorV (R C : Int) (v : BVec) (a b : Idx) (hv : v.length = 2 * (nQubits R C).toNat) :
    path R C v a b = (path R C (identity R C) a b).map (xorV v) := by
  by_cases hab : a.1 % 2 = b.1 % 2
  · rw [path_eq_ok R C v a b hab, path_eq_ok R C _ a b hab, sites_eq_xorV R C _ v _ hv]
    rfl
  · rw [path_eq_error R C v a b hab, path_eq_error R C _ a b hab]
    rfl

end Qec.Toric
