/-
  Helper lemmas for C07 (colour 6.6.6 family): index arithmetic of `flatten` (row offsets are the quadratic
  `(r² + r + 1) / 3`), bits of operators built by toggling site lists, `bsp` of two site operators as an
  overlap parity, overlap parities of plaquettes / boundary runs / the logical column, the plaquette index list.
-/
import QecVerif.Model.Lattice.Color666
import QecVerif.Model.Decoders
import QecVerif.Lemmas.Symplectic
import Mathlib.Data.List.Nodup
import Mathlib.Tactic.Ring
namespace Qec.Color666Code
open Qec Qec.Color666 Qec.Symp

/-! ### A. index arithmetic -/

theorem isPlaquette_iff (r c : Int) : isPlaquette r c = true ↔ (r + c) % 3 = 2 := by
  simp only [isPlaquette, beq_iff_eq]
  omega

theorem isSite_iff (r c : Int) : isSite r c = true ↔ (r + c) % 3 ≠ 2 := by
  simp only [isSite, Bool.not_eq_true', ← Bool.not_eq_true, isPlaquette_iff, ne_eq]

theorem isSite_eq_decide (r c : Int) : isSite r c = decide ((r + c) % 3 ≠ 2) := by
  rw [Bool.eq_iff_iff, isSite_iff]; simp

/-- the accepted sizes: odd, at least 3; `m = (L − 1) / 2`, `bound = 3 m` -/
def Odd3 (L : Int) : Prop := 3 ≤ L ∧ L % 2 = 1

theorem bound_eq (L : Int) (h : Odd3 L) : bound L = 3 * ((L - 1) / 2) := by
  unfold Odd3 at h; unfold bound; omega

theorem inBounds_iff (L r c : Int) : inBounds L r c = true ↔ 0 ≤ c ∧ c ≤ r ∧ r ≤ bound L := by
  simp only [inBounds, Bool.and_eq_true, decide_eq_true_eq]
  omega

theorem inBounds_eq_decide (L r c : Int) : inBounds L r c = decide (0 ≤ c ∧ c ≤ r ∧ r ≤ bound L) := by
  rw [Bool.eq_iff_iff, inBounds_iff]; simp

/-- number of sites in rows `0 … r − 1`: `⌊((2r+1)² + 3) / 12⌋ = ⌊(r² + r + 1) / 3⌋` -/
def rowStart (r : Int) : Int := ((2 * r + 1) * (2 * r + 1) + 3) / 12
/-- number of sites in row `r` left of column `c` -/
def colOff (r c : Int) : Int := (2 * c + (2 - r % 3)) / 3
/-- number of sites in row `r` -/
def rowLen (r : Int) : Int := (2 * r + 4 - r % 3) / 3

theorem flatten_eq (r c : Int) : flatten r c = rowStart r + colOff r c := rfl

theorem rowStart_mod0 (a : Int) : rowStart (3 * a) = 3 * (a * a) + a := by
  unfold rowStart
  have : (2 * (3 * a) + 1) * (2 * (3 * a) + 1) + 3 = 12 * (3 * (a * a) + a) + 4 := by ring
  rw [this]; omega

theorem rowStart_mod1 (a : Int) : rowStart (3 * a + 1) = 3 * (a * a) + 3 * a + 1 := by
  unfold rowStart
  have : (2 * (3 * a + 1) + 1) * (2 * (3 * a + 1) + 1) + 3 = 12 * (3 * (a * a) + 3 * a + 1) := by ring
  rw [this]; omega

theorem rowStart_mod2 (a : Int) : rowStart (3 * a + 2) = 3 * (a * a) + 5 * a + 2 := by
  unfold rowStart
  have : (2 * (3 * a + 2) + 1) * (2 * (3 * a + 2) + 1) + 3 = 12 * (3 * (a * a) + 5 * a + 2) + 4 := by ring
  rw [this]; omega

theorem mod3_cases (r : Int) : ∃ a, r = 3 * a ∨ r = 3 * a + 1 ∨ r = 3 * a + 2 := ⟨r / 3, by omega⟩

/-- the rows are laid out one after the other -/
theorem rowStart_succ (r : Int) : rowStart (r + 1) = rowStart r + rowLen r := by
  rcases mod3_cases r with ⟨a, rfl | rfl | rfl⟩
  · rw [rowStart_mod0, rowStart_mod1]; unfold rowLen; omega
  · rw [show 3 * a + 1 + 1 = 3 * a + 2 by omega, rowStart_mod1, rowStart_mod2]; unfold rowLen; omega
  · rw [show 3 * a + 2 + 1 = 3 * (a + 1) by omega, rowStart_mod0, rowStart_mod2]
    have : (a + 1) * (a + 1) = a * a + 2 * a + 1 := by ring
    rw [this]; unfold rowLen; omega

theorem rowLen_nonneg (r : Int) (h : 0 ≤ r) : 0 ≤ rowLen r := by unfold rowLen; omega

theorem rowStart_mono_nat (r : Int) (h : 0 ≤ r) (k : Nat) : rowStart r ≤ rowStart (r + k) := by
  induction k with
  | zero => simp
  | succ k ih =>
    have := rowStart_succ (r + k)
    have h2 := rowLen_nonneg (r + k) (by omega)
    rw [show r + ((k + 1 : Nat) : Int) = r + (k : Int) + 1 by push_cast; omega]
    omega

theorem rowStart_mono (r r' : Int) (h : 0 ≤ r) (h' : r ≤ r') : rowStart r ≤ rowStart r' := by
  have := rowStart_mono_nat r h (r' - r).toNat
  rwa [show r + ((r' - r).toNat : Int) = r' by omega] at this

theorem rowStart_zero : rowStart 0 = 0 := by decide

/-- an in-bounds site index -/
def SiteIn (L r c : Int) : Prop := 0 ≤ c ∧ c ≤ r ∧ r ≤ bound L ∧ (r + c) % 3 ≠ 2

theorem siteIn_iff (L r c : Int) : SiteIn L r c ↔ inBounds L r c = true ∧ isSite r c = true := by
  rw [inBounds_iff, isSite_iff]; unfold SiteIn; omega

theorem colOff_range (r c : Int) (h0 : 0 ≤ c) (h1 : c ≤ r) (hs : (r + c) % 3 ≠ 2) :
    0 ≤ colOff r c ∧ colOff r c < rowLen r := by
  unfold colOff rowLen; omega

theorem colOff_inj (r c c' : Int) (hs : (r + c) % 3 ≠ 2) (hs' : (r + c') % 3 ≠ 2)
    (h : colOff r c = colOff r c') : c = c' := by
  unfold colOff at h; omega

/-- `n = (3 L² + 1) / 4 = 3 m² + 3 m + 1` for `L = 2 m + 1`, and it is the row offset of row `bound + 1` -/
theorem nQubits_eq (L : Int) (h : Odd3 L) :
    nQubits L = 3 * (((L - 1) / 2) * ((L - 1) / 2)) + 3 * ((L - 1) / 2) + 1 ∧
    nQubits L = rowStart (bound L + 1) := by
  obtain ⟨m, rfl⟩ : ∃ m : Int, L = 2 * m + 1 := ⟨(L - 1) / 2, by unfold Odd3 at h; omega⟩
  have hb : bound (2 * m + 1) + 1 = 3 * m + 1 := by unfold bound; omega
  have hm : (2 * m + 1 - 1) / 2 = m := by omega
  rw [hb, rowStart_mod1, hm]
  have : 3 * (2 * m + 1) * (2 * m + 1) + 1 = 4 * (3 * (m * m) + 3 * m + 1) := by ring
  unfold nQubits
  rw [this]
  omega

theorem flatten_range (L r c : Int) (hs : SiteIn L r c) :
    rowStart r ≤ flatten r c ∧ flatten r c < rowStart (r + 1) := by
  unfold SiteIn at hs
  have := colOff_range r c hs.1 hs.2.1 hs.2.2.2
  rw [flatten_eq, rowStart_succ]; omega

theorem flatten_lt (L r c : Int) (h : Odd3 L) (hs : SiteIn L r c) : 0 ≤ flatten r c ∧ flatten r c < nQubits L := by
  have hr := flatten_range L r c hs
  unfold SiteIn at hs
  have h0 := rowStart_mono 0 r (by omega) (by omega)
  have h1 := rowStart_mono (r + 1) (bound L + 1) (by omega) (by omega)
  rw [rowStart_zero] at h0
  rw [(nQubits_eq L h).2]
  omega

theorem flatten_inj (L r c r' c' : Int) (hs : SiteIn L r c) (hs' : SiteIn L r' c')
    (he : flatten r c = flatten r' c') : r = r' ∧ c = c' := by
  have hr := flatten_range L r c hs
  have hr' := flatten_range L r' c' hs'
  unfold SiteIn at hs hs'
  have key : r = r' := by
    rcases Int.lt_trichotomy r r' with hlt | heq | hgt
    · exfalso
      have := rowStart_mono (r + 1) r' (by omega) (by omega)
      omega
    · exact heq
    · exfalso
      have := rowStart_mono (r' + 1) r (by omega) (by omega)
      omega
  subst key
  refine ⟨rfl, colOff_inj r c c' hs.2.2.2 hs'.2.2.2 ?_⟩
  rw [flatten_eq, flatten_eq] at he; omega

/-- every flat index below `rowStart k` is hit by a site in a row below `k` -/
theorem flatten_surj_aux (k : Nat) (i : Int) (h0 : 0 ≤ i) (h1 : i < rowStart k) :
    ∃ r c : Int, 0 ≤ c ∧ c ≤ r ∧ r < k ∧ (r + c) % 3 ≠ 2 ∧ flatten r c = i := by
  induction k with
  | zero => rw [show ((0 : Nat) : Int) = 0 from rfl, rowStart_zero] at h1; omega
  | succ k ih =>
    by_cases hi : i < rowStart k
    · rcases ih hi with ⟨r, c, a, b, d, e, f⟩
      exact ⟨r, c, a, b, by push_cast; omega, e, f⟩
    · have hs := rowStart_succ (k : Int)
      rw [show (((k + 1 : Nat)) : Int) = (k : Int) + 1 by push_cast; rfl] at h1
      -- the site number `j` of row `k`
      have hj : 0 ≤ i - rowStart k ∧ i - rowStart k < rowLen k := by omega
      refine ⟨k, (3 * (i - rowStart k) + (k : Int) % 3) / 2, ?_, ?_, by push_cast; omega, ?_, ?_⟩
      · omega
      · unfold rowLen at hj; omega
      · unfold rowLen at hj; omega
      · rw [flatten_eq]
        have : colOff k ((3 * (i - rowStart k) + (k : Int) % 3) / 2) = i - rowStart k := by
          unfold colOff; unfold rowLen at hj; omega
        omega

theorem flatten_surj (L : Int) (h : Odd3 L) (i : Int) (h0 : 0 ≤ i) (h1 : i < nQubits L) :
    ∃ r c, SiteIn L r c ∧ flatten r c = i := by
  have hb : 0 ≤ bound L + 1 := by unfold Odd3 at h; unfold bound; omega
  rw [(nQubits_eq L h).2] at h1
  rcases flatten_surj_aux (bound L + 1).toNat i h0 (by rwa [Int.toNat_of_nonneg hb]) with ⟨r, c, a, b, d, e, f⟩
  exact ⟨r, c, ⟨a, b, by omega, e⟩, f⟩

/-! ### B. the colour `site` / `sites` as instances of the generic site operators of `Lemmas/Symplectic.lean` -/

/-- number of qubits as a `Nat` -/
def nq (L : Int) : Nat := (nQubits L).toNat
/-- flat index of a site as a `Nat` -/
def fl (rc : Int × Int) : Nat := (flatten rc.1 rc.2).toNat
/-- the in-bounds test on index pairs -/
def dom (L : Int) (rc : Int × Int) : Bool := inBounds L rc.1 rc.2

theorem site_eq_gsite (L : Int) (op : P1) (v : BVec) (rc : Int × Int) :
    site L op v rc = gsite (nq L) (dom L) fl op v rc := rfl

theorem sites_eq_gsites (L : Int) (op : P1) (v : BVec) (l : List (Int × Int)) :
    sites L op v l = gsites (nq L) (dom L) fl op v l := rfl

theorem identity_eq (L : Int) : identity L = zeros (2 * nq L) := rfl

theorem identity_length (L : Int) : (identity L).length = 2 * nq L := by
  simp [identity, zeros, nq]

theorem getD_identity (L : Int) (j : Nat) : (identity L).getD j false = false := getD_zeros _ _

/-- all entries are site indices -/
def AllSites (l : List (Int × Int)) : Prop := ∀ rc ∈ l, (rc.1 + rc.2) % 3 ≠ 2

theorem fl_lt (L : Int) (h : Odd3 L) (rc : Int × Int) (hs : (rc.1 + rc.2) % 3 ≠ 2)
    (hb : inBounds L rc.1 rc.2 = true) : fl rc < nq L := by
  have := flatten_lt L rc.1 rc.2 h (by rw [inBounds_iff] at hb; unfold SiteIn; omega)
  unfold fl nq; omega

theorem flatLt_of_allSites (L : Int) (h : Odd3 L) (l : List (Int × Int)) (hl : AllSites l) :
    FlatLt (nq L) (dom L) fl l :=
  fun rc hrc hb => fl_lt L h rc (hl rc hrc) hb

/-- parity of the number of occurrences of `rc` in `l` -/
def occ (l : List (Int × Int)) (rc : Int × Int) : Bool := xorSum l (fun rc' => decide (rc' = rc))

theorem fl_inj (L : Int) (h : Odd3 L) (rc rc' : Int × Int) (hs : (rc.1 + rc.2) % 3 ≠ 2)
    (hb : inBounds L rc.1 rc.2 = true) (hs' : (rc'.1 + rc'.2) % 3 ≠ 2) (hb' : inBounds L rc'.1 rc'.2 = true)
    (he : fl rc' = fl rc) : rc' = rc := by
  rw [inBounds_iff] at hb hb'
  have s : SiteIn L rc.1 rc.2 := by unfold SiteIn; omega
  have s' : SiteIn L rc'.1 rc'.2 := by unfold SiteIn; omega
  have b := flatten_lt L _ _ h s
  have b' := flatten_lt L _ _ h s'
  have := flatten_inj L _ _ _ _ s' s (by unfold fl at he; omega)
  exact Prod.ext this.1 this.2

/-- by injectivity of `flatten`, coincidence of flat indices is coincidence of sites -/
theorem occF_eq_occ (L : Int) (h : Odd3 L) (l : List (Int × Int)) (hl : AllSites l)
    (s : Int × Int) (h2 : (s.1 + s.2) % 3 ≠ 2) (b2 : inBounds L s.1 s.2 = true) :
    occF (dom L) fl l (fl s) = occ l s := by
  unfold occF occ
  apply xorSum_congr
  intro rc hrc
  by_cases he : rc = s
  · subst he; simp [dom, b2]
  · by_cases b1 : dom L rc = true
    · have : ¬ (fl rc = fl s) := fun h' => he (fl_inj L h s rc h2 b2 (hl rc hrc) b1 h')
      simp [this, he]
    · simp [b1, he]

theorem sites_length (L : Int) (op : P1) (v : BVec) (l : List (Int × Int)) :
    (sites L op v l).length = v.length := gsites_length _ _ _ op v l

/-- `bsp` of two site operators of the same type vanishes -/
theorem bsp_sites_same (L : Int) (h : Odd3 L) (z : Bool) (l1 l2 : List (Int × Int))
    (h1 : AllSites l1) (h2 : AllSites l2) :
    bsp (sites L (opOf z) (identity L) l1) (sites L (opOf z) (identity L) l2) = false :=
  bsp_gsites_same (nq L) (dom L) fl z l1 l2 (flatLt_of_allSites L h l1 h1) (flatLt_of_allSites L h l2 h2)

/-- `bsp` of an X-type and a Z-type site operator (either order): parity of the number of pairs of equal
    in-bounds sites -/
theorem bsp_sites_diff' (L : Int) (h : Odd3 L) (z z' : Bool) (hz : z' = !z) (l1 l2 : List (Int × Int))
    (h1 : AllSites l1) (h2 : AllSites l2) :
    bsp (sites L (opOf z) (identity L) l1) (sites L (opOf z') (identity L) l2) =
      xorSum l2 (fun rc => inBounds L rc.1 rc.2 && occ l1 rc) := by
  have := bsp_gsites_diff' (nq L) (dom L) fl z z' hz l1 l2 (flatLt_of_allSites L h l1 h1)
    (flatLt_of_allSites L h l2 h2)
  rw [sites_eq_gsites, sites_eq_gsites, identity_eq, this]
  apply xorSum_congr
  intro rc hrc
  by_cases hb : inBounds L rc.1 rc.2 = true
  · rw [occF_eq_occ L h l1 h1 rc (h2 rc hrc) hb]; rfl
  · simp [dom, hb]

theorem bsp_sites_diff (L : Int) (h : Odd3 L) (z : Bool) (l1 l2 : List (Int × Int))
    (h1 : AllSites l1) (h2 : AllSites l2) :
    bsp (sites L (opOf z) (identity L) l1) (sites L (opOf (!z)) (identity L) l2) =
      xorSum l2 (fun rc => inBounds L rc.1 rc.2 && occ l1 rc) :=
  bsp_sites_diff' L h z (!z) rfl l1 l2 h1 h2

theorem siteop_length (L : Int) (z : Bool) (l : List (Int × Int)) :
    (sites L (opOf z) (identity L) l).length = 2 * nq L := by
  rw [sites_length, identity_length]

theorem bsp_flip (L : Int) (z z' : Bool) (l l' : List (Int × Int)) :
    bsp (sites L (opOf z) (identity L) l) (sites L (opOf z') (identity L) l') =
      bsp (sites L (opOf z') (identity L) l') (sites L (opOf z) (identity L) l) :=
  bsp_comm _ _ (by rw [siteop_length, siteop_length]) (by rw [siteop_length]; omega)

/-! ### C. overlap parities -/

/-- an in-lattice plaquette -/
def RealP (L : Int) (p : Int × Int) : Prop := 0 ≤ p.2 ∧ p.2 ≤ p.1 ∧ p.1 ≤ bound L ∧ (p.1 + p.2) % 3 = 2

theorem occ_plaq (pr pc r c : Int) :
    occ (plaquetteSites pr pc) (r, c) =
      decide ((r = pr - 1 ∧ (c = pc - 1 ∨ c = pc)) ∨ (r = pr ∧ (c = pc - 1 ∨ c = pc + 1)) ∨
        (r = pr + 1 ∧ (c = pc ∨ c = pc + 1))) := by
  simp only [occ, plaquetteSites, xorSum_cons, xorSum_nil, Bool.xor_false, Prod.mk.injEq]
  simp only [xor_decide]
  apply decide_eq_decide.mpr; omega

theorem xorSum_plaq (pr pc : Int) (f : Int × Int → Bool) :
    xorSum (plaquetteSites pr pc) f =
      (f (pr - 1, pc - 1) ^^ (f (pr - 1, pc) ^^ (f (pr, pc - 1) ^^ (f (pr, pc + 1) ^^
        (f (pr + 1, pc) ^^ f (pr + 1, pc + 1)))))) := by
  simp [plaquetteSites]

theorem allSites_plaq (pr pc : Int) (h : (pr + pc) % 3 = 2) : AllSites (plaquetteSites pr pc) := by
  intro rc hrc
  simp only [plaquetteSites, List.mem_cons, List.not_mem_nil, or_false] at hrc
  rcases hrc with rfl | rfl | rfl | rfl | rfl | rfl <;> simp only <;> omega

/-- six Booleans that cancel in pairs -/
theorem xor6_cancel (a b c d e f : Bool) :
    ((a ^^ b) ^^ ((c ^^ a) ^^ ((d ^^ c) ^^ ((e ^^ f) ^^ ((b ^^ e) ^^ (f ^^ d)))))) = false := by
  cases a <;> cases b <;> cases c <;> cases d <;> cases e <;> cases f <;> rfl

theorem xor6_pairs (a b c e f g : Bool) :
    ((a ^^ b) ^^ ((c ^^ b) ^^ ((e ^^ a) ^^ ((f ^^ c) ^^ ((g ^^ e) ^^ (g ^^ f)))))) = false := by
  cases a <;> cases b <;> cases c <;> cases e <;> cases f <;> cases g <;> rfl

theorem xor6_self (a b c : Bool) : (a ^^ (b ^^ (a ^^ (b ^^ (c ^^ c))))) = false := by
  cases a <;> cases b <;> cases c <;> rfl

/-- one term of an overlap parity with a plaquette, as a decided proposition -/
theorem term_plaq (L pr pc r c : Int) (P : Prop) [Decidable P]
    (h : ((0 ≤ c ∧ c ≤ r ∧ r ≤ bound L) ∧
      ((r = pr - 1 ∧ (c = pc - 1 ∨ c = pc)) ∨ (r = pr ∧ (c = pc - 1 ∨ c = pc + 1)) ∨
        (r = pr + 1 ∧ (c = pc ∨ c = pc + 1)))) ↔ P) :
    (inBounds L r c && occ (plaquetteSites pr pc) (r, c)) = decide P := by
  rw [occ_plaq, inBounds_eq_decide, ← Bool.decide_and]
  exact decide_eq_decide.mpr h

/-- the same with the two (mutually exclusive) plaquette offsets that produce the site split into an XOR -/
theorem term_plaq2 (L pr pc r c : Int) (P Q : Prop) [Decidable P] [Decidable Q]
    (h : ((0 ≤ c ∧ c ≤ r ∧ r ≤ bound L) ∧
      ((r = pr - 1 ∧ (c = pc - 1 ∨ c = pc)) ∨ (r = pr ∧ (c = pc - 1 ∨ c = pc + 1)) ∨
        (r = pr + 1 ∧ (c = pc ∨ c = pc + 1)))) ↔ ¬ (P ↔ Q)) :
    (inBounds L r c && occ (plaquetteSites pr pc) (r, c)) = (decide P ^^ decide Q) := by
  rw [xor_decide]; exact term_plaq L pr pc r c _ h

/-- every in-lattice plaquette has an even number of in-lattice sites (6 in the bulk, 4 on a boundary):
    truncation removes sites in pairs -/
theorem ov_plaq_self (L : Int) (p : Int × Int) (hp : RealP L p) :
    xorSum (plaquetteSites p.1 p.2) (fun rc => inBounds L rc.1 rc.2 && occ (plaquetteSites p.1 p.2) rc) = false := by
  obtain ⟨pr, pc⟩ := p
  unfold RealP at hp
  simp only at hp
  rw [xorSum_plaq]
  dsimp only
  rw [term_plaq L pr pc (pr - 1) (pc - 1) (1 ≤ pc) (by omega),
    term_plaq L pr pc (pr - 1) pc (pc + 1 ≤ pr) (by omega),
    term_plaq L pr pc pr (pc - 1) (1 ≤ pc) (by omega),
    term_plaq L pr pc pr (pc + 1) (pc + 1 ≤ pr) (by omega),
    term_plaq L pr pc (pr + 1) pc (pr + 1 ≤ bound L) (by omega),
    term_plaq L pr pc (pr + 1) (pc + 1) (pr + 1 ≤ bound L) (by omega)]
  exact xor6_self _ _ _

/-- two distinct in-lattice plaquettes share 0 or 2 sites, and the shared sites are in the lattice -/
theorem ov_plaq_ne (L : Int) (p q : Int × Int) (hp : RealP L p) (hq : RealP L q) (hne : p ≠ q) :
    xorSum (plaquetteSites q.1 q.2) (fun rc => inBounds L rc.1 rc.2 && occ (plaquetteSites p.1 p.2) rc) = false := by
  obtain ⟨pr, pc⟩ := p
  obtain ⟨qr, qc⟩ := q
  unfold RealP at hp hq
  simp only at hp hq
  have hne' : ¬ (pr = qr ∧ pc = qc) := fun h => hne (Prod.ext h.1 h.2)
  rw [xorSum_plaq]
  dsimp only
  rw [term_plaq2 L pr pc (qr - 1) (qc - 1) (qr - pr = 1 ∧ qc - pc = 2) (qr - pr = 2 ∧ qc - pc = 1) (by omega),
    term_plaq2 L pr pc (qr - 1) qc (qr - pr = 1 ∧ qc - pc = -1) (qr - pr = 2 ∧ qc - pc = 1) (by omega),
    term_plaq2 L pr pc qr (qc - 1) (qr - pr = -1 ∧ qc - pc = 1) (qr - pr = 1 ∧ qc - pc = 2) (by omega),
    term_plaq2 L pr pc qr (qc + 1) (qr - pr = -1 ∧ qc - pc = -2) (qr - pr = 1 ∧ qc - pc = -1) (by omega),
    term_plaq2 L pr pc (qr + 1) qc (qr - pr = -2 ∧ qc - pc = -1) (qr - pr = -1 ∧ qc - pc = 1) (by omega),
    term_plaq2 L pr pc (qr + 1) (qc + 1) (qr - pr = -2 ∧ qc - pc = -1) (qr - pr = -1 ∧ qc - pc = -2) (by omega)]
  exact xor6_pairs _ _ _ _ _ _

/-- any two in-lattice plaquettes overlap in an even number of in-lattice sites -/
theorem ov_plaq_plaq (L : Int) (p q : Int × Int) (hp : RealP L p) (hq : RealP L q) :
    xorSum (plaquetteSites q.1 q.2) (fun rc => inBounds L rc.1 rc.2 && occ (plaquetteSites p.1 p.2) rc) = false := by
  by_cases h : p = q
  · subst h; exact ov_plaq_self L p hp
  · exact ov_plaq_ne L p q hp hq h

/-! ### C′. runs of sites: the logical column and the boundary runs of `sample_recovery` -/

theorem occ_append (l1 l2 : List (Int × Int)) (s : Int × Int) : occ (l1 ++ l2) s = (occ l1 s ^^ occ l2 s) :=
  xorSum_append _ _ _

theorem occ_nil (s : Int × Int) : occ [] s = false := rfl

/-- occurrences in a filtered image of `range k` -/
theorem occ_filter_map_range (k : Nat) (g : Nat → Int × Int) (P : Int × Int → Bool) (s : Int × Int) :
    occ (((List.range k).map g).filter P) s = xorSum (List.range k) (fun i => P (g i) && decide (g i = s)) := by
  induction k with
  | zero => rfl
  | succ k ih =>
    rw [List.range_succ, List.map_append, List.filter_append, occ_append, ih, xorSum_append]
    congr 1
    simp only [List.map_cons, List.map_nil, xorSum_cons, xorSum_nil, Bool.xor_false]
    cases h : P (g k)
    · simp [List.filter, h, occ_nil]
    · simp [List.filter, h, occ]

/-- sites of row `r` in columns `a, a+1, …, a+k−1` -/
theorem occ_rowUp (k : Nat) (r a r' c' : Int) :
    xorSum (List.range k) (fun i => isSite r (a + (i : Int)) && decide ((r, a + (i : Int)) = (r', c'))) =
      decide (r' = r ∧ a ≤ c' ∧ c' < a + k ∧ (r' + c') % 3 ≠ 2) := by
  induction k with
  | zero => simp only [List.range_zero, xorSum_nil]; symm; apply decide_eq_false; omega
  | succ k ih =>
    rw [List.range_succ, xorSum_append, ih]
    simp only [xorSum_cons, xorSum_nil, Bool.xor_false, Prod.mk.injEq, isSite_eq_decide, ← Bool.decide_and]
    rw [xor_decide]
    apply decide_eq_decide.mpr; push_cast; omega

/-- sites of row `r` in columns `a, a−1, …, a−k+1` -/
theorem occ_rowDown (k : Nat) (r a r' c' : Int) :
    xorSum (List.range k) (fun i => isSite r (a - (i : Int)) && decide ((r, a - (i : Int)) = (r', c'))) =
      decide (r' = r ∧ c' ≤ a ∧ a - k < c' ∧ (r' + c') % 3 ≠ 2) := by
  induction k with
  | zero => simp only [List.range_zero, xorSum_nil]; symm; apply decide_eq_false; omega
  | succ k ih =>
    rw [List.range_succ, xorSum_append, ih]
    simp only [xorSum_cons, xorSum_nil, Bool.xor_false, Prod.mk.injEq, isSite_eq_decide, ← Bool.decide_and]
    rw [xor_decide]
    apply decide_eq_decide.mpr; push_cast; omega

/-- sites of column `c` in rows `a, a+1, …, a+k−1` -/
theorem occ_colUp (k : Nat) (c a r' c' : Int) :
    xorSum (List.range k) (fun i => isSite (a + (i : Int)) c && decide ((a + (i : Int), c) = (r', c'))) =
      decide (c' = c ∧ a ≤ r' ∧ r' < a + k ∧ (r' + c') % 3 ≠ 2) := by
  induction k with
  | zero => simp only [List.range_zero, xorSum_nil]; symm; apply decide_eq_false; omega
  | succ k ih =>
    rw [List.range_succ, xorSum_append, ih]
    simp only [xorSum_cons, xorSum_nil, Bool.xor_false, Prod.mk.injEq, isSite_eq_decide, ← Bool.decide_and]
    rw [xor_decide]
    apply decide_eq_decide.mpr; push_cast; omega

/-- sites of column `c` in rows `a, a−1, …, a−k+1` -/
theorem occ_colDown (k : Nat) (c a r' c' : Int) :
    xorSum (List.range k) (fun i => isSite (a - (i : Int)) c && decide ((a - (i : Int), c) = (r', c'))) =
      decide (c' = c ∧ r' ≤ a ∧ a - k < r' ∧ (r' + c') % 3 ≠ 2) := by
  induction k with
  | zero => simp only [List.range_zero, xorSum_nil]; symm; apply decide_eq_false; omega
  | succ k ih =>
    rw [List.range_succ, xorSum_append, ih]
    simp only [xorSum_cons, xorSum_nil, Bool.xor_false, Prod.mk.injEq, isSite_eq_decide, ← Bool.decide_and]
    rw [xor_decide]
    apply decide_eq_decide.mpr; push_cast; omega

/-- the sites of row `r` with column between `a` and `b` inclusive, either direction (`range(a, b ± 1, ±1)`) -/
theorem occ_inclRow (a b r r' c' : Int) :
    occ (((Dec.incl a b).map fun cc => (r, cc)).filter fun q => isSite q.1 q.2) (r', c') =
      decide (r' = r ∧ ((a ≤ c' ∧ c' ≤ b) ∨ (b ≤ c' ∧ c' ≤ a ∧ ¬ a ≤ b)) ∧ (r' + c') % 3 ≠ 2) := by
  unfold Dec.incl
  split
  · rw [List.map_map, occ_filter_map_range]
    simp only [Function.comp_apply]
    rw [occ_rowUp]
    apply decide_eq_decide.mpr; omega
  · rw [List.map_map, occ_filter_map_range]
    simp only [Function.comp_apply]
    rw [occ_rowDown]
    apply decide_eq_decide.mpr; omega

theorem occ_inclCol (a b c r' c' : Int) :
    occ (((Dec.incl a b).map fun rr => (rr, c)).filter fun q => isSite q.1 q.2) (r', c') =
      decide (c' = c ∧ ((a ≤ r' ∧ r' ≤ b) ∨ (b ≤ r' ∧ r' ≤ a ∧ ¬ a ≤ b)) ∧ (r' + c') % 3 ≠ 2) := by
  unfold Dec.incl
  split
  · rw [List.map_map, occ_filter_map_range]
    simp only [Function.comp_apply]
    rw [occ_colUp]
    apply decide_eq_decide.mpr; omega
  · rw [List.map_map, occ_filter_map_range]
    simp only [Function.comp_apply]
    rw [occ_colDown]
    apply decide_eq_decide.mpr; omega

/-- the run of `sample_recovery` from plaquette `q` to the boundary of its colour:
    green (`q.1 % 3 = 0`) — the sites of its row to its left; blue (`q.1 % 3 = 1`) — the sites of its column below
    it; red (`q.1 % 3 = 2`) — the sites of its row to its right -/
theorem occ_colorRun (L : Int) (q : Int × Int) (hq : RealP L q) (r c : Int) :
    occ (Dec.colorRunSites L q) (r, c) =
      decide ((r + c) % 3 ≠ 2 ∧
        ((q.1 % 3 = 0 ∧ r = q.1 ∧ -1 ≤ c ∧ c ≤ q.2) ∨ (q.1 % 3 = 1 ∧ c = q.2 ∧ q.1 ≤ r ∧ r ≤ bound L + 1) ∨
          (q.1 % 3 = 2 ∧ r = q.1 ∧ q.2 ≤ c ∧ c ≤ q.1 + 1))) := by
  obtain ⟨qr, qc⟩ := q
  unfold RealP at hq
  simp only at hq
  have hpl : isPlaquette qr qc = true := (isPlaquette_iff qr qc).mpr hq.2.2.2
  unfold Dec.colorRunSites virtualPlaquette
  simp only [hpl, Bool.not_true, Bool.false_eq_true, if_false, beq_iff_eq]
  by_cases h0 : qr % 3 = 0
  · rw [if_pos h0]
    simp only [↓reduceIte, List.append_nil]
    rw [if_neg (by omega), occ_inclRow]
    apply decide_eq_decide.mpr; omega
  · rw [if_neg h0]
    by_cases h1 : qr % 3 = 1
    · rw [if_pos h1]
      simp only [↓reduceIte, List.nil_append]
      rw [if_neg (by omega), occ_inclCol]
      apply decide_eq_decide.mpr; omega
    · rw [if_neg h1]
      simp only [↓reduceIte, List.append_nil]
      rw [if_neg (by omega), occ_inclRow]
      apply decide_eq_decide.mpr; omega

theorem allSites_colorRun (L : Int) (q : Int × Int) : AllSites (Dec.colorRunSites L q) := by
  intro rc hrc
  unfold Dec.colorRunSites at hrc
  split at hrc
  · simp at hrc
  · simp only [List.mem_append] at hrc
    rcases hrc with h | h
    · split at h
      · simp at h
      · exact (isSite_iff _ _).mp (List.mem_filter.mp h).2 |> fun x => by simpa using x
    · split at h
      · simp at h
      · exact (isSite_iff _ _).mp (List.mem_filter.mp h).2 |> fun x => by simpa using x

/-- one term of an overlap parity with a list whose occurrence parity is known -/
theorem term_of_occ (L : Int) (l : List (Int × Int)) (r c : Int) (R P : Prop) [Decidable R] [Decidable P]
    (hocc : occ l (r, c) = decide R) (h : ((0 ≤ c ∧ c ≤ r ∧ r ≤ bound L) ∧ R) ↔ P) :
    (inBounds L r c && occ l (r, c)) = decide P := by
  rw [hocc, inBounds_eq_decide, ← Bool.decide_and]
  exact decide_eq_decide.mpr h

theorem term_of_occ_false (L : Int) (l : List (Int × Int)) (r c : Int) (R : Prop) [Decidable R]
    (hocc : occ l (r, c) = decide R) (h : ¬ ((0 ≤ c ∧ c ≤ r ∧ r ≤ bound L) ∧ R)) :
    (inBounds L r c && occ l (r, c)) = false := by
  rw [hocc, inBounds_eq_decide, ← Bool.decide_and]
  exact decide_eq_false h

theorem xor6_row (a c d e : Bool) : (a ^^ (a ^^ (c ^^ (d ^^ (e ^^ e))))) = (c ^^ d) := by
  cases a <;> cases c <;> cases d <;> cases e <;> rfl
theorem xor6_col (a c d e : Bool) : (a ^^ (c ^^ (a ^^ (e ^^ (d ^^ e))))) = (c ^^ d) := by
  cases a <;> cases c <;> cases d <;> cases e <;> rfl

/-- **run-to-boundary lemma**: the run of `q` meets the plaquette `p` in an odd number of in-lattice sites
    iff `p = q` -/
theorem ov_run_plaq (L : Int) (h : Odd3 L) (p q : Int × Int) (hp : RealP L p) (hq : RealP L q) :
    xorSum (plaquetteSites p.1 p.2) (fun rc => inBounds L rc.1 rc.2 && occ (Dec.colorRunSites L q) rc) =
      decide (p = q) := by
  have hb := bound_eq L h
  have ho := fun r c => occ_colorRun L q hq r c
  obtain ⟨pr, pc⟩ := p
  obtain ⟨qr, qc⟩ := q
  unfold RealP at hp hq
  simp only at hp hq ho
  rw [xorSum_plaq]
  dsimp only
  simp only [Prod.mk.injEq]
  by_cases h0 : qr % 3 = 0
  · rw [term_of_occ L _ (pr - 1) (pc - 1) _ (pr = qr + 1 ∧ pc < qc) (ho _ _) (by omega),
      term_of_occ L _ (pr - 1) pc _ (pr = qr + 1 ∧ pc < qc) (ho _ _) (by omega),
      term_of_occ L _ pr (pc - 1) _ (pr = qr ∧ pc ≤ qc) (ho _ _) (by omega),
      term_of_occ L _ pr (pc + 1) _ (pr = qr ∧ pc < qc) (ho _ _) (by omega),
      term_of_occ L _ (pr + 1) pc _ (pr = qr - 1 ∧ pc < qc) (ho _ _) (by omega),
      term_of_occ L _ (pr + 1) (pc + 1) _ (pr = qr - 1 ∧ pc < qc) (ho _ _) (by omega),
      xor6_row, xor_decide]
    apply decide_eq_decide.mpr; omega
  · by_cases h1 : qr % 3 = 1
    · rw [term_of_occ L _ (pr - 1) (pc - 1) _ (pc = qc + 1 ∧ qr < pr) (ho _ _) (by omega),
        term_of_occ L _ (pr - 1) pc _ (pc = qc ∧ qr < pr) (ho _ _) (by omega),
        term_of_occ L _ pr (pc - 1) _ (pc = qc + 1 ∧ qr < pr) (ho _ _) (by omega),
        term_of_occ L _ pr (pc + 1) _ (pc = qc - 1 ∧ qr < pr) (ho _ _) (by omega),
        term_of_occ L _ (pr + 1) pc _ (pc = qc ∧ qr ≤ pr) (ho _ _) (by omega),
        term_of_occ L _ (pr + 1) (pc + 1) _ (pc = qc - 1 ∧ qr < pr) (ho _ _) (by omega),
        xor6_col, xor_decide]
      apply decide_eq_decide.mpr; omega
    · rw [term_of_occ L _ (pr - 1) (pc - 1) _ (pr = qr + 1 ∧ qc < pc) (ho _ _) (by omega),
        term_of_occ L _ (pr - 1) pc _ (pr = qr + 1 ∧ qc < pc) (ho _ _) (by omega),
        term_of_occ L _ pr (pc - 1) _ (pr = qr ∧ qc < pc) (ho _ _) (by omega),
        term_of_occ L _ pr (pc + 1) _ (pr = qr ∧ qc ≤ pc) (ho _ _) (by omega),
        term_of_occ L _ (pr + 1) pc _ (pr = qr - 1 ∧ qc < pc) (ho _ _) (by omega),
        term_of_occ L _ (pr + 1) (pc + 1) _ (pr = qr - 1 ∧ qc < pc) (ho _ _) (by omega),
        xor6_row, xor_decide]
      apply decide_eq_decide.mpr; omega

/-! ### C″. the logical column -/

theorem occ_col0 (k : Nat) (r' c' : Int) :
    xorSum (List.range k) (fun i => isSite (i : Int) 0 && decide (((i : Int), (0 : Int)) = (r', c'))) =
      decide (c' = 0 ∧ 0 ≤ r' ∧ r' < k ∧ (r' + c') % 3 ≠ 2) := by
  induction k with
  | zero => simp only [List.range_zero, xorSum_nil]; symm; apply decide_eq_false; omega
  | succ k ih =>
    rw [List.range_succ, xorSum_append, ih]
    simp only [xorSum_cons, xorSum_nil, Bool.xor_false, Prod.mk.injEq, isSite_eq_decide, ← Bool.decide_and]
    rw [xor_decide]
    apply decide_eq_decide.mpr; push_cast; omega

theorem occ_logical (L : Int) (h : Odd3 L) (r c : Int) :
    occ (logicalSites L) (r, c) = decide (c = 0 ∧ 0 ≤ r ∧ r ≤ bound L ∧ (r + c) % 3 ≠ 2) := by
  have hb := bound_eq L h
  unfold logicalSites
  rw [occ_filter_map_range]
  simp only
  rw [occ_col0]
  unfold Odd3 at h
  apply decide_eq_decide.mpr; omega

theorem allSites_logical (L : Int) : AllSites (logicalSites L) := by
  intro rc hrc
  have := (List.mem_filter.mp hrc).2
  exact (isSite_iff _ _).mp this

theorem xor6_log (a b : Bool) : (a ^^ (b ^^ (a ^^ (false ^^ (b ^^ false))))) = false := by
  cases a <;> cases b <;> rfl

/-- the logical column meets every in-lattice plaquette in 0 or 2 in-lattice sites -/
theorem ov_logical_plaq (L : Int) (h : Odd3 L) (p : Int × Int) (hp : RealP L p) :
    xorSum (plaquetteSites p.1 p.2) (fun rc => inBounds L rc.1 rc.2 && occ (logicalSites L) rc) = false := by
  have hb := bound_eq L h
  have ho := fun r c => occ_logical L h r c
  obtain ⟨pr, pc⟩ := p
  unfold RealP at hp
  simp only at hp
  rw [xorSum_plaq]
  dsimp only
  rw [term_of_occ L _ (pr - 1) (pc - 1) _ (pc = 1) (ho _ _) (by omega),
    term_of_occ L _ (pr - 1) pc _ (pc = 0) (ho _ _) (by omega),
    term_of_occ L _ pr (pc - 1) _ (pc = 1) (ho _ _) (by omega),
    term_of_occ_false L _ pr (pc + 1) _ (ho _ _) (by omega),
    term_of_occ L _ (pr + 1) pc _ (pc = 0) (ho _ _) (by omega),
    term_of_occ_false L _ (pr + 1) (pc + 1) _ (ho _ _) (by omega)]
  exact xor6_log _ _

theorem xorSum_filter_map_range_true (k : Nat) (g : Nat → Int × Int) (P : Int × Int → Bool) :
    xorSum (((List.range k).map g).filter P) (fun _ => true) = xorSum (List.range k) (fun i => P (g i)) := by
  induction k with
  | zero => rfl
  | succ k ih =>
    rw [List.range_succ, List.map_append, List.filter_append, xorSum_append, ih, xorSum_append]
    congr 1
    simp only [List.map_cons, List.map_nil, xorSum_cons, xorSum_nil, Bool.xor_false]
    cases h : P (g k) <;> simp [List.filter, h]

theorem par_col0 (k : Nat) : xorSum (List.range k) (fun i => isSite (i : Int) 0) = decide (k % 3 = 1) := by
  induction k with
  | zero => rfl
  | succ k ih =>
    rw [List.range_succ, xorSum_append, ih]
    simp only [xorSum_cons, xorSum_nil, Bool.xor_false, isSite_eq_decide]
    rw [xor_decide]
    apply decide_eq_decide.mpr; omega

/-- the logical column has an odd number (`L`) of sites, all in the lattice -/
theorem ov_logical_logical (L : Int) (h : Odd3 L) :
    xorSum (logicalSites L) (fun rc => inBounds L rc.1 rc.2 && occ (logicalSites L) rc) = true := by
  have hb := bound_eq L h
  have e : xorSum (logicalSites L) (fun rc => inBounds L rc.1 rc.2 && occ (logicalSites L) rc) =
      xorSum (logicalSites L) (fun _ => true) := by
    apply xorSum_congr
    intro rc hrc
    have hs := allSites_logical L rc hrc
    unfold logicalSites at hrc
    rcases List.mem_map.mp (List.mem_filter.mp hrc).1 with ⟨i, hi, rfl⟩
    have hi' := List.mem_range.mp hi
    simp only at hs ⊢
    rw [occ_logical L h, inBounds_eq_decide, ← Bool.decide_and]
    apply decide_eq_true; unfold Odd3 at h; omega
  rw [e]
  unfold logicalSites
  rw [xorSum_filter_map_range_true]
  simp only
  rw [par_col0]
  apply decide_eq_true; unfold Odd3 at h; omega

/-! ### D. the plaquette index list -/

/-- all lattice indices in `itertools.product` order -/
def allIdx (L : Int) : List (Int × Int) :=
  (List.range (bound L + 1).toNat).flatMap fun (r : Nat) =>
    (List.range (bound L + 1).toNat).map fun (c : Nat) => ((r : Int), (c : Int))

theorem plaquetteIndices_eq (L : Int) :
    plaquetteIndices L = (allIdx L).filter fun rc => inBounds L rc.1 rc.2 && isPlaquette rc.1 rc.2 := rfl

theorem mem_allIdx (L : Int) (p : Int × Int) :
    p ∈ allIdx L ↔ 0 ≤ p.1 ∧ p.1 ≤ bound L ∧ 0 ≤ p.2 ∧ p.2 ≤ bound L := by
  simp only [allIdx, List.mem_flatMap, List.mem_map, List.mem_range]
  constructor
  · rintro ⟨r, hr, c, hc, rfl⟩
    simp only; omega
  · intro h
    refine ⟨p.1.toNat, by omega, p.2.toNat, by omega, ?_⟩
    apply Prod.ext <;> simp only <;> omega

theorem allIdx_nodup (L : Int) : (allIdx L).Nodup := by
  unfold allIdx
  rw [List.nodup_flatMap]
  constructor
  · intro r _
    apply List.Nodup.map
    · intro a b h; simp only [Prod.mk.injEq] at h; omega
    · exact List.nodup_range
  · apply List.Pairwise.imp _ List.nodup_range
    intro a b hab
    simp only [Function.onFun, List.disjoint_left, List.mem_map]
    rintro x ⟨c, _, rfl⟩ ⟨c', _, h⟩
    simp only [Prod.mk.injEq] at h
    omega

theorem mem_plaquetteIndices (L : Int) (p : Int × Int) : p ∈ plaquetteIndices L ↔ RealP L p := by
  rw [plaquetteIndices_eq]
  simp only [List.mem_filter, mem_allIdx, Bool.and_eq_true, isPlaquette_iff, inBounds_iff, RealP]
  omega

theorem plaquetteIndices_nodup (L : Int) : (plaquetteIndices L).Nodup := by
  rw [plaquetteIndices_eq]
  exact (allIdx_nodup L).filter _

/-- plaquettes of row `r` among the first `j` columns -/
theorem cnt_row (r j : Nat) :
    List.countP (fun c : Nat => decide (c ≤ r ∧ (r + c) % 3 = 2)) (List.range j) = (min j (r + 1) + r % 3) / 3 := by
  induction j with
  | zero => simp
  | succ j ih =>
    rw [List.range_succ, List.countP_append, ih]
    simp only [List.countP_cons, List.countP_nil, Nat.zero_add]
    by_cases h : j ≤ r ∧ (r + j) % 3 = 2
    · simp only [h, and_self, decide_true, if_true]; omega
    · simp only [h, decide_false, Bool.false_eq_true, if_false]; omega

theorem sum_rows (a : Nat) :
    2 * ((List.range (3 * a)).map (fun r : Nat => (r + 1 + r % 3) / 3)).sum = 3 * (a * a) + a := by
  induction a with
  | zero => simp
  | succ a ih =>
    rw [show 3 * (a + 1) = 3 * a + 1 + 1 + 1 by omega, List.range_succ, List.range_succ, List.range_succ]
    simp only [List.map_append, List.sum_append, List.map_cons, List.map_nil, List.sum_cons, List.sum_nil]
    have : (a + 1) * (a + 1) = a * a + 2 * a + 1 := by ring
    rw [this]
    omega

/-- **stabilizer count**: twice the number of plaquettes is `n − 1` -/
theorem plaquetteIndices_length (L : Int) (h : Odd3 L) :
    2 * ((plaquetteIndices L).length : Int) + 1 = nQubits L := by
  obtain ⟨m, rfl⟩ : ∃ m : Nat, L = 2 * (m : Int) + 1 := ⟨((L - 1) / 2).toNat, by unfold Odd3 at h; omega⟩
  have hb : bound (2 * (m : Int) + 1) = 3 * (m : Int) := by unfold bound; omega
  have hk : (bound (2 * (m : Int) + 1) + 1).toNat = 3 * m + 1 := by omega
  have hlen : 2 * (plaquetteIndices (2 * (m : Int) + 1)).length = 3 * (m * m) + 3 * m := by
    rw [plaquetteIndices_eq, ← List.countP_eq_length_filter]
    unfold allIdx
    rw [List.countP_flatMap, hk]
    have e : ∀ r ∈ List.range (3 * m + 1),
        (List.countP (fun rc : Int × Int => inBounds (2 * (m : Int) + 1) rc.1 rc.2 && isPlaquette rc.1 rc.2) ∘
          fun (r : Nat) => (List.range (3 * m + 1)).map fun (c : Nat) => ((r : Int), (c : Int))) r =
          (r + 1 + r % 3) / 3 := by
      intro r hr
      have hr' := List.mem_range.mp hr
      simp only [Function.comp, List.countP_map]
      have : (min (3 * m + 1) (r + 1) + r % 3) / 3 = (r + 1 + r % 3) / 3 := by
        rw [Nat.min_eq_right (by omega)]
      rw [← this, ← cnt_row]
      apply List.countP_congr
      intro c _
      simp only [Function.comp, Bool.and_eq_true, decide_eq_true_eq, inBounds_iff, isPlaquette_iff, hb]
      omega
    rw [List.map_congr_left e, List.range_succ, List.map_append, List.sum_append, Nat.mul_add, sum_rows]
    simp only [List.map_cons, List.map_nil, List.sum_cons, List.sum_nil]
    omega
  have hn := (nQubits_eq (2 * (m : Int) + 1) h).1
  rw [show (2 * (m : Int) + 1 - 1) / 2 = (m : Int) by omega] at hn
  rw [hn]
  have : (2 * (plaquetteIndices (2 * (m : Int) + 1)).length : Int) = 3 * ((m : Int) * m) + 3 * m := by
    exact_mod_cast hlen
  omega

/-! ### E. stabilizers, logicals and destabilisers as site operators -/

/-- a stabilizer generator: `(false, p)` the X-type, `(true, p)` the Z-type plaquette operator of `p` -/
abbrev Gen := Bool × (Int × Int)

/-- the generators in the order of the rows of `stabilizers` -/
def gens (L : Int) : List Gen :=
  (plaquetteIndices L).map (fun p => (false, p)) ++ (plaquetteIndices L).map (fun p => (true, p))

/-- the stabilizer generator of type `x.1` on plaquette `x.2` -/
def stabOp (L : Int) (x : Gen) : BVec := sites L (opOf x.1) (identity L) (plaquetteSites x.2.1 x.2.2)

/-- the destabiliser of generator `x`: the run of `sample_recovery` from the plaquette to the boundary of its
    colour, Z-type for an X-type generator and X-type for a Z-type generator -/
def destabOp (L : Int) (x : Gen) : BVec := sites L (opOf (!x.1)) (identity L) (Dec.colorRunSites L x.2)

theorem stabilizers_eq_map (L : Int) : stabilizers L = (gens L).map (stabOp L) := by
  simp only [stabilizers, gens, List.map_append, List.map_map]
  rfl

theorem logicalX_eq (L : Int) : logicalX L = sites L (opOf false) (identity L) (logicalSites L) := rfl
theorem logicalZ_eq (L : Int) : logicalZ L = sites L (opOf true) (identity L) (logicalSites L) := rfl

theorem destabOp_eq_run (L : Int) (x : Gen) :
    destabOp L x = Dec.colorRunApply L (if x.1 then P1.X else P1.Z) (identity L) x.2 := by
  obtain ⟨z, p⟩ := x
  cases z <;> rfl

theorem mem_gens (L : Int) (x : Gen) : x ∈ gens L ↔ RealP L x.2 := by
  obtain ⟨z, p⟩ := x
  simp only [gens, List.mem_append, List.mem_map, Prod.mk.injEq, ← mem_plaquetteIndices]
  constructor
  · rintro (⟨q, hq, _, rfl⟩ | ⟨q, hq, _, rfl⟩) <;> exact hq
  · intro h
    cases z
    · exact .inl ⟨p, h, rfl, rfl⟩
    · exact .inr ⟨p, h, rfl, rfl⟩

theorem gens_nodup (L : Int) : (gens L).Nodup := by
  unfold gens
  rw [List.nodup_append]
  refine ⟨?_, ?_, ?_⟩
  · exact (plaquetteIndices_nodup L).map (fun a b e => by simpa using e)
  · exact (plaquetteIndices_nodup L).map (fun a b e => by simpa using e)
  · intro a ha b hb
    rw [List.mem_map] at ha hb
    obtain ⟨p, _, rfl⟩ := ha
    obtain ⟨q, _, rfl⟩ := hb
    simp

theorem gens_length (L : Int) : (gens L).length = 2 * (plaquetteIndices L).length := by
  simp [gens]; omega

theorem stabOp_length (L : Int) (x : Gen) : (stabOp L x).length = 2 * nq L := siteop_length _ _ _
theorem destabOp_length (L : Int) (x : Gen) : (destabOp L x).length = 2 * nq L := siteop_length _ _ _

/-- two stabilizer generators commute -/
theorem bsp_stab_stab (L : Int) (h : Odd3 L) (x y : Gen) (hx : RealP L x.2) (hy : RealP L y.2) :
    bsp (stabOp L x) (stabOp L y) = false := by
  have sx := allSites_plaq x.2.1 x.2.2 hx.2.2.2
  have sy := allSites_plaq y.2.1 y.2.2 hy.2.2.2
  unfold stabOp
  by_cases hz : y.1 = x.1
  · rw [hz]; exact bsp_sites_same L h _ _ _ sx sy
  · have : y.1 = !x.1 := by cases hx1 : x.1 <;> cases hy1 : y.1 <;> simp_all
    rw [this, bsp_sites_diff L h _ _ _ sx sy]
    exact ov_plaq_plaq L x.2 y.2 hx hy

/-- the destabiliser of `y` anticommutes with the generator `x` iff `x = y` -/
theorem bsp_stab_destab (L : Int) (h : Odd3 L) (x y : Gen) (hx : RealP L x.2) (hy : RealP L y.2) :
    bsp (stabOp L x) (destabOp L y) = decide (x = y) := by
  have sx := allSites_plaq x.2.1 x.2.2 hx.2.2.2
  have sy := allSites_colorRun L y.2
  obtain ⟨zx, p⟩ := x
  obtain ⟨zy, q⟩ := y
  unfold stabOp destabOp
  simp only at hx hy sx sy ⊢
  by_cases hz : zy = zx
  · subst hz
    rw [bsp_flip, bsp_sites_diff' L h _ _ (Bool.not_not _).symm _ _ sy sx, ov_run_plaq L h p q hx hy]
    apply decide_eq_decide.mpr
    simp
  · have e : (!zy) = zx := by cases zx <;> cases zy <;> simp_all
    rw [e, bsp_sites_same L h _ _ _ sx sy]
    symm; apply decide_eq_false
    intro he
    exact hz (Prod.mk.inj he).1.symm

theorem bsp_stab_logical (L : Int) (h : Odd3 L) (x : Gen) (hx : RealP L x.2) (z : Bool) :
    bsp (stabOp L x) (sites L (opOf z) (identity L) (logicalSites L)) = false := by
  have sx := allSites_plaq x.2.1 x.2.2 hx.2.2.2
  have sl := allSites_logical L
  unfold stabOp
  by_cases hz : z = x.1
  · rw [hz]; exact bsp_sites_same L h _ _ _ sx sl
  · have : x.1 = !z := by cases hx1 : x.1 <;> cases z <;> simp_all
    rw [bsp_flip, this, bsp_sites_diff L h _ _ _ sl sx]
    exact ov_logical_plaq L h x.2 hx

theorem bsp_logicalX_logicalZ (L : Int) (h : Odd3 L) : bsp (logicalX L) (logicalZ L) = true := by
  rw [logicalX_eq, logicalZ_eq, show true = !false from rfl,
    bsp_sites_diff L h _ _ _ (allSites_logical L) (allSites_logical L)]
  exact ov_logical_logical L h

theorem bsp_logical_same (L : Int) (h : Odd3 L) (z : Bool) :
    bsp (sites L (opOf z) (identity L) (logicalSites L)) (sites L (opOf z) (identity L) (logicalSites L)) = false :=
  bsp_sites_same L h _ _ _ (allSites_logical L) (allSites_logical L)

/-! ### F. read-back through `operatorAt` -/

theorem operatorAt_eq (L : Int) (v : BVec) (s : Int × Int) :
    operatorAt L v s.1 s.2 = P1.ofBits (v.getD (fl s) false) (v.getD (nq L + fl s) false) := rfl

theorem fl_eq_iff (L : Int) (h : Odd3 L) (rc s : Int × Int)
    (h1 : (rc.1 + rc.2) % 3 ≠ 2) (b1 : inBounds L rc.1 rc.2 = true)
    (h2 : (s.1 + s.2) % 3 ≠ 2) (b2 : inBounds L s.1 s.2 = true) : fl rc = fl s ↔ rc = s :=
  ⟨fun he => fl_inj L h s rc h2 b2 h1 b1 he, fun he => by rw [he]⟩

/-- bit of a site operator in its own half: parity of occurrences of the site in the list -/
theorem getD_siteop_same (L : Int) (h : Odd3 L) (z : Bool) (l : List (Int × Int)) (hl : AllSites l)
    (s : Int × Int) (h2 : (s.1 + s.2) % 3 ≠ 2) (b2 : inBounds L s.1 s.2 = true) :
    (sites L (opOf z) (identity L) l).getD (off (nq L) z + fl s) false = occ l s := by
  rw [sites_eq_gsites, identity_eq,
    getD_gsiteop_same (nq L) (dom L) fl z l (flatLt_of_allSites L h l hl),
    occF_eq_occ L h l hl s h2 b2]

/-- bit of a site operator in the other half vanishes -/
theorem getD_siteop_other (L : Int) (h : Odd3 L) (z : Bool) (l : List (Int × Int)) (hl : AllSites l)
    (s : Int × Int) (h2 : (s.1 + s.2) % 3 ≠ 2) (b2 : inBounds L s.1 s.2 = true) :
    (sites L (opOf z) (identity L) l).getD (off (nq L) (!z) + fl s) false = false := by
  rw [sites_eq_gsites, identity_eq]
  exact getD_gsiteop_other (nq L) (dom L) fl z l (flatLt_of_allSites L h l hl) _ (fl_lt L h s h2 b2)

/-- read-back of an X- or Z-type site operator at an in-bounds site -/
theorem operatorAt_siteop (L : Int) (h : Odd3 L) (z : Bool) (l : List (Int × Int)) (hl : AllSites l)
    (s : Int × Int) (h2 : (s.1 + s.2) % 3 ≠ 2) (b2 : inBounds L s.1 s.2 = true) :
    operatorAt L (sites L (opOf z) (identity L) l) s.1 s.2 = if occ l s then opOf z else P1.I := by
  rw [operatorAt_eq]
  have h1 := getD_siteop_same L h z l hl s h2 b2
  have h0 := getD_siteop_other L h z l hl s h2 b2
  cases z
  · simp only [off, Bool.false_eq_true, if_false, Nat.zero_add, Bool.not_false, if_true] at h1 h0
    rw [h1, h0]; cases occ l s <;> rfl
  · simp only [off, Bool.false_eq_true, if_false, Nat.zero_add, Bool.not_true, if_true] at h1 h0
    rw [h1, h0]; cases occ l s <;> rfl

/-- read-back of `site(op, rc)` applied to the identity, for every single-qubit operator -/
theorem operatorAt_site (L : Int) (h : Odd3 L) (op : P1) (rc s : Int × Int)
    (h1 : (rc.1 + rc.2) % 3 ≠ 2) (b1 : inBounds L rc.1 rc.2 = true)
    (h2 : (s.1 + s.2) % 3 ≠ 2) (b2 : inBounds L s.1 s.2 = true) :
    operatorAt L (site L op (identity L) rc) s.1 s.2 = if rc = s then op else P1.I := by
  rw [operatorAt_eq]
  have f := fl_lt L h rc h1 b1
  have f' := fl_lt L h s h2 b2
  have hl := identity_length L
  have e := fl_eq_iff L h rc s h1 b1 h2 b2
  have key : site L op (identity L) rc = applyOp (nq L) op (identity L) (fl rc) := by
    simp only [site, b1, if_true]; rfl
  rw [key]
  have d1 : decide (fl rc = fl s) = decide (rc = s) := decide_eq_decide.mpr e
  have d2 : decide (nq L + fl rc = nq L + fl s) = decide (rc = s) := by
    apply decide_eq_decide.mpr; rw [← e]; omega
  have d3 : decide (fl rc = nq L + fl s) = false := by apply decide_eq_false; omega
  have d4 : decide (nq L + fl rc = fl s) = false := by apply decide_eq_false; omega
  cases op
  · simp only [applyOp, P1.xBit, P1.zBit, Bool.false_eq_true, if_false, getD_identity]
    split <;> rfl
  · simp only [applyOp, P1.xBit, P1.zBit, Bool.false_eq_true, if_false, if_true]
    rw [getD_toggle _ _ _ (by omega), getD_toggle _ _ _ (by omega), getD_identity, getD_identity, d1, d3]
    by_cases h : rc = s <;> simp [h, P1.ofBits]
  · simp only [applyOp, P1.xBit, P1.zBit, if_true]
    have ht : (toggle (identity L) (fl rc)).length = 2 * nq L := by rw [toggle_length]; exact hl
    rw [getD_toggle _ _ _ (by omega), getD_toggle _ _ _ (by omega),
      getD_toggle _ _ _ (by omega), getD_toggle _ _ _ (by omega), getD_identity, getD_identity, d1, d2, d3, d4]
    by_cases h : rc = s <;> simp [h, P1.ofBits]
  · simp only [applyOp, P1.xBit, P1.zBit, Bool.false_eq_true, if_false, if_true]
    rw [getD_toggle _ _ _ (by omega), getD_toggle _ _ _ (by omega), getD_identity, getD_identity, d2, d4]
    by_cases h : rc = s <;> simp [h, P1.ofBits]

/-! ### G. site count, plaquette weights, the float expression of `_flatten_site_index` -/

theorem nQubits_exact (L : Int) (h : Odd3 L) : 4 * nQubits L = 3 * L * L + 1 := by
  obtain ⟨m, rfl⟩ : ∃ m : Int, L = 2 * m + 1 := ⟨(L - 1) / 2, by unfold Odd3 at h; omega⟩
  have : 3 * (2 * m + 1) * (2 * m + 1) + 1 = 4 * (3 * (m * m) + 3 * m + 1) := by ring
  unfold nQubits
  rw [this]
  omega

/-- sites of row `r` among the first `j` columns -/
theorem cnt_row_site (r j : Nat) :
    List.countP (fun c : Nat => decide (c ≤ r ∧ (r + c) % 3 ≠ 2)) (List.range j) =
      min j (r + 1) - (min j (r + 1) + r % 3) / 3 := by
  induction j with
  | zero => simp
  | succ j ih =>
    rw [List.range_succ, List.countP_append, ih]
    simp only [List.countP_cons, List.countP_nil, Nat.zero_add]
    by_cases h : j ≤ r ∧ (r + j) % 3 ≠ 2
    · rw [decide_eq_true h]; simp only [if_true]; omega
    · rw [decide_eq_false h]; simp only [Bool.false_eq_true, if_false]; omega

theorem sum_sites (k : Nat) :
    ((((List.range k).map (fun r : Nat => r + 1 - (r + 1 + r % 3) / 3)).sum : Nat) : Int) = rowStart k := by
  induction k with
  | zero => simp [rowStart_zero]
  | succ k ih =>
    rw [List.range_succ, List.map_append, List.sum_append]
    push_cast at ih ⊢
    rw [ih, rowStart_succ]
    simp only [List.map_cons, List.map_nil, List.sum_cons, List.sum_nil]
    unfold rowLen
    omega

/-- the number of in-lattice site indices is `n` -/
theorem site_count (L : Int) (h : Odd3 L) :
    (((allIdx L).filter fun rc => inBounds L rc.1 rc.2 && isSite rc.1 rc.2).length : Int) = nQubits L := by
  obtain ⟨m, rfl⟩ : ∃ m : Nat, L = 2 * (m : Int) + 1 := ⟨((L - 1) / 2).toNat, by unfold Odd3 at h; omega⟩
  have hb : bound (2 * (m : Int) + 1) = 3 * (m : Int) := by unfold bound; omega
  have hk : (bound (2 * (m : Int) + 1) + 1).toNat = 3 * m + 1 := by omega
  rw [(nQubits_eq _ h).2, hb, ← List.countP_eq_length_filter]
  unfold allIdx
  rw [List.countP_flatMap, hk]
  have e : ∀ r ∈ List.range (3 * m + 1),
      (List.countP (fun rc : Int × Int => inBounds (2 * (m : Int) + 1) rc.1 rc.2 && isSite rc.1 rc.2) ∘
        fun (r : Nat) => (List.range (3 * m + 1)).map fun (c : Nat) => ((r : Int), (c : Int))) r =
        r + 1 - (r + 1 + r % 3) / 3 := by
    intro r hr
    have hr' := List.mem_range.mp hr
    simp only [Function.comp, List.countP_map]
    have : min (3 * m + 1) (r + 1) - (min (3 * m + 1) (r + 1) + r % 3) / 3 = r + 1 - (r + 1 + r % 3) / 3 := by
      rw [Nat.min_eq_right (by omega)]
    rw [← this, ← cnt_row_site]
    apply List.countP_congr
    intro c _
    simp only [Function.comp, Bool.and_eq_true, decide_eq_true_eq, inBounds_iff, isSite_iff, hb]
    omega
  rw [List.map_congr_left e, sum_sites]
  push_cast
  rfl

/-- weight of a plaquette support -/
theorem plaq_weight (L : Int) (h : Odd3 L) (p : Int × Int) (hp : RealP L p) :
    List.countP (fun s => inBounds L s.1 s.2) (plaquetteSites p.1 p.2) =
      if p.2 = 0 ∨ p.2 = p.1 ∨ p.1 = bound L then 4 else 6 := by
  have hb := bound_eq L h
  obtain ⟨pr, pc⟩ := p
  unfold RealP at hp
  simp only at hp ⊢
  have e1 : inBounds L (pr - 1) (pc - 1) = decide (1 ≤ pc) := by
    rw [inBounds_eq_decide]; apply decide_eq_decide.mpr; omega
  have e2 : inBounds L (pr - 1) pc = decide (pc + 1 ≤ pr) := by
    rw [inBounds_eq_decide]; apply decide_eq_decide.mpr; omega
  have e3 : inBounds L pr (pc - 1) = decide (1 ≤ pc) := by
    rw [inBounds_eq_decide]; apply decide_eq_decide.mpr; omega
  have e4 : inBounds L pr (pc + 1) = decide (pc + 1 ≤ pr) := by
    rw [inBounds_eq_decide]; apply decide_eq_decide.mpr; omega
  have e5 : inBounds L (pr + 1) pc = decide (pr + 1 ≤ bound L) := by
    rw [inBounds_eq_decide]; apply decide_eq_decide.mpr; omega
  have e6 : inBounds L (pr + 1) (pc + 1) = decide (pr + 1 ≤ bound L) := by
    rw [inBounds_eq_decide]; apply decide_eq_decide.mpr; omega
  simp only [plaquetteSites, List.countP_cons, List.countP_nil, e1, e2, e3, e4, e5, e6, decide_eq_true_eq]
  split_ifs <;> omega

theorem floor_quarter (Q num den : Int) (hd : 0 < den) (h1 : 4 * Q * den ≤ num) (h2 : num < (4 * Q + 3) * den) :
    (num + den) / (4 * den) = Q := by
  obtain ⟨t, ht⟩ : ∃ t, t = Q * den := ⟨_, rfl⟩
  have e1 : 4 * Q * den = 4 * t := by rw [ht]; ring
  have e2 : (4 * Q + 3) * den = 4 * t + 3 * den := by rw [ht]; ring
  rw [e1] at h1
  rw [e2] at h2
  have a : Q ≤ (num + den) / (4 * den) := by
    apply (Int.le_ediv_iff_mul_le (by omega)).mpr
    have : Q * (4 * den) = 4 * t := by rw [ht]; ring
    omega
  have b : (num + den) / (4 * den) < Q + 1 := by
    apply (Int.ediv_lt_iff_lt_mul (by omega)).mpr
    have : (Q + 1) * (4 * den) = 4 * t + 4 * den := by rw [ht]; ring
    omega
  omega

/-- see `Qec.C07.Color666.flat_color_float_safe` -/
theorem float_safe (r : Int) :
    let x := (2 * r + 1) * (2 * r + 1)
    (x % 12 = 9 ∧ x % 3 = 0 ∧ (x / 3 + 1) % 4 = 0 ∧ (x / 3 + 1) / 4 = (x + 3) / 12) ∨
    (x % 12 = 1 ∧ ((x - 1) / 3) % 4 = 0 ∧ 3 * ((x - 1) / 3) + 1 = x ∧
      ∀ num den : Int, 0 < den → (x - 1) / 3 * den ≤ num → num < ((x - 1) / 3 + 3) * den →
        (num + den) / (4 * den) = (x + 3) / 12) := by
  intro x
  have key : ∀ Q : Int, x = 12 * Q + 1 →
      (x % 12 = 1 ∧ ((x - 1) / 3) % 4 = 0 ∧ 3 * ((x - 1) / 3) + 1 = x ∧
        ∀ num den : Int, 0 < den → (x - 1) / 3 * den ≤ num → num < ((x - 1) / 3 + 3) * den →
          (num + den) / (4 * den) = (x + 3) / 12) := by
    intro Q hx
    have hq : (x - 1) / 3 = 4 * Q := by omega
    refine ⟨by omega, by omega, by omega, ?_⟩
    intro num den hd h1 h2
    rw [hq] at h1 h2
    rw [show (x + 3) / 12 = Q by omega]
    exact floor_quarter Q num den hd h1 h2
  rcases mod3_cases r with ⟨a, rfl | rfl | rfl⟩
  · right
    exact key (3 * (a * a) + a) (by simp only [x]; ring)
  · left
    have : x = 12 * (3 * (a * a) + 3 * a) + 9 := by simp only [x]; ring
    omega
  · right
    exact key (3 * (a * a) + 5 * a + 2) (by simp only [x]; ring)

end Qec.Color666Code
