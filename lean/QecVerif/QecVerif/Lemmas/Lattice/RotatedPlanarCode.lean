/-
  Helper lemmas for C07 (rotated planar family): index arithmetic of `flatten`, the parity dependent plaquette
  bounds in closed form, bits of operators built by toggling site lists, `bsp` of two site operators as an overlap
  parity, straight runs to the boundary (the runs of the MPS decoders' `sample_recovery`), the plaquette index
  list and its length.
-/
import QecVerif.Model.Lattice.RotatedPlanar
import QecVerif.Model.Decoders
import QecVerif.Lemmas.Symplectic
import Mathlib.Data.List.Nodup
import Mathlib.Data.List.Perm.Lattice
import Mathlib.Tactic.Ring
namespace Qec.RotatedPlanarCode
open Qec Qec.RotatedPlanar Qec.Symp

/-! ### A. index arithmetic -/

theorem lin_bound (a b A B : Int) (ha : 0 ≤ a) (ha' : a ≤ A - 1) (hb : 0 ≤ b) (hb' : b ≤ B - 1) :
    0 ≤ b + a * B ∧ b + a * B < A * B := by
  have hB : 0 ≤ B := by omega
  have h1 : 0 ≤ a * B := Int.mul_nonneg ha hB
  have h2 : a * B ≤ (A - 1) * B := Int.mul_le_mul_of_nonneg_right ha' hB
  rw [Int.sub_mul, Int.one_mul] at h2
  omega

theorem lin_inj (a b a' b' B : Int) (hb : 0 ≤ b) (hb' : b < B) (hc : 0 ≤ b') (hc' : b' < B)
    (h : b + a * B = b' + a' * B) : a = a' ∧ b = b' := by
  have hB : 0 ≤ B := by omega
  have key : a = a' := by
    rcases Int.lt_trichotomy a a' with hlt | heq | hgt
    · exfalso
      have : (a + 1) * B ≤ a' * B := Int.mul_le_mul_of_nonneg_right (by omega) hB
      rw [Int.add_mul, Int.one_mul] at this
      omega
    · exact heq
    · exfalso
      have : (a' + 1) * B ≤ a * B := Int.mul_le_mul_of_nonneg_right (by omega) hB
      rw [Int.add_mul, Int.one_mul] at this
      omega
  subst key
  exact ⟨rfl, by omega⟩

theorem lin_surj (i A B : Int) (hB : 0 < B) (h0 : 0 ≤ i) (h1 : i < A * B) :
    ∃ a b, 0 ≤ a ∧ a ≤ A - 1 ∧ 0 ≤ b ∧ b ≤ B - 1 ∧ b + a * B = i := by
  refine ⟨i / B, i % B, Int.ediv_nonneg h0 (by omega), ?_, Int.emod_nonneg _ (by omega), ?_, ?_⟩
  · have := Int.ediv_lt_of_lt_mul hB h1
    omega
  · have := Int.emod_lt_of_pos i hB
    omega
  · have := Int.mul_ediv_add_emod i B
    rw [Int.mul_comm] at this
    omega

/-- an in-bounds site index `(x, y)` -/
def SiteIn (R C x y : Int) : Prop := 0 ≤ x ∧ x ≤ C - 1 ∧ 0 ≤ y ∧ y ≤ R - 1

theorem inSiteBounds_iff (R C x y : Int) : inSiteBounds R C x y = true ↔ SiteIn R C x y := by
  simp only [inSiteBounds, Bool.and_eq_true, decide_eq_true_eq]
  simp only [maxSiteX, maxSiteY, SiteIn]
  omega

theorem inSiteBounds_eq_decide (R C x y : Int) :
    inSiteBounds R C x y = decide (0 ≤ x ∧ x ≤ C - 1 ∧ 0 ≤ y ∧ y ≤ R - 1) := by
  rw [Bool.eq_iff_iff, inSiteBounds_iff]; simp [SiteIn]

/-- an in-lattice plaquette in closed form: Z-plaquettes fill the rectangle `[0, C−2] × [−1, R−1]` (the rows
    `y = −1` and `y = R−1` are the bottom / top weight-2 boundary plaquettes), X-plaquettes the rectangle
    `[−1, C−1] × [0, R−2]` (the columns `x = −1`, `x = C−1` are the left / right boundary plaquettes) -/
def PlaqIn (R C : Int) (p : Int × Int) : Prop :=
  ((p.1 - p.2) % 2 = 0 ∧ 0 ≤ p.1 ∧ p.1 ≤ C - 2 ∧ -1 ≤ p.2 ∧ p.2 ≤ R - 1) ∨
  ((p.1 - p.2) % 2 = 1 ∧ -1 ≤ p.1 ∧ p.1 ≤ C - 1 ∧ 0 ≤ p.2 ∧ p.2 ≤ R - 2)

theorem isXPlaquette_iff (x y : Int) : isXPlaquette x y = true ↔ (x - y) % 2 = 1 := by
  simp only [isXPlaquette, beq_iff_eq]

theorem isZPlaquette_iff (x y : Int) : isZPlaquette x y = true ↔ (x - y) % 2 = 0 := by
  simp only [isZPlaquette, isXPlaquette, Bool.not_eq_true', beq_eq_false_iff_ne, ne_eq]
  omega

theorem isZPlaquette_eq_decide (x y : Int) : isZPlaquette x y = decide ((x - y) % 2 = 0) := by
  rw [Bool.eq_iff_iff, isZPlaquette_iff]; simp

/-- the code's parity dependent `is_in_plaquette_bounds`, in closed form -/
theorem inPlaquetteBounds_iff (R C x y : Int) : inPlaquetteBounds R C x y = true ↔ PlaqIn R C (x, y) := by
  simp only [inPlaquetteBounds, Bool.and_eq_true, decide_eq_true_eq, beq_iff_eq]
  simp only [maxSiteX, maxSiteY, PlaqIn]
  have hx := Int.emod_two_eq x
  have hy := Int.emod_two_eq y
  have hc := Int.emod_two_eq (C - 1)
  have hr := Int.emod_two_eq (R - 1)
  rcases hx with hx | hx <;> rcases hy with hy | hy <;> rcases hc with hc | hc <;> rcases hr with hr | hr <;>
    simp [hx, hy, hc, hr] <;> omega

theorem flatten_lt (R C x y : Int) (h : SiteIn R C x y) : 0 ≤ flatten R C x y ∧ flatten R C x y < nQubits R C := by
  unfold SiteIn at h
  unfold flatten nQubits
  exact lin_bound y x R C h.2.2.1 h.2.2.2 h.1 h.2.1

theorem flatten_inj (R C x y x' y' : Int) (h : SiteIn R C x y) (h' : SiteIn R C x' y')
    (he : flatten R C x y = flatten R C x' y') : x = x' ∧ y = y' := by
  unfold SiteIn at h h'
  unfold flatten at he
  have := lin_inj y x y' x' C h.1 (by omega) h'.1 (by omega) he
  exact ⟨this.2, this.1⟩

theorem flatten_surj (R C : Int) (hC : 3 ≤ C) (i : Int) (h0 : 0 ≤ i) (h1 : i < nQubits R C) :
    ∃ x y, SiteIn R C x y ∧ flatten R C x y = i := by
  rcases lin_surj i R C (by omega) h0 h1 with ⟨a, b, a0, a1, b0, b1, e⟩
  exact ⟨b, a, ⟨b0, b1, a0, a1⟩, e⟩

theorem nQubits_pos (R C : Int) (hR : 3 ≤ R) (hC : 3 ≤ C) : 0 < nQubits R C :=
  Int.mul_pos (by omega) (by omega)

/-! ### B. the rotated planar `site` / `sites` as instances of the generic site operators of `Lemmas/Symplectic.lean` -/

/-- number of qubits as a `Nat` -/
def nq (R C : Int) : Nat := (nQubits R C).toNat
/-- flat index of a site as a `Nat` -/
def fl (R C : Int) (xy : Int × Int) : Nat := (flatten R C xy.1 xy.2).toNat
/-- the in-bounds test on index pairs -/
def dom (R C : Int) (xy : Int × Int) : Bool := inSiteBounds R C xy.1 xy.2

theorem site_eq_gsite (R C : Int) (op : P1) (v : BVec) (xy : Int × Int) :
    site R C op v xy = gsite (nq R C) (dom R C) (fl R C) op v xy := rfl

theorem sites_eq_gsites (R C : Int) (op : P1) (v : BVec) (l : List (Int × Int)) :
    sites R C op v l = gsites (nq R C) (dom R C) (fl R C) op v l := rfl

theorem identity_eq (R C : Int) : identity R C = zeros (2 * nq R C) := rfl

theorem identity_length (R C : Int) : (identity R C).length = 2 * nq R C := by
  simp [identity, zeros, nq]

theorem fl_lt (R C : Int) (xy : Int × Int) (hb : inSiteBounds R C xy.1 xy.2 = true) : fl R C xy < nq R C := by
  have := flatten_lt R C xy.1 xy.2 ((inSiteBounds_iff R C _ _).mp hb)
  unfold fl nq; omega

theorem flatLt_all (R C : Int) (l : List (Int × Int)) : FlatLt (nq R C) (dom R C) (fl R C) l :=
  fun xy _ hb => fl_lt R C xy hb

/-- parity of the number of occurrences of `xy` in `l` -/
def occ (l : List (Int × Int)) (xy : Int × Int) : Bool := xorSum l (fun xy' => decide (xy' = xy))

theorem fl_inj (R C : Int) (xy xy' : Int × Int) (hb : inSiteBounds R C xy.1 xy.2 = true)
    (hb' : inSiteBounds R C xy'.1 xy'.2 = true) (h : fl R C xy' = fl R C xy) : xy' = xy := by
  have s := (inSiteBounds_iff R C _ _).mp hb
  have s' := (inSiteBounds_iff R C _ _).mp hb'
  have b := flatten_lt R C _ _ s
  have b' := flatten_lt R C _ _ s'
  have := flatten_inj R C _ _ _ _ s' s (by unfold fl at h; omega)
  exact Prod.ext this.1 this.2

/-- by injectivity of `flatten`, coincidence of flat indices is coincidence of sites -/
theorem occF_eq_occ (R C : Int) (l : List (Int × Int)) (s : Int × Int) (b2 : inSiteBounds R C s.1 s.2 = true) :
    occF (dom R C) (fl R C) l (fl R C s) = occ l s := by
  unfold occF occ
  apply xorSum_congr
  intro xy _
  by_cases he : xy = s
  · subst he; simp [dom, b2]
  · by_cases b1 : dom R C xy = true
    · have : ¬ (fl R C xy = fl R C s) := fun h => he (fl_inj R C s xy b2 b1 h)
      simp [this, he]
    · simp [b1, he]

theorem sites_length (R C : Int) (op : P1) (v : BVec) (l : List (Int × Int)) :
    (sites R C op v l).length = v.length := gsites_length _ _ _ op v l

theorem siteop_length (R C : Int) (z : Bool) (l : List (Int × Int)) :
    (sites R C (opOf z) (identity R C) l).length = 2 * nq R C := by
  rw [sites_length, identity_length]

/-- `bsp` of two site operators of the same type vanishes -/
theorem bsp_sites_same (R C : Int) (z : Bool) (l1 l2 : List (Int × Int)) :
    bsp (sites R C (opOf z) (identity R C) l1) (sites R C (opOf z) (identity R C) l2) = false :=
  bsp_gsites_same (nq R C) (dom R C) (fl R C) z l1 l2 (flatLt_all R C l1) (flatLt_all R C l2)

/-- `bsp` of an X-type and a Z-type site operator (either order): parity of the number of pairs of equal
    in-bounds sites -/
theorem bsp_sites_diff' (R C : Int) (z z' : Bool) (hz : z' = !z) (l1 l2 : List (Int × Int)) :
    bsp (sites R C (opOf z) (identity R C) l1) (sites R C (opOf z') (identity R C) l2) =
      xorSum l2 (fun xy => inSiteBounds R C xy.1 xy.2 && occ l1 xy) := by
  have := bsp_gsites_diff' (nq R C) (dom R C) (fl R C) z z' hz l1 l2 (flatLt_all R C l1) (flatLt_all R C l2)
  rw [sites_eq_gsites, sites_eq_gsites, identity_eq, this]
  apply xorSum_congr
  intro xy _
  by_cases hb : inSiteBounds R C xy.1 xy.2 = true
  · rw [occF_eq_occ R C l1 xy hb]; rfl
  · simp [dom, hb]

theorem bsp_sites_diff (R C : Int) (z : Bool) (l1 l2 : List (Int × Int)) :
    bsp (sites R C (opOf z) (identity R C) l1) (sites R C (opOf (!z)) (identity R C) l2) =
      xorSum l2 (fun xy => inSiteBounds R C xy.1 xy.2 && occ l1 xy) :=
  bsp_sites_diff' R C z (!z) rfl l1 l2

theorem bsp_flip (R C : Int) (z z' : Bool) (l l' : List (Int × Int)) :
    bsp (sites R C (opOf z) (identity R C) l) (sites R C (opOf z') (identity R C) l') =
      bsp (sites R C (opOf z') (identity R C) l') (sites R C (opOf z) (identity R C) l) :=
  bsp_comm _ _ (by rw [siteop_length, siteop_length]) (by rw [siteop_length]; omega)

/-! ### C. overlap parities -/

/-- sites `(0,M), (1,M), …, (k−1,M)` of row `M` -/
def rowRun (k : Nat) (M : Int) : List (Int × Int) := (List.range k).map fun (i : Nat) => ((i : Int), M)
/-- sites `(M,0), (M,1), …, (M,k−1)` of column `M` -/
def colRun (k : Nat) (M : Int) : List (Int × Int) := (List.range k).map fun (j : Nat) => (M, (j : Int))

theorem occ_rowRun (k : Nat) (M x y : Int) :
    occ (rowRun k M) (x, y) = decide (y = M ∧ 0 ≤ x ∧ x < k) := by
  induction k with
  | zero =>
    simp only [rowRun, List.range_zero, List.map_nil, occ, xorSum_nil]
    symm; apply decide_eq_false; omega
  | succ k ih =>
    unfold occ rowRun at ih ⊢
    rw [List.range_succ, List.map_append, xorSum_append, ih]
    simp only [List.map_cons, List.map_nil, xorSum_cons, xorSum_nil, Bool.xor_false, Prod.mk.injEq]
    rw [xor_decide]
    apply decide_eq_decide.mpr; omega

theorem occ_colRun (k : Nat) (M x y : Int) :
    occ (colRun k M) (x, y) = decide (x = M ∧ 0 ≤ y ∧ y < k) := by
  induction k with
  | zero =>
    simp only [colRun, List.range_zero, List.map_nil, occ, xorSum_nil]
    symm; apply decide_eq_false; omega
  | succ k ih =>
    unfold occ colRun at ih ⊢
    rw [List.range_succ, List.map_append, xorSum_append, ih]
    simp only [List.map_cons, List.map_nil, xorSum_cons, xorSum_nil, Bool.xor_false, Prod.mk.injEq]
    rw [xor_decide]
    apply decide_eq_decide.mpr; omega

theorem occ_plaq (px py x y : Int) :
    occ (plaquetteSites px py) (x, y) = decide ((x = px ∨ x = px + 1) ∧ (y = py ∨ y = py + 1)) := by
  simp only [occ, plaquetteSites, xorSum_cons, xorSum_nil, Bool.xor_false, Prod.mk.injEq]
  simp only [xor_decide]
  apply decide_eq_decide.mpr; omega

theorem xorSum_plaq (px py : Int) (f : Int × Int → Bool) :
    xorSum (plaquetteSites px py) f =
      (f (px, py) ^^ (f (px, py + 1) ^^ (f (px + 1, py + 1) ^^ f (px + 1, py)))) := by
  simp [plaquetteSites]

/-- a Z-plaquette and an X-plaquette of the lattice share an even number of in-lattice sites -/
theorem ov_plaq_plaq (R C : Int) (p q : Int × Int) (hp : PlaqIn R C p) (hq : PlaqIn R C q)
    (hpq : (p.1 - p.2) % 2 ≠ (q.1 - q.2) % 2) :
    xorSum (plaquetteSites q.1 q.2)
      (fun xy => inSiteBounds R C xy.1 xy.2 && occ (plaquetteSites p.1 p.2) xy) = false := by
  obtain ⟨px, py⟩ := p
  obtain ⟨qx, qy⟩ := q
  unfold PlaqIn at hp hq
  simp only at hp hq hpq
  rw [xorSum_plaq]
  simp only [occ_plaq, inSiteBounds_eq_decide, ← Bool.decide_and]
  have t1 : decide ((0 ≤ qx ∧ qx ≤ C - 1 ∧ 0 ≤ qy ∧ qy ≤ R - 1) ∧
      (qx = px ∨ qx = px + 1) ∧ (qy = py ∨ qy = py + 1)) =
      decide ((qx = px ∧ qy = py + 1) ∨ (qx = px + 1 ∧ qy = py)) := by
    apply decide_eq_decide.mpr; omega
  have t2 : decide ((0 ≤ qx ∧ qx ≤ C - 1 ∧ 0 ≤ qy + 1 ∧ qy + 1 ≤ R - 1) ∧
      (qx = px ∨ qx = px + 1) ∧ (qy + 1 = py ∨ qy + 1 = py + 1)) =
      decide ((qx = px ∧ qy + 1 = py) ∨ (qx = px + 1 ∧ qy = py)) := by
    apply decide_eq_decide.mpr; omega
  have t3 : decide ((0 ≤ qx + 1 ∧ qx + 1 ≤ C - 1 ∧ 0 ≤ qy + 1 ∧ qy + 1 ≤ R - 1) ∧
      (qx + 1 = px ∨ qx + 1 = px + 1) ∧ (qy + 1 = py ∨ qy + 1 = py + 1)) =
      decide ((qx + 1 = px ∧ qy = py) ∨ (qx = px ∧ qy + 1 = py)) := by
    apply decide_eq_decide.mpr; omega
  have t4 : decide ((0 ≤ qx + 1 ∧ qx + 1 ≤ C - 1 ∧ 0 ≤ qy ∧ qy ≤ R - 1) ∧
      (qx + 1 = px ∨ qx + 1 = px + 1) ∧ (qy = py ∨ qy = py + 1)) =
      decide ((qx + 1 = px ∧ qy = py) ∨ (qx = px ∧ qy = py + 1)) := by
    apply decide_eq_decide.mpr; omega
  rw [t1, t2, t3, t4]
  simp only [xor_decide]
  apply decide_eq_false; omega

/-- a horizontal run `(0..k−1, M)` from the left boundary meets a Z-plaquette `p` in an odd number of in-lattice
    sites iff the run ends at the west edge of `p` in one of `p`'s two rows -/
theorem ov_rowRun_Z (R C : Int) (p : Int × Int) (hp : PlaqIn R C p) (hz : (p.1 - p.2) % 2 = 0) (k : Nat) (M : Int)
    (hM : 0 ≤ M ∧ M ≤ R - 1) :
    xorSum (plaquetteSites p.1 p.2) (fun xy => inSiteBounds R C xy.1 xy.2 && occ (rowRun k M) xy) =
      decide ((p.2 = M ∨ p.2 + 1 = M) ∧ (k : Int) = p.1 + 1) := by
  obtain ⟨px, py⟩ := p
  unfold PlaqIn at hp
  simp only at hp hz
  rw [xorSum_plaq]
  simp only [occ_rowRun, inSiteBounds_eq_decide, ← Bool.decide_and]
  have t1 : decide ((0 ≤ px ∧ px ≤ C - 1 ∧ 0 ≤ py ∧ py ≤ R - 1) ∧ py = M ∧ 0 ≤ px ∧ px < (k : Int)) =
      decide (py = M ∧ px < (k : Int)) := by
    apply decide_eq_decide.mpr; omega
  have t2 : decide ((0 ≤ px ∧ px ≤ C - 1 ∧ 0 ≤ py + 1 ∧ py + 1 ≤ R - 1) ∧ py + 1 = M ∧ 0 ≤ px ∧ px < (k : Int)) =
      decide (py + 1 = M ∧ px < (k : Int)) := by
    apply decide_eq_decide.mpr; omega
  have t3 : decide ((0 ≤ px + 1 ∧ px + 1 ≤ C - 1 ∧ 0 ≤ py + 1 ∧ py + 1 ≤ R - 1) ∧
      py + 1 = M ∧ 0 ≤ px + 1 ∧ px + 1 < (k : Int)) = decide (py + 1 = M ∧ px + 1 < (k : Int)) := by
    apply decide_eq_decide.mpr; omega
  have t4 : decide ((0 ≤ px + 1 ∧ px + 1 ≤ C - 1 ∧ 0 ≤ py ∧ py ≤ R - 1) ∧ py = M ∧ 0 ≤ px + 1 ∧ px + 1 < (k : Int)) =
      decide (py = M ∧ px + 1 < (k : Int)) := by
    apply decide_eq_decide.mpr; omega
  rw [t1, t2, t3, t4]
  simp only [xor_decide]
  apply decide_eq_decide.mpr; omega

/-- a vertical run `(M, 0..k−1)` from the bottom boundary meets an X-plaquette `p` in an odd number of in-lattice
    sites iff the run ends at the south edge of `p` in one of `p`'s two columns -/
theorem ov_colRun_X (R C : Int) (p : Int × Int) (hp : PlaqIn R C p) (hx : (p.1 - p.2) % 2 = 1) (k : Nat) (M : Int)
    (hM : 0 ≤ M ∧ M ≤ C - 1) :
    xorSum (plaquetteSites p.1 p.2) (fun xy => inSiteBounds R C xy.1 xy.2 && occ (colRun k M) xy) =
      decide ((p.1 = M ∨ p.1 + 1 = M) ∧ (k : Int) = p.2 + 1) := by
  obtain ⟨px, py⟩ := p
  unfold PlaqIn at hp
  simp only at hp hx
  rw [xorSum_plaq]
  simp only [occ_colRun, inSiteBounds_eq_decide, ← Bool.decide_and]
  have t1 : decide ((0 ≤ px ∧ px ≤ C - 1 ∧ 0 ≤ py ∧ py ≤ R - 1) ∧ px = M ∧ 0 ≤ py ∧ py < (k : Int)) =
      decide (px = M ∧ py < (k : Int)) := by
    apply decide_eq_decide.mpr; omega
  have t2 : decide ((0 ≤ px ∧ px ≤ C - 1 ∧ 0 ≤ py + 1 ∧ py + 1 ≤ R - 1) ∧ px = M ∧ 0 ≤ py + 1 ∧ py + 1 < (k : Int)) =
      decide (px = M ∧ py + 1 < (k : Int)) := by
    apply decide_eq_decide.mpr; omega
  have t3 : decide ((0 ≤ px + 1 ∧ px + 1 ≤ C - 1 ∧ 0 ≤ py + 1 ∧ py + 1 ≤ R - 1) ∧
      px + 1 = M ∧ 0 ≤ py + 1 ∧ py + 1 < (k : Int)) = decide (px + 1 = M ∧ py + 1 < (k : Int)) := by
    apply decide_eq_decide.mpr; omega
  have t4 : decide ((0 ≤ px + 1 ∧ px + 1 ≤ C - 1 ∧ 0 ≤ py ∧ py ≤ R - 1) ∧ px + 1 = M ∧ 0 ≤ py ∧ py < (k : Int)) =
      decide (px + 1 = M ∧ py < (k : Int)) := by
    apply decide_eq_decide.mpr; omega
  rw [t1, t2, t3, t4]
  simp only [xor_decide]
  apply decide_eq_decide.mpr; omega

/-- the row of logical X and the column of logical Z share exactly the corner site `(C−1, 0)` -/
theorem ov_row_col (R C : Int) (hR : 3 ≤ R) (hC : 3 ≤ C) :
    xorSum (colRun R.toNat (C - 1))
      (fun xy => inSiteBounds R C xy.1 xy.2 && occ (rowRun C.toNat 0) xy) = true := by
  unfold colRun
  rw [xorSum_map]
  have : ∀ j ∈ List.range R.toNat,
      (inSiteBounds R C (C - 1) (j : Int) && occ (rowRun C.toNat 0) (C - 1, (j : Int))) = decide (j = 0) := by
    intro j hj
    have hj' := List.mem_range.mp hj
    rw [occ_rowRun, inSiteBounds_eq_decide, ← Bool.decide_and]
    apply decide_eq_decide.mpr; omega
  rw [xorSum_congr _ _ _ this, xorSum_range_eq]
  apply decide_eq_true; omega

/-! ### D. the plaquette index list -/

/-- all indices scanned by `_plaquette_indices`: `y` outer, `x` inner, both from −1 to max + 1 -/
def allIdx (R C : Int) : List (Int × Int) :=
  (List.range (maxSiteY R + 3).toNat).flatMap fun (j : Nat) =>
    (List.range (maxSiteX C + 3).toNat).map fun (i : Nat) => ((i : Int) - 1, (j : Int) - 1)

theorem plaquetteIndices_eq (R C : Int) :
    plaquetteIndices R C =
      ((allIdx R C).filter fun xy => inPlaquetteBounds R C xy.1 xy.2).filter (fun xy => isZPlaquette xy.1 xy.2) ++
      ((allIdx R C).filter fun xy => inPlaquetteBounds R C xy.1 xy.2).filter (fun xy => !isZPlaquette xy.1 xy.2) :=
  rfl

theorem mem_allIdx (R C : Int) (p : Int × Int) :
    p ∈ allIdx R C ↔ -1 ≤ p.1 ∧ p.1 ≤ C ∧ -1 ≤ p.2 ∧ p.2 ≤ R := by
  simp only [allIdx, List.mem_flatMap, List.mem_map, List.mem_range, maxSiteX, maxSiteY]
  constructor
  · rintro ⟨r, hr, c, hc, rfl⟩
    simp only; omega
  · intro h
    refine ⟨(p.2 + 1).toNat, by omega, (p.1 + 1).toNat, by omega, ?_⟩
    apply Prod.ext <;> simp only <;> omega

theorem allIdx_nodup (R C : Int) : (allIdx R C).Nodup := by
  unfold allIdx
  rw [List.nodup_flatMap]
  constructor
  · intro r _
    apply List.Nodup.map
    · intro a b h; simp only [Prod.mk.injEq] at h; omega
    · exact List.nodup_range
  · apply List.Pairwise.imp _ List.nodup_range
    intro a b hab
    simp only [Function.onFun, List.disjoint_left, List.mem_map]
    rintro x ⟨c, _, rfl⟩ ⟨c', _, h⟩
    simp only [Prod.mk.injEq] at h
    omega

theorem mem_plaquetteIndices (R C : Int) (p : Int × Int) : p ∈ plaquetteIndices R C ↔ PlaqIn R C p := by
  rw [plaquetteIndices_eq]
  simp only [List.mem_append, List.mem_filter, mem_allIdx, inPlaquetteBounds_iff]
  constructor
  · rintro (h | h) <;> exact h.1.2
  · intro h
    have hb : -1 ≤ p.1 ∧ p.1 ≤ C ∧ -1 ≤ p.2 ∧ p.2 ≤ R := by unfold PlaqIn at h; omega
    by_cases hp : isZPlaquette p.1 p.2 = true
    · left; exact ⟨⟨hb, h⟩, hp⟩
    · right; exact ⟨⟨hb, h⟩, by simpa using hp⟩

theorem plaquetteIndices_nodup (R C : Int) : (plaquetteIndices R C).Nodup := by
  rw [plaquetteIndices_eq]
  apply List.Nodup.append
  · exact ((allIdx_nodup R C).filter _).filter _
  · exact ((allIdx_nodup R C).filter _).filter _
  · intro x h1 h2
    simp only [List.mem_filter] at h1 h2
    simp [h1.2] at h2

/-! ### E. stabilizers, logicals and destabilisers as site operators -/

/-- the stabilizer generator of plaquette `p` -/
def stabOp (R C : Int) (p : Int × Int) : BVec :=
  sites R C (opOf (isZPlaquette p.1 p.2)) (identity R C) (plaquetteSites p.1 p.2)

theorem plaquette_eq_stabOp (R C : Int) (p : Int × Int) (hp : PlaqIn R C p) :
    plaquette R C (identity R C) p.1 p.2 = stabOp R C p := by
  unfold plaquette stabOp
  rw [if_pos ((inPlaquetteBounds_iff R C p.1 p.2).mpr hp)]
  rfl

theorem stabilizers_eq_map (R C : Int) : stabilizers R C = (plaquetteIndices R C).map (stabOp R C) := by
  unfold stabilizers
  apply List.map_congr_left
  intro p hp
  exact plaquette_eq_stabOp R C p ((mem_plaquetteIndices R C p).mp hp)

theorem logicalX_eq (R C : Int) :
    logicalX R C = sites R C (opOf false) (identity R C) (rowRun C.toNat 0) := by
  unfold logicalX logicalXSites rowRun
  rw [show maxSiteX C + 1 = C by unfold maxSiteX; omega]
  rfl

theorem logicalZ_eq (R C : Int) :
    logicalZ R C = sites R C (opOf true) (identity R C) (colRun R.toNat (C - 1)) := by
  unfold logicalZ logicalZSites colRun
  rw [show maxSiteY R + 1 = R by unfold maxSiteY; omega]
  rfl

/-- destabiliser run of a plaquette, exactly the run of the MPS decoders' `sample_recovery`:
    Z-plaquette `(x, y)` — the sites `(0..x, max(0, y))` up to the left boundary;
    X-plaquette `(x, y)` — the sites `(max(0, x), 0..y)` down to the bottom boundary -/
def destabSites (p : Int × Int) : List (Int × Int) :=
  if (p.1 - p.2) % 2 = 0 then rowRun (p.1 + 1).toNat (max 0 p.2) else colRun (p.2 + 1).toNat (max 0 p.1)

/-- destabiliser of plaquette `p`: X-type on the run for Z-plaquettes, Z-type for X-plaquettes -/
def destabOp (R C : Int) (p : Int × Int) : BVec :=
  sites R C (opOf (!isZPlaquette p.1 p.2)) (identity R C) (destabSites p)

theorem stabOp_length (R C : Int) (p : Int × Int) : (stabOp R C p).length = 2 * nq R C := siteop_length _ _ _ _
theorem destabOp_length (R C : Int) (p : Int × Int) : (destabOp R C p).length = 2 * nq R C := siteop_length _ _ _ _

/-- `destabOp` is the run operator of the decoder model (`Model/Decoders.lean`) -/
theorem rpRunApply_eq_destabOp (R C : Int) (p : Int × Int) :
    Qec.Dec.rpRunApply R C (identity R C) p = destabOp R C p := by
  unfold Qec.Dec.rpRunApply Qec.Dec.rpRun destabOp destabSites
  by_cases h : isZPlaquette p.1 p.2 = true
  · have h' := (isZPlaquette_iff _ _).mp h
    rw [if_pos h, if_pos h', h]; rfl
  · have h' : ¬ (p.1 - p.2) % 2 = 0 := fun e => h ((isZPlaquette_iff _ _).mpr e)
    have h'' : isZPlaquette p.1 p.2 = false := by simpa using h
    rw [if_neg h, if_neg h', h'']; rfl

/-- two stabilizer generators commute -/
theorem bsp_stab_stab (R C : Int) (p q : Int × Int) (hp : PlaqIn R C p) (hq : PlaqIn R C q) :
    bsp (stabOp R C p) (stabOp R C q) = false := by
  unfold stabOp
  rw [isZPlaquette_eq_decide, isZPlaquette_eq_decide]
  by_cases h : (p.1 - p.2) % 2 = (q.1 - q.2) % 2
  · have : decide ((q.1 - q.2) % 2 = 0) = decide ((p.1 - p.2) % 2 = 0) := by apply decide_eq_decide.mpr; omega
    rw [this]
    exact bsp_sites_same R C _ _ _
  · have : decide ((q.1 - q.2) % 2 = 0) = !decide ((p.1 - p.2) % 2 = 0) := by
      rw [← decide_not]; apply decide_eq_decide.mpr; omega
    rw [this, bsp_sites_diff R C _ _ _]
    exact ov_plaq_plaq R C p q hp hq h

/-- the destabiliser of `q` anticommutes with the generator of `p` iff `p = q` -/
theorem bsp_stab_destab (R C : Int) (hR : 3 ≤ R) (hC : 3 ≤ C) (p q : Int × Int) (hp : PlaqIn R C p) (hq : PlaqIn R C q) :
    bsp (stabOp R C p) (destabOp R C q) = decide (p = q) := by
  unfold stabOp destabOp
  rw [isZPlaquette_eq_decide, isZPlaquette_eq_decide]
  by_cases h : (p.1 - p.2) % 2 = (q.1 - q.2) % 2
  · have e : decide ((q.1 - q.2) % 2 = 0) = decide ((p.1 - p.2) % 2 = 0) := by apply decide_eq_decide.mpr; omega
    rw [bsp_flip, e, bsp_sites_diff' R C _ _ (Bool.not_not _).symm _ _]
    by_cases hp1 : (p.1 - p.2) % 2 = 0
    · have : destabSites q = rowRun (q.1 + 1).toNat (max 0 q.2) := by unfold destabSites; rw [if_pos (by omega)]
      unfold PlaqIn at hq
      rw [this, ov_rowRun_Z R C p hp hp1 _ _ (by omega)]
      unfold PlaqIn at hp
      apply decide_eq_decide.mpr
      constructor
      · intro h; apply Prod.ext <;> omega
      · rintro rfl; omega
    · have : destabSites q = colRun (q.2 + 1).toNat (max 0 q.1) := by unfold destabSites; rw [if_neg (by omega)]
      unfold PlaqIn at hq
      rw [this, ov_colRun_X R C p hp (by omega) _ _ (by omega)]
      unfold PlaqIn at hp
      apply decide_eq_decide.mpr
      constructor
      · intro h; apply Prod.ext <;> omega
      · rintro rfl; omega
  · have e : (!decide ((q.1 - q.2) % 2 = 0)) = decide ((p.1 - p.2) % 2 = 0) := by
      rw [← decide_not]; apply decide_eq_decide.mpr; omega
    rw [e, bsp_sites_same R C _ _ _]
    symm; apply decide_eq_false
    rintro rfl; exact h rfl

theorem bsp_stab_logicalX (R C : Int) (hR : 3 ≤ R) (hC : 3 ≤ C) (p : Int × Int) (hp : PlaqIn R C p) :
    bsp (stabOp R C p) (logicalX R C) = false := by
  rw [logicalX_eq]
  unfold stabOp
  rw [isZPlaquette_eq_decide]
  by_cases hp1 : (p.1 - p.2) % 2 = 0
  · rw [bsp_flip, show decide ((p.1 - p.2) % 2 = 0) = !false by simp [hp1], bsp_sites_diff R C _ _ _,
      ov_rowRun_Z R C p hp hp1 _ _ (by omega)]
    unfold PlaqIn at hp
    apply decide_eq_false; omega
  · rw [show decide ((p.1 - p.2) % 2 = 0) = false by simp [hp1]]
    exact bsp_sites_same R C _ _ _

theorem bsp_stab_logicalZ (R C : Int) (hR : 3 ≤ R) (hC : 3 ≤ C) (p : Int × Int) (hp : PlaqIn R C p) :
    bsp (stabOp R C p) (logicalZ R C) = false := by
  rw [logicalZ_eq]
  unfold stabOp
  rw [isZPlaquette_eq_decide]
  by_cases hp1 : (p.1 - p.2) % 2 = 0
  · rw [show decide ((p.1 - p.2) % 2 = 0) = true by simp [hp1]]
    exact bsp_sites_same R C _ _ _
  · rw [bsp_flip, show decide ((p.1 - p.2) % 2 = 0) = !true by simp [hp1], bsp_sites_diff R C _ _ _,
      ov_colRun_X R C p hp (by omega) _ _ (by omega)]
    unfold PlaqIn at hp
    apply decide_eq_false; omega

theorem bsp_logicalX_logicalZ (R C : Int) (hR : 3 ≤ R) (hC : 3 ≤ C) : bsp (logicalX R C) (logicalZ R C) = true := by
  rw [logicalX_eq, logicalZ_eq, show true = !false from rfl, bsp_sites_diff R C _ _ _]
  exact ov_row_col R C hR hC

theorem bsp_logicalX_logicalX (R C : Int) : bsp (logicalX R C) (logicalX R C) = false := by
  rw [logicalX_eq]
  exact bsp_sites_same R C _ _ _

theorem bsp_logicalZ_logicalZ (R C : Int) : bsp (logicalZ R C) (logicalZ R C) = false := by
  rw [logicalZ_eq]
  exact bsp_sites_same R C _ _ _

/-- **run-to-boundary lemma** (what `Qec.Dec.RotatedPlanarL.Spec.run_syndrome` asks for): the run of
    `sample_recovery` from plaquette `p` to the left (Z-plaquette) / bottom (X-plaquette) boundary has the
    syndrome that is set exactly at `p` -/
theorem sample_run_syndrome (R C : Int) (hR : 3 ≤ R) (hC : 3 ≤ C) (p : Int × Int) (hp : p ∈ plaquetteIndices R C) :
    synd (stabilizers R C) (Qec.Dec.rpRunApply R C (identity R C) p) =
      (plaquetteIndices R C).map fun q => decide (q = p) := by
  rw [rpRunApply_eq_destabOp, stabilizers_eq_map]
  unfold synd
  rw [List.map_map]
  apply List.map_congr_left
  intro q hq
  simp only [Function.comp]
  rw [bsp_comm _ _ (by rw [destabOp_length, stabOp_length]) (by rw [destabOp_length]; omega)]
  exact bsp_stab_destab R C hR hC q p ((mem_plaquetteIndices R C q).mp hq) ((mem_plaquetteIndices R C p).mp hp)

/-! ### F. counting: the two checkerboards of plaquettes -/

/-- an `a × b` grid of naturals in row-major order -/
def grid (a b : Nat) : List (Nat × Nat) :=
  (List.range b).flatMap fun (j : Nat) => (List.range a).map fun (i : Nat) => (i, j)

theorem mem_grid (a b : Nat) (p : Nat × Nat) : p ∈ grid a b ↔ p.1 < a ∧ p.2 < b := by
  simp only [grid, List.mem_flatMap, List.mem_map, List.mem_range]
  constructor
  · rintro ⟨j, hj, i, hi, rfl⟩; exact ⟨hi, hj⟩
  · intro h; exact ⟨p.2, h.2, p.1, h.1, rfl⟩

theorem grid_nodup (a b : Nat) : (grid a b).Nodup := by
  unfold grid
  rw [List.nodup_flatMap]
  constructor
  · intro r _
    apply List.Nodup.map
    · intro x y h; simp only [Prod.mk.injEq] at h; omega
    · exact List.nodup_range
  · apply List.Pairwise.imp _ List.nodup_range
    intro x y hxy
    simp only [Function.onFun, List.disjoint_left, List.mem_map]
    rintro z ⟨c, _, rfl⟩ ⟨c', _, h⟩
    simp only [Prod.mk.injEq] at h
    omega

/-- cells of one colour in a row -/
theorem cnt_row (a s : Nat) :
    List.countP (fun i : Nat => decide ((i + s) % 2 = 0)) (List.range a) = (a + 1 - s % 2) / 2 := by
  induction a with
  | zero => simp; omega
  | succ a ih =>
    rw [List.range_succ, List.countP_append, ih]
    simp only [List.countP_cons, List.countP_nil, Nat.zero_add]
    by_cases h : (a + s) % 2 = 0
    · simp only [h, decide_true, if_true]; omega
    · simp only [h, decide_false, Bool.false_eq_true, if_false]; omega

theorem mul_parity (a b : Nat) :
    (a % 2 = 0 → (a * b) % 2 = 0) ∧ (b % 2 = 0 → (a * b) % 2 = 0) ∧ (a % 2 = 1 → b % 2 = 1 → (a * b) % 2 = 1) := by
  rw [Nat.mul_mod]
  rcases Nat.mod_two_eq_zero_or_one a with ha | ha <;> rcases Nat.mod_two_eq_zero_or_one b with hb | hb <;>
    simp [ha, hb]

/-- cells of one colour in an `a × b` checkerboard: `⌈ab/2⌉` for the colour of the corner cell, else `⌊ab/2⌋` -/
theorem cnt_grid (a b s : Nat) :
    List.countP (fun p : Nat × Nat => decide ((p.1 + p.2 + s) % 2 = 0)) (grid a b) = (a * b + 1 - s % 2) / 2 := by
  unfold grid
  rw [List.countP_flatMap]
  have row : ∀ j : Nat, (List.countP (fun p : Nat × Nat => decide ((p.1 + p.2 + s) % 2 = 0)) ∘
      fun (j : Nat) => (List.range a).map fun (i : Nat) => (i, j)) j = (a + 1 - (j + s) % 2) / 2 := by
    intro j
    simp only [Function.comp, List.countP_map]
    rw [← cnt_row]
    apply List.countP_congr
    intro i _
    simp only [Function.comp, Nat.add_assoc]
  rw [List.map_congr_left (fun j _ => row j)]
  induction b with
  | zero => simp; omega
  | succ b ih =>
    rw [List.range_succ, List.map_append, List.sum_append, ih]
    simp only [List.map_cons, List.map_nil, List.sum_cons, List.sum_nil, Nat.add_zero]
    have hp := mul_parity a b
    rw [Nat.mul_succ]
    omega

/-- the Z-plaquettes: the cells `(i, j − 1)` of the `(C−1) × (R+1)` grid with `i − (j − 1)` even -/
def zList (R C : Int) : List (Int × Int) :=
  ((grid (C - 1).toNat (R + 1).toNat).filter fun p => decide ((p.1 + p.2 + 1) % 2 = 0)).map
    fun p => ((p.1 : Int), (p.2 : Int) - 1)

/-- the X-plaquettes: the cells `(i − 1, j)` of the `(C+1) × (R−1)` grid with `(i − 1) − j` odd -/
def xList (R C : Int) : List (Int × Int) :=
  ((grid (C + 1).toNat (R - 1).toNat).filter fun p => decide ((p.1 + p.2 + 0) % 2 = 0)).map
    fun p => ((p.1 : Int) - 1, (p.2 : Int))

theorem mem_zList (R C : Int) (q : Int × Int) :
    q ∈ zList R C ↔ ((q.1 - q.2) % 2 = 0 ∧ 0 ≤ q.1 ∧ q.1 ≤ C - 2 ∧ -1 ≤ q.2 ∧ q.2 ≤ R - 1) := by
  simp only [zList, List.mem_map, List.mem_filter, mem_grid, decide_eq_true_eq]
  constructor
  · rintro ⟨p, ⟨⟨h1, h2⟩, h3⟩, rfl⟩
    simp only; omega
  · intro h
    refine ⟨(q.1.toNat, (q.2 + 1).toNat), ⟨⟨by simp only; omega, by simp only; omega⟩, by simp only; omega⟩, ?_⟩
    apply Prod.ext <;> simp only <;> omega

theorem mem_xList (R C : Int) (q : Int × Int) :
    q ∈ xList R C ↔ ((q.1 - q.2) % 2 = 1 ∧ -1 ≤ q.1 ∧ q.1 ≤ C - 1 ∧ 0 ≤ q.2 ∧ q.2 ≤ R - 2) := by
  simp only [xList, List.mem_map, List.mem_filter, mem_grid, decide_eq_true_eq]
  constructor
  · rintro ⟨p, ⟨⟨h1, h2⟩, h3⟩, rfl⟩
    simp only; omega
  · intro h
    refine ⟨((q.1 + 1).toNat, q.2.toNat), ⟨⟨by simp only; omega, by simp only; omega⟩, by simp only; omega⟩, ?_⟩
    apply Prod.ext <;> simp only <;> omega

theorem zxList_nodup (R C : Int) : (zList R C ++ xList R C).Nodup := by
  apply List.Nodup.append
  · unfold zList
    apply List.Nodup.map
    · intro x y h; simp only [Prod.mk.injEq] at h; apply Prod.ext <;> omega
    · exact (grid_nodup _ _).filter _
  · unfold xList
    apply List.Nodup.map
    · intro x y h; simp only [Prod.mk.injEq] at h; apply Prod.ext <;> omega
    · exact (grid_nodup _ _).filter _
  · intro q h1 h2
    rw [mem_zList] at h1
    rw [mem_xList] at h2
    omega

theorem plaquetteIndices_perm (R C : Int) : (plaquetteIndices R C).Perm (zList R C ++ xList R C) := by
  rw [List.perm_ext_iff_of_nodup (plaquetteIndices_nodup R C) (zxList_nodup R C)]
  intro q
  rw [mem_plaquetteIndices, List.mem_append, mem_zList, mem_xList]
  rfl

/-- the lattice has `R·C − 1` plaquettes -/
theorem plaquetteIndices_length (R C : Int) (hR : 3 ≤ R) (hC : 3 ≤ C) :
    ((plaquetteIndices R C).length : Int) = nQubits R C - 1 := by
  obtain ⟨r, rfl⟩ : ∃ r : Nat, R = (r : Int) + 1 := ⟨(R - 1).toNat, by omega⟩
  obtain ⟨c, rfl⟩ : ∃ c : Nat, C = (c : Int) + 1 := ⟨(C - 1).toNat, by omega⟩
  have hlen : (plaquetteIndices ((r : Int) + 1) ((c : Int) + 1)).length = r * c + r + c := by
    rw [(plaquetteIndices_perm _ _).length_eq, List.length_append]
    unfold zList xList
    rw [List.length_map, List.length_map, ← List.countP_eq_length_filter, ← List.countP_eq_length_filter,
      cnt_grid, cnt_grid]
    have e1 : ((c : Int) + 1 - 1).toNat = c := by omega
    have e2 : ((r : Int) + 1 + 1).toNat = r + 2 := by omega
    have e3 : ((c : Int) + 1 + 1).toNat = c + 2 := by omega
    have e4 : ((r : Int) + 1 - 1).toNat = r := by omega
    rw [e1, e2, e3, e4, Nat.mul_add, Nat.add_mul, Nat.mul_comm c r]
    omega
  rw [hlen]
  unfold nQubits
  push_cast
  ring

/-! ### G. read-back of the operator at a site -/

/-- `operator(index)` of the real Pauli class for an in-bounds site (the model file has no read-back function;
    this is the specification used by `site_plaquette_agree`): `'IXZY'[xs[f] + 2·zs[f]]` at `f = flatten index` -/
def operatorAt (R C : Int) (v : BVec) (x y : Int) : P1 :=
  let f := (flatten R C x y).toNat
  P1.ofBits (v.getD f false) (v.getD ((nQubits R C).toNat + f) false)

theorem operatorAt_eq (R C : Int) (v : BVec) (s : Int × Int) :
    operatorAt R C v s.1 s.2 = P1.ofBits (v.getD (fl R C s) false) (v.getD (nq R C + fl R C s) false) := rfl

theorem getD_identity (R C : Int) (j : Nat) : (identity R C).getD j false = false := getD_zeros _ _

theorem fl_eq_iff (R C : Int) (xy s : Int × Int) (b1 : inSiteBounds R C xy.1 xy.2 = true)
    (b2 : inSiteBounds R C s.1 s.2 = true) : fl R C xy = fl R C s ↔ xy = s :=
  ⟨fun h => fl_inj R C s xy b2 b1 h, fun h => by rw [h]⟩

/-- bit of a site operator in its own half: parity of occurrences of the site in the list -/
theorem getD_siteop_same (R C : Int) (z : Bool) (l : List (Int × Int)) (s : Int × Int)
    (b2 : inSiteBounds R C s.1 s.2 = true) :
    (sites R C (opOf z) (identity R C) l).getD (off (nq R C) z + fl R C s) false = occ l s := by
  rw [sites_eq_gsites, identity_eq, getD_gsiteop_same (nq R C) (dom R C) (fl R C) z l (flatLt_all R C l),
    occF_eq_occ R C l s b2]

/-- bit of a site operator in the other half vanishes -/
theorem getD_siteop_other (R C : Int) (z : Bool) (l : List (Int × Int)) (s : Int × Int)
    (b2 : inSiteBounds R C s.1 s.2 = true) :
    (sites R C (opOf z) (identity R C) l).getD (off (nq R C) (!z) + fl R C s) false = false := by
  rw [sites_eq_gsites, identity_eq]
  exact getD_gsiteop_other (nq R C) (dom R C) (fl R C) z l (flatLt_all R C l) _ (fl_lt R C s b2)

/-- read-back of an X- or Z-type site operator at an in-bounds site -/
theorem operatorAt_siteop (R C : Int) (z : Bool) (l : List (Int × Int)) (s : Int × Int)
    (b2 : inSiteBounds R C s.1 s.2 = true) :
    operatorAt R C (sites R C (opOf z) (identity R C) l) s.1 s.2 = if occ l s then opOf z else P1.I := by
  rw [operatorAt_eq]
  have h1 := getD_siteop_same R C z l s b2
  have h0 := getD_siteop_other R C z l s b2
  cases z
  · simp only [off, Bool.false_eq_true, if_false, Nat.zero_add, Bool.not_false, if_true] at h1 h0
    rw [h1, h0]; cases occ l s <;> rfl
  · simp only [off, Bool.false_eq_true, if_false, Nat.zero_add, Bool.not_true, if_true] at h1 h0
    rw [h1, h0]; cases occ l s <;> rfl

/-- read-back of `site(op, xy)` applied to the identity, for every single-qubit operator -/
theorem operatorAt_site (R C : Int) (op : P1) (xy s : Int × Int)
    (b1 : inSiteBounds R C xy.1 xy.2 = true) (b2 : inSiteBounds R C s.1 s.2 = true) :
    operatorAt R C (site R C op (identity R C) xy) s.1 s.2 = if xy = s then op else P1.I := by
  rw [operatorAt_eq]
  have f := fl_lt R C xy b1
  have f' := fl_lt R C s b2
  have hl := identity_length R C
  have e := fl_eq_iff R C xy s b1 b2
  have key : site R C op (identity R C) xy = applyOp (nq R C) op (identity R C) (fl R C xy) := by
    simp only [site, b1, if_true]; rfl
  rw [key]
  have d1 : decide (fl R C xy = fl R C s) = decide (xy = s) := decide_eq_decide.mpr e
  have d2 : decide (nq R C + fl R C xy = nq R C + fl R C s) = decide (xy = s) := by
    apply decide_eq_decide.mpr; rw [← e]; omega
  have d3 : decide (fl R C xy = nq R C + fl R C s) = false := by apply decide_eq_false; omega
  have d4 : decide (nq R C + fl R C xy = fl R C s) = false := by apply decide_eq_false; omega
  cases op
  · simp only [applyOp, P1.xBit, P1.zBit, Bool.false_eq_true, if_false, getD_identity]
    split <;> rfl
  · simp only [applyOp, P1.xBit, P1.zBit, Bool.false_eq_true, if_false, if_true]
    rw [getD_toggle _ _ _ (by omega), getD_toggle _ _ _ (by omega), getD_identity, getD_identity, d1, d3]
    by_cases h : xy = s <;> simp [h, P1.ofBits]
  · simp only [applyOp, P1.xBit, P1.zBit, if_true]
    have ht : (toggle (identity R C) (fl R C xy)).length = 2 * nq R C := by rw [toggle_length]; exact hl
    rw [getD_toggle _ _ _ (by omega), getD_toggle _ _ _ (by omega),
      getD_toggle _ _ _ (by omega), getD_toggle _ _ _ (by omega), getD_identity, getD_identity, d1, d2, d3, d4]
    by_cases h : xy = s <;> simp [h, P1.ofBits]
  · simp only [applyOp, P1.xBit, P1.zBit, Bool.false_eq_true, if_false, if_true]
    rw [getD_toggle _ _ _ (by omega), getD_toggle _ _ _ (by omega), getD_identity, getD_identity, d2, d4]
    by_cases h : xy = s <;> simp [h, P1.ofBits]

end Qec.RotatedPlanarCode
