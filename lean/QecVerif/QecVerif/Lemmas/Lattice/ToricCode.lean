/-
  Helper lemmas for C07 (toric family): the toric code is a valid [[2RC, 2]] stabilizer code.
  Builds on the C15 library `Lemmas/Lattice/Toric.lean` (flat indices, `bsp_sites_sites`, incidence `inc`,
  run lemmas `xsum_vRun` / `xsum_hRun`, the path lemma `bsp_path_plaquette`, the index list) and on the generic
  layer `Lemmas/Symplectic.lean` (`ValidCode`, `independent_of_destab`, `inSpan_of_bits`).
-/
import QecVerif.Model.Lattice.Toric
import QecVerif.Lemmas.Symplectic
import QecVerif.Lemmas.Lattice.Toric
namespace Qec.ToricCode
open Qec Qec.Toric Qec.ToricLemmas

/-! ### A. XOR-sums -/

/-- the two XOR-sum definitions of the C15 library and of the symplectic layer coincide -/
theorem xsum_eq_xorSum {α : Type} (L : List α) (f : α → Bool) : xsum L f = Symp.xorSum L f := rfl

theorem xsum_flatMap {α β : Type} (L : List α) (g : α → List β) (f : β → Bool) :
    xsum (L.flatMap g) f = xsum L (fun a => xsum (g a) f) := by
  induction L with
  | nil => rfl
  | cons a L ih => rw [List.flatMap_cons, xsum_append, ih]; rfl

theorem xsum_filter {α : Type} (L : List α) (k : α → Bool) (f : α → Bool) :
    xsum (L.filter k) f = xsum L (fun a => k a && f a) := by
  induction L with
  | nil => rfl
  | cons a L ih =>
    rw [List.filter_cons]
    cases h : k a
    · simp only [Bool.false_eq_true, if_false, xsum_cons, h, Bool.false_and, Bool.false_xor]
      exact ih
    · simp only [if_true, xsum_cons, h, Bool.true_and, ih]

theorem xsum_not_and {α : Type} (L : List α) (k f : α → Bool) :
    xsum L (fun a => !k a && f a) = xor (xsum L f) (xsum L (fun a => k a && f a)) := by
  rw [← xsum_xor]
  apply xsum_congr
  intro a _
  cases k a <;> cases f a <;> rfl

theorem xsum_decide_and {α : Type} [DecidableEq α] (L : List α) (x : α) (g : α → Bool) (h : L.Nodup) :
    xsum L (fun a => decide (a = x) && g a) = (decide (x ∈ L) && g x) := by
  have : ∀ a ∈ L, (decide (a = x) && g a) = (decide (a = x) && g x) := by
    intro a _
    by_cases e : a = x
    · rw [e]
    · simp [e]
  rw [xsum_congr _ _ _ this, xsum_and_right, xsum_decide_eq_of_nodup L x h]

theorem xsum_all_false {α : Type} (L : List α) (f : α → Bool) (h : ∀ a ∈ L, f a = false) : xsum L f = false := by
  rw [xsum_congr L f (fun _ => false) h, xsum_false]

theorem xsum_range_int (k : Nat) (x : Int) :
    xsum (List.range k) (fun i : Nat => decide ((i : Int) = x)) = decide (0 ≤ x ∧ x < k) := by
  induction k with
  | zero =>
    simp only [List.range_zero, xsum_nil]
    symm; apply decide_eq_false; omega
  | succ k ih =>
    rw [List.range_succ, xsum_append, ih]
    simp only [xsum_cons, xsum_nil, Bool.xor_false]
    rw [Symp.xor_decide]
    apply decide_eq_decide.mpr; omega

/-- exactly one residue class representative in `[0, m)` is congruent to `x` -/
theorem xsum_range_emod (m : Int) (hm : 0 < m) (x : Int) :
    xsum (List.range m.toNat) (fun i : Nat => decide (x % m = (i : Int) % m)) = true := by
  have h0 := Int.emod_nonneg x (by omega : m ≠ 0)
  have h1 := Int.emod_lt_of_pos x hm
  rw [xsum_congr _ _ (fun i : Nat => decide ((i : Int) = x % m))]
  · rw [xsum_range_int]
    apply decide_eq_true; omega
  · intro i hi
    have hi' := List.mem_range.mp hi
    have e : (i : Int) % m = (i : Int) := Int.emod_eq_of_lt (by omega) (by omega)
    rw [e]
    apply decide_eq_decide.mpr
    omega

/-! ### B. flat indices: count and surjectivity -/

theorem nQubits_toNat (R C : Int) (hR : 0 ≤ R) (hC : 0 ≤ C) :
    (nQubits R C).toNat = 2 * (R.toNat * C.toNat) := by
  obtain ⟨a, rfl⟩ := Int.eq_ofNat_of_zero_le hR
  obtain ⟨b, rfl⟩ := Int.eq_ofNat_of_zero_le hC
  have : nQubits (a : Int) (b : Int) = ((2 * (a * b) : Nat) : Int) := by
    unfold nQubits; push_cast; rw [Int.mul_assoc]
  rw [this]
  simp only [Int.toNat_natCast]

theorem flatten_of_inLattice (R C : Int) (s : Idx) (h : InLattice R C s) :
    flatten R C s = s.1 * (R * C) + s.2.1 * C + s.2.2 := by
  simp only [flatten, norm_of_inLattice R C s h]

theorem flatten_surj (R C : Int) (hR : 0 < R) (hC : 0 < C) (i : Int) (h0 : 0 ≤ i) (h1 : i < nQubits R C) :
    ∃ s, InLattice R C s ∧ flatten R C s = i := by
  have hm : 0 < R * C := Int.mul_pos hR hC
  have hn : nQubits R C = 2 * (R * C) := by unfold nQubits; rw [Int.mul_assoc]
  have hs : InLattice R C (i / (R * C), (i % (R * C)) / C, (i % (R * C)) % C) := by
    refine ⟨?_, ?_, ?_, ?_, ?_, ?_⟩
    · exact Int.ediv_nonneg h0 (by omega)
    · exact Int.ediv_lt_of_lt_mul hm (by omega)
    · exact Int.ediv_nonneg (Int.emod_nonneg _ (by omega)) (by omega)
    · exact Int.ediv_lt_of_lt_mul hC (Int.emod_lt_of_pos _ hm)
    · exact Int.emod_nonneg _ (by omega)
    · exact Int.emod_lt_of_pos _ hC
  refine ⟨_, hs, ?_⟩
  rw [flatten_of_inLattice R C _ hs]
  have e1 := Int.mul_ediv_add_emod i (R * C)
  have e2 := Int.mul_ediv_add_emod (i % (R * C)) C
  rw [Int.mul_comm (R * C) (i / (R * C))] at e1
  rw [Int.mul_comm C (i % (R * C) / C)] at e2
  dsimp only
  omega

theorem flatNat_surj (R C : Int) (hR : 0 < R) (hC : 0 < C) (i : Nat) (h : i < (nQubits R C).toNat) :
    ∃ s, InLattice R C s ∧ flatNat R C s = i := by
  obtain ⟨s, hs, e⟩ := flatten_surj R C hR hC (i : Int) (by omega) (by omega)
  exact ⟨s, hs, by unfold flatNat; omega⟩

/-! ### C. site operators, stabilizer generators, commutation -/

/-- number of physical qubits as a natural number -/
def nq (R C : Int) : Nat := (nQubits R C).toNat

/-- the stabilizer generator of plaquette `p` as the code builds it -/
def stab (R C : Int) (p : Idx) : BVec := plaquette R C (identity R C) p

theorem stabilizers_eq_map (R C : Int) : stabilizers R C = (indices R C).map (stab R C) := rfl

theorem stab_eq_sites (R C : Int) (p : Idx) :
    stab R C p = sites R C (plaquetteOp R C p) (identity R C) (plaquetteSites R C p) := rfl

theorem identity_length (R C : Int) : (identity R C).length = 2 * nq R C := by
  simp [identity, zeros, nq]

theorem siteop_length (R C : Int) (op : P1) (L : List Idx) :
    (sites R C op (identity R C) L).length = 2 * nq R C := by
  rw [length_sites, identity_length]

theorem stab_length (R C : Int) (p : Idx) : (stab R C p).length = 2 * nq R C := siteop_length _ _ _ _

theorem bsp_comm_len (n : Nat) (a b : BVec) (ha : a.length = 2 * n) (hb : b.length = 2 * n) : bsp a b = bsp b a :=
  Symp.bsp_comm a b (by rw [ha, hb]) (by rw [ha]; omega)

/-- `bsp` of a site-list operator with a generator: the single-qubit operators anticommute and the list meets
    the plaquette in an odd number of sites -/
theorem bsp_sites_stab (R C : Int) (hR : 0 < R) (hC : 0 < C) (op : P1) (L : List Idx) (p : Idx) :
    bsp (sites R C op (identity R C) L) (stab R C p) =
      (P1.anti op (plaquetteOp R C p) && xsum L (fun s => inc R C s p)) := by
  unfold stab plaquette
  rw [bsp_sites_sites R C hR hC, xsum_comm]
  rfl

/-- two site-list operators with the same single-qubit operator X or Z commute -/
theorem bsp_sites_same (R C : Int) (hR : 0 < R) (hC : 0 < C) (op : P1) (hop : P1.anti op op = false)
    (L₁ L₂ : List Idx) : bsp (sites R C op (identity R C) L₁) (sites R C op (identity R C) L₂) = false := by
  rw [bsp_sites_sites R C hR hC, hop, Bool.false_and]

/-- a plaquette of one type meets a plaquette of the other type in an even number of sites -/
theorem xsum_plaq_inc (R C : Int) (p q : Idx) (hp : InLattice R C p) (hq : InLattice R C q) (h : p.1 ≠ q.1) :
    xsum (plaquetteSites R C p) (fun s => inc R C s q) = false := by
  obtain ⟨lp, rp, cp⟩ := p
  obtain ⟨lq, rq, cq⟩ := q
  have hp' := hp
  have hq' := hq
  obtain ⟨p1, p2, _, _, _, _⟩ := hp'
  obtain ⟨q1, q2, _, _, _, _⟩ := hq'
  dsimp only at p1 p2 q1 q2 h
  rw [plaquetteSites_of_inLattice R C _ hp]
  simp only [xsum_cons, xsum_nil, Bool.xor_false]
  rw [inc_other R C (lp, rp, cp) (lq, rq, cq) hq (by dsimp only; omega),
    inc_other R C (lp, rp + 1, cp) (lq, rq, cq) hq (by dsimp only; omega),
    inc_same R C (lp + 1, rp + lp, cp - lp) (lq, rq, cq) hq (by dsimp only; omega),
    inc_same R C (lp + 1, rp + lp, cp - lp + 1) (lq, rq, cq) hq (by dsimp only; omega)]
  dsimp only
  rw [show rp - lq = rp + lp - 1 by omega, show rp + 1 - lq = rp + lp by omega,
    show cp + lq = cp - lp + 1 by omega, show cp - lp + 1 - 1 = cp - lp by omega]
  generalize decide ((rp + lp - 1) % R = rq % R) = A
  generalize decide ((rp + lp) % R = rq % R) = B
  generalize decide ((cp - lp + 1) % C = cq % C) = D
  generalize decide ((cp - lp) % C = cq % C) = E
  cases A <;> cases B <;> cases D <;> cases E <;> rfl

/-- **two stabilizer generators commute** -/
theorem bsp_stab_stab (R C : Int) (hR : 0 < R) (hC : 0 < C) (p q : Idx) (hp : InLattice R C p)
    (hq : InLattice R C q) : bsp (stab R C p) (stab R C q) = false := by
  rw [stab_eq_sites R C p, bsp_sites_stab R C hR hC]
  by_cases h : p.1 = q.1
  · rw [plaquetteOp_of_inLattice R C p hp, plaquetteOp_of_inLattice R C q hq, h]
    split <;> rfl
  · rw [xsum_plaq_inc R C p q hp hq h, Bool.and_false]

/-! ### D. logical operators -/

theorem logicalX1Sites_eq (R C : Int) (hR : 0 ≤ R) : logicalX1Sites R C = vRun 0 (-1) (C / 2) R := by
  unfold logicalX1Sites vRun primalIndex
  rw [if_neg (by omega), show R.natAbs = R.toNat by omega]
  apply List.map_congr_left
  intro i _
  rw [show (-1 : Int) + 1 + (i : Int) = (i : Int) by omega]

theorem logicalZ2Sites_eq (R C : Int) (hR : 0 ≤ R) : logicalZ2Sites R C = vRun 1 (-1) (C / 2) R := by
  unfold logicalZ2Sites vRun dualIndex
  rw [if_neg (by omega), show R.natAbs = R.toNat by omega]
  apply List.map_congr_left
  intro i _
  rw [show (-1 : Int) + 1 + (i : Int) = (i : Int) by omega]

theorem logicalX2Sites_eq (R C : Int) (hC : 0 ≤ C) : logicalX2Sites R C = hRun 1 (R / 2) (-1) C := by
  unfold logicalX2Sites hRun dualIndex
  rw [if_neg (by omega), show C.natAbs = C.toNat by omega]
  apply List.map_congr_left
  intro i _
  rw [show (-1 : Int) + 1 + (i : Int) = (i : Int) by omega]

theorem logicalZ1Sites_eq (R C : Int) (hC : 0 ≤ C) : logicalZ1Sites R C = hRun 0 (R / 2) (-1) C := by
  unfold logicalZ1Sites hRun primalIndex
  rw [if_neg (by omega), show C.natAbs = C.toNat by omega]
  apply List.map_congr_left
  intro i _
  rw [show (-1 : Int) + 1 + (i : Int) = (i : Int) by omega]

/-- a closed vertical loop of sites meets every plaquette of its own lattice an even number of times -/
theorem xsum_vLoop (R C : Int) (l c : Int) (p : Idx) (hp : InLattice R C p) (hl : l % 2 = p.1) :
    xsum (vRun l (-1) c R) (fun s => inc R C s p) = false := by
  rw [xsum_vRun R C l (-1) c R p hp hl, Int.add_emod_right, Bool.xor_self, Bool.false_and]

/-- a closed horizontal loop of sites meets every plaquette of the other lattice an even number of times -/
theorem xsum_hLoop (R C : Int) (l r : Int) (p : Idx) (hp : InLattice R C p) (hl : l % 2 ≠ p.1) :
    xsum (hRun l r (-1) C) (fun s => inc R C s p) = false := by
  rw [xsum_hRun R C l r (-1) C p hp hl, Int.add_emod_right, Bool.xor_self, Bool.and_false]

theorem bsp_logicalX1_stab (R C : Int) (hR : 0 < R) (hC : 0 < C) (p : Idx) (hp : InLattice R C p) :
    bsp (logicalX1 R C) (stab R C p) = false := by
  unfold logicalX1
  rw [bsp_sites_stab R C hR hC, logicalX1Sites_eq R C (by omega), plaquetteOp_of_inLattice R C p hp]
  by_cases h : p.1 = 0
  · rw [xsum_vLoop R C 0 _ p hp (by omega), Bool.and_false]
  · rw [if_neg h]; rfl

theorem bsp_logicalX2_stab (R C : Int) (hR : 0 < R) (hC : 0 < C) (p : Idx) (hp : InLattice R C p) :
    bsp (logicalX2 R C) (stab R C p) = false := by
  unfold logicalX2
  rw [bsp_sites_stab R C hR hC, logicalX2Sites_eq R C (by omega), plaquetteOp_of_inLattice R C p hp]
  by_cases h : p.1 = 0
  · rw [xsum_hLoop R C 1 _ p hp (by omega), Bool.and_false]
  · rw [if_neg h]; rfl

theorem bsp_logicalZ1_stab (R C : Int) (hR : 0 < R) (hC : 0 < C) (p : Idx) (hp : InLattice R C p) :
    bsp (logicalZ1 R C) (stab R C p) = false := by
  unfold logicalZ1
  rw [bsp_sites_stab R C hR hC, logicalZ1Sites_eq R C (by omega), plaquetteOp_of_inLattice R C p hp]
  by_cases h : p.1 = 0
  · rw [if_pos h]; rfl
  · rw [xsum_hLoop R C 0 _ p hp (by omega), Bool.and_false]

theorem bsp_logicalZ2_stab (R C : Int) (hR : 0 < R) (hC : 0 < C) (p : Idx) (hp : InLattice R C p) :
    bsp (logicalZ2 R C) (stab R C p) = false := by
  unfold logicalZ2
  rw [bsp_sites_stab R C hR hC, logicalZ2Sites_eq R C (by omega), plaquetteOp_of_inLattice R C p hp]
  by_cases h : p.1 = 0
  · rw [if_pos h]; rfl
  · have := hp.1
    have := hp.2.1
    rw [xsum_vLoop R C 1 _ p hp (by omega), Bool.and_false]

/-- a generator commutes with a site-list operator iff the latter commutes with it -/
theorem bsp_stab_siteop (R C : Int) (op : P1) (L : List Idx) (p : Idx) :
    bsp (stab R C p) (sites R C op (identity R C) L) = bsp (sites R C op (identity R C) L) (stab R C p) :=
  bsp_comm_len (nq R C) _ _ (stab_length R C p) (siteop_length R C op L)

/-- coincidences of a column and a row of sites of the same lattice: exactly the crossing site -/
theorem norm_eq_cross (R C : Int) (hR : 0 < R) (hC : 0 < C) (l : Int) (r c : Nat) (hr : r < R.toNat)
    (hc : c < C.toNat) :
    decide (norm R C (l, (r : Int), C / 2) = norm R C (l, R / 2, (c : Int))) =
      (decide ((r : Int) = R / 2) && decide ((c : Int) = C / 2)) := by
  rw [← Bool.decide_and]
  apply decide_eq_decide.mpr
  rw [norm_eq_iff]
  dsimp only
  have e1 : (r : Int) % R = r := Int.emod_eq_of_lt (by omega) (by omega)
  have e2 : (R / 2) % R = R / 2 := Int.emod_eq_of_lt (by omega) (by omega)
  have e3 : (c : Int) % C = c := Int.emod_eq_of_lt (by omega) (by omega)
  have e4 : (C / 2) % C = C / 2 := Int.emod_eq_of_lt (by omega) (by omega)
  rw [e1, e2, e3, e4]
  omega

/-- the column `(l, ·, C/2)` and the row `(l, R/2, ·)` cross exactly once -/
theorem xsum_cross (R C : Int) (hR : 0 < R) (hC : 0 < C) (l : Int) :
    xsum ((List.range C.toNat).map fun (c : Nat) => ((l, R / 2, (c : Int)) : Idx))
      (fun t => xsum ((List.range R.toNat).map fun (r : Nat) => ((l, (r : Int), C / 2) : Idx))
        (fun s => decide (norm R C s = norm R C t))) = true := by
  rw [xsum_map, xsum_congr _ _ (fun c : Nat => decide ((c : Int) = C / 2))]
  · rw [xsum_range_int]
    apply decide_eq_true; omega
  · intro c hc
    rw [xsum_map, xsum_congr _ _ (fun r : Nat => decide ((r : Int) = R / 2) && decide ((c : Int) = C / 2))]
    · rw [xsum_and_right, xsum_range_int]
      have : decide (0 ≤ R / 2 ∧ R / 2 < (R.toNat : Int)) = true := by apply decide_eq_true; omega
      rw [this, Bool.true_and]
    · intro r hr
      exact norm_eq_cross R C hR hC l r c (List.mem_range.mp hr) (List.mem_range.mp hc)

/-- the same with the roles of the two lists exchanged -/
theorem xsum_cross' (R C : Int) (hR : 0 < R) (hC : 0 < C) (l : Int) :
    xsum ((List.range R.toNat).map fun (r : Nat) => ((l, (r : Int), C / 2) : Idx))
      (fun s => xsum ((List.range C.toNat).map fun (c : Nat) => ((l, R / 2, (c : Int)) : Idx))
        (fun t => decide (norm R C t = norm R C s))) = true := by
  rw [xsum_comm, ← xsum_cross R C hR hC l]
  apply xsum_congr; intro t _
  apply xsum_congr; intro s _
  exact decide_eq_decide.mpr eq_comm

/-- site lists on different lattices have no coincidences -/
theorem xsum_coincide_diff (R C : Int) (L₁ L₂ : List Idx) (a b : Int) (h1 : ∀ s ∈ L₁, s.1 % 2 = a)
    (h2 : ∀ t ∈ L₂, t.1 % 2 = b) (hab : a ≠ b) :
    xsum L₂ (fun t => xsum L₁ (fun s => decide (norm R C s = norm R C t))) = false := by
  apply xsum_all_false; intro t ht
  apply xsum_all_false; intro s hs
  apply decide_eq_false
  rw [norm_eq_iff]
  intro h
  have := h1 s hs
  have := h2 t ht
  omega

theorem logicalX1_lattice (R C : Int) : ∀ s ∈ logicalX1Sites R C, s.1 % 2 = 0 := by
  intro s hs; obtain ⟨i, _, rfl⟩ := List.mem_map.mp hs; rfl
theorem logicalZ1_lattice (R C : Int) : ∀ s ∈ logicalZ1Sites R C, s.1 % 2 = 0 := by
  intro s hs; obtain ⟨i, _, rfl⟩ := List.mem_map.mp hs; rfl
theorem logicalX2_lattice (R C : Int) : ∀ s ∈ logicalX2Sites R C, s.1 % 2 = 1 := by
  intro s hs; obtain ⟨i, _, rfl⟩ := List.mem_map.mp hs; rfl
theorem logicalZ2_lattice (R C : Int) : ∀ s ∈ logicalZ2Sites R C, s.1 % 2 = 1 := by
  intro s hs; obtain ⟨i, _, rfl⟩ := List.mem_map.mp hs; rfl

theorem bsp_X1_Z1 (R C : Int) (hR : 0 < R) (hC : 0 < C) : bsp (logicalX1 R C) (logicalZ1 R C) = true := by
  unfold logicalX1 logicalZ1
  rw [bsp_sites_sites R C hR hC]
  unfold logicalX1Sites logicalZ1Sites
  rw [xsum_cross R C hR hC primalIndex]; rfl

theorem bsp_X2_Z2 (R C : Int) (hR : 0 < R) (hC : 0 < C) : bsp (logicalX2 R C) (logicalZ2 R C) = true := by
  unfold logicalX2 logicalZ2
  rw [bsp_sites_sites R C hR hC]
  unfold logicalX2Sites logicalZ2Sites
  rw [xsum_cross' R C hR hC dualIndex]; rfl

theorem bsp_X1_Z2 (R C : Int) (hR : 0 < R) (hC : 0 < C) : bsp (logicalX1 R C) (logicalZ2 R C) = false := by
  unfold logicalX1 logicalZ2
  rw [bsp_sites_sites R C hR hC,
    xsum_coincide_diff R C _ _ 0 1 (logicalX1_lattice R C) (logicalZ2_lattice R C) (by omega), Bool.and_false]

theorem bsp_X2_Z1 (R C : Int) (hR : 0 < R) (hC : 0 < C) : bsp (logicalX2 R C) (logicalZ1 R C) = false := by
  unfold logicalX2 logicalZ1
  rw [bsp_sites_sites R C hR hC,
    xsum_coincide_diff R C _ _ 1 0 (logicalX2_lattice R C) (logicalZ1_lattice R C) (by omega), Bool.and_false]

/-! ### E. the independent sub-list: all plaquettes but `(0,0,0)` and `(1,0,0)`; destabilisers -/

/-- keep every plaquette except the two reference plaquettes `(0,0,0)` (primal) and `(1,0,0)` (dual) -/
def keep (p : Idx) : Bool := !decide (p = ((0, 0, 0) : Idx)) && !decide (p = ((1, 0, 0) : Idx))

/-- the kept plaquette indices, in the code's order -/
def keptIdx (R C : Int) : List Idx := (indices R C).filter keep

/-- destabiliser of plaquette `q`: the code's own path operator from `q` to the reference plaquette of its lattice -/
def destab (R C : Int) (q : Idx) : BVec :=
  sites R C (pathOp R C q) (identity R C) (pathSites R C q (step R q.2.1 0) (step C q.2.2 0))

theorem destab_length (R C : Int) (q : Idx) : (destab R C q).length = 2 * nq R C := siteop_length _ _ _ _

theorem keep_iff (p : Idx) : keep p = true ↔ p ≠ ((0, 0, 0) : Idx) ∧ p ≠ ((1, 0, 0) : Idx) := by
  simp only [keep, Bool.and_eq_true, Bool.not_eq_true', decide_eq_false_iff_not, ne_eq]

theorem mem_keptIdx (R C : Int) (p : Idx) :
    p ∈ keptIdx R C ↔ InLattice R C p ∧ p ≠ ((0, 0, 0) : Idx) ∧ p ≠ ((1, 0, 0) : Idx) := by
  unfold keptIdx
  rw [List.mem_filter, mem_indices, keep_iff]

theorem keptIdx_nodup (R C : Int) : (keptIdx R C).Nodup :=
  List.Nodup.sublist List.filter_sublist (indices_nodup R C)

theorem ref_inLattice (R C : Int) (hR : 0 < R) (hC : 0 < C) (l : Int) (hl : l = 0 ∨ l = 1) :
    InLattice R C (l, 0, 0) := by
  refine ⟨?_, ?_, ?_, ?_, ?_, ?_⟩ <;> dsimp only <;> omega

/-- **destabiliser witnesses**: the path from `q` to its reference plaquette anticommutes with the generator of
    the kept plaquette `p` iff `p = q` -/
theorem bsp_stab_destab (R C : Int) (hR : 0 < R) (hC : 0 < C) (p q : Idx) (hp : p ∈ keptIdx R C)
    (hq : q ∈ keptIdx R C) : bsp (stab R C p) (destab R C q) = decide (p = q) := by
  obtain ⟨ip, p0, p1⟩ := (mem_keptIdx R C p).mp hp
  obtain ⟨iq, _, _⟩ := (mem_keptIdx R C q).mp hq
  have hl : q.1 = 0 ∨ q.1 = 1 := by have := iq.1; have := iq.2.1; omega
  rw [bsp_comm_len (nq R C) _ _ (stab_length R C p) (destab_length R C q)]
  refine (bsp_path_plaquette R C hR hC q (q.1, 0, 0) p rfl).trans ?_
  rw [norm_of_inLattice R C p ip, norm_of_inLattice R C q iq,
    norm_of_inLattice R C _ (ref_inLattice R C hR hC q.1 hl)]
  have : decide (p = (q.1, (0 : Int), (0 : Int))) = false := by
    apply decide_eq_false
    rcases hl with h | h <;> rw [h] <;> assumption
  rw [this]
  simp

theorem length_filter_ne {α : Type} [DecidableEq α] (L : List α) (a : α) (hnd : L.Nodup) (ha : a ∈ L) :
    (L.filter (fun x => !decide (x = a))).length + 1 = L.length := by
  induction L with
  | nil => simp at ha
  | cons x L ih =>
    have hn := List.nodup_cons.mp hnd
    rw [List.filter_cons]
    by_cases hx : x = a
    · subst hx
      have : L.filter (fun y => !decide (y = x)) = L := by
        apply List.filter_eq_self.mpr
        intro y hy
        have : y ≠ x := fun e => hn.1 (e ▸ hy)
        simp [this]
      simp [this]
    · have ha' : a ∈ L := by
        rcases List.mem_cons.mp ha with e | e
        · exact absurd e.symm hx
        · exact e
      simp [hx, ih hn.2 ha']

/-- all but two of the plaquettes are kept -/
theorem keptIdx_length (R C : Int) (hR : 0 < R) (hC : 0 < C) :
    (keptIdx R C).length + 2 = (indices R C).length := by
  obtain ⟨L1, hL1⟩ : ∃ L1 : List Idx, L1 = (indices R C).filter (fun x : Idx => !decide (x = ((1, 0, 0) : Idx))) :=
    ⟨_, rfl⟩
  have e : keptIdx R C = L1.filter (fun x : Idx => !decide (x = ((0, 0, 0) : Idx))) := by
    rw [hL1, List.filter_filter]; rfl
  have h1 : L1.length + 1 = (indices R C).length := by
    rw [hL1]
    exact length_filter_ne (indices R C) ((1, 0, 0) : Idx) (indices_nodup R C)
      ((mem_indices R C _).mpr (ref_inLattice R C hR hC 1 (Or.inr rfl)))
  have h0 := length_filter_ne L1 ((0, 0, 0) : Idx)
    (by rw [hL1]; exact List.Nodup.sublist List.filter_sublist (indices_nodup R C))
    (by
      rw [hL1]
      exact List.mem_filter.mpr ⟨(mem_indices R C _).mpr (ref_inLattice R C hR hC 0 (Or.inl rfl)), by decide⟩)
  rw [e]; omega

/-! ### F. the dropped generators are the XOR of the kept generators of their lattice -/

/-- X-half bit of a site-list operator at the flat position of site `s` -/
theorem getD_siteop_x (R C : Int) (hR : 0 < R) (hC : 0 < C) (op : P1) (L : List Idx) (s : Idx) :
    (sites R C op (identity R C) L).getD (flatNat R C s) false =
      (op.xBit && xsum L (fun t => decide (norm R C s = norm R C t))) := by
  have hL : ∀ f ∈ L.map (flatNat R C), f < (nQubits R C).toNat := by
    intro f hf
    obtain ⟨t, _, rfl⟩ := List.mem_map.mp hf
    exact flatNat_lt R C hR hC t
  rw [sites_eq_applyOps, identity_eq_zeros, getD_applyOps_x _ _ _ _ _ (by simp) hL (flatNat_lt R C hR hC s),
    ToricLemmas.getD_zeros, Bool.false_xor, xsum_map]
  congr 1
  apply xsum_congr; intro t _
  apply decide_eq_decide.mpr
  rw [flatNat_inj R C hR hC]
  exact eq_comm

/-- Z-half bit of a site-list operator at the flat position of site `s` -/
theorem getD_siteop_z (R C : Int) (hR : 0 < R) (hC : 0 < C) (op : P1) (L : List Idx) (s : Idx) :
    (sites R C op (identity R C) L).getD (nq R C + flatNat R C s) false =
      (op.zBit && xsum L (fun t => decide (norm R C s = norm R C t))) := by
  have hL : ∀ f ∈ L.map (flatNat R C), f < (nQubits R C).toNat := by
    intro f hf
    obtain ⟨t, _, rfl⟩ := List.mem_map.mp hf
    exact flatNat_lt R C hR hC t
  unfold nq
  rw [sites_eq_applyOps, identity_eq_zeros, getD_applyOps_z _ _ _ _ _ (by simp) hL,
    ToricLemmas.getD_zeros, Bool.false_xor, xsum_map]
  congr 1
  apply xsum_congr; intro t _
  apply decide_eq_decide.mpr
  rw [flatNat_inj R C hR hC]
  exact eq_comm

theorem getD_stab_x (R C : Int) (hR : 0 < R) (hC : 0 < C) (p s : Idx) :
    (stab R C p).getD (flatNat R C s) false = ((plaquetteOp R C p).xBit && inc R C s p) :=
  getD_siteop_x R C hR hC _ _ s

theorem getD_stab_z (R C : Int) (hR : 0 < R) (hC : 0 < C) (p s : Idx) :
    (stab R C p).getD (nq R C + flatNat R C s) false = ((plaquetteOp R C p).zBit && inc R C s p) :=
  getD_siteop_z R C hR hC _ _ s

theorem inLattice_nat (R C : Int) (l : Int) (hl : l = 0 ∨ l = 1) (r c : Nat) (hr : r < R.toNat) (hc : c < C.toNat) :
    InLattice R C (l, (r : Int), (c : Int)) := by
  refine ⟨?_, ?_, ?_, ?_, ?_, ?_⟩ <;> dsimp only <;> omega

/-- **every site lies in exactly two plaquettes of each type**: the incidences of a site with all plaquettes of
    one lattice cancel -/
theorem xsum_lattice_inc (R C : Int) (hR : 0 < R) (hC : 0 < C) (s : Idx) (l : Int) (hl : l = 0 ∨ l = 1) :
    xsum (List.range R.toNat) (fun r : Nat => xsum (List.range C.toNat) (fun c : Nat =>
      inc R C s (l, (r : Int), (c : Int)))) = false := by
  by_cases h : s.1 % 2 = l
  · rw [xsum_congr _ _ (fun r : Nat =>
      (xor (decide (s.2.1 % R = (r : Int) % R)) (decide ((s.2.1 - 1) % R = (r : Int) % R))) &&
        xsum (List.range C.toNat) (fun c : Nat => decide (s.2.2 % C = (c : Int) % C)))]
    · rw [xsum_and_right, xsum_xor, xsum_range_emod R hR, xsum_range_emod R hR]; rfl
    · intro r hr
      rw [← xsum_and_left]
      apply xsum_congr; intro c hc
      rw [inc_same R C s _ (inLattice_nat R C l hl r c (List.mem_range.mp hr) (List.mem_range.mp hc)) h]
  · rw [xsum_congr _ _ (fun _ : Nat => false)]
    · exact xsum_false _
    · intro r hr
      rw [xsum_congr _ _ (fun c : Nat => decide ((s.2.1 - l) % R = (r : Int) % R) &&
        xor (decide ((s.2.2 + l) % C = (c : Int) % C)) (decide ((s.2.2 + l - 1) % C = (c : Int) % C)))]
      · rw [xsum_and_left, xsum_xor, xsum_range_emod C hC, xsum_range_emod C hC]; simp
      · intro c hc
        rw [inc_other R C s _ (inLattice_nat R C l hl r c (List.mem_range.mp hr) (List.mem_range.mp hc)) h]

/-- XOR-sum over the index list, lattice by lattice -/
theorem xsum_indices (R C : Int) (f : Idx → Bool) :
    xsum (indices R C) f =
      xor (xsum (List.range R.toNat) (fun r : Nat => xsum (List.range C.toNat) (fun c : Nat => f (0, (r : Int), (c : Int)))))
        (xsum (List.range R.toNat) (fun r : Nat => xsum (List.range C.toNat) (fun c : Nat => f (1, (r : Int), (c : Int))))) := by
  unfold indices
  rw [xsum_flatMap, show List.range 2 = [0, 1] from rfl]
  simp only [xsum_cons, xsum_nil, Bool.xor_false, xsum_flatMap, xsum_map]
  rfl

theorem xsum_indices_inc (R C : Int) (hR : 0 < R) (hC : 0 < C) (s : Idx) (l : Int) :
    xsum (indices R C) (fun p => decide (p.1 = l) && inc R C s p) = false := by
  rw [xsum_indices]
  show xor (xsum (List.range R.toNat) (fun r : Nat => xsum (List.range C.toNat) (fun c : Nat =>
      decide ((0 : Int) = l) && inc R C s (0, (r : Int), (c : Int)))))
    (xsum (List.range R.toNat) (fun r : Nat => xsum (List.range C.toNat) (fun c : Nat =>
      decide ((1 : Int) = l) && inc R C s (1, (r : Int), (c : Int))))) = false
  simp only [xsum_and_left, xsum_lattice_inc R C hR hC s 0 (Or.inl rfl), xsum_lattice_inc R C hR hC s 1 (Or.inr rfl),
    Bool.and_false, Bool.xor_false]

/-- the kept plaquettes of lattice `l` XOR to the dropped one, bit by bit -/
theorem xsum_kept_bits (R C : Int) (hR : 0 < R) (hC : 0 < C) (l : Int) (hl : l = 0 ∨ l = 1) (bit : Idx → Bool)
    (b : Bool) (s : Idx) (hbit : ∀ p, InLattice R C p → p.1 = l → bit p = (b && inc R C s p)) :
    xsum (keptIdx R C) (fun p => decide (p.1 = l) && bit p) = bit (l, 0, 0) := by
  unfold keptIdx
  rw [xsum_filter]
  have h1 : ∀ p ∈ indices R C, (keep p && (decide (p.1 = l) && bit p)) =
      (!decide (p = ((l, 0, 0) : Idx)) && (decide (p.1 = l) && bit p)) := by
    intro p _
    by_cases e : p.1 = l
    · have : keep p = !decide (p = ((l, 0, 0) : Idx)) := by
        obtain ⟨a, r, c⟩ := p
        dsimp only at e
        subst e
        unfold keep
        rcases hl with h | h <;> subst h <;> simp
      rw [this]
    · simp [e]
  rw [xsum_congr _ _ _ h1, xsum_not_and, xsum_decide_and _ _ _ (indices_nodup R C)]
  have h2 : xsum (indices R C) (fun p => decide (p.1 = l) && bit p) = false := by
    rw [xsum_congr _ _ (fun p => b && (decide (p.1 = l) && inc R C s p))]
    · rw [xsum_and_left, xsum_indices_inc R C hR hC, Bool.and_false]
    · intro p hp
      by_cases e : p.1 = l
      · rw [hbit p ((mem_indices R C p).mp hp) e]; simp [e]
      · simp [e]
  have h3 : ((l, 0, 0) : Idx) ∈ indices R C := (mem_indices R C _).mpr (ref_inLattice R C hR hC l hl)
  rw [h2]
  simp [h3]

theorem plaquetteOp_lattice (R C : Int) (hR : 0 < R) (hC : 0 < C) (p : Idx) (hp : InLattice R C p) (l : Int)
    (hl : l = 0 ∨ l = 1) (e : p.1 = l) : plaquetteOp R C p = plaquetteOp R C (l, 0, 0) := by
  rw [plaquetteOp_of_inLattice R C p hp, plaquetteOp_of_inLattice R C _ (ref_inLattice R C hR hC l hl), e]

/-- **the dropped generator of lattice `l` is the XOR of all kept generators of lattice `l`** -/
theorem stab_ref_inSpan (R C : Int) (hR : 0 < R) (hC : 0 < C) (l : Int) (hl : l = 0 ∨ l = 1) :
    Symp.InSpan (2 * nq R C) ((keptIdx R C).map (stab R C)) (stab R C (l, 0, 0)) := by
  apply Symp.inSpan_of_bits (2 * nq R C) (keptIdx R C) (stab R C) (fun p => decide (p.1 = l)) _
    (fun p _ => stab_length R C p) (stab_length R C _)
  intro j hj
  rw [← xsum_eq_xorSum]
  symm
  by_cases hjn : j < nq R C
  · obtain ⟨s, _, rfl⟩ := flatNat_surj R C hR hC j hjn
    apply xsum_kept_bits R C hR hC l hl (fun p => (stab R C p).getD (flatNat R C s) false)
      (plaquetteOp R C (l, 0, 0)).xBit s
    intro p hp e
    rw [getD_stab_x R C hR hC, plaquetteOp_lattice R C hR hC p hp l hl e]
  · obtain ⟨s, _, hs⟩ := flatNat_surj R C hR hC (j - nq R C) (by unfold nq at *; omega)
    have ej : j = nq R C + flatNat R C s := by omega
    rw [ej]
    apply xsum_kept_bits R C hR hC l hl (fun p => (stab R C p).getD (nq R C + flatNat R C s) false)
      (plaquetteOp R C (l, 0, 0)).zBit s
    intro p hp e
    rw [getD_stab_z R C hR hC, plaquetteOp_lattice R C hR hC p hp l hl e]

end Qec.ToricCode
