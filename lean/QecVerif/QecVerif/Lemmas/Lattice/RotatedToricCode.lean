/-
  Helper lemmas for C07 (rotated-toric family): the flat index bijection, lengths, the overlap parities of
  plaquettes with plaquettes / the two logical lines, the destabiliser paths to a reference plaquette of each
  type, the dependency "every site lies in exactly two plaquettes of a type", and the plaquette count.
  Builds on the C15 library `Lemmas/Lattice/RotatedToric.lean` (flat indices modulo the lattice, `bsp_sites_sites`,
  `site_flip`, `bsp_path_stab`, the plaquette index list) and the generic layer `Lemmas/Symplectic.lean`.
-/
import QecVerif.Model.Lattice.RotatedToric
import QecVerif.Lemmas.Symplectic
import QecVerif.Lemmas.Lattice.RotatedToric
namespace Qec.RotatedToricCode
open Qec Qec.RotatedToric Qec.Symp Qec.RotatedToric.Lem

/-- the sizes the constructor accepts: rows, columns even and ≥ 2 -/
def Size (R C : Int) : Prop := 2 ≤ R ∧ 2 ≤ C ∧ R % 2 = 0 ∧ C % 2 = 0

/-- number of qubits as a `Nat` -/
def nq (R C : Int) : Nat := (nQubits R C).toNat

/-! ### A. parity sums (`Lem.parity` = `Symp.xorSum`) -/

theorem parity_eq_xorSum {α : Type} (f : α → Bool) (l : List α) : parity f l = xorSum l f := by
  induction l with
  | nil => rfl
  | cons a l ih => simp only [parity_cons, xorSum_cons, ih]

theorem parity_const_and {α : Type} (b : Bool) (f : α → Bool) (l : List α) :
    parity (fun a => b && f a) l = (b && parity f l) := by
  induction l with
  | nil => simp
  | cons a l ih => simp only [parity_cons, ih]; cases b <;> simp

theorem parity_xor {α : Type} (f g : α → Bool) (l : List α) :
    parity (fun a => xor (f a) (g a)) l = xor (parity f l) (parity g l) := by
  induction l with
  | nil => simp
  | cons a l ih =>
    simp only [parity_cons, ih]
    cases f a <;> cases g a <;> cases parity f l <;> cases parity g l <;> rfl

/-- over a duplicate-free list the indicator of one element sums to its membership -/
theorem parity_eq_mem {α : Type} [DecidableEq α] (l : List α) (hnd : l.Nodup) (a : α) :
    parity (fun p => decide (p = a)) l = decide (a ∈ l) := by
  induction l with
  | nil => simp
  | cons x l ih =>
    have h := List.nodup_cons.mp hnd
    simp only [parity_cons, ih h.2, List.mem_cons]
    by_cases hx : x = a
    · subst hx
      simp [h.1]
    · have : ¬ a = x := fun e => hx e.symm
      simp [hx, this]

theorem parity_range_eq (k j : Nat) : parity (fun i => decide (i = j)) (List.range k) = decide (j < k) := by
  rw [parity_eq_xorSum]; exact xorSum_range_eq k j

theorem parity_range_true (k : Nat) : parity (fun _ => true) (List.range k) = decide (k % 2 = 1) := by
  induction k with
  | zero => simp
  | succ k ih =>
    rw [List.range_succ, parity_append, ih]
    simp only [parity_cons, parity_nil, Bool.xor_false]
    by_cases h : k % 2 = 1
    · have : ¬ (k + 1) % 2 = 1 := by omega
      simp [h, this]
    · have : (k + 1) % 2 = 1 := by omega
      simp [h, this]

/-! ### B. lengths, symmetry of `bsp` on site operators -/

theorem applyOp_length (n : Nat) (op : P1) (v : BVec) (f : Nat) : (applyOp n op v f).length = v.length := by
  cases op <;> simp [applyOp, P1.xBit, P1.zBit, toggle]

theorem sites_length (R C : Int) (op : P1) (v : BVec) (l : List (Int × Int)) :
    (sites R C op v l).length = v.length := by
  induction l generalizing v with
  | nil => rfl
  | cons i l ih =>
    have hs : sites R C op v (i :: l) = sites R C op (site R C op v i) l := rfl
    rw [hs, ih, site_eq, applyOp_length]

theorem identity_length (R C : Int) : (identity R C).length = 2 * nq R C := by
  simp [identity, zeros, nq]

theorem siteop_length (R C : Int) (op : P1) (l : List (Int × Int)) :
    (sites R C op (identity R C) l).length = 2 * nq R C := by
  rw [sites_length, identity_length]

theorem stabOf_length (R C : Int) (p : Int × Int) : (stabOf R C p).length = 2 * nq R C := siteop_length _ _ _ _

theorem bsp_flip (R C : Int) (op op' : P1) (l l' : List (Int × Int)) :
    bsp (sites R C op (identity R C) l) (sites R C op' (identity R C) l') =
      bsp (sites R C op' (identity R C) l') (sites R C op (identity R C) l) :=
  bsp_comm _ _ (by rw [siteop_length, siteop_length]) (by rw [siteop_length]; omega)

/-- X- and Z-type operators: the anticommutation factor of `bsp_sites_sites` -/
theorem anti_XZ : xor (P1.X.zBit && P1.Z.xBit) (P1.X.xBit && P1.Z.zBit) = true := rfl
theorem anti_ZX : xor (P1.Z.zBit && P1.X.xBit) (P1.Z.xBit && P1.X.zBit) = true := rfl
theorem anti_XX : xor (P1.X.zBit && P1.X.xBit) (P1.X.xBit && P1.X.zBit) = false := rfl
theorem anti_ZZ : xor (P1.Z.zBit && P1.Z.xBit) (P1.Z.xBit && P1.Z.zBit) = false := rfl

/-- site operators of the same (X or Z) type commute -/
theorem bsp_same (R C : Int) (hR : 0 < R) (hC : 0 < C) (op : P1) (hop : op = P1.X ∨ op = P1.Z)
    (l l' : List (Int × Int)) :
    bsp (sites R C op (identity R C) l) (sites R C op (identity R C) l') = false := by
  rw [bsp_sites_sites R C hR hC]
  rcases hop with rfl | rfl
  · rw [anti_XX, Bool.false_and]
  · rw [anti_ZZ, Bool.false_and]

/-! ### C. the flat index bijection -/

theorem nq_eq (R C : Int) (hR : 0 ≤ R) (hC : 0 ≤ C) : nq R C = R.toNat * C.toNat := by
  unfold nq nQubits
  obtain ⟨a, rfl⟩ := Int.eq_ofNat_of_zero_le hR
  obtain ⟨b, rfl⟩ := Int.eq_ofNat_of_zero_le hC
  rw [← Int.natCast_mul, Int.toNat_natCast, Int.toNat_natCast, Int.toNat_natCast]

theorem flat_surj (R C : Int) (hC : 0 < C) (i : Int) (h0 : 0 ≤ i) (h1 : i < R * C) :
    0 ≤ i % C ∧ i % C < C ∧ 0 ≤ i / C ∧ i / C < R ∧ i % C + i / C * C = i := by
  refine ⟨Int.emod_nonneg _ (by omega), Int.emod_lt_of_pos _ hC, Int.ediv_nonneg h0 (by omega),
    Int.ediv_lt_of_lt_mul hC h1, ?_⟩
  have := Int.mul_ediv_add_emod i C
  rw [Int.mul_comm] at this
  omega

/-- every flat index below `n` is the flat index of a (canonical) site -/
theorem flatOf_surj (R C : Int) (hC : 0 < C) (j : Nat) (hj : j < nq R C) :
    ∃ s : Int × Int, inBounds R C s.1 s.2 = true ∧ flatOf R C s = j := by
  have h1 : (j : Int) < R * C := by unfold nq nQubits at hj; omega
  have h := flat_surj R C hC (j : Int) (by omega) h1
  refine ⟨((j : Int) % C, (j : Int) / C), ?_, ?_⟩
  · rw [inBounds_iff]; simp only []; omega
  · simp only [flatOf, flatten_eq, modIndex_eq]
    rw [Int.emod_eq_of_lt h.1 h.2.1, Int.emod_eq_of_lt h.2.2.1 h.2.2.2.1, h.2.2.2.2]
    simp

/-- congruence of two canonical indices is equality -/
theorem cong_inb (R C : Int) (p q : Int × Int) (hp : inBounds R C p.1 p.2 = true)
    (hq : inBounds R C q.1 q.2 = true) : cong R C p q ↔ p = q := by
  rw [inBounds_iff] at hp hq
  unfold cong
  rw [Int.emod_eq_of_lt (by omega) (by omega), Int.emod_eq_of_lt (by omega) (by omega),
    Int.emod_eq_of_lt (by omega) (by omega), Int.emod_eq_of_lt (by omega) (by omega)]
  constructor
  · rintro ⟨h1, h2⟩; exact Prod.ext h1 h2
  · rintro rfl; exact ⟨rfl, rfl⟩

theorem inBounds_modIndex (R C : Int) (hR : 0 < R) (hC : 0 < C) (q : Int × Int) :
    inBounds R C (modIndex R C q).1 (modIndex R C q).2 = true := by
  rw [inBounds_iff, modIndex_eq]
  have h1 := emod_lt' q.1 C hC
  have h2 := emod_lt' q.2 R hR
  simp only []; omega

/-! ### D. plaquettes against plaquettes -/

/-- `site_flip` with the two plaquettes named -/
theorem site_flip2 (R C : Int) (hR : 0 < R) (hC : 0 < C) (hRe : R % 2 = 0) (hCe : C % 2 = 0)
    (s p Q Q' : Int × Int) (hQx : Q.1 = s.1 - 1 ∨ Q.1 = s.1) (hQy : Q.2 = s.2 - 1 ∨ Q.2 = s.2)
    (hx : Q'.1 = 2 * s.1 - 1 - Q.1) (hy : Q'.2 = 2 * s.2 - 1 - Q.2)
    (hpar : (p.1 - p.2 - (Q.1 - Q.2)) % 2 = 0) :
    inc R C s p = xor (decide (cong R C p Q)) (decide (cong R C p Q')) := by
  have := site_flip R C hR hC hRe hCe s p Q.1 Q.2 hQx hQy hpar
  rw [this]
  have e : Q' = (2 * s.1 - 1 - Q.1, 2 * s.2 - 1 - Q.2) := Prod.ext hx hy
  rw [e]

/-- the four corners of plaquette `p` toggle every plaquette `q` of the other type an even number of times -/
theorem plaq_cross (R C : Int) (hR : 0 < R) (hC : 0 < C) (hRe : R % 2 = 0) (hCe : C % 2 = 0)
    (p q : Int × Int) (hpq : (q.1 - q.2 - (p.1 - p.2)) % 2 = 1) :
    parity (fun s => inc R C s q) (plaquetteSites p.1 p.2) = false := by
  obtain ⟨x, y⟩ := p
  simp only [] at hpq
  simp only [plaquetteSites, parity_cons, parity_nil, Bool.xor_false]
  rw [site_flip2 R C hR hC hRe hCe (x, y) q (x - 1, y) (x, y - 1) (Or.inl rfl) (Or.inr rfl)
      (by simp only []; omega) (by simp only []; omega) (by simp only []; omega),
    site_flip2 R C hR hC hRe hCe (x, y + 1) q (x - 1, y) (x, y + 1) (Or.inl rfl) (Or.inl (by simp only []; omega))
      (by simp only []; omega) (by simp only []; omega) (by simp only []; omega),
    site_flip2 R C hR hC hRe hCe (x + 1, y + 1) q (x, y + 1) (x + 1, y) (Or.inl (by simp only []; omega)) (Or.inr rfl)
      (by simp only []; omega) (by simp only []; omega) (by simp only []; omega),
    site_flip2 R C hR hC hRe hCe (x + 1, y) q (x, y - 1) (x + 1, y) (Or.inl (by simp only []; omega)) (Or.inl rfl)
      (by simp only []; omega) (by simp only []; omega) (by simp only []; omega)]
  generalize decide (cong R C q (x - 1, y)) = a
  generalize decide (cong R C q (x, y - 1)) = b
  generalize decide (cong R C q (x, y + 1)) = c
  generalize decide (cong R C q (x + 1, y)) = d
  cases a <;> cases b <;> cases c <;> cases d <;> rfl

theorem plaquetteOp_cases (x y : Int) :
    (isZPlaquette x y = true ∧ plaquetteOp x y = P1.Z) ∨ (isZPlaquette x y = false ∧ plaquetteOp x y = P1.X) := by
  unfold plaquetteOp
  cases isZPlaquette x y <;> simp

/-- two stabilizer generators commute (arbitrary integer plaquette indices) -/
theorem bsp_stab_stab (R C : Int) (hR : 0 < R) (hC : 0 < C) (hRe : R % 2 = 0) (hCe : C % 2 = 0)
    (p q : Int × Int) : bsp (stabOf R C p) (stabOf R C q) = false := by
  unfold stabOf
  rcases plaquetteOp_cases p.1 p.2 with ⟨hp, ep⟩ | ⟨hp, ep⟩ <;>
  rcases plaquetteOp_cases q.1 q.2 with ⟨hq, eq⟩ | ⟨hq, eq⟩ <;> rw [ep, eq]
  · exact bsp_same R C hR hC _ (Or.inr rfl) _ _
  · rw [bsp_sites_sites R C hR hC, anti_ZX, Bool.true_and]
    have hpar : (q.1 - q.2 - (p.1 - p.2)) % 2 = 1 := by
      have h1 := (isZPlaquette_iff p.1 p.2).mp hp
      have h2 : ¬ (q.1 - q.2) % 2 = 0 := fun h => by
        rw [(isZPlaquette_iff q.1 q.2).mpr h] at hq; exact absurd hq (by decide)
      omega
    exact plaq_cross R C hR hC hRe hCe p q hpar
  · rw [bsp_sites_sites R C hR hC, anti_XZ, Bool.true_and]
    have hpar : (q.1 - q.2 - (p.1 - p.2)) % 2 = 1 := by
      have h1 := (isZPlaquette_iff q.1 q.2).mp hq
      have h2 : ¬ (p.1 - p.2) % 2 = 0 := fun h => by
        rw [(isZPlaquette_iff p.1 p.2).mpr h] at hp; exact absurd hp (by decide)
      omega
    exact plaq_cross R C hR hC hRe hCe p q hpar
  · exact bsp_same R C hR hC _ (Or.inl rfl) _ _

/-! ### E. the two logical lines -/

/-- the sites `(0, 0), …, (0, k-1)` -/
def colN (k : Nat) : List (Int × Int) := (List.range k).map fun (y : Nat) => ((0 : Int), (y : Int))
/-- the sites `(0, 0), …, (k-1, 0)` -/
def rowN (k : Nat) : List (Int × Int) := (List.range k).map fun (x : Nat) => ((x : Int), (0 : Int))

theorem westColumn_eq (R : Int) : westColumn R = colN R.toNat := by
  unfold westColumn colN maxY; rw [Int.sub_add_cancel]
theorem southRow_eq (C : Int) : southRow C = rowN C.toNat := by
  unfold southRow rowN maxX; rw [Int.sub_add_cancel]

theorem cong_shift_y (R C : Int) (p : Int × Int) (a b : Int) : cong R C p (a, b + R) ↔ cong R C p (a, b) := by
  unfold cong; simp only [Int.add_emod_right]
theorem cong_shift_x (R C : Int) (p : Int × Int) (a b : Int) : cong R C p (a + C, b) ↔ cong R C p (a, b) := by
  unfold cong; simp only [Int.add_emod_right]

theorem xor_self_of_eq (a b : Bool) (h : a = b) : xor a b = false := by subst h; simp

/-- a full column of sites toggles every plaquette an even number of times -/
theorem col_inc (R C : Int) (hR : 0 < R) (hC : 0 < C) (p : Int × Int) :
    parity (fun s => inc R C s p) (colN R.toNat) = false := by
  unfold colN
  rw [parity_map]
  have key := parity_telescope (fun i : Nat => inc R C ((0 : Int), (i : Int)) p)
    (fun i : Nat => xor (decide (cong R C p (0, (i : Int) - 1))) (decide (cong R C p (-1, (i : Int) - 1))))
    R.toNat (by
      intro i _
      show inc R C (0, (i : Int)) p = _
      rw [inc_eq R C hR hC]
      simp only [Int.zero_sub]
      have e : ((i + 1 : Nat) : Int) - 1 = (i : Int) := by omega
      rw [e]
      generalize decide (cong R C p (0, (i : Int))) = a
      generalize decide (cong R C p (0, (i : Int) - 1)) = b
      generalize decide (cong R C p (-1, (i : Int) - 1)) = c
      generalize decide (cong R C p (-1, (i : Int))) = d
      cases a <;> cases b <;> cases c <;> cases d <;> rfl)
  rw [key]
  apply xor_self_of_eq
  have eR : ((R.toNat : Nat) : Int) - 1 = ((0 : Nat) : Int) - 1 + R := by omega
  rw [eR, decide_eq_decide.mpr (cong_shift_y R C p 0 _), decide_eq_decide.mpr (cong_shift_y R C p (-1) _)]

/-- a full row of sites toggles every plaquette an even number of times -/
theorem row_inc (R C : Int) (hR : 0 < R) (hC : 0 < C) (p : Int × Int) :
    parity (fun s => inc R C s p) (rowN C.toNat) = false := by
  unfold rowN
  rw [parity_map]
  have key := parity_telescope (fun i : Nat => inc R C ((i : Int), (0 : Int)) p)
    (fun i : Nat => xor (decide (cong R C p ((i : Int) - 1, 0))) (decide (cong R C p ((i : Int) - 1, -1))))
    C.toNat (by
      intro i _
      show inc R C ((i : Int), 0) p = _
      rw [inc_eq R C hR hC]
      simp only [Int.zero_sub]
      have e : ((i + 1 : Nat) : Int) - 1 = (i : Int) := by omega
      rw [e]
      generalize decide (cong R C p ((i : Int), 0)) = a
      generalize decide (cong R C p ((i : Int), -1)) = b
      generalize decide (cong R C p ((i : Int) - 1, -1)) = c
      generalize decide (cong R C p ((i : Int) - 1, 0)) = d
      cases a <;> cases b <;> cases c <;> cases d <;> rfl)
  rw [key]
  apply xor_self_of_eq
  have eC : ((C.toNat : Nat) : Int) - 1 = ((0 : Nat) : Int) - 1 + C := by omega
  rw [eC, decide_eq_decide.mpr (cong_shift_x R C p _ 0), decide_eq_decide.mpr (cong_shift_x R C p _ (-1))]

/-- a generator commutes with any operator on a full column -/
theorem bsp_stab_col (R C : Int) (hR : 0 < R) (hC : 0 < C) (op : P1) (p : Int × Int) :
    bsp (stabOf R C p) (sites R C op (identity R C) (colN R.toNat)) = false := by
  unfold stabOf
  rw [bsp_flip, bsp_sites_sites R C hR hC]
  have := col_inc R C hR hC p
  unfold inc at this
  rw [this, Bool.and_false]

/-- a generator commutes with any operator on a full row -/
theorem bsp_stab_row (R C : Int) (hR : 0 < R) (hC : 0 < C) (op : P1) (p : Int × Int) :
    bsp (stabOf R C p) (sites R C op (identity R C) (rowN C.toNat)) = false := by
  unfold stabOf
  rw [bsp_flip, bsp_sites_sites R C hR hC]
  have := row_inc R C hR hC p
  unfold inc at this
  rw [this, Bool.and_false]

theorem flat_row_col (R C : Int) (hR : 0 < R) (hC : 0 < C) (x y : Nat) (hx : x < C.toNat) (hy : y < R.toNat) :
    flatOf R C ((x : Int), 0) = flatOf R C (0, (y : Int)) ↔ (x = 0 ∧ y = 0) := by
  rw [flatOf_eq_iff R C hR hC]
  simp only []
  rw [Int.emod_eq_of_lt (a := (x : Int)) (by omega) (by omega),
    Int.emod_eq_of_lt (a := (y : Int)) (by omega) (by omega)]
  simp only [Int.zero_emod]
  omega

theorem flat_col_col (R C : Int) (hR : 0 < R) (hC : 0 < C) (y y' : Nat) (hy : y < R.toNat) (hy' : y' < R.toNat) :
    flatOf R C (0, (y : Int)) = flatOf R C (0, (y' : Int)) ↔ y = y' := by
  rw [flatOf_eq_iff R C hR hC]
  simp only []
  rw [Int.emod_eq_of_lt (a := (y : Int)) (by omega) (by omega),
    Int.emod_eq_of_lt (a := (y' : Int)) (by omega) (by omega)]
  rw [true_and]
  omega

theorem flat_row_row (R C : Int) (hR : 0 < R) (hC : 0 < C) (x x' : Nat) (hx : x < C.toNat) (hx' : x' < C.toNat) :
    flatOf R C ((x : Int), 0) = flatOf R C ((x' : Int), 0) ↔ x = x' := by
  rw [flatOf_eq_iff R C hR hC]
  simp only []
  rw [Int.emod_eq_of_lt (a := (x : Int)) (by omega) (by omega),
    Int.emod_eq_of_lt (a := (x' : Int)) (by omega) (by omega)]
  rw [and_true]
  omega

/-- the west column and the south row share exactly the site `(0, 0)` -/
theorem line_cross (R C : Int) (hR : 0 < R) (hC : 0 < C) :
    parity (fun i => parity (fun j => decide (flatOf R C j = flatOf R C i)) (rowN C.toNat)) (colN R.toNat) = true := by
  unfold colN rowN
  rw [parity_map]
  simp only [parity_map]
  have inner : ∀ y ∈ List.range R.toNat,
      parity (fun x : Nat => decide (flatOf R C ((x : Int), 0) = flatOf R C (0, (y : Int)))) (List.range C.toNat)
        = decide (y = 0) := by
    intro y hy
    have hy' := List.mem_range.mp hy
    by_cases h0 : y = 0
    · rw [parity_congr _ (fun x : Nat => decide (x = 0)) _ (by
        intro x hx
        apply decide_eq_decide.mpr
        rw [flat_row_col R C hR hC x y (List.mem_range.mp hx) hy']
        omega), parity_range_eq]
      apply decide_eq_decide.mpr; omega
    · rw [parity_congr _ (fun _ => false) _ (by
        intro x hx
        apply decide_eq_false
        rw [flat_row_col R C hR hC x y (List.mem_range.mp hx) hy']
        omega), parity_false]
      symm; apply decide_eq_false; exact h0
  rw [parity_congr _ _ _ inner, parity_range_eq]
  apply decide_eq_true; omega

/-- a column shares an even number of sites with itself (R is even) -/
theorem col_self (R C : Int) (hR : 0 < R) (hC : 0 < C) (hRe : R % 2 = 0) :
    parity (fun i => parity (fun j => decide (flatOf R C j = flatOf R C i)) (colN R.toNat)) (colN R.toNat) = false := by
  unfold colN
  rw [parity_map]
  simp only [parity_map]
  have inner : ∀ y ∈ List.range R.toNat,
      parity (fun y' : Nat => decide (flatOf R C (0, (y' : Int)) = flatOf R C (0, (y : Int)))) (List.range R.toNat)
        = true := by
    intro y hy
    have hy' := List.mem_range.mp hy
    rw [parity_congr _ (fun y' : Nat => decide (y' = y)) _ (by
      intro x hx
      apply decide_eq_decide.mpr
      exact flat_col_col R C hR hC x y (List.mem_range.mp hx) hy'), parity_range_eq]
    exact decide_eq_true hy'
  rw [parity_congr _ _ _ inner, parity_range_true]
  apply decide_eq_false; omega

/-- a row shares an even number of sites with itself (C is even) -/
theorem row_self (R C : Int) (hR : 0 < R) (hC : 0 < C) (hCe : C % 2 = 0) :
    parity (fun i => parity (fun j => decide (flatOf R C j = flatOf R C i)) (rowN C.toNat)) (rowN C.toNat) = false := by
  unfold rowN
  rw [parity_map]
  simp only [parity_map]
  have inner : ∀ x ∈ List.range C.toNat,
      parity (fun x' : Nat => decide (flatOf R C ((x' : Int), 0) = flatOf R C ((x : Int), 0))) (List.range C.toNat)
        = true := by
    intro x hx
    have hx' := List.mem_range.mp hx
    rw [parity_congr _ (fun x' : Nat => decide (x' = x)) _ (by
      intro z hz
      apply decide_eq_decide.mpr
      exact flat_row_row R C hR hC z x (List.mem_range.mp hz) hx'), parity_range_eq]
    exact decide_eq_true hx'
  rw [parity_congr _ _ _ inner, parity_range_true]
  apply decide_eq_false; omega

theorem logicalX1_eq (R C : Int) : logicalX1 R C = sites R C P1.X (identity R C) (colN R.toNat) := by
  unfold logicalX1; rw [westColumn_eq]
theorem logicalX2_eq (R C : Int) : logicalX2 R C = sites R C P1.X (identity R C) (rowN C.toNat) := by
  unfold logicalX2; rw [southRow_eq]
theorem logicalZ1_eq (R C : Int) : logicalZ1 R C = sites R C P1.Z (identity R C) (rowN C.toNat) := by
  unfold logicalZ1; rw [southRow_eq]
theorem logicalZ2_eq (R C : Int) : logicalZ2 R C = sites R C P1.Z (identity R C) (colN R.toNat) := by
  unfold logicalZ2; rw [westColumn_eq]

theorem bsp_X1_Z1 (R C : Int) (hR : 0 < R) (hC : 0 < C) : bsp (logicalX1 R C) (logicalZ1 R C) = true := by
  rw [logicalX1_eq, logicalZ1_eq, bsp_sites_sites R C hR hC, anti_XZ, Bool.true_and]
  exact line_cross R C hR hC
theorem bsp_X2_Z2 (R C : Int) (hR : 0 < R) (hC : 0 < C) : bsp (logicalX2 R C) (logicalZ2 R C) = true := by
  rw [logicalX2_eq, logicalZ2_eq, bsp_flip, bsp_sites_sites R C hR hC, anti_ZX, Bool.true_and]
  exact line_cross R C hR hC
theorem bsp_X1_Z2 (R C : Int) (hR : 0 < R) (hC : 0 < C) (hRe : R % 2 = 0) :
    bsp (logicalX1 R C) (logicalZ2 R C) = false := by
  rw [logicalX1_eq, logicalZ2_eq, bsp_sites_sites R C hR hC, anti_XZ, Bool.true_and]
  exact col_self R C hR hC hRe
theorem bsp_X2_Z1 (R C : Int) (hR : 0 < R) (hC : 0 < C) (hCe : C % 2 = 0) :
    bsp (logicalX2 R C) (logicalZ1 R C) = false := by
  rw [logicalX2_eq, logicalZ1_eq, bsp_sites_sites R C hR hC, anti_XZ, Bool.true_and]
  exact row_self R C hR hC hCe

/-! ### F. destabilisers: the model's own `path` from a plaquette to the reference plaquette of its type -/

/-- reference plaquette of the type of `q`: `(0, 0)` (a z-plaquette) or `(1, 0)` (an x-plaquette) -/
def refP (q : Int × Int) : Int × Int := if isZPlaquette q.1 q.2 then (0, 0) else (1, 0)

theorem isZ_00 : isZPlaquette 0 0 = true := by decide
theorem isZ_10 : isZPlaquette 1 0 = false := by decide

theorem refP_type (q : Int × Int) : isZPlaquette q.1 q.2 = isZPlaquette (refP q).1 (refP q).2 := by
  unfold refP
  cases h : isZPlaquette q.1 q.2
  · simp only [Bool.false_eq_true, if_false]; exact isZ_10.symm
  · simp only [if_true]; exact isZ_00.symm

theorem refP_cases (q : Int × Int) : refP q = (0, 0) ∨ refP q = (1, 0) := by
  unfold refP; split <;> simp

/-- destabiliser of plaquette `q`: `path(q, refP q)` of the model applied to the identity -/
def destabOp (R C : Int) (q : Int × Int) : BVec :=
  match path R C (identity R C) q (refP q) with
  | .ok v => v
  | .error _ => []

theorem destabOp_eq (R C : Int) (q : Int × Int) :
    destabOp R C q = sites R C (pathOp q) (identity R C)
      (if q = refP q then [] else pathSitesClosed q (trans1 C q.1 (refP q).1) (trans1 R q.2 (refP q).2)) := by
  unfold destabOp
  rw [path_eq R C q (refP q) (refP_type q)]

theorem destabOp_length (R C : Int) (q : Int × Int) : (destabOp R C q).length = 2 * nq R C := by
  rw [destabOp_eq]; exact siteop_length _ _ _ _

/-- the path from `q` to its reference plaquette anticommutes, among the generators of the in-lattice
    plaquettes other than the two reference plaquettes, exactly with the generator of `q` -/
theorem bsp_stab_destab (R C : Int) (hR : 2 ≤ R) (hC : 2 ≤ C) (hRe : R % 2 = 0) (hCe : C % 2 = 0)
    (p q : Int × Int) (hp : inBounds R C p.1 p.2 = true) (hq : inBounds R C q.1 q.2 = true)
    (hp0 : p ≠ (0, 0)) (hp1 : p ≠ (1, 0)) :
    bsp (stabOf R C p) (destabOp R C q) = decide (p = q) := by
  rw [destabOp_eq, bsp_comm _ _ (by rw [stabOf_length, siteop_length]) (by rw [stabOf_length]; omega),
    bsp_path_stab R C (by omega) (by omega) hRe hCe q (refP q) p (refP_type q)]
  have hr : inBounds R C (refP q).1 (refP q).2 = true := by
    rw [inBounds_iff]
    rcases refP_cases q with h | h <;> rw [h] <;> simp only [] <;> omega
  have h1 : decide (cong R C p (refP q)) = false := by
    apply decide_eq_false
    rw [cong_inb R C p (refP q) hp hr]
    rcases refP_cases q with h | h <;> rw [h]
    · exact hp0
    · exact hp1
  rw [h1, Bool.xor_false]
  exact decide_eq_decide.mpr (cong_inb R C p q hp hq)

/-! ### G. the dependency: every site lies in exactly two plaquettes of each type -/

/-- `p` has the plaquette type of `a` -/
def sameType (a p : Int × Int) : Bool := isZPlaquette p.1 p.2 == isZPlaquette a.1 a.2

theorem sameType_iff (a p : Int × Int) : sameType a p = true ↔ (p.1 - p.2 - (a.1 - a.2)) % 2 = 0 := by
  unfold sameType; rw [beq_iff_eq]; exact isZPlaquette_eq_iff p a

theorem plaquetteOp_same (a p : Int × Int) (h : sameType a p = true) :
    plaquetteOp p.1 p.2 = plaquetteOp a.1 a.2 := by
  unfold sameType at h
  rw [beq_iff_eq] at h
  unfold plaquetteOp; rw [h]

theorem sameType_modIndex (R C : Int) (hRe : R % 2 = 0) (hCe : C % 2 = 0) (a Q : Int × Int)
    (h : (Q.1 - Q.2 - (a.1 - a.2)) % 2 = 0) : sameType a (modIndex R C Q) = true := by
  rw [sameType_iff]
  have := cong_parity R C hRe hCe _ _ (cong_modIndex R C Q)
  omega

theorem xor_not_not (x y : Bool) : xor (!x) (!y) = xor x y := by cases x <;> cases y <;> rfl

/-- with the two plaquettes `Q`, `Q'` of the type of `a` around the site `s` named -/
theorem dep_core_aux (R C : Int) (hR : 0 < R) (hC : 0 < C) (hRe : R % 2 = 0) (hCe : C % 2 = 0)
    (l : List (Int × Int)) (hnd : l.Nodup) (hin : ∀ p ∈ l, inBounds R C p.1 p.2 = true)
    (a : Int × Int) (ha : inBounds R C a.1 a.2 = true)
    (hmem : ∀ p : Int × Int, inBounds R C p.1 p.2 = true → sameType a p = true → (p ∈ l ↔ p ≠ a))
    (s Q Q' : Int × Int) (hQx : Q.1 = s.1 - 1 ∨ Q.1 = s.1) (hQy : Q.2 = s.2 - 1 ∨ Q.2 = s.2)
    (hx : Q'.1 = 2 * s.1 - 1 - Q.1) (hy : Q'.2 = 2 * s.2 - 1 - Q.2)
    (hpar : (Q.1 - Q.2 - (a.1 - a.2)) % 2 = 0) :
    inc R C s a = parity (fun p => sameType a p && inc R C s p) l := by
  have hpar' : (Q'.1 - Q'.2 - (a.1 - a.2)) % 2 = 0 := by omega
  have tQ := sameType_modIndex R C hRe hCe a Q hpar
  have tQ' := sameType_modIndex R C hRe hCe a Q' hpar'
  have hterm : ∀ p ∈ l, (sameType a p && inc R C s p) =
      xor (decide (p = modIndex R C Q)) (decide (p = modIndex R C Q')) := by
    intro p hp
    by_cases ht : sameType a p = true
    · have hpp := (sameType_iff a p).mp ht
      rw [ht, Bool.true_and, site_flip2 R C hR hC hRe hCe s p Q Q' hQx hQy hx hy (by omega),
        decide_eq_decide.mpr (eq_modIndex_iff R C p Q (hin p hp)),
        decide_eq_decide.mpr (eq_modIndex_iff R C p Q' (hin p hp))]
    · have ht' : sameType a p = false := by simpa using ht
      have n1 : decide (p = modIndex R C Q) = false := by
        apply decide_eq_false; intro h; rw [h] at ht; exact ht tQ
      have n2 : decide (p = modIndex R C Q') = false := by
        apply decide_eq_false; intro h; rw [h] at ht; exact ht tQ'
      rw [ht', n1, n2]; rfl
  have e1 : decide (cong R C a Q) = decide (a = modIndex R C Q) :=
    (decide_eq_decide.mpr (eq_modIndex_iff R C a Q ha)).symm
  have e2 : decide (cong R C a Q') = decide (a = modIndex R C Q') :=
    (decide_eq_decide.mpr (eq_modIndex_iff R C a Q' ha)).symm
  rw [parity_congr _ _ l hterm, parity_xor, parity_eq_mem l hnd, parity_eq_mem l hnd,
    site_flip2 R C hR hC hRe hCe s a Q Q' hQx hQy hx hy (by omega), e1, e2]
  have m1 : modIndex R C Q ∈ l ↔ ¬ a = modIndex R C Q := by
    rw [hmem _ (inBounds_modIndex R C hR hC Q) tQ]
    exact ⟨fun h e => h e.symm, fun h e => h e.symm⟩
  have m2 : modIndex R C Q' ∈ l ↔ ¬ a = modIndex R C Q' := by
    rw [hmem _ (inBounds_modIndex R C hR hC Q') tQ']
    exact ⟨fun h e => h e.symm, fun h e => h e.symm⟩
  simp only [m1, m2, decide_not, xor_not_not]

/-- **double cover**: if `l` lists, without repetition, in-lattice plaquettes and contains every in-lattice
    plaquette of the type of `a` except `a` itself, then the incidence of any site with `a` is the XOR of its
    incidences with the plaquettes of that type in `l` -/
theorem dep_core (R C : Int) (hR : 0 < R) (hC : 0 < C) (hRe : R % 2 = 0) (hCe : C % 2 = 0)
    (l : List (Int × Int)) (hnd : l.Nodup) (hin : ∀ p ∈ l, inBounds R C p.1 p.2 = true)
    (a : Int × Int) (ha : inBounds R C a.1 a.2 = true)
    (hmem : ∀ p : Int × Int, inBounds R C p.1 p.2 = true → sameType a p = true → (p ∈ l ↔ p ≠ a))
    (s : Int × Int) :
    inc R C s a = parity (fun p => sameType a p && inc R C s p) l := by
  by_cases h : (s.1 - s.2 - (a.1 - a.2)) % 2 = 0
  · exact dep_core_aux R C hR hC hRe hCe l hnd hin a ha hmem s (s.1, s.2) (s.1 - 1, s.2 - 1)
      (Or.inr rfl) (Or.inr rfl) (by simp only []; omega) (by simp only []; omega) (by simp only []; omega)
  · exact dep_core_aux R C hR hC hRe hCe l hnd hin a ha hmem s (s.1 - 1, s.2) (s.1, s.2 - 1)
      (Or.inl rfl) (Or.inr rfl) (by simp only []; omega) (by simp only []; omega) (by simp only []; omega)

/-- the X- and Z-bit of a generator at the site `s` -/
theorem stab_bits (R C : Int) (hR : 0 < R) (hC : 0 < C) (p s : Int × Int) :
    (stabOf R C p).getD (flatOf R C s) false = ((plaquetteOp p.1 p.2).xBit && inc R C s p) ∧
    (stabOf R C p).getD (nq R C + flatOf R C s) false = ((plaquetteOp p.1 p.2).zBit && inc R C s p) :=
  getD_sites R C hR hC (plaquetteOp p.1 p.2) (plaquetteSites p.1 p.2) s

/-- the generator of `a` is the XOR of the generators of the other plaquettes of its type -/
theorem dep_span (R C : Int) (hR : 0 < R) (hC : 0 < C) (hRe : R % 2 = 0) (hCe : C % 2 = 0)
    (l : List (Int × Int)) (hnd : l.Nodup) (hin : ∀ p ∈ l, inBounds R C p.1 p.2 = true)
    (a : Int × Int) (ha : inBounds R C a.1 a.2 = true)
    (hmem : ∀ p : Int × Int, inBounds R C p.1 p.2 = true → sameType a p = true → (p ∈ l ↔ p ≠ a)) :
    InSpan (2 * nq R C) (l.map (stabOf R C)) (stabOf R C a) := by
  apply inSpan_of_bits (2 * nq R C) l (stabOf R C) (sameType a) (stabOf R C a)
    (fun p _ => stabOf_length R C p) (stabOf_length R C a)
  intro j hj
  rw [← parity_eq_xorSum]
  by_cases hlt : j < nq R C
  · obtain ⟨s, _, rfl⟩ := flatOf_surj R C hC j hlt
    rw [(stab_bits R C hR hC a s).1,
      parity_congr _ (fun p => (plaquetteOp a.1 a.2).xBit && (sameType a p && inc R C s p)) l (by
        intro p _
        rw [(stab_bits R C hR hC p s).1]
        by_cases ht : sameType a p = true
        · rw [plaquetteOp_same a p ht, ht, Bool.true_and, Bool.true_and]
        · have ht' : sameType a p = false := by simpa using ht
          rw [ht', Bool.false_and, Bool.false_and, Bool.and_false]),
      parity_const_and, ← dep_core R C hR hC hRe hCe l hnd hin a ha hmem s]
  · obtain ⟨j', rfl⟩ : ∃ j', j = nq R C + j' := ⟨j - nq R C, by omega⟩
    obtain ⟨s, _, rfl⟩ := flatOf_surj R C hC j' (by omega)
    rw [(stab_bits R C hR hC a s).2,
      parity_congr _ (fun p => (plaquetteOp a.1 a.2).zBit && (sameType a p && inc R C s p)) l (by
        intro p _
        rw [(stab_bits R C hR hC p s).2]
        by_cases ht : sameType a p = true
        · rw [plaquetteOp_same a p ht, ht, Bool.true_and, Bool.true_and]
        · have ht' : sameType a p = false := by simpa using ht
          rw [ht', Bool.false_and, Bool.false_and, Bool.and_false]),
      parity_const_and, ← dep_core R C hR hC hRe hCe l hnd hin a ha hmem s]

/-! ### H. the plaquette list without the two reference plaquettes; counts -/

/-- the plaquette index list with the two reference plaquettes `(0,0)` (z) and `(1,0)` (x) removed -/
def redIdx (R C : Int) : List (Int × Int) := ((plaquetteIndices R C).erase (0, 0)).erase (1, 0)

theorem inb_00 (R C : Int) (hR : 2 ≤ R) (hC : 2 ≤ C) : inBounds R C 0 0 = true := by
  rw [inBounds_iff]; omega
theorem inb_10 (R C : Int) (hR : 2 ≤ R) (hC : 2 ≤ C) : inBounds R C 1 0 = true := by
  rw [inBounds_iff]; omega

theorem redIdx_nodup (R C : Int) : (redIdx R C).Nodup :=
  ((nodup_plaquetteIndices R C).erase _).erase _

theorem mem_redIdx (R C : Int) (p : Int × Int) :
    p ∈ redIdx R C ↔ (p ≠ (1, 0) ∧ p ≠ (0, 0) ∧ inBounds R C p.1 p.2 = true) := by
  unfold redIdx
  rw [((nodup_plaquetteIndices R C).erase _).mem_erase_iff, (nodup_plaquetteIndices R C).mem_erase_iff,
    mem_plaquetteIndices]

theorem redIdx_sublist (R C : Int) : (redIdx R C).Sublist (plaquetteIndices R C) :=
  (List.erase_sublist).trans (List.erase_sublist)

theorem redIdx_length (R C : Int) (hR : 2 ≤ R) (hC : 2 ≤ C) :
    (redIdx R C).length + 2 = (plaquetteIndices R C).length := by
  have h0 : ((0 : Int), (0 : Int)) ∈ plaquetteIndices R C := (mem_plaquetteIndices R C _).mpr (inb_00 R C hR hC)
  have h1 : ((1 : Int), (0 : Int)) ∈ (plaquetteIndices R C).erase (0, 0) := by
    rw [(nodup_plaquetteIndices R C).mem_erase_iff, mem_plaquetteIndices]
    exact ⟨by decide, inb_10 R C hR hC⟩
  unfold redIdx
  rw [List.length_erase_of_mem h1, List.length_erase_of_mem h0]
  have := List.length_pos_of_mem h1
  rw [List.length_erase_of_mem h0] at this
  omega

theorem countP_add_not {α : Type} (p : α → Bool) (l : List α) :
    List.countP p l + List.countP (fun x => !p x) l = l.length := by
  induction l with
  | nil => rfl
  | cons x l ih =>
    simp only [List.countP_cons, List.length_cons]
    cases h : p x <;> simp <;> omega

theorem length_grid {α : Type} (a b : Nat) (f : Nat → Nat → α) :
    ((List.range a).flatMap fun y => (List.range b).map (f y)).length = a * b := by
  induction a with
  | zero => simp
  | succ a ih =>
    rw [List.range_succ, List.flatMap_append, List.length_append, ih]
    simp [Nat.succ_mul]

theorem plaquetteIndices_length (R C : Int) (hR : 0 ≤ R) (hC : 0 ≤ C) :
    (plaquetteIndices R C).length = nq R C := by
  rw [plaquetteIndices_eq, List.length_append, ← List.countP_eq_length_filter, ← List.countP_eq_length_filter,
    countP_add_not (fun i : Int × Int => isZPlaquette i.1 i.2), nq_eq R C hR hC]
  unfold allIdx
  rw [length_grid, show maxY R + 1 = R by unfold maxY; omega, show maxX C + 1 = C by unfold maxX; omega]

end Qec.RotatedToricCode
