import QecVerif.Model.Lattice.Planar
import QecVerif.Lemmas.GF2
namespace Qec.Planar
end Qec.Planar
