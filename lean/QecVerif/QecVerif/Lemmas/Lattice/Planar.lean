/-
  Helper lemmas for the planar lattice model (`Model/Lattice/Planar.lean`), shared by C15 / C07 / C02.

  Contents
  * `par` — parity (XOR) of a list of Booleans, telescoping;
  * bit-level description of `toggle`, `applyOp`, `site`, `sites` (`getD_sites`: the toggle/bit lemma);
  * `dot`/`bsp` of a toggled vector (`bsp_applyOp`, `bsp_sites`);
  * `flatten` is injective on in-bounds sites and lands in `[0, nQubits)` (for `R, C ≥ 2`);
  * `bsp_sites_sites`: the symplectic product of two site-operators is the parity of the number of
    common in-bounds sites if their types anticommute, `false` otherwise;
  * straight runs and paths (`step_vertical`, `run_down`, …, `common_pathSites`, `bsp_pathSites_plaquette`);
  * `mem_plaquetteIndices`, `nodup_plaquetteIndices`, `translation_exact`, `translation_zero`;
  * weight of a site-operator (`bsfWt_eq_countP`, `bsfWt_sites_le`, `bsfWt_sites_eq`, `bsfWt_pathSites`);
  * read-back (`operatorAt_sites`), unit syndromes (`filterMap_zip_unit`), stabilizers / logicals as site-operators.
-/
import QecVerif.Model.Lattice.Planar
import QecVerif.Lemmas.GF2
namespace Qec.Planar
open Qec

/-! ### parity of a Boolean list -/

/-- XOR of all entries -/
def par : List Bool → Bool
  | [] => false
  | b :: l => xor b (par l)

@[simp] theorem par_nil : par [] = false := rfl
@[simp] theorem par_cons (b : Bool) (l : List Bool) : par (b :: l) = xor b (par l) := rfl

theorem par_append (l l' : List Bool) : par (l ++ l') = xor (par l) (par l') := by
  induction l with
  | nil => simp
  | cons b l ih => simp [ih]

theorem par_map_false {α} (l : List α) (f : α → Bool) (h : ∀ a ∈ l, f a = false) : par (l.map f) = false := by
  induction l with
  | nil => rfl
  | cons a l ih =>
    simp only [List.map_cons, par_cons, h a (by simp), ih (fun b hb => h b (by simp [hb]))]; rfl

theorem par_map_congr {α} (l : List α) (f g : α → Bool) (h : ∀ a ∈ l, f a = g a) :
    par (l.map f) = par (l.map g) := by
  rw [List.map_congr_left h]

theorem par_map_xor {α} (l : List α) (f g : α → Bool) :
    par (l.map fun a => xor (f a) (g a)) = xor (par (l.map f)) (par (l.map g)) := by
  induction l with
  | nil => rfl
  | cons a l ih =>
    simp only [List.map_cons, par_cons, ih]
    cases f a <;> cases g a <;> cases par (l.map f) <;> cases par (l.map g) <;> rfl

theorem par_map_and_left {α} (l : List α) (b : Bool) (f : α → Bool) :
    par (l.map fun a => b && f a) = (b && par (l.map f)) := by
  induction l with
  | nil => simp
  | cons a l ih =>
    simp only [List.map_cons, par_cons, ih]
    cases b <;> rfl

/-- telescoping: if the `i`-th entry is `g i ^^ g (i+1)` the parity over `i < k` is `g 0 ^^ g k` -/
theorem par_range_telescope (k : Nat) (f g : Nat → Bool) (h : ∀ i, i < k → f i = xor (g i) (g (i + 1))) :
    par ((List.range k).map f) = xor (g 0) (g k) := by
  induction k with
  | zero => simp
  | succ k ih =>
    rw [List.range_succ, List.map_append, par_append, ih (fun i hi => h i (by omega))]
    simp only [List.map_cons, List.map_nil, par_cons, par_nil, h k (by omega)]
    cases g 0 <;> cases g k <;> cases g (k + 1) <;> rfl

/-- in a duplicate-free list the parity of the number of entries equal to `a` is membership -/
theorem par_map_decide_eq {α} [DecidableEq α] (l : List α) (a : α) (h : l.Nodup) :
    par (l.map fun b => decide (b = a)) = decide (a ∈ l) := by
  induction l with
  | nil => simp
  | cons b l ih =>
    rw [List.nodup_cons] at h
    simp only [List.map_cons, par_cons, ih h.2, List.mem_cons]
    by_cases hb : b = a
    · subst hb; simp [h.1]
    · have : ¬ a = b := fun e => hb e.symm
      simp [hb, this]

/-! ### toggling bits -/

@[simp] theorem toggle_length (v : BVec) (i : Nat) : (toggle v i).length = v.length := by
  simp [toggle]

/-- bit `j` after `v[i] ^= 1` -/
theorem getD_toggle (v : BVec) (i j : Nat) :
    (toggle v i).getD j false = xor (v.getD j false) (decide (i = j) && decide (j < v.length)) := by
  simp only [toggle, List.getD_eq_getElem?_getD, List.getElem?_modify]
  by_cases hj : j < v.length
  · rw [List.getElem?_eq_getElem hj]
    by_cases hij : i = j <;> simp [hij, hj]
  · rw [List.getElem?_eq_none (by omega)]; simp [hj]

@[simp] theorem applyOp_length (n : Nat) (op : P1) (v : BVec) (f : Nat) : (applyOp n op v f).length = v.length := by
  unfold applyOp; split <;> split <;> simp

/-- bit `j` after applying `op` at flat qubit index `f` -/
theorem getD_applyOp (n : Nat) (op : P1) (v : BVec) (f j : Nat) (hj : j < v.length) :
    (applyOp n op v f).getD j false =
      xor (v.getD j false) (xor (op.xBit && decide (f = j)) (op.zBit && decide (n + f = j))) := by
  unfold applyOp
  cases hx : op.xBit <;> cases hz : op.zBit <;>
    simp only [↓reduceIte, Bool.false_eq_true, getD_toggle, toggle_length, hj, decide_true, Bool.and_true,
      Bool.false_and, Bool.true_and, Bool.xor_false, Bool.false_xor, Bool.xor_assoc]

@[simp] theorem site_length (R C : Int) (op : P1) (v : BVec) (s : Int × Int) : (site R C op v s).length = v.length := by
  unfold site; split <;> simp

@[simp] theorem sites_length (R C : Int) (op : P1) (v : BVec) (l : List (Int × Int)) :
    (sites R C op v l).length = v.length := by
  unfold sites
  induction l generalizing v with
  | nil => rfl
  | cons s l ih => simp [List.foldl_cons, ih]

@[simp] theorem identity_length (R C : Int) : (identity R C).length = 2 * (nQubits R C).toNat := by
  simp [identity, zeros]

theorem getD_identity (R C : Int) (j : Nat) : (identity R C).getD j false = false := by
  simp only [identity, zeros, List.getD_eq_getElem?_getD, List.getElem?_replicate]
  split <;> rfl

@[simp] theorem sites_nil (R C : Int) (op : P1) (v : BVec) : sites R C op v [] = v := rfl
theorem sites_cons (R C : Int) (op : P1) (v : BVec) (s : Int × Int) (l : List (Int × Int)) :
    sites R C op v (s :: l) = sites R C op (site R C op v s) l := rfl
theorem sites_append (R C : Int) (op : P1) (v : BVec) (l l' : List (Int × Int)) :
    sites R C op v (l ++ l') = sites R C op (sites R C op v l) l' := by
  simp [sites, List.foldl_append]

/-- does applying `op` at site `s` toggle bit `j`? -/
def hit (R C : Int) (op : P1) (j : Nat) (s : Int × Int) : Bool :=
  inBounds R C s.1 s.2 &&
    xor (op.xBit && decide ((flatten R C s.1 s.2).toNat = j))
        (op.zBit && decide ((nQubits R C).toNat + (flatten R C s.1 s.2).toNat = j))

theorem getD_site (R C : Int) (op : P1) (v : BVec) (s : Int × Int) (j : Nat) (hj : j < v.length) :
    (site R C op v s).getD j false = xor (v.getD j false) (hit R C op j s) := by
  unfold site hit
  split
  · next h => rw [getD_applyOp _ _ _ _ _ hj, h]; simp
  · next h => simp [h]

/-- **toggle/bit lemma**: bit `j` of `sites R C op v l` is bit `j` of `v` XOR the parity of the number
    of in-bounds members of `l` whose flat index (in the half selected by `op`) is `j` -/
theorem getD_sites (R C : Int) (op : P1) (v : BVec) (l : List (Int × Int)) (j : Nat) (hj : j < v.length) :
    (sites R C op v l).getD j false = xor (v.getD j false) (par (l.map (hit R C op j))) := by
  induction l generalizing v with
  | nil => simp
  | cons s l ih =>
    rw [sites_cons, ih _ (by simpa using hj), getD_site _ _ _ _ _ _ hj]
    simp

/-! ### `dot` / `bsp` of a toggled vector -/

theorem toggle_append_left (x z : BVec) (i : Nat) (hi : i < x.length) : toggle (x ++ z) i = toggle x i ++ z := by
  induction x generalizing i with
  | nil => simp at hi
  | cons a x ih =>
    cases i with
    | zero => simp [toggle]
    | succ i =>
      have := ih i (by simpa using hi)
      simp only [toggle] at this ⊢
      simp [this]

theorem toggle_append_right (x z : BVec) (i : Nat) : toggle (x ++ z) (x.length + i) = x ++ toggle z i := by
  induction x with
  | nil => simp
  | cons a x ih =>
    simp only [toggle] at ih ⊢
    rw [List.length_cons, show x.length + 1 + i = (x.length + i) + 1 by omega, List.cons_append,
      List.modify_succ_cons, ih, List.cons_append]

theorem dot_toggle (u w : BVec) (i : Nat) (hi : i < u.length) :
    dot (toggle u i) w = xor (dot u w) (w.getD i false) := by
  induction u generalizing i w with
  | nil => simp at hi
  | cons a u ih =>
    cases w with
    | nil => simp
    | cons b w =>
      cases i with
      | zero =>
        simp only [toggle, List.modify_zero_cons, dot_cons, List.getD_cons_zero]
        cases a <;> cases b <;> cases dot u w <;> rfl
      | succ i =>
        have := ih w i (by simpa using hi)
        simp only [toggle] at this
        simp only [toggle, List.modify_succ_cons, dot_cons, List.getD_cons_succ, this]
        cases (a && b) <;> cases dot u w <;> cases w.getD i false <;> rfl

theorem getD_xHalf (w : BVec) (n f : Nat) (hw : w.length = 2 * n) (hf : f < n) :
    (xHalf w).getD f false = w.getD f false := by
  simp only [xHalf, List.getD_eq_getElem?_getD, List.getElem?_take, hw]
  rw [if_pos (by omega)]

theorem getD_zHalf (w : BVec) (n f : Nat) (hw : w.length = 2 * n) :
    (zHalf w).getD f false = w.getD (n + f) false := by
  simp only [zHalf, List.getD_eq_getElem?_getD, List.getElem?_drop, hw]
  rw [show 2 * n / 2 = n by omega]

theorem xHalf_toggle_lt (v : BVec) (n f : Nat) (hv : v.length = 2 * n) (hf : f < n) :
    xHalf (toggle v f) = toggle (xHalf v) f ∧ zHalf (toggle v f) = zHalf v := by
  have hx : (xHalf v).length = n := by rw [xHalf_length, hv]; omega
  have hz : (zHalf v).length = n := by rw [zHalf_length, hv]; omega
  have h : toggle v f = toggle (xHalf v) f ++ zHalf v := by
    conv => lhs; rw [← half_append v]
    exact toggle_append_left _ _ _ (by omega)
  rw [h]
  exact ⟨xHalf_append _ _ (by simp [hx, hz]), zHalf_append _ _ (by simp [hx, hz])⟩

theorem xHalf_toggle_ge (v : BVec) (n f : Nat) (hv : v.length = 2 * n) :
    xHalf (toggle v (n + f)) = xHalf v ∧ zHalf (toggle v (n + f)) = toggle (zHalf v) f := by
  have hx : (xHalf v).length = n := by rw [xHalf_length, hv]; omega
  have hz : (zHalf v).length = n := by rw [zHalf_length, hv]; omega
  have h : toggle v (n + f) = xHalf v ++ toggle (zHalf v) f := by
    conv => lhs; rw [← half_append v, ← hx]
    exact toggle_append_right _ _ _
  rw [h]
  exact ⟨xHalf_append _ _ (by simp [hx, hz]), zHalf_append _ _ (by simp [hx, hz])⟩

/-- toggling an X bit `f < n` of `v` flips `bsp v w` iff the Z bit `f` of `w` is set -/
theorem bsp_toggle_x (n : Nat) (v w : BVec) (hv : v.length = 2 * n) (hw : w.length = 2 * n) (f : Nat) (hf : f < n) :
    bsp (toggle v f) w = xor (bsp v w) (w.getD (n + f) false) := by
  have hx : (xHalf v).length = n := by rw [xHalf_length, hv]; omega
  rw [bsp_halves _ _ (by simp [hv, hw]) (by simp [hv]), bsp_halves _ _ (by simp [hv, hw]) (by simp [hv]),
    (xHalf_toggle_lt v n f hv hf).1, (xHalf_toggle_lt v n f hv hf).2, dot_toggle _ _ _ (by omega),
    getD_zHalf w n f hw]
  simp

/-- toggling a Z bit `n + f` of `v` flips `bsp v w` iff the X bit `f` of `w` is set -/
theorem bsp_toggle_z (n : Nat) (v w : BVec) (hv : v.length = 2 * n) (hw : w.length = 2 * n) (f : Nat) (hf : f < n) :
    bsp (toggle v (n + f)) w = xor (bsp v w) (w.getD f false) := by
  have hz : (zHalf v).length = n := by rw [zHalf_length, hv]; omega
  rw [bsp_halves _ _ (by simp [hv, hw]) (by simp [hv]), bsp_halves _ _ (by simp [hv, hw]) (by simp [hv]),
    (xHalf_toggle_ge v n f hv).1, (xHalf_toggle_ge v n f hv).2, dot_toggle _ _ _ (by omega),
    getD_xHalf w n f hw hf]
  cases dot (zHalf v) (xHalf w) <;> cases dot (xHalf v) (zHalf w) <;> cases w.getD f false <;> rfl

theorem bsp_applyOp (n : Nat) (op : P1) (v w : BVec) (hv : v.length = 2 * n) (hw : w.length = 2 * n)
    (f : Nat) (hf : f < n) :
    bsp (applyOp n op v f) w =
      xor (bsp v w) (xor (op.xBit && w.getD (n + f) false) (op.zBit && w.getD f false)) := by
  unfold applyOp
  cases hx : op.xBit <;> cases hz : op.zBit <;>
    simp only [↓reduceIte, Bool.false_eq_true, Bool.false_and, Bool.true_and, Bool.xor_false, Bool.false_xor]
  · exact bsp_toggle_z n v w hv hw f hf
  · exact bsp_toggle_x n v w hv hw f hf
  · rw [bsp_toggle_z n _ w (by simp [hv]) hw f hf, bsp_toggle_x n v w hv hw f hf, Bool.xor_assoc]

theorem bsp_zeros_left (m : Nat) (w : BVec) : bsp (zeros m) w = false := by
  have : ∀ (k : Nat) (w : BVec), dot (List.replicate k false) w = false := by
    intro k
    induction k with
    | zero => intro w; simp
    | succ k ih => intro w; cases w with
      | nil => simp
      | cons b w => simp [List.replicate_succ, ih]
  unfold bsp zeros zHalf xHalf
  rw [List.drop_replicate, List.take_replicate, List.replicate_append_replicate]
  exact this _ _

/-! ### index predicates as arithmetic -/

theorem inBounds_iff (R C r c : Int) :
    inBounds R C r c = true ↔ 0 ≤ r ∧ r ≤ 2 * R - 2 ∧ 0 ≤ c ∧ c ≤ 2 * C - 2 := by
  show (decide (0 ≤ r) && decide (r ≤ 2 * R - 2) && decide (0 ≤ c) && decide (c ≤ 2 * C - 2)) = true ↔ _
  simp only [Bool.and_eq_true, decide_eq_true_eq, and_assoc]

theorem inBounds_eq_false_iff (R C r c : Int) :
    inBounds R C r c = false ↔ ¬ (0 ≤ r ∧ r ≤ 2 * R - 2 ∧ 0 ≤ c ∧ c ≤ 2 * C - 2) := by
  rw [← inBounds_iff, Bool.not_eq_true]

theorem isPlaquette_iff (r c : Int) : isPlaquette r c = true ↔ (r + c) % 2 = 1 := by
  simp [isPlaquette]

theorem isPlaquette_eq_false_iff (r c : Int) : isPlaquette r c = false ↔ (r + c) % 2 = 0 := by
  rw [← Bool.not_eq_true, isPlaquette_iff]; omega

theorem isSite_iff (r c : Int) : isSite r c = true ↔ (r + c) % 2 = 0 := by
  simp only [isSite, Bool.not_eq_eq_eq_not, Bool.not_true, isPlaquette_eq_false_iff]

/-- an index is on the primal lattice iff its column is even -/
theorem isPrimal_iff (r c : Int) : isPrimal r c = true ↔ c % 2 = 0 := by
  simp only [isPrimal, isSite, isPlaquette, Bool.or_eq_true, Bool.and_eq_true, beq_iff_eq, Bool.not_eq_eq_eq_not,
    Bool.not_true, beq_eq_false_iff_ne, ne_eq]
  omega

theorem isPrimal_eq_false_iff (r c : Int) : isPrimal r c = false ↔ c % 2 = 1 := by
  rw [← Bool.not_eq_true, isPrimal_iff]; omega

theorem isPrimal_eq_iff (r c r' c' : Int) : isPrimal r c = isPrimal r' c' ↔ c % 2 = c' % 2 := by
  cases h : isPrimal r c <;> cases h' : isPrimal r' c' <;>
    simp only [isPrimal_iff, isPrimal_eq_false_iff] at h h' <;> simp <;> omega

/-! ### `flatten`: range and injectivity on in-bounds sites -/

theorem mul_add_inj (C i j i' j' : Int) (hj : 0 ≤ j) (hjC : j < C) (hj' : 0 ≤ j') (hj'C : j' < C)
    (h : i * C + j = i' * C + j') : i = i' ∧ j = j' := by
  rcases Int.lt_trichotomy i i' with hlt | heq | hgt
  · have := Int.mul_le_mul_of_nonneg_right (show i + 1 ≤ i' by omega) (show 0 ≤ C by omega)
    rw [Int.add_mul, Int.one_mul] at this
    omega
  · subst heq; omega
  · have := Int.mul_le_mul_of_nonneg_right (show i' + 1 ≤ i by omega) (show 0 ≤ C by omega)
    rw [Int.add_mul, Int.one_mul] at this
    omega

theorem mul_add_lt (C R i j : Int) (hi : 0 ≤ i) (hiR : i < R) (hj : 0 ≤ j) (hjC : j < C) :
    0 ≤ i * C + j ∧ i * C + j < R * C := by
  have h1 := Int.mul_le_mul_of_nonneg_right (show i + 1 ≤ R by omega) (show 0 ≤ C by omega)
  rw [Int.add_mul, Int.one_mul] at h1
  have h2 := Int.mul_nonneg hi (show 0 ≤ C by omega)
  omega

theorem flatten_even (R C r c : Int) (hr : r % 2 = 0) (hc : c % 2 = 0) :
    flatten R C r c = r / 2 * C + c / 2 := by
  unfold flatten; rw [hr, hc]; simp

theorem flatten_odd (R C r c : Int) (hr : r % 2 = 1) (hc : c % 2 = 1) :
    flatten R C r c = r / 2 * (C - 1) + c / 2 + R * C := by
  unfold flatten; rw [hr, hc]; simp

/-- sites in the lattice: even–even ("primal" sites) come first, odd–odd after `R * C` -/
theorem flatten_cases (R C r c : Int) (hs : isSite r c = true) (hb : inBounds R C r c = true) :
    (r % 2 = 0 ∧ c % 2 = 0 ∧ flatten R C r c = r / 2 * C + c / 2 ∧
        0 ≤ flatten R C r c ∧ flatten R C r c < R * C) ∨
    (r % 2 = 1 ∧ c % 2 = 1 ∧ flatten R C r c = r / 2 * (C - 1) + c / 2 + R * C ∧
        R * C ≤ flatten R C r c ∧ flatten R C r c < R * C + (R - 1) * (C - 1)) := by
  rw [isSite_iff] at hs
  rw [inBounds_iff] at hb
  by_cases hr : r % 2 = 0
  · have hc : c % 2 = 0 := by omega
    left
    have := mul_add_lt C R (r / 2) (c / 2) (by omega) (by omega) (by omega) (by omega)
    rw [flatten_even R C r c hr hc]
    exact ⟨hr, hc, rfl, this.1, this.2⟩
  · have hr : r % 2 = 1 := by omega
    have hc : c % 2 = 1 := by omega
    right
    have := mul_add_lt (C - 1) (R - 1) (r / 2) (c / 2) (by omega) (by omega) (by omega) (by omega)
    rw [flatten_odd R C r c hr hc]
    exact ⟨hr, hc, rfl, by omega, by omega⟩

/-- **flatten range** -/
theorem flatten_nonneg_lt (R C r c : Int) (hR : 2 ≤ R) (hC : 2 ≤ C) (hs : isSite r c = true)
    (hb : inBounds R C r c = true) : 0 ≤ flatten R C r c ∧ flatten R C r c < nQubits R C := by
  have h0 := Int.mul_nonneg (show 0 ≤ R - 1 by omega) (show 0 ≤ C - 1 by omega)
  have h1 := Int.mul_nonneg (show 0 ≤ R by omega) (show 0 ≤ C by omega)
  unfold nQubits
  rcases flatten_cases R C r c hs hb with h | h <;> omega

/-- **flatten injectivity** on in-bounds sites -/
theorem flatten_inj (R C : Int) (s s' : Int × Int)
    (hs : isSite s.1 s.2 = true) (hb : inBounds R C s.1 s.2 = true)
    (hs' : isSite s'.1 s'.2 = true) (hb' : inBounds R C s'.1 s'.2 = true)
    (h : flatten R C s.1 s.2 = flatten R C s'.1 s'.2) : s = s' := by
  obtain ⟨r, c⟩ := s
  obtain ⟨r', c'⟩ := s'
  simp only at hs hb hs' hb' h
  have hbb := (inBounds_iff _ _ _ _).1 hb
  have hbb' := (inBounds_iff _ _ _ _).1 hb'
  rcases flatten_cases R C r c hs hb with ⟨e1, e2, e3, e4, e5⟩ | ⟨e1, e2, e3, e4, e5⟩ <;>
  rcases flatten_cases R C r' c' hs' hb' with ⟨f1, f2, f3, f4, f5⟩ | ⟨f1, f2, f3, f4, f5⟩
  · rw [e3, f3] at h
    have := mul_add_inj C _ _ _ _ (by omega) (by omega) (by omega) (by omega) h
    rw [Prod.mk.injEq]; omega
  · omega
  · omega
  · rw [e3, f3] at h
    have := mul_add_inj (C - 1) (r / 2) (c / 2) (r' / 2) (c' / 2) (by omega) (by omega) (by omega) (by omega)
      (by omega)
    rw [Prod.mk.injEq]; omega

/-- the flat index as a natural number -/
theorem flatten_toNat_lt (R C r c : Int) (hR : 2 ≤ R) (hC : 2 ≤ C) (hs : isSite r c = true)
    (hb : inBounds R C r c = true) : (flatten R C r c).toNat < (nQubits R C).toNat := by
  have := flatten_nonneg_lt R C r c hR hC hs hb
  omega

theorem flatten_toNat_inj (R C : Int) (hR : 2 ≤ R) (hC : 2 ≤ C) (s s' : Int × Int)
    (hs : isSite s.1 s.2 = true) (hb : inBounds R C s.1 s.2 = true)
    (hs' : isSite s'.1 s'.2 = true) (hb' : inBounds R C s'.1 s'.2 = true)
    (h : (flatten R C s.1 s.2).toNat = (flatten R C s'.1 s'.2).toNat) : s = s' := by
  have h1 := flatten_nonneg_lt R C _ _ hR hC hs hb
  have h2 := flatten_nonneg_lt R C _ _ hR hC hs' hb'
  exact flatten_inj R C s s' hs hb hs' hb' (by omega)

/-! ### symplectic products of site-operators -/

/-- every member is a site index -/
def AllSites (l : List (Int × Int)) : Prop := ∀ s ∈ l, isSite s.1 s.2 = true

theorem AllSites.cons {s : Int × Int} {l : List (Int × Int)} (h : AllSites (s :: l)) :
    isSite s.1 s.2 = true ∧ AllSites l :=
  ⟨h s (by simp), fun t ht => h t (by simp [ht])⟩

theorem AllSites.append {l l' : List (Int × Int)} (h : AllSites l) (h' : AllSites l') : AllSites (l ++ l') := by
  intro s hs
  rcases List.mem_append.1 hs with h1 | h1
  · exact h s h1
  · exact h' s h1

/-- parity of the number of occurrences of `s` in `l` -/
def occ (l : List (Int × Int)) (s : Int × Int) : Bool := par (l.map fun s' => decide (s' = s))

/-- parity of the number of pairs (member of `l`, equal member of `l'`) that lie in the lattice:
    for duplicate-free lists, the parity of the number of common in-bounds sites -/
def common (R C : Int) (l l' : List (Int × Int)) : Bool :=
  par (l.map fun s => inBounds R C s.1 s.2 && occ l' s)

theorem bsp_site (R C : Int) (hR : 2 ≤ R) (hC : 2 ≤ C) (op : P1) (v w : BVec)
    (hv : v.length = 2 * (nQubits R C).toNat) (hw : w.length = 2 * (nQubits R C).toNat)
    (s : Int × Int) (hs : isSite s.1 s.2 = true) :
    bsp (site R C op v s) w = xor (bsp v w) (inBounds R C s.1 s.2 &&
      xor (op.xBit && w.getD ((nQubits R C).toNat + (flatten R C s.1 s.2).toNat) false)
          (op.zBit && w.getD (flatten R C s.1 s.2).toNat false)) := by
  unfold site
  split
  · next h =>
    rw [bsp_applyOp _ _ _ _ hv hw _ (flatten_toNat_lt R C _ _ hR hC hs h), h]; simp
  · next h => simp [h]

/-- `bsp` of a site-operator against any vector: one read-back of `w` per in-bounds site -/
theorem bsp_sites (R C : Int) (hR : 2 ≤ R) (hC : 2 ≤ C) (op : P1) (v w : BVec)
    (hv : v.length = 2 * (nQubits R C).toNat) (hw : w.length = 2 * (nQubits R C).toNat)
    (l : List (Int × Int)) (hl : AllSites l) :
    bsp (sites R C op v l) w = xor (bsp v w) (par (l.map fun s => inBounds R C s.1 s.2 &&
      xor (op.xBit && w.getD ((nQubits R C).toNat + (flatten R C s.1 s.2).toNat) false)
          (op.zBit && w.getD (flatten R C s.1 s.2).toNat false))) := by
  induction l generalizing v with
  | nil => simp
  | cons s l ih =>
    rw [sites_cons, ih _ (by simpa using hv) hl.cons.2, bsp_site R C hR hC op v w hv hw s hl.cons.1]
    simp only [List.map_cons, par_cons, Bool.xor_assoc]

theorem identity_bsp (R C : Int) (w : BVec) : bsp (identity R C) w = false := bsp_zeros_left _ _

/-- X bit of the site-operator of `l` (built from the identity) at an in-bounds site `s` -/
theorem getD_sites_x (R C : Int) (hR : 2 ≤ R) (hC : 2 ≤ C) (op : P1) (l : List (Int × Int)) (hl : AllSites l)
    (s : Int × Int) (hs : isSite s.1 s.2 = true) (hb : inBounds R C s.1 s.2 = true) :
    (sites R C op (identity R C) l).getD (flatten R C s.1 s.2).toNat false = (op.xBit && occ l s) := by
  have hf := flatten_toNat_lt R C _ _ hR hC hs hb
  rw [getD_sites _ _ _ _ _ _ (by rw [identity_length]; omega), getD_identity, Bool.false_xor, occ,
    ← par_map_and_left]
  apply par_map_congr
  intro s' hs'
  unfold hit
  by_cases hb' : inBounds R C s'.1 s'.2 = true
  · have hf' := flatten_toNat_lt R C _ _ hR hC (hl s' hs') hb'
    have e2 : decide ((nQubits R C).toNat + (flatten R C s'.1 s'.2).toNat = (flatten R C s.1 s.2).toNat) = false :=
      decide_eq_false (by omega)
    have e1 : decide ((flatten R C s'.1 s'.2).toNat = (flatten R C s.1 s.2).toNat) = decide (s' = s) := by
      apply decide_eq_decide.mpr
      constructor
      · exact flatten_toNat_inj R C hR hC s' s (hl s' hs') hb' hs hb
      · intro e; rw [e]
    rw [hb', e1, e2]; simp
  · have hne : ¬ s' = s := by intro e; rw [e] at hb'; exact hb' hb
    simp [hb', hne]

/-- Z bit of the site-operator of `l` (built from the identity) at an in-bounds site `s` -/
theorem getD_sites_z (R C : Int) (hR : 2 ≤ R) (hC : 2 ≤ C) (op : P1) (l : List (Int × Int)) (hl : AllSites l)
    (s : Int × Int) (hs : isSite s.1 s.2 = true) (hb : inBounds R C s.1 s.2 = true) :
    (sites R C op (identity R C) l).getD ((nQubits R C).toNat + (flatten R C s.1 s.2).toNat) false =
      (op.zBit && occ l s) := by
  have hf := flatten_toNat_lt R C _ _ hR hC hs hb
  rw [getD_sites _ _ _ _ _ _ (by rw [identity_length]; omega), getD_identity, Bool.false_xor, occ,
    ← par_map_and_left]
  apply par_map_congr
  intro s' hs'
  unfold hit
  by_cases hb' : inBounds R C s'.1 s'.2 = true
  · have hf' := flatten_toNat_lt R C _ _ hR hC (hl s' hs') hb'
    have e2 : decide ((flatten R C s'.1 s'.2).toNat = (nQubits R C).toNat + (flatten R C s.1 s.2).toNat) = false :=
      decide_eq_false (by omega)
    have e1 : decide ((nQubits R C).toNat + (flatten R C s'.1 s'.2).toNat =
        (nQubits R C).toNat + (flatten R C s.1 s.2).toNat) = decide (s' = s) := by
      apply decide_eq_decide.mpr
      constructor
      · intro e; exact flatten_toNat_inj R C hR hC s' s (hl s' hs') hb' hs hb (by omega)
      · intro e; rw [e]
    rw [hb', e1, e2]; simp
  · have hne : ¬ s' = s := by intro e; rw [e] at hb'; exact hb' hb
    simp [hb', hne]

/-- **bsp of two site-operators**: they anticommute iff their single-qubit types anticommute (X/Z, X/Y, Y/Z)
    and the number of common in-bounds sites (with multiplicity) is odd -/
theorem bsp_sites_sites (R C : Int) (hR : 2 ≤ R) (hC : 2 ≤ C) (op op' : P1) (l l' : List (Int × Int))
    (hl : AllSites l) (hl' : AllSites l') :
    bsp (sites R C op (identity R C) l) (sites R C op' (identity R C) l') =
      (P1.anti op op' && common R C l l') := by
  rw [bsp_sites R C hR hC op _ _ (identity_length R C) (by simp) l hl, identity_bsp, Bool.false_xor, common,
    ← par_map_and_left]
  apply par_map_congr
  intro s hs
  by_cases hb : inBounds R C s.1 s.2 = true
  · rw [getD_sites_x R C hR hC op' l' hl' s (hl s hs) hb, getD_sites_z R C hR hC op' l' hl' s (hl s hs) hb, hb]
    cases op <;> cases op' <;> cases occ l' s <;> rfl
  · simp [hb]

/-! ### plaquettes and straight runs of sites -/

theorem allSites_plaquetteSites (r c : Int) (h : isPlaquette r c = true) : AllSites (plaquetteSites r c) := by
  rw [isPlaquette_iff] at h
  intro s hs
  simp only [plaquetteSites, List.mem_cons, List.not_mem_nil, or_false] at hs
  rw [isSite_iff]
  rcases hs with e | e | e | e <;> rw [e] <;> simp only <;> omega

theorem occ_plaquetteSites (r c : Int) (s : Int × Int) :
    occ (plaquetteSites r c) s =
      xor (decide (r - 1 = s.1 ∧ c = s.2)) (xor (decide (r + 1 = s.1 ∧ c = s.2))
        (xor (decide (r = s.1 ∧ c - 1 = s.2)) (decide (r = s.1 ∧ c + 1 = s.2)))) := by
  obtain ⟨s1, s2⟩ := s
  simp only [occ, plaquetteSites, List.map_cons, List.map_nil, par_cons, par_nil, Prod.mk.injEq, Bool.xor_false]

/-- one vertical step: the site `s` between the plaquettes `q` (above) and `q'` (below) is in the lattice
    and adjacent to the in-lattice plaquette `p` of the same type iff `p` is exactly one of `q`, `q'` —
    provided `s` is in the lattice or neither `q` nor `q'` is -/
theorem step_vertical (R C : Int) (p s q q' : Int × Int)
    (hq1 : q.1 = s.1 - 1) (hq2 : q.2 = s.2) (hq'1 : q'.1 = s.1 + 1) (hq'2 : q'.2 = s.2)
    (hp : isPlaquette p.1 p.2 = true) (hpb : inBounds R C p.1 p.2 = true)
    (hq : isPlaquette q.1 q.2 = true) (hty : isPrimal p.1 p.2 = isPrimal q.1 q.2)
    (h : inBounds R C s.1 s.2 = true ∨ (inBounds R C q.1 q.2 = false ∧ inBounds R C q'.1 q'.2 = false)) :
    (inBounds R C s.1 s.2 && occ (plaquetteSites p.1 p.2) s) = xor (decide (p = q)) (decide (p = q')) := by
  obtain ⟨pr, pc⟩ := p
  obtain ⟨r, c⟩ := s
  obtain ⟨qr, qc⟩ := q
  obtain ⟨qr', qc'⟩ := q'
  simp only at hq1 hq2 hq'1 hq'2 hp hpb hq hty h ⊢
  rw [isPlaquette_iff] at hp hq
  rw [isPrimal_eq_iff] at hty
  rw [inBounds_iff] at hpb
  rw [occ_plaquetteSites]
  simp only [Prod.mk.injEq]
  have hW : decide (pr = r ∧ pc - 1 = c) = false := decide_eq_false (by omega)
  have hE : decide (pr = r ∧ pc + 1 = c) = false := decide_eq_false (by omega)
  have hN : decide (pr - 1 = r ∧ pc = c) = decide (pr = qr' ∧ pc = qc') := decide_eq_decide.mpr (by omega)
  have hS : decide (pr + 1 = r ∧ pc = c) = decide (pr = qr ∧ pc = qc) := decide_eq_decide.mpr (by omega)
  rw [hW, hE, hN, hS]
  have hA : (pr = qr ∧ pc = qc) ∨ (pr = qr' ∧ pc = qc') → inBounds R C r c = true := by
    intro hh
    rcases h with h | ⟨h1, h2⟩
    · exact h
    · rw [inBounds_eq_false_iff] at h1 h2; omega
  by_cases h1 : pr = qr ∧ pc = qc
  · rw [hA (Or.inl h1)]
    have h2 : ¬ (pr = qr' ∧ pc = qc') := by omega
    simp [h1]
  · by_cases h2 : pr = qr' ∧ pc = qc'
    · rw [hA (Or.inr h2)]; simp [h2]
    · simp [h1, h2]

/-- one horizontal step (`q` to the west, `q'` to the east of the site `s`) -/
theorem step_horizontal (R C : Int) (p s q q' : Int × Int)
    (hq1 : q.1 = s.1) (hq2 : q.2 = s.2 - 1) (hq'1 : q'.1 = s.1) (hq'2 : q'.2 = s.2 + 1)
    (hp : isPlaquette p.1 p.2 = true) (hpb : inBounds R C p.1 p.2 = true)
    (hq : isPlaquette q.1 q.2 = true) (hty : isPrimal p.1 p.2 = isPrimal q.1 q.2)
    (h : inBounds R C s.1 s.2 = true ∨ (inBounds R C q.1 q.2 = false ∧ inBounds R C q'.1 q'.2 = false)) :
    (inBounds R C s.1 s.2 && occ (plaquetteSites p.1 p.2) s) = xor (decide (p = q)) (decide (p = q')) := by
  obtain ⟨pr, pc⟩ := p
  obtain ⟨r, c⟩ := s
  obtain ⟨qr, qc⟩ := q
  obtain ⟨qr', qc'⟩ := q'
  simp only at hq1 hq2 hq'1 hq'2 hp hpb hq hty h ⊢
  rw [isPlaquette_iff] at hp hq
  rw [isPrimal_eq_iff] at hty
  rw [inBounds_iff] at hpb
  rw [occ_plaquetteSites]
  simp only [Prod.mk.injEq]
  have hN : decide (pr - 1 = r ∧ pc = c) = false := decide_eq_false (by omega)
  have hS : decide (pr + 1 = r ∧ pc = c) = false := decide_eq_false (by omega)
  have hW : decide (pr = r ∧ pc - 1 = c) = decide (pr = qr' ∧ pc = qc') := decide_eq_decide.mpr (by omega)
  have hE : decide (pr = r ∧ pc + 1 = c) = decide (pr = qr ∧ pc = qc) := decide_eq_decide.mpr (by omega)
  rw [hW, hE, hN, hS]
  have hA : (pr = qr ∧ pc = qc) ∨ (pr = qr' ∧ pc = qc') → inBounds R C r c = true := by
    intro hh
    rcases h with h | ⟨h1, h2⟩
    · exact h
    · rw [inBounds_eq_false_iff] at h1 h2; omega
  by_cases h1 : pr = qr ∧ pc = qc
  · rw [hA (Or.inl h1)]
    have h2 : ¬ (pr = qr' ∧ pc = qc') := by omega
    simp [h1]
  · by_cases h2 : pr = qr' ∧ pc = qc'
    · rw [hA (Or.inr h2)]; simp [h2]
    · simp [h1, h2]

/-- contribution of a site to the product with the generator of plaquette `p` -/
def contrib (R C : Int) (p s : Int × Int) : Bool := inBounds R C s.1 s.2 && occ (plaquetteSites p.1 p.2) s

theorem common_plaquetteSites (R C : Int) (l : List (Int × Int)) (p : Int × Int) :
    common R C l (plaquetteSites p.1 p.2) = par (l.map (contrib R C p)) := rfl

/-- a straight run of `k` sites southwards from plaquette `q` (staying within rows −1 … 2R−1) anticommutes
    with exactly the plaquettes at its two ends -/
theorem run_down (R C : Int) (p q : Int × Int) (k : Nat)
    (hp : isPlaquette p.1 p.2 = true) (hpb : inBounds R C p.1 p.2 = true)
    (hq : isPlaquette q.1 q.2 = true) (hty : isPrimal p.1 p.2 = isPrimal q.1 q.2)
    (hlo : -1 ≤ q.1) (hhi : q.1 + 2 * (k : Int) ≤ 2 * R - 1) :
    par (((List.range k).map fun (i : Nat) => (q.1 + 1 + 2 * (i : Int), q.2)).map (contrib R C p)) =
      xor (decide (p = q)) (decide (p = (q.1 + 2 * (k : Int), q.2))) := by
  rw [List.map_map]
  have := par_range_telescope k ((contrib R C p) ∘ fun (i : Nat) => (q.1 + 1 + 2 * (i : Int), q.2))
    (fun i => decide (p = (q.1 + 2 * (i : Int), q.2))) ?_
  · rw [this]; simp
  · intro i hi
    simp only [Function.comp, contrib]
    apply step_vertical R C p (q.1 + 1 + 2 * (i : Int), q.2) (q.1 + 2 * (i : Int), q.2)
      (q.1 + 2 * ((i + 1 : Nat) : Int), q.2) (by simp only; omega) rfl (by simp only; omega) rfl hp hpb
    · rw [isPlaquette_iff] at hq ⊢; simp only; omega
    · rw [hty, isPrimal_eq_iff]
    · simp only [inBounds_iff, inBounds_eq_false_iff]; omega

theorem run_up (R C : Int) (p q : Int × Int) (k : Nat)
    (hp : isPlaquette p.1 p.2 = true) (hpb : inBounds R C p.1 p.2 = true)
    (hq : isPlaquette q.1 q.2 = true) (hty : isPrimal p.1 p.2 = isPrimal q.1 q.2)
    (hhi : q.1 ≤ 2 * R - 1) (hlo : -1 ≤ q.1 - 2 * (k : Int)) :
    par (((List.range k).map fun (i : Nat) => (q.1 - 1 - 2 * (i : Int), q.2)).map (contrib R C p)) =
      xor (decide (p = q)) (decide (p = (q.1 - 2 * (k : Int), q.2))) := by
  rw [List.map_map]
  have := par_range_telescope k ((contrib R C p) ∘ fun (i : Nat) => (q.1 - 1 - 2 * (i : Int), q.2))
    (fun i => decide (p = (q.1 - 2 * (i : Int), q.2))) ?_
  · rw [this]; simp
  · intro i hi
    simp only [Function.comp, contrib]
    rw [Bool.xor_comm]
    apply step_vertical R C p (q.1 - 1 - 2 * (i : Int), q.2) (q.1 - 2 * ((i + 1 : Nat) : Int), q.2)
      (q.1 - 2 * (i : Int), q.2) (by simp only; omega) rfl (by simp only; omega) rfl hp hpb
    · rw [isPlaquette_iff] at hq ⊢; simp only; omega
    · rw [hty, isPrimal_eq_iff]
    · simp only [inBounds_iff, inBounds_eq_false_iff]; omega

theorem run_right (R C : Int) (p q : Int × Int) (k : Nat)
    (hp : isPlaquette p.1 p.2 = true) (hpb : inBounds R C p.1 p.2 = true)
    (hq : isPlaquette q.1 q.2 = true) (hty : isPrimal p.1 p.2 = isPrimal q.1 q.2)
    (hlo : -1 ≤ q.2) (hhi : q.2 + 2 * (k : Int) ≤ 2 * C - 1) :
    par (((List.range k).map fun (i : Nat) => (q.1, q.2 + 1 + 2 * (i : Int))).map (contrib R C p)) =
      xor (decide (p = q)) (decide (p = (q.1, q.2 + 2 * (k : Int)))) := by
  rw [List.map_map]
  have := par_range_telescope k ((contrib R C p) ∘ fun (i : Nat) => (q.1, q.2 + 1 + 2 * (i : Int)))
    (fun i => decide (p = (q.1, q.2 + 2 * (i : Int)))) ?_
  · rw [this]; simp
  · intro i hi
    simp only [Function.comp, contrib]
    apply step_horizontal R C p (q.1, q.2 + 1 + 2 * (i : Int)) (q.1, q.2 + 2 * (i : Int))
      (q.1, q.2 + 2 * ((i + 1 : Nat) : Int)) rfl (by simp only; omega) rfl (by simp only; omega) hp hpb
    · rw [isPlaquette_iff] at hq ⊢; simp only; omega
    · rw [hty, isPrimal_eq_iff]; simp only; omega
    · simp only [inBounds_iff, inBounds_eq_false_iff]; omega

theorem run_left (R C : Int) (p q : Int × Int) (k : Nat)
    (hp : isPlaquette p.1 p.2 = true) (hpb : inBounds R C p.1 p.2 = true)
    (hq : isPlaquette q.1 q.2 = true) (hty : isPrimal p.1 p.2 = isPrimal q.1 q.2)
    (hhi : q.2 ≤ 2 * C - 1) (hlo : -1 ≤ q.2 - 2 * (k : Int)) :
    par (((List.range k).map fun (i : Nat) => (q.1, q.2 - 1 - 2 * (i : Int))).map (contrib R C p)) =
      xor (decide (p = q)) (decide (p = (q.1, q.2 - 2 * (k : Int)))) := by
  rw [List.map_map]
  have := par_range_telescope k ((contrib R C p) ∘ fun (i : Nat) => (q.1, q.2 - 1 - 2 * (i : Int)))
    (fun i => decide (p = (q.1, q.2 - 2 * (i : Int)))) ?_
  · rw [this]; simp
  · intro i hi
    simp only [Function.comp, contrib]
    rw [Bool.xor_comm]
    apply step_horizontal R C p (q.1, q.2 - 1 - 2 * (i : Int)) (q.1, q.2 - 2 * ((i + 1 : Nat) : Int))
      (q.1, q.2 - 2 * (i : Int)) rfl (by simp only; omega) rfl (by simp only; omega) hp hpb
    · rw [isPlaquette_iff] at hq ⊢; simp only; omega
    · rw [hty, isPrimal_eq_iff]; simp only; omega
    · simp only [inBounds_iff, inBounds_eq_false_iff]; omega

/-! ### the sites of a path -/

theorem allSites_pathSites (a : Int × Int) (rs cs : Int) (ha : isPlaquette a.1 a.2 = true) :
    AllSites (pathSites a rs cs) := by
  rw [isPlaquette_iff] at ha
  intro s hs
  rw [isSite_iff]
  simp only [pathSites, List.mem_append] at hs
  rcases hs with hs | hs
  · split at hs <;> (obtain ⟨i, _, e⟩ := List.mem_map.1 hs; rw [← e]; simp only; omega)
  · split at hs <;> (obtain ⟨i, _, e⟩ := List.mem_map.1 hs; rw [← e]; simp only; omega)

theorem length_pathSites (a : Int × Int) (rs cs : Int) : (pathSites a rs cs).length = rs.natAbs + cs.natAbs := by
  simp only [pathSites, List.length_append]
  split <;> split <;> simp

/-- the plaquette indices a path may start / end at: rows −1 … 2R−1, columns −1 … 2C−1 -/
def Box (R C : Int) (a : Int × Int) : Prop := -1 ≤ a.1 ∧ a.1 ≤ 2 * R - 1 ∧ -1 ≤ a.2 ∧ a.2 ≤ 2 * C - 1

/-- **path lemma** (characteristic-function form): the sites of the path from `a` by the exact translation
    to `b` (both within the box, same type) meet the neighbourhood of an in-lattice plaquette `p` of that type
    an odd number of times iff `p` is exactly one of `a`, `b` -/
theorem common_pathSites (R C : Int) (a b p : Int × Int)
    (ha : isPlaquette a.1 a.2 = true) (hb : isPlaquette b.1 b.2 = true)
    (hab : isPrimal a.1 a.2 = isPrimal b.1 b.2) (hBa : Box R C a) (hBb : Box R C b)
    (hp : isPlaquette p.1 p.2 = true) (hpb : inBounds R C p.1 p.2 = true)
    (hpa : isPrimal p.1 p.2 = isPrimal a.1 a.2) :
    common R C (pathSites a ((b.1 - a.1) / 2) ((b.2 - a.2) / 2)) (plaquetteSites p.1 p.2) =
      xor (decide (p = a)) (decide (p = b)) := by
  obtain ⟨a1, a2⟩ := a
  obtain ⟨b1, b2⟩ := b
  simp only [Box] at ha hb hab hBa hBb hpa ⊢
  have ha' := (isPlaquette_iff _ _).1 ha
  have hb' := (isPlaquette_iff _ _).1 hb
  have hab' := (isPrimal_eq_iff _ _ _ _).1 hab
  have hmid : isPlaquette b1 a2 = true := by rw [isPlaquette_iff]; omega
  have hpmid : isPrimal p.1 p.2 = isPrimal b1 a2 := by rw [hpa, isPrimal_eq_iff]
  rw [common_plaquetteSites]
  simp only [pathSites, List.map_append, par_append]
  have e1 : a1 + 2 * ((b1 - a1) / 2) = b1 := by omega
  rw [e1]
  have hV : par ((if (b1 - a1) / 2 < 0 then
        (List.range ((b1 - a1) / 2).natAbs).map fun (i : Nat) => (a1 - 1 - 2 * (i : Int), a2)
      else (List.range ((b1 - a1) / 2).natAbs).map fun (i : Nat) => (a1 + 1 + 2 * (i : Int), a2)).map
        (contrib R C p)) = xor (decide (p = (a1, a2))) (decide (p = (b1, a2))) := by
    split
    · have := run_up R C p (a1, a2) ((b1 - a1) / 2).natAbs hp hpb ha hpa (by simp only; omega) (by simp only; omega)
      simp only at this
      rw [this, show a1 - 2 * (((b1 - a1) / 2).natAbs : Int) = b1 by omega]
    · have := run_down R C p (a1, a2) ((b1 - a1) / 2).natAbs hp hpb ha hpa (by simp only; omega)
        (by simp only; omega)
      simp only at this
      rw [this, show a1 + 2 * (((b1 - a1) / 2).natAbs : Int) = b1 by omega]
  have hH : par ((if (b2 - a2) / 2 < 0 then
        (List.range ((b2 - a2) / 2).natAbs).map fun (i : Nat) => (b1, a2 - 1 - 2 * (i : Int))
      else (List.range ((b2 - a2) / 2).natAbs).map fun (i : Nat) => (b1, a2 + 1 + 2 * (i : Int))).map
        (contrib R C p)) = xor (decide (p = (b1, a2))) (decide (p = (b1, b2))) := by
    split
    · have := run_left R C p (b1, a2) ((b2 - a2) / 2).natAbs hp hpb hmid hpmid (by simp only; omega)
        (by simp only; omega)
      simp only at this
      rw [this, show a2 - 2 * (((b2 - a2) / 2).natAbs : Int) = b2 by omega]
    · have := run_right R C p (b1, a2) ((b2 - a2) / 2).natAbs hp hpb hmid hpmid (by simp only; omega)
        (by simp only; omega)
      simp only at this
      rw [this, show a2 + 2 * (((b2 - a2) / 2).natAbs : Int) = b2 by omega]
  rw [hV, hH]
  cases decide (p = (a1, a2)) <;> cases decide (p = (b1, a2)) <;> cases decide (p = (b1, b2)) <;> rfl

/-! ### the plaquette index list -/

/-- all indices of the `(2R−1) × (2C−1)` array in `np.ndindex` order -/
def allIndices (R C : Int) : List (Int × Int) :=
  (List.range (maxRow R + 1).toNat).flatMap fun (r : Nat) =>
    (List.range (maxCol C + 1).toNat).map fun (c : Nat) => ((r : Int), (c : Int))

theorem mem_allIndices (R C : Int) (p : Int × Int) : p ∈ allIndices R C ↔ inBounds R C p.1 p.2 = true := by
  obtain ⟨p1, p2⟩ := p
  simp only [allIndices, List.mem_flatMap, List.mem_map, List.mem_range, Prod.mk.injEq, inBounds_iff, maxRow, maxCol]
  constructor
  · rintro ⟨r, hr, c, hc, e1, e2⟩; omega
  · intro h
    exact ⟨p1.toNat, by omega, p2.toNat, by omega, by omega, by omega⟩

theorem nodup_allIndices (R C : Int) : (allIndices R C).Nodup := by
  unfold allIndices
  rw [List.nodup_iff_pairwise_ne, List.pairwise_flatMap]
  constructor
  · intro r _
    rw [List.pairwise_map]
    exact List.Pairwise.imp (fun {a b} h e => by simp only [Prod.mk.injEq] at e; omega) List.pairwise_lt_range
  · refine List.Pairwise.imp ?_ List.pairwise_lt_range
    intro r r' h x hx y hy e
    obtain ⟨c, _, ex⟩ := List.mem_map.1 hx
    obtain ⟨c', _, ey⟩ := List.mem_map.1 hy
    rw [← ex, ← ey, Prod.mk.injEq] at e
    omega

theorem plaquetteIndices_eq (R C : Int) :
    plaquetteIndices R C =
      ((allIndices R C).filter fun rc => isPlaquette rc.1 rc.2).filter (fun rc => isPrimal rc.1 rc.2) ++
      ((allIndices R C).filter fun rc => isPlaquette rc.1 rc.2).filter (fun rc => !isPrimal rc.1 rc.2) := rfl

/-- the code's plaquette index list contains exactly the in-lattice plaquette indices -/
theorem mem_plaquetteIndices (R C : Int) (p : Int × Int) :
    p ∈ plaquetteIndices R C ↔ isPlaquette p.1 p.2 = true ∧ inBounds R C p.1 p.2 = true := by
  simp only [plaquetteIndices_eq, List.mem_append, List.mem_filter, mem_allIndices]
  cases isPrimal p.1 p.2 <;> simp [and_comm]

theorem nodup_plaquetteIndices (R C : Int) : (plaquetteIndices R C).Nodup := by
  have h := nodup_allIndices R C
  rw [List.nodup_iff_pairwise_ne] at h
  rw [plaquetteIndices_eq, List.nodup_append]
  refine ⟨?_, ?_, ?_⟩
  · rw [List.nodup_iff_pairwise_ne]; exact (h.filter _).filter _
  · rw [List.nodup_iff_pairwise_ne]; exact (h.filter _).filter _
  · intro a ha b hb e
    have h1 := (List.mem_filter.1 ha).2
    have h2 := (List.mem_filter.1 hb).2
    rw [e] at h1
    simp [h1] at h2

/-! ### translation and path -/

theorem translation_exact (R C : Int) (a b : Int × Int)
    (ha : isPlaquette a.1 a.2 = true) (hb : isPlaquette b.1 b.2 = true)
    (hab : isPrimal a.1 a.2 = isPrimal b.1 b.2)
    (h : inBounds R C a.1 a.2 = true ∨ inBounds R C b.1 b.2 = true) :
    translation R C a b = .ok ((b.1 - a.1) / 2, (b.2 - a.2) / 2) := by
  unfold translation
  rw [ha, hb, hab]
  rcases h with h | h <;> simp [h]

theorem translation_zero (R C : Int) (a b : Int × Int)
    (ha : isPlaquette a.1 a.2 = true) (hb : isPlaquette b.1 b.2 = true)
    (hab : isPrimal a.1 a.2 = isPrimal b.1 b.2)
    (h : inBounds R C a.1 a.2 = false) (h' : inBounds R C b.1 b.2 = false) :
    translation R C a b = .ok (0, 0) := by
  unfold translation
  rw [ha, hb, hab, h, h']
  simp

/-- the type of operator a path from `a` applies / the generator of plaquette `p` consists of -/
def pathOp (a : Int × Int) : P1 := if isPrimal a.1 a.2 then P1.X else P1.Z
def plaqOp (p : Int × Int) : P1 := if isPrimal p.1 p.2 then P1.Z else P1.X

theorem path_eq_of_translation (R C : Int) (v : BVec) (a b t : Int × Int) (h : translation R C a b = .ok t) :
    path R C v a b = .ok (sites R C (pathOp a) v (pathSites a t.1 t.2)) := by
  unfold path; rw [h]; rfl

/-- **path/plaquette product**: for plaquette indices `a`, `b` of the same type within the box (rows −1 … 2R−1,
    columns −1 … 2C−1), at least one of them in the lattice, the path operator anticommutes with the generator
    of an in-lattice plaquette `p` iff `p` is exactly one of `a`, `b` -/
theorem bsp_pathSites_plaquette (R C : Int) (hR : 2 ≤ R) (hC : 2 ≤ C) (a b p : Int × Int)
    (ha : isPlaquette a.1 a.2 = true) (hb : isPlaquette b.1 b.2 = true)
    (hab : isPrimal a.1 a.2 = isPrimal b.1 b.2) (hBa : Box R C a) (hBb : Box R C b)
    (hp : isPlaquette p.1 p.2 = true) (hpb : inBounds R C p.1 p.2 = true) :
    bsp (sites R C (pathOp a) (identity R C) (pathSites a ((b.1 - a.1) / 2) ((b.2 - a.2) / 2)))
        (sites R C (plaqOp p) (identity R C) (plaquetteSites p.1 p.2)) =
      xor (decide (p = a)) (decide (p = b)) := by
  rw [bsp_sites_sites R C hR hC _ _ _ _ (allSites_pathSites _ _ _ ha) (allSites_plaquetteSites _ _ hp)]
  by_cases hty : isPrimal p.1 p.2 = isPrimal a.1 a.2
  · rw [common_pathSites R C a b p ha hb hab hBa hBb hp hpb hty]
    unfold pathOp plaqOp
    rw [hty]
    cases isPrimal a.1 a.2 <;> simp [P1.anti]
  · have hpa : ¬ p = a := fun e => hty (by rw [e])
    have hpb' : ¬ p = b := fun e => hty (by rw [e, hab])
    unfold pathOp plaqOp
    have : P1.anti (if isPrimal a.1 a.2 then P1.X else P1.Z) (if isPrimal p.1 p.2 then P1.Z else P1.X) = false := by
      revert hty
      cases isPrimal a.1 a.2 <;> cases isPrimal p.1 p.2 <;> simp [P1.anti]
    rw [this]
    simp [hpa, hpb']

/-! ### reading a unit syndrome back -/

theorem filterMap_zip_false {α} (l : List α) (f : Nat → Bool) (h : ∀ j, j < l.length → f j = false) :
    ((l.zip ((List.range l.length).map f)).filterMap fun p => if p.2 then some p.1 else none) = [] := by
  induction l generalizing f with
  | nil => simp
  | cons x l ih =>
    rw [List.length_cons, List.range_succ_eq_map, List.map_cons, List.map_map, List.zip_cons_cons,
      List.filterMap_cons, h 0 (by simp)]
    simp only [Bool.false_eq_true, if_false]
    exact ih _ (fun j hj => h (j + 1) (by simpa using hj))

/-- zipping a list with the `i`-th unit vector and keeping the flagged entries returns the `i`-th entry -/
theorem filterMap_zip_unit {α} (l : List α) (f : Nat → Bool) (i : Nat) (hi : i < l.length)
    (h : ∀ j, j < l.length → f j = decide (j = i)) :
    ((l.zip ((List.range l.length).map f)).filterMap fun p => if p.2 then some p.1 else none) = [l[i]] := by
  induction l generalizing f i with
  | nil => simp at hi
  | cons x l ih =>
    rw [List.length_cons, List.range_succ_eq_map, List.map_cons, List.map_map, List.zip_cons_cons,
      List.filterMap_cons, h 0 (by simp)]
    cases i with
    | zero =>
      simp only [decide_true, if_true, List.getElem_cons_zero]
      rw [filterMap_zip_false l _ (fun j hj => by
        simp only [Function.comp, Nat.succ_eq_add_one]
        rw [h (j + 1) (by simpa using hj)]; simp)]
    | succ i =>
      have : decide (0 = i + 1) = false := by simp
      simp only [this, Bool.false_eq_true, if_false, List.getElem_cons_succ]
      exact ih _ i (by simpa using hi) (fun j hj => by
        simp only [Function.comp, Nat.succ_eq_add_one]
        rw [h (j + 1) (by simpa using hj)]; simp)

/-! ### weights -/

theorem countP_id_eq_range (u : List Bool) :
    u.countP id = (List.range u.length).countP fun i => u.getD i false := by
  induction u with
  | nil => rfl
  | cons b u ih =>
    rw [List.length_cons, List.range_succ_eq_map, List.countP_cons, List.countP_cons, List.countP_map, ih]
    simp only [id, List.getD_cons_zero]
    congr 1

theorem getD_zipWith_or (x z : BVec) (h : x.length = z.length) (i : Nat) :
    (List.zipWith or x z).getD i false = (x.getD i false || z.getD i false) := by
  simp only [List.getD_eq_getElem?_getD, List.getElem?_zipWith]
  by_cases hi : i < x.length
  · rw [List.getElem?_eq_getElem hi, List.getElem?_eq_getElem (by omega)]; rfl
  · rw [List.getElem?_eq_none (by omega), List.getElem?_eq_none (by omega)]; rfl

/-- `bsf_wt` counts the qubits with a set X or Z bit -/
theorem bsfWt_eq_countP (v : BVec) (n : Nat) (hv : v.length = 2 * n) :
    bsfWt v = (List.range n).countP fun i => v.getD i false || v.getD (n + i) false := by
  have hx : (xHalf v).length = n := by rw [xHalf_length, hv]; omega
  have hz : (zHalf v).length = n := by rw [zHalf_length, hv]; omega
  unfold bsfWt
  rw [countP_id_eq_range, List.length_zipWith, hx, hz, Nat.min_self]
  apply List.countP_congr
  intro i hi
  rw [List.mem_range] at hi
  rw [getD_zipWith_or _ _ (by omega), getD_xHalf v n i hv hi, getD_zHalf v n i hv]

theorem countP_range_update (n f : Nat) (p p' : Nat → Bool) (hf : f < n)
    (h : ∀ i, i < n → i ≠ f → p' i = p i) :
    (List.range n).countP p' + (if p f = true then 1 else 0) =
      (List.range n).countP p + (if p' f = true then 1 else 0) := by
  induction n with
  | zero => omega
  | succ n ih =>
    rw [List.range_succ, List.countP_append, List.countP_append]
    simp only [List.countP_cons, List.countP_nil, Nat.zero_add]
    by_cases hfn : f = n
    · subst hfn
      have : (List.range f).countP p' = (List.range f).countP p :=
        List.countP_congr (fun i hi => by rw [List.mem_range] at hi; rw [h i (by omega) (by omega)])
      rw [this]; omega
    · have := ih (by omega) (fun i hi hne => h i (by omega) hne)
      rw [h n (by omega) (fun e => hfn e.symm)]
      omega

/-- how `bsf_wt` changes when one qubit `f < n` is acted on: the predicate "qubit i is non-trivial" is
    unchanged away from `f` -/
theorem bsfWt_applyOp (n : Nat) (op : P1) (v : BVec) (hv : v.length = 2 * n) (f : Nat) (hf : f < n) :
    bsfWt (applyOp n op v f) + (if (v.getD f false || v.getD (n + f) false) = true then 1 else 0) =
      bsfWt v + (if ((applyOp n op v f).getD f false || (applyOp n op v f).getD (n + f) false) = true
        then 1 else 0) := by
  rw [bsfWt_eq_countP v n hv, bsfWt_eq_countP _ n (by simpa using hv)]
  apply countP_range_update n f _ _ hf
  intro i hi hne
  rw [getD_applyOp _ _ _ _ _ (by omega), getD_applyOp _ _ _ _ _ (by omega)]
  have e1 : decide (f = i) = false := decide_eq_false (fun e => hne e.symm)
  have e2 : decide (n + f = i) = false := decide_eq_false (by omega)
  have e3 : decide (f = n + i) = false := decide_eq_false (by omega)
  have e4 : decide (n + f = n + i) = false := decide_eq_false (by omega)
  rw [e1, e2, e3, e4]; simp

theorem bsfWt_applyOp_le (n : Nat) (op : P1) (v : BVec) (hv : v.length = 2 * n) (f : Nat) (hf : f < n) :
    bsfWt (applyOp n op v f) ≤ bsfWt v + 1 := by
  have := bsfWt_applyOp n op v hv f hf
  revert this
  split <;> split <;> omega

theorem bsfWt_applyOp_eq (n : Nat) (op : P1) (hop : op ≠ P1.I) (v : BVec) (hv : v.length = 2 * n) (f : Nat)
    (hf : f < n) (h1 : v.getD f false = false) (h2 : v.getD (n + f) false = false) :
    bsfWt (applyOp n op v f) = bsfWt v + 1 := by
  have := bsfWt_applyOp n op v hv f hf
  rw [getD_applyOp _ _ _ _ _ (by omega), getD_applyOp _ _ _ _ _ (by omega), h1, h2] at this
  have e3 : decide (f = n + f) = false := decide_eq_false (by omega)
  have e2 : decide (n + f = f) = false := decide_eq_false (by omega)
  rw [e2, e3] at this
  have e : (false ^^ (op.xBit && decide (f = f) ^^ (op.zBit && false)) ||
      (false ^^ (op.xBit && false ^^ (op.zBit && decide (n + f = n + f))))) = true := by
    cases op <;> simp [P1.xBit, P1.zBit] at hop ⊢
  rw [e] at this
  simpa using this

/-- a site-operator on `k` sites has weight at most `k` more than what it is applied to -/
theorem bsfWt_sites_le (R C : Int) (hR : 2 ≤ R) (hC : 2 ≤ C) (op : P1) (v : BVec)
    (hv : v.length = 2 * (nQubits R C).toNat) (l : List (Int × Int)) (hl : AllSites l) :
    bsfWt (sites R C op v l) ≤ bsfWt v + l.length := by
  induction l generalizing v with
  | nil => simp
  | cons s l ih =>
    rw [sites_cons]
    have h1 := ih (site R C op v s) (by simpa using hv) hl.cons.2
    have h2 : bsfWt (site R C op v s) ≤ bsfWt v + 1 := by
      unfold site
      split
      · next hb => exact bsfWt_applyOp_le _ op v hv _ (flatten_toNat_lt R C _ _ hR hC hl.cons.1 hb)
      · omega
    rw [List.length_cons]; omega

/-- a non-identity site-operator on duplicate-free in-lattice sites, applied to a vector that is trivial on
    them, adds exactly their number to the weight -/
theorem bsfWt_sites_eq (R C : Int) (hR : 2 ≤ R) (hC : 2 ≤ C) (op : P1) (hop : op ≠ P1.I) (v : BVec)
    (hv : v.length = 2 * (nQubits R C).toNat) (l : List (Int × Int)) (hl : AllSites l)
    (hb : ∀ s ∈ l, inBounds R C s.1 s.2 = true) (hnd : l.Nodup)
    (h0 : ∀ s ∈ l, v.getD (flatten R C s.1 s.2).toNat false = false ∧
      v.getD ((nQubits R C).toNat + (flatten R C s.1 s.2).toNat) false = false) :
    bsfWt (sites R C op v l) = bsfWt v + l.length := by
  induction l generalizing v with
  | nil => simp
  | cons s l ih =>
    rw [List.nodup_cons] at hnd
    have hsb := hb s (by simp)
    have hf := flatten_toNat_lt R C _ _ hR hC hl.cons.1 hsb
    have e : site R C op v s = applyOp (nQubits R C).toNat op v (flatten R C s.1 s.2).toNat := by
      unfold site; rw [if_pos hsb]
    rw [sites_cons, ih (site R C op v s) (by simpa using hv) hl.cons.2 (fun t ht => hb t (by simp [ht])) hnd.2,
      e, bsfWt_applyOp_eq _ op hop v hv _ hf (h0 s (by simp)).1 (h0 s (by simp)).2, List.length_cons]
    · omega
    · intro t ht
      have htb := hb t (by simp [ht])
      have hft := flatten_toNat_lt R C _ _ hR hC (hl t (by simp [ht])) htb
      have hne : (flatten R C s.1 s.2).toNat ≠ (flatten R C t.1 t.2).toNat := by
        intro e'
        have := flatten_toNat_inj R C hR hC s t hl.cons.1 hsb (hl t (by simp [ht])) htb e'
        rw [this] at hnd
        exact hnd.1 ht
      rw [e, getD_applyOp _ _ _ _ _ (by omega), getD_applyOp _ _ _ _ _ (by omega),
        (h0 t (by simp [ht])).1, (h0 t (by simp [ht])).2]
      have e1 : decide ((flatten R C s.1 s.2).toNat = (flatten R C t.1 t.2).toNat) = false := decide_eq_false hne
      have e2 : decide ((nQubits R C).toNat + (flatten R C s.1 s.2).toNat = (flatten R C t.1 t.2).toNat) = false :=
        decide_eq_false (by omega)
      have e3 : decide ((flatten R C s.1 s.2).toNat = (nQubits R C).toNat + (flatten R C t.1 t.2).toNat) = false :=
        decide_eq_false (by omega)
      have e4 : decide ((nQubits R C).toNat + (flatten R C s.1 s.2).toNat =
          (nQubits R C).toNat + (flatten R C t.1 t.2).toNat) = false := decide_eq_false (by omega)
      rw [e1, e2, e3, e4]; simp

theorem bsfWt_identity (R C : Int) : bsfWt (identity R C) = 0 := by
  rw [bsfWt_eq_countP _ _ (identity_length R C), List.countP_eq_zero]
  intro i _
  rw [getD_identity, getD_identity]; simp

theorem nodup_pathSites (a : Int × Int) (rs cs : Int) : (pathSites a rs cs).Nodup := by
  simp only [pathSites]
  rw [List.nodup_append]
  refine ⟨?_, ?_, ?_⟩
  · split <;>
    · rw [List.nodup_iff_pairwise_ne, List.pairwise_map]
      exact List.Pairwise.imp (fun {i j} h e => by simp only [Prod.mk.injEq] at e; omega) List.pairwise_lt_range
  · split <;>
    · rw [List.nodup_iff_pairwise_ne, List.pairwise_map]
      exact List.Pairwise.imp (fun {i j} h e => by simp only [Prod.mk.injEq] at e; omega) List.pairwise_lt_range
  · intro x hx y hy e
    split at hx <;> split at hy <;>
    · obtain ⟨i, _, ex⟩ := List.mem_map.1 hx
      obtain ⟨j, _, ey⟩ := List.mem_map.1 hy
      rw [← ex, ← ey, Prod.mk.injEq] at e
      omega

/-- between two in-lattice plaquettes of the same type every site of the path is in the lattice -/
theorem inBounds_pathSites (R C : Int) (a b : Int × Int)
    (ha : isPlaquette a.1 a.2 = true) (hb : isPlaquette b.1 b.2 = true)
    (hab : isPrimal a.1 a.2 = isPrimal b.1 b.2)
    (hia : inBounds R C a.1 a.2 = true) (hib : inBounds R C b.1 b.2 = true) :
    ∀ s ∈ pathSites a ((b.1 - a.1) / 2) ((b.2 - a.2) / 2), inBounds R C s.1 s.2 = true := by
  rw [isPlaquette_iff] at ha hb
  rw [isPrimal_eq_iff] at hab
  rw [inBounds_iff] at hia hib
  intro s hs
  rw [inBounds_iff]
  simp only [pathSites, List.mem_append] at hs
  rcases hs with hs | hs
  · split at hs <;>
    · obtain ⟨i, hi, e⟩ := List.mem_map.1 hs
      rw [List.mem_range] at hi
      rw [← e]; simp only; omega
  · split at hs <;>
    · obtain ⟨i, hi, e⟩ := List.mem_map.1 hs
      rw [List.mem_range] at hi
      rw [← e]; simp only; omega

/-- weight of the path operator between two in-lattice plaquettes of the same type -/
theorem bsfWt_pathSites (R C : Int) (hR : 2 ≤ R) (hC : 2 ≤ C) (a b : Int × Int)
    (ha : isPlaquette a.1 a.2 = true) (hb : isPlaquette b.1 b.2 = true)
    (hab : isPrimal a.1 a.2 = isPrimal b.1 b.2)
    (hia : inBounds R C a.1 a.2 = true) (hib : inBounds R C b.1 b.2 = true) :
    bsfWt (sites R C (pathOp a) (identity R C) (pathSites a ((b.1 - a.1) / 2) ((b.2 - a.2) / 2))) =
      ((b.1 - a.1) / 2).natAbs + ((b.2 - a.2) / 2).natAbs := by
  rw [bsfWt_sites_eq R C hR hC (pathOp a) (by unfold pathOp; split <;> decide) _ (identity_length R C) _
    (allSites_pathSites _ _ _ ha) (inBounds_pathSites R C a b ha hb hab hia hib) (nodup_pathSites _ _ _)
    (fun s _ => ⟨getD_identity _ _ _, getD_identity _ _ _⟩), bsfWt_identity, length_pathSites]
  omega

/-! ### read-back of a site-operator -/

theorem nodup_plaquetteSites (r c : Int) : (plaquetteSites r c).Nodup := by
  simp only [plaquetteSites, List.nodup_cons, List.mem_cons, Prod.mk.injEq, List.not_mem_nil, or_false,
    not_false_eq_true, List.nodup_nil, and_true]
  omega

theorem occ_eq_mem (l : List (Int × Int)) (h : l.Nodup) (s : Int × Int) : occ l s = decide (s ∈ l) := by
  rw [occ, par_map_decide_eq l s h]
  exact decide_eq_decide.mpr Iff.rfl

/-- `operator(index)` of a site-operator built from the identity, at an in-lattice site -/
theorem operatorAt_sites (R C : Int) (hR : 2 ≤ R) (hC : 2 ≤ C) (op : P1) (l : List (Int × Int)) (hl : AllSites l)
    (s : Int × Int) (hs : isSite s.1 s.2 = true) (hb : inBounds R C s.1 s.2 = true) :
    operatorAt R C (sites R C op (identity R C) l) s.1 s.2 =
      P1.ofBits (op.xBit && occ l s) (op.zBit && occ l s) := by
  unfold operatorAt
  simp only
  rw [getD_sites_x R C hR hC op l hl s hs hb, getD_sites_z R C hR hC op l hl s hs hb]

/-! ### stabilizers and logicals as site-operators (for C07 / C02) -/

theorem stabilizers_eq_map (R C : Int) :
    stabilizers R C = (plaquetteIndices R C).map fun p =>
      sites R C (plaqOp p) (identity R C) (plaquetteSites p.1 p.2) := rfl

theorem sites_identity_length (R C : Int) (op : P1) (l : List (Int × Int)) :
    (sites R C op (identity R C) l).length = 2 * (nQubits R C).toNat := by
  rw [sites_length, identity_length]

/-- two plaquette generators: product = (types anticommute) ∧ (odd number of shared in-lattice sites) -/
theorem bsp_plaquette_plaquette (R C : Int) (hR : 2 ≤ R) (hC : 2 ≤ C) (p q : Int × Int)
    (hp : isPlaquette p.1 p.2 = true) (hq : isPlaquette q.1 q.2 = true) :
    bsp (sites R C (plaqOp p) (identity R C) (plaquetteSites p.1 p.2))
        (sites R C (plaqOp q) (identity R C) (plaquetteSites q.1 q.2)) =
      (P1.anti (plaqOp p) (plaqOp q) && common R C (plaquetteSites p.1 p.2) (plaquetteSites q.1 q.2)) :=
  bsp_sites_sites R C hR hC _ _ _ _ (allSites_plaquetteSites _ _ hp) (allSites_plaquetteSites _ _ hq)

theorem allSites_logicalXSites (R C : Int) : AllSites (logicalXSites R C) := by
  intro s hs
  obtain ⟨i, _, e⟩ := List.mem_map.1 hs
  rw [← e, isSite_iff]; simp only [maxCol]; omega

theorem allSites_logicalZSites (R C : Int) : AllSites (logicalZSites R C) := by
  intro s hs
  obtain ⟨i, _, e⟩ := List.mem_map.1 hs
  rw [← e, isSite_iff]; simp only [maxRow]; omega

end Qec.Planar
