/-
  Helper lemmas for C07 (planar family): index arithmetic of `flatten`, bits of operators built by
  toggling site lists, `bsp` of two site operators as an overlap parity, the plaquette index list.
-/
import QecVerif.Model.Lattice.Planar
import QecVerif.Lemmas.Symplectic
import Mathlib.Data.List.Nodup
import Mathlib.Tactic.Ring
namespace Qec.PlanarCode
open Qec Qec.Planar Qec.Symp

/-! ### A. index arithmetic -/

theorem lin_bound (a b A B : Int) (ha : 0 ≤ a) (ha' : a ≤ A - 1) (hb : 0 ≤ b) (hb' : b ≤ B - 1) :
    0 ≤ a * B + b ∧ a * B + b < A * B := by
  have hB : 0 ≤ B := by omega
  have h1 : 0 ≤ a * B := Int.mul_nonneg ha hB
  have h2 : a * B ≤ (A - 1) * B := Int.mul_le_mul_of_nonneg_right ha' hB
  rw [Int.sub_mul, Int.one_mul] at h2
  omega

theorem lin_inj (a b a' b' B : Int) (hb : 0 ≤ b) (hb' : b < B) (hc : 0 ≤ b') (hc' : b' < B)
    (h : a * B + b = a' * B + b') : a = a' ∧ b = b' := by
  have hB : 0 ≤ B := by omega
  have key : a = a' := by
    rcases Int.lt_trichotomy a a' with hlt | heq | hgt
    · exfalso
      have : (a + 1) * B ≤ a' * B := Int.mul_le_mul_of_nonneg_right (by omega) hB
      rw [Int.add_mul, Int.one_mul] at this
      omega
    · exact heq
    · exfalso
      have : (a' + 1) * B ≤ a * B := Int.mul_le_mul_of_nonneg_right (by omega) hB
      rw [Int.add_mul, Int.one_mul] at this
      omega
  subst key
  exact ⟨rfl, by omega⟩

theorem lin_surj (i A B : Int) (hB : 0 < B) (h0 : 0 ≤ i) (h1 : i < A * B) :
    ∃ a b, 0 ≤ a ∧ a ≤ A - 1 ∧ 0 ≤ b ∧ b ≤ B - 1 ∧ a * B + b = i := by
  refine ⟨i / B, i % B, Int.ediv_nonneg h0 (by omega), ?_, Int.emod_nonneg _ (by omega), ?_, ?_⟩
  · have := Int.ediv_lt_of_lt_mul hB h1
    omega
  · have := Int.emod_lt_of_pos i hB
    omega
  · have := Int.mul_ediv_add_emod i B
    rw [Int.mul_comm] at this
    omega

/-- an in-bounds site index -/
def SiteIn (R C r c : Int) : Prop := 0 ≤ r ∧ r ≤ 2 * R - 2 ∧ 0 ≤ c ∧ c ≤ 2 * C - 2 ∧ (r + c) % 2 = 0

theorem inBounds_iff (R C r c : Int) :
    inBounds R C r c = true ↔ 0 ≤ r ∧ r ≤ 2 * R - 2 ∧ 0 ≤ c ∧ c ≤ 2 * C - 2 := by
  simp only [inBounds, Bool.and_eq_true, decide_eq_true_eq]
  simp only [maxRow, maxCol]
  omega

theorem isSite_iff (r c : Int) : isSite r c = true ↔ (r + c) % 2 = 0 := by
  simp only [isSite, isPlaquette, Bool.not_eq_true', beq_eq_false_iff_ne, ne_eq]
  omega

theorem isPlaquette_iff (r c : Int) : isPlaquette r c = true ↔ (r + c) % 2 = 1 := by
  simp only [isPlaquette, beq_iff_eq]

theorem siteIn_iff (R C r c : Int) : SiteIn R C r c ↔ inBounds R C r c = true ∧ isSite r c = true := by
  rw [inBounds_iff, isSite_iff]; unfold SiteIn; omega

theorem flatten_even (R C a b : Int) : flatten R C (2 * a) (2 * b) = a * C + b := by
  simp only [flatten]
  rw [show 2 * a / 2 = a by omega, show 2 * a % 2 = 0 by omega, show 2 * b / 2 = b by omega,
    show 2 * b % 2 = 0 by omega]
  simp

theorem flatten_odd (R C a b : Int) : flatten R C (2 * a + 1) (2 * b + 1) = a * (C - 1) + b + R * C := by
  simp only [flatten]
  rw [show (2 * a + 1) / 2 = a by omega, show (2 * a + 1) % 2 = 1 by omega, show (2 * b + 1) / 2 = b by omega,
    show (2 * b + 1) % 2 = 1 by omega]
  simp

theorem siteIn_cases (R C r c : Int) (h : SiteIn R C r c) :
    (∃ a b, r = 2 * a ∧ c = 2 * b ∧ 0 ≤ a ∧ a ≤ R - 1 ∧ 0 ≤ b ∧ b ≤ C - 1) ∨
    (∃ a b, r = 2 * a + 1 ∧ c = 2 * b + 1 ∧ 0 ≤ a ∧ a ≤ (R - 1) - 1 ∧ 0 ≤ b ∧ b ≤ (C - 1) - 1) := by
  unfold SiteIn at h
  by_cases hr : r % 2 = 0
  · left; exact ⟨r / 2, c / 2, by omega, by omega, by omega, by omega, by omega, by omega⟩
  · right; exact ⟨r / 2, c / 2, by omega, by omega, by omega, by omega, by omega, by omega⟩

/-- primal sites are numbered `[0, R*C)`, dual sites `[R*C, nQubits)` -/
theorem flatten_range (R C r c : Int) (h : SiteIn R C r c) :
    (r % 2 = 0 ∧ 0 ≤ flatten R C r c ∧ flatten R C r c < R * C) ∨
    (r % 2 = 1 ∧ R * C ≤ flatten R C r c ∧ flatten R C r c < nQubits R C) := by
  rcases siteIn_cases R C r c h with ⟨a, b, rfl, rfl, h1, h2, h3, h4⟩ | ⟨a, b, rfl, rfl, h1, h2, h3, h4⟩
  · left
    rw [flatten_even]
    have := lin_bound a b R C h1 h2 h3 h4
    omega
  · right
    rw [flatten_odd]
    have := lin_bound a b (R - 1) (C - 1) h1 h2 h3 h4
    unfold nQubits
    omega

theorem nQubits_pos (R C : Int) (hR : 2 ≤ R) (hC : 2 ≤ C) :
    0 < nQubits R C ∧ R * C ≤ nQubits R C ∧ 0 < R * C := by
  have h1 : 0 ≤ (R - 1) * (C - 1) := Int.mul_nonneg (by omega) (by omega)
  have h2 : 0 < R * C := Int.mul_pos (by omega) (by omega)
  unfold nQubits; omega

theorem flatten_lt (R C r c : Int) (hR : 2 ≤ R) (hC : 2 ≤ C) (h : SiteIn R C r c) :
    0 ≤ flatten R C r c ∧ flatten R C r c < nQubits R C := by
  have := nQubits_pos R C hR hC
  rcases flatten_range R C r c h with h | h <;> omega

theorem flatten_inj (R C r c r' c' : Int) (h : SiteIn R C r c) (h' : SiteIn R C r' c')
    (he : flatten R C r c = flatten R C r' c') : r = r' ∧ c = c' := by
  have hr := flatten_range R C r c h
  have hr' := flatten_range R C r' c' h'
  rcases siteIn_cases R C r c h with ⟨a, b, rfl, rfl, h1, h2, h3, h4⟩ | ⟨a, b, rfl, rfl, h1, h2, h3, h4⟩ <;>
  rcases siteIn_cases R C r' c' h' with ⟨a', b', rfl, rfl, g1, g2, g3, g4⟩ | ⟨a', b', rfl, rfl, g1, g2, g3, g4⟩
  · rw [flatten_even, flatten_even] at he
    have := lin_inj a b a' b' C h3 (by omega) g3 (by omega) he
    omega
  · exfalso; omega
  · exfalso; omega
  · rw [flatten_odd, flatten_odd] at he
    have := lin_inj a b a' b' (C - 1) h3 (by omega) g3 (by omega) (by omega)
    omega

theorem flatten_surj (R C : Int) (_hR : 2 ≤ R) (hC : 2 ≤ C) (i : Int) (h0 : 0 ≤ i) (h1 : i < nQubits R C) :
    ∃ r c, SiteIn R C r c ∧ flatten R C r c = i := by
  by_cases hi : i < R * C
  · rcases lin_surj i R C (by omega) h0 hi with ⟨a, b, a0, a1, b0, b1, e⟩
    exact ⟨2 * a, 2 * b, by unfold SiteIn; omega, by rw [flatten_even]; exact e⟩
  · rcases lin_surj (i - R * C) (R - 1) (C - 1) (by omega) (by omega) (by unfold nQubits at h1; omega)
      with ⟨a, b, a0, a1, b0, b1, e⟩
    exact ⟨2 * a + 1, 2 * b + 1, by unfold SiteIn; omega, by rw [flatten_odd]; omega⟩

/-! ### B. the planar `site` / `sites` as instances of the generic site operators of `Lemmas/Symplectic.lean` -/

/-- number of qubits as a `Nat` -/
def nq (R C : Int) : Nat := (nQubits R C).toNat
/-- flat index of a site as a `Nat` -/
def fl (R C : Int) (rc : Int × Int) : Nat := (flatten R C rc.1 rc.2).toNat
/-- the in-bounds test on index pairs -/
def dom (R C : Int) (rc : Int × Int) : Bool := inBounds R C rc.1 rc.2

theorem site_eq_gsite (R C : Int) (op : P1) (v : BVec) (rc : Int × Int) :
    site R C op v rc = gsite (nq R C) (dom R C) (fl R C) op v rc := rfl

theorem sites_eq_gsites (R C : Int) (op : P1) (v : BVec) (l : List (Int × Int)) :
    sites R C op v l = gsites (nq R C) (dom R C) (fl R C) op v l := rfl

theorem identity_eq (R C : Int) : identity R C = zeros (2 * nq R C) := rfl

theorem identity_length (R C : Int) : (identity R C).length = 2 * nq R C := by
  simp [identity, zeros, nq]

theorem getD_identity (R C : Int) (j : Nat) : (identity R C).getD j false = false := getD_zeros _ _

/-- all entries are site indices -/
def AllSites (l : List (Int × Int)) : Prop := ∀ rc ∈ l, (rc.1 + rc.2) % 2 = 0

theorem fl_lt (R C : Int) (hR : 2 ≤ R) (hC : 2 ≤ C) (rc : Int × Int) (hs : (rc.1 + rc.2) % 2 = 0)
    (hb : inBounds R C rc.1 rc.2 = true) : fl R C rc < nq R C := by
  have := flatten_lt R C rc.1 rc.2 hR hC (by rw [inBounds_iff] at hb; unfold SiteIn; omega)
  unfold fl nq; omega

theorem flatLt_of_allSites (R C : Int) (hR : 2 ≤ R) (hC : 2 ≤ C) (l : List (Int × Int)) (hl : AllSites l) :
    FlatLt (nq R C) (dom R C) (fl R C) l :=
  fun rc hrc hb => fl_lt R C hR hC rc (hl rc hrc) hb

/-- parity of the number of occurrences of `rc` in `l` -/
def occ (l : List (Int × Int)) (rc : Int × Int) : Bool := xorSum l (fun rc' => decide (rc' = rc))

theorem fl_inj (R C : Int) (rc rc' : Int × Int) (hs : (rc.1 + rc.2) % 2 = 0) (hb : inBounds R C rc.1 rc.2 = true)
    (hs' : (rc'.1 + rc'.2) % 2 = 0) (hb' : inBounds R C rc'.1 rc'.2 = true) (h : fl R C rc' = fl R C rc)
    (hR : 2 ≤ R) (hC : 2 ≤ C) : rc' = rc := by
  rw [inBounds_iff] at hb hb'
  have s : SiteIn R C rc.1 rc.2 := by unfold SiteIn; omega
  have s' : SiteIn R C rc'.1 rc'.2 := by unfold SiteIn; omega
  have b := flatten_lt R C _ _ hR hC s
  have b' := flatten_lt R C _ _ hR hC s'
  have := flatten_inj R C _ _ _ _ s' s (by unfold fl at h; omega)
  exact Prod.ext this.1 this.2

/-- by injectivity of `flatten`, coincidence of flat indices is coincidence of sites -/
theorem occF_eq_occ (R C : Int) (hR : 2 ≤ R) (hC : 2 ≤ C) (l : List (Int × Int)) (hl : AllSites l)
    (s : Int × Int) (h2 : (s.1 + s.2) % 2 = 0) (b2 : inBounds R C s.1 s.2 = true) :
    occF (dom R C) (fl R C) l (fl R C s) = occ l s := by
  unfold occF occ
  apply xorSum_congr
  intro rc hrc
  by_cases he : rc = s
  · subst he; simp [dom, b2]
  · by_cases b1 : dom R C rc = true
    · have : ¬ (fl R C rc = fl R C s) := fun h => he (fl_inj R C s rc h2 b2 (hl rc hrc) b1 h hR hC)
      simp [this, he]
    · simp [b1, he]

theorem sites_length (R C : Int) (op : P1) (v : BVec) (l : List (Int × Int)) :
    (sites R C op v l).length = v.length := gsites_length _ _ _ op v l

/-- `bsp` of two site operators of the same type vanishes -/
theorem bsp_sites_same (R C : Int) (hR : 2 ≤ R) (hC : 2 ≤ C) (z : Bool) (l1 l2 : List (Int × Int))
    (h1 : AllSites l1) (h2 : AllSites l2) :
    bsp (sites R C (opOf z) (identity R C) l1) (sites R C (opOf z) (identity R C) l2) = false :=
  bsp_gsites_same (nq R C) (dom R C) (fl R C) z l1 l2 (flatLt_of_allSites R C hR hC l1 h1)
    (flatLt_of_allSites R C hR hC l2 h2)

/-- `bsp` of an X-type and a Z-type site operator (either order): parity of the number of pairs of equal
    in-bounds sites -/
theorem bsp_sites_diff' (R C : Int) (hR : 2 ≤ R) (hC : 2 ≤ C) (z z' : Bool) (hz : z' = !z) (l1 l2 : List (Int × Int))
    (h1 : AllSites l1) (h2 : AllSites l2) :
    bsp (sites R C (opOf z) (identity R C) l1) (sites R C (opOf z') (identity R C) l2) =
      xorSum l2 (fun rc => inBounds R C rc.1 rc.2 && occ l1 rc) := by
  have := bsp_gsites_diff' (nq R C) (dom R C) (fl R C) z z' hz l1 l2 (flatLt_of_allSites R C hR hC l1 h1)
    (flatLt_of_allSites R C hR hC l2 h2)
  rw [sites_eq_gsites, sites_eq_gsites, identity_eq, this]
  apply xorSum_congr
  intro rc hrc
  by_cases hb : inBounds R C rc.1 rc.2 = true
  · rw [occF_eq_occ R C hR hC l1 h1 rc (h2 rc hrc) hb]; rfl
  · simp [dom, hb]

theorem bsp_sites_diff (R C : Int) (hR : 2 ≤ R) (hC : 2 ≤ C) (z : Bool) (l1 l2 : List (Int × Int))
    (h1 : AllSites l1) (h2 : AllSites l2) :
    bsp (sites R C (opOf z) (identity R C) l1) (sites R C (opOf (!z)) (identity R C) l2) =
      xorSum l2 (fun rc => inBounds R C rc.1 rc.2 && occ l1 rc) :=
  bsp_sites_diff' R C hR hC z (!z) rfl l1 l2 h1 h2

/-! ### C. overlap parities -/

theorem inBounds_eq_decide (R C r c : Int) :
    inBounds R C r c = decide (0 ≤ r ∧ r ≤ 2 * R - 2 ∧ 0 ≤ c ∧ c ≤ 2 * C - 2) := by
  rw [Bool.eq_iff_iff, inBounds_iff]; simp

/-- sites `(0,M), (2,M), …, (2k−2,M)` -/
def colRun (k : Nat) (M : Int) : List (Int × Int) := (List.range k).map fun (i : Nat) => (2 * (i : Int), M)
/-- sites `(M,0), (M,2), …, (M,2k−2)` -/
def rowRun (k : Nat) (M : Int) : List (Int × Int) := (List.range k).map fun (i : Nat) => (M, 2 * (i : Int))

theorem occ_colRun (k : Nat) (M r c : Int) :
    occ (colRun k M) (r, c) = decide (c = M ∧ r % 2 = 0 ∧ 0 ≤ r ∧ r < 2 * k) := by
  induction k with
  | zero =>
    simp only [colRun, List.range_zero, List.map_nil, occ, xorSum_nil]
    symm; apply decide_eq_false; omega
  | succ k ih =>
    unfold occ colRun at ih ⊢
    rw [List.range_succ, List.map_append, xorSum_append, ih]
    simp only [List.map_cons, List.map_nil, xorSum_cons, xorSum_nil, Bool.xor_false, Prod.mk.injEq]
    rw [xor_decide]
    apply decide_eq_decide.mpr; omega

theorem occ_rowRun (k : Nat) (M r c : Int) :
    occ (rowRun k M) (r, c) = decide (r = M ∧ c % 2 = 0 ∧ 0 ≤ c ∧ c < 2 * k) := by
  induction k with
  | zero =>
    simp only [rowRun, List.range_zero, List.map_nil, occ, xorSum_nil]
    symm; apply decide_eq_false; omega
  | succ k ih =>
    unfold occ rowRun at ih ⊢
    rw [List.range_succ, List.map_append, xorSum_append, ih]
    simp only [List.map_cons, List.map_nil, xorSum_cons, xorSum_nil, Bool.xor_false, Prod.mk.injEq]
    rw [xor_decide]
    apply decide_eq_decide.mpr; omega

theorem occ_plaq (pr pc r c : Int) :
    occ (plaquetteSites pr pc) (r, c) =
      decide ((c = pc ∧ (r = pr - 1 ∨ r = pr + 1)) ∨ (r = pr ∧ (c = pc - 1 ∨ c = pc + 1))) := by
  simp only [occ, plaquetteSites, xorSum_cons, xorSum_nil, Bool.xor_false, Prod.mk.injEq]
  simp only [xor_decide]
  apply decide_eq_decide.mpr; omega


/-- an in-lattice plaquette -/
def RealP (R C : Int) (p : Int × Int) : Prop :=
  0 ≤ p.1 ∧ p.1 ≤ 2 * R - 2 ∧ 0 ≤ p.2 ∧ p.2 ≤ 2 * C - 2 ∧ (p.1 + p.2) % 2 = 1

theorem xorSum_plaq (pr pc : Int) (f : Int × Int → Bool) :
    xorSum (plaquetteSites pr pc) f = (f (pr - 1, pc) ^^ (f (pr + 1, pc) ^^ (f (pr, pc - 1) ^^ f (pr, pc + 1)))) := by
  simp [plaquetteSites]

/-- two in-lattice plaquettes of opposite type share an even number of in-lattice sites -/
theorem ov_plaq_plaq (R C : Int) (p q : Int × Int) (hp : RealP R C p) (hq : RealP R C q)
    (hpq : p.1 % 2 ≠ q.1 % 2) :
    xorSum (plaquetteSites q.1 q.2) (fun rc => inBounds R C rc.1 rc.2 && occ (plaquetteSites p.1 p.2) rc) = false := by
  obtain ⟨pr, pc⟩ := p
  obtain ⟨qr, qc⟩ := q
  unfold RealP at hp hq
  simp only at hp hq hpq
  rw [xorSum_plaq]
  simp only [occ_plaq, inBounds_eq_decide, ← Bool.decide_and]
  have t1 : decide ((0 ≤ qr - 1 ∧ qr - 1 ≤ 2 * R - 2 ∧ 0 ≤ qc ∧ qc ≤ 2 * C - 2) ∧
      (qc = pc ∧ (qr - 1 = pr - 1 ∨ qr - 1 = pr + 1) ∨ qr - 1 = pr ∧ (qc = pc - 1 ∨ qc = pc + 1))) =
      decide (qr - 1 = pr ∧ (qc = pc - 1 ∨ qc = pc + 1)) := by
    apply decide_eq_decide.mpr; omega
  have t2 : decide ((0 ≤ qr + 1 ∧ qr + 1 ≤ 2 * R - 2 ∧ 0 ≤ qc ∧ qc ≤ 2 * C - 2) ∧
      (qc = pc ∧ (qr + 1 = pr - 1 ∨ qr + 1 = pr + 1) ∨ qr + 1 = pr ∧ (qc = pc - 1 ∨ qc = pc + 1))) =
      decide (qr + 1 = pr ∧ (qc = pc - 1 ∨ qc = pc + 1)) := by
    apply decide_eq_decide.mpr; omega
  have t3 : decide ((0 ≤ qr ∧ qr ≤ 2 * R - 2 ∧ 0 ≤ qc - 1 ∧ qc - 1 ≤ 2 * C - 2) ∧
      (qc - 1 = pc ∧ (qr = pr - 1 ∨ qr = pr + 1) ∨ qr = pr ∧ (qc - 1 = pc - 1 ∨ qc - 1 = pc + 1))) =
      decide (qc - 1 = pc ∧ (qr = pr - 1 ∨ qr = pr + 1)) := by
    apply decide_eq_decide.mpr; omega
  have t4 : decide ((0 ≤ qr ∧ qr ≤ 2 * R - 2 ∧ 0 ≤ qc + 1 ∧ qc + 1 ≤ 2 * C - 2) ∧
      (qc + 1 = pc ∧ (qr = pr - 1 ∨ qr = pr + 1) ∨ qr = pr ∧ (qc + 1 = pc - 1 ∨ qc + 1 = pc + 1))) =
      decide (qc + 1 = pc ∧ (qr = pr - 1 ∨ qr = pr + 1)) := by
    apply decide_eq_decide.mpr; omega
  rw [t1, t2, t3, t4]
  simp only [xor_decide]
  apply decide_eq_false; omega


/-- a vertical run of sites in column `M` from the top boundary meets a primal plaquette `p` in an odd number
    of in-lattice sites iff the run ends just above `p` -/
theorem ov_colRun_primal (R C : Int) (p : Int × Int) (hp : RealP R C p) (hpr : p.1 % 2 = 1) (k : Nat) (M : Int) :
    xorSum (plaquetteSites p.1 p.2) (fun rc => inBounds R C rc.1 rc.2 && occ (colRun k M) rc) =
      decide (p.2 = M ∧ 2 * (k : Int) = p.1 + 1) := by
  obtain ⟨pr, pc⟩ := p
  unfold RealP at hp
  simp only at hp hpr
  rw [xorSum_plaq]
  simp only [occ_colRun, inBounds_eq_decide, ← Bool.decide_and]
  have t1 : decide ((0 ≤ pr - 1 ∧ pr - 1 ≤ 2 * R - 2 ∧ 0 ≤ pc ∧ pc ≤ 2 * C - 2) ∧
      pc = M ∧ (pr - 1) % 2 = 0 ∧ 0 ≤ pr - 1 ∧ pr - 1 < 2 * (k : Int)) = decide (pc = M ∧ pr - 1 < 2 * (k : Int)) := by
    apply decide_eq_decide.mpr; omega
  have t2 : decide ((0 ≤ pr + 1 ∧ pr + 1 ≤ 2 * R - 2 ∧ 0 ≤ pc ∧ pc ≤ 2 * C - 2) ∧
      pc = M ∧ (pr + 1) % 2 = 0 ∧ 0 ≤ pr + 1 ∧ pr + 1 < 2 * (k : Int)) = decide (pc = M ∧ pr + 1 < 2 * (k : Int)) := by
    apply decide_eq_decide.mpr; omega
  have t3 : decide ((0 ≤ pr ∧ pr ≤ 2 * R - 2 ∧ 0 ≤ pc - 1 ∧ pc - 1 ≤ 2 * C - 2) ∧
      pc - 1 = M ∧ pr % 2 = 0 ∧ 0 ≤ pr ∧ pr < 2 * (k : Int)) = false := by
    apply decide_eq_false; omega
  have t4 : decide ((0 ≤ pr ∧ pr ≤ 2 * R - 2 ∧ 0 ≤ pc + 1 ∧ pc + 1 ≤ 2 * C - 2) ∧
      pc + 1 = M ∧ pr % 2 = 0 ∧ 0 ≤ pr ∧ pr < 2 * (k : Int)) = false := by
    apply decide_eq_false; omega
  rw [t1, t2, t3, t4]
  simp only [Bool.xor_false, xor_decide]
  apply decide_eq_decide.mpr; omega

/-- a horizontal run of sites in row `M` from the left boundary meets a dual plaquette `p` in an odd number
    of in-lattice sites iff the run ends just left of `p` -/
theorem ov_rowRun_dual (R C : Int) (p : Int × Int) (hp : RealP R C p) (hpr : p.1 % 2 = 0) (k : Nat) (M : Int) :
    xorSum (plaquetteSites p.1 p.2) (fun rc => inBounds R C rc.1 rc.2 && occ (rowRun k M) rc) =
      decide (p.1 = M ∧ 2 * (k : Int) = p.2 + 1) := by
  obtain ⟨pr, pc⟩ := p
  unfold RealP at hp
  simp only at hp hpr
  rw [xorSum_plaq]
  simp only [occ_rowRun, inBounds_eq_decide, ← Bool.decide_and]
  have t1 : decide ((0 ≤ pr - 1 ∧ pr - 1 ≤ 2 * R - 2 ∧ 0 ≤ pc ∧ pc ≤ 2 * C - 2) ∧
      pr - 1 = M ∧ pc % 2 = 0 ∧ 0 ≤ pc ∧ pc < 2 * (k : Int)) = false := by
    apply decide_eq_false; omega
  have t2 : decide ((0 ≤ pr + 1 ∧ pr + 1 ≤ 2 * R - 2 ∧ 0 ≤ pc ∧ pc ≤ 2 * C - 2) ∧
      pr + 1 = M ∧ pc % 2 = 0 ∧ 0 ≤ pc ∧ pc < 2 * (k : Int)) = false := by
    apply decide_eq_false; omega
  have t3 : decide ((0 ≤ pr ∧ pr ≤ 2 * R - 2 ∧ 0 ≤ pc - 1 ∧ pc - 1 ≤ 2 * C - 2) ∧
      pr = M ∧ (pc - 1) % 2 = 0 ∧ 0 ≤ pc - 1 ∧ pc - 1 < 2 * (k : Int)) = decide (pr = M ∧ pc - 1 < 2 * (k : Int)) := by
    apply decide_eq_decide.mpr; omega
  have t4 : decide ((0 ≤ pr ∧ pr ≤ 2 * R - 2 ∧ 0 ≤ pc + 1 ∧ pc + 1 ≤ 2 * C - 2) ∧
      pr = M ∧ (pc + 1) % 2 = 0 ∧ 0 ≤ pc + 1 ∧ pc + 1 < 2 * (k : Int)) = decide (pr = M ∧ pc + 1 < 2 * (k : Int)) := by
    apply decide_eq_decide.mpr; omega
  rw [t1, t2, t3, t4]
  simp only [Bool.false_xor, xor_decide]
  apply decide_eq_decide.mpr; omega

/-- the column of logical X and the row of logical Z share exactly the corner site -/
theorem ov_col_row (R C : Int) (hR : 2 ≤ R) (hC : 2 ≤ C) :
    xorSum (rowRun C.toNat (2 * R - 2))
      (fun rc => inBounds R C rc.1 rc.2 && occ (colRun R.toNat (2 * C - 2)) rc) = true := by
  unfold rowRun
  rw [xorSum_map]
  have : ∀ i ∈ List.range C.toNat,
      (inBounds R C (2 * R - 2) (2 * (i : Int)) && occ (colRun R.toNat (2 * C - 2)) (2 * R - 2, 2 * (i : Int))) =
        decide (i = C.toNat - 1) := by
    intro i hi
    have hi' := List.mem_range.mp hi
    rw [occ_colRun, inBounds_eq_decide, ← Bool.decide_and]
    apply decide_eq_decide.mpr; omega
  rw [xorSum_congr _ _ _ this, xorSum_range_eq]
  apply decide_eq_true; omega

theorem allSites_plaq (pr pc : Int) (h : (pr + pc) % 2 = 1) : AllSites (plaquetteSites pr pc) := by
  intro rc hrc
  simp only [plaquetteSites, List.mem_cons, List.not_mem_nil, or_false] at hrc
  rcases hrc with rfl | rfl | rfl | rfl <;> simp only <;> omega

theorem allSites_colRun (k : Nat) (M : Int) (hM : M % 2 = 0) : AllSites (colRun k M) := by
  intro rc hrc
  simp only [colRun, List.mem_map] at hrc
  rcases hrc with ⟨i, _, rfl⟩
  simp only; omega

theorem allSites_rowRun (k : Nat) (M : Int) (hM : M % 2 = 0) : AllSites (rowRun k M) := by
  intro rc hrc
  simp only [rowRun, List.mem_map] at hrc
  rcases hrc with ⟨i, _, rfl⟩
  simp only; omega




/-! ### D. the plaquette index list -/

/-- all lattice indices in `np.ndindex` order -/
def allIdx (R C : Int) : List (Int × Int) :=
  (List.range (maxRow R + 1).toNat).flatMap fun (r : Nat) =>
    (List.range (maxCol C + 1).toNat).map fun (c : Nat) => ((r : Int), (c : Int))

theorem plaquetteIndices_eq (R C : Int) :
    plaquetteIndices R C =
      ((allIdx R C).filter fun rc => isPlaquette rc.1 rc.2).filter (fun rc => isPrimal rc.1 rc.2) ++
      ((allIdx R C).filter fun rc => isPlaquette rc.1 rc.2).filter (fun rc => !isPrimal rc.1 rc.2) := rfl

theorem mem_allIdx (R C : Int) (p : Int × Int) :
    p ∈ allIdx R C ↔ 0 ≤ p.1 ∧ p.1 ≤ 2 * R - 2 ∧ 0 ≤ p.2 ∧ p.2 ≤ 2 * C - 2 := by
  simp only [allIdx, List.mem_flatMap, List.mem_map, List.mem_range, maxRow, maxCol]
  constructor
  · rintro ⟨r, hr, c, hc, rfl⟩
    simp only; omega
  · intro h
    refine ⟨p.1.toNat, by omega, p.2.toNat, by omega, ?_⟩
    apply Prod.ext <;> simp only <;> omega

theorem allIdx_nodup (R C : Int) : (allIdx R C).Nodup := by
  unfold allIdx
  rw [List.nodup_flatMap]
  constructor
  · intro r _
    apply List.Nodup.map
    · intro a b h; simp only [Prod.mk.injEq] at h; omega
    · exact List.nodup_range
  · apply List.Pairwise.imp _ List.nodup_range
    intro a b hab
    simp only [Function.onFun, List.disjoint_left, List.mem_map]
    rintro x ⟨c, _, rfl⟩ ⟨c', _, h⟩
    simp only [Prod.mk.injEq] at h
    omega

theorem mem_plaquetteIndices (R C : Int) (p : Int × Int) : p ∈ plaquetteIndices R C ↔ RealP R C p := by
  rw [plaquetteIndices_eq]
  simp only [List.mem_append, List.mem_filter, mem_allIdx, isPlaquette_iff, RealP]
  constructor
  · rintro (h | h) <;> omega
  · intro h
    by_cases hp : isPrimal p.1 p.2 = true
    · left; exact ⟨⟨by omega, by omega⟩, hp⟩
    · right; exact ⟨⟨by omega, by omega⟩, by simpa using hp⟩

theorem plaquetteIndices_nodup (R C : Int) : (plaquetteIndices R C).Nodup := by
  rw [plaquetteIndices_eq]
  apply List.Nodup.append
  · exact ((allIdx_nodup R C).filter _).filter _
  · exact ((allIdx_nodup R C).filter _).filter _
  · intro x h1 h2
    simp only [List.mem_filter] at h1 h2
    simp [h1.2] at h2


theorem countP_add_not {α : Type} (p : α → Bool) (l : List α) :
    List.countP p l + List.countP (fun x => !p x) l = l.length := by
  induction l with
  | nil => rfl
  | cons x l ih =>
    simp only [List.countP_cons, List.length_cons]
    cases h : p x <;> simp <;> omega

theorem isPlaq_nat (r c : Nat) : isPlaquette (r : Int) (c : Int) = decide ((r + c) % 2 = 1) := by
  unfold isPlaquette
  rw [Bool.eq_iff_iff]
  simp only [beq_iff_eq, decide_eq_true_eq]
  omega

theorem cnt_row (r m : Nat) :
    List.countP (fun c : Nat => decide ((r + c) % 2 = 1)) (List.range (2 * m + 1)) = if r % 2 = 0 then m else m + 1 := by
  induction m with
  | zero =>
    simp only [Nat.mul_zero, Nat.zero_add, List.range_one, List.countP_cons, List.countP_nil, Nat.add_zero]
    by_cases h : r % 2 = 0
    · have h1 : ¬ r % 2 = 1 := by omega
      simp [h]
    · have h1 : r % 2 = 1 := by omega
      simp [h1]
  | succ m ih =>
    rw [show 2 * (m + 1) + 1 = (2 * m + 1) + 1 + 1 by omega, List.range_succ, List.range_succ,
      List.countP_append, List.countP_append, ih]
    simp only [List.countP_cons, List.countP_nil, Nat.zero_add]
    by_cases h : r % 2 = 0
    · have h1 : (r + (2 * m + 1)) % 2 = 1 := by omega
      have h2 : ¬ (r + (2 * m + 1 + 1)) % 2 = 1 := by omega
      simp [h, h1, h2]
    · have h1 : ¬ (r + (2 * m + 1)) % 2 = 1 := by omega
      have h2 : (r + (2 * m + 1 + 1)) % 2 = 1 := by omega
      simp [h, h1, h2]

theorem sum_rows (a m : Nat) :
    ((List.range (2 * a + 1)).map (fun r : Nat => if r % 2 = 0 then m else m + 1)).sum = (a + 1) * m + a * (m + 1) := by
  induction a with
  | zero => simp
  | succ a ih =>
    rw [show 2 * (a + 1) + 1 = (2 * a + 1) + 1 + 1 by omega, List.range_succ, List.range_succ,
      List.map_append, List.map_append, List.sum_append, List.sum_append, ih]
    have h1 : ¬ (2 * a + 1) % 2 = 0 := by omega
    have h2 : (2 * a + 1 + 1) % 2 = 0 := by omega
    simp only [List.map_cons, List.map_nil, List.sum_cons, List.sum_nil, h1, h2, if_true, if_false]
    ring

theorem plaquetteIndices_length (R C : Int) (hR : 2 ≤ R) (hC : 2 ≤ C) :
    ((plaquetteIndices R C).length : Int) = nQubits R C - 1 := by
  obtain ⟨a, rfl⟩ : ∃ a : Nat, R = (a : Int) + 1 := ⟨(R - 1).toNat, by omega⟩
  obtain ⟨m, rfl⟩ : ∃ m : Nat, C = (m : Int) + 1 := ⟨(C - 1).toNat, by omega⟩
  have hlen : (plaquetteIndices ((a : Int) + 1) ((m : Int) + 1)).length = (a + 1) * m + a * (m + 1) := by
    rw [plaquetteIndices_eq, List.length_append, ← List.countP_eq_length_filter, ← List.countP_eq_length_filter,
      countP_add_not, ← List.countP_eq_length_filter]
    unfold allIdx
    rw [List.countP_flatMap]
    have e1 : (maxRow ((a : Int) + 1) + 1).toNat = 2 * a + 1 := by unfold maxRow; omega
    have e2 : (maxCol ((m : Int) + 1) + 1).toNat = 2 * m + 1 := by unfold maxCol; omega
    rw [e1, e2, ← sum_rows]
    congr 1
    apply List.map_congr_left
    intro r _
    simp only [Function.comp, List.countP_map]
    rw [← cnt_row]
    apply List.countP_congr
    intro c _
    simp only [Function.comp, isPlaq_nat]
  rw [hlen]
  unfold nQubits
  push_cast
  ring




/-! ### E. stabilizers, logicals and destabilisers as site operators -/

/-- the stabilizer generator of plaquette `p` -/
def stabOp (R C : Int) (p : Int × Int) : BVec :=
  sites R C (opOf (isPrimal p.1 p.2)) (identity R C) (plaquetteSites p.1 p.2)

theorem stabilizers_eq_map (R C : Int) : stabilizers R C = (plaquetteIndices R C).map (stabOp R C) := rfl

theorem logicalX_eq (R C : Int) :
    logicalX R C = sites R C (opOf false) (identity R C) (colRun R.toNat (2 * C - 2)) := rfl
theorem logicalZ_eq (R C : Int) :
    logicalZ R C = sites R C (opOf true) (identity R C) (rowRun C.toNat (2 * R - 2)) := rfl

/-- destabiliser run of a plaquette: primal — the sites above it in its column up to the top boundary;
    dual — the sites left of it in its row up to the left boundary -/
def destabSites (p : Int × Int) : List (Int × Int) :=
  if p.1 % 2 = 1 then colRun ((p.1 + 1) / 2).toNat p.2 else rowRun ((p.2 + 1) / 2).toNat p.1

/-- destabiliser of plaquette `p`: X-type on the run for primal (Z-type) plaquettes, Z-type for dual ones -/
def destabOp (R C : Int) (p : Int × Int) : BVec :=
  sites R C (opOf (!isPrimal p.1 p.2)) (identity R C) (destabSites p)

theorem isPrimal_plaq (r c : Int) (h : (r + c) % 2 = 1) : isPrimal r c = decide (r % 2 = 1) := by
  have h1 : isPlaquette r c = true := (isPlaquette_iff r c).mpr h
  rw [Bool.eq_iff_iff]
  simp only [isPrimal, isSite, h1, Bool.true_and, Bool.not_true, Bool.false_and, Bool.or_false, beq_iff_eq,
    decide_eq_true_eq]

theorem siteop_length (R C : Int) (z : Bool) (l : List (Int × Int)) :
    (sites R C (opOf z) (identity R C) l).length = 2 * nq R C := by
  rw [sites_length, identity_length]

theorem stabOp_length (R C : Int) (p : Int × Int) : (stabOp R C p).length = 2 * nq R C := siteop_length _ _ _ _
theorem destabOp_length (R C : Int) (p : Int × Int) : (destabOp R C p).length = 2 * nq R C := siteop_length _ _ _ _

theorem allSites_destab (p : Int × Int) (hp : (p.1 + p.2) % 2 = 1) : AllSites (destabSites p) := by
  unfold destabSites
  split
  · exact allSites_colRun _ _ (by omega)
  · exact allSites_rowRun _ _ (by omega)

theorem bsp_flip (R C : Int) (z z' : Bool) (l l' : List (Int × Int)) :
    bsp (sites R C (opOf z) (identity R C) l) (sites R C (opOf z') (identity R C) l') =
      bsp (sites R C (opOf z') (identity R C) l') (sites R C (opOf z) (identity R C) l) :=
  bsp_comm _ _ (by rw [siteop_length, siteop_length]) (by rw [siteop_length]; omega)

/-- two stabilizer generators commute -/
theorem bsp_stab_stab (R C : Int) (hR : 2 ≤ R) (hC : 2 ≤ C) (p q : Int × Int) (hp : RealP R C p) (hq : RealP R C q) :
    bsp (stabOp R C p) (stabOp R C q) = false := by
  have sp := allSites_plaq p.1 p.2 hp.2.2.2.2
  have sq := allSites_plaq q.1 q.2 hq.2.2.2.2
  unfold stabOp
  rw [isPrimal_plaq _ _ hp.2.2.2.2, isPrimal_plaq _ _ hq.2.2.2.2]
  by_cases h : p.1 % 2 = q.1 % 2
  · have : decide (q.1 % 2 = 1) = decide (p.1 % 2 = 1) := by apply decide_eq_decide.mpr; omega
    rw [this]
    exact bsp_sites_same R C hR hC _ _ _ sp sq
  · have : decide (q.1 % 2 = 1) = !decide (p.1 % 2 = 1) := by
      rw [← decide_not]; apply decide_eq_decide.mpr; omega
    rw [this, bsp_sites_diff R C hR hC _ _ _ sp sq]
    exact ov_plaq_plaq R C p q hp hq h

/-- the destabiliser of `q` anticommutes with the generator of `p` iff `p = q` -/
theorem bsp_stab_destab (R C : Int) (hR : 2 ≤ R) (hC : 2 ≤ C) (p q : Int × Int) (hp : RealP R C p) (hq : RealP R C q) :
    bsp (stabOp R C p) (destabOp R C q) = decide (p = q) := by
  have sp := allSites_plaq p.1 p.2 hp.2.2.2.2
  have sq := allSites_destab q hq.2.2.2.2
  unfold stabOp destabOp
  rw [isPrimal_plaq _ _ hp.2.2.2.2, isPrimal_plaq _ _ hq.2.2.2.2]
  by_cases h : p.1 % 2 = q.1 % 2
  · have e : decide (q.1 % 2 = 1) = decide (p.1 % 2 = 1) := by apply decide_eq_decide.mpr; omega
    rw [bsp_flip, e, bsp_sites_diff' R C hR hC _ _ (Bool.not_not _).symm _ _ sq sp]
    unfold RealP at hp hq
    by_cases hp1 : p.1 % 2 = 1
    · have : destabSites q = colRun ((q.1 + 1) / 2).toNat q.2 := by unfold destabSites; rw [if_pos (by omega)]
      rw [this, ov_colRun_primal R C p hp hp1]
      apply decide_eq_decide.mpr
      constructor
      · intro h; apply Prod.ext <;> omega
      · rintro rfl; omega
    · have : destabSites q = rowRun ((q.2 + 1) / 2).toNat q.1 := by unfold destabSites; rw [if_neg (by omega)]
      rw [this, ov_rowRun_dual R C p hp (by omega)]
      apply decide_eq_decide.mpr
      constructor
      · intro h; apply Prod.ext <;> omega
      · rintro rfl; omega
  · have e : (!decide (q.1 % 2 = 1)) = decide (p.1 % 2 = 1) := by
      rw [← decide_not]; apply decide_eq_decide.mpr; omega
    rw [e, bsp_sites_same R C hR hC _ _ _ sp sq]
    symm; apply decide_eq_false
    rintro rfl; exact h rfl

theorem bsp_stab_logicalX (R C : Int) (hR : 2 ≤ R) (hC : 2 ≤ C) (p : Int × Int) (hp : RealP R C p) :
    bsp (stabOp R C p) (logicalX R C) = false := by
  have sp := allSites_plaq p.1 p.2 hp.2.2.2.2
  have sx := allSites_colRun R.toNat (2 * C - 2) (by omega)
  rw [logicalX_eq]
  unfold stabOp
  rw [isPrimal_plaq _ _ hp.2.2.2.2]
  by_cases hp1 : p.1 % 2 = 1
  · rw [bsp_flip, show decide (p.1 % 2 = 1) = !false by simp [hp1], bsp_sites_diff R C hR hC _ _ _ sx sp,
      ov_colRun_primal R C p hp hp1]
    unfold RealP at hp
    apply decide_eq_false; omega
  · rw [show decide (p.1 % 2 = 1) = false by simp [hp1]]
    exact bsp_sites_same R C hR hC _ _ _ sp sx

theorem bsp_stab_logicalZ (R C : Int) (hR : 2 ≤ R) (hC : 2 ≤ C) (p : Int × Int) (hp : RealP R C p) :
    bsp (stabOp R C p) (logicalZ R C) = false := by
  have sp := allSites_plaq p.1 p.2 hp.2.2.2.2
  have sz := allSites_rowRun C.toNat (2 * R - 2) (by omega)
  rw [logicalZ_eq]
  unfold stabOp
  rw [isPrimal_plaq _ _ hp.2.2.2.2]
  by_cases hp1 : p.1 % 2 = 1
  · rw [show decide (p.1 % 2 = 1) = true by simp [hp1]]
    exact bsp_sites_same R C hR hC _ _ _ sp sz
  · rw [bsp_flip, show decide (p.1 % 2 = 1) = !true by simp [hp1], bsp_sites_diff R C hR hC _ _ _ sz sp,
      ov_rowRun_dual R C p hp (by unfold RealP at hp; omega)]
    unfold RealP at hp
    apply decide_eq_false; omega

theorem bsp_logicalX_logicalZ (R C : Int) (hR : 2 ≤ R) (hC : 2 ≤ C) : bsp (logicalX R C) (logicalZ R C) = true := by
  rw [logicalX_eq, logicalZ_eq, show true = !false from rfl,
    bsp_sites_diff R C hR hC _ _ _ (allSites_colRun _ _ (by omega)) (allSites_rowRun _ _ (by omega))]
  exact ov_col_row R C hR hC

theorem bsp_logicalX_logicalX (R C : Int) (hR : 2 ≤ R) (hC : 2 ≤ C) : bsp (logicalX R C) (logicalX R C) = false := by
  rw [logicalX_eq]
  exact bsp_sites_same R C hR hC _ _ _ (allSites_colRun _ _ (by omega)) (allSites_colRun _ _ (by omega))

theorem bsp_logicalZ_logicalZ (R C : Int) (hR : 2 ≤ R) (hC : 2 ≤ C) : bsp (logicalZ R C) (logicalZ R C) = false := by
  rw [logicalZ_eq]
  exact bsp_sites_same R C hR hC _ _ _ (allSites_rowRun _ _ (by omega)) (allSites_rowRun _ _ (by omega))




/-! ### F. read-back through `operatorAt` -/

theorem operatorAt_eq (R C : Int) (v : BVec) (s : Int × Int) :
    operatorAt R C v s.1 s.2 = P1.ofBits (v.getD (fl R C s) false) (v.getD (nq R C + fl R C s) false) := rfl

theorem fl_eq_iff (R C : Int) (hR : 2 ≤ R) (hC : 2 ≤ C) (rc s : Int × Int)
    (h1 : (rc.1 + rc.2) % 2 = 0) (b1 : inBounds R C rc.1 rc.2 = true)
    (h2 : (s.1 + s.2) % 2 = 0) (b2 : inBounds R C s.1 s.2 = true) : fl R C rc = fl R C s ↔ rc = s :=
  ⟨fun h => fl_inj R C s rc h2 b2 h1 b1 h hR hC, fun h => by rw [h]⟩

/-- bit of a site operator in its own half: parity of occurrences of the site in the list -/
theorem getD_siteop_same (R C : Int) (hR : 2 ≤ R) (hC : 2 ≤ C) (z : Bool) (l : List (Int × Int)) (hl : AllSites l)
    (s : Int × Int) (h2 : (s.1 + s.2) % 2 = 0) (b2 : inBounds R C s.1 s.2 = true) :
    (sites R C (opOf z) (identity R C) l).getD (off (nq R C) z + fl R C s) false = occ l s := by
  rw [sites_eq_gsites, identity_eq,
    getD_gsiteop_same (nq R C) (dom R C) (fl R C) z l (flatLt_of_allSites R C hR hC l hl),
    occF_eq_occ R C hR hC l hl s h2 b2]

/-- bit of a site operator in the other half vanishes -/
theorem getD_siteop_other (R C : Int) (hR : 2 ≤ R) (hC : 2 ≤ C) (z : Bool) (l : List (Int × Int)) (hl : AllSites l)
    (s : Int × Int) (h2 : (s.1 + s.2) % 2 = 0) (b2 : inBounds R C s.1 s.2 = true) :
    (sites R C (opOf z) (identity R C) l).getD (off (nq R C) (!z) + fl R C s) false = false := by
  rw [sites_eq_gsites, identity_eq]
  exact getD_gsiteop_other (nq R C) (dom R C) (fl R C) z l (flatLt_of_allSites R C hR hC l hl) _
    (fl_lt R C hR hC s h2 b2)

/-- read-back of an X- or Z-type site operator at an in-bounds site -/
theorem operatorAt_siteop (R C : Int) (hR : 2 ≤ R) (hC : 2 ≤ C) (z : Bool) (l : List (Int × Int)) (hl : AllSites l)
    (s : Int × Int) (h2 : (s.1 + s.2) % 2 = 0) (b2 : inBounds R C s.1 s.2 = true) :
    operatorAt R C (sites R C (opOf z) (identity R C) l) s.1 s.2 = if occ l s then opOf z else P1.I := by
  rw [operatorAt_eq]
  have h1 := getD_siteop_same R C hR hC z l hl s h2 b2
  have h0 := getD_siteop_other R C hR hC z l hl s h2 b2
  cases z
  · simp only [off, Bool.false_eq_true, if_false, Nat.zero_add, Bool.not_false, if_true] at h1 h0
    rw [h1, h0]; cases occ l s <;> rfl
  · simp only [off, Bool.false_eq_true, if_false, Nat.zero_add, Bool.not_true, if_true] at h1 h0
    rw [h1, h0]; cases occ l s <;> rfl

/-- read-back of `site(op, rc)` applied to the identity, for every single-qubit operator -/
theorem operatorAt_site (R C : Int) (hR : 2 ≤ R) (hC : 2 ≤ C) (op : P1) (rc s : Int × Int)
    (h1 : (rc.1 + rc.2) % 2 = 0) (b1 : inBounds R C rc.1 rc.2 = true)
    (h2 : (s.1 + s.2) % 2 = 0) (b2 : inBounds R C s.1 s.2 = true) :
    operatorAt R C (site R C op (identity R C) rc) s.1 s.2 = if rc = s then op else P1.I := by
  rw [operatorAt_eq]
  have f := fl_lt R C hR hC rc h1 b1
  have f' := fl_lt R C hR hC s h2 b2
  have hl := identity_length R C
  have e := fl_eq_iff R C hR hC rc s h1 b1 h2 b2
  have key : site R C op (identity R C) rc = applyOp (nq R C) op (identity R C) (fl R C rc) := by
    simp only [site, b1, if_true]; rfl
  rw [key]
  have d1 : decide (fl R C rc = fl R C s) = decide (rc = s) := decide_eq_decide.mpr e
  have d2 : decide (nq R C + fl R C rc = nq R C + fl R C s) = decide (rc = s) := by
    apply decide_eq_decide.mpr; rw [← e]; omega
  have d3 : decide (fl R C rc = nq R C + fl R C s) = false := by apply decide_eq_false; omega
  have d4 : decide (nq R C + fl R C rc = fl R C s) = false := by apply decide_eq_false; omega
  cases op
  · simp only [applyOp, P1.xBit, P1.zBit, Bool.false_eq_true, if_false, getD_identity]
    split <;> rfl
  · simp only [applyOp, P1.xBit, P1.zBit, Bool.false_eq_true, if_false, if_true]
    rw [getD_toggle _ _ _ (by omega), getD_toggle _ _ _ (by omega), getD_identity, getD_identity, d1, d3]
    by_cases h : rc = s <;> simp [h, P1.ofBits]
  · simp only [applyOp, P1.xBit, P1.zBit, if_true]
    have ht : (toggle (identity R C) (fl R C rc)).length = 2 * nq R C := by rw [toggle_length]; exact hl
    rw [getD_toggle _ _ _ (by omega), getD_toggle _ _ _ (by omega),
      getD_toggle _ _ _ (by omega), getD_toggle _ _ _ (by omega), getD_identity, getD_identity, d1, d2, d3, d4]
    by_cases h : rc = s <;> simp [h, P1.ofBits]
  · simp only [applyOp, P1.xBit, P1.zBit, Bool.false_eq_true, if_false, if_true]
    rw [getD_toggle _ _ _ (by omega), getD_toggle _ _ _ (by omega), getD_identity, getD_identity, d2, d4]
    by_cases h : rc = s <;> simp [h, P1.ofBits]



end Qec.PlanarCode
